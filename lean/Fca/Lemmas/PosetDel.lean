/-
  Lemmas/PosetDel — `__delitem__`: `reconnect_relatives` leaves caches that describe the order with index `k`
  ignored (`ClosedR`/`DirectR`), and `decrement_dict` turns those into the `Fresh` values of `E.eraseIdx k`.
-/
import Fca.Lemmas.PosetQuery2
set_option linter.unusedSectionVars false
namespace Fca.Poset
open Fca Fca.Poset.Fresh

section
variable {α : Type} [DecidableEq α] {leq : α → α → Bool} {ord : List Nat → List Nat}
variable {E : List α}

/-! ### keys of an association list -/

theorem mem_dedupKeys {κ β : Type} [DecidableEq κ] {l : List (κ × β)} {k : κ} :
    k ∈ dedupKeys l ↔ (alookup k l).isSome = true := by
  induction l with
  | nil => simp [dedupKeys]
  | cons p l ih =>
    obtain ⟨a, b⟩ := p
    simp only [dedupKeys, List.mem_cons, List.mem_filter, ih, alookup_cons]
    by_cases h : k = a
    · simp [h]
    · simp [h]

theorem nodup_dedupKeys {κ β : Type} [DecidableEq κ] (l : List (κ × β)) : (dedupKeys l).Nodup := by
  induction l with
  | nil => simp [dedupKeys]
  | cons p l ih =>
    simp only [dedupKeys, List.nodup_cons, List.mem_filter, ne_eq, not_true_eq_false, decide_false,
      Bool.false_eq_true, and_false, not_false_eq_true, true_and]
    exact ih.filter _

theorem sat_lookup {k : Nat} {c : Cache} {v : List Nat} {s : St α} {Q : St α → List Nat → Prop}
    (h : alookup k c = some v) (hq : Q s v) : Sat (lookupOrKeyError k c : M α (List Nat)) s Q := by
  unfold lookupOrKeyError
  rw [h]
  exact sat_pure hq

@[simp] theorem setDirect_setDirect (s : St α) (d : Dir) (v w : Cache) :
    (s.setDirect d v).setDirect d w = s.setDirect d w := by
  cases d <;> rfl

@[simp] theorem setClosed_setClosed (s : St α) (d : Dir) (v w : Cache) :
    (s.setClosed d v).setClosed d w = s.setClosed d w := by
  cases d <;> rfl

/-! ### covers when index `k` is ignored -/

/-- `x` is a `d`-cover of `p` in the order on the indexes other than `k` -/
def coverK (leq : α → α → Bool) (d : Dir) (E : List α) (k x p : Nat) : Prop :=
  ltD leq d E x p = true ∧ ∀ z, z ≠ k → ltD leq d E x z = true → ltD leq d E z p = true → False

variable (hpo : IdxPO leq E)
include hpo

/-- if `k` is not a cover of `p`, ignoring `k` does not change the covers of `p` -/
theorem coverK_of_not_cover {d : Dir} {k p x : Nat} (hk : isCover leq d E k p = false) (hx : x ≠ k) :
    coverK leq d E k x p ↔ isCover leq d E x p = true := by
  rw [isCover_iff]
  constructor
  · rintro ⟨h1, h2⟩
    refine ⟨h1, fun z hz1 hz2 => ?_⟩
    by_cases hzk : z = k
    · subst hzk
      -- then z would be a cover of p
      have : isCover leq d E z p = true := by
        rw [isCover_iff]
        refine ⟨hz2, fun w hw1 hw2 => ?_⟩
        have hwk : w ≠ z := fun e => by subst e; rw [ltD_irrefl] at hw1; cases hw1
        exact h2 w hwk (ltD_trans hpo d hz1 hw1) hw2
      rw [hk] at this; cases this
    · exact h2 z hzk hz1 hz2
  · rintro ⟨h1, h2⟩
    exact ⟨h1, fun z _ hz1 hz2 => h2 z hz1 hz2⟩

/-- the patch rule of `reconnect_relatives`: when `k` is a cover of `p`, the covers of `p` with `k` ignored are
    the maximal elements of `(covers p ∪ covers k) \ {k}` -/
theorem coverK_patch {d : Dir} {k p y : Nat} {nc : List Nat} (hkp : isCover leq d E k p = true) (hy : y ≠ k)
    (hnc : ∀ c, c ∈ nc ↔ ((isCover leq d E c p = true ∨ isCover leq d E c k = true) ∧ c ≠ k)) :
    (y ∈ nc ∧ ∀ c ∈ nc, ltD leq d E y c = false) ↔ coverK leq d E k y p := by
  have hkp' := (isCover_iff.mp hkp).1
  have hlt : ∀ c ∈ nc, ltD leq d E c p = true := by
    intro c hc
    rcases ((hnc c).mp hc).1 with h | h
    · exact (isCover_iff.mp h).1
    · exact ltD_trans hpo d (isCover_iff.mp h).1 hkp'
  constructor
  · rintro ⟨hy1, hy2⟩
    refine ⟨hlt y hy1, fun z hzk hz1 hz2 => ?_⟩
    obtain ⟨c', hc', hzc'⟩ := exists_cover_above hpo d hz2
    by_cases hck : c' = k
    · subst hck
      have hzk' : ltD leq d E z c' = true := ltD_iff.mpr ⟨hzc', hzk⟩
      obtain ⟨c'', hc'', hzc''⟩ := exists_cover_above hpo d hzk'
      have hne : c'' ≠ c' := fun e => by
        subst e; have := (isCover_iff.mp hc'').1; rw [ltD_irrefl] at this; cases this
      have : c'' ∈ nc := (hnc c'').mpr ⟨Or.inr hc'', hne⟩
      have h3 := hy2 c'' this
      rw [ltD_of_ltD_relD hpo d hz1 hzc''] at h3; cases h3
    · have : c' ∈ nc := (hnc c').mpr ⟨Or.inl hc', hck⟩
      have h3 := hy2 c' this
      rw [ltD_of_ltD_relD hpo d hz1 hzc'] at h3; cases h3
  · rintro ⟨h1, h2⟩
    have hyn : y ∈ nc := by
      rw [hnc y]
      refine ⟨?_, hy⟩
      by_cases hc : isCover leq d E y p = true
      · exact Or.inl hc
      · right
        -- some z lies between y and p; it can only be k
        have : ∃ z, ltD leq d E y z = true ∧ ltD leq d E z p = true := by
          apply Classical.byContradiction
          intro hne
          apply hc
          rw [isCover_iff]
          exact ⟨h1, fun z hz1 hz2 => hne ⟨z, hz1, hz2⟩⟩
        obtain ⟨z, hz1, hz2⟩ := this
        have hzk : z = k := Classical.byContradiction fun hzk => h2 z hzk hz1 hz2
        subst hzk
        rw [isCover_iff]
        refine ⟨hz1, fun w hw1 hw2 => ?_⟩
        have hwk : w ≠ z := fun e => by subst e; rw [ltD_irrefl] at hw2; cases hw2
        exact h2 w hwk hw1 (ltD_trans hpo d hw2 hz2)
    refine ⟨hyn, fun c hc => ?_⟩
    cases hyc : ltD leq d E y c
    · rfl
    · exact (h2 c ((hnc c).mp hc).2 hyc (hlt c hc)).elim

/-! ### cache predicates used between the stages of `__delitem__` -/
omit hpo

/-- exact w.r.t. `E` -/
def ClosedE (leq : α → α → Bool) (E : List α) (d : Dir) (s : St α) : Prop :=
  ∀ j v, alookup j (s.closed d) = some v → j < E.length ∧ v.Nodup ∧ ∀ x, x ∈ v ↔ ltD leq d E x j = true
def DirectE (leq : α → α → Bool) (E : List α) (d : Dir) (s : St α) : Prop :=
  ∀ j v, alookup j (s.direct d) = some v → j < E.length ∧ v.Nodup ∧ ∀ x, x ∈ v ↔ isCover leq d E x j = true
/-- right when `k` is ignored -/
def ClosedR (leq : α → α → Bool) (E : List α) (k : Nat) (d : Dir) (s : St α) : Prop :=
  ∀ j v, alookup j (s.closed d) = some v →
    j < E.length ∧ v.Nodup ∧ (j ≠ k → ∀ x, x ≠ k → (x ∈ v ↔ ltD leq d E x j = true))
def GoodR (leq : α → α → Bool) (E : List α) (k : Nat) (d : Dir) (p : Nat) (v : List Nat) : Prop :=
  p < E.length ∧ v.Nodup ∧ (p ≠ k → ∀ x, x ≠ k → (x ∈ v ↔ coverK leq d E k x p))
def DirectR (leq : α → α → Bool) (E : List α) (k : Nat) (d : Dir) (s : St α) : Prop :=
  ∀ j v, alookup j (s.direct d) = some v → GoodR leq E k d j v

include hpo

theorem goodR_of_exact {d : Dir} {k p : Nat} {v : List Nat} (hp : p < E.length) (hv : v.Nodup)
    (hx : ∀ x, x ∈ v ↔ isCover leq d E x p = true) (hk : k ∉ v) : GoodR leq E k d p v := by
  refine ⟨hp, hv, fun _ x hxk => ?_⟩
  have : isCover leq d E k p = false := by
    cases h : isCover leq d E k p
    · rfl
    · exact (hk ((hx k).mpr h)).elim
  rw [hx x, coverK_of_not_cover hpo this hxk]

/-- loop invariant of `reconnectDirect` -/
def RDInv (leq : α → α → Bool) (E : List α) (k : Nat) (d : Dir) (s : St α) (pre : List Nat) (s1 : St α) : Prop :=
  ∃ cache, s1 = s.setDirect d cache ∧
    (∀ p, p ∉ pre → alookup p cache = alookup p (s.direct d)) ∧
    (∀ p, p ∈ pre → ∀ v, alookup p cache = some v → GoodR leq E k d p v)

variable (hord : ∀ l, (ord l).Perm l)
include hord

/-- one of the two direct-relation loops of `reconnect_relatives` -/
theorem reconnectDirect_spec (d : Dir) (k : Nat) (own : Option (List Nat))
    (hown : ∀ ch, own = some ch → ch.Nodup ∧ ∀ x, x ∈ ch ↔ isCover leq d E x k = true)
    {s : St α} (hC : ClosedE leq E d s) (hD : DirectE leq E d s) :
    Sat (reconnectDirect ord d k own) s (fun s' _ => ∃ cache, s' = s.setDirect d cache ∧ DirectR leq E k d s') := by
  unfold reconnectDirect
  apply sat_bind
  apply sat_get
  simp only
  generalize hkeys : ((dedupKeys (s.direct d)).filter fun p =>
    match alookup p (s.direct d) with
    | some chs => decide (k ∈ chs)
    | none => false) = keys
  have hkn : keys.Nodup := by subst hkeys; exact (nodup_dedupKeys _).filter _
  have hkm : ∀ p, p ∈ keys ↔ ∃ v, alookup p (s.direct d) = some v ∧ k ∈ v := by
    intro p
    subst hkeys
    rw [List.mem_filter, mem_dedupKeys]
    cases h : alookup p (s.direct d) with
    | none => simp
    | some v => simp
  -- loop invariant
  apply sat_mono (Q := fun s' _ => RDInv leq E k d s keys s')
  apply sat_forM_split (RDInv leq E k d s) _ keys ?_ s
    ⟨s.direct d, by cases d <;> rfl, fun _ _ => rfl, fun p hp => by cases hp⟩
  rotate_left
  · rintro s' _ ⟨cache, rfl, hrest, hdone⟩
    refine ⟨cache, rfl, ?_⟩
    intro j v hl
    rw [direct_setDirect] at hl
    by_cases hj : j ∈ keys
    · exact hdone j hj v hl
    · rw [hrest j hj] at hl
      obtain ⟨h1, h2, h3⟩ := hD j v hl
      have : k ∉ v := fun hk => hj ((hkm j).mpr ⟨v, hl, hk⟩)
      exact goodR_of_exact hpo h1 h2 h3 this
  · -- one iteration
    rintro pre p post s1 hsplit ⟨cache, rfl, hrest, hdone⟩
    have hpp : p ∉ pre := by
      rw [hsplit] at hkn
      have := (List.nodup_append.mp hkn).2.2
      intro hp
      exact this p hp p List.mem_cons_self rfl
    have hpk : p ∈ keys := by rw [hsplit]; simp
    obtain ⟨cur, hcur, hkcur⟩ := (hkm p).mp hpk
    obtain ⟨hpn, hcurn, hcurm⟩ := hD p cur hcur
    have hkp : isCover leq d E k p = true := (hcurm k).mp hkcur
    -- the two possible outcomes re-establish the invariant
    have hErase : RDInv leq E k d s (pre ++ [p])
        ((s.setDirect d cache).setDirect d (aerase p ((s.setDirect d cache).direct d))) := by
      refine ⟨aerase p cache, by simp, ?_, ?_⟩
      · intro q hq
        have hqp : q ≠ p := fun e => hq (by simp [e])
        rw [alookup_aerase, if_neg hqp]
        exact hrest q (fun h => hq (by simp [h]))
      · intro q hq v hv
        rw [alookup_aerase] at hv
        split at hv
        · cases hv
        · rename_i hqp
          have : q ∈ pre := by
            rcases List.mem_append.mp hq with h | h
            · exact h
            · simp at h; exact absurd h hqp
          exact hdone q this v hv
    apply sat_bind
    apply sat_get
    simp only [direct_setDirect, closed_setDirect]
    apply sat_bind
    apply sat_lookup (v := cur) (by rw [hrest p hpp]; exact hcur)
    cases own with
    | none => exact sat_modify hErase
    | some ch =>
      simp only
      obtain ⟨hchn, hchm⟩ := hown ch rfl
      generalize hnc : setDiff (setUnion cur ch) [k] = nc
      have hncn : nc.Nodup := by subst hnc; exact nodup_setDiff (nodup_setUnion hcurn hchn)
      have hncm : ∀ c, c ∈ nc ↔ ((isCover leq d E c p = true ∨ isCover leq d E c k = true) ∧ c ≠ k) := by
        intro c; subst hnc
        rw [mem_setDiff, mem_setUnion, hcurm c, hchm c]; simp
      split
      · rename_i hall
        simp only [List.all_eq_true] at hall
        apply sat_bind
        have hmemC : ∀ y, y ∈ ord nc ↔ y ∈ nc := fun y => (hord nc).mem_iff
        have l2 := sat_foldM (α := α) (fun s' => s' = s.setDirect d cache)
          (fun pre acc => SubInv (leq := leq) d E nc pre acc)
          (fun acc c => do
            let s ← M.get
            let dc ← lookupOrKeyError c (s.closed d)
            pure (setDiff acc dc)) (ord nc) ?_ [] nc _ rfl ⟨hncn, fun y => by simp⟩
        · apply sat_mono l2
          rintro s3 nc' ⟨rfl, hJ⟩
          simp only [List.nil_append] at hJ
          obtain ⟨hnd, hmem⟩ := subInv_final hpo hmemC hJ
          apply sat_modify
          refine ⟨ainsert p nc' cache, by simp, ?_, ?_⟩
          · intro q hq
            have hqp : q ≠ p := fun e => hq (by simp [e])
            rw [alookup_ainsert, if_neg hqp]
            exact hrest q (fun h => hq (by simp [h]))
          · intro q hq v hv
            rw [alookup_ainsert] at hv
            split at hv
            · rename_i hqp; subst hqp
              cases hv
              refine ⟨hpn, hnd, fun _ x hxk => ?_⟩
              rw [hmem x]
              exact coverK_patch hpo hkp hxk hncm
            · rename_i hqp
              have : q ∈ pre := by
                rcases List.mem_append.mp hq with h | h
                · exact h
                · simp at h; exact absurd h hqp
              exact hdone q this v hv
        · rintro pre' c acc s3 hc rfl hJ
          have hcn : c ∈ nc := (hmemC c).mp hc
          have := hall c hcn
          obtain ⟨dc, hdc⟩ := Option.isSome_iff_exists.mp this
          obtain ⟨_, hdcn, hdcm⟩ := hC c dc hdc
          apply sat_bind
          apply sat_get
          simp only [closed_setDirect]
          apply sat_bind
          apply sat_lookup hdc
          apply sat_pure
          exact ⟨rfl, subInv_step_in hJ ⟨hdcn, fun x => by rw [hdcm x, mem_closed]⟩⟩
      · exact sat_modify hErase


omit hpo hord in
/-- `for ancestor in (ancestors or ()): if ancestor in descC: descC[ancestor] -= {item}` -/
theorem reconnectClosed_spec (d : Dir) (k : Nat) (own : Option (List Nat)) {s : St α}
    (hC : ClosedR leq E k d s) :
    Sat (reconnectClosed ord d k own) s
      (fun s' _ => ∃ cache, s' = s.setClosed d cache ∧ ClosedR leq E k d s') := by
  unfold reconnectClosed
  apply sat_forM (fun s' => ∃ cache, s' = s.setClosed d cache ∧ ClosedR leq E k d s') _ _ ?_ s
    ⟨s.closed d, by cases d <;> rfl, hC⟩
  rintro a _ s1 ⟨cache, rfl, h1⟩
  apply sat_bind
  apply sat_get
  cases hl : alookup a ((s.setClosed d cache).closed d) with
  | none => exact sat_pure ⟨cache, rfl, h1⟩
  | some v =>
    apply sat_modify
    simp only [closed_setClosed] at hl ⊢
    refine ⟨ainsert a (setDiff v [k]) cache, by simp, ?_⟩
    intro j w hw
    simp only [setClosed_setClosed, closed_setClosed] at hw
    rw [alookup_ainsert] at hw
    split at hw
    · rename_i e; subst e; cases hw
      obtain ⟨h2, h3, h4⟩ := h1 j v (by simpa using hl)
      refine ⟨h2, nodup_setDiff h3, fun hj x hx => ?_⟩
      rw [mem_setDiff, h4 hj x hx]
      simp [hx]
    · exact h1 j w (by simpa using hw)

/-- what `reconnect_relatives(k)` establishes -/
structure InvR (leq : α → α → Bool) (E : List α) (k : Nat) (s : St α) : Prop where
  leqOk : ∀ a b r, alookup (a, b) s.leqC = some r → a < E.length ∧ b < E.length ∧ r = rel leq E a b
  closedOk : ∀ d, ClosedR leq E k d s
  directOk : ∀ d, DirectR leq E k d s

omit hpo hord in
theorem closedR_of_closedE {d : Dir} {k : Nat} {s : St α} (h : ClosedE leq E d s) : ClosedR leq E k d s := by
  intro j v hl
  obtain ⟨h1, h2, h3⟩ := h j v hl
  exact ⟨h1, h2, fun _ x _ => h3 x⟩

theorem reconnectRelatives_spec {k : Nat} {s : St α} (E0 : List α) (h : InvB leq E Ghost.none true s) :
    Sat (reconnectRelatives ord k) { s with elems := E0 } (fun s' _ =>
      InvR leq E k s' ∧ s'.elems = E0 ∧ s'.useCache = true) := by
  have hCE : ∀ d j v, alookup j (s.closed d) = some v →
      j < E.length ∧ v.Nodup ∧ ∀ x, x ∈ v ↔ ltD leq d E x j = true := by
    intro d j v hl
    obtain ⟨h1, h2, h3⟩ := h.closedOk rfl d j v hl
    exact ⟨h1, h2, h3 h1⟩
  have hDE : ∀ d j v, alookup j (s.direct d) = some v →
      j < E.length ∧ v.Nodup ∧ ∀ x, x ∈ v ↔ isCover leq d E x j = true := by
    intro d j v hl
    obtain ⟨h1, h2, h3⟩ := h.directOk rfl d j v hl
    exact ⟨h1, h2, h3 h1⟩
  unfold reconnectRelatives
  apply sat_bind; apply sat_get
  apply sat_bind; apply sat_modify
  apply sat_bind; apply sat_modify
  apply sat_bind; apply sat_modify
  apply sat_bind; apply sat_modify
  simp only
  obtain ⟨s1, hs1⟩ : ∃ s1 : St α, (⟨E0, s.useCache, s.leqC, aerase k s.descC, aerase k s.ancC, aerase k s.chilC, aerase k s.parC⟩ : St α) = s1 := ⟨_, rfl⟩
  rw [hs1]
  have e1 : ∀ d, s1.closed d = aerase k (s.closed d) := by intro d; subst hs1; cases d <;> rfl
  have e2 : ∀ d, s1.direct d = aerase k (s.direct d) := by intro d; subst hs1; cases d <;> rfl
  have e3 : s1.leqC = s.leqC := by subst hs1; rfl
  have e4 : s1.elems = E0 := by subst hs1; rfl
  have e5 : s1.useCache = true := by subst hs1; exact h.flag
  have hC1 : ∀ d, ClosedE leq E d s1 := by
    intro d j v hl
    rw [e1, alookup_aerase] at hl
    split at hl
    · cases hl
    · exact hCE d j v hl
  have hD1 : ∀ d, DirectE leq E d s1 := by
    intro d j v hl
    rw [e2, alookup_aerase] at hl
    split at hl
    · cases hl
    · exact hDE d j v hl
  have hownD : ∀ d ch, alookup k (s.direct d) = some ch → ch.Nodup ∧ ∀ x, x ∈ ch ↔ isCover leq d E x k = true :=
    fun d ch hl => (hDE d k ch hl).2
  -- children side
  apply sat_bind
  apply sat_mono (reconnectDirect_spec hpo hord .desc k (alookup k s.chilC) (hownD .desc) (hC1 .desc) (hD1 .desc))
  rintro s2 _ ⟨c2, rfl, hR2⟩
  -- parents side
  apply sat_bind
  have hC2 : ClosedE leq E .anc (s1.setDirect .desc c2) := by
    intro j v hl; exact hC1 .anc j v (by simpa using hl)
  have hD2 : DirectE leq E .anc (s1.setDirect .desc c2) := by
    intro j v hl; exact hD1 .anc j v (by simpa [direct_setDirect_any] using hl)
  apply sat_mono (reconnectDirect_spec hpo hord .anc k (alookup k s.parC) (hownD .anc) hC2 hD2)
  rintro s3 _ ⟨c3, rfl, hR3⟩
  -- closed caches
  apply sat_bind
  have hCR3 : ClosedR leq E k .desc ((s1.setDirect .desc c2).setDirect .anc c3) := by
    apply closedR_of_closedE
    intro j v hl; exact hC1 .desc j v (by simpa using hl)
  apply sat_mono (reconnectClosed_spec .desc k (alookup k s.ancC) hCR3)
  rintro s4 _ ⟨c4, rfl, hR4⟩
  have hCR4 : ClosedR leq E k .anc (((s1.setDirect .desc c2).setDirect .anc c3).setClosed .desc c4) := by
    apply closedR_of_closedE
    intro j v hl; exact hC1 .anc j v (by simpa [closed_setClosed_any] using hl)
  apply sat_mono (reconnectClosed_spec .anc k (alookup k s.descC) hCR4)
  rintro s5 _ ⟨c5, rfl, hR5⟩
  refine ⟨⟨?_, ?_, ?_⟩, by simpa using e4, by simpa using e5⟩
  · intro a b r hl
    simp only [leqC_setClosed, leqC_setDirect, e3] at hl
    obtain ⟨h1, h2, h3⟩ := h.leqOk rfl a b r hl
    exact ⟨h1, h2, h3 h1 h2⟩
  · intro d
    cases d
    · intro j v hl; exact hR4 j v (by simpa [closed_setClosed_any] using hl)
    · exact hR5
  · intro d
    cases d
    · intro j v hl; exact hR2 j v (by simpa [direct_setDirect_any] using hl)
    · intro j v hl; exact hR3 j v (by simpa [direct_setDirect_any] using hl)

end
end Fca.Poset

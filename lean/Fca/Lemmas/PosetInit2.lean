/-
  Lemmas/PosetInit2 — the constructor with `children_dict`, part 2: `_closed_relation_cache_by_direct_cache`,
  the comparison table, and the invariant of the constructed state.
-/
import Fca.Lemmas.PosetInit
set_option linter.unusedSectionVars false
namespace Fca.Poset
open Fca Fca.Poset.Fresh

section
variable {α : Type} [DecidableEq α] {leq : α → α → Bool} {E : List α}

/-- the `children_dict` handed to the constructor is the lower-cover relation of `E`:
    every entry lists exactly the lower covers of its key, and every element has an entry -/
structure CorrectCD (leq : α → α → Bool) (E : List α) (cd : Cache) : Prop where
  entry : ∀ kv ∈ cd, kv.1 < E.length ∧ kv.2.Nodup ∧ ∀ x, x ∈ kv.2 ↔ isCover leq .desc E x kv.1 = true
  total : ∀ k, k < E.length → ∃ vs, (k, vs) ∈ cd

theorem findReady_spec {direct : Cache} {visited : List Nat} {l : List Nat} {i idx : Nat}
    (h : findReady direct visited l i = some idx) :
    ∃ j, idx = i + j ∧ ∃ x, l[j]? = some x ∧ ∃ dr, alookup x direct = some dr ∧ ∀ y ∈ dr, y ∈ visited := by
  induction l generalizing i with
  | nil => simp [findReady] at h
  | cons x xs ih =>
    unfold findReady at h
    split at h
    · cases h
    · rename_i dr hdr
      split at h
      · rename_i hall
        cases h
        refine ⟨0, rfl, x, rfl, dr, hdr, ?_⟩
        simpa using hall
      · obtain ⟨j, hj, y, hy, rest⟩ := ih h
        exact ⟨j + 1, by omega, y, by simpa using hy, rest⟩

/-- the fold computing `closed_cache[el] = direct_rels | ⋃ closed_cache[rel]` -/
theorem closureFold_spec {closed : Cache} (l : List Nat) (a cl : List Nat)
    (h : l.foldl (fun acc r => match acc, alookup r closed with
        | some a, some c => some (setUnion a c)
        | _, _ => none) (some a) = some cl)
    (ha : a.Nodup) (hc : ∀ kv ∈ closed, kv.2.Nodup) :
    cl.Nodup ∧ (∀ r ∈ l, ∃ c, alookup r closed = some c) ∧
      ∀ x, x ∈ cl ↔ (x ∈ a ∨ ∃ r ∈ l, ∃ c, alookup r closed = some c ∧ x ∈ c) := by
  induction l generalizing a with
  | nil =>
    simp only [List.foldl_nil, Option.some.injEq] at h
    subst h
    exact ⟨ha, fun _ hr => (by cases hr), fun x => (by simp)⟩
  | cons r rs ih =>
    rw [List.foldl_cons] at h
    cases hr : alookup r closed with
    | none =>
      rw [hr] at h
      simp only at h
      have : ∀ (l : List Nat), l.foldl (fun acc r => match acc, alookup r closed with
          | some a, some c => some (setUnion a c)
          | _, _ => none) none = none := by
        intro l
        induction l with
        | nil => rfl
        | cons y ys ih2 => rw [List.foldl_cons]; exact ih2
      rw [this] at h; cases h
    | some c =>
      rw [hr] at h
      simp only at h
      have hcn : c.Nodup := hc _ (alookup_mem hr)
      obtain ⟨h1, h2, h3⟩ := ih (setUnion a c) h (nodup_setUnion ha hcn)
      refine ⟨h1, ?_, fun x => ?_⟩
      · intro r' hr'
        rcases List.mem_cons.mp hr' with e | hr'
        · subst e; exact ⟨c, hr⟩
        · exact h2 r' hr'
      · rw [h3 x, mem_setUnion]
        constructor
        · rintro ((hx | hx) | ⟨r', hr', c', hc', hx⟩)
          · exact Or.inl hx
          · exact Or.inr ⟨r, List.mem_cons_self, c, hr, hx⟩
          · exact Or.inr ⟨r', List.mem_cons_of_mem _ hr', c', hc', hx⟩
        · rintro (hx | ⟨r', hr', c', hc', hx⟩)
          · exact Or.inl (Or.inl hx)
          · rcases List.mem_cons.mp hr' with e | hr'
            · subst e; rw [hr] at hc'; cases hc'; exact Or.inl (Or.inr hx)
            · exact Or.inr ⟨r', hr', c', hc', hx⟩

/-- loop invariant of `_closed_relation_cache_by_direct_cache` -/
structure CInv (leq : α → α → Bool) (E : List α) (cd : Cache) (tv vis : List Nat) (cl : Cache) : Prop where
  clOk : ∀ kv ∈ cl, kv.1 < E.length ∧ kv.2.Nodup ∧ ∀ x, x ∈ kv.2 ↔ ltD leq .desc E x kv.1 = true
  visCl : ∀ k ∈ vis, (alookup k cl).isSome = true
  bottoms : ∀ b vs, (b, vs) ∈ cd → vs = [] → b ∈ vis ∨ b ∈ tv
  parents : ∀ x ∈ vis, ∀ p, RelIn cd p x → p ∈ vis ∨ p ∈ tv

theorem mem_ainsert {k : Nat} {v : List Nat} {c : Cache} {kv : Nat × List Nat} (h : kv ∈ ainsert k v c) :
    kv = (k, v) ∨ kv ∈ c := by
  unfold ainsert aerase at h
  rcases List.mem_cons.mp h with h | h
  · exact Or.inl h
  · exact Or.inr (List.mem_filter.mp h).1

theorem mem_or_eraseIdx {l : List Nat} {idx x el : Nat} (hel : l[idx]? = some el) (hx : x ∈ l) :
    x = el ∨ x ∈ l.eraseIdx idx := by
  by_cases he : x = el
  · exact Or.inl he
  · right
    rw [List.mem_eraseIdx_iff_getElem?]
    obtain ⟨j, hj⟩ := List.mem_iff_getElem?.mp hx
    refine ⟨j, ?_, hj⟩
    intro e; subst e; rw [hel] at hj; cases hj; exact he rfl

variable (hpo : IdxPO leq E)
include hpo

theorem closedByDirectLoop_spec {cd : Cache} (hcd : CorrectCD leq E cd) (fuel : Nat) :
    ∀ (tv vis : List Nat) (cl res : Cache), CInv leq E cd tv vis cl →
      closedByDirectLoop cd (transposeHierarchy cd) fuel tv vis cl = .ok res →
      ∃ vis', CInv leq E cd [] vis' res := by
  induction fuel with
  | zero => intro tv vis cl res _ h; simp [closedByDirectLoop] at h
  | succ fuel ih =>
    intro tv vis cl res hinv h
    unfold closedByDirectLoop at h
    cases tv with
    | nil =>
      simp only at h
      cases h
      exact ⟨vis, hinv⟩
    | cons t ts =>
      simp only at h
      split at h
      · cases h
      · rename_i idx hfr
        obtain ⟨j, rfl, el, hel, dr, hdr, hvis⟩ := findReady_spec hfr
        simp only [Nat.zero_add] at h
        rw [hel] at h
        simp only at h
        split at h
        · rename_i dr' tr hdr' htr
          rw [hdr] at hdr'; cases hdr'
          split at h
          · cases h
          · rename_i cl1 hfold
            -- the entry of `el` in the children dictionary
            have hdrm := alookup_mem hdr
            obtain ⟨heln, hdrn, hdrc⟩ := hcd.entry _ hdrm
            simp only at heln hdrn hdrc
            obtain ⟨hcl1n, hall, hcl1m⟩ := closureFold_spec dr dr cl1 hfold hdrn (fun kv hkv => (hinv.clOk kv hkv).2.1)
            apply ih _ _ _ res _ h
            refine ⟨?_, ?_, ?_, ?_⟩
            · intro kv hkv
              rcases mem_ainsert hkv with e | hkv
              · subst e
                refine ⟨heln, hcl1n, fun x => ?_⟩
                simp only
                rw [hcl1m x]
                constructor
                · rintro (hx | ⟨r, hr, c, hc, hx⟩)
                  · exact (isCover_iff.mp ((hdrc x).mp hx)).1
                  · have h1 := (hinv.clOk _ (alookup_mem hc)).2.2 x
                    simp only at h1
                    exact ltD_trans hpo .desc (h1.mp hx) (isCover_iff.mp ((hdrc r).mp hr)).1
                · intro hx
                  obtain ⟨c, hc, hxc⟩ := exists_cover_above hpo .desc hx
                  have hcdr : c ∈ dr := (hdrc c).mpr hc
                  by_cases e : x = c
                  · subst e; exact Or.inl hcdr
                  · obtain ⟨cc, hcc⟩ := hall c hcdr
                    have h1 := (hinv.clOk _ (alookup_mem hcc)).2.2 x
                    simp only at h1
                    exact Or.inr ⟨c, hcdr, cc, hcc, h1.mpr (ltD_iff.mpr ⟨hxc, e⟩)⟩
              · exact hinv.clOk kv hkv
            · intro k hk
              rw [alookup_ainsert]
              split
              · rfl
              · rename_i hne
                rcases mem_setInsert.mp hk with e | hk
                · exact absurd e hne
                · exact hinv.visCl k hk
            · intro b vs hb hvs
              rcases hinv.bottoms b vs hb hvs with h1 | h1
              · exact Or.inl (mem_setInsert.mpr (Or.inr h1))
              · rcases mem_or_eraseIdx hel h1 with e | h2
                · exact Or.inl (mem_setInsert.mpr (Or.inl e))
                · exact Or.inr (List.mem_append.mpr (Or.inl h2))
            · intro x hx p hp
              rcases mem_setInsert.mp hx with e | hx
              · subst e
                -- the parents of `el` are exactly the transposed entry
                have := ((transposeHierarchy_spec cd x).1 tr htr).2 p
                exact Or.inr (List.mem_append.mpr (Or.inr (this.mpr hp)))
              · rcases hinv.parents x hx p hp with h1 | h1
                · exact Or.inl (mem_setInsert.mpr (Or.inr h1))
                · rcases mem_or_eraseIdx hel h1 with e | h2
                  · exact Or.inl (mem_setInsert.mpr (Or.inl e))
                  · exact Or.inr (List.mem_append.mpr (Or.inl h2))
        · cases h

/-- the descendants dictionary computed from a correct `children_dict` is correct and total -/
theorem closedByDirect_spec {cd : Cache} (hcd : CorrectCD leq E cd) {fuel : Nat} {dd : Cache}
    (h : closedByDirect fuel cd = .ok dd) :
    (∀ kv ∈ dd, kv.1 < E.length ∧ kv.2.Nodup ∧ ∀ x, x ∈ kv.2 ↔ ltD leq .desc E x kv.1 = true) ∧
    (∀ k, k < E.length → ∃ vs, (k, vs) ∈ dd) := by
  unfold closedByDirect at h
  simp only at h
  have h0 : CInv leq E cd (cd.filterMap fun kv => if kv.2.isEmpty then some kv.1 else none) [] [] := by
    refine ⟨fun _ hkv => (by cases hkv), fun _ hk => (by cases hk), ?_, fun _ hx => (by cases hx)⟩
    intro b vs hb hvs
    right
    rw [List.mem_filterMap]
    exact ⟨(b, vs), hb, by simp [hvs]⟩
  obtain ⟨vis, hfin⟩ := closedByDirectLoop_spec hpo hcd fuel _ _ _ dd h0 h
  refine ⟨hfin.clOk, ?_⟩
  -- every element gets visited
  have hD : DownSet leq .desc E (fun k => decide (k < E.length)) :=
    ⟨fun i hi => by simpa using hi, fun i j _ hij => by simpa using (relD_lt hij).1⟩
  have hall := downSet_induction hpo hD (fun k => k ∈ vis) ?_ ?_
  · intro k hk
    have := hfin.visCl k (hall k (by simpa using hk))
    obtain ⟨v, hv⟩ := Option.isSome_iff_exists.mp this
    exact ⟨v, alookup_mem hv⟩
  · intro b hb _
    have hbn : b < E.length := by
      unfold extremes at hb; exact List.mem_range.mp (List.mem_filter.mp hb).1
    obtain ⟨vs, hvs⟩ := hcd.total b hbn
    have hempty : vs = [] := by
      apply List.eq_nil_iff_forall_not_mem.mpr
      intro x hx
      have h1 := ((hcd.entry _ hvs).2.2 x).mp hx
      have h2 : x ∈ closed leq .desc E b := mem_closed.mpr (isCover_iff.mp h1).1
      unfold extremes at hb
      have h3 := (List.mem_filter.mp hb).2
      rw [List.isEmpty_iff] at h3
      rw [h3] at h2; cases h2
    rcases hfin.bottoms b vs hvs hempty with h1 | h1
    · exact h1
    · cases h1
  · intro x hx p hc _
    have hpn : p < E.length := (ltD_lt (isCover_iff.mp hc).1).2
    obtain ⟨vs, hvs⟩ := hcd.total p hpn
    have : RelIn cd p x := ⟨vs, hvs, ((hcd.entry _ hvs).2.2 x).mpr hc⟩
    rcases hfin.parents x hx p this with h1 | h1
    · exact h1
    · cases h1

end
end Fca.Poset

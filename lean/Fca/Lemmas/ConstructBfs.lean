/-
  Fca.Lemmas.ConstructBfs — the breadth-first search of `add_concept` (used twice, downwards from the
  top and upwards from the bottom): it terminates within the closed-form fuel although the queue may
  hold an index many times, and returns exactly the "good" nodes none of whose neighbours is good.
-/
import Fca.Lemmas.ConstructBasic
namespace Fca.Construct
open Fca.Spec

/-- what the search is run on: `adj` lists the lower covers w.r.t. `lt`, `good` is up-closed, every good
    node is below `start`, and `B` exceeds every adjacency size -/
structure BfsCtx (n : Nat) (lt : Nat → Nat → Bool) (rank : Nat → Nat) (adj : List (List Nat))
    (good : Nat → Bool) (start B : Nat) : Prop where
  ord : StrictOrd lt rank
  adjLen : adj.length = n
  adjCov : ∀ c, c < n → SameSetC (adj.getD c []) (coversBy n lt c)
  adjSmall : ∀ c, c < n → (adj.getD c []).length < B
  upClosed : ∀ s c, s < n → c < n → good s = true → lt s c = true → good c = true
  startLt : start < n
  startGood : good start = true
  belowStart : ∀ c, c < n → good c = true → c = start ∨ lt c start = true

structure BfsInv (n : Nat) (adj : List (List Nat)) (good : Nat → Bool) (start : Nat)
    (queue visited direct : List Nat) : Prop where
  qGood : ∀ c ∈ queue, c < n ∧ good c = true
  vGood : ∀ c ∈ visited, c < n ∧ good c = true
  dNodup : direct.Nodup
  dChar : ∀ x, x ∈ direct ↔ x ∈ visited ∧ ∀ s ∈ adj.getD x [], good s = false
  closed : ∀ c ∈ visited, ∀ s ∈ adj.getD c [], good s = true → s ∈ visited ∨ s ∈ queue
  start : start ∈ visited ∨ start ∈ queue

/-- potential of the queue -/
def phi (B : Nat) (rank : Nat → Nat) (q : List Nat) : Nat := (q.map fun c => B ^ rank c).sum

theorem phi_append (B : Nat) (rank : Nat → Nat) (a b : List Nat) :
    phi B rank (a ++ b) = phi B rank a + phi B rank b := by
  simp [phi, List.map_append, List.sum_append]

theorem phi_cons (B : Nat) (rank : Nat → Nat) (c : Nat) (q : List Nat) :
    phi B rank (c :: q) = B ^ rank c + phi B rank q := by
  simp [phi]

theorem phi_le (B : Nat) (rank : Nat → Nat) (l : List Nat) (M : Nat)
    (h : ∀ x ∈ l, B ^ rank x ≤ M) : phi B rank l ≤ l.length * M := by
  induction l with
  | nil => simp [phi]
  | cons x xs ih =>
    rw [phi_cons]
    have h1 := h x (List.mem_cons_self ..)
    have h2 := ih (fun y hy => h y (List.mem_cons_of_mem _ hy))
    simp only [List.length_cons, Nat.add_mul, Nat.one_mul]
    omega

variable {n : Nat} {lt : Nat → Nat → Bool} {rank : Nat → Nat} {adj : List (List Nat)}
  {good : Nat → Bool} {start B : Nat}

/-- once the queue is empty every good node has been visited -/
theorem bfs_visited_all (ctx : BfsCtx n lt rank adj good start B) {visited direct : List Nat}
    (inv : BfsInv n adj good start [] visited direct) :
    ∀ c, c < n → good c = true → c ∈ visited := by
  have hstart : start ∈ visited := by
    rcases inv.start with h | h
    · exact h
    · cases h
  -- every good node below a visited one is visited
  have key : ∀ d v c, rank v - rank c = d → v ∈ visited → c < n → good c = true → lt c v = true →
      c ∈ visited := by
    intro d
    induction d using Nat.strongRecOn with
    | _ d ih =>
      intro v c hd hv hc hg hlt
      have hvn := (inv.vGood v hv).1
      -- a lower cover `b` of `v` with `c ≤ b`
      have hex : ∃ b, b ∈ coversBy n lt v ∧ (b = c ∨ lt c b = true) := by
        by_cases hmid : ∃ k, k < n ∧ lt c k = true ∧ lt k v = true
        · obtain ⟨k, hk, hck, hkv⟩ := hmid
          obtain ⟨b, hb, hb2⟩ := exists_cover_below ctx.ord (x := c) (a := v) k hk hck hkv
          refine ⟨b, hb, Or.inr ?_⟩
          rcases hb2 with rfl | hb2
          · exact hck
          · exact ctx.ord.trans _ _ _ hck hb2
        · refine ⟨c, mem_coversBy.mpr ⟨hc, hlt, ?_⟩, Or.inl rfl⟩
          intro k hk hck
          apply Bool.eq_false_iff.mpr
          intro hkv
          exact hmid ⟨k, hk, hck, hkv⟩
      obtain ⟨b, hb, hb2⟩ := hex
      have hbm := mem_coversBy.mp hb
      have hbg : good b = true := by
        rcases hb2 with rfl | hb2
        · exact hg
        · exact ctx.upClosed c b hc hbm.1 hg hb2
      have hbadj : b ∈ adj.getD v [] := (ctx.adjCov v hvn b).mpr hb
      have hbv : b ∈ visited := by
        rcases inv.closed v hv b hbadj hbg with h | h
        · exact h
        · cases h
      rcases hb2 with rfl | hb2
      · exact hbv
      · have h1 := ctx.ord.rank_lt b v hbm.2.1
        have h2 := ctx.ord.rank_lt c b hb2
        exact ih (rank b - rank c) (by omega) b c rfl hbv hc hg hb2
  intro c hc hg
  rcases ctx.belowStart c hc hg with rfl | hlt
  · exact hstart
  · exact key _ start c rfl hstart hc hg hlt

theorem bfs_step_inv (ctx : BfsCtx n lt rank adj good start B) (ord : List Nat → List Nat)
    (hord : ∀ xs x, x ∈ ord xs ↔ x ∈ xs) {c : Nat} {queue visited direct : List Nat}
    (inv : BfsInv n adj good start (c :: queue) visited direct) :
    (((adj.getD c []).filter good).length > 0 →
      BfsInv n adj good start (queue ++ ord (diff ((adj.getD c []).filter good) (addSet visited c)))
        (addSet visited c) direct) ∧
    (¬ ((adj.getD c []).filter good).length > 0 →
      BfsInv n adj good start queue (addSet visited c) (addSet direct c)) := by
  have hc := inv.qGood c (List.mem_cons_self ..)
  have hcov := ctx.adjCov c hc.1
  constructor
  · intro hpos
    obtain ⟨s0, hs0⟩ := List.exists_mem_of_length_pos hpos
    have hs0' := List.mem_filter.mp hs0
    refine ⟨?_, ?_, inv.dNodup, ?_, ?_, ?_⟩
    · intro x hx
      rcases List.mem_append.mp hx with hx | hx
      · exact inv.qGood x (List.mem_cons_of_mem _ hx)
      · have hx1 := (mem_diff.mp ((hord _ _).mp hx)).1
        have hx2 := List.mem_filter.mp hx1
        exact ⟨(mem_coversBy.mp ((hcov x).mp hx2.1)).1, hx2.2⟩
    · intro x hx
      rcases mem_addSet.mp hx with hx | rfl
      · exact inv.vGood x hx
      · exact hc
    · intro x
      rw [inv.dChar x, mem_addSet]
      constructor
      · rintro ⟨h1, h2⟩; exact ⟨Or.inl h1, h2⟩
      · rintro ⟨h1 | rfl, h2⟩
        · exact ⟨h1, h2⟩
        · have := h2 s0 hs0'.1
          rw [hs0'.2] at this; cases this
    · intro c' hc' s hs hg
      rcases mem_addSet.mp hc' with hc' | rfl
      · rcases inv.closed c' hc' s hs hg with h | h
        · exact Or.inl (mem_addSet.mpr (Or.inl h))
        · rcases List.mem_cons.mp h with rfl | h
          · exact Or.inl (mem_addSet.mpr (Or.inr rfl))
          · exact Or.inr (List.mem_append_left _ h)
      · by_cases hv : s ∈ addSet visited c'
        · exact Or.inl hv
        · right
          apply List.mem_append_right
          rw [hord]
          exact mem_diff.mpr ⟨List.mem_filter.mpr ⟨hs, hg⟩, hv⟩
    · rcases inv.start with h | h
      · exact Or.inl (mem_addSet.mpr (Or.inl h))
      · rcases List.mem_cons.mp h with rfl | h
        · exact Or.inl (mem_addSet.mpr (Or.inr rfl))
        · exact Or.inr (List.mem_append_left _ h)
  · intro hzero
    have hnone : ∀ s ∈ adj.getD c [], good s = false := by
      intro s hs
      apply Bool.eq_false_iff.mpr
      intro hg
      have : s ∈ (adj.getD c []).filter good := List.mem_filter.mpr ⟨hs, hg⟩
      have := List.length_pos_of_mem this
      exact hzero this
    refine ⟨?_, ?_, nodup_addSet inv.dNodup, ?_, ?_, ?_⟩
    · intro x hx; exact inv.qGood x (List.mem_cons_of_mem _ hx)
    · intro x hx
      rcases mem_addSet.mp hx with hx | rfl
      · exact inv.vGood x hx
      · exact hc
    · intro x
      rw [mem_addSet, mem_addSet, inv.dChar x]
      constructor
      · rintro (⟨h1, h2⟩ | rfl)
        · exact ⟨Or.inl h1, h2⟩
        · exact ⟨Or.inr rfl, hnone⟩
      · rintro ⟨h1 | rfl, h2⟩
        · exact Or.inl ⟨h1, h2⟩
        · exact Or.inr rfl
    · intro c' hc' s hs hg
      rcases mem_addSet.mp hc' with hc' | rfl
      · rcases inv.closed c' hc' s hs hg with h | h
        · exact Or.inl (mem_addSet.mpr (Or.inl h))
        · rcases List.mem_cons.mp h with rfl | h
          · exact Or.inl (mem_addSet.mpr (Or.inr rfl))
          · exact Or.inr h
      · have := hnone s hs; rw [hg] at this; cases this
    · rcases inv.start with h | h
      · exact Or.inl (mem_addSet.mpr (Or.inl h))
      · rcases List.mem_cons.mp h with rfl | h
        · exact Or.inl (mem_addSet.mpr (Or.inr rfl))
        · exact Or.inr h

/-- the potential drops when a node with good neighbours is expanded -/
theorem bfs_phi_drop (ctx : BfsCtx n lt rank adj good start B) (ord : List Nat → List Nat)
    (hperm : ∀ xs, (ord xs).Perm xs) {c : Nat} (hc : c < n) (visited' : List Nat)
    (hpos : ((adj.getD c []).filter good).length > 0) :
    phi B rank (ord (diff ((adj.getD c []).filter good) visited')) < B ^ rank c := by
  obtain ⟨s0, hs0⟩ := List.exists_mem_of_length_pos hpos
  have hs0' := List.mem_filter.mp hs0
  have hs0c := (mem_coversBy.mp ((ctx.adjCov c hc s0).mp hs0'.1)).2.1
  have hr0 := ctx.ord.rank_lt s0 c hs0c
  have hB := ctx.adjSmall c hc
  have hBpos : 0 < B := by omega
  -- every queued neighbour weighs at most `B ^ (rank c - 1)`
  have hw : ∀ x ∈ ord (diff ((adj.getD c []).filter good) visited'), B ^ rank x ≤ B ^ (rank c - 1) := by
    intro x hx
    have hx1 := (mem_diff.mp ((hperm _).mem_iff.mp hx)).1
    have hx2 := List.mem_filter.mp hx1
    have hxc := (mem_coversBy.mp ((ctx.adjCov c hc x).mp hx2.1)).2.1
    have := ctx.ord.rank_lt x c hxc
    exact Nat.pow_le_pow_right hBpos (by omega)
  have h1 := phi_le B rank _ _ hw
  have hlen : (ord (diff ((adj.getD c []).filter good) visited')).length ≤ (adj.getD c []).length := by
    rw [(hperm _).length_eq]
    unfold diff
    exact Nat.le_trans (List.length_filter_le _ _) (List.length_filter_le _ _)
  have hpow : B ^ rank c = B * B ^ (rank c - 1) := by
    have : rank c = (rank c - 1) + 1 := by omega
    rw [this, Nat.pow_succ, Nat.mul_comm]; simp
  have hp : 0 < B ^ (rank c - 1) := Nat.pow_pos hBpos
  rw [hpow]
  calc phi B rank _ ≤ _ * B ^ (rank c - 1) := h1
    _ ≤ (adj.getD c []).length * B ^ (rank c - 1) := Nat.mul_le_mul_right _ hlen
    _ < B * B ^ (rank c - 1) := Nat.mul_lt_mul_of_pos_right hB hp

/-- the search terminates within the fuel and returns the good nodes without good neighbours -/
theorem bfsDirect_ok (ctx : BfsCtx n lt rank adj good start B) (ord : List Nat → List Nat)
    (hperm : ∀ xs, (ord xs).Perm xs) :
    ∀ fuel queue visited direct, BfsInv n adj good start queue visited direct →
      phi B rank queue < fuel →
      ∃ res, bfsDirect adj good ord fuel queue visited direct = .ok res ∧ res.Nodup ∧
        ∀ x, x ∈ res ↔ x < n ∧ good x = true ∧ ∀ s ∈ adj.getD x [], good s = false := by
  have hord : ∀ xs x, x ∈ ord xs ↔ x ∈ xs := fun xs x => (hperm xs).mem_iff
  intro fuel
  induction fuel with
  | zero => intro queue visited direct _ hf; omega
  | succ f ih =>
    intro queue visited direct inv hf
    cases queue with
    | nil =>
      refine ⟨direct, by simp [bfsDirect], inv.dNodup, ?_⟩
      intro x
      rw [inv.dChar x]
      constructor
      · rintro ⟨h1, h2⟩; exact ⟨(inv.vGood x h1).1, (inv.vGood x h1).2, h2⟩
      · rintro ⟨h1, h2, h3⟩; exact ⟨bfs_visited_all ctx inv x h1 h2, h3⟩
    | cons c queue =>
      have hc := inv.qGood c (List.mem_cons_self ..)
      have hcl : c < adj.length := by rw [ctx.adjLen]; exact hc.1
      have hget : adj[c]? = some (adj.getD c []) := by
        rw [List.getD_eq_getElem?_getD, List.getElem?_eq_getElem hcl]; rfl
      obtain ⟨s1, s2⟩ := bfs_step_inv ctx ord hord inv
      rw [phi_cons] at hf
      have hBpos : 0 < B := by have := ctx.adjSmall c hc.1; omega
      have hone : 1 ≤ B ^ rank c := Nat.pow_pos hBpos
      unfold bfsDirect
      simp only [hget]
      by_cases hpos : ((adj.getD c []).filter good).length > 0
      · rw [if_pos hpos]
        apply ih _ _ _ (s1 hpos)
        rw [phi_append]
        have := bfs_phi_drop ctx ord hperm hc.1 (addSet visited c) hpos
        omega
      · rw [if_neg hpos]
        apply ih _ _ _ (s2 hpos)
        omega

theorem bfsInv_init (ctx : BfsCtx n lt rank adj good start B) :
    BfsInv n adj good start [start] [] [] := by
  refine ⟨?_, by simp, List.nodup_nil, by simp, by simp, Or.inr (List.mem_cons_self ..)⟩
  intro c hc
  have : c = start := by simpa using hc
  subst this
  exact ⟨ctx.startLt, ctx.startGood⟩

end Fca.Construct

/-
  Lemmas for C20, part 6 — a decision lattice converted on ONE context traced on ANOTHER one.

  `from_decision_tree(tree, K)` stores in the lattice: the generator dictionary and the decisions (functions of the tree
  arrays and of the successor map only), and the concepts of `K` (only their `support` is read again, to order the
  worklist of `trace_context`; the top is the root).  So `predict(K')` for any other context `K'` over the same columns —
  held-out objects, a test set, the empty context — walks the same generators: the worklist theorem
  (`traceContext_rows`) applies with the node extents of `K'`.
-/
import Fca.Model.DecisionLattice
import Fca.Lemmas.DecisionLattice
import Fca.Lemmas.DecisionLatticeTrace
import Fca.Lemmas.DecisionLatticeTree
namespace Fca.DL
open Fca

/-- `tspec_of_conv` with two contexts: `L` converted on `X`, traced on `X'`.  Only `X'` has to meet `wellFormed`
    (its structural part speaks about the tree alone). -/
theorem tspec_of_conv_ctx (t : Tree) (X X' : Rows) (m : Nat) (nxt : Rat → Rat) (L : DLat)
    (hwf' : wellFormed t X' m nxt = true) (hconv : fromDecisionTree t X m nxt = .ok L) :
    TSpec L.lat X' m t.n (parF t) (premF t nxt) (EF t X') ∧
    L.decisions = (List.range t.n).map (fun k => ((⟨dparF t k, k, premF t nxt k⟩ : DKey), delta t k)) ∧
    (∀ k, 0 < k → k < t.n → dparF t k = some (parF t k)) := by
  obtain ⟨hlen, hnode⟩ := wf_parts hwf'
  obtain ⟨hn, hrlen⟩ := wf_parts2 hwf'
  obtain ⟨r, hr, hgens, hdec, htop, hclen⟩ := fromDecisionTree_inv t X m nxt L hn hconv
  obtain ⟨hdp, hpr, hdt, _, _, hsome⟩ := parse_inv t m nxt r hn hr
  have hgens' : L.lat.gens = (List.range t.n).map (genF t nxt) := by
    rw [hgens, hdp, hpr, mkGens_map]; rfl
  have hpar : ∀ k, 0 < k → k < t.n → parentOf t k = some (parF t k) := by
    intro k hk0 hkn
    obtain ⟨p, hp⟩ := Option.isSome_iff_exists.mp (hsome k hk0 hkn)
    rw [parF_of_some hp]; exact hp
  have hdpar : ∀ k, 0 < k → k < t.n → dparF t k = some (parF t k) := by
    intro k hk0 hkn
    have : k ≠ 0 := by omega
    simp only [dparF, if_neg this]
    exact hpar k hk0 hkn
  refine ⟨⟨hn, htop, ?_, ?_, ?_, ?_, ?_, ?_, ?_, hclen⟩, ?_, hdpar⟩
  · rw [hgens']; simp
  · rw [hgens']
    simp [hn, genF, dparF, premF]
  · intro k hk0 hkn
    rw [hgens']
    simp [hkn, genF, hdpar k hk0 hkn]
  · intro k hk0 hkn
    obtain ⟨_, _, _, _, _, _, _, _, _, _, hpk, _⟩ := node_of_parent hlen hrlen hnode (hpar k hk0 hkn)
    exact hpk
  · rw [EF_zero]; rfl
  · intro k hk0 hkn
    exact EF_trace hwf' hk0 (hpar k hk0 hkn)
  · intro k hk0 hkn
    exact EF_sub hwf' (hpar k hk0 hkn)
  · rw [hdec, hdp, hpr, hdt, List.range_eq_range', mkDecisions_map]

/-- the trace of `X'` through a lattice converted on `X`: per row of `X'` the records are the nodes of its path, and
    every record's decision is its node's delta -/
theorem tracePathOK_of_conv_ctx (t : Tree) (X X' : Rows) (m : Nat) (nxt : Rat → Rat) (L : DLat)
    (hwf' : wellFormed t X' m nxt = true) (hconv : fromDecisionTree t X m nxt = .ok L)
    (order : List GenRec → List GenRec) (horder : ∀ l, (order l).Perm l) :
    ∃ recs, traceContext L.lat X' m order = .ok recs ∧ tracePathOK t X' recs = true ∧
      traceKeysOK t L.decisions recs = true := by
  obtain ⟨hspec, hdec, hdpar⟩ := tspec_of_conv_ctx t X X' m nxt L hwf' hconv
  obtain ⟨hlen, hnode⟩ := wf_parts hwf'
  obtain ⟨hn, _⟩ := wf_parts2 hwf'
  obtain ⟨recs, hrecs, hform, hrows⟩ := traceContext_rows hspec order horder
  refine ⟨recs, hrecs, ?_, ?_⟩
  · unfold tracePathOK
    rw [List.all_eq_true]
    intro g hg
    rw [List.mem_range] at hg
    rw [decide_eq_true_eq]
    obtain ⟨hnd, hmem⟩ := hrows g
    obtain ⟨hprops, hpnd⟩ := pathFrom_props hlen hnode (X'.getD g []) t.n 0
    apply (List.perm_ext_iff_of_nodup hnd hpnd).mpr
    intro c
    rw [hmem c, mem_EF]
    constructor
    · rintro ⟨_, _, hc⟩; exact hc
    · intro hc; exact ⟨(hprops c hc).2 hn, hg, hc⟩
  · unfold traceKeysOK
    rw [List.all_eq_true]
    intro r hr
    obtain ⟨k, hkn, e⟩ := hform r hr
    have hkey : (⟨r.sup, r.concept, r.gen⟩ : DKey) = ⟨dparF t k, k, premF t nxt k⟩ := by
      rw [e]
      by_cases hk0 : k = 0
      · subst hk0; simp [recOf, dparF, premF]
      · simp [recOf, hk0, hdpar k (by omega) hkn]
    rw [hkey, hdec, e, recOf_concept]
    rw [alGet_map_key (fun k => (⟨dparF t k, k, premF t nxt k⟩ : DKey)) (delta t)
      (by intro a b hab; exact (DKey.mk.inj hab).2.1) _ k (List.mem_range.mpr hkn)]
    simp

end Fca.DL

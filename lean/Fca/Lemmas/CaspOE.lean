/-
  Fca.Lemmas.CaspOE — the remaining pieces of `orderExtentsComparisonCode`: `isets2bas` (bit `m` of the
  `i`-th array ⇔ `m ∈ cs[i]`), `inverseOrder` (relation transpose on a square table) and the final
  dict comprehension (`finalDict`) under a permutation `id_to_topo_map`.
-/
import Fca.Lemmas.CaspSort
namespace Fca.Casp

/-! ### `isets2bas` -/

theorem getD_nil_of_ge {α : Type} {t : List (List α)} {i : Nat} (h : t.length ≤ i) : t.getD i [] = [] := by
  rw [List.getD_eq_getElem?_getD, List.getElem?_eq_none h]; rfl


theorem isetToBa_spec : ∀ (s : List Nat) (bar : Bits), (∀ x ∈ s, x < bar.length) →
    ∃ b, isetToBa s bar = .ok b ∧ b.length = bar.length ∧
      ∀ m, bit b m = true ↔ (bit bar m = true ∨ m ∈ s) := by
  intro s
  induction s with
  | nil => intro bar _; exact ⟨bar, rfl, rfl, fun m => by simp⟩
  | cons x s ih =>
    intro bar h
    have hx : x < bar.length := h x (List.mem_cons_self ..)
    obtain ⟨b, e, hl, hb⟩ := ih (bar.set x true) (fun y hy => by
      rw [List.length_set]; exact h y (List.mem_cons_of_mem _ hy))
    refine ⟨b, ?_, by rw [hl, List.length_set], fun m => ?_⟩
    · simp only [isetToBa, hx, if_true]; exact e
    · rw [hb, bit_set]
      simp only [Bool.or_eq_true, decide_eq_true_eq, List.mem_cons]
      constructor
      · rintro ((⟨a, _⟩ | a) | a)
        · exact .inr (.inl a)
        · exact .inl a
        · exact .inr (.inr a)
      · rintro (a | a | a)
        · exact .inl (.inr a)
        · exact .inl (.inl ⟨a, hx⟩)
        · exact .inr a

theorem isets2bas_spec (len : Nat) : ∀ (cs : List (List Nat)), (∀ e ∈ cs, ∀ x ∈ e, x < len) →
    ∃ bas, isets2bas cs len = .ok bas ∧ bas.length = cs.length ∧ Uniform bas len ∧
      ∀ i m, bit (bas.getD i []) m = true ↔ m ∈ cs.getD i [] := by
  intro cs
  induction cs with
  | nil =>
    intro _
    refine ⟨[], rfl, rfl, ?_, fun i m => ?_⟩
    · intro it hit; cases hit
    · rw [getD_nil_of_ge (Nat.zero_le _), getD_nil_of_ge (Nat.zero_le _)]
      simp [bit_nil]
  | cons e cs ih =>
    intro h
    obtain ⟨b, eb, hl, hb⟩ := isetToBa_spec e (zeros len) (fun x hx => by
      rw [length_zeros]; exact h e (List.mem_cons_self ..) x hx)
    obtain ⟨bs, ebs, hls, hu, hbs⟩ := ih (fun e' he' => h e' (List.mem_cons_of_mem _ he'))
    refine ⟨b :: bs, ?_, by simp [hls], ?_, fun i m => ?_⟩
    · simp only [isets2bas, eb, ebs]
    · intro it hit
      rcases List.mem_cons.mp hit with rfl | hit
      · rw [hl, length_zeros]
      · exact hu it hit
    · cases i with
      | zero =>
        simp only [List.getD_cons_zero]
        rw [hb, bit_zeros]; simp
      | succ i =>
        simp only [List.getD_cons_succ]
        exact hbs i m

/-! ### `inverse_order` -/

theorem inverseBad_false (nRows len0 : Nat) : ∀ (rows : List Bits) (i0 : Nat),
    (∀ row ∈ rows, ∀ j, bit row j = true → j < nRows) → i0 + rows.length ≤ len0 →
    inverseBad nRows len0 rows i0 = false := by
  intro rows
  induction rows with
  | nil => intro _ _ _; rfl
  | cons row rows ih =>
    intro i0 h hlen
    simp only [List.length_cons] at hlen
    simp only [inverseBad, Bool.or_eq_false_iff]
    refine ⟨?_, ih (i0 + 1) (fun r hr => h r (List.mem_cons_of_mem _ hr)) (by omega)⟩
    rw [List.any_eq_false]
    intro j hj
    have := h row (List.mem_cons_self ..) j (mem_search1.mp hj)
    simp; omega

/-- `inverse_order` of a square table is its transpose -/
theorem inverseOrder_spec {order : List Bits} {n : Nat} (hs : Shape order n n) :
    ∃ inv, inverseOrder order = .ok inv ∧ Shape inv n n ∧
      ∀ i j, bit (inv.getD j []) i = true ↔ bit (order.getD i []) j = true := by
  by_cases hnil : order = []
  · have hn : n = 0 := by rw [← hs.1, hnil]; rfl
    subst hn
    subst hnil
    refine ⟨[], rfl, ⟨rfl, fun r hr => by omega⟩, fun i j => ?_⟩
    rw [getD_nil_of_ge (Nat.zero_le _), getD_nil_of_ge (Nat.zero_le _), bit_nil, bit_nil]
  · obtain ⟨o0, rest, ho⟩ := List.exists_cons_of_ne_nil hnil
    have hn : 0 < n := by rw [← hs.1, ho]; simp
    have h0 : o0.length = n := by
      have := hs.2 0 hn
      rw [ho] at this
      simpa using this
    have hrow : ∀ row ∈ order, row.length = n := by
      intro row hr
      obtain ⟨k, hk, e⟩ := List.getElem_of_mem hr
      have := hs.2 k (hs.1 ▸ hk)
      rw [List.getD_eq_getElem?_getD, List.getElem?_eq_getElem hk] at this
      rw [← e]; exact this
    have hbad : inverseBad order.length o0.length order 0 = false :=
      inverseBad_false _ _ order 0 (fun row hr j hj => by
        have := lt_of_bit hj
        rw [hrow row hr] at this
        rw [hs.1]; exact this) (by rw [h0, hs.1]; omega)
    obtain ⟨s1, s2⟩ := scatter_zero order n n
    refine ⟨scatter order 0 (List.replicate n (zeros n)), ?_, s1, fun i j => ?_⟩
    · have : inverseOrder order = (if inverseBad order.length o0.length order 0 then .error .IndexError
          else .ok (scatter order 0 (List.replicate order.length (zeros o0.length)))) := by
        rw [ho]; rfl
      rw [this, hbad, hs.1, h0]
      rfl
    · have := s2 j i
      unfold cell at this
      rw [this]
      constructor
      · exact fun h => h.1
      · intro h
        have hi : i < order.length := by
          false_or_by_contra
          rename_i hn'
          rw [getD_nil_of_ge (by omega), bit_nil] at h
          cases h
        have hj : j < n := by
          have := lt_of_bit h
          rwa [hs.2 i (hs.1 ▸ hi)] at this
        exact ⟨h, hi, hj, hs.1 ▸ hi⟩

/-! ### the final dict comprehension -/

theorem translate_perm {p : List Nat} (hnd : p.Nodup) : ∀ xs : List Nat, (∀ x ∈ xs, x ∈ p) →
    translate p xs = .ok (xs.map p.idxOf) := by
  intro xs
  induction xs with
  | nil => intro _; rfl
  | cons x xs ih =>
    intro h
    simp only [translate, lastIdx?_nodup hnd (h x (List.mem_cons_self ..)),
      ih (fun y hy => h y (List.mem_cons_of_mem _ hy)), List.map_cons]

theorem finalDict_perm {p : List Nat} {n : Nat} (hnd : p.Nodup) (hmem : ∀ t, t < n → t ∈ p) :
    ∀ (subs : List Bits) (i0 : Nat), i0 + subs.length ≤ n →
      (∀ row ∈ subs, ∀ s, bit row s = true → s < n) →
      finalDict p subs i0 = .ok ((List.range subs.length).map fun k =>
        (p.idxOf (i0 + k), (search1 (subs.getD k [])).map p.idxOf)) := by
  intro subs
  induction subs with
  | nil => intro _ _ _; rfl
  | cons row subs ih =>
    intro i0 hlen h
    simp only [List.length_cons] at hlen
    have h1 := lastIdx?_nodup hnd (hmem i0 (by omega))
    have h2 := translate_perm hnd (search1 row) (fun s hs =>
      hmem s (h row (List.mem_cons_self ..) s (mem_search1.mp hs)))
    have h3 := ih (i0 + 1) (by omega) (fun r hr => h r (List.mem_cons_of_mem _ hr))
    simp only [finalDict, h1, h2, h3, List.length_cons, List.range_succ_eq_map, List.map_cons,
      List.map_map, Nat.add_zero, List.getD_cons_zero]
    congr 2
    apply List.map_congr_left
    intro k _
    simp only [Function.comp, List.getD_cons_succ]
    congr 2
    omega

end Fca.Casp

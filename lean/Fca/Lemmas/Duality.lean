/-
  Fca.Lemmas.Duality — helper lemmas for property C06 (transposition, complement, relabelling,
  monotone lattice).  Core only.
-/
import Fca.Model.Duality
import Fca.Spec.Duality
import Fca.Lemmas.Galois
namespace Fca.Dual
open Fca Fca.Spec

/-! ## tables: the backend transposes / complements are the specification ones -/

theorem headD_map_range {α} (f : Nat → α) (d : α) {w : Nat} (hw : 1 ≤ w) :
    ((List.range w).map f).headD d = f 0 := by
  obtain ⟨w', rfl⟩ : ∃ w', w = w' + 1 := ⟨w - 1, by omega⟩
  rw [List.range_succ_eq_map]; simp

theorem map_eq_map_range {α β} (l : List α) (f : α → β) (d : α) :
    l.map f = (List.range l.length).map fun i => f (l.getD i d) := by
  apply List.ext_getElem
  · simp
  · intro i h1 h2
    simp only [List.length_map] at h1
    simp [List.getD_eq_getElem?_getD, List.getElem?_eq_getElem h1]

theorem npT_eq (t : Table) :
    npT t = (List.range t.width).map fun j => getColumn t (List.range t.height) j := by
  unfold npT getColumn
  apply List.map_congr_left
  intro j _
  rw [map_eq_map_range t.data _ []]
  rfl

theorem tableT_eq_transpose (be : Backend) (t : Table) (hw : 1 ≤ t.width) :
    tableT be t = transpose t := by
  have key : mkTable ((List.range t.width).map fun j => getColumn t (List.range t.height) j)
      = transpose t := by
    unfold mkTable Table.ofRows transpose
    rw [headD_map_range _ _ hw]
    simp [getColumn]
  cases be
  · exact key
  · exact key
  · show mkTable (npT t) = _
    rw [npT_eq]; exact key

theorem transpose_transpose (t : Table) (hwf : t.WF) : transpose (transpose t) = t := by
  have hd : (transpose (transpose t)).data = t.data := by
    show (List.range (transpose t).width).map (fun a => (List.range (transpose t).height).map
      fun g => (transpose t).get g a) = t.data
    rw [transpose_height, transpose_width]
    apply List.ext_getElem
    · simp [Table.height]
    · intro i h1 h2
      have hi : i < t.height := h2
      have hrow : t.data[i].length = t.width := hwf _ (List.getElem_mem h2)
      apply List.ext_getElem
      · simp; exact hrow.symm
      · intro j h3 h4
        have hj : j < t.width := by rw [← hrow]; exact h4
        simp only [List.getElem_map, List.getElem_range]
        rw [transpose_get t hi hj]
        simp [Table.get, Table.row, List.getD_eq_getElem?_getD, List.getElem?_eq_getElem h2,
          List.getElem?_eq_getElem h4]
  have hw : (transpose (transpose t)).width = t.width := by
    show (transpose t).height = t.width
    exact transpose_height t
  cases t with
  | mk d w =>
    cases h : transpose (transpose ⟨d, w⟩) with
    | mk d' w' =>
      rw [h] at hd hw
      simp only at hd hw
      rw [hd, hw]

theorem tableNot_eq_complement (be : Backend) (t : Table) (hwf : t.WF) (hh : 1 ≤ t.height) :
    tableNot be t = complement t := by
  have key : mkTable (t.data.map fun row => row.map fun v => !v) = complement t := by
    unfold mkTable Table.ofRows complement
    cases hd : t.data with
    | nil => simp [Table.height, hd] at hh
    | cons r rs =>
      have : r.length = t.width := hwf r (by rw [hd]; exact List.mem_cons_self)
      simp [this]
  cases be
  · exact key
  · exact key
  · exact key

theorem complement_complement (t : Table) : complement (complement t) = t := by
  cases t with
  | mk d w =>
    simp only [complement, List.map_map, Table.mk.injEq, and_true]
    conv => rhs; rw [← List.map_id d]
    apply List.map_congr_left
    intro r _
    simp only [Function.comp, List.map_map, id]
    conv => rhs; rw [← List.map_id r]
    apply List.map_congr_left
    intro v _; simp

theorem complement_wf (t : Table) (h : t.WF) : (complement t).WF := by
  intro r hr
  simp only [complement, List.mem_map] at hr
  obtain ⟨r0, h0, rfl⟩ := hr
  simp [h r0 h0, complement]

theorem complement_height (t : Table) : (complement t).height = t.height := by
  simp [complement, Table.height]

theorem complement_width (t : Table) : (complement t).width = t.width := rfl

theorem row_mem (t : Table) {g : Nat} (hg : g < t.height) : t.row g ∈ t.data := by
  unfold Table.row
  rw [List.getD_eq_getElem?_getD, List.getElem?_eq_getElem hg]
  exact List.getElem_mem hg

theorem complement_get (t : Table) (hwf : t.WF) {g a : Nat} (hg : g < t.height) (ha : a < t.width) :
    (complement t).get g a = !(t.get g a) := by
  have hlen : (t.row g).length = t.width := hwf _ (row_mem t hg)
  have hg' : g < t.data.length := hg
  have ha' : a < (t.data[g]).length := by
    have : t.row g = t.data[g] := by
      simp [Table.row, List.getD_eq_getElem?_getD, List.getElem?_eq_getElem hg']
    rw [← this, hlen]; exact ha
  simp [complement, Table.get, Table.row, List.getD_eq_getElem?_getD, List.getElem?_map,
    List.getElem?_eq_getElem hg', List.getElem?_eq_getElem ha']

/-! ## the derivation operators of the transposed table, with base lists -/

theorem get_oob_col (t : Table) (hwf : t.WF) {g a : Nat} (hg : g < t.height) (ha : t.width ≤ a) :
    t.get g a = false := by
  have hlen := hwf _ (row_mem t hg)
  unfold Table.get
  rw [List.getD_eq_getElem?_getD, List.getElem?_eq_none (by omega)]; rfl

theorem transpose_get_oob_row (t : Table) {g a : Nat} (ha : t.width ≤ a) :
    (transpose t).get a g = false := by
  simp [transpose, Table.get, Table.row, List.getD_eq_getElem?_getD, List.getElem?_map,
    List.getElem?_eq_none (l := List.range t.width) (by simpa using ha)]

theorem ext_transpose (t : Table) (A base : List Nat) (hb : ∀ a ∈ base, a < t.width) :
    Spec.ext (transpose t) A base = Spec.int t A base := by
  unfold Spec.ext Spec.int
  apply List.filter_congr
  intro a ha
  have haw := hb a ha
  apply List.all_congr rfl
  intro g
  by_cases hg : g < t.height
  · exact transpose_get t hg haw
  · rw [transpose_get_oob t (by omega) haw, get_oob_row t (by omega)]

theorem int_transpose (t : Table) (hwf : t.WF) (B base : List Nat) (hb : ∀ g ∈ base, g < t.height) :
    Spec.int (transpose t) B base = Spec.ext t B base := by
  unfold Spec.ext Spec.int
  apply List.filter_congr
  intro g hg
  have hgn := hb g hg
  apply List.all_congr rfl
  intro a
  by_cases ha : a < t.width
  · exact transpose_get t hgn ha
  · rw [get_oob_col t hwf hgn (by omega), transpose_get_oob_row t (by omega)]

/-! ## the `'not '` prefix toggle -/

def toggleL (cs : List Char) : List Char :=
  if notPrefix.isPrefixOf cs then cs.drop 4 else notPrefix ++ cs

theorem toggleNot_eq (s : String) : toggleNot s = String.ofList (toggleL s.toList) := by
  unfold toggleNot toggleL
  simp only
  split <;> rfl

theorem notPrefix_length : notPrefix.length = 4 := rfl

/-- the toggle is an involution exactly on the names that do not start with `"not not "` -/
theorem toggleL_toggleL_iff (cs : List Char) :
    toggleL (toggleL cs) = cs ↔ (notPrefix ++ notPrefix).isPrefixOf cs = false := by
  by_cases h : notPrefix.isPrefixOf cs = true
  · have hp := List.isPrefixOf_iff_prefix.mp h
    have hcs : notPrefix ++ cs.drop 4 = cs := by
      have := List.prefix_iff_eq_append.mp hp
      rwa [notPrefix_length] at this
    have h1 : toggleL cs = cs.drop 4 := by unfold toggleL; rw [if_pos h]
    rw [h1]
    generalize hr : cs.drop 4 = rest at hcs
    subst hcs
    have hiff : (notPrefix ++ notPrefix).isPrefixOf (notPrefix ++ rest) = notPrefix.isPrefixOf rest := by
      rw [Bool.eq_iff_iff, List.isPrefixOf_iff_prefix, List.isPrefixOf_iff_prefix]
      exact List.prefix_append_right_inj _
    rw [hiff]
    by_cases h2 : notPrefix.isPrefixOf rest = true
    · rw [h2]
      unfold toggleL
      rw [if_pos h2]
      constructor
      · intro heq
        have := congrArg List.length heq
        simp [notPrefix_length] at this
        omega
      · intro hc; cases hc
    · have h2' : notPrefix.isPrefixOf rest = false := Bool.eq_false_iff.mpr h2
      rw [h2']
      unfold toggleL
      rw [if_neg h2]
      simp
  · have h' : notPrefix.isPrefixOf cs = false := Bool.eq_false_iff.mpr h
    have h1 : toggleL cs = notPrefix ++ cs := by unfold toggleL; rw [if_neg h]
    rw [h1]
    have h3 : notPrefix.isPrefixOf (notPrefix ++ cs) = true :=
      List.isPrefixOf_iff_prefix.mpr (List.prefix_append _ _)
    have h4 : toggleL (notPrefix ++ cs) = cs := by
      unfold toggleL; rw [if_pos h3]
      show (notPrefix ++ cs).drop notPrefix.length = cs
      exact List.drop_left
    rw [h4]
    simp only [true_iff]
    cases h5 : (notPrefix ++ notPrefix).isPrefixOf cs with
    | false => rfl
    | true =>
      exfalso
      have hp := List.isPrefixOf_iff_prefix.mp h5
      have : notPrefix <+: cs := List.IsPrefix.trans (List.prefix_append _ _) hp
      exact h (List.isPrefixOf_iff_prefix.mpr this)

/-- a name on which toggling twice is the identity -/
def NameOK (s : String) : Prop := (notPrefix ++ notPrefix).isPrefixOf s.toList = false

instance (s : String) : Decidable (NameOK s) := by unfold NameOK; infer_instance

theorem toggleNot_toggleNot_iff (s : String) : toggleNot (toggleNot s) = s ↔ NameOK s := by
  rw [toggleNot_eq, toggleNot_eq, String.toList_ofList]
  unfold NameOK
  rw [← toggleL_toggleL_iff]
  constructor
  · intro h
    have := congrArg String.toList h
    rwa [String.toList_ofList] at this
  · intro h
    rw [h, String.ofList_toList]

theorem map_toggleNot_toggleNot (names : List String) (h : ∀ s ∈ names, NameOK s) :
    (names.map toggleNot).map toggleNot = names := by
  rw [List.map_map]
  conv => rhs; rw [← List.map_id names]
  apply List.map_congr_left
  intro s hs
  exact (toggleNot_toggleNot_iff s).mpr (h s hs)

/-! ## dictionaries and `_transpose_hierarchy` -/

theorem dget_dset (d : Dict) (k v : Nat) (s : List Nat) :
    dget (dset d k s) v = if v = k then s else dget d v := by
  unfold dget dset
  rw [List.lookup_cons]
  by_cases h : v = k
  · simp [h]
  · have hb : (v == k) = false := by simpa using h
    simp [h, hb]

theorem mem_setAdd {s : List Nat} {x k : Nat} : x ∈ setAdd s k ↔ x ∈ s ∨ x = k := by
  unfold setAdd
  split
  · rename_i h
    simp only [List.contains_eq_mem, decide_eq_true_eq] at h
    constructor
    · exact Or.inl
    · rintro (h1 | rfl)
      · exact h1
      · exact h
  · simp

theorem mem_dget_thInner (k : Nat) (vs : List Nat) (d : Dict) (x v : Nat) :
    x ∈ dget (thInner k vs d) v ↔ x ∈ dget d v ∨ (x = k ∧ v ∈ vs) := by
  induction vs generalizing d with
  | nil => simp [thInner]
  | cons v0 vs ih =>
    simp only [thInner]
    rw [ih, dget_dset]
    by_cases h : v = v0
    · subst h
      simp only [↓reduceIte, mem_setAdd, List.mem_cons, true_or, and_true]
      constructor
      · rintro ((h1 | h1) | h1)
        · exact Or.inl h1
        · exact Or.inr h1
        · exact Or.inr h1.1
      · rintro (h1 | h1)
        · exact Or.inl (Or.inl h1)
        · exact Or.inl (Or.inr h1)
    · simp [h]

theorem dget_of_not_dhas {d : Dict} {k : Nat} (h : dhas d k = false) : dget d k = [] := by
  unfold dhas at h
  unfold dget
  cases hl : d.lookup k with
  | none => rfl
  | some v => rw [hl] at h; simp at h

theorem mem_dget_thLoop (h : Dict) (d : Dict) (x v : Nat) :
    x ∈ dget (thLoop h d) v ↔ x ∈ dget d v ∨ ∃ vs, (x, vs) ∈ h ∧ v ∈ vs := by
  induction h generalizing d with
  | nil => simp [thLoop]
  | cons kv rest ih =>
    obtain ⟨k, vs⟩ := kv
    simp only [thLoop]
    rw [ih, mem_dget_thInner]
    have hd1 : x ∈ dget (if dhas d k = true then d else dset d k []) v ↔ x ∈ dget d v := by
      split
      · exact Iff.rfl
      · rename_i hk
        rw [dget_dset]
        split
        · rename_i hv
          subst hv
          rw [dget_of_not_dhas (Bool.eq_false_iff.mpr hk)]
        · exact Iff.rfl
    rw [hd1]
    constructor
    · rintro ((h1 | ⟨rfl, h1⟩) | ⟨vs', h1, h2⟩)
      · exact Or.inl h1
      · exact Or.inr ⟨vs, List.mem_cons_self, h1⟩
      · exact Or.inr ⟨vs', List.mem_cons_of_mem _ h1, h2⟩
    · rintro (h1 | ⟨vs', h1, h2⟩)
      · exact Or.inl (Or.inl h1)
      · rcases List.mem_cons.mp h1 with h3 | h3
        · simp only [Prod.mk.injEq] at h3
          obtain ⟨rfl, rfl⟩ := h3
          exact Or.inl (Or.inr ⟨rfl, h2⟩)
        · exact Or.inr ⟨vs', h3, h2⟩

/-- `_transpose_hierarchy` inverts the relation: `x ∈ result[v]` iff `v ∈ h[x]` for an item `(x, h[x])` -/
theorem mem_transposeHierarchy (h : Dict) (x v : Nat) :
    x ∈ dget (transposeHierarchy h) v ↔ ∃ vs, (x, vs) ∈ h ∧ v ∈ vs := by
  unfold transposeHierarchy
  rw [mem_dget_thLoop]
  simp [dget]

theorem lookup_map_range (l : List Nat) (f : Nat → List Nat) (k : Nat) :
    (l.map fun i => (i, f i)).lookup k = if k ∈ l then some (f k) else none := by
  induction l with
  | nil => simp
  | cons a as ih =>
    simp only [List.map_cons, List.lookup_cons, ih, List.mem_cons]
    by_cases h : k = a
    · subst h; simp
    · have hb : (k == a) = false := by simpa using h
      simp [h, hb]

theorem dget_map_range (n : Nat) (f : Nat → List Nat) {k : Nat} (hk : k < n) :
    dget ((List.range n).map fun i => (i, f i)) k = f k := by
  unfold dget
  rw [lookup_map_range, if_pos (List.mem_range.mpr hk)]
  rfl

/-! ## covers -/

theorem subset_iff {a b : List Nat} : Spec.subset a b = true ↔ ∀ x ∈ a, x ∈ b := by
  simp [Spec.subset]

theorem ssubset_eq (a b : List Nat) : ssubset a b = (Spec.subset a b && !(Spec.subset b a)) := rfl

/-- the two cover notions are converse to one another -/
theorem mem_lowerCovers_iff_mem_upperCovers (exts : List (List Nat)) {i j : Nat}
    (hi : i < exts.length) (hj : j < exts.length) :
    i ∈ lowerCovers exts j ↔ j ∈ upperCovers exts i := by
  simp [lowerCovers, upperCovers, List.mem_filter, hi, hj]

/-- if strict inclusion of `exts` is converse to strict inclusion of `ints`, upper covers in
    `exts` are lower covers in `ints` -/
theorem upperCovers_eq_lowerCovers_of_dual (exts ints : List (List Nat))
    (hlen : exts.length = ints.length)
    (h : ∀ i j, i < exts.length → j < exts.length →
      ssubset (exts.getD i []) (exts.getD j []) = ssubset (ints.getD j []) (ints.getD i []))
    (i : Nat) (hi : i < exts.length) : upperCovers exts i = lowerCovers ints i := by
  unfold upperCovers lowerCovers
  simp only
  rw [← hlen]
  apply List.filter_congr
  intro j hj
  have hj' := List.mem_range.mp hj
  rw [h i j hi hj']
  congr 2
  rw [Bool.eq_iff_iff, List.any_eq_true, List.any_eq_true]
  constructor
  · rintro ⟨k, hk, hkk⟩
    have hk' := List.mem_range.mp hk
    refine ⟨k, hk, ?_⟩
    rw [h i k hi hk', h k j hk' hj', Bool.and_comm] at hkk
    exact hkk
  · rintro ⟨k, hk, hkk⟩
    have hk' := List.mem_range.mp hk
    refine ⟨k, hk, ?_⟩
    rw [h i k hi hk', h k j hk' hj', Bool.and_comm]
    exact hkk

theorem ssubset_concept_dual (t : Table) {A₁ B₁ A₂ B₂ : List Nat}
    (h₁ : isConcept t A₁ B₁ = true) (h₂ : isConcept t A₂ B₂ = true) :
    ssubset A₁ A₂ = ssubset B₂ B₁ := by
  have o1 := concept_order t h₁ h₂
  have o2 := concept_order t h₂ h₁
  rw [ssubset_eq, ssubset_eq, Bool.eq_iff_iff]
  simp only [Bool.and_eq_true, Bool.not_eq_true', ← Bool.not_eq_true, subset_iff]
  rw [o1, o2]

/-! ## complements of index sets -/

theorem mem_compl {n : Nat} {xs : List Nat} {x : Nat} : x ∈ compl n xs ↔ x < n ∧ x ∉ xs := by
  simp [compl, List.mem_filter]

theorem mem_canon {n : Nat} {xs : List Nat} {x : Nat} : x ∈ canon n xs ↔ x < n ∧ x ∈ xs := by
  simp [canon, List.mem_filter]

theorem subset_compl {n : Nat} {a b : List Nat} (hb : ∀ x ∈ b, x < n) :
    Spec.subset (compl n a) (compl n b) = Spec.subset b a := by
  rw [Bool.eq_iff_iff, subset_iff, subset_iff]
  constructor
  · intro h x hx
    by_cases hxa : x ∈ a
    · exact hxa
    · exact absurd hx (mem_compl.mp (h x (mem_compl.mpr ⟨hb x hx, hxa⟩))).2
  · intro h x hx
    rw [mem_compl] at *
    exact ⟨hx.1, fun hxb => hx.2 (h x hxb)⟩

theorem ssubset_compl {n : Nat} {a b : List Nat} (ha : ∀ x ∈ a, x < n) (hb : ∀ x ∈ b, x < n) :
    ssubset (compl n a) (compl n b) = ssubset b a := by
  rw [ssubset_eq, ssubset_eq, subset_compl hb, subset_compl ha]

/-- `canon` fixes every filter of `range n` -/
theorem canon_filter (n : Nat) (p : Nat → Bool) : canon n ((List.range n).filter p) = (List.range n).filter p := by
  unfold canon
  apply List.filter_congr
  intro x hx
  rw [Bool.eq_iff_iff]
  simp only [List.contains_eq_mem, decide_eq_true_eq, List.mem_filter]
  exact ⟨fun h => h.2, fun h => ⟨hx, h⟩⟩

theorem compl_compl_filter (n : Nat) (p : Nat → Bool) :
    compl n (compl n ((List.range n).filter p)) = (List.range n).filter p := by
  unfold compl
  apply List.filter_congr
  intro x hx
  rw [Bool.eq_iff_iff]
  simp only [List.contains_eq_mem, Bool.not_eq_true', decide_eq_false_iff_not, List.mem_filter,
    not_and, Bool.not_eq_true]
  constructor
  · intro h
    by_cases hp : p x = true
    · exact hp
    · exfalso
      have := h hx
      simp [hx, hp] at this
  · intro hp _ hc
    exact absurd hp (by simpa [hx] using hc)

/-! ## monotone concepts are the object-complemented concepts of the complemented table -/

theorem mem_extMonoAll (t : Table) {B : List Nat} {g : Nat} :
    g ∈ extMonoAll t B ↔ g < t.height ∧ ∃ a ∈ B, t.get g a = true := by
  simp [extMonoAll, extMono, List.mem_filter]

theorem mem_intMonoAll (t : Table) {A : List Nat} {a : Nat} :
    a ∈ intMonoAll t A ↔ a < t.width ∧ ∀ g, g < t.height → g ∈ A ∨ t.get g a = false := by
  simp [intMonoAll, intMono, List.mem_filter]

theorem isMonoConcept_iff (t : Table) {A B : List Nat} :
    isMonoConcept t A B = true ↔ extMonoAll t B = A ∧ intMonoAll t A = B := by
  simp [isMonoConcept]

/-- `(C, B)` concept of the complemented table ⇒ `(G \ C, B)` monotone concept of the table -/
theorem isMonoConcept_of_complement (t : Table) (hwf : t.WF) {C B : List Nat}
    (h : isConcept (complement t) C B = true) : isMonoConcept t (compl t.height C) B = true := by
  rw [isConcept_iff] at h
  obtain ⟨hC, hB⟩ := h
  have hBlt : ∀ a ∈ B, a < t.width := by
    intro a ha; rw [← hB] at ha; exact intAll_lt (complement t) a ha
  have hCmem : ∀ g, g ∈ C ↔ g < t.height ∧ ∀ a ∈ B, t.get g a = false := by
    intro g
    rw [← hC, mem_extAll, complement_height]
    constructor
    · rintro ⟨hg, H⟩
      refine ⟨hg, fun a ha => ?_⟩
      have := H a ha
      rw [complement_get t hwf hg (hBlt a ha)] at this
      simpa using this
    · rintro ⟨hg, H⟩
      refine ⟨hg, fun a ha => ?_⟩
      rw [complement_get t hwf hg (hBlt a ha), H a ha]; rfl
  rw [isMonoConcept_iff]
  constructor
  · unfold extMonoAll extMono compl
    apply List.filter_congr
    intro g hg
    have hgn := List.mem_range.mp hg
    rw [Bool.eq_iff_iff]
    simp only [List.any_eq_true, List.contains_eq_mem, Bool.not_eq_true', decide_eq_false_iff_not]
    rw [hCmem]
    constructor
    · rintro ⟨a, ha, hga⟩ ⟨_, H⟩
      rw [H a ha] at hga; cases hga
    · intro H
      apply Classical.byContradiction
      intro hne
      apply H
      refine ⟨hgn, fun a ha => ?_⟩
      cases hv : t.get g a with
      | false => rfl
      | true => exact absurd ⟨a, ha, hv⟩ hne
  · rw [← hB]
    unfold intMonoAll intMono intAll Spec.int
    rw [complement_width]
    apply List.filter_congr
    intro a ha
    have han := List.mem_range.mp ha
    rw [Bool.eq_iff_iff]
    simp only [List.all_eq_true, List.mem_range, Bool.or_eq_true, List.contains_eq_mem,
      decide_eq_true_eq, Bool.not_eq_true', mem_compl]
    constructor
    · intro H g hg
      have hgn : g < t.height := ((hCmem g).mp hg).1
      rw [complement_get t hwf hgn han]
      rcases H g hgn with h1 | h1
      · exact absurd hg h1.2
      · rw [h1]; rfl
    · intro H g hgn
      by_cases hgC : g ∈ C
      · right
        have := H g hgC
        rw [complement_get t hwf hgn han] at this
        simpa using this
      · exact Or.inl ⟨hgn, hgC⟩

/-- `(A, B)` monotone concept of the table ⇒ `(G \ A, B)` concept of the complemented table -/
theorem isConcept_complement_of_mono (t : Table) (hwf : t.WF) {A B : List Nat}
    (h : isMonoConcept t A B = true) : isConcept (complement t) (compl t.height A) B = true := by
  rw [isMonoConcept_iff] at h
  obtain ⟨hA, hB⟩ := h
  have hBlt : ∀ a ∈ B, a < t.width := by
    intro a ha; rw [← hB] at ha; exact ((mem_intMonoAll t).mp ha).1
  have hAmem : ∀ g, g ∈ A ↔ g < t.height ∧ ∃ a ∈ B, t.get g a = true := by
    intro g; rw [← hA]; exact mem_extMonoAll t
  rw [isConcept_iff]
  constructor
  · unfold extAll Spec.ext compl
    rw [complement_height]
    apply List.filter_congr
    intro g hg
    have hgn := List.mem_range.mp hg
    rw [Bool.eq_iff_iff]
    simp only [List.all_eq_true, List.contains_eq_mem, Bool.not_eq_true', decide_eq_false_iff_not]
    rw [hAmem]
    constructor
    · intro H ⟨_, a, ha, hga⟩
      have := H a ha
      rw [complement_get t hwf hgn (hBlt a ha), hga] at this
      cases this
    · intro H a ha
      rw [complement_get t hwf hgn (hBlt a ha)]
      cases hv : t.get g a with
      | false => rfl
      | true => exact absurd ⟨hgn, a, ha, hv⟩ H
  · rw [← hB]
    unfold intMonoAll intMono intAll Spec.int
    rw [complement_width]
    apply List.filter_congr
    intro a ha
    have han := List.mem_range.mp ha
    rw [Bool.eq_iff_iff]
    simp only [List.all_eq_true, List.mem_range, Bool.or_eq_true, List.contains_eq_mem,
      decide_eq_true_eq, Bool.not_eq_true', mem_compl]
    constructor
    · intro H g hgn
      by_cases hgA : g ∈ A
      · exact Or.inl hgA
      · right
        have := H g ⟨hgn, hgA⟩
        rw [complement_get t hwf hgn han] at this
        simpa using this
    · intro H g ⟨hgn, hgA⟩
      rw [complement_get t hwf hgn han]
      rcases H g hgn with h1 | h1
      · exact absurd h1 hgA
      · rw [h1]; rfl

theorem extMonoAll_canon (t : Table) (B : List Nat) :
    compl t.height (compl t.height (extMonoAll t B)) = extMonoAll t B := by
  unfold extMonoAll extMono
  exact compl_compl_filter _ _

theorem extAll_compl_compl (t : Table) (B : List Nat) :
    compl t.height (compl t.height (extAll t B)) = extAll t B := by
  unfold extAll Spec.ext
  exact compl_compl_filter _ _

theorem filter_mem_sublists' (l : List Nat) (p : Nat → Bool) : l.filter p ∈ sublists l :=
  filter_mem_sublists l p

/-- the brute-force enumeration lists exactly the monotone concepts -/
theorem mem_monoConcepts (t : Table) {A B : List Nat} :
    (A, B) ∈ monoConcepts t ↔ isMonoConcept t A B = true := by
  unfold monoConcepts
  simp only [List.mem_flatMap, List.mem_map, List.mem_filter, Prod.mk.injEq]
  constructor
  · rintro ⟨A', _, B', ⟨_, h⟩, rfl, rfl⟩
    exact h
  · intro h
    have h' := (isMonoConcept_iff t).mp h
    refine ⟨A, ?_, B, ⟨?_, h⟩, rfl, rfl⟩
    · rw [← h'.1]; unfold extMonoAll extMono; exact filter_mem_sublists _ _
    · rw [← h'.2]; unfold intMonoAll intMono; exact filter_mem_sublists _ _

/-! ## set-level concepts and relabelling -/

theorem isConcept_iff_setConcept (t : Table) {A B : List Nat} :
    isConcept t A B = true ↔ SetConcept t A B ∧ canon t.height A = A ∧ canon t.width B = B := by
  rw [isConcept_iff]
  constructor
  · rintro ⟨hA, hB⟩
    refine ⟨⟨fun g => ?_, fun a => ?_⟩, ?_, ?_⟩
    · rw [← hA, mem_extAll]
    · rw [← hB, mem_intAll]
    · rw [← hA]; unfold extAll Spec.ext; exact canon_filter _ _
    · rw [← hB]; unfold intAll Spec.int; exact canon_filter _ _
  · rintro ⟨⟨sA, sB⟩, cA, cB⟩
    constructor
    · rw [← cA]
      unfold extAll Spec.ext canon
      apply List.filter_congr
      intro g hg
      have hgn := List.mem_range.mp hg
      rw [Bool.eq_iff_iff]
      simp only [List.all_eq_true, List.contains_eq_mem, decide_eq_true_eq]
      rw [sA g]
      exact ⟨fun H => ⟨hgn, H⟩, fun H => H.2⟩
    · rw [← cB]
      unfold intAll Spec.int canon
      apply List.filter_congr
      intro a ha
      have han := List.mem_range.mp ha
      rw [Bool.eq_iff_iff]
      simp only [List.all_eq_true, List.contains_eq_mem, decide_eq_true_eq]
      rw [sB a]
      exact ⟨fun H => ⟨han, H⟩, fun H => H.2⟩

theorem setConcept_congr (t : Table) {A A' B B' : List Nat} (hA : ∀ g, g ∈ A ↔ g ∈ A')
    (hB : ∀ a, a ∈ B ↔ a ∈ B') : SetConcept t A B ↔ SetConcept t A' B' := by
  unfold SetConcept
  constructor
  · rintro ⟨h1, h2⟩
    refine ⟨fun g => ?_, fun a => ?_⟩
    · rw [← hA, h1]
      exact ⟨fun ⟨x, y⟩ => ⟨x, fun a ha => y a ((hB a).mpr ha)⟩, fun ⟨x, y⟩ => ⟨x, fun a ha => y a ((hB a).mp ha)⟩⟩
    · rw [← hB, h2]
      exact ⟨fun ⟨x, y⟩ => ⟨x, fun g hg => y g ((hA g).mpr hg)⟩, fun ⟨x, y⟩ => ⟨x, fun g hg => y g ((hA g).mp hg)⟩⟩
  · rintro ⟨h1, h2⟩
    refine ⟨fun g => ?_, fun a => ?_⟩
    · rw [hA, h1]
      exact ⟨fun ⟨x, y⟩ => ⟨x, fun a ha => y a ((hB a).mp ha)⟩, fun ⟨x, y⟩ => ⟨x, fun a ha => y a ((hB a).mpr ha)⟩⟩
    · rw [hB, h2]
      exact ⟨fun ⟨x, y⟩ => ⟨x, fun g hg => y g ((hA g).mp hg)⟩, fun ⟨x, y⟩ => ⟨x, fun g hg => y g ((hA g).mpr hg)⟩⟩

/-- `π[r]` -/
def at_ (π : List Nat) (r : Nat) : Nat := π.getD r 0

theorem perm_length {π : List Nat} {n : Nat} (h : π.Perm (List.range n)) : π.length = n := by
  rw [h.length_eq, List.length_range]

theorem perm_at_lt {π : List Nat} {n : Nat} (h : π.Perm (List.range n)) {r : Nat} (hr : r < n) :
    at_ π r < n := by
  have hl : r < π.length := by rw [perm_length h]; exact hr
  have : π[r] ∈ π := List.getElem_mem hl
  have := List.mem_range.mp (h.mem_iff.mp this)
  simpa [at_, List.getD_eq_getElem?_getD, List.getElem?_eq_getElem hl] using this

theorem perm_surj {π : List Nat} {n : Nat} (h : π.Perm (List.range n)) {g : Nat} (hg : g < n) :
    ∃ r, r < n ∧ at_ π r = g := by
  have : g ∈ π := h.mem_iff.mpr (List.mem_range.mpr hg)
  obtain ⟨i, hi, hig⟩ := List.mem_iff_getElem.mp this
  refine ⟨i, by rw [← perm_length h]; exact hi, ?_⟩
  simp [at_, List.getD_eq_getElem?_getD, List.getElem?_eq_getElem hi, hig]

theorem perm_inj {π : List Nat} {n : Nat} (h : π.Perm (List.range n)) {r r' : Nat} (hr : r < n)
    (hr' : r' < n) (heq : at_ π r = at_ π r') : r = r' := by
  have hl : r < π.length := by rw [perm_length h]; exact hr
  have hl' : r' < π.length := by rw [perm_length h]; exact hr'
  have hnd : π.Nodup := h.nodup_iff.mpr List.nodup_range
  simp only [at_, List.getD_eq_getElem?_getD, List.getElem?_eq_getElem hl,
    List.getElem?_eq_getElem hl', Option.getD_some] at heq
  exact (List.getElem_inj hnd).mp heq

theorem permute_height (t : Table) (π σ : List Nat) : (permute t π σ).height = π.length := by
  simp [permute, Table.height]

theorem permute_width (t : Table) (π σ : List Nat) : (permute t π σ).width = σ.length := rfl

theorem permute_wf (t : Table) (π σ : List Nat) : (permute t π σ).WF := by
  intro r hr
  simp only [permute, List.mem_map] at hr
  obtain ⟨i, _, rfl⟩ := hr
  simp [permute]

theorem permute_get (t : Table) (π σ : List Nat) {r c : Nat} (hr : r < π.length) (hc : c < σ.length) :
    (permute t π σ).get r c = t.get (at_ π r) (at_ σ c) := by
  simp [permute, Table.get, Table.row, at_, List.getD_eq_getElem?_getD, List.getElem?_map,
    List.getElem?_eq_getElem hr, List.getElem?_eq_getElem hc]

/-- relabelling, set level: `(A', B')` is a concept of the permuted table iff its image is a concept
    of the original one -/
theorem setConcept_permute (t : Table) (π σ : List Nat) (hπ : π.Perm (List.range t.height))
    (hσ : σ.Perm (List.range t.width)) (A' B' : List Nat) :
    SetConcept (permute t π σ) A' B' ↔
      (SetConcept t (A'.map (at_ π)) (B'.map (at_ σ)) ∧ (∀ r ∈ A', r < t.height) ∧ (∀ c ∈ B', c < t.width)) := by
  have hπl := perm_length hπ
  have hσl := perm_length hσ
  unfold SetConcept
  rw [permute_height, permute_width, hπl, hσl]
  constructor
  · rintro ⟨h1, h2⟩
    have hA' : ∀ r ∈ A', r < t.height := fun r hr => ((h1 r).mp hr).1
    have hB' : ∀ c ∈ B', c < t.width := fun c hc => ((h2 c).mp hc).1
    refine ⟨⟨fun g => ?_, fun a => ?_⟩, hA', hB'⟩
    · simp only [List.mem_map]
      constructor
      · rintro ⟨r, hr, rfl⟩
        obtain ⟨hrn, H⟩ := (h1 r).mp hr
        refine ⟨perm_at_lt hπ hrn, ?_⟩
        rintro a ⟨c, hc, rfl⟩
        rw [← permute_get t π σ (by omega) (by have := hB' c hc; omega)]
        exact H c hc
      · rintro ⟨hg, H⟩
        obtain ⟨r, hrn, rfl⟩ := perm_surj hπ hg
        refine ⟨r, (h1 r).mpr ⟨hrn, fun c hc => ?_⟩, rfl⟩
        rw [permute_get t π σ (by omega) (by have := hB' c hc; omega)]
        exact H _ ⟨c, hc, rfl⟩
    · simp only [List.mem_map]
      constructor
      · rintro ⟨c, hc, rfl⟩
        obtain ⟨hcn, H⟩ := (h2 c).mp hc
        refine ⟨perm_at_lt hσ hcn, ?_⟩
        rintro g ⟨r, hr, rfl⟩
        rw [← permute_get t π σ (by have := hA' r hr; omega) (by omega)]
        exact H r hr
      · rintro ⟨ha, H⟩
        obtain ⟨c, hcn, rfl⟩ := perm_surj hσ ha
        refine ⟨c, (h2 c).mpr ⟨hcn, fun r hr => ?_⟩, rfl⟩
        rw [permute_get t π σ (by have := hA' r hr; omega) (by omega)]
        exact H _ ⟨r, hr, rfl⟩
  · rintro ⟨⟨h1, h2⟩, hA', hB'⟩
    refine ⟨fun r => ?_, fun c => ?_⟩
    · constructor
      · intro hr
        have hrn := hA' r hr
        refine ⟨hrn, fun c hc => ?_⟩
        rw [permute_get t π σ (by omega) (by have := hB' c hc; omega)]
        exact ((h1 _).mp (List.mem_map.mpr ⟨r, hr, rfl⟩)).2 _ (List.mem_map.mpr ⟨c, hc, rfl⟩)
      · rintro ⟨hrn, H⟩
        have : at_ π r ∈ A'.map (at_ π) := by
          rw [h1]
          refine ⟨perm_at_lt hπ hrn, ?_⟩
          intro a ha
          obtain ⟨c, hc, rfl⟩ := List.mem_map.mp ha
          rw [← permute_get t π σ (by omega) (by have := hB' c hc; omega)]
          exact H c hc
        obtain ⟨r', hr', heq⟩ := List.mem_map.mp this
        have := perm_inj hπ (hA' r' hr') hrn heq
        subst this; exact hr'
    · constructor
      · intro hc
        have hcn := hB' c hc
        refine ⟨hcn, fun r hr => ?_⟩
        rw [permute_get t π σ (by have := hA' r hr; omega) (by omega)]
        exact ((h2 _).mp (List.mem_map.mpr ⟨c, hc, rfl⟩)).2 _ (List.mem_map.mpr ⟨r, hr, rfl⟩)
      · rintro ⟨hcn, H⟩
        have : at_ σ c ∈ B'.map (at_ σ) := by
          rw [h2]
          refine ⟨perm_at_lt hσ hcn, ?_⟩
          intro g hg
          obtain ⟨r, hr, rfl⟩ := List.mem_map.mp hg
          rw [← permute_get t π σ (by have := hA' r hr; omega) (by omega)]
          exact H r hr
        obtain ⟨c', hc', heq⟩ := List.mem_map.mp this
        have := perm_inj hσ (hB' c' hc') hcn heq
        subst this; exact hc'

theorem canon_canon (n : Nat) (xs : List Nat) : canon n (canon n xs) = canon n xs := by
  unfold canon; exact canon_filter n _

/-! ## lattices: concept list + `children_dict` -/

/-- `L` lists exactly the formal concepts of `t` and its `children_dict` is the cover relation of
    extent inclusion (what an exact construction algorithm delivers: properties C02 / C03 / C12) -/
structure IsLatticeOf (t : Table) (L : Lat) : Prop where
  concepts : ∀ A B, (A, B) ∈ L.pairs ↔ isConcept t A B = true
  keys : ∀ k vs, (k, vs) ∈ L.children → k < L.concepts.length
  total : ∀ k, k < L.concepts.length → ∃ vs, (k, vs) ∈ L.children
  covers : ∀ k vs, (k, vs) ∈ L.children → ∀ j, j ∈ vs ↔ j ∈ lowerCovers L.exts k

/-- the same for the monotone lattice: monotone concepts, covers of the reversed-inclusion order -/
structure IsMonoLatticeOf (t : Table) (L : Lat) : Prop where
  concepts : ∀ A B, (A, B) ∈ L.pairs ↔ isMonoConcept t A B = true
  keys : ∀ k vs, (k, vs) ∈ L.children → k < L.concepts.length
  total : ∀ k, k < L.concepts.length → ∃ vs, (k, vs) ∈ L.children
  covers : ∀ k vs, (k, vs) ∈ L.children → ∀ j, j ∈ vs ↔ j ∈ monoLowerCovers L.exts k
  mono : L.mono = true ∧ ∀ c ∈ L.concepts, c.mono = true

theorem mem_of_lookup {d : Dict} {k : Nat} {vs : List Nat} (h : d.lookup k = some vs) : (k, vs) ∈ d := by
  induction d with
  | nil => simp at h
  | cons kv rest ih =>
    obtain ⟨k0, v0⟩ := kv
    rw [List.lookup_cons] at h
    by_cases hk : k = k0
    · subst hk
      simp at h
      subst h
      exact List.mem_cons_self
    · have hb : (k == k0) = false := by simpa using hk
      rw [hb] at h
      exact List.mem_cons_of_mem _ (ih h)

theorem lookup_isSome_of_mem {d : Dict} {k : Nat} {vs : List Nat} (h : (k, vs) ∈ d) :
    ∃ vs', d.lookup k = some vs' := by
  induction d with
  | nil => cases h
  | cons kv rest ih =>
    obtain ⟨k0, v0⟩ := kv
    rw [List.lookup_cons]
    by_cases hk : k = k0
    · subst hk; exact ⟨v0, by simp⟩
    · have hb : (k == k0) = false := by simpa using hk
      rw [hb]
      rcases List.mem_cons.mp h with h1 | h1
      · simp only [Prod.mk.injEq] at h1; exact absurd h1.1 hk
      · exact ih h1

/-- `self.children(i)` of a lattice whose `children_dict` is a cover relation -/
theorem mem_dget_children {L : Lat} {exts : List (List Nat)} {cov : List (List Nat) → Nat → List Nat}
    (total : ∀ k, k < L.concepts.length → ∃ vs, (k, vs) ∈ L.children)
    (covers : ∀ k vs, (k, vs) ∈ L.children → ∀ j, j ∈ vs ↔ j ∈ cov exts k)
    {i : Nat} (hi : i < L.concepts.length) (j : Nat) :
    j ∈ dget L.children i ↔ j ∈ cov exts i := by
  obtain ⟨vs, hvs⟩ := total i hi
  obtain ⟨vs', hl⟩ := lookup_isSome_of_mem hvs
  unfold dget
  rw [hl]
  exact covers i vs' (mem_of_lookup hl) j

theorem exts_length (L : Lat) : L.exts.length = L.concepts.length := by simp [Lat.exts]
theorem ints_length (L : Lat) : L.ints.length = L.concepts.length := by simp [Lat.ints]

theorem pair_mem (L : Lat) {i : Nat} (hi : i < L.concepts.length) :
    (L.exts.getD i [], L.ints.getD i []) ∈ L.pairs := by
  simp only [Lat.exts, Lat.ints, Lat.pairs, List.getD_eq_getElem?_getD, List.getElem?_map,
    List.getElem?_eq_getElem hi, Option.map_some, Option.getD_some, List.mem_map]
  exact ⟨L.concepts[i], List.getElem_mem hi, rfl⟩

theorem latT_pairs (L : Lat) (A B : List Nat) : (B, A) ∈ (latT L).pairs ↔ (A, B) ∈ L.pairs := by
  simp only [latT, Lat.pairs, List.map_map, List.mem_map, Function.comp, conceptT, Prod.mk.injEq]
  constructor
  · rintro ⟨c, hc, h1, h2⟩; exact ⟨c, hc, h2, h1⟩
  · rintro ⟨c, hc, h1, h2⟩; exact ⟨c, hc, h2, h1⟩

theorem latT_exts (L : Lat) : (latT L).exts = L.ints := by
  simp [latT, Lat.exts, Lat.ints, conceptT, Function.comp_def]

/-- `ConceptLattice.T` of the concept lattice of `t` is the concept lattice of the transposed table -/
theorem isLatticeOf_latT (t : Table) (hwf : t.WF) (L : Lat) (h : IsLatticeOf t L) :
    IsLatticeOf (transpose t) (latT L) := by
  have hlen : (latT L).concepts.length = L.concepts.length := by simp [latT]
  refine ⟨fun B A => ?_, ?_, ?_, ?_⟩
  · rw [latT_pairs, h.concepts, isConcept_transpose t hwf]
  · intro k vs hk
    simp only [latT, Lat.parentsDict, List.mem_map, List.mem_range, Prod.mk.injEq] at hk
    obtain ⟨i, hi, rfl, _⟩ := hk
    rw [hlen]; exact hi
  · intro k hk
    rw [hlen] at hk
    exact ⟨_, by
      simp only [latT, Lat.parentsDict, List.mem_map, List.mem_range, Prod.mk.injEq]
      exact ⟨k, hk, rfl, rfl⟩⟩
  · intro k vs hk j
    simp only [latT, Lat.parentsDict, List.mem_map, List.mem_range, Prod.mk.injEq] at hk
    obtain ⟨i, hi, rfl, rfl⟩ := hk
    rw [latT_exts, mem_transposeHierarchy]
    have hdual : upperCovers L.exts i = lowerCovers L.ints i := by
      apply upperCovers_eq_lowerCovers_of_dual L.exts L.ints (by rw [exts_length, ints_length])
      · intro a b ha hb
        rw [exts_length] at ha hb
        exact ssubset_concept_dual t ((h.concepts _ _).mp (pair_mem L ha)) ((h.concepts _ _).mp (pair_mem L hb))
      · rw [exts_length]; exact hi
    rw [← hdual]
    constructor
    · rintro ⟨vs, hvs, hin⟩
      have hj := h.keys j vs hvs
      have := (h.covers j vs hvs i).mp hin
      exact (mem_lowerCovers_iff_mem_upperCovers L.exts (by rw [exts_length]; exact hi)
        (by rw [exts_length]; exact hj)).mp this
    · intro hj
      have hjl : j < L.concepts.length := by
        have := (List.mem_filter.mp hj).1
        rw [List.mem_range, exts_length] at this; exact this
      obtain ⟨vs, hvs⟩ := h.total j hjl
      refine ⟨vs, hvs, (h.covers j vs hvs i).mpr ?_⟩
      exact (mem_lowerCovers_iff_mem_upperCovers L.exts (by rw [exts_length]; exact hi)
        (by rw [exts_length]; exact hjl)).mpr hj

/-- the canonical lattice of a table: brute-force concepts, cover relation of extent inclusion -/
def specLat (t : Table) : Lat :=
  let cs := allConcepts t
  ⟨cs.map fun p => ⟨p.1, [], p.2, [], none, false⟩,
   (List.range cs.length).map fun i => (i, lowerCovers (cs.map (·.1)) i), false⟩

theorem isLatticeOf_specLat (t : Table) : IsLatticeOf t (specLat t) := by
  have hexts : (specLat t).exts = (allConcepts t).map (·.1) := by
    simp [specLat, Lat.exts, Function.comp_def]
  refine ⟨fun A B => ?_, ?_, ?_, ?_⟩
  · rw [← mem_allConcepts]
    simp only [specLat, Lat.pairs, List.map_map, Function.comp_def, List.mem_map]
    constructor
    · rintro ⟨p, hp, heq⟩; obtain ⟨a, b⟩ := p; simp only [Prod.mk.injEq] at heq
      obtain ⟨rfl, rfl⟩ := heq; exact hp
    · intro hp; exact ⟨(A, B), hp, rfl⟩
  · intro k vs hk
    simp only [specLat, List.mem_map, List.mem_range, Prod.mk.injEq] at hk
    obtain ⟨i, hi, rfl, _⟩ := hk
    simpa [specLat] using hi
  · intro k hk
    have hk' : k < (allConcepts t).length := by simpa [specLat] using hk
    exact ⟨_, by
      simp only [specLat, List.mem_map, List.mem_range, Prod.mk.injEq]
      exact ⟨k, hk', rfl, rfl⟩⟩
  · intro k vs hk j
    simp only [specLat, List.mem_map, List.mem_range, Prod.mk.injEq] at hk
    obtain ⟨i, _, rfl, rfl⟩ := hk
    rw [hexts]

/-! ## the monotone construction -/

theorem fcm_pairs (K : Ctx) (hash : Int) (L : Lat) :
    (fromContextMonotone K hash L).pairs = L.concepts.map fun c => (compl K.nObjects c.extI, c.intI) := by
  simp [fromContextMonotone, Lat.pairs, monoConcept, compl, Function.comp_def]

theorem fcm_exts (K : Ctx) (hash : Int) (L : Lat) :
    (fromContextMonotone K hash L).exts = L.exts.map (compl K.nObjects) := by
  simp [fromContextMonotone, Lat.exts, monoConcept, compl, Function.comp_def]

/-- concept set of the monotone construction -/
theorem fcm_concepts (K : Ctx) (hwf : K.table.WF) (hash : Int) (L : Lat)
    (hL : ∀ C B, (C, B) ∈ L.pairs ↔ isConcept (complement K.table) C B = true) (A B : List Nat) :
    (A, B) ∈ (fromContextMonotone K hash L).pairs ↔ isMonoConcept K.table A B = true := by
  rw [fcm_pairs]
  simp only [List.mem_map, Prod.mk.injEq]
  constructor
  · rintro ⟨c, hc, rfl, rfl⟩
    have : (c.extI, c.intI) ∈ L.pairs := List.mem_map.mpr ⟨c, hc, rfl⟩
    exact isMonoConcept_of_complement K.table hwf ((hL _ _).mp this)
  · intro h
    have hc := (hL _ _).mpr (isConcept_complement_of_mono K.table hwf h)
    obtain ⟨c, hc, heq⟩ := List.mem_map.mp hc
    simp only [Prod.mk.injEq] at heq
    refine ⟨c, hc, ?_, heq.2⟩
    rw [heq.1]
    have hA := ((isMonoConcept_iff K.table).mp h).1
    rw [← hA]
    exact extMonoAll_canon K.table B

/-- inherited children = lower covers of the reversed-inclusion order on the new extents -/
theorem lowerCovers_eq_monoLowerCovers_compl (n : Nat) (exts : List (List Nat))
    (hin : ∀ e ∈ exts, ∀ g ∈ e, g < n) {i : Nat} (hi : i < exts.length) :
    monoLowerCovers (exts.map (compl n)) i = lowerCovers exts i := by
  unfold monoLowerCovers
  apply upperCovers_eq_lowerCovers_of_dual _ _ (by simp)
  · intro a b ha hb
    simp only [List.length_map] at ha hb
    have ea : (exts.map (compl n)).getD a [] = compl n (exts.getD a []) := by
      simp [List.getD_eq_getElem?_getD, List.getElem?_map, List.getElem?_eq_getElem ha]
    have eb : (exts.map (compl n)).getD b [] = compl n (exts.getD b []) := by
      simp [List.getD_eq_getElem?_getD, List.getElem?_map, List.getElem?_eq_getElem hb]
    rw [ea, eb]
    have hma : exts.getD a [] ∈ exts := by
      simp [List.getD_eq_getElem?_getD, List.getElem?_eq_getElem ha]
    have hmb : exts.getD b [] ∈ exts := by
      simp [List.getD_eq_getElem?_getD, List.getElem?_eq_getElem hb]
    exact ssubset_compl (hin _ hma) (hin _ hmb)
  · simpa using hi

theorem isMonoLatticeOf_fcm (K : Ctx) (hwf : K.table.WF) (hash : Int) (L : Lat)
    (h : IsLatticeOf (complement K.table) L) :
    IsMonoLatticeOf K.table (fromContextMonotone K hash L) := by
  have hlen : (fromContextMonotone K hash L).concepts.length = L.concepts.length := by
    simp [fromContextMonotone]
  have hin : ∀ e ∈ L.exts, ∀ g ∈ e, g < K.nObjects := by
    intro e he g hg
    obtain ⟨c, hc, rfl⟩ := List.mem_map.mp he
    have : (c.extI, c.intI) ∈ L.pairs := List.mem_map.mpr ⟨c, hc, rfl⟩
    have hcon := (isConcept_iff _).mp ((h.concepts _ _).mp this)
    rw [← hcon.1] at hg
    have := extAll_lt _ g hg
    rwa [complement_height] at this
  refine ⟨fcm_concepts K hwf hash L h.concepts, ?_, ?_, ?_, ?_⟩
  · intro k vs hk
    simp only [fromContextMonotone, Lat.childrenDict, List.mem_map, List.mem_range, Prod.mk.injEq] at hk
    obtain ⟨i, hi, rfl, _⟩ := hk
    rw [hlen]; exact hi
  · intro k hk
    rw [hlen] at hk
    exact ⟨_, by
      simp only [fromContextMonotone, Lat.childrenDict, List.mem_map, List.mem_range, Prod.mk.injEq]
      exact ⟨k, hk, rfl, rfl⟩⟩
  · intro k vs hk j
    simp only [fromContextMonotone, Lat.childrenDict, List.mem_map, List.mem_range, Prod.mk.injEq] at hk
    obtain ⟨i, hi, rfl, rfl⟩ := hk
    rw [fcm_exts, lowerCovers_eq_monoLowerCovers_compl _ _ hin (by rw [exts_length]; exact hi)]
    exact mem_dget_children h.total h.covers hi j
  · refine ⟨rfl, ?_⟩
    intro c hc
    simp only [fromContextMonotone, List.mem_map] at hc
    obtain ⟨c0, _, rfl⟩ := hc
    rfl

/-! ## `K[rows, cols]` is the permuted table; preimages under a permutation -/

theorem subtable_eq_permute (be : Backend) (t : Table) (π σ : List Nat) (hπ : 1 ≤ π.length) :
    subtable be t π σ = permute t π σ := by
  have key : mkTable (π.map fun i => σ.map fun j => t.get i j) = permute t π σ := by
    unfold mkTable Table.ofRows permute
    cases π with
    | nil => simp at hπ
    | cons a as => simp
  cases be
  · exact key
  · exact key
  · show mkTable ((π.map t.row).map fun r => σ.map fun j => r.getD j false) = _
    rw [List.map_map]
    exact key

/-- the preimage of a set under `π`, ascending -/
def preimage (n : Nat) (π : List Nat) (A : List Nat) : List Nat :=
  (List.range n).filter fun r => A.contains (at_ π r)

theorem canon_map_preimage {π : List Nat} {n : Nat} (hπ : π.Perm (List.range n)) (A : List Nat) :
    canon n ((preimage n π A).map (at_ π)) = canon n A := by
  unfold canon
  apply List.filter_congr
  intro g hg
  have hgn := List.mem_range.mp hg
  rw [Bool.eq_iff_iff]
  simp only [List.contains_eq_mem, decide_eq_true_eq, List.mem_map, preimage, List.mem_filter,
    List.mem_range]
  constructor
  · rintro ⟨r, ⟨_, hr⟩, rfl⟩; exact hr
  · intro hgA
    obtain ⟨r, hrn, rfl⟩ := perm_surj hπ hgn
    exact ⟨r, ⟨hrn, hgA⟩, rfl⟩

theorem preimage_lt (n : Nat) (π A : List Nat) : ∀ r ∈ preimage n π A, r < n := by
  intro r hr
  exact List.mem_range.mp (List.mem_filter.mp hr).1

/-- an injective relabelling preserves inclusion -/
theorem subset_map_perm {π : List Nat} {n : Nat} (hπ : π.Perm (List.range n)) {A₁ A₂ : List Nat}
    (h₁ : ∀ r ∈ A₁, r < n) (h₂ : ∀ r ∈ A₂, r < n) :
    Spec.subset (A₁.map (at_ π)) (A₂.map (at_ π)) = Spec.subset A₁ A₂ := by
  rw [Bool.eq_iff_iff, subset_iff, subset_iff]
  constructor
  · intro h r hr
    obtain ⟨r', hr', heq⟩ := List.mem_map.mp (h _ (List.mem_map.mpr ⟨r, hr, rfl⟩))
    have := perm_inj hπ (h₂ r' hr') (h₁ r hr) heq
    subst this; exact hr'
  · intro h g hg
    obtain ⟨r, hr, rfl⟩ := List.mem_map.mp hg
    exact List.mem_map.mpr ⟨r, h r hr, rfl⟩

/-! ## soundness of the executable checkers the driver applies to the implementation's output -/

theorem sameSet_iff (xs ys : List (List Nat × List Nat)) :
    sameSet xs ys = true ↔ ∀ p, p ∈ xs ↔ p ∈ ys := by
  simp only [sameSet, Bool.and_eq_true, List.all_eq_true, List.contains_eq_mem, decide_eq_true_eq]
  constructor
  · rintro ⟨h1, h2⟩ p; exact ⟨h1 p, h2 p⟩
  · intro h; exact ⟨fun p hp => (h p).mp hp, fun p hp => (h p).mpr hp⟩

theorem coverOK_iff (rev : Bool) (exts children : List (List Nat)) :
    coverOK rev exts children = true ↔
      children.length = exts.length ∧ ∀ i, i < exts.length → ∀ j,
        (j ∈ children.getD i [] ↔
          j ∈ (if rev = true then monoLowerCovers exts i else lowerCovers exts i)) := by
  simp only [coverOK, Bool.and_eq_true, beq_iff_eq, List.all_eq_true, List.mem_range,
    List.contains_eq_mem, decide_eq_true_eq]
  constructor
  · rintro ⟨h0, h⟩
    refine ⟨h0, fun i hi j => ?_⟩
    obtain ⟨h1, h2⟩ := h i hi
    exact ⟨h1 j, h2 j⟩
  · rintro ⟨h0, h⟩
    refine ⟨h0, fun i hi => ⟨fun j hj => (h i hi j).mp hj, fun j hj => (h i hi j).mpr hj⟩⟩

theorem relOK_iff (f : List (List Nat) → Nat → List Nat) (exts rel : List (List Nat)) :
    relOK f exts rel = true ↔
      rel.length = exts.length ∧ ∀ i, i < exts.length → ∀ j, (j ∈ rel.getD i [] ↔ j ∈ f exts i) := by
  simp only [relOK, Bool.and_eq_true, beq_iff_eq, List.all_eq_true, List.mem_range,
    List.contains_eq_mem, decide_eq_true_eq]
  constructor
  · rintro ⟨h0, h⟩
    refine ⟨h0, fun i hi j => ?_⟩
    obtain ⟨h1, h2⟩ := h i hi
    exact ⟨h1 j, h2 j⟩
  · rintro ⟨h0, h⟩
    refine ⟨h0, fun i hi => ⟨fun j hj => (h i hi j).mp hj, fun j hj => (h i hi j).mpr hj⟩⟩

theorem mem_strictDown (exts : List (List Nat)) (i j : Nat) :
    j ∈ strictDown exts i ↔ j < exts.length ∧ ssubset (exts.getD j []) (exts.getD i []) = true := by
  simp [strictDown, List.mem_filter]

theorem mem_strictUp (exts : List (List Nat)) (i j : Nat) :
    j ∈ strictUp exts i ↔ j < exts.length ∧ ssubset (exts.getD i []) (exts.getD j []) = true := by
  simp [strictUp, List.mem_filter]

/-- the cheap oracle for monotone concepts (through the complemented table) is exact -/
theorem mem_monoConceptsFast (t : Table) (hwf : t.WF) {A B : List Nat} :
    (A, B) ∈ monoConceptsFast t ↔ isMonoConcept t A B = true := by
  unfold monoConceptsFast
  simp only [List.mem_map, Prod.mk.injEq]
  constructor
  · rintro ⟨⟨C, B'⟩, hp, rfl, rfl⟩
    exact isMonoConcept_of_complement t hwf ((mem_allConcepts _).mp hp)
  · intro h
    refine ⟨(compl t.height A, B), (mem_allConcepts _).mpr (isConcept_complement_of_mono t hwf h), ?_, rfl⟩
    have hA := ((isMonoConcept_iff t).mp h).1
    rw [← hA]
    exact extMonoAll_canon t B

end Fca.Dual

/-
  Lemmas about the layout model: the specification notions (`ChainTo`, `IsLevel`, `Anc`), soundness of
  the level recursion `goodLevel` and of the checker `holdsLayout`.
-/
import Fca.Model.Layout
namespace Fca.Layout

/-! ### specification -/

/-- `ChainTo parents i k`: there is a chain of `k` cover steps from a maximal element (one without
    parents) down to `i`.  Every maximal chain of a finite poset consists of cover steps, so the
    longest such chain is the longest chain of the order. -/
inductive ChainTo (parents : List (List Nat)) : Nat → Nat → Prop where
  | top {i : Nat} : i < parents.length → parents.getD i [] = [] → ChainTo parents i 0
  | step {i p k : Nat} : i < parents.length → p ∈ parents.getD i [] → ChainTo parents p k →
      ChainTo parents i (k + 1)

/-- `k` is the length of the longest chain from a maximal element down to `i` -/
def IsLevel (parents : List (List Nat)) (i k : Nat) : Prop :=
  ChainTo parents i k ∧ ∀ k', ChainTo parents i k' → k' ≤ k

/-- `Anc parents i j`: `j` is a proper ancestor of `i` (transitive closure of the cover relation) -/
inductive Anc (parents : List (List Nat)) : Nat → Nat → Prop where
  | parent {i p : Nat} : p ∈ parents.getD i [] → Anc parents i p
  | trans {i p j : Nat} : p ∈ parents.getD i [] → Anc parents p j → Anc parents i j

/-! ### the level recursion determines the longest chain -/

theorem goodLevel_nil {parents : List (List Nat)} {lv : List Nat} {i : Nat}
    (h : goodLevel parents lv i = true) (hp : parents.getD i [] = []) : lv.getD i 0 = 0 := by
  simp only [goodLevel, hp] at h
  simpa using h

theorem goodLevel_cons {parents : List (List Nat)} {lv : List Nat} {i : Nat}
    (h : goodLevel parents lv i = true) (hp : parents.getD i [] ≠ []) :
    (∃ q ∈ parents.getD i [], lv.getD q 0 + 1 = lv.getD i 0) ∧
    ∀ q ∈ parents.getD i [], lv.getD q 0 + 1 ≤ lv.getD i 0 := by
  unfold goodLevel at h
  split at h
  · rename_i h0; exact absurd h0 hp
  · rename_i p ps h0
    rw [h0]
    simp only [Bool.and_eq_true, List.any_eq_true, List.all_eq_true, beq_iff_eq, decide_eq_true_eq] at h
    exact h

theorem chain_le_of_good {parents : List (List Nat)} {lv : List Nat}
    (hg : ∀ i, i < parents.length → goodLevel parents lv i = true) :
    ∀ {i k}, ChainTo parents i k → k ≤ lv.getD i 0 := by
  intro i k h
  induction h with
  | top _ _ => exact Nat.zero_le _
  | @step i p k hi hp _ ih =>
    have hne : parents.getD i [] ≠ [] := by intro e; rw [e] at hp; cases hp
    have := (goodLevel_cons (hg i hi) hne).2 p hp
    omega

theorem chain_of_good {parents : List (List Nat)} {lv : List Nat}
    (hr : ∀ i, i < parents.length → ∀ p ∈ parents.getD i [], p < parents.length)
    (hg : ∀ i, i < parents.length → goodLevel parents lv i = true) :
    ∀ b i, i < parents.length → lv.getD i 0 ≤ b → ChainTo parents i (lv.getD i 0) := by
  intro b
  induction b with
  | zero =>
    intro i hi hb
    by_cases hp : parents.getD i [] = []
    · rw [goodLevel_nil (hg i hi) hp]; exact .top hi hp
    · obtain ⟨q, _, hq⟩ := (goodLevel_cons (hg i hi) hp).1
      omega
  | succ b ih =>
    intro i hi hb
    by_cases hp : parents.getD i [] = []
    · rw [goodLevel_nil (hg i hi) hp]; exact .top hi hp
    · obtain ⟨q, hqm, hq⟩ := (goodLevel_cons (hg i hi) hp).1
      rw [← hq]
      exact .step hi hqm (ih q (hr i hi q hqm) (by omega))

/-- a level vector satisfying the local recursion gives every element the length of its longest chain -/
theorem isLevel_of_good {parents : List (List Nat)} {lv : List Nat}
    (hr : ∀ i, i < parents.length → ∀ p ∈ parents.getD i [], p < parents.length)
    (hg : ∀ i, i < parents.length → goodLevel parents lv i = true) :
    ∀ i, i < parents.length → IsLevel parents i (lv.getD i 0) :=
  fun i hi => ⟨chain_of_good hr hg _ i hi (Nat.le_refl _), fun _ h => chain_le_of_good hg h⟩

/-! ### the checker -/

theorem distinctB_nodup : ∀ {l : List (Rat × Rat)}, distinctB l = true → l.Nodup
  | [], _ => List.nodup_nil
  | p :: ps, h => by
    simp only [distinctB, Bool.and_eq_true, Bool.not_eq_true', List.contains_eq_mem,
      decide_eq_false_iff_not] at h
    exact List.nodup_cons.mpr ⟨h.1, distinctB_nodup h.2⟩

theorem holdsLayout_parts {parents : List (List Nat)} {lv : List Nat} {pos : List (Rat × Rat)}
    (h : holdsLayout parents lv pos = true) :
    pos.length = parents.length ∧ lv.length = parents.length ∧ pos.Nodup ∧
    (∀ i, i < parents.length → ∀ p ∈ parents.getD i [], p < parents.length ∧ yOf pos i < yOf pos p) ∧
    (∀ i, i < parents.length → goodLevel parents lv i = true) := by
  simp only [holdsLayout, Bool.and_eq_true, beq_iff_eq, List.all_eq_true, List.mem_range,
    decide_eq_true_eq] at h
  obtain ⟨⟨⟨⟨h1, h2⟩, h3⟩, h4⟩, h5⟩ := h
  exact ⟨h1, h2, distinctB_nodup h3, h4, h5⟩

theorem anc_lower {parents : List (List Nat)} {pos : List (Rat × Rat)}
    (ho : ∀ i, i < parents.length → ∀ p ∈ parents.getD i [], p < parents.length ∧ yOf pos i < yOf pos p) :
    ∀ {i j}, Anc parents i j → i < parents.length → j < parents.length ∧ yOf pos i < yOf pos j := by
  intro i j h
  induction h with
  | parent hp => intro hi; exact ho _ hi _ hp
  | trans hp _ ih =>
    intro hi
    obtain ⟨h1, h2⟩ := ho _ hi _ hp
    obtain ⟨h3, h4⟩ := ih h1
    exact ⟨h3, by grind⟩

/-! ### `calc_levels`: the FIFO loop establishes the level recursion -/

/-- what the theorems assume about the poset interface data -/
structure WFP (P : PosetData) : Prop where
  par_lt  : ∀ i, i < P.n → ∀ p ∈ P.par i, p < P.n
  top_nil : ∀ t ∈ P.tops, P.par t = []
  nil_top : ∀ i, i < P.n → P.par i = [] → i ∈ P.tops

theorem lvAt_set (lv : List Int) (q j : Nat) (v : Int) :
    lvAt (lv.set q v) j = if j = q ∧ q < lv.length then v else lvAt lv j := by
  simp only [lvAt, List.getD_eq_getElem?_getD, List.getElem?_set]
  by_cases h : q = j
  · subst h
    by_cases h2 : q < lv.length <;> simp [h2]
  · have : ¬ j = q := fun e => h e.symm
    simp [h, this]

theorem set_lvAt_self (lv : List Int) (q : Nat) : lv.set q (lvAt lv q) = lv := by
  apply List.ext_getElem?
  intro j
  simp only [List.getElem?_set, lvAt, List.getD_eq_getElem?_getD]
  by_cases h : q = j
  · subst h
    by_cases h2 : q < lv.length <;> simp [h2]
  · simp [h]

theorem newLevel_congr (P : PosetData) (lv lv' : List Int) (i : Nat)
    (h : ∀ p ∈ P.par i, lvAt lv' p = lvAt lv p) : newLevel P lv' i = newLevel P lv i := by
  unfold newLevel
  have : (P.par i).map (lvAt lv') = (P.par i).map (lvAt lv) := List.map_congr_left h
  rw [this]

/-- placed nodes satisfy the assignment formula, with all parents placed -/
def GoodI (P : PosetData) (lv : List Int) (i : Nat) : Prop :=
  0 ≤ lvAt lv i → newLevel P lv i = some (lvAt lv i) ∧ (i ∉ P.tops → ∀ p ∈ P.par i, 0 ≤ lvAt lv p)

def Inv (P : PosetData) (lv : List Int) (queue : List Nat) : Prop :=
  (∀ i, GoodI P lv i) ∧ ∀ q ∈ queue, q ∈ P.tops ∨ ∀ p ∈ P.par q, 0 ≤ lvAt lv p

theorem mem_toVisit {P : PosetData} {lv : List Int} {q c : Nat} (h : c ∈ toVisit P lv q) :
    ∀ p ∈ P.par c, 0 ≤ lvAt lv p := by
  simp only [toVisit, List.mem_filter, Bool.and_eq_true, List.all_eq_true, decide_eq_true_eq] at h
  exact h.2.2

theorem inv_step {P : PosetData} {lv : List Int} {q : Nat} {rest : List Nat} {v : Int}
    (hI : Inv P lv (q :: rest)) (hv : newLevel P lv q = some v) :
    Inv P (lv.set q v) (rest ++ toVisit P (lv.set q v) q) := by
  obtain ⟨hg, hq⟩ := hI
  by_cases h0 : 0 ≤ lvAt lv q
  · -- already placed: the assignment does not change anything
    have : v = lvAt lv q := by
      have := (hg q h0).1
      rw [hv] at this
      exact Option.some.inj this
    subst this
    rw [set_lvAt_self]
    refine ⟨hg, ?_⟩
    intro r hr
    rcases List.mem_append.mp hr with hr | hr
    · exact hq r (List.mem_cons_of_mem _ hr)
    · exact Or.inr (mem_toVisit hr)
  · have hne : ∀ p, 0 ≤ lvAt lv p → lvAt (lv.set q v) p = lvAt lv p := by
      intro p hp
      rw [lvAt_set]
      split
      · rename_i h; obtain ⟨rfl, _⟩ := h; exact absurd hp h0
      · rfl
    refine ⟨?_, ?_⟩
    · intro i hi
      by_cases hiq : i = q
      · subst hiq
        rw [lvAt_set] at hi ⊢
        split at hi
        · rename_i hc
          simp only [hc, and_self, ↓reduceIte]
          rcases hq i List.mem_cons_self with ht | hp
          · have hv0 : v = 0 := by
              simp only [newLevel, ht, ↓reduceIte] at hv
              exact (Option.some.inj hv).symm
            refine ⟨by simp only [newLevel, ht, ↓reduceIte, hv0], fun hnt => absurd ht hnt⟩
          · refine ⟨?_, fun _ p hp' => by rw [hne p (hp p hp')]; exact hp p hp'⟩
            rw [newLevel_congr P lv _ i (fun p hp' => hne p (hp p hp'))]
            exact hv
        · exact absurd hi h0
      · have hsame : lvAt (lv.set q v) i = lvAt lv i := by
          rw [lvAt_set]; simp only [hiq, false_and, ↓reduceIte]
        rw [hsame] at hi ⊢
        obtain ⟨h1, h2⟩ := hg i hi
        by_cases ht : i ∈ P.tops
        · refine ⟨?_, fun hnt => absurd ht hnt⟩
          simp only [newLevel, ht, ↓reduceIte] at h1 ⊢
          exact h1
        · refine ⟨?_, fun _ p hp => by rw [hne p (h2 ht p hp)]; exact h2 ht p hp⟩
          rw [newLevel_congr P lv _ i (fun p hp => hne p (h2 ht p hp))]
          exact h1
    · intro r hr
      rcases List.mem_append.mp hr with hr | hr
      · rcases hq r (List.mem_cons_of_mem _ hr) with h | h
        · exact Or.inl h
        · exact Or.inr (fun p hp => by rw [hne p (h p hp)]; exact h p hp)
      · exact Or.inr (mem_toVisit hr)

theorem levelsLoop_inv {P : PosetData} : ∀ (fuel : Nat) (queue : List Nat) (lv lvf : List Int),
    Inv P lv queue → levelsLoop P fuel queue lv = .ok lvf →
    (∀ i, GoodI P lvf i) ∧ lvf.length = lv.length
  | _, [], lv, lvf, hI, h => by
    simp only [levelsLoop] at h; cases h; exact ⟨hI.1, rfl⟩
  | 0, _ :: _, _, _, _, h => by simp only [levelsLoop] at h; cases h
  | fuel + 1, q :: rest, lv, lvf, hI, h => by
    simp only [levelsLoop] at h
    split at h
    · cases h
    · rename_i v hv
      obtain ⟨a, b⟩ := levelsLoop_inv fuel _ _ lvf (inv_step hI hv) h
      exact ⟨a, by rw [b, List.length_set]⟩

theorem maxL_spec : ∀ {l : List Int} {m : Int}, maxL l = some m → m ∈ l ∧ ∀ x ∈ l, x ≤ m
  | [], m, h => by simp [maxL] at h
  | x :: xs, m, h => by
    simp only [maxL] at h
    split at h
    · rename_i hn
      cases h
      cases xs with
      | nil => simp
      | cons y ys =>
        simp only [maxL] at hn
        split at hn <;> cases hn
    · rename_i m' hm'
      obtain ⟨h1, h2⟩ := maxL_spec hm'
      cases h
      split
      · rename_i hle
        refine ⟨List.mem_cons_of_mem _ h1, ?_⟩
        intro y hy
        rcases List.mem_cons.mp hy with rfl | hy
        · exact hle
        · exact h2 y hy
      · rename_i hle
        refine ⟨List.mem_cons_self, ?_⟩
        intro y hy
        rcases List.mem_cons.mp hy with rfl | hy
        · exact Int.le_refl _
        · have := h2 y hy; omega

/-- the levels `calc_levels` returns satisfy the level recursion -/
theorem calcLevels_good {P : PosetData} (hP : WFP P) {fuel : Nat} {l : List Nat} {ld : List (List Nat)}
    (h : calcLevels P fuel = .ok (l, ld)) :
    l.length = P.n ∧ ld = levelsDict l ∧ ∀ i, i < P.n → goodLevel P.parents l i = true := by
  unfold calcLevels at h
  split at h
  · cases h
  · rename_i lvf hloop
    split at h
    · cases h
    · split at h
      · cases h
      · rename_i hn0 hany
        cases h
        have hinit : Inv P (List.replicate P.n (-1)) P.tops := by
          refine ⟨?_, fun q hq => Or.inl hq⟩
          intro i hi
          exfalso
          simp only [lvAt, List.getD_eq_getElem?_getD, List.getElem?_replicate] at hi
          split at hi <;> simp at hi
        obtain ⟨hg, hlen⟩ := levelsLoop_inv fuel _ _ lvf hinit hloop
        rw [List.length_replicate] at hlen
        have hpos : ∀ x ∈ lvf, 0 ≤ x := by
          intro x hx
          have : ¬ (lvf.any (· < 0) = true) := hany
          simp only [List.any_eq_true, decide_eq_true_eq, not_exists, not_and] at this
          have := this x hx; omega
        have hat : ∀ i, i < P.n → 0 ≤ lvAt lvf i ∧ ((lvf.map Int.toNat).getD i 0 : Int) = lvAt lvf i := by
          intro i hi
          have hi' : i < lvf.length := hlen ▸ hi
          have h1 : lvAt lvf i = lvf[i] := by
            simp only [lvAt, List.getD_eq_getElem?_getD, List.getElem?_eq_getElem hi', Option.getD_some]
          have h2 : (lvf.map Int.toNat).getD i 0 = lvf[i].toNat := by
            simp only [List.getD_eq_getElem?_getD, List.getElem?_map, List.getElem?_eq_getElem hi',
              Option.map_some, Option.getD_some]
          have h3 := hpos _ (List.getElem_mem hi')
          rw [h1, h2]
          exact ⟨h3, by omega⟩
        refine ⟨by rw [List.length_map, hlen], rfl, ?_⟩
        intro i hi
        obtain ⟨hi0, hil⟩ := hat i hi
        obtain ⟨hnl, hpar⟩ := hg i hi0
        have hpe : P.parents.getD i [] = P.par i := rfl
        by_cases ht : i ∈ P.tops
        · have hnil := hP.top_nil i ht
          simp only [newLevel, ht, ↓reduceIte] at hnl
          have : lvAt lvf i = 0 := (Option.some.inj hnl).symm
          simp only [goodLevel, hpe, hnil]
          have : ((lvf.map Int.toNat).getD i 0 : Int) = 0 := by rw [hil, this]
          simp only [beq_iff_eq]; omega
        · simp only [newLevel, ht, ↓reduceIte, Option.map_eq_some_iff] at hnl
          obtain ⟨m, hm, hm1⟩ := hnl
          obtain ⟨hmem, hle⟩ := maxL_spec hm
          have hne : P.par i ≠ [] := fun e => ht (hP.nil_top i hi e)
          unfold goodLevel
          rw [hpe]
          split
          · rename_i e; exact absurd e hne
          · rename_i p ps e
            rw [← e]
            simp only [Bool.and_eq_true, List.any_eq_true, List.all_eq_true, beq_iff_eq, decide_eq_true_eq]
            constructor
            · obtain ⟨q, hq, hqm⟩ := List.mem_map.mp hmem
              refine ⟨q, hq, ?_⟩
              have := (hat q (hP.par_lt i hi q hq)).2
              omega
            · intro q hq
              have h1 := (hat q (hP.par_lt i hi q hq)).2
              have h2 := hle _ (List.mem_map.mpr ⟨q, hq, rfl⟩)
              omega

/-! ### fcart: the y coordinate is strictly antitone in the level -/

theorem fcartLayout_ok {P : PosetData} {fuel : Nat} {c : Rat} {dpth : Int} {pos : List (Rat × Rat)}
    (h : fcartLayout P fuel c dpth = .ok pos) :
    ∃ cl ld idOn, calcLevels P fuel = .ok (cl, ld) ∧
      fcartLevels P c dpth cl ld ld 0 (List.replicate P.n 0) = .ok idOn ∧
      pos = (List.range cl.length).map fun i => (fcartX cl ld idOn i, fcartY cl ld i) := by
  unfold fcartLayout at h
  split at h
  · cases h
  · rename_i cl ld hc
    split at h
    · cases h
    · rename_i idOn hi
      cases h
      exact ⟨cl, ld, idOn, hc, hi, rfl⟩

theorem level_lt_of_anc {parents : List (List Nat)} {lv : List Nat}
    (hr : ∀ i, i < parents.length → ∀ p ∈ parents.getD i [], p < parents.length)
    (hg : ∀ i, i < parents.length → goodLevel parents lv i = true) :
    ∀ {i j}, Anc parents i j → i < parents.length → j < parents.length ∧ lv.getD j 0 < lv.getD i 0 := by
  intro i j h
  induction h with
  | @parent i p hp =>
    intro hi
    have hne : parents.getD i [] ≠ [] := by intro e; rw [e] at hp; cases hp
    have := (goodLevel_cons (hg i hi) hne).2 p hp
    exact ⟨hr i hi p hp, by omega⟩
  | @trans i p j hp _ ih =>
    intro hi
    have hne : parents.getD i [] ≠ [] := by intro e; rw [e] at hp; cases hp
    have := (goodLevel_cons (hg i hi) hne).2 p hp
    obtain ⟨h1, h2⟩ := ih (hr i hi p hp)
    exact ⟨h1, by omega⟩

theorem levelsDict_length_pos (l : List Nat) : 0 < (levelsDict l).length := by
  simp [levelsDict]

theorem fcartY_lt (cl : List Nat) (ld : List (List Nat)) (i j : Nat) (hL : 0 < ld.length)
    (h : cl.getD j 0 < cl.getD i 0) : fcartY cl ld i < fcartY cl ld j := by
  unfold fcartY
  have hLq : (0 : Rat) < (ld.length : Rat) := by exact_mod_cast hL
  have hinv : (0 : Rat) < ((ld.length : Rat))⁻¹ := Rat.inv_pos.mpr hLq
  have hab : ((cl.getD j 0 : Nat) : Rat) < ((cl.getD i 0 : Nat) : Rat) := by exact_mod_cast h
  rw [Rat.div_def, Rat.div_def]
  have h1 : -2 * ((cl.getD i 0 : Nat) : Rat) < -2 * ((cl.getD j 0 : Nat) : Rat) := by grind
  have h2 := Rat.mul_lt_mul_of_pos_right h1 hinv
  grind

theorem fcartY_inj (cl : List Nat) (ld : List (List Nat)) (i j : Nat) (hL : 0 < ld.length)
    (h : fcartY cl ld i = fcartY cl ld j) : cl.getD i 0 = cl.getD j 0 := by
  rcases Nat.lt_trichotomy (cl.getD i 0) (cl.getD j 0) with hlt | heq | hgt
  · have := fcartY_lt cl ld j i hL hlt
    rw [h] at this; exact absurd this (Rat.lt_irrefl)
  · exact heq
  · have := fcartY_lt cl ld i j hL hgt
    rw [h] at this; exact absurd this (Rat.lt_irrefl)

theorem yOf_fcart (cl : List Nat) (ld : List (List Nat)) (idOn : List Nat) (i : Nat) (hi : i < cl.length) :
    yOf ((List.range cl.length).map fun i => (fcartX cl ld idOn i, fcartY cl ld i)) i = fcartY cl ld i := by
  simp [yOf, List.getD_eq_getElem?_getD, hi]

end Fca.Layout

/-
  Fca.Lemmas.LatticeQueryChains — the loops of `ConceptLattice._get_chains`: the climb through the smallest
  parent index reaches the first sorted concept, every round of the outer loop visits a new concept, and the
  chains cover everything.
-/
import Fca.Lemmas.LatticeQueryLabels
namespace Fca.LQ
open Fca Fca.Spec

/-- consecutive elements of the list are related -/
def Steps (R : Nat → Nat → Prop) : List Nat → Prop
  | [] => True
  | x :: rest => (∀ y, rest.head? = some y → R x y) ∧ Steps R rest

theorem steps_append_singleton (R : Nat → Nat → Prop) : ∀ (l : List Nat) (x : Nat),
    Steps R l → (∀ y, l.getLast? = some y → R y x) → Steps R (l ++ [x])
  | [], x, _, _ => by
    show (∀ y, ([] : List Nat).head? = some y → R x y) ∧ Steps R []
    exact ⟨fun y h => (by cases h), trivial⟩
  | a :: rest, x, hs, h => by
    show (∀ y, (rest ++ [x]).head? = some y → R a y) ∧ Steps R (rest ++ [x])
    constructor
    · intro y hy
      cases rest with
      | nil =>
        simp only [List.nil_append, List.head?_cons, Option.some.injEq] at hy
        rw [← hy]; exact h a rfl
      | cons b r =>
        simp only [List.cons_append, List.head?_cons, Option.some.injEq] at hy
        exact hs.1 y (by simp [hy])
    · apply steps_append_singleton R rest x hs.2
      intro y hy
      cases rest with
      | nil => cases hy
      | cons b r => exact h y (by rw [List.getLast?_cons_cons]; exact hy)

theorem steps_reverse (R : Nat → Nat → Prop) : ∀ (l : List Nat),
    Steps R l → Steps (fun a b => R b a) l.reverse
  | [], _ => trivial
  | x :: rest, hs => by
    rw [List.reverse_cons]
    apply steps_append_singleton _ _ _ (steps_reverse R rest hs.2)
    intro y hy
    rw [List.getLast?_reverse] at hy
    exact hs.1 y hy

theorem minOf_mem : ∀ {l : List Nat} {m : Nat}, minOf l = some m → m ∈ l
  | [], _, h => by cases h
  | x :: xs, m, h => by
    unfold minOf at h
    cases hx : minOf xs with
    | none => rw [hx] at h; simp only [Option.some.injEq] at h; rw [← h]; exact List.mem_cons_self
    | some m' =>
      rw [hx] at h
      simp only [Option.some.injEq] at h
      by_cases hle : x ≤ m'
      · rw [if_pos hle] at h; rw [← h]; exact List.mem_cons_self
      · rw [if_neg hle] at h; rw [← h]; exact List.mem_cons_of_mem _ (minOf_mem hx)

theorem minOf_some_of_ne_nil : ∀ {l : List Nat}, l ≠ [] → ∃ m, minOf l = some m
  | [], h => absurd rfl h
  | x :: xs, _ => by
    unfold minOf
    cases minOf xs with
    | none => exact ⟨x, rfl⟩
    | some m' => exact ⟨_, rfl⟩

section loops
variable (P : Nat → List Nat) (iIsort : List Nat) (n topIdx : Nat)

/-- what the inner loop needs from the index map `map_i_isort` and the parents relation -/
structure ChainSetup : Prop where
  /-- a concept that is not first in sorted order has a parent, and parents come earlier in sorted order -/
  parent : ∀ i, i < n → iIsort.getD i 0 ≠ 0 →
    ∀ p, p ∈ P i → p < n ∧ iIsort.getD p 0 < iIsort.getD i 0
  hasParent : ∀ i, i < n → iIsort.getD i 0 ≠ 0 → P i ≠ []
  first : ∀ i, i < n → iIsort.getD i 0 = 0 → i = topIdx
  rng : ∀ i, i < n → iIsort.getD i 0 < n

variable {P iIsort n topIdx}

theorem climb_ok (S : ChainSetup P iIsort n topIdx) : ∀ (fuel ci : Nat) (chain : List Nat),
    ci < n → iIsort.getD ci 0 < fuel →
    ∃ path, chainClimb P iIsort fuel ci (iIsort.getD ci 0) chain = .ok (chain ++ path) ∧
      path.head? = some ci ∧ path.getLast? = some topIdx ∧ Steps (fun x y => y ∈ P x) path ∧
      ∀ x ∈ path, x < n
  | 0, _, _, _, h => by omega
  | fuel + 1, ci, chain, hci, hf => by
    unfold chainClimb
    simp only
    by_cases h0 : iIsort.getD ci 0 = 0
    · have : (iIsort.getD ci 0 == 0) = true := by rw [h0]; rfl
      rw [if_pos this]
      refine ⟨[ci], rfl, rfl, ?_, ?_, fun x hx => by rw [List.mem_singleton.mp hx]; exact hci⟩
      · rw [S.first ci hci h0]; rfl
      · show (∀ y, ([] : List Nat).head? = some y → y ∈ P ci) ∧ Steps _ []
        exact ⟨fun y h => (by cases h), trivial⟩
    · have : ¬ (iIsort.getD ci 0 == 0) = true := by simpa using h0
      rw [if_neg this]
      obtain ⟨p, hp⟩ := minOf_some_of_ne_nil (S.hasParent ci hci h0)
      rw [hp]
      simp only
      have hpP := minOf_mem hp
      obtain ⟨hpn, hlt⟩ := S.parent ci hci h0 p hpP
      obtain ⟨path, hok, hh, hl, hs, hb⟩ := climb_ok S fuel p (chain ++ [ci]) hpn (by omega)
      refine ⟨ci :: path, ?_, rfl, ?_, ?_, fun x hx => ?_⟩
      · rw [hok]; simp
      · cases path with
        | nil => cases hh
        | cons a r => rw [List.getLast?_cons_cons]; exact hl
      · show (∀ y, path.head? = some y → y ∈ P ci) ∧ Steps _ path
        refine ⟨fun y hy => ?_, hs⟩
        rw [hh] at hy
        simp only [Option.some.injEq] at hy
        rw [← hy]; exact hpP
      · rcases List.mem_cons.mp hx with e | h
        · rw [e]; exact hci
        · exact hb x h

end loops
end Fca.LQ

/-
  Fca.Lemmas.CaspBits — position-wise facts about the bit-set operations of `Fca.Model.Caspailleur`.
-/
import Fca.Model.Caspailleur
namespace Fca.Casp

@[simp] theorem length_zeros (n : Nat) : (zeros n).length = n := by simp [zeros]
@[simp] theorem length_ones (n : Nat) : (ones n).length = n := by simp [ones]

theorem bit_eq (a : Bits) (j : Nat) : bit a j = (a[j]?).getD false := by
  simp [bit, List.getD_eq_getElem?_getD]

theorem bit_zeros (n j : Nat) : bit (zeros n) j = false := by
  by_cases h : j < n <;> simp [bit_eq, zeros, h]

theorem bit_ones (n j : Nat) : bit (ones n) j = decide (j < n) := by
  by_cases h : j < n <;> simp [bit_eq, ones, h]

theorem bit_ge {a : Bits} {j : Nat} (h : a.length ≤ j) : bit a j = false := by
  simp [bit_eq, List.getElem?_eq_none h]

theorem lt_of_bit {a : Bits} {j : Nat} (h : bit a j = true) : j < a.length := by
  false_or_by_contra
  rename_i hn
  rw [bit_ge (Nat.le_of_not_lt hn)] at h
  cases h

theorem bit_nil (j : Nat) : bit [] j = false := by simp [bit_eq]

@[simp] theorem length_band (a b : Bits) : (band a b).length = min a.length b.length := by simp [band]
@[simp] theorem length_bor (a b : Bits) : (bor a b).length = min a.length b.length := by simp [bor]
@[simp] theorem length_bnot (a : Bits) : (bnot a).length = a.length := by simp [bnot]

theorem bit_band (a b : Bits) (j : Nat) : bit (band a b) j = (bit a j && bit b j) := by
  simp only [bit_eq, band, List.getElem?_zipWith]
  cases a[j]? <;> cases b[j]? <;> simp

theorem bit_bor {a b : Bits} (h : a.length = b.length) (j : Nat) :
    bit (bor a b) j = (bit a j || bit b j) := by
  by_cases hj : j < a.length
  · have hb : j < b.length := h ▸ hj
    simp [bit_eq, bor, List.getElem?_zipWith, List.getElem?_eq_getElem hj, List.getElem?_eq_getElem hb]
  · have ha := Nat.le_of_not_lt hj
    have hb : b.length ≤ j := h ▸ ha
    have hab : (bor a b).length ≤ j := by rw [length_bor]; omega
    rw [bit_ge ha, bit_ge hb, bit_ge hab]
    rfl

theorem bit_bnot (a : Bits) (j : Nat) : bit (bnot a) j = (decide (j < a.length) && !bit a j) := by
  by_cases hj : j < a.length
  · simp [bit_eq, bnot, hj]
  · rw [bit_ge (by simpa using hj)]; simp [hj]

theorem bit_set (a : Bits) (i j : Nat) :
    bit (a.set i true) j = (decide (j = i ∧ i < a.length) || bit a j) := by
  simp only [bit_eq, List.getElem?_set]
  by_cases hij : i = j
  · subst hij
    by_cases hi : i < a.length <;> simp [hi]
  · have : ¬ j = i := fun e => hij e.symm
    simp [hij, this]

theorem mem_search1 {a : Bits} {j : Nat} : j ∈ search1 a ↔ bit a j = true := by
  unfold search1
  simp only [List.mem_filter, List.mem_range]
  exact ⟨fun h => h.2, fun h => ⟨lt_of_bit h, h⟩⟩

theorem search1_eq_filter (a : Bits) : search1 a = (List.range a.length).filter (bit a) := rfl

theorem find1_some {a : Bits} {k : Nat} :
    find1 a = some k ↔ bit a k = true ∧ ∀ j, j < k → bit a j = false := by
  induction a generalizing k with
  | nil => simp [find1, bit_nil]
  | cons x r ih =>
    cases x with
    | true =>
      simp only [find1, Option.some.injEq]
      constructor
      · intro h; subst h; exact ⟨by simp [bit_eq], fun j hj => by omega⟩
      · intro ⟨_, h2⟩
        cases k with
        | zero => rfl
        | succ k => have := h2 0 (by omega); simp [bit_eq] at this
    | false =>
      simp only [find1, Option.map_eq_some_iff]
      constructor
      · rintro ⟨k', hk', rfl⟩
        obtain ⟨h1, h2⟩ := ih.mp hk'
        refine ⟨by simpa [bit_eq] using h1, fun j hj => ?_⟩
        cases j with
        | zero => simp [bit_eq]
        | succ j => have := h2 j (by omega); simpa [bit_eq] using this
      · intro ⟨h1, h2⟩
        cases k with
        | zero => simp [bit_eq] at h1
        | succ k =>
          refine ⟨k, ih.mpr ⟨by simpa [bit_eq] using h1, fun j hj => ?_⟩, rfl⟩
          have := h2 (j + 1) (by omega)
          simpa [bit_eq] using this

theorem find1_none {a : Bits} : find1 a = none ↔ ∀ j, bit a j = false := by
  induction a with
  | nil => simp [find1, bit_nil]
  | cons x r ih =>
    cases x with
    | true =>
      simp only [find1, reduceCtorEq, false_iff]
      intro h; have := h 0; simp [bit_eq] at this
    | false =>
      simp only [find1, Option.map_eq_none_iff, ih]
      constructor
      · intro h j
        cases j with
        | zero => simp [bit_eq]
        | succ j => simpa [bit_eq] using h j
      · intro h j; simpa [bit_eq] using h (j + 1)

theorem bits_ext {a b : Bits} (hl : a.length = b.length) (h : ∀ j, bit a j = bit b j) : a = b := by
  apply List.ext_getElem hl
  intro i h1 h2
  have := h i
  simpa [bit_eq, List.getElem?_eq_getElem h1, List.getElem?_eq_getElem h2] using this

/-- position-wise `≤` on arrays of one length gives `count ≤`, strictly when they differ -/
theorem count1_le_of_sub : ∀ {a b : Bits}, a.length = b.length →
    (∀ j, bit a j = true → bit b j = true) → count1 a ≤ count1 b ∧ (count1 a = count1 b → a = b) := by
  intro a
  induction a with
  | nil => intro b hl _; cases b with
    | nil => simp
    | cons _ _ => simp at hl
  | cons x r ih =>
    intro b hl h
    cases b with
    | nil => simp at hl
    | cons y s =>
      have hl' : r.length = s.length := by simpa using hl
      have h' : ∀ j, bit r j = true → bit s j = true := by
        intro j hj
        have := h (j + 1) (by simpa [bit_eq] using hj)
        simpa [bit_eq] using this
      obtain ⟨h1, h2⟩ := ih hl' h'
      have h0 : x = true → y = true := by
        intro hx; have := h 0 (by simp [bit_eq, hx]); simpa [bit_eq] using this
      have hc : ∀ (z : Bool) (l : Bits), count1 (z :: l) = count1 l + (if z then 1 else 0) := by
        intro z l; cases z <;> simp [count1]
      rw [hc, hc]
      cases x with
      | false =>
        cases y with
        | false =>
          refine ⟨by simpa using h1, fun e => ?_⟩
          rw [h2 (by simpa using e)]
        | true =>
          refine ⟨by simp; omega, fun e => ?_⟩
          simp at e; omega
      | true =>
        have hy : y = true := h0 rfl
        subst hy
        refine ⟨by simpa using h1, fun e => ?_⟩
        rw [h2 (by simpa using e)]

end Fca.Casp

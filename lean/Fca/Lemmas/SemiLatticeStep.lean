/-
  Lemmas/SemiLatticeStep — the semilattice machine: the invariant `InvTop`, run equations of the guards
  (`top/bottom`, the comparability guard of `add`, the guards of `del` / `remove`), and the frame of `POSet.add`
  as executed on a semilattice.
-/
import Fca.Lemmas.SemiLatticeSpec
import Fca.Lemmas.SemiLatticeFrame
set_option linter.unusedSectionVars false
set_option linter.unusedVariables false
namespace Fca.SemiLattice
open Fca Fca.Poset Fca.Poset.Fresh Fca.SemiLattice.Spec

section
variable {α : Type} [DecidableEq α] {leq : α → α → Bool} {ord : List Nat → List Nat}

/-- The invariant of C11: on every side the class guards there is a greatest / least element among the current
    elements, and - on a caching instance - the cached index `_cache_top` / `_cache_bottom` is its index.
    (Nothing is said about the five `POSet` caches: the guard logic does not depend on them.) -/
structure InvTop (leq : α → α → Bool) (s : SL α) : Prop where
  ext : ∀ d, s.cls.has d = true →
    ∃ t, isExt leq d s.p.elems t = true ∧ (s.p.useCache = true → s.cache d = some t)

/-! ### the `ML` monad -/

@[simp] theorem bind_apply {β γ : Type} (m : ML α β) (f : β → ML α γ) (s : SL α) :
    (m >>= f) s = (match m s with
      | (s', .ok b) => f b s'
      | (s', .error e) => (s', .error e)) := rfl

@[simp] theorem pure_apply {β : Type} (b : β) (s : SL α) : (pure b : ML α β) s = (s, .ok b) := rfl
@[simp] theorem get_apply (s : SL α) : (ML.get : ML α (SL α)) s = (s, .ok s) := rfl
@[simp] theorem throw_apply {β : Type} (e : PyErr) (s : SL α) : (ML.throw e : ML α β) s = (s, .error e) := rfl
@[simp] theorem modify_apply (f : SL α → SL α) (s : SL α) : (ML.modify f : ML α Unit) s = (f s, .ok ()) := rfl
theorem lift_apply {β : Type} (m : M α β) (s : SL α) :
    (ML.lift m : ML α β) s = ({ s with p := (m s.p).1 }, (m s.p).2) := rfl

theorem bind_ok {β γ : Type} {m : ML α β} {f : β → ML α γ} {s s' : SL α} {b : β} (h : m s = (s', .ok b)) :
    (m >>= f) s = f b s' := by
  rw [bind_apply, h]

theorem bind_err {β γ : Type} {m : ML α β} {f : β → ML α γ} {s s' : SL α} {e : PyErr} (h : m s = (s', .error e)) :
    (m >>= f) s = (s', .error e) := by
  rw [bind_apply, h]

@[simp] theorem cache_setCache (s : SL α) (d : Dir) (v : Option Nat) : (s.setCache d v).cache d = v := by
  cases d <;> rfl
@[simp] theorem cache_setCache_flip (s : SL α) (d : Dir) (v : Option Nat) :
    (s.setCache d.flip v).cache d = s.cache d := by
  cases d <;> rfl
@[simp] theorem cache_setCache_flip' (s : SL α) (d : Dir) (v : Option Nat) :
    (s.setCache d v).cache d.flip = s.cache d.flip := by
  cases d <;> rfl
@[simp] theorem p_setCache (s : SL α) (d : Dir) (v : Option Nat) : (s.setCache d v).p = s.p := by
  cases d <;> rfl
@[simp] theorem cls_setCache (s : SL α) (d : Dir) (v : Option Nat) : (s.setCache d v).cls = s.cls := by
  cases d <;> rfl

/-! ### `top` / `bottom` -/

/-- under the invariant the property `top` (`bottom`) returns the index of the greatest (least) element and
    changes nothing -/
theorem extremeE_run {s : SL α} (hpo : IdxPO leq s.p.elems) {d : Dir} {t : Nat}
    (ht : isExt leq d s.p.elems t = true) (hc : s.p.useCache = true → s.cache d = some t) :
    extremeE leq d s = (s, .ok t) := by
  unfold extremeE
  cases huc : s.p.useCache
  · have hx := extremesE_uncached hpo d huc
    simp [lift_apply, huc, hx, extremes_of_isExt hpo ht]
  · simp [huc, hc huc]

theorem extremesSL_run {s : SL α} (hpo : IdxPO leq s.p.elems) {d : Dir} {t : Nat} (hd : s.cls.has d = true)
    (ht : isExt leq d s.p.elems t = true) (hc : s.p.useCache = true → s.cache d = some t) :
    extremesSL leq d s = (s, .ok [t]) := by
  unfold extremesSL
  simp [hd, extremeE_run hpo ht hc]

/-! ### the guards -/

/-- the flag `is_bigger_than_top` (`.anc`) / `is_smaller_than_bottom` (`.desc`) -/
def beyond (leq : α → α → Bool) (d : Dir) (e x : α) : Bool :=
  match d with
  | .anc => leq x e
  | .desc => leq e x

/-- the other comparison: `is_smaller_than_top` / `is_bigger_than_bottom` -/
def inner (leq : α → α → Bool) (d : Dir) (e x : α) : Bool :=
  match d with
  | .anc => leq e x
  | .desc => leq x e

theorem incomparable_eq (d : Dir) (e x : α) : incomparable leq e x = !(inner leq d e x || beyond leq d e x) := by
  cases d <;> simp [incomparable, inner, beyond, Bool.or_comm]

theorem guardAdd_run {s : SL α} (hpo : IdxPO leq s.p.elems) {d : Dir} {t : Nat} {x : α}
    (ht : isExt leq d s.p.elems t = true) (hc : s.p.useCache = true → s.cache d = some t)
    (hx : s.p.elems[t]? = some x) (e : α) :
    guardAdd leq d e s =
      if incomparable leq e x then (s, .error .ValueError) else (s, .ok (beyond leq d e x)) := by
  unfold guardAdd
  rw [bind_ok (extremeE_run hpo ht hc)]
  simp only [bind_apply, get_apply, hx]
  rw [extremeE_run hpo ht hc]
  simp only [hx]
  cases d <;> simp only [incomparable, beyond] <;> split <;> simp_all

theorem guardDel_run {s : SL α} (hpo : IdxPO leq s.p.elems) {d : Dir} {t : Nat}
    (ht : isExt leq d s.p.elems t = true) (hc : s.p.useCache = true → s.cache d = some t) (k : Nat) :
    guardDel leq d k s = if t = k then (s, .error .KeyError) else (s, .ok ()) := by
  unfold guardDel
  rw [bind_ok (extremeE_run hpo ht hc)]
  split <;> rfl

theorem guardRemove_run {s : SL α} (hpo : IdxPO leq s.p.elems) {d : Dir} {t : Nat} {x : α}
    (ht : isExt leq d s.p.elems t = true) (hc : s.p.useCache = true → s.cache d = some t)
    (hx : s.p.elems[t]? = some x) (e : α) :
    guardRemove leq d e s = if x = e then (s, .error .ValueError) else (s, .ok ()) := by
  unfold guardRemove
  rw [bind_ok (extremeE_run hpo ht hc)]
  simp only [bind_apply, get_apply, hx]
  split <;> rfl

end
end Fca.SemiLattice

/-! ### `POSet.add` on a semilattice: what it can change -/
namespace Fca.SemiLattice
open Fca Fca.Poset Fca.Poset.Fresh Fca.SemiLattice.Spec

section
variable {α : Type} [DecidableEq α] {leq : α → α → Bool} {ord : List Nat → List Nat}

/-- the part of the state the guards read -/
structure Key (α : Type) where
  cls : Cls
  cacheTop : Option Nat
  cacheBottom : Option Nat
  useCache : Bool
  elems : List α

def SL.key (s : SL α) : Key α := ⟨s.cls, s.cacheTop, s.cacheBottom, s.p.useCache, s.p.elems⟩

def Key.cache (K : Key α) : Dir → Option Nat
  | .anc => K.cacheTop
  | .desc => K.cacheBottom

/-- on a caching instance the cached extreme indexes the class uses are set (so `top` / `bottom` only read) -/
def Key.Good (K : Key α) : Prop := K.useCache = true → ∀ d, K.cls.has d = true → (K.cache d).isSome = true

/-- `m` changes neither the class tag, the cached extreme indexes, the cache flag nor the element list -/
structure FrameSL {β : Type} (K : Key α) (m : ML α β) : Prop where
  h : ∀ s, s.key = K → (m s).1.key = K

theorem frameSL_pure {β : Type} (K : Key α) (b : β) : FrameSL K (pure b : ML α β) := ⟨fun _ h => h⟩
theorem frameSL_throw {β : Type} (K : Key α) (e : PyErr) : FrameSL K (ML.throw e : ML α β) := ⟨fun _ h => h⟩
theorem frameSL_get (K : Key α) : FrameSL K (ML.get : ML α (SL α)) := ⟨fun _ h => h⟩

theorem frameSL_bind {β γ : Type} {K : Key α} {m : ML α β} {f : β → ML α γ} (hm : FrameSL K m)
    (hf : ∀ b, FrameSL K (f b)) : FrameSL K (m >>= f) := by
  constructor
  intro s hs
  rw [bind_apply]
  have h1 := hm.h s hs
  cases hr : m s with
  | mk s' r =>
    rw [hr] at h1
    cases r with
    | error e => exact h1
    | ok b => exact (hf b).h s' h1

theorem frameSL_lift {β : Type} (K : Key α) {m : M α β} (hm : Frame m) : FrameSL K (ML.lift m) := by
  constructor
  intro s hs
  rw [lift_apply]
  have := hm.h s.p
  simp only [SL.key] at hs ⊢
  rw [this.1, this.2]
  exact hs

theorem frameSL_extremeE {K : Key α} (hK : K.Good) (d : Dir) (hd : K.cls.has d = true) :
    FrameSL K (extremeE leq d) := by
  constructor
  intro s hs
  unfold extremeE
  cases huc : s.p.useCache
  · simp only [bind_apply, get_apply, huc, Bool.false_eq_true, ↓reduceIte]
    have hl := (frameSL_lift K (frame_extremesE (leq := leq) d)).h s hs
    cases hr : ML.lift (extremesE leq d) s with
    | mk s' r =>
      rw [hr] at hl
      cases r with
      | error e => exact hl
      | ok xs => cases xs <;> exact hl
  · have hg : (s.cache d).isSome = true := by
      have hu : K.useCache = true := by rw [← hs]; exact huc
      have := hK hu d (by rw [← hs] at hd; rw [← hs]; exact hd)
      rw [← hs] at this
      cases d <;> exact this
    obtain ⟨t, ht⟩ := Option.isSome_iff_exists.mp hg
    simp only [bind_apply, get_apply, huc, ↓reduceIte, ht, pure_apply]
    exact hs

theorem frameSL_extremesSL {K : Key α} (hK : K.Good) (d : Dir) : FrameSL K (extremesSL leq d) := by
  constructor
  intro s hs
  unfold extremesSL
  cases hd : s.cls.has d
  · simp only [bind_apply, get_apply, hd, Bool.false_eq_true, ↓reduceIte]
    exact (frameSL_lift K (frame_extremesE (leq := leq) d)).h s hs
  · simp only [bind_apply, get_apply, hd, ↓reduceIte]
    have hdK : K.cls.has d = true := by rw [← hs]; exact hd
    have := (frameSL_bind (frameSL_extremeE (leq := leq) hK d hdK) (fun t => frameSL_pure K [t])).h s hs
    rw [bind_apply] at this
    exact this

theorem frame_traceFrom (d : Dir) (e : α) (start : List Nat) : Frame (traceFrom leq ord d e start) := by
  unfold traceFrom
  exact frame_bind frame_get fun s => frame_bind (frame_ofExcept _) fun tv => frame_traceLoop _ _ _ _ _ _

theorem frameSL_traceElementSL {K : Key α} (hK : K.Good) (d : Dir) (e : α) :
    FrameSL K (traceElementSL leq ord d e) := by
  unfold traceElementSL
  exact frameSL_bind (frameSL_extremesSL hK d) fun start => frameSL_lift K (frame_traceFrom d e start)

theorem frameSL_posetAddFillSL {K : Key α} (hK : K.Good) (e : α) (n : Nat) :
    FrameSL K (posetAddFillSL leq ord e n) := by
  unfold posetAddFillSL
  refine frameSL_bind (frameSL_lift K (frame_modify fun s => ⟨rfl, rfl⟩)) fun _ => ?_
  refine frameSL_bind (frameSL_traceElementSL hK _ _) fun r1 => ?_
  refine frameSL_bind (frameSL_lift K (frame_modify fun s => ⟨rfl, rfl⟩)) fun _ => ?_
  refine frameSL_bind (frameSL_lift K (frame_modify fun s => ⟨rfl, rfl⟩)) fun _ => ?_
  refine frameSL_bind (frameSL_traceElementSL hK _ _) fun r2 => ?_
  refine frameSL_bind (frameSL_lift K (frame_modify fun s => ⟨rfl, rfl⟩)) fun _ => ?_
  refine frameSL_bind (frameSL_lift K (frame_modify fun s => ⟨rfl, rfl⟩)) fun _ => ?_
  exact frameSL_lift K (frame_forM (fun i => frame_addPatch _ _) _)

theorem frameSL_posetAddCacheSL {K : Key α} (hK : K.Good) (e : α) (fill : Bool) :
    FrameSL K (posetAddCacheSL leq ord e fill) := by
  unfold posetAddCacheSL
  refine frameSL_bind (frameSL_get K) fun s => ?_
  split
  · split
    · exact frameSL_posetAddFillSL hK _ _
    · exact frameSL_lift K (frame_modify fun s => ⟨rfl, rfl⟩)
  · exact frameSL_pure K _

/-- `POSet.add` on a semilattice: class tag, cached indexes and cache flag are kept; if it returns, the element
    list is the old one with `e` appended unless present; if it raises, the element list is unchanged -/
theorem posetAddSL_spec {s : SL α} (hK : s.key.Good) (e : α) (fill : Bool) :
    let r := posetAddSL leq ord e fill s
    r.1.cls = s.cls ∧ r.1.cacheTop = s.cacheTop ∧ r.1.cacheBottom = s.cacheBottom ∧
      r.1.p.useCache = s.p.useCache ∧
      (r.2 = .ok () → r.1.p.elems = if e ∈ s.p.elems then s.p.elems else s.p.elems ++ [e]) ∧
      (∀ err, r.2 = .error err → r.1.p.elems = s.p.elems) := by
  intro r
  have hr : r = posetAddSL leq ord e fill s := rfl
  clear_value r
  unfold posetAddSL at hr
  by_cases he : e ∈ s.p.elems
  · simp only [bind_apply, get_apply, he, ↓reduceIte, pure_apply] at hr
    subst hr
    simp [he]
  · simp only [bind_apply, get_apply, he, ↓reduceIte] at hr
    have hf := (frameSL_posetAddCacheSL (leq := leq) (ord := ord) hK e fill).h s rfl
    cases hc : posetAddCacheSL leq ord e fill s with
    | mk s' r' =>
      rw [hc] at hf hr
      simp only [SL.key, Key.mk.injEq] at hf
      obtain ⟨h1, h2, h3, h4, h5⟩ := hf
      cases r' with
      | error err =>
        simp only at hr
        subst hr
        exact ⟨h1, h2, h3, h4, fun h => (by cases h), fun _ _ => h5⟩
      | ok u =>
        simp only [lift_apply, M.modify] at hr
        subst hr
        refine ⟨h1, h2, h3, h4, fun _ => ?_, fun _ h => (by cases h)⟩
        simp [he, h5]

end
end Fca.SemiLattice

/-! ### the extreme element after an accepted `add` -/
namespace Fca.SemiLattice
open Fca Fca.Poset Fca.Poset.Fresh Fca.SemiLattice.Spec

section
variable {α : Type} [DecidableEq α] {leq : α → α → Bool} {ord : List Nat → List Nat} {U : α → Prop}

/-- the element list after `add e` -/
def addNext (E : List α) (e : α) : List α := if e ∈ E then E else E ++ [e]

theorem addNext_nodup {E : List α} (hnd : E.Nodup) (e : α) : (addNext E e).Nodup := by
  unfold addNext
  split
  · exact hnd
  · rename_i h
    rw [List.nodup_append]
    refine ⟨hnd, by simp, ?_⟩
    intro a ha b hb
    simp at hb
    subst hb
    intro hab
    subst hab
    exact h ha

theorem addNext_U {E : List α} (hU : ∀ a ∈ E, U a) {e : α} (he : U e) : ∀ a ∈ addNext E e, U a := by
  unfold addNext
  split
  · exact hU
  · intro a ha
    rcases List.mem_append.mp ha with h | h
    · exact hU a h
    · simp at h; subst h; exact he

theorem indexOf?_append_new {E : List α} {e : α} (he : e ∉ E) : indexOf? e (E ++ [e]) = some E.length := by
  induction E with
  | nil => simp [indexOf?]
  | cons a l ih =>
    have h1 : e ≠ a := fun h => he (by simp [h])
    have h2 : e ∉ l := fun h => he (by simp [h])
    simp [indexOf?, h1, ih h2]

theorem relD_elem {E : List α} {d : Dir} {i j : Nat} {a b : α} (ha : E[i]? = some a) (hb : E[j]? = some b) :
    relD leq d E i j = inner leq d b a := by
  cases d <;> simp [relD, rel, ha, hb, inner]

/-- Where the greatest (least) element is after an accepted `add e`: if `e` is beyond the old extreme `x`, then `e`
    is the new extreme and the element→index map finds it; otherwise the old extreme keeps its index. -/
theorem isExt_after_add (hpoU : PO leq U) {E : List α} (hnd : E.Nodup) (hU : ∀ a ∈ E, U a) {e : α} (heU : U e)
    {d : Dir} {t : Nat} {x : α} (ht : isExt leq d E t = true) (hx : E[t]? = some x)
    (hcomp : incomparable leq e x = false) :
    (beyond leq d e x = true → ∃ i, indexOf? e (addNext E e) = some i ∧ isExt leq d (addNext E e) i = true) ∧
    (beyond leq d e x = false → isExt leq d (addNext E e) t = true) := by
  have hpoN : IdxPO leq (addNext E e) := idxPO_of hpoU (addNext_nodup hnd e) (addNext_U hU heU)
  have hpo : IdxPO leq E := idxPO_of hpoU hnd hU
  have htl : t < E.length := (isExt_iff.mp ht).1
  have hxE : x ∈ E := List.mem_of_getElem? hx
  constructor
  · intro hb
    unfold addNext
    by_cases he : e ∈ E
    · simp only [he, ↓reduceIte]
      -- `e` is present and beyond the extreme: it is the extreme
      obtain ⟨i, hi⟩ := indexOf?_some_of_mem he
      have hie := indexOf?_spec hi
      have hil : i < E.length := (List.getElem?_eq_some_iff.mp hie).1
      have h1 : relD leq d E t i = true := (isExt_iff.mp ht).2 i hil
      have h2 : relD leq d E i t = true := by
        rw [relD_elem hie hx]
        cases d <;> simpa [inner, beyond] using hb
      have : i = t := relD_antisymm hpo d h2 h1
      subst this
      exact ⟨i, hi, ht⟩
    · simp only [he, ↓reduceIte]
      refine ⟨E.length, indexOf?_append_new he, ?_⟩
      have hpoN' : IdxPO leq (E ++ [e]) := by simpa [addNext, he] using hpoN
      refine isExt_append_beyond hpoN' ht hx ?_
      cases d <;> simpa [beyond] using hb
  · intro hb
    have hin : inner leq d e x = true := by
      rw [incomparable_eq d] at hcomp
      simpa [hb] using hcomp
    unfold addNext
    by_cases he : e ∈ E
    · simpa [he] using ht
    · simp only [he, ↓reduceIte]
      refine isExt_append_inner ht hx ?_
      cases d <;> simpa [inner] using hin

/-! ### the index updates -/

theorem updateAfterAdd_run (d : Dir) (b : Bool) (e : α) (s : SL α) :
    updateAfterAdd d b e s =
      if s.p.useCache = true ∧ b = true then
        (match indexOf? e s.p.elems with
          | some i => (s.setCache d (some i), .ok ())
          | none => (s, .error .KeyError))
      else (s, .ok ()) := by
  unfold updateAfterAdd
  cases hu : s.p.useCache <;> cases b <;> simp [hu]
  cases indexOf? e s.p.elems <;> rfl

theorem updateAfterDel_run (d : Dir) (k : Nat) (s : SL α) :
    updateAfterDel d k s =
      if s.p.useCache = true then
        (match s.cache d with
          | none => (s, .error .TypeError)
          | some t => (s.setCache d (some (decrIdx t k)), .ok ()))
      else (s, .ok ()) := by
  unfold updateAfterDel
  cases hu : s.p.useCache <;> simp [hu]
  cases hc : s.cache d with
  | none => rfl
  | some t =>
    simp only [modify_apply, decrIdx]
    split <;> simp

theorem invTop_good {s : SL α} (hI : InvTop leq s) : s.key.Good := by
  intro hu d hd
  obtain ⟨t, _, hc⟩ := hI.ext d hd
  have := hc hu
  cases d <;> simp [Key.cache, SL.key, SL.cache] at this ⊢ <;> simp [this]

end
end Fca.SemiLattice

/-! ### `add`, `del`, `remove` under the invariant -/
namespace Fca.SemiLattice
open Fca Fca.Poset Fca.Poset.Fresh Fca.SemiLattice.Spec

section
variable {α : Type} [DecidableEq α] {leq : α → α → Bool} {ord : List Nat → List Nat} {U : α → Prop}

theorem InvTop.get {s : SL α} (hI : InvTop leq s) (hpo : IdxPO leq s.p.elems) {d : Dir} (hd : s.cls.has d = true) :
    ∃ t x, isExt leq d s.p.elems t = true ∧ (s.p.useCache = true → s.cache d = some t) ∧
      s.p.elems[t]? = some x ∧ greatest leq d s.p.elems = some t ∧ greatestElem leq d s.p.elems = some x := by
  obtain ⟨t, ht, hc⟩ := hI.ext d hd
  have htl : t < s.p.elems.length := (isExt_iff.mp ht).1
  have hg := (greatest_eq_some_iff hpo).mpr ht
  refine ⟨t, s.p.elems[t], ht, hc, List.getElem?_eq_getElem htl, hg, ?_⟩
  simp [greatestElem, hg, List.getElem?_eq_getElem htl]

theorem updateAfterAdd_spec (hpoU : PO leq U) {E : List α} (hnd : E.Nodup) (hU : ∀ a ∈ E, U a) {e : α} (heU : U e)
    {d : Dir} {t : Nat} {x : α} (ht : isExt leq d E t = true) (hx : E[t]? = some x)
    (hcomp : incomparable leq e x = false) {s1 : SL α} (hE : s1.p.elems = addNext E e)
    (hc : s1.p.useCache = true → s1.cache d = some t) :
    ∃ s2, updateAfterAdd d (beyond leq d e x) e s1 = (s2, .ok ()) ∧ s2.p = s1.p ∧ s2.cls = s1.cls ∧
      s2.cache d.flip = s1.cache d.flip ∧
      ∃ t', isExt leq d (addNext E e) t' = true ∧ (s2.p.useCache = true → s2.cache d = some t') := by
  obtain ⟨hB, hN⟩ := isExt_after_add hpoU hnd hU heU ht hx hcomp
  rw [updateAfterAdd_run]
  by_cases hcond : s1.p.useCache = true ∧ beyond leq d e x = true
  · obtain ⟨i, hi, hie⟩ := hB hcond.2
    rw [if_pos hcond, hE, hi]
    exact ⟨_, rfl, p_setCache _ _ _, cls_setCache _ _ _, cache_setCache_flip' _ _ _, i, hie, fun _ => cache_setCache _ _ _⟩
  · rw [if_neg hcond]
    refine ⟨s1, rfl, rfl, rfl, rfl, ?_⟩
    cases hb : beyond leq d e x
    · exact ⟨t, hN hb, hc⟩
    · obtain ⟨i, _, hie⟩ := hB hb
      refine ⟨i, hie, fun hu => ?_⟩
      exact absurd ⟨hu, hb⟩ hcond

/-- `add` under the invariant: refused exactly as `Spec.refusal` says, with the state untouched; and if it is not
    refused and returns, the invariant holds again for the extended element list -/
theorem addSL_spec (hpoU : PO leq U) {s : SL α} (hI : InvTop leq s) (hnd : s.p.elems.Nodup)
    (hU : ∀ a ∈ s.p.elems, U a) {e : α} (heU : U e) (fill : Bool) :
    (refusal leq s.cls s.p.elems (.add e fill) = some .ValueError →
      addSL leq ord e fill s = (s, .error .ValueError)) ∧
    (refusal leq s.cls s.p.elems (.add e fill) = none → ∀ s', addSL leq ord e fill s = (s', .ok ()) →
      InvTop leq s' ∧ s'.p.elems = addNext s.p.elems e ∧ s'.cls = s.cls ∧ s'.p.useCache = s.p.useCache) := by
  have hpo : IdxPO leq s.p.elems := idxPO_of hpoU hnd hU
  have hgood := invTop_good hI
  have hadd := posetAddSL_spec (leq := leq) (ord := ord) hgood e fill
  cases hr : posetAddSL leq ord e fill s with
  | mk s1 r1 =>
  rw [hr] at hadd
  obtain ⟨a1, a2, a3, a4, a5, a6⟩ := hadd
  simp only at a1 a2 a3 a4 a5 a6
  cases hcls : s.cls with
  | upper =>
    obtain ⟨t, x, ht, hc, hx, hg, hge⟩ := hI.get hpo (d := .anc) (by rw [hcls]; rfl)
    have hrun : addSL leq ord e fill s = (guardAdd leq .anc e >>= fun bt =>
        posetAddSL leq ord e fill >>= fun _ => updateAfterAdd .anc bt e) s := by
      unfold addSL
      rw [bind_ok (get_apply s)]
      simp only [hcls]
    have hgrd := guardAdd_run hpo ht hc hx e
    simp only [refusal, dirsOf, List.any_cons, List.any_nil, hge, Bool.or_false]
    cases hinc : incomparable leq e x
    · rw [hinc] at hgrd
      refine ⟨fun h => by simp at h, fun _ s' hs' => ?_⟩
      rw [hrun, bind_ok hgrd] at hs'
      cases r1 with
      | error er => rw [bind_err hr] at hs'; cases hs'
      | ok u =>
        rw [bind_ok hr] at hs'
        obtain ⟨s2, h2, hp, hcl, _, t', ht', hc'⟩ := updateAfterAdd_spec hpoU hnd hU heU ht hx hinc (s1 := s1)
          (a5 rfl) (fun hu => by rw [SL.cache, a2]; exact hc (a4 ▸ hu))
        rw [h2] at hs'
        simp only [Prod.mk.injEq, and_true] at hs'
        subst hs'
        refine ⟨⟨fun d hd => ?_⟩, by rw [hp]; exact a5 rfl, by rw [hcl, a1, hcls], by rw [hp, a4]⟩
        rw [hcl, a1, hcls] at hd
        cases d
        · cases hd
        · rw [hp, a5 rfl]; exact ⟨t', ht', by rw [hp] at hc'; exact hc'⟩
    · rw [hinc] at hgrd
      exact ⟨fun _ => by rw [hrun, bind_err hgrd], fun h => by simp at h⟩
  | lower =>
    obtain ⟨t, x, ht, hc, hx, hg, hge⟩ := hI.get hpo (d := .desc) (by rw [hcls]; rfl)
    have hrun : addSL leq ord e fill s = (guardAdd leq .desc e >>= fun bt =>
        posetAddSL leq ord e fill >>= fun _ => updateAfterAdd .desc bt e) s := by
      unfold addSL
      rw [bind_ok (get_apply s)]
      simp only [hcls]
    have hgrd := guardAdd_run hpo ht hc hx e
    simp only [refusal, dirsOf, List.any_cons, List.any_nil, hge, Bool.or_false]
    cases hinc : incomparable leq e x
    · rw [hinc] at hgrd
      refine ⟨fun h => by simp at h, fun _ s' hs' => ?_⟩
      rw [hrun, bind_ok hgrd] at hs'
      cases r1 with
      | error er => rw [bind_err hr] at hs'; cases hs'
      | ok u =>
        rw [bind_ok hr] at hs'
        obtain ⟨s2, h2, hp, hcl, _, t', ht', hc'⟩ := updateAfterAdd_spec hpoU hnd hU heU ht hx hinc (s1 := s1)
          (a5 rfl) (fun hu => by rw [SL.cache, a3]; exact hc (a4 ▸ hu))
        rw [h2] at hs'
        simp only [Prod.mk.injEq, and_true] at hs'
        subst hs'
        refine ⟨⟨fun d hd => ?_⟩, by rw [hp]; exact a5 rfl, by rw [hcl, a1, hcls], by rw [hp, a4]⟩
        rw [hcl, a1, hcls] at hd
        cases d
        · rw [hp, a5 rfl]; exact ⟨t', ht', by rw [hp] at hc'; exact hc'⟩
        · cases hd
    · rw [hinc] at hgrd
      exact ⟨fun _ => by rw [hrun, bind_err hgrd], fun h => by simp at h⟩
  | lattice =>
    obtain ⟨t, x, ht, hc, hx, hg, hge⟩ := hI.get hpo (d := .anc) (by rw [hcls]; rfl)
    obtain ⟨tb, xb, htb, hcb, hxb, hgb, hgeb⟩ := hI.get hpo (d := .desc) (by rw [hcls]; rfl)
    have hrun : addSL leq ord e fill s = (guardAdd leq .anc e >>= fun bt => guardAdd leq .desc e >>= fun bb =>
        posetAddSL leq ord e fill >>= fun _ => updateAfterAdd .desc bb e >>= fun _ =>
        updateAfterAdd .anc bt e) s := by
      unfold addSL
      rw [bind_ok (get_apply s)]
      simp only [hcls]
    have hgrd := guardAdd_run hpo ht hc hx e
    have hgrdb := guardAdd_run hpo htb hcb hxb e
    simp only [refusal, dirsOf, List.any_cons, List.any_nil, hge, hgeb, Bool.or_false]
    cases hinc : incomparable leq e x
    · rw [hinc] at hgrd
      cases hincb : incomparable leq e xb
      · rw [hincb] at hgrdb
        refine ⟨fun h => by simp at h, fun _ s' hs' => ?_⟩
        rw [hrun, bind_ok hgrd, bind_ok hgrdb] at hs'
        cases r1 with
        | error er => rw [bind_err hr] at hs'; cases hs'
        | ok u =>
          rw [bind_ok hr] at hs'
          obtain ⟨s2, h2, hp, hcl, hfl, t', ht', hc'⟩ :=
            updateAfterAdd_spec hpoU hnd hU heU htb hxb hincb (s1 := s1)
              (a5 rfl) (fun hu => by rw [SL.cache, a3]; exact hcb (a4 ▸ hu))
          rw [bind_ok h2] at hs'
          obtain ⟨s3, h3, hp3, hcl3, hfl3, t'', ht'', hc''⟩ :=
            updateAfterAdd_spec hpoU hnd hU heU ht hx hinc (s1 := s2)
              (by rw [hp]; exact a5 rfl) (fun hu => by
                have : s2.cache Dir.anc = s1.cache Dir.anc := hfl
                rw [this, SL.cache, a2]; exact hc (a4 ▸ (hp ▸ hu)))
          rw [h3] at hs'
          simp only [Prod.mk.injEq, and_true] at hs'
          subst hs'
          refine ⟨⟨fun d hd => ?_⟩, by rw [hp3, hp]; exact a5 rfl, by rw [hcl3, hcl, a1, hcls], by rw [hp3, hp, a4]⟩
          cases d
          · refine ⟨t', by rw [hp3, hp, a5 rfl]; exact ht', fun hu => ?_⟩
            have : s3.cache Dir.desc = s2.cache Dir.desc := hfl3
            rw [this]; exact hc' (hp3 ▸ hu)
          · exact ⟨t'', by rw [hp3, hp, a5 rfl]; exact ht'', hc''⟩
      · rw [hincb] at hgrdb
        exact ⟨fun _ => by rw [hrun, bind_ok hgrd, bind_err hgrdb], fun h => by simp at h⟩
    · rw [hinc] at hgrd
      exact ⟨fun _ => by rw [hrun, bind_err hgrd], fun h => by simp at h⟩

end
end Fca.SemiLattice

/-! ### `del`, `remove` -/
namespace Fca.SemiLattice
open Fca Fca.Poset Fca.Poset.Fresh Fca.SemiLattice.Spec

section
variable {α : Type} [DecidableEq α] {leq : α → α → Bool} {ord : List Nat → List Nat} {U : α → Prop}

theorem updateAfterDel_spec {E : List α} {d : Dir} {t k : Nat} (ht : isExt leq d E t = true) (hk : k < E.length)
    (hne : t ≠ k) {s1 : SL α} (hE : s1.p.elems = E.eraseIdx k) (hc : s1.p.useCache = true → s1.cache d = some t) :
    ∃ s2, updateAfterDel d k s1 = (s2, .ok ()) ∧ s2.p = s1.p ∧ s2.cls = s1.cls ∧
      s2.cache d.flip = s1.cache d.flip ∧
      isExt leq d (E.eraseIdx k) (decrIdx t k) = true ∧ (s2.p.useCache = true → s2.cache d = some (decrIdx t k)) := by
  have hx := isExt_eraseIdx ht hk hne
  rw [updateAfterDel_run]
  cases hu : s1.p.useCache
  · simp only [Bool.false_eq_true, ↓reduceIte]
    exact ⟨s1, rfl, rfl, rfl, rfl, hx, fun h => by rw [hu] at h; cases h⟩
  · simp only [↓reduceIte, hc hu]
    exact ⟨_, rfl, p_setCache _ _ _, cls_setCache _ _ _, cache_setCache_flip' _ _ _, hx, fun _ => cache_setCache _ _ _⟩

/-- the result of `POSet.__delitem__` run through `lift`, for an index in range -/
theorem lift_delE {s : SL α} {k : Nat} (hk : k < s.p.elems.length) :
    ∃ p1 r1, ML.lift (delE ord k) s = ({ s with p := p1 }, r1) ∧ p1.elems = s.p.elems.eraseIdx k ∧
      p1.useCache = s.p.useCache := by
  refine ⟨(delE ord k s.p).1, (delE ord k s.p).2, rfl, ?_⟩
  exact delE_elems hk

theorem lift_delE_error {s : SL α} {k : Nat} (hk : ¬ k < s.p.elems.length) :
    ML.lift (delE ord k) s = (s, .error .IndexError) := by
  rw [lift_apply, delE_error hk]

theorem beq_some_iff {a b : Nat} : ((some a == some b) = true) ↔ a = b := by simp

/-- `del self[k]` under the invariant -/
theorem delSL_spec (hpoU : PO leq U) {s : SL α} (hI : InvTop leq s) (hnd : s.p.elems.Nodup)
    (hU : ∀ a ∈ s.p.elems, U a) (k : Nat) :
    (∀ err, refusal leq s.cls s.p.elems (.del k) = some err → delSL leq ord k s = (s, .error err)) ∧
    (refusal leq s.cls s.p.elems (.del k) = none → ∀ s', delSL leq ord k s = (s', .ok ()) →
      InvTop leq s' ∧ s'.p.elems = s.p.elems.eraseIdx k ∧ s'.cls = s.cls ∧ s'.p.useCache = s.p.useCache) := by
  have hpo : IdxPO leq s.p.elems := idxPO_of hpoU hnd hU
  cases hcls : s.cls with
  | upper =>
    obtain ⟨t, x, ht, hc, hx, hg, hge⟩ := hI.get hpo (d := .anc) (by rw [hcls]; rfl)
    have hrun : delSL leq ord k s = (guardDel leq .anc k >>= fun _ => ML.lift (delE ord k) >>= fun _ =>
        updateAfterDel .anc k) s := by
      unfold delSL
      rw [bind_ok (get_apply s)]
      simp only [hcls]
    have hgrd := guardDel_run hpo ht hc k
    simp only [refusal, dirsOf, List.any_cons, List.any_nil, hg, Bool.or_false, beq_some_iff]
    by_cases htk : t = k
    · rw [if_pos htk] at hgrd
      simp only [htk, ↓reduceIte]
      exact ⟨fun err h => by simp at h; subst h; rw [hrun, bind_err hgrd], fun h => by simp at h⟩
    · rw [if_neg htk] at hgrd
      simp only [htk, ↓reduceIte]
      by_cases hk : k < s.p.elems.length
      · simp only [hk, ↓reduceIte]
        refine ⟨fun err h => by simp at h, fun _ s' hs' => ?_⟩
        obtain ⟨p1, r1, hl, he1, hu1⟩ := lift_delE (ord := ord) hk
        rw [hrun, bind_ok hgrd] at hs'
        cases r1 with
        | error er => rw [bind_err hl] at hs'; cases hs'
        | ok u =>
          rw [bind_ok hl] at hs'
          obtain ⟨s2, h2, hp, hcl, _, hx2, hc2⟩ := updateAfterDel_spec ht hk htk (s1 := { s with p := p1 }) he1
            (fun hu => hc (hu1 ▸ hu))
          rw [h2] at hs'
          simp only [Prod.mk.injEq, and_true] at hs'
          subst hs'
          refine ⟨⟨fun d hd => ?_⟩, by rw [hp]; exact he1, by rw [hcl]; exact hcls, by rw [hp]; exact hu1⟩
          rw [hcl] at hd
          simp only [hcls] at hd
          cases d
          · cases hd
          · rw [hp]; exact ⟨_, he1 ▸ hx2, by rw [hp] at hc2; exact hc2⟩
      · simp only [hk, ↓reduceIte]
        refine ⟨fun err h => ?_, fun h => by simp at h⟩
        simp at h; subst h
        rw [hrun, bind_ok hgrd, bind_err (lift_delE_error hk)]
  | lower =>
    obtain ⟨t, x, ht, hc, hx, hg, hge⟩ := hI.get hpo (d := .desc) (by rw [hcls]; rfl)
    have hrun : delSL leq ord k s = (guardDel leq .desc k >>= fun _ => ML.lift (delE ord k) >>= fun _ =>
        updateAfterDel .desc k) s := by
      unfold delSL
      rw [bind_ok (get_apply s)]
      simp only [hcls]
    have hgrd := guardDel_run hpo ht hc k
    simp only [refusal, dirsOf, List.any_cons, List.any_nil, hg, Bool.or_false, beq_some_iff]
    by_cases htk : t = k
    · rw [if_pos htk] at hgrd
      simp only [htk, ↓reduceIte]
      exact ⟨fun err h => by simp at h; subst h; rw [hrun, bind_err hgrd], fun h => by simp at h⟩
    · rw [if_neg htk] at hgrd
      simp only [htk, ↓reduceIte]
      by_cases hk : k < s.p.elems.length
      · simp only [hk, ↓reduceIte]
        refine ⟨fun err h => by simp at h, fun _ s' hs' => ?_⟩
        obtain ⟨p1, r1, hl, he1, hu1⟩ := lift_delE (ord := ord) hk
        rw [hrun, bind_ok hgrd] at hs'
        cases r1 with
        | error er => rw [bind_err hl] at hs'; cases hs'
        | ok u =>
          rw [bind_ok hl] at hs'
          obtain ⟨s2, h2, hp, hcl, _, hx2, hc2⟩ := updateAfterDel_spec ht hk htk (s1 := { s with p := p1 }) he1
            (fun hu => hc (hu1 ▸ hu))
          rw [h2] at hs'
          simp only [Prod.mk.injEq, and_true] at hs'
          subst hs'
          refine ⟨⟨fun d hd => ?_⟩, by rw [hp]; exact he1, by rw [hcl]; exact hcls, by rw [hp]; exact hu1⟩
          rw [hcl] at hd
          simp only [hcls] at hd
          cases d
          · rw [hp]; exact ⟨_, he1 ▸ hx2, by rw [hp] at hc2; exact hc2⟩
          · cases hd
      · simp only [hk, ↓reduceIte]
        refine ⟨fun err h => ?_, fun h => by simp at h⟩
        simp at h; subst h
        rw [hrun, bind_ok hgrd, bind_err (lift_delE_error hk)]
  | lattice =>
    obtain ⟨t, x, ht, hc, hx, hg, hge⟩ := hI.get hpo (d := .anc) (by rw [hcls]; rfl)
    obtain ⟨tb, xb, htb, hcb, hxb, hgb, hgeb⟩ := hI.get hpo (d := .desc) (by rw [hcls]; rfl)
    have hrun : delSL leq ord k s = (guardDel leq .anc k >>= fun _ => guardDel leq .desc k >>= fun _ =>
        ML.lift (delE ord k) >>= fun _ => updateAfterDel .desc k >>= fun _ => updateAfterDel .anc k) s := by
      unfold delSL
      rw [bind_ok (get_apply s)]
      simp only [hcls]
    have hgrd := guardDel_run hpo ht hc k
    have hgrdb := guardDel_run hpo htb hcb k
    simp only [refusal, dirsOf, List.any_cons, List.any_nil, hg, hgb, Bool.or_false]
    by_cases htk : t = k
    · rw [if_pos htk] at hgrd
      have hcnd : (some t == some k || some tb == some k) = true := by simp [htk]
      simp only [hcnd, ↓reduceIte]
      exact ⟨fun err h => by simp at h; subst h; rw [hrun, bind_err hgrd], fun h => by simp at h⟩
    · rw [if_neg htk] at hgrd
      by_cases htbk : tb = k
      · rw [if_pos htbk] at hgrdb
        have hcnd : (some t == some k || some tb == some k) = true := by simp [htbk]
        simp only [hcnd, ↓reduceIte]
        exact ⟨fun err h => by simp at h; subst h; rw [hrun, bind_ok hgrd, bind_err hgrdb], fun h => by simp at h⟩
      · rw [if_neg htbk] at hgrdb
        have hcnd : (some t == some k || some tb == some k) = false := by simp [htk, htbk]
        simp only [hcnd, Bool.false_eq_true, ↓reduceIte]
        by_cases hk : k < s.p.elems.length
        · simp only [hk, ↓reduceIte]
          refine ⟨fun err h => by simp at h, fun _ s' hs' => ?_⟩
          obtain ⟨p1, r1, hl, he1, hu1⟩ := lift_delE (ord := ord) hk
          rw [hrun, bind_ok hgrd, bind_ok hgrdb] at hs'
          cases r1 with
          | error er => rw [bind_err hl] at hs'; cases hs'
          | ok u =>
            rw [bind_ok hl] at hs'
            obtain ⟨s2, h2, hp, hcl, hfl, hx2, hc2⟩ := updateAfterDel_spec htb hk htbk (s1 := { s with p := p1 }) he1
              (fun hu => hcb (hu1 ▸ hu))
            rw [bind_ok h2] at hs'
            obtain ⟨s3, h3, hp3, hcl3, hfl3, hx3, hc3⟩ := updateAfterDel_spec ht hk htk (s1 := s2)
              (by rw [hp]; exact he1) (fun hu => by
                have : s2.cache Dir.anc = ({ s with p := p1 } : SL α).cache Dir.anc := hfl
                rw [this]
                have hu' : p1.useCache = true := by rw [hp] at hu; exact hu
                exact hc (hu1 ▸ hu'))
            rw [h3] at hs'
            simp only [Prod.mk.injEq, and_true] at hs'
            subst hs'
            refine ⟨⟨fun d hd => ?_⟩, by rw [hp3, hp]; exact he1, by rw [hcl3, hcl]; exact hcls,
              by rw [hp3, hp]; exact hu1⟩
            cases d
            · refine ⟨_, by rw [hp3, hp, he1]; exact hx2, fun hu => ?_⟩
              have : s3.cache Dir.desc = s2.cache Dir.desc := hfl3
              rw [this]; exact hc2 (hp3 ▸ hu)
            · exact ⟨_, by rw [hp3, hp, he1]; exact hx3, hc3⟩
        · simp only [hk, ↓reduceIte]
          refine ⟨fun err h => ?_, fun h => by simp at h⟩
          simp at h; subst h
          rw [hrun, bind_ok hgrd, bind_ok hgrdb, bind_err (lift_delE_error hk)]

end
end Fca.SemiLattice

namespace Fca.SemiLattice
open Fca Fca.Poset Fca.Poset.Fresh Fca.SemiLattice.Spec

section
variable {α : Type} [DecidableEq α] {leq : α → α → Bool} {ord : List Nat → List Nat} {U : α → Prop}

theorem lift_indexE (s : SL α) (e : α) :
    ML.lift (indexE e) s = (s, match indexOf? e s.p.elems with
      | some i => .ok i
      | none => .error .KeyError) := by
  rw [lift_apply, indexE_run]
  rfl

/-- an element that `remove` does not refuse sits at an index that `del` does not refuse -/
theorem refusal_del_of_remove {cls : Cls} {E : List α} {e : α} {i : Nat}
    (h : refusal leq cls E (.remove e) = none) (hi : indexOf? e E = some i) :
    refusal leq cls E (.del i) = none := by
  have hie := indexOf?_spec hi
  have hil : i < E.length := (List.getElem?_eq_some_iff.mp hie).1
  simp only [refusal] at h ⊢
  split at h
  · cases h
  · rename_i hany
    have : ((dirsOf cls).any fun d => greatest leq d E == some i) = false := by
      rw [Bool.eq_false_iff]
      intro hc
      apply hany
      rw [List.any_eq_true] at hc ⊢
      obtain ⟨d, hd, hg⟩ := hc
      refine ⟨d, hd, ?_⟩
      have hg' : greatest leq d E = some i := by simpa using hg
      simp [greatestElem, hg', hie]
    simp [this, hil]

/-- `remove(e)` under the invariant -/
theorem removeSL_spec (hpoU : PO leq U) {s : SL α} (hI : InvTop leq s) (hnd : s.p.elems.Nodup)
    (hU : ∀ a ∈ s.p.elems, U a) (e : α) :
    (∀ err, refusal leq s.cls s.p.elems (.remove e) = some err → removeSL leq ord e s = (s, .error err)) ∧
    (refusal leq s.cls s.p.elems (.remove e) = none → ∀ s', removeSL leq ord e s = (s', .ok ()) →
      InvTop leq s' ∧ s'.p.elems = next s.p.elems (.remove e) ∧ s'.cls = s.cls ∧
      s'.p.useCache = s.p.useCache) := by
  have hpo : IdxPO leq s.p.elems := idxPO_of hpoU hnd hU
  have hdel := delSL_spec (ord := ord) hpoU hI hnd hU
  -- what `POSet.remove` does once the guards are passed
  have hpost : (refusal leq s.cls s.p.elems (.remove e) = none ∨ e ∉ s.p.elems) →
      (e ∉ s.p.elems → posetRemoveSL leq ord e s = (s, .error .KeyError)) ∧
      (refusal leq s.cls s.p.elems (.remove e) = none → ∀ s', posetRemoveSL leq ord e s = (s', .ok ()) →
        InvTop leq s' ∧ s'.p.elems = next s.p.elems (.remove e) ∧ s'.cls = s.cls ∧
        s'.p.useCache = s.p.useCache) := by
    intro _
    constructor
    · intro he
      unfold posetRemoveSL
      have := lift_indexE s e
      rw [indexOf?_none_of_not_mem he] at this
      rw [bind_err this]
    · intro href s' hs'
      unfold posetRemoveSL at hs'
      have hl := lift_indexE s e
      cases hi : indexOf? e s.p.elems with
      | none =>
        rw [hi] at hl
        rw [bind_err hl] at hs'; cases hs'
      | some i =>
        rw [hi] at hl
        rw [bind_ok hl] at hs'
        have := (hdel i).2 (refusal_del_of_remove href hi) s' hs'
        simpa [next, hi] using this
  cases hcls : s.cls with
  | upper =>
    obtain ⟨t, x, ht, hc, hx, hg, hge⟩ := hI.get hpo (d := .anc) (by rw [hcls]; rfl)
    have hrun : removeSL leq ord e s = (guardRemove leq .anc e >>= fun _ => posetRemoveSL leq ord e) s := by
      unfold removeSL
      rw [bind_ok (get_apply s)]
      simp only [hcls]
    have hgrd := guardRemove_run hpo ht hc hx e
    rw [hcls] at hpost
    have hany : ((dirsOf Cls.upper).any fun d => greatestElem leq d s.p.elems == some e) = (x == e) := by
      simp [dirsOf, hge]
    by_cases hxe : x = e
    · rw [if_pos hxe] at hgrd
      have href : refusal leq Cls.upper s.p.elems (.remove e) = some .ValueError := by simp [refusal, hany, hxe]
      rw [href]
      exact ⟨fun err h => by simp at h; subst h; rw [hrun, bind_err hgrd], fun h => by simp at h⟩
    · rw [if_neg hxe] at hgrd
      by_cases he : e ∈ s.p.elems
      · have href : refusal leq Cls.upper s.p.elems (.remove e) = none := by simp [refusal, hany, hxe, he]
        refine ⟨fun err h => (by rw [href] at h; cases h), fun _ s' hs' => ?_⟩
        rw [hrun, bind_ok hgrd] at hs'
        exact (hpost (Or.inl href)).2 href s' hs'
      · have href : refusal leq Cls.upper s.p.elems (.remove e) = some .KeyError := by simp [refusal, hany, hxe, he]
        rw [href]
        refine ⟨fun err h => ?_, fun h => by simp at h⟩
        simp at h; subst h
        rw [hrun, bind_ok hgrd]
        exact (hpost (Or.inr he)).1 he
  | lower =>
    obtain ⟨t, x, ht, hc, hx, hg, hge⟩ := hI.get hpo (d := .desc) (by rw [hcls]; rfl)
    have hrun : removeSL leq ord e s = (guardRemove leq .desc e >>= fun _ => posetRemoveSL leq ord e) s := by
      unfold removeSL
      rw [bind_ok (get_apply s)]
      simp only [hcls]
    have hgrd := guardRemove_run hpo ht hc hx e
    rw [hcls] at hpost
    have hany : ((dirsOf Cls.lower).any fun d => greatestElem leq d s.p.elems == some e) = (x == e) := by
      simp [dirsOf, hge]
    by_cases hxe : x = e
    · rw [if_pos hxe] at hgrd
      have href : refusal leq Cls.lower s.p.elems (.remove e) = some .ValueError := by simp [refusal, hany, hxe]
      rw [href]
      exact ⟨fun err h => by simp at h; subst h; rw [hrun, bind_err hgrd], fun h => by simp at h⟩
    · rw [if_neg hxe] at hgrd
      by_cases he : e ∈ s.p.elems
      · have href : refusal leq Cls.lower s.p.elems (.remove e) = none := by simp [refusal, hany, hxe, he]
        refine ⟨fun err h => (by rw [href] at h; cases h), fun _ s' hs' => ?_⟩
        rw [hrun, bind_ok hgrd] at hs'
        exact (hpost (Or.inl href)).2 href s' hs'
      · have href : refusal leq Cls.lower s.p.elems (.remove e) = some .KeyError := by simp [refusal, hany, hxe, he]
        rw [href]
        refine ⟨fun err h => ?_, fun h => by simp at h⟩
        simp at h; subst h
        rw [hrun, bind_ok hgrd]
        exact (hpost (Or.inr he)).1 he
  | lattice =>
    obtain ⟨t, x, ht, hc, hx, hg, hge⟩ := hI.get hpo (d := .anc) (by rw [hcls]; rfl)
    obtain ⟨tb, xb, htb, hcb, hxb, hgb, hgeb⟩ := hI.get hpo (d := .desc) (by rw [hcls]; rfl)
    have hrun : removeSL leq ord e s = (guardRemove leq .anc e >>= fun _ => guardRemove leq .desc e >>= fun _ =>
        posetRemoveSL leq ord e) s := by
      unfold removeSL
      rw [bind_ok (get_apply s)]
      simp only [hcls]
    have hgrd := guardRemove_run hpo ht hc hx e
    have hgrdb := guardRemove_run hpo htb hcb hxb e
    rw [hcls] at hpost
    have hany : ((dirsOf Cls.lattice).any fun d => greatestElem leq d s.p.elems == some e) =
        (x == e || xb == e) := by
      simp [dirsOf, hge, hgeb]
    by_cases hxe : x = e
    · rw [if_pos hxe] at hgrd
      have href : refusal leq Cls.lattice s.p.elems (.remove e) = some .ValueError := by simp [refusal, hany, hxe]
      rw [href]
      exact ⟨fun err h => by simp at h; subst h; rw [hrun, bind_err hgrd], fun h => by simp at h⟩
    · rw [if_neg hxe] at hgrd
      by_cases hxbe : xb = e
      · rw [if_pos hxbe] at hgrdb
        have href : refusal leq Cls.lattice s.p.elems (.remove e) = some .ValueError := by
          simp [refusal, hany, hxbe]
        rw [href]
        exact ⟨fun err h => by simp at h; subst h; rw [hrun, bind_ok hgrd, bind_err hgrdb], fun h => by simp at h⟩
      · rw [if_neg hxbe] at hgrdb
        by_cases he : e ∈ s.p.elems
        · have href : refusal leq Cls.lattice s.p.elems (.remove e) = none := by
            simp [refusal, hany, hxe, hxbe, he]
          refine ⟨fun err h => (by rw [href] at h; cases h), fun _ s' hs' => ?_⟩
          rw [hrun, bind_ok hgrd, bind_ok hgrdb] at hs'
          exact (hpost (Or.inl href)).2 href s' hs'
        · have href : refusal leq Cls.lattice s.p.elems (.remove e) = some .KeyError := by
            simp [refusal, hany, hxe, hxbe, he]
          rw [href]
          refine ⟨fun err h => ?_, fun h => by simp at h⟩
          simp at h; subst h
          rw [hrun, bind_ok hgrd, bind_ok hgrdb]
          exact (hpost (Or.inr he)).1 he

end
end Fca.SemiLattice

/-
  Fca.Lemmas.ConstructHyps — the hypotheses under which the C12 theorems are stated (listing order,
  set-iteration orders, batch schedules, inputs of the spanning-tree routines) and the facts that make
  them usable / exhibit instances.
-/
import Fca.Lemmas.ConstructTree
import Fca.Lemmas.ConstructSweep2
namespace Fca.Construct
open Fca.Spec

/-- the way Python happens to iterate a set: any rearrangement of its elements -/
def OrdOK (ord : List Nat → List Nat) : Prop := ∀ xs, (ord xs).Perm xs

/-- a thread schedule at scan granularity: for every concept and batch a rearrangement of the batch -/
def SchedOK (sched : Nat → Nat → List Nat → List Nat) : Prop := ∀ c k b, (sched c k b).Perm b

/-- what `is_concepts_sorted=True` needs: every strict superconcept is listed before its subconcepts -/
def TopoSorted (cs : List Ext) : Prop :=
  ∀ i j, i < cs.length → j < cs.length → ssubAt cs j i = true → i < j

/-- the documented way to obtain it: non-increasing extent size -/
def SizeSorted (cs : List Ext) : Prop :=
  ∀ i j, i < j → j < cs.length → (cs.getD j []).length ≤ (cs.getD i []).length

/-- lists sorted by non-increasing support (what `sort_concepts` produces) satisfy the flag's requirement -/
theorem sizeSorted_topoSorted (cs : List Ext) (hnd : ExtsNodup cs) (h : SizeSorted cs) : TopoSorted cs := by
  intro i j hi hj hlt
  rw [← ltAt_eq_ssubAt hnd] at hlt
  have hlen := ltC_length hlt
  apply Classical.byContradiction
  intro hij
  have hji : j ≤ i := by omega
  rcases Nat.lt_or_eq_of_le hji with hji | hji
  · have := h j i hji hi; unfold ltAt at hlen; omega
  · subst hji; omega

/-- decidable form of `TopoSorted`, to exhibit instances -/
def topoSortedB (cs : List Ext) : Bool :=
  (List.range cs.length).all fun i => (List.range cs.length).all fun j => !(ssubAt cs j i) || decide (i < j)

theorem topoSorted_of_B {cs : List Ext} (h : topoSortedB cs = true) : TopoSorted cs := by
  intro i j hi hj hlt
  simp only [topoSortedB, List.all_eq_true, List.mem_range, Bool.or_eq_true, Bool.not_eq_true',
    decide_eq_true_eq] at h
  rcases h i hi j hj with h1 | h1
  · rw [hlt] at h1; cases h1
  · exact h1

/-- hypotheses shared by the spanning-tree routines: duplicate-free extents, a greatest concept `top`, and —
    when `is_concepts_sorted=True` is passed — a list in which superconcepts precede subconcepts -/
structure TreeInput (cs : List Ext) (top : Nat) (isSorted : Bool) : Prop where
  nodup : ExtsNodup cs
  top : IsTop cs top
  sorted : isSorted = true → TopoSorted cs

theorem TreeInput.root_eq {cs : List Ext} {top : Nat} {isSorted : Bool} (hin : TreeInput cs top isSorted) :
    (sortView cs isSorted).isortI.getD 0 0 = top := by
  cases isSorted with
  | false => simpa [sortView] using sortedIdx_head_top cs hin.nodup hin.top
  | true =>
    have hn := hin.top.1
    have h0 : (sortView cs true).isortI.getD 0 0 = 0 := by
      have h0' : 0 < cs.length := by omega
      simp [sortView, List.getD_eq_getElem?_getD, h0']
    rw [h0]
    apply Classical.byContradiction
    intro hne
    have := hin.sorted rfl top 0 hin.top.1 (by omega) (hin.top.2 0 (by omega) hne)
    omega

theorem sortViewOK_any (cs : List Ext) (isSorted : Bool) : SortViewOK cs.length (sortView cs isSorted) := by
  cases isSorted with
  | false => exact sortViewOK_unsorted cs
  | true => exact sortViewOK_sorted cs

/-- tree + chains (both succeed, chain property) -/
theorem tree_chains_C (cs : List Ext) (top : Nat) (isSorted : Bool) (hin : TreeInput cs top isSorted)
    (ord : List Nat → List Nat) (hord : OrdOK ord) :
    ∃ t chains, spanningTreeC cs isSorted ord = .ok t ∧ getChainsC cs t.sup isSorted = .ok chains ∧
      chainsOK cs.length (ltAt cs) (parentOf t.sup) top chains = true := by
  have hso := strictOrd_ltAt cs hin.nodup
  have htop : ∀ j, j < cs.length → j ≠ top → ltAt cs j top = true := by
    rw [ltAt_eq_ssubAt hin.nodup]; exact hin.top.2
  obtain ⟨t, chs, h1, h2, _, h4⟩ := tree_chains_ok hso ord (fun xs x => (hord xs).mem_iff)
    (sortViewOK_any cs isSorted) (Nat.lt_of_le_of_lt (Nat.zero_le _) hin.top.1) hin.root_eq htop
    (suppAt_lt_walkFuel cs top)
  exact ⟨t, chs, h1, h2, h4⟩

/-- the whole spanning-tree routine, any job count, any schedule -/
theorem bySpanningTree_C (cs : List Ext) (top : Nat) (isSorted : Bool) (hin : TreeInput cs top isSorted)
    (ord : List Nat → List Nat) (hord : OrdOK ord) (nJobs : Nat) (hj : 1 ≤ nJobs)
    (sched : Nat → Nat → List Nat → List Nat) (hsched : SchedOK sched) :
    ∃ out, bySpanningTreeC cs isSorted nJobs ord sched = .ok out ∧ IsCoverDict cs out := by
  obtain ⟨t, chains, h1, h2, h3⟩ := tree_chains_C cs top isSorted hin ord hord
  have hso := strictOrd_ltAt cs hin.nodup
  obtain ⟨c1, c2, c3, c4⟩ := chains_facts hso h3
  have ctx : SweepCtx cs.length (ltAt cs) (suppAt cs) (sortView cs isSorted).pos top chains :=
    ⟨hso, posOK_sortView cs hin.nodup isSorted hin.sorted, hin.top.1,
      by rw [ltAt_eq_ssubAt hin.nodup]; exact hin.top.2, c1, c2, c3, c4⟩
  unfold bySpanningTreeC bySpanningTree
  unfold spanningTreeC at h1
  unfold getChainsC at h2
  rw [h1]
  simp only
  rw [h2]
  simp only
  have hcov : ∀ out : List (List Nat), (out.length = cs.length ∧ ∀ s, s < cs.length → (out.getD s []).Nodup ∧
      SameSetC (out.getD s []) (coversBy cs.length (ltAt cs) s)) → IsCoverDict cs out := by
    intro out h
    unfold IsCoverDict Spec.covers
    rw [← ltAt_eq_ssubAt hin.nodup]
    exact h
  by_cases h1j : (nJobs == 1) = true
  · rw [if_pos h1j]
    refine ⟨_, rfl, hcov _ ?_⟩
    unfold fromSpanningTree
    exact sweep_finalize_ok ctx (scanOrderOK_seq chains) ord hord
  · rw [if_neg h1j]
    refine ⟨_, rfl, hcov _ ?_⟩
    unfold fromSpanningTreePar
    exact sweep_finalize_ok ctx (scanOrderOK_par chains hj sched hsched) ord hord

end Fca.Construct

/-
  Lemmas/SemiLatticeDic — "a cached direct relation implies the cached closed relation" (`DIC`): whenever
  `_cache_children[k]` (`_cache_parents[k]`) is present, so is `_cache_descendants[k]` (`_cache_ancestors[k]`).
  True for the empty caches, kept by every `POSet` operation (a direct entry is only ever written right after the
  closed entry of the same key was computed or re-written).  Holds for every state - no cache-correctness invariant is
  needed - and is what lets `add(e, fill_up_cache=True)` on a semilattice (no `tops/bottoms` scan) find
  `_cache_ancestors[el_i]` for every traced element.  A small Hoare calculus `Tr` (pre, post on normal return, post
  on exception) carries the argument through the code.
-/
import Fca.Lemmas.SemiLatticePres
set_option linter.unusedSectionVars false
set_option linter.unusedVariables false
namespace Fca.Poset
open Fca

section
variable {α : Type} [DecidableEq α] {leq : α → α → Bool} {ord : List Nat → List Nat}

/-- `{P} m {Qok | Qerr}` -/
def Tr {β : Type} (P : St α → Prop) (m : M α β) (Qok : β → St α → Prop) (Qerr : St α → Prop) : Prop :=
  ∀ s, P s → match (m s).2 with
    | .ok b => Qok b (m s).1
    | .error _ => Qerr (m s).1

theorem tr_pure {β : Type} {P : St α → Prop} {Qok : β → St α → Prop} {Qerr : St α → Prop} (b : β)
    (h : ∀ s, P s → Qok b s) : Tr P (pure b : M α β) Qok Qerr := fun s hs => h s hs

theorem tr_throw {β : Type} {P : St α → Prop} {Qok : β → St α → Prop} {Qerr : St α → Prop} (e : PyErr)
    (h : ∀ s, P s → Qerr s) : Tr P (M.throw e : M α β) Qok Qerr := fun s hs => h s hs

theorem tr_modify {P : St α → Prop} {Qok : Unit → St α → Prop} {Qerr : St α → Prop} (f : St α → St α)
    (h : ∀ s, P s → Qok () (f s)) : Tr P (M.modify f : M α Unit) Qok Qerr := fun s hs => h s hs

theorem tr_ofExcept {β : Type} {P : St α → Prop} {Qok : β → St α → Prop} {Qerr : St α → Prop} (x : Except PyErr β)
    (hok : ∀ b s, x = .ok b → P s → Qok b s) (herr : ∀ s, P s → Qerr s) : Tr P (M.ofExcept x : M α β) Qok Qerr := by
  intro s hs
  cases x with
  | ok b => exact hok b s rfl hs
  | error e => exact herr s hs

theorem tr_bind {β γ : Type} {P : St α → Prop} {R : β → St α → Prop} {Qok : γ → St α → Prop} {Qerr : St α → Prop}
    {m : M α β} {f : β → M α γ} (hm : Tr P m R Qerr) (hf : ∀ b, Tr (R b) (f b) Qok Qerr) :
    Tr P (m >>= f) Qok Qerr := by
  intro s hs
  have h1 := hm s hs
  show match (M.bind m f s).2 with
    | .ok b => Qok b (M.bind m f s).1
    | .error _ => Qerr (M.bind m f s).1
  unfold M.bind
  cases hr : m s with
  | mk s' r =>
    rw [hr] at h1
    cases r with
    | error e => exact h1
    | ok b => exact hf b s' h1

/-- `let s ← get`: the bound value IS the current state -/
theorem tr_get {γ : Type} {P : St α → Prop} {Qok : γ → St α → Prop} {Qerr : St α → Prop} {f : St α → M α γ}
    (hf : ∀ s0, Tr (fun s => P s ∧ s = s0) (f s0) Qok Qerr) : Tr P (M.get >>= f) Qok Qerr := by
  intro s hs
  exact hf s s ⟨hs, rfl⟩

theorem tr_weaken {β : Type} {P P' : St α → Prop} {Qok Qok' : β → St α → Prop} {Qerr Qerr' : St α → Prop}
    {m : M α β} (h : Tr P' m Qok' Qerr') (hp : ∀ s, P s → P' s) (hok : ∀ b s, Qok' b s → Qok b s)
    (herr : ∀ s, Qerr' s → Qerr s) : Tr P m Qok Qerr := by
  intro s hs
  have := h s (hp s hs)
  cases hr : (m s).2 with
  | ok b => rw [hr] at this; exact hok b _ this
  | error e => rw [hr] at this; exact herr _ this

theorem tr_intro {β : Type} {P : St α → Prop} {Qok : β → St α → Prop} {Qerr : St α → Prop} {m : M α β}
    (hok : ∀ s, P s → ∀ b, (m s).2 = .ok b → Qok b (m s).1)
    (herr : ∀ s, P s → ∀ e, (m s).2 = .error e → Qerr (m s).1) : Tr P m Qok Qerr := by
  intro s hs
  cases h : (m s).2 with
  | ok b => exact hok s hs b h
  | error e => exact herr s hs e h

theorem Tr.ok {β : Type} {P : St α → Prop} {Qok : β → St α → Prop} {Qerr : St α → Prop} {m : M α β}
    (h : Tr P m Qok Qerr) {s : St α} (hs : P s) {b : β} (hb : (m s).2 = .ok b) : Qok b (m s).1 := by
  have := h s hs
  rw [hb] at this
  exact this

theorem Tr.err {β : Type} {P : St α → Prop} {Qok : β → St α → Prop} {Qerr : St α → Prop} {m : M α β}
    (h : Tr P m Qok Qerr) {s : St α} (hs : P s) {e : PyErr} (hb : (m s).2 = .error e) : Qerr (m s).1 := by
  have := h s hs
  rw [hb] at this
  exact this

/-- an invariant `I` kept on both exits -/
abbrev Keeps {β : Type} (I : St α → Prop) (m : M α β) : Prop := Tr I m (fun _ => I) I

theorem keeps_of_state {β : Type} {I : St α → Prop} {m : M α β} (h : ∀ s, I s → I (m s).1) : Keeps I m :=
  tr_intro (fun s hs _ _ => h s hs) (fun s hs _ _ => h s hs)

theorem Keeps.state {β : Type} {I : St α → Prop} {m : M α β} (h : Keeps I m) {s : St α} (hs : I s) : I (m s).1 := by
  cases hr : (m s).2 with
  | ok b => exact Tr.ok h hs hr
  | error e => exact Tr.err h hs hr

theorem keeps_filterM {I : St α → Prop} {p : Nat → M α Bool} (hp : ∀ i, Keeps I (p i)) (l : List Nat) :
    Keeps I (M.filterM p l) := by
  induction l with
  | nil => exact tr_pure _ fun _ h => h
  | cons i is ih =>
    unfold M.filterM
    exact tr_bind (hp i) fun b => tr_bind ih fun r => tr_pure _ fun _ h => h

theorem keeps_foldM {β : Type} {I : St α → Prop} {f : β → Nat → M α β} (hf : ∀ a x, Keeps I (f a x)) (acc : β)
    (l : List Nat) : Keeps I (M.foldM f acc l) := by
  induction l generalizing acc with
  | nil => exact tr_pure _ fun _ h => h
  | cons x xs ih =>
    unfold M.foldM
    exact tr_bind (hf acc x) fun a => ih a

theorem keeps_forM {I : St α → Prop} {f : Nat → M α Unit} (hf : ∀ x, Keeps I (f x)) (l : List Nat) :
    Keeps I (M.forM f l) := by
  induction l with
  | nil => exact tr_pure _ fun _ h => h
  | cons x xs ih =>
    unfold M.forM
    exact tr_bind (hf x) fun _ => ih

theorem keeps_get_bind {γ : Type} {I : St α → Prop} {f : St α → M α γ} (hf : ∀ s0, Keeps I (f s0)) :
    Keeps I (M.get >>= f) :=
  tr_get fun s0 => tr_weaken (hf s0) (fun _ h => h.1) (fun _ _ h => h) (fun _ h => h)

/-! ### the invariant -/

/-- for keys below `n` other than `x` (take `x ≥ n` for "no exception"): a cached direct relation implies the
    cached closed relation -/
def DIC (n x : Nat) (s : St α) : Prop :=
  ∀ d k, k < n → k ≠ x → (alookup k (s.direct d)).isSome = true → (alookup k (s.closed d)).isSome = true

/-- a state update that writes no direct entry and drops no closed entry -/
theorem dic_of_same_direct {n x : Nat} {s s' : St α} (h : DIC n x s)
    (hd : ∀ d k, (alookup k (s'.direct d)).isSome = true → (alookup k (s.direct d)).isSome = true)
    (hc : ∀ d k, (alookup k (s.closed d)).isSome = true → (alookup k (s'.closed d)).isSome = true) :
    DIC n x s' := fun d k hk hx hp => hc d k (h d k hk hx (hd d k hp))

theorem keeps_leqE (n x : Nat) (a b : Nat) : Keeps (DIC n x) (leqE leq a b : M α Bool) := by
  apply keeps_of_state
  intro s hs
  have hsame : ∀ r, DIC n x ({ s with leqC := ainsert (a, b) r s.leqC } : St α) := fun r =>
    dic_of_same_direct hs (fun d k h => by cases d <;> exact h) (fun d k h => by cases d <;> exact h)
  unfold leqE
  split
  · split
    · exact hs
    · split
      · exact hs
      · split
        · exact hs
        · split
          · exact hs
          · exact hsame _
  · exact hs

theorem keeps_leqDir (n x : Nat) (d : Dir) (i e : Nat) : Keeps (DIC n x) (leqDir leq d i e : M α Bool) := by
  cases d <;> exact keeps_leqE n x _ _

theorem keeps_closedNocache (n x : Nat) (d : Dir) (e : Nat) : Keeps (DIC n x) (closedNocache leq d e) := by
  unfold closedNocache
  exact keeps_get_bind fun s => keeps_filterM (fun i => tr_bind (keeps_leqDir n x d i e) fun r =>
    tr_pure _ fun _ h => h) _

theorem dic_insertClosed {n x : Nat} {s : St α} (h : DIC n x s) (d : Dir) (e : Nat) (r : List Nat) :
    DIC n x (s.setClosed d (ainsert e r (s.closed d))) :=
  dic_of_same_direct h (fun d' k hp => by rw [direct_setClosed] at hp; exact hp)
    (fun d' k hp => (pres_insertClosed (α := α) d e r).h s d' k hp)

/-- `self.descendants(e)`: keeps `DIC`; on a caching instance it leaves its entry in the cache when it returns -/
theorem tr_closedE (n x : Nat) (d : Dir) (e : Nat) :
    Tr (DIC n x) (closedE leq d e)
      (fun _ s => DIC n x s ∧ (s.useCache = true → (alookup e (s.closed d)).isSome = true)) (DIC n x) := by
  unfold closedE
  apply tr_get
  intro s0
  split
  · rename_i hc
    split
    · rename_i r hr
      exact tr_pure _ fun s hs => by
        obtain ⟨h1, h2⟩ := hs
        subst h2
        exact ⟨h1, fun _ => by rw [hr]; rfl⟩
    · refine tr_bind (R := fun _ s => DIC n x s) ?_ fun r => ?_
      · exact tr_weaken (keeps_closedNocache n x d e) (fun _ h => h.1) (fun _ _ h => h) (fun _ h => h)
      · refine tr_bind (R := fun _ s => DIC n x s ∧ (alookup e (s.closed d)).isSome = true)
          (tr_modify _ fun s hs => ⟨dic_insertClosed hs d e r, ?_⟩) fun _ => tr_pure _ fun s hs => ⟨hs.1, fun _ => hs.2⟩
        rw [closed_setClosed, alookup_ainsert, if_pos rfl]; rfl
  · rename_i hc
    -- uncached: the flag never changes, so nothing is promised
    apply tr_intro
    · rintro s ⟨h1, h2⟩ b hb
      subst h2
      refine ⟨(keeps_closedNocache (leq := leq) n x d e).state h1, fun hu => ?_⟩
      rw [((frame_closedNocache (leq := leq) d e).h s).2] at hu
      exact absurd hu hc
    · rintro s ⟨h1, h2⟩ e' _
      exact (keeps_closedNocache (leq := leq) n x d e).state h1

theorem keeps_closedE (n x : Nat) (d : Dir) (e : Nat) : Keeps (DIC n x) (closedE leq d e) :=
  tr_weaken (tr_closedE n x d e) (fun _ h => h) (fun _ _ h => h.1) (fun _ h => h)

/-- `DIC` together with "on a caching instance the closed entry `(d, e)` is present" -/
def DICp (n x : Nat) (d : Dir) (e : Nat) (s : St α) : Prop :=
  DIC n x s ∧ (s.useCache = true → (alookup e (s.closed d)).isSome = true)

theorem keeps_dicp {β : Type} {n x : Nat} {m : M α β} (hk : Keeps (DIC n x) m) (hp : Pres m) (hf : Frame m)
    (d : Dir) (e : Nat) : Keeps (DICp n x d e) m :=
  keeps_of_state fun s hs => ⟨hk.state hs.1, fun hu => hp.h s d e (hs.2 (by rw [← (hf.h s).2]; exact hu))⟩

theorem tr_directNocache (n x : Nat) (d : Dir) (e : Nat) :
    Tr (DIC n x) (directNocache leq ord d e) (fun _ => DICp n x d e) (DIC n x) := by
  unfold directNocache
  refine tr_bind (R := fun _ => DICp n x d e) (tr_closedE n x d e) fun xs => ?_
  refine tr_weaken (keeps_foldM (I := DICp n x d e) (fun acc y => ?_) xs (ord xs)) (fun _ h => h) (fun _ _ h => h)
    (fun _ h => h.1)
  split
  · exact tr_bind (keeps_dicp (keeps_closedE n x d y) (pres_closedE d y) (frame_closedE d y) d e) fun a =>
      tr_pure _ fun _ h => h
  · exact tr_pure _ fun _ h => h

theorem dic_setDirect_insert {n x : Nat} {s : St α} (h : DIC n x s) (d : Dir) (e : Nat) (r : List Nat)
    (hp : (alookup e (s.closed d)).isSome = true) : DIC n x (s.setDirect d (ainsert e r (s.direct d))) := by
  intro d' k hk hx hpres
  rw [closed_setDirect]
  rw [direct_setDirect_any] at hpres
  split at hpres
  · rename_i hd; subst hd
    rw [alookup_ainsert] at hpres
    split at hpres
    · rename_i hke; subst hke; exact hp
    · exact h d' k hk hx hpres
  · exact h d' k hk hx hpres

/-- `self.children(e)` / `self.parents(e)` keep `DIC` -/
theorem keeps_directE (n x : Nat) (d : Dir) (e : Nat) : Keeps (DIC n x) (directE leq ord d e) := by
  apply keeps_of_state
  intro s hs
  cases hc : s.useCache
  · have : directE leq ord d e s = directNocache leq ord d e s := by
      simp only [directE, bind, M.bind, M.get, hc, Bool.false_eq_true, ↓reduceIte]
    rw [this]
    cases hr : (directNocache leq ord d e s).2 with
    | ok b => exact ((tr_directNocache (leq := leq) (ord := ord) n x d e).ok hs hr).1
    | error er => exact (tr_directNocache (leq := leq) (ord := ord) n x d e).err hs hr
  · cases hl : alookup e (s.direct d) with
    | some r =>
      have : directE leq ord d e s = (s, .ok r) := by
        simp only [directE, bind, M.bind, M.get, hc, ↓reduceIte, hl]; rfl
      rw [this]; exact hs
    | none =>
      have hfr := (frame_directNocache (leq := leq) (ord := ord) d e).h s
      cases hr : directNocache leq ord d e s with
      | mk s1 r1 =>
        rw [hr] at hfr
        cases r1 with
        | error er =>
          have : directE leq ord d e s = (s1, .error er) := by
            simp only [directE, bind, M.bind, M.get, hc, ↓reduceIte, hl, hr]
          rw [this]
          have := (tr_directNocache (leq := leq) (ord := ord) n x d e).err hs (e := er) (by rw [hr])
          rw [hr] at this; exact this
        | ok r =>
          have : directE leq ord d e s = (s1.setDirect d (ainsert e r (s1.direct d)), .ok r) := by
            simp only [directE, bind, M.bind, M.get, hc, ↓reduceIte, hl, hr, M.modify]; rfl
          rw [this]
          have hp := (tr_directNocache (leq := leq) (ord := ord) n x d e).ok hs (b := r) (by rw [hr])
          rw [hr] at hp
          exact dic_setDirect_insert hp.1 d e r (hp.2 (by rw [hfr.2]; exact hc))

theorem keeps_extremesE (n x : Nat) (d : Dir) : Keeps (DIC n x) (extremesE leq d) := by
  unfold extremesE
  exact keeps_get_bind fun s => keeps_filterM (fun i => tr_bind (keeps_closedE n x d i) fun a =>
    tr_pure _ fun _ h => h) _

theorem keeps_boundE (n x : Nat) (d : Dir) (S : List Nat) : Keeps (DIC n x) (boundE leq ord d S) := by
  unfold boundE
  refine keeps_get_bind fun s => ?_
  dsimp only
  split
  · exact tr_throw _ fun _ h => h
  · exact tr_bind (keeps_closedE (leq := leq) n x d _) fun a0 =>
      tr_bind (keeps_foldM (fun acc y => tr_bind (keeps_closedE n x d y) fun a => tr_pure _ fun _ h => h) _ _) fun j1 =>
      tr_bind (keeps_foldM (fun acc y => tr_bind (keeps_closedE n x d y) fun a => tr_pure _ fun _ h => h) _ _) fun j2 =>
      tr_pure _ fun _ h => h

theorem keeps_indexE (n x : Nat) (e : α) : Keeps (DIC n x) (indexE e : M α Nat) := by
  unfold indexE
  refine keeps_get_bind fun s => ?_
  split
  · exact tr_pure _ fun _ h => h
  · exact tr_throw _ fun _ h => h

theorem keeps_eqLoop (n x : Nat) (O : List α) (l : List Nat) : Keeps (DIC n x) (eqLoop leq O l) := by
  induction l with
  | nil => exact tr_pure _ fun _ h => h
  | cons i is ih =>
    unfold eqLoop
    refine keeps_get_bind fun s => tr_bind (keeps_closedE n x .desc i) fun mine => ?_
    split
    · exact tr_throw _ fun _ h => h
    · split
      · exact tr_throw _ fun _ h => h
      · split
        · exact ih
        · exact tr_pure _ fun _ h => h

theorem keeps_eqE (n x : Nat) (O : List α) : Keeps (DIC n x) (eqE leq O) := by
  unfold eqE
  refine keeps_get_bind fun s => ?_
  split
  · exact keeps_eqLoop n x O _
  · exact tr_pure _ fun _ h => h

theorem keeps_fillLeq (n x : Nat) : Keeps (DIC n x) (fillLeq leq : M α Unit) := by
  unfold fillLeq
  refine keeps_get_bind fun s => keeps_forM (fun i => keeps_forM (fun j => ?_) _) _
  refine keeps_get_bind fun s => ?_
  split
  · exact tr_pure _ fun _ h => h
  · exact tr_bind (keeps_leqE n x i j) fun _ => tr_pure _ fun _ h => h

theorem keeps_fillClosed (n x : Nat) (d : Dir) : Keeps (DIC n x) (fillClosed leq d : M α Unit) := by
  unfold fillClosed
  exact keeps_get_bind fun s => keeps_forM (fun i => tr_bind (keeps_closedE n x d i) fun _ =>
    tr_pure _ fun _ h => h) _

theorem keeps_fillDirect (n x : Nat) (d : Dir) : Keeps (DIC n x) (fillDirect leq ord d : M α Unit) := by
  unfold fillDirect
  exact keeps_get_bind fun s => keeps_forM (fun i => tr_bind (keeps_directE n x d i) fun _ =>
    tr_pure _ fun _ h => h) _

theorem keeps_fillE (n x : Nat) (k : FillKind) : Keeps (DIC n x) (fillE leq ord k : M α Unit) := by
  unfold fillE
  refine keeps_get_bind fun s => ?_
  split
  · cases k
    · exact keeps_fillLeq n x
    · exact keeps_fillClosed n x _
    · exact keeps_fillClosed n x _
    · exact keeps_fillDirect n x _
    · exact keeps_fillDirect n x _
    · exact tr_bind (keeps_fillLeq n x) fun _ => tr_bind (keeps_fillClosed n x _) fun _ =>
        tr_bind (keeps_fillClosed n x _) fun _ => tr_bind (keeps_fillDirect n x _) fun _ => keeps_fillDirect n x _
  · exact tr_throw _ fun _ h => h

theorem step_query_dic (n x : Nat) (s : St α) (o : Op α) (ho : isMutation o = false) (h : DIC n x s) :
    DIC n x (step leq ord s o).1 := by
  cases o with
  | leq i j => exact (keeps_leqE (leq := leq) n x i j).state h
  | closed d' i => exact (keeps_closedE (leq := leq) n x d' i).state h
  | direct d' i => exact (keeps_directE (leq := leq) (ord := ord) n x d' i).state h
  | extremes d' => exact (keeps_extremesE (leq := leq) n x d').state h
  | bound d' S => exact (keeps_boundE (leq := leq) (ord := ord) n x d' S).state h
  | index e => exact (keeps_indexE n x e).state h
  | add e f => cases ho
  | del i => cases ho
  | remove e => cases ho
  | eqOther O => exact (keeps_eqE (leq := leq) n x O).state h
  | fillUp k' => exact (keeps_fillE (leq := leq) (ord := ord) n x k').state h

/-! ### the loops of `add` -/

theorem tr_lookup {P Qerr : St α → Prop} (k : Nat) (c : Cache) (h : ∀ s, P s → Qerr s) :
    Tr P (lookupOrKeyError k c : M α (List Nat)) (fun _ => P) Qerr := by
  unfold lookupOrKeyError
  split
  · exact tr_pure _ fun _ hs => hs
  · exact tr_throw _ h

theorem keeps_traceLoop (n x : Nat) (d : Dir) (e : α) (fuel : Nat) (tv tr fi : List Nat) :
    Keeps (DIC n x) (traceLoop leq ord d e fuel tv tr fi) := by
  induction fuel generalizing tv tr fi with
  | zero => unfold traceLoop; exact tr_throw _ fun _ h => h
  | succ m ih =>
    unfold traceLoop
    split
    · exact tr_pure _ fun _ h => h
    · refine tr_bind (keeps_directE n x _ _) fun nx => keeps_get_bind fun s =>
        tr_bind (tr_ofExcept _ (fun _ _ _ h => h) (fun _ h => h)) fun nxt => ?_
      split
      · exact ih _ _ _
      · exact ih _ _ _

/-- `DIC` together with "the closed entry `(d, e)` is present" -/
def DICq (n x : Nat) (d : Dir) (e : Nat) (s : St α) : Prop :=
  DIC n x s ∧ (alookup e (s.closed d)).isSome = true

theorem dicq_leqC {n x : Nat} {d : Dir} {e : Nat} {s : St α} (h : DICq n x d e s) (k : Nat × Nat) (b : Bool) :
    DICq n x d e ({ s with leqC := ainsert k b s.leqC } : St α) :=
  ⟨dic_of_same_direct h.1 (fun d k h => by cases d <;> exact h) (fun d k h => by cases d <;> exact h),
    by cases d <;> exact h.2⟩

theorem keeps_addPatchSide (n x : Nat) (d : Dir) (m i : Nat) : Keeps (DIC n x) (addPatchSide d m i : M α Unit) := by
  unfold addPatchSide
  refine keeps_get_bind fun s0 => ?_
  refine tr_bind (tr_lookup _ _ fun _ h => h) fun cur => ?_
  refine tr_bind (R := fun _ => DICq n x d.flip i) (tr_modify _ fun s hs => ⟨dic_insertClosed hs _ _ _, ?_⟩) fun _ => ?_
  · rw [closed_setClosed, alookup_ainsert, if_pos rfl]; rfl
  refine tr_bind (R := fun _ => DICq n x d.flip i) (tr_modify _ fun s hs => dicq_leqC hs _ _) fun _ => ?_
  refine tr_bind (R := fun _ => DICq n x d.flip i) (tr_modify _ fun s hs => dicq_leqC hs _ _) fun _ => ?_
  refine tr_get fun s1 => ?_
  refine tr_bind (R := fun _ s => DICq n x d.flip i s ∧ s = s1) (tr_lookup _ _ fun _ h => h.1.1) fun dirNew => ?_
  split
  · refine tr_bind (R := fun _ s => DICq n x d.flip i s ∧ s = s1) (tr_lookup _ _ fun _ h => h.1.1) fun curDir => ?_
    refine tr_bind (R := fun _ s => DICq n x d.flip i s ∧ s = s1) (tr_lookup _ _ fun _ h => h.1.1) fun cloNew => ?_
    exact tr_modify _ fun s hs => dic_setDirect_insert hs.1.1 _ _ _ hs.1.2
  · exact tr_pure _ fun _ h => h.1.1

theorem keeps_addPatch (n x : Nat) (m i : Nat) : Keeps (DIC n x) (addPatch m i : M α Unit) := by
  unfold addPatch
  refine keeps_get_bind fun s0 => tr_bind (tr_lookup _ _ fun _ h => h) fun dn => ?_
  split
  · exact keeps_addPatchSide n x _ _ _
  · refine tr_bind (tr_lookup _ _ fun _ h => h) fun an => ?_
    split
    · exact keeps_addPatchSide n x _ _ _
    · have hq : ∀ (k : Nat × Nat) (b : Bool), Keeps (DIC n x)
          (M.modify fun s => { s with leqC := ainsert k b s.leqC } : M α Unit) := fun k b =>
        tr_modify _ fun s hs => dic_of_same_direct hs (fun d k h => by cases d <;> exact h)
          (fun d k h => by cases d <;> exact h)
      exact tr_bind (hq _ _) fun _ => hq _ _

/-! ### `reconnect_relatives`, `__delitem__` -/

theorem dic_setDirect_erase {n x : Nat} {s : St α} (h : DIC n x s) (d : Dir) (p : Nat) :
    DIC n x (s.setDirect d (aerase p (s.direct d))) :=
  dic_of_same_direct h (fun d' k hp => by
    rw [direct_setDirect_any] at hp
    split at hp
    · rename_i hd; subst hd
      rw [alookup_aerase] at hp
      split at hp
      · cases hp
      · exact hp
    · exact hp) (fun d' k hp => by rw [closed_setDirect]; exact hp)

theorem dic_setDirect_insert' {n x : Nat} {s : St α} (h : DIC n x s) (d : Dir) (e : Nat) (r : List Nat)
    (hp : e < n → e ≠ x → (alookup e (s.closed d)).isSome = true) :
    DIC n x (s.setDirect d (ainsert e r (s.direct d))) := by
  intro d' k hk hx hpres
  rw [closed_setDirect]
  rw [direct_setDirect_any] at hpres
  split at hpres
  · rename_i hd; subst hd
    rw [alookup_ainsert] at hpres
    split at hpres
    · rename_i hke; subst hke; exact hp hk hx
    · exact h d' k hk hx hpres
  · exact h d' k hk hx hpres

theorem keeps_reconnectDirect (n x : Nat) (d : Dir) (item : Nat) (own : Option (List Nat)) :
    Keeps (DIC n x) (reconnectDirect ord d item own : M α Unit) := by
  unfold reconnectDirect
  refine keeps_get_bind fun s0 => keeps_forM (fun p => ?_) _
  refine tr_get fun s1 => ?_
  cases hl : alookup p (s1.direct d) with
  | none =>
    have : (lookupOrKeyError p (s1.direct d) : M α (List Nat)) = M.throw .KeyError := by
      unfold lookupOrKeyError; rw [hl]
    rw [this]
    exact tr_bind (R := fun _ _ => False) (tr_throw _ fun _ h => h.1) fun _ => fun _ h => h.elim
  | some cur =>
    have : (lookupOrKeyError p (s1.direct d) : M α (List Nat)) = pure cur := by
      unfold lookupOrKeyError; rw [hl]
    rw [this]
    -- the closed entry of `p` is present (when `p` is a key the invariant speaks about)
    let J : St α → Prop := fun s => DIC n x s ∧ (p < n → p ≠ x → (alookup p (s.closed d)).isSome = true)
    refine tr_bind (R := fun _ => J) (tr_pure _ fun s hs => ⟨hs.1, fun h1 h2 => ?_⟩) fun _ => ?_
    · obtain ⟨hd, he⟩ := hs
      subst he
      exact hd d p h1 h2 (by rw [hl]; rfl)
    split
    · exact tr_modify _ fun s hs => dic_setDirect_erase hs.1 _ _
    · dsimp only
      split
      · refine tr_bind (R := fun _ => J) (tr_weaken (keeps_foldM (I := J) (fun acc c => ?_) _ _)
          (fun _ h => h) (fun _ _ h => h) (fun _ h => h.1)) fun nc' => ?_
        · exact keeps_get_bind fun s2 => tr_bind (tr_lookup _ _ fun _ h => h) fun dc => tr_pure _ fun _ h => h
        · exact tr_modify _ fun s hs => dic_setDirect_insert' hs.1 _ _ _ hs.2
      · exact tr_modify _ fun s hs => dic_setDirect_erase hs.1 _ _

theorem keeps_reconnectClosed (n x : Nat) (d : Dir) (item : Nat) (own : Option (List Nat)) :
    Keeps (DIC n x) (reconnectClosed ord d item own : M α Unit) := by
  unfold reconnectClosed
  refine keeps_forM (fun a => keeps_get_bind fun s => ?_) _
  split
  · exact tr_pure _ fun _ h => h
  · exact tr_modify _ fun s hs => dic_insertClosed hs _ _ _

/-- `reconnect_relatives(item)` keeps the invariant at all keys but `item` (whose four entries it pops) -/
theorem keeps_reconnectRelatives (n : Nat) (item : Nat) :
    Keeps (DIC n item) (reconnectRelatives ord item : M α Unit) := by
  unfold reconnectRelatives
  refine keeps_get_bind fun s0 => ?_
  have hC : ∀ (f : St α → St α), (∀ s d k, k ≠ item → (alookup k (s.closed d)).isSome = true →
        (alookup k ((f s).closed d)).isSome = true) →
      (∀ s d k, (alookup k ((f s).direct d)).isSome = true → (alookup k (s.direct d)).isSome = true) →
      Keeps (DIC n item) (M.modify f : M α Unit) := fun f h1 h2 =>
    tr_modify _ fun s hs => fun d k hk hx hp => h1 s d k hx (hs d k hk hx (h2 s d k hp))
  refine tr_bind (hC _ (fun s d k hk h => ?_) (fun s d k h => by cases d <;> exact h)) fun _ => ?_
  · cases d
    · exact h
    · show (alookup k (aerase item s.ancC)).isSome = true
      rw [alookup_aerase, if_neg hk]; exact h
  refine tr_bind (hC _ (fun s d k hk h => ?_) (fun s d k h => by cases d <;> exact h)) fun _ => ?_
  · cases d
    · show (alookup k (aerase item s.descC)).isSome = true
      rw [alookup_aerase, if_neg hk]; exact h
    · exact h
  refine tr_bind (hC _ (fun s d k hk h => by cases d <;> exact h) (fun s d k h => ?_)) fun _ => ?_
  · cases d
    · exact h
    · have h' : (alookup k (aerase item s.parC)).isSome = true := h
      rw [alookup_aerase] at h'
      split at h'
      · cases h'
      · exact h'
  refine tr_bind (hC _ (fun s d k hk h => by cases d <;> exact h) (fun s d k h => ?_)) fun _ => ?_
  · cases d
    · have h' : (alookup k (aerase item s.chilC)).isSome = true := h
      rw [alookup_aerase] at h'
      split at h'
      · cases h'
      · exact h'
    · exact h
  exact tr_bind (keeps_reconnectDirect n item _ _ _) fun _ => tr_bind (keeps_reconnectDirect n item _ _ _)
    fun _ => tr_bind (keeps_reconnectClosed n item _ _ _) fun _ => keeps_reconnectClosed n item _ _ _

theorem isSome_of_decrementCache {c : Cache} {k j' : Nat} (h : (alookup j' (decrementCache c k)).isSome = true) :
    ∃ j, j ≠ k ∧ decrIdx j k = j' ∧ (alookup j c).isSome = true := by
  obtain ⟨v', hv'⟩ := Option.isSome_iff_exists.mp h
  obtain ⟨j, v, hj, hd, hl, _⟩ := alookup_decrementCache hv'
  exact ⟨j, hj, hd, by rw [hl]; rfl⟩

/-- `del self[k]` on a caching instance keeps `DIC` (for the shortened list) when it returns -/
theorem delE_dic {k n : Nat} {s : St α} (hkn : k < n) (hk : k < s.elems.length) (hc : s.useCache = true)
    (hok : (delE ord k s).2 = .ok ()) (h : DIC n n s) : DIC (n - 1) (n - 1) (delE ord k s).1 := by
  have h0 : DIC n k ({ s with elems := s.elems.eraseIdx k } : St α) :=
    fun d j hj hx hp => h d j hj (by omega) (by cases d <;> exact hp) |> fun r => by cases d <;> exact r
  have hrec := (keeps_reconnectRelatives (α := α) (ord := ord) n k)
  have hd : delE ord k s = (reconnectRelatives ord k >>= fun _ => (M.modify fun s => { s with
        leqC := decrementLeq s.leqC k, descC := decrementCache s.descC k, ancC := decrementCache s.ancC k,
        chilC := decrementCache s.chilC k, parC := decrementCache s.parC k } : M α Unit))
        { s with elems := s.elems.eraseIdx k } := by
    simp only [delE, bind, M.bind, M.get, M.modify, hk, hc, ↓reduceIte]
  rw [hd] at hok ⊢
  change (M.bind _ _ _).2 = _ at hok
  show DIC (n - 1) (n - 1) (M.bind _ _ _).1
  unfold M.bind at hok ⊢
  cases hr : reconnectRelatives ord k { s with elems := s.elems.eraseIdx k } with
  | mk s' r =>
    rw [hr] at hok
    cases r with
    | error e => simp at hok
    | ok u =>
      have h1 : DIC n k s' := by
        have := hrec.ok h0 (b := u) (by rw [hr])
        rw [hr] at this; exact this
      simp only [M.modify]
      intro d j' hj' _ hp
      have hp' : (alookup j' (decrementCache (s'.direct d) k)).isSome = true := by cases d <;> exact hp
      obtain ⟨j, hjk, hdj, hpj⟩ := isSome_of_decrementCache hp'
      have hjn : j < n := by
        unfold decrIdx at hdj
        split at hdj <;> omega
      have := isSome_decrementCache hjk (h1 d j hjn hjk hpj)
      rw [hdj] at this
      cases d <;> exact this

end
end Fca.Poset

/-
  Lemmas/PosetAdd7 — `add(e, fill_up_cache=True)` on a caching instance establishes the invariant for
  `E ++ [e]`.
-/
import Fca.Lemmas.PosetAdd6
set_option linter.unusedSectionVars false
namespace Fca.Poset
open Fca Fca.Poset.Fresh

section
variable {α : Type} [DecidableEq α] {leq : α → α → Bool} {ord : List Nat → List Nat}
variable {E : List α} {G : Ghost} {c : Bool}

/-! ### writing entries at keys outside the valid range (the entries of the element being added) -/

def Ghost.setLeqX (G : Ghost) (p : Nat × Nat) (r : Bool) : Ghost :=
  { G with leqX := fun q => if q = p then some r else G.leqX q }
def Ghost.setClosedX (G : Ghost) (d : Dir) (k : Nat) (v : List Nat) : Ghost :=
  { G with closedX := fun d' k' => if d' = d ∧ k' = k then some v else G.closedX d' k' }
def Ghost.setDirectX (G : Ghost) (d : Dir) (k : Nat) (v : List Nat) : Ghost :=
  { G with directX := fun d' k' => if d' = d ∧ k' = k then some v else G.directX d' k' }

theorem InvB.insertLeqOut {s : St α} (h : InvB leq E G c s) {a b : Nat} (r : Bool)
    (hab : ¬(a < E.length ∧ b < E.length)) :
    InvB leq E (G.setLeqX (a, b) r) c { s with leqC := ainsert (a, b) r s.leqC } := by
  refine ⟨h.elems, h.flag, ?_, ?_, h.closedIn, h.closedOut, h.directIn, h.directOut, h.closedPres, h.directPres⟩
  · intro hct a' b' r' ha' hb' hl
    simp only [alookup_ainsert] at hl
    split at hl
    · rename_i e; cases e; exact absurd ⟨ha', hb'⟩ hab
    · exact h.leqIn hct a' b' r' ha' hb' hl
  · intro hct a' b' hout
    simp only [alookup_ainsert, Ghost.setLeqX]
    split
    · rfl
    · exact h.leqOut hct a' b' hout

theorem InvB.insertClosedOut {s : St α} (h : InvB leq E G c s) (d : Dir) {k : Nat} (v : List Nat)
    (hk : ¬ k < E.length) :
    InvB leq E (G.setClosedX d k v) c (s.setClosed d (ainsert k v (s.closed d))) := by
  refine ⟨by simpa [Ghost.setClosedX] using h.elems, by simpa [Ghost.setClosedX] using h.flag, by simpa [Ghost.setClosedX] using h.leqIn, by simpa [Ghost.setClosedX] using h.leqOut,
    ?_, ?_, by simpa [Ghost.setClosedX] using h.directIn, by simpa [Ghost.setClosedX] using h.directOut, ?_, by simpa [Ghost.setClosedX] using h.directPres⟩
  · intro hct d' k' v' hk' hl
    rw [closed_setClosed_any] at hl
    split at hl
    · rename_i e; subst e
      rw [alookup_ainsert] at hl
      split at hl
      · rename_i e; subst e; exact absurd hk' hk
      · exact h.closedIn hct _ _ _ hk' hl
    · exact h.closedIn hct _ _ _ hk' hl
  · intro hct d' k' hk'
    rw [closed_setClosed_any]
    simp only [Ghost.setClosedX]
    split
    · rename_i e; subst e
      rw [alookup_ainsert]
      split
      · rename_i e; subst e; simp
      · rename_i e; simp only [e, and_false, ↓reduceIte]; exact h.closedOut hct _ _ hk'
    · rename_i e; simp only [e, false_and, ↓reduceIte]; exact h.closedOut hct _ _ hk'
  · intro hct d' k' hp
    rw [closed_setClosed_any]
    split
    · rename_i e; subst e
      rw [alookup_ainsert]
      split
      · rfl
      · exact h.closedPres hct _ _ hp
    · exact h.closedPres hct _ _ hp

theorem InvB.insertDirectOut {s : St α} (h : InvB leq E G c s) (d : Dir) {k : Nat} (v : List Nat)
    (hk : ¬ k < E.length) :
    InvB leq E (G.setDirectX d k v) c (s.setDirect d (ainsert k v (s.direct d))) := by
  refine ⟨by simpa [Ghost.setDirectX] using h.elems, by simpa [Ghost.setDirectX] using h.flag, by simpa [Ghost.setDirectX] using h.leqIn, by simpa [Ghost.setDirectX] using h.leqOut,
    by simpa [Ghost.setDirectX] using h.closedIn, by simpa [Ghost.setDirectX] using h.closedOut, ?_, ?_, by simpa [Ghost.setDirectX] using h.closedPres, ?_⟩
  · intro hct d' k' v' hk' hl
    rw [direct_setDirect_any] at hl
    split at hl
    · rename_i e; subst e
      rw [alookup_ainsert] at hl
      split at hl
      · rename_i e; subst e; exact absurd hk' hk
      · exact h.directIn hct _ _ _ hk' hl
    · exact h.directIn hct _ _ _ hk' hl
  · intro hct d' k' hk'
    rw [direct_setDirect_any]
    simp only [Ghost.setDirectX]
    split
    · rename_i e; subst e
      rw [alookup_ainsert]
      split
      · rename_i e; subst e; simp
      · rename_i e; simp only [e, and_false, ↓reduceIte]; exact h.directOut hct _ _ hk'
    · rename_i e; simp only [e, false_and, ↓reduceIte]; exact h.directOut hct _ _ hk'
  · intro hct d' k' hp
    rw [direct_setDirect_any]
    split
    · rename_i e; subst e
      rw [alookup_ainsert]
      split
      · rfl
      · exact h.directPres hct _ _ hp
    · exact h.directPres hct _ _ hp

/-! ### the whole operation -/

theorem addE_fill_spec {e : α} (hpo : IdxPO leq E) (hpo' : IdxPO leq (E ++ [e]))
    (hord : ∀ l, (ord l).Perm l) {s : St α} (h : InvB leq E Ghost.none true s) (he : e ∉ E) :
    Sat (addE leq ord e true) s (fun s' _ => InvB leq (E ++ [e]) Ghost.none true s') := by
  have hnn : ¬(E.length < E.length ∧ E.length < E.length) := fun hh => Nat.lt_irrefl _ hh.1
  have hn : ¬ E.length < E.length := Nat.lt_irrefl _
  unfold addE
  apply sat_bind; apply sat_get
  rw [h.elems, if_neg he, h.flag]
  simp only [↓reduceIte]
  · -- the cache filling part
    apply sat_bind; apply sat_modify
    have h1 := h.insertLeqOut true hnn
    -- trace up
    apply sat_bind
    apply sat_mono (traceElement_spec hpo hord (downSet_cmpB hpo' .desc) h1)
    rintro s2 ⟨ch, de⟩ ⟨hb1, h2⟩
    obtain ⟨hde, hch⟩ := trace_result hpo' hpo hb1
    simp only at h2 ⊢
    apply sat_bind; apply sat_modify
    apply sat_bind; apply sat_modify
    have h3 := (h2.insertDirectOut .desc ch hn).insertClosedOut .desc de hn
    -- trace down
    apply sat_bind
    apply sat_mono (traceElement_spec hpo hord (downSet_cmpB hpo' .anc) h3)
    rintro s4 ⟨pa, an⟩ ⟨hb2, h4⟩
    obtain ⟨han, hpa⟩ := trace_result hpo' hpo hb2
    simp only at h4 ⊢
    apply sat_bind; apply sat_modify
    apply sat_bind; apply sat_modify
    have h5 := (h4.insertDirectOut .anc pa hn).insertClosedOut .anc an hn
    -- the loop
    have hcl : ∀ d, (Dir.casesOn (motive := fun _ => List Nat) d de an).Nodup ∧
        ∀ x, x ∈ (Dir.casesOn (motive := fun _ => List Nat) d de an) ↔
          ltD leq d (E ++ [e]) x E.length = true := by
      intro d; cases d
      · exact hde
      · exact han
    have hdr : ∀ d, (Dir.casesOn (motive := fun _ => List Nat) d ch pa).Nodup ∧
        ∀ x, x ∈ (Dir.casesOn (motive := fun _ => List Nat) d ch pa) ↔
          isCover leq d (E ++ [e]) x E.length = true := by
      intro d; cases d
      · exact hch
      · exact hpa
    have hP := patchInv_init (cl := fun d => Dir.casesOn (motive := fun _ => List Nat) d de an)
      (dr := fun d => Dir.casesOn (motive := fun _ => List Nat) d ch pa) hpo' h5 hcl hdr
      (by
        intro p
        simp only [Ghost.setClosedX, Ghost.setDirectX, Ghost.addClosedP, Ghost.addDirectP, Ghost.setLeqX,
          Ghost.none])
      (by
        intro d k
        simp only [Ghost.setClosedX, Ghost.setDirectX, Ghost.addClosedP, Ghost.addDirectP, Ghost.setLeqX,
          Ghost.none]
        cases d <;> by_cases hk : k = E.length <;> simp [hk])
      (by
        intro d k
        simp only [Ghost.setClosedX, Ghost.setDirectX, Ghost.addClosedP, Ghost.addDirectP, Ghost.setLeqX,
          Ghost.none]
        cases d <;> by_cases hk : k = E.length <;> simp [hk])
      (by
        intro d k hk
        simp only [Ghost.setClosedX, Ghost.setDirectX, Ghost.addClosedP, Ghost.addDirectP, Ghost.setLeqX,
          Ghost.none]
        cases d <;> simp [hk])
      (by
        intro d k hk
        simp only [Ghost.setClosedX, Ghost.setDirectX, Ghost.addClosedP, Ghost.addDirectP, Ghost.setLeqX,
          Ghost.none]
        cases d <;> simp [Dir.flip] <;> exact hk)
    apply sat_bind
    apply sat_mono (addPatchLoop_spec hpo' hcl hdr hP)
    -- `self._elements.append(element)`
    intro s6 _ h6
    apply sat_modify
    exact patchInv_final h6

end
end Fca.Poset

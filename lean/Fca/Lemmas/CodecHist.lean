/-
  Fca.Lemmas.CodecHist — histories on ONE context between two writes.

  The writers of FCApy read the content of the context when they are called (`self.object_names`,
  `self.data`, `[ps.data for ps in self.pattern_structures]`, …): there is no state besides the content.
  The model has the same shape, so "written after any history of public mutations" is "written from the
  current content".  This file defines the public mutation routes as steps on the model's contexts and shows
  that each keeps the well-formedness the round-trip theorems need.
-/
import Fca.Model.CodecMV
import Fca.Lemmas.CodecMVCxt
namespace Fca.Codec

/-! ### many-valued contexts -/

/-- apply `f` to the `j`-th pattern structure (`K.pattern_structures[j]…`); out of range: nothing happens here
    (Python raises `IndexError` before anything is changed) -/
def modCol (f : PCol → PCol) : Nat → List PCol → List PCol
  | _, [] => []
  | 0, c :: cs => f c :: cs
  | j + 1, c :: cs => c :: modCol f j cs

/-- the public routes that change the content of an `MVContext` (values in the form the class stores them,
    i.e. after `_transform_data`) -/
inductive MVStep where
  /-- `K.pattern_structures[j].data = col`; also `K.pattern_structures[j] = cls(col, name=…)` and
      `K.pattern_structures = [… the same with column j replaced …]` -/
  | setCol (j : Nat) (col : List PVal)
  /-- `K.pattern_structures[j].data[i] = v` (in place) -/
  | setCell (j i : Nat) (v : PVal)
  /-- `K.object_names = names`, `K.object_names[i] = name` -/
  | setObjs (names : List Str)
  /-- `K.description = d` -/
  | setDescr (d : Option Str)
  /-- `K.attribute_names = names` (a list): since the repair 94822bb the setter also renames the pattern
      structures (`ps._name = name`, pairwise) and rebuilds `_pattern_types` -/
  | setAttrs (names : List Str)

/-- `for ps, name in zip(pattern_structures, value): ps._name = name` -/
def renameCols : List PCol → List Str → List PCol
  | c :: cs, n :: ns => { c with name := n } :: renameCols cs ns
  | cs, _ => cs

def MVCxt.step (K : MVCxt) : MVStep → MVCxt
  | .setCol j col => { K with cols := modCol (fun c => { c with data := col }) j K.cols }
  | .setCell j i v => { K with cols := modCol (fun c => { c with data := c.data.set i v }) j K.cols }
  | .setObjs ns => { K with objs := ns }
  | .setDescr d => { K with descr := d }
  | .setAttrs ns =>
    { K with attrs := ns, cols := if K.cols.length = ns.length then renameCols K.cols ns else K.cols }

/-- what the setters assert / what the caller owes: a new column has the old length and holds descriptions of
    the column's class; names keep their number -/
def MVStepOk (K : MVCxt) : MVStep → Prop
  | .setCol j col => ∀ c, K.cols[j]? = some c →
      col.length = K.objs.length ∧ ∀ v ∈ col, Fits c.ptype v ∧ v ≠ .none_
  | .setCell j _ v => ∀ c, K.cols[j]? = some c → Fits c.ptype v ∧ v ≠ .none_
  | .setObjs ns => ns.length = K.objs.length
  | .setDescr _ => True
  -- the setter asserts `len(value) == n_attributes`; distinct names are the caller's duty (as at construction)
  | .setAttrs ns => ns.length = K.attrs.length ∧ ns.Nodup

/-- the content after a history -/
def MVCxt.run (K : MVCxt) (steps : List MVStep) : MVCxt := steps.foldl MVCxt.step K

/-- every step of the history is legal in the state it is applied to -/
def MVStepsOk : MVCxt → List MVStep → Prop
  | _, [] => True
  | K, s :: ss => MVStepOk K s ∧ MVStepsOk (K.step s) ss

theorem modCol_map_name (f : PCol → PCol) (hf : ∀ c, (f c).name = c.name) :
    ∀ (j : Nat) (cs : List PCol), (modCol f j cs).map (·.name) = cs.map (·.name)
  | _, [] => by simp [modCol]
  | 0, c :: cs => by simp [modCol, hf]
  | j + 1, c :: cs => by simp [modCol, modCol_map_name f hf j cs]

theorem modCol_ne_nil (f : PCol → PCol) : ∀ (j : Nat) (cs : List PCol), cs ≠ [] → modCol f j cs ≠ []
  | _, [], h => absurd rfl h
  | 0, _ :: _, _ => by simp [modCol]
  | _ + 1, _ :: _, _ => by simp [modCol]

/-- a member of the modified list is an old member or the image of the `j`-th one -/
theorem mem_modCol (f : PCol → PCol) : ∀ (j : Nat) (cs : List PCol) (c' : PCol), c' ∈ modCol f j cs →
    c' ∈ cs ∨ ∃ c, cs[j]? = some c ∧ c' = f c
  | _, [], _, h => by simp [modCol] at h
  | 0, c :: cs, c', h => by
    simp only [modCol, List.mem_cons] at h
    rcases h with rfl | h
    · exact .inr ⟨c, rfl, rfl⟩
    · exact .inl (List.mem_cons_of_mem _ h)
  | j + 1, c :: cs, c', h => by
    simp only [modCol, List.mem_cons] at h
    rcases h with rfl | h
    · exact .inl (by simp)
    · rcases mem_modCol f j cs c' h with h | ⟨c0, h0, rfl⟩
      · exact .inl (List.mem_cons_of_mem _ h)
      · exact .inr ⟨c0, by simpa using h0, rfl⟩

theorem mem_of_getElem?_some {α : Type} (l : List α) (j : Nat) (x : α) (h : l[j]? = some x) : x ∈ l := by
  obtain ⟨hj, rfl⟩ := List.getElem?_eq_some_iff.mp h
  exact List.getElem_mem hj

theorem renameCols_map_name : ∀ (cs : List PCol) (ns : List Str), cs.length = ns.length →
    (renameCols cs ns).map (·.name) = ns
  | [], [], _ => rfl
  | [], _ :: _, h => by simp at h
  | _ :: _, [], h => by simp at h
  | c :: cs, n :: ns, h => by
    simp only [renameCols, List.map_cons]
    rw [renameCols_map_name cs ns (by simpa using h)]

/-- a renamed structure keeps class and column of an old one -/
theorem mem_renameCols : ∀ (cs : List PCol) (ns : List Str) (c' : PCol), c' ∈ renameCols cs ns →
    ∃ c ∈ cs, c'.ptype = c.ptype ∧ c'.data = c.data
  | [], ns, c', h => by cases ns <;> simp [renameCols] at h
  | c :: cs, [], c', h => ⟨c', by simpa [renameCols] using h, rfl, rfl⟩
  | c :: cs, n :: ns, c', h => by
    simp only [renameCols, List.mem_cons] at h
    rcases h with rfl | h
    · exact ⟨c, by simp, rfl, rfl⟩
    · obtain ⟨c0, hc0, h1, h2⟩ := mem_renameCols cs ns c' h
      exact ⟨c0, List.mem_cons_of_mem _ hc0, h1, h2⟩

theorem renameCols_map_ptype : ∀ (cs : List PCol) (ns : List Str),
    (renameCols cs ns).map (·.ptype) = cs.map (·.ptype)
  | [], ns => by cases ns <;> rfl
  | _ :: _, [] => rfl
  | c :: cs, n :: ns => by simp [renameCols, renameCols_map_ptype cs ns]

theorem renameCols_map_data : ∀ (cs : List PCol) (ns : List Str),
    (renameCols cs ns).map (·.data) = cs.map (·.data)
  | [], ns => by cases ns <;> rfl
  | _ :: _, [] => rfl
  | c :: cs, n :: ns => by simp [renameCols, renameCols_map_data cs ns]

theorem renameCols_ne_nil (cs : List PCol) (ns : List Str) (h : cs ≠ []) : renameCols cs ns ≠ [] := by
  cases cs with
  | nil => exact absurd rfl h
  | cons c cs => cases ns <;> simp [renameCols]

/-- a legal step keeps the context well formed -/
theorem mvok_step (K : MVCxt) (s : MVStep) (h : MVOk K) (hs : MVStepOk K s) : MVOk (K.step s) := by
  cases s with
  | setCol j col =>
    refine ⟨?_, h.nodup, h.objs_ne, modCol_ne_nil _ j K.cols h.cols_ne, ?_, ?_⟩
    · exact (modCol_map_name (fun c => { c with data := col }) (fun _ => rfl) j K.cols).trans h.names
    · intro c' hc'
      rcases mem_modCol _ j K.cols c' hc' with hm | ⟨c, hc, rfl⟩
      · exact h.len c' hm
      · exact (hs c hc).1
    · intro c' hc' v hv
      rcases mem_modCol _ j K.cols c' hc' with hm | ⟨c, hc, rfl⟩
      · exact h.fits c' hm v hv
      · exact (hs c hc).2 v hv
  | setCell j i v =>
    refine ⟨?_, h.nodup, h.objs_ne, modCol_ne_nil _ j K.cols h.cols_ne, ?_, ?_⟩
    · exact (modCol_map_name (fun c => { c with data := c.data.set i v }) (fun _ => rfl) j K.cols).trans h.names
    · intro c' hc'
      rcases mem_modCol _ j K.cols c' hc' with hm | ⟨c, hc, rfl⟩
      · exact h.len c' hm
      · show (c.data.set i v).length = K.objs.length
        rw [List.length_set]; exact h.len c (mem_of_getElem?_some _ _ _ hc)
    · intro c' hc' w hw
      rcases mem_modCol _ j K.cols c' hc' with hm | ⟨c, hc, rfl⟩
      · exact h.fits c' hm w hw
      · have hw' : w ∈ c.data.set i v := hw
        rcases List.mem_or_eq_of_mem_set hw' with hold | rfl
        · exact h.fits c (mem_of_getElem?_some _ _ _ hc) w hold
        · exact hs c hc
  | setObjs ns =>
    have hlen : ns.length = K.objs.length := hs
    refine ⟨h.names, h.nodup, ?_, h.cols_ne, ?_, h.fits⟩
    · intro hnil
      have : K.objs.length = 0 := by rw [← hlen, show ns = [] from hnil]; rfl
      exact h.objs_ne (List.eq_nil_of_length_eq_zero this)
    · intro c hc
      show c.data.length = ns.length
      rw [hlen]; exact h.len c hc
  | setDescr d => exact ⟨h.names, h.nodup, h.objs_ne, h.cols_ne, h.len, h.fits⟩
  | setAttrs ns =>
    have hs' : ns.length = K.attrs.length ∧ ns.Nodup := hs
    have hlen : K.cols.length = ns.length := by
      have := congrArg List.length h.names
      simp only [List.length_map] at this
      rw [this, hs'.1]
    have hstep : K.step (.setAttrs ns) = { K with attrs := ns, cols := renameCols K.cols ns } := by
      simp only [MVCxt.step, if_pos hlen]
    rw [hstep]
    refine ⟨renameCols_map_name K.cols ns hlen, hs'.2, h.objs_ne, renameCols_ne_nil K.cols ns h.cols_ne, ?_, ?_⟩
    · intro c' hc'
      obtain ⟨c, hc, _, hd⟩ := mem_renameCols K.cols ns c' hc'
      show c'.data.length = K.objs.length
      rw [hd]; exact h.len c hc
    · intro c' hc' v hv
      obtain ⟨c, hc, ht, hd⟩ := mem_renameCols K.cols ns c' hc'
      rw [ht]
      exact h.fits c hc v (by rw [← hd]; exact hv)

/-- … and so does a whole history -/
theorem mvok_run : ∀ (steps : List MVStep) (K : MVCxt), MVOk K → MVStepsOk K steps → MVOk (K.run steps)
  | [], _, h, _ => h
  | s :: ss, K, h, hs => by
    show MVOk ((K.step s).run ss)
    exact mvok_run ss (K.step s) (mvok_step K s h hs.1) hs.2

/-! ### formal contexts -/

/-- the public routes that change the content of a `FormalContext` -/
inductive CxtStep where
  /-- `K.object_names = names` -/
  | setObjs (names : List Str)
  /-- `K.attribute_names = names` -/
  | setAttrs (names : List Str)
  /-- `K.data.data = rows` (the table's public setter; same shape) -/
  | setRows (rows : List (List Bool))
  /-- `K.description = d` -/
  | setDescr (d : Option Str)

def Cxt.step (K : Cxt) : CxtStep → Cxt
  | .setObjs ns => { K with objs := ns }
  | .setAttrs ns => { K with attrs := ns }
  | .setRows rows => { K with rows := rows }
  | .setDescr d => { K with descr := d }

/-- what the setters assert: as many names as rows / columns; a new table of the old shape -/
def CxtStepOk (K : Cxt) : CxtStep → Prop
  | .setObjs ns => ns.length = K.rows.length
  | .setAttrs ns => ns.length = K.attrs.length
  | .setRows rows => rows.length = K.rows.length ∧ ∀ r ∈ rows, r.length = K.attrs.length
  | .setDescr _ => True

def Cxt.run (K : Cxt) (steps : List CxtStep) : Cxt := steps.foldl Cxt.step K

def CxtStepsOk : Cxt → List CxtStep → Prop
  | _, [] => True
  | K, s :: ss => CxtStepOk K s ∧ CxtStepsOk (K.step s) ss

theorem cxt_step_wf (K : Cxt) (s : CxtStep) (h : K.WF) (hn : K.rows ≠ []) (hs : CxtStepOk K s) :
    (K.step s).WF ∧ (K.step s).rows ≠ [] := by
  cases s with
  | setObjs ns => exact ⟨⟨hs, h.2⟩, hn⟩
  | setAttrs ns =>
    have hlen : ns.length = K.attrs.length := hs
    exact ⟨⟨h.1, fun r hr => by show r.length = ns.length; rw [hlen]; exact h.2 r hr⟩, hn⟩
  | setRows rows =>
    have hs' : rows.length = K.rows.length ∧ ∀ r ∈ rows, r.length = K.attrs.length := hs
    refine ⟨⟨?_, hs'.2⟩, ?_⟩
    · show K.objs.length = rows.length
      rw [hs'.1]; exact h.1
    · intro hnil
      have : K.rows.length = 0 := by rw [← hs'.1, show rows = [] from hnil]; rfl
      exact hn (List.eq_nil_of_length_eq_zero this)
  | setDescr d => exact ⟨h, hn⟩

theorem cxt_run_wf : ∀ (steps : List CxtStep) (K : Cxt), K.WF → K.rows ≠ [] → CxtStepsOk K steps →
    (K.run steps).WF ∧ (K.run steps).rows ≠ []
  | [], _, h, hn, _ => ⟨h, hn⟩
  | s :: ss, K, h, hn, hs => by
    have h1 := cxt_step_wf K s h hn hs.1
    show ((K.step s).run ss).WF ∧ ((K.step s).run ss).rows ≠ []
    exact cxt_run_wf ss (K.step s) h1.1 h1.2 hs.2

end Fca.Codec

/-
  Fca.Lemmas.ConstructScan — one call of `iterate_chain`: every exit keeps the shared sets sound,
  records every superconcept lying on the scanned chain, leaves a resume index whose prefix is recorded,
  and makes every recorded upper cover a candidate.
-/
import Fca.Lemmas.ConstructBasic
namespace Fca.Construct
open Fca.Spec

variable {n : Nat} {lt : Nat → Nat → Bool} {rk : Nat → Nat}

/-- static facts about the scanned chain and the current concept -/
structure ScanCtx (n : Nat) (lt : Nat → Nat → Bool) (rk : Nat → Nat) (pos : Nat → Nat) (top : Nat)
    (chain : List Nat) (c : Nat) : Prop where
  so : StrictOrd lt rk
  posOK : ∀ a b, a < n → b < n → lt a b = true → pos b < pos a
  cLt : c < n
  chainLt : ∀ x ∈ chain, x < n
  desc : chain.Pairwise (fun a b => lt b a = true)
  head : chain.head? = some top

/-- loop invariant of `iterate_chain` with `pre` already passed and `rest` ahead;
    `pend` is the element recorded in the previous step that may still have to become a candidate -/
structure AuxInv (n : Nat) (lt : Nat → Nat → Bool) (top : Nat) (chain : List Nat) (c : Nat)
    (pre rest : List Nat) (s : Scan) (pend : Option Nat) : Prop where
  allSound : ∀ x ∈ s.all, x < n ∧ lt c x = true
  supSound : ∀ x ∈ s.sup, x < n ∧ lt c x = true
  supNodup : s.sup.Nodup
  incSound : ∀ x ∈ s.inc, lt c x = false
  topIn : top ∈ s.all
  preIn : ∀ x ∈ pre, x ∈ s.all
  startLe : s.start ≤ chain.length
  startIn : ∀ x ∈ chain.take s.start, x ∈ s.all
  pendOK : ∀ q ∈ s.all, q ∈ upperCoversBy n lt c → q ∈ s.sup ∨ pend = some q
  pendLast : ∀ q, pend = some q → pre.getLast? = some q ∧ rest ≠ []

/-- what a finished scan guarantees (relative to the state `s` it started from) -/
structure AuxRes (n : Nat) (lt : Nat → Nat → Bool) (top : Nat) (chain : List Nat) (c : Nat)
    (s r : Scan) : Prop where
  monoAll : ∀ x ∈ s.all, x ∈ r.all
  monoSup : ∀ x ∈ s.sup, x ∈ r.sup
  monoInc : ∀ x ∈ s.inc, x ∈ r.inc
  allSound : ∀ x ∈ r.all, x < n ∧ lt c x = true
  supSound : ∀ x ∈ r.sup, x < n ∧ lt c x = true
  supNodup : r.sup.Nodup
  incSound : ∀ x ∈ r.inc, lt c x = false
  covIn : ∀ q ∈ r.all, q ∈ upperCoversBy n lt c → q ∈ r.sup
  startLe : r.start ≤ chain.length
  startIn : ∀ x ∈ chain.take r.start, x ∈ r.all
  done : ∀ x ∈ chain, lt c x = true → x ∈ r.all

theorem getD_pre_last (pre rest : List Nat) (q : Nat) (h : pre.getLast? = some q) :
    chainPrev (pre ++ rest) pre.length = q := by
  unfold chainPrev
  have hne : pre ≠ [] := by intro e; subst e; simp at h
  have hpos : 0 < pre.length := List.length_pos_iff.mpr hne
  rw [if_neg (by omega)]
  rw [List.getD_eq_getElem?_getD, List.getElem?_append_left (by omega)]
  rw [List.getLast?_eq_getElem?] at h
  rw [h]; rfl

theorem take_length_append (pre rest : List Nat) : (pre ++ rest).take pre.length = pre := by
  simp

theorem aux_ok {pos : Nat → Nat} {top : Nat} {chain : List Nat} {c : Nat}
    (ctx : ScanCtx n lt rk pos top chain c) :
    ∀ (rest pre : List Nat) (s : Scan) (pend : Option Nat), chain = pre ++ rest →
      AuxInv n lt top chain c pre rest s pend →
      AuxRes n lt top chain c s (iterateChainAux lt pos chain c rest pre.length s) := by
  intro rest
  induction rest with
  | nil =>
    intro pre s pend hch inv
    have hpn : pend = none := by
      cases hp : pend with
      | none => rfl
      | some q => exact absurd rfl (inv.pendLast q hp).2
    unfold iterateChainAux
    refine ⟨fun _ h => h, fun _ h => h, fun _ h => h, inv.allSound, inv.supSound, inv.supNodup,
      inv.incSound, ?_, inv.startLe, inv.startIn, ?_⟩
    · intro q hq hc
      rcases inv.pendOK q hq hc with h | h
      · exact h
      · rw [hpn] at h; cases h
    · intro x hx _
      rw [hch, List.append_nil] at hx
      exact inv.preIn x hx
  | cons cComp rest ih =>
    intro pre s pend hch inv
    have hcCn : cComp < n := ctx.chainLt cComp (by rw [hch]; simp)
    -- everything in `pre` is strictly above `cComp`, everything in `rest` strictly below
    have hdesc := ctx.desc
    rw [hch] at hdesc
    have habove : ∀ x ∈ pre, lt cComp x = true := by
      intro x hx
      exact (List.pairwise_append.mp hdesc).2.2 x hx cComp (List.mem_cons_self ..)
    have hbelow : ∀ y ∈ rest, lt y cComp = true := by
      intro y hy
      exact List.rel_of_pairwise_cons (List.pairwise_append.mp hdesc).2.1 hy
    have hch' : chain = (pre ++ [cComp]) ++ rest := by rw [hch]; simp
    have hlen' : (pre ++ [cComp]).length = pre.length + 1 := by simp
    -- a pending element is above `cComp`, hence no cover once `cComp` is a superconcept
    have hpendNo : lt c cComp = true → ∀ q, pend = some q → q ∉ upperCoversBy n lt c := by
      intro hsup q hq hcov
      have hqpre : q ∈ pre := List.mem_of_getLast? (inv.pendLast q hq).1
      have := (mem_upperCoversBy.mp hcov).2.2 cComp hcCn hsup
      rw [habove q hqpre] at this; cases this
    unfold iterateChainAux
    by_cases hin : s.all.contains cComp = true
    · -- `continue`
      rw [if_pos hin]
      have hin' : cComp ∈ s.all := by simpa using hin
      rw [← hlen']
      apply ih (pre ++ [cComp]) s none hch'
      refine ⟨inv.allSound, inv.supSound, inv.supNodup, inv.incSound, inv.topIn, ?_, inv.startLe,
        inv.startIn, ?_, by simp⟩
      · intro x hx
        rcases List.mem_append.mp hx with hx | hx
        · exact inv.preIn x hx
        · have : x = cComp := by simpa using hx
          subst this; exact hin'
      · intro q hq hcov
        rcases inv.pendOK q hq hcov with h | h
        · exact Or.inl h
        · exact absurd hcov (hpendNo (inv.allSound cComp hin').2 q h)
    · rw [if_neg hin]
      have hnin : cComp ∉ s.all := by simpa using hin
      -- `pre` is not empty: the chain starts with `top`, which is recorded
      have hpre : pre ≠ [] := by
        intro e
        subst e
        have hh := ctx.head
        rw [hch] at hh
        simp at hh
        subst hh
        exact hnin inv.topIn
      simp only
      -- the computed flag is the truth
      generalize hflag : (if s.inc.contains cComp = true then false
          else if decide (pos cComp < pos c) = true then lt c cComp else false) = isSup
      have htruth : isSup = lt c cComp := by
        rw [← hflag]
        by_cases hi : s.inc.contains cComp = true
        · rw [if_pos hi]
          exact (inv.incSound cComp (by simpa using hi)).symm
        · rw [if_neg hi]
          by_cases hp : decide (pos cComp < pos c) = true
          · rw [if_pos hp]
          · rw [if_neg hp]
            symm
            apply Bool.eq_false_iff.mpr
            intro hlt
            have := ctx.posOK c cComp ctx.cLt hcCn hlt
            exact hp (by simpa using this)
      -- the new incomparables are sound
      have hincS : ∀ x ∈ (if (!s.inc.contains cComp && decide (pos cComp < pos c) && !isSup) = true
          then addSet s.inc cComp else s.inc), lt c x = false := by
        intro x hx
        split at hx
        · rename_i hcond
          rcases mem_addSet.mp hx with hx | hx
          · exact inv.incSound x hx
          · subst hx
            have : isSup = false := by
              simp only [Bool.and_eq_true, Bool.not_eq_true'] at hcond
              exact hcond.2
            rw [← htruth]; exact this
        · exact inv.incSound x hx
      have hincM : ∀ x ∈ s.inc, x ∈ (if (!s.inc.contains cComp && decide (pos cComp < pos c) && !isSup) = true
          then addSet s.inc cComp else s.inc) := by
        intro x hx
        split
        · exact mem_addSet.mpr (Or.inl hx)
        · exact hx
      generalize hinc' : (if (!s.inc.contains cComp && decide (pos cComp < pos c) && !isSup) = true
          then addSet s.inc cComp else s.inc) = inc' at hincS hincM ⊢
      by_cases hs : isSup = true
      · have hsup : lt c cComp = true := by rw [← htruth]; exact hs
        by_cases hlast : (pre.length + 1 == chain.length) = true
        · -- exit 1: superconcept at the end of the chain
          simp only [hs, hlast, Bool.and_self, if_true]
          have hrest : rest = [] := by
            have h2 : pre.length + 1 = chain.length := by simpa using hlast
            rw [hch] at h2
            simp only [List.length_append, List.length_cons] at h2
            exact List.eq_nil_of_length_eq_zero (by omega)
          subst hrest
          refine ⟨fun x hx => mem_addSet.mpr (Or.inl hx), fun x hx => mem_addSet.mpr (Or.inl hx), hincM,
            ?_, ?_, nodup_addSet inv.supNodup, hincS, ?_, ?_, ?_, ?_⟩
          · intro x hx
            rcases mem_addSet.mp hx with hx | hx
            · exact inv.allSound x hx
            · subst hx; exact ⟨hcCn, hsup⟩
          · intro x hx
            rcases mem_addSet.mp hx with hx | hx
            · exact inv.supSound x hx
            · subst hx; exact ⟨hcCn, hsup⟩
          · intro q hq hcov
            rcases mem_addSet.mp hq with hq | hq
            · rcases inv.pendOK q hq hcov with h | h
              · exact mem_addSet.mpr (Or.inl h)
              · exact absurd hcov (hpendNo hsup q h)
            · exact mem_addSet.mpr (Or.inr hq)
          · simp only; rw [hch]; simp
          · intro x hx
            simp only at hx ⊢
            rw [hch, take_length_append] at hx
            exact mem_addSet.mpr (Or.inl (inv.preIn x hx))
          · intro x hx _
            rw [hch] at hx
            rcases List.mem_append.mp hx with hx | hx
            · exact mem_addSet.mpr (Or.inl (inv.preIn x hx))
            · have : x = cComp := by simpa using hx
              exact mem_addSet.mpr (Or.inr this)
        · -- superconcept inside the chain: record it and go on
          have hlast' : (pre.length + 1 == chain.length) = false := by simpa using hlast
          simp only [hs, hlast', Bool.and_false, Bool.false_eq_true, if_false, Bool.not_true]
          have hrestne : rest ≠ [] := by
            intro e
            subst e
            have : pre.length + 1 ≠ chain.length := by simpa using hlast
            rw [hch] at this
            simp at this
          rw [← hlen']
          have hres := ih (pre ++ [cComp])
            { s with all := addSet s.all cComp, inc := inc' } (some cComp) hch'
            (by
              refine ⟨?_, inv.supSound, inv.supNodup, hincS, mem_addSet.mpr (Or.inl inv.topIn), ?_,
                inv.startLe, fun x hx => mem_addSet.mpr (Or.inl (inv.startIn x hx)), ?_, ?_⟩
              · intro x hx
                rcases mem_addSet.mp hx with hx | hx
                · exact inv.allSound x hx
                · subst hx; exact ⟨hcCn, hsup⟩
              · intro x hx
                rcases List.mem_append.mp hx with hx | hx
                · exact mem_addSet.mpr (Or.inl (inv.preIn x hx))
                · have : x = cComp := by simpa using hx
                  exact mem_addSet.mpr (Or.inr this)
              · intro q hq hcov
                rcases mem_addSet.mp hq with hq | hq
                · rcases inv.pendOK q hq hcov with h | h
                  · exact Or.inl h
                  · exact absurd hcov (hpendNo hsup q h)
                · subst hq; exact Or.inr rfl
              · intro q hq
                have : cComp = q := by simpa using hq
                subst this
                exact ⟨by simp, hrestne⟩)
          exact ⟨fun x hx => hres.monoAll x (mem_addSet.mpr (Or.inl hx)), hres.monoSup,
            fun x hx => hres.monoInc x (hincM x hx), hres.allSound, hres.supSound, hres.supNodup,
            hres.incSound, hres.covIn, hres.startLe, hres.startIn, hres.done⟩
      · -- exit 2: not a superconcept; the previous chain element becomes a candidate
        have hs' : isSup = false := by simpa using hs
        have hnsup : lt c cComp = false := by rw [← htruth]; exact hs'
        simp only [hs', Bool.false_and, Bool.false_eq_true, if_false, Bool.not_false, if_true]
        obtain ⟨q, hq⟩ : ∃ q, pre.getLast? = some q := by
          cases hgl : pre.getLast? with
          | none => exact absurd (List.getLast?_eq_none_iff.mp hgl) hpre
          | some q => exact ⟨q, rfl⟩
        have hprev : chainPrev chain pre.length = q := by rw [hch]; exact getD_pre_last pre _ q hq
        rw [hprev]
        have hqpre : q ∈ pre := List.mem_of_getLast? hq
        have hqall := inv.preIn q hqpre
        refine ⟨fun _ h => h, fun x hx => mem_addSet.mpr (Or.inl hx), hincM, inv.allSound, ?_,
          nodup_addSet inv.supNodup, hincS, ?_, ?_, ?_, ?_⟩
        · intro x hx
          rcases mem_addSet.mp hx with hx | hx
          · exact inv.supSound x hx
          · subst hx; exact inv.allSound x hqall
        · intro q' hq' hcov
          rcases inv.pendOK q' hq' hcov with h | h
          · exact mem_addSet.mpr (Or.inl h)
          · have := (inv.pendLast q' h).1
            rw [hq] at this
            cases this
            exact mem_addSet.mpr (Or.inr rfl)
        · simp only; rw [hch]; simp
        · intro x hx
          simp only at hx ⊢
          rw [hch, take_length_append] at hx
          exact inv.preIn x hx
        · intro x hx hcx
          simp only
          rw [hch] at hx
          rcases List.mem_append.mp hx with hx | hx
          · exact inv.preIn x hx
          · rcases List.mem_cons.mp hx with e | hx
            · subst e; rw [hnsup] at hcx; cases hcx
            · have := ctx.so.trans _ _ _ hcx (hbelow x hx)
              rw [hnsup] at this; cases this

/-- `iterate_chain` from a state whose recorded prefix `chain[:start]` is in `all` -/
theorem iterateChain_ok {pos : Nat → Nat} {top : Nat} {chain : List Nat} {c : Nat}
    (ctx : ScanCtx n lt rk pos top chain c) (s : Scan)
    (allSound : ∀ x ∈ s.all, x < n ∧ lt c x = true) (supSound : ∀ x ∈ s.sup, x < n ∧ lt c x = true)
    (supNodup : s.sup.Nodup) (incSound : ∀ x ∈ s.inc, lt c x = false) (topIn : top ∈ s.all)
    (startLe : s.start ≤ chain.length) (startIn : ∀ x ∈ chain.take s.start, x ∈ s.all)
    (covIn : ∀ q ∈ s.all, q ∈ upperCoversBy n lt c → q ∈ s.sup) :
    AuxRes n lt top chain c s (iterateChain lt pos chain c s) := by
  unfold iterateChain
  have hlen : (chain.take s.start).length = s.start := by simp; omega
  have := aux_ok ctx (chain.drop s.start) (chain.take s.start) s none (by simp)
    ⟨allSound, supSound, supNodup, incSound, topIn, startIn, startLe, startIn,
      fun q hq hc => Or.inl (covIn q hq hc), by simp⟩
  rw [hlen] at this
  exact this

end Fca.Construct

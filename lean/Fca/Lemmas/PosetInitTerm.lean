/-
  Lemmas/PosetInitTerm — the constructor with `children_dict`, part 4: the work-list loop of
  `_closed_relation_cache_by_direct_cache` terminates and never takes an error branch when the
  `children_dict` is the true lower-cover relation (`CorrectCD`).

  How the loop behaves.  `elements_to_visit` starts with the elements without children; every iteration pops the
  first entry all of whose children are visited, computes its closed set, APPENDS ALL ITS PARENTS and marks it
  visited.  The work list therefore holds duplicates, and an element is popped once per upward cover-path
  from a minimal element to it.

  Progress (`LInv`): every work-list entry is an index; every visited element has a `closed` entry; the children
  of a visited element are visited; every unvisited element all of whose children are visited is in the work
  list.  Hence `findReady` succeeds whenever the work list is non-empty (`exists_ready`), and all dictionary
  lookups of the body succeed.

  Termination: with `wt x := 2 ^ (number of strict ancestors of x)` the potential `wsum tv := Σ_{x ∈ tv} wt x`
  drops by at least one per iteration: popping `x` removes `wt x`, appending its parents `p₁ … p_k` adds
  `Σ wt pᵢ`, and `1 + Σ wt pᵢ ≤ wt x` because the parents are an antichain inside the strict up-set of `x`
  (`antichain_weight`).  The same lemma applied to the minimal elements inside `range n` bounds the start
  potential: `wsum start + 1 ≤ 2 ^ n` (for a dictionary with distinct keys).  So `2 ^ n` iterations of fuel
  are enough (`startWeight_lt_pow`, `initCD_returns`), and `wsum start + 1` is enough for any `CorrectCD`
  dictionary, repeated keys or not (`initCD_returns_exact`).

  PERFORMANCE FINDING (not a property violation).  The number of iterations the real loop makes is exactly the
  number of upward cover-paths that start at a minimal element (`P(x) = 1 + Σ_{p parent of x} P(p)` summed over
  the minimal elements), not the number of elements: on the Boolean lattice with `k` atoms (`n = 2^k`
  elements) the constructor makes `Σ_{j ≤ k} k!/(k-j)!` ≈ `e · k!` iterations, i.e. super-polynomially many in
  `n`; on a chain it makes `n`.  The examples at the end of this file pin the iteration count of the model on
  the Boolean lattices with 2 and 3 atoms (5 and 16 iterations for 4 and 8 elements) and on a 4-chain (4).
  On a stack of `L` two-element layers, each element covering both elements of the layer below (`n = 2L`), it
  makes more than `2 ^ (n/2)` iterations.  The exponential bound `2 ^ n` proved here is therefore of the right
  kind: no polynomial bound holds.  (That
  the count is *exactly* the number of cover-paths is not needed for termination and is not proved here; the
  potential used is the upper bound `2 ^ #ancestors` per work-list entry.)
-/
import Fca.Lemmas.PosetInit3
set_option linter.unusedSectionVars false
namespace Fca.Poset
open Fca Fca.Poset.Fresh

/-! ### list arithmetic -/

theorem nodup_subset_length_le (A : List Nat) : ∀ (S : List Nat), A.Nodup → (∀ a ∈ A, a ∈ S) →
    A.length ≤ S.length := by
  induction A with
  | nil => intro S _ _; exact Nat.zero_le _
  | cons a A ih =>
    intro S hn hs
    have ha : a ∈ S := hs a List.mem_cons_self
    have hn' := List.nodup_cons.mp hn
    have h1 := ih (S.erase a) hn'.2 (fun b hb => by
      have hne : b ≠ a := fun e => hn'.1 (e ▸ hb)
      exact (List.mem_erase_of_ne hne).mpr (hs b (List.mem_cons_of_mem _ hb)))
    rw [List.length_erase_of_mem ha] at h1
    have h2 : 0 < S.length := List.length_pos_of_mem ha
    simp only [List.length_cons]
    omega

theorem sum_map_eraseIdx (w : Nat → Nat) : ∀ (l : List Nat) (j el : Nat), l[j]? = some el →
    ((l.eraseIdx j).map w).sum + w el = (l.map w).sum := by
  intro l
  induction l with
  | nil => intro j el h; simp at h
  | cons x xs ih =>
    intro j el h
    cases j with
    | zero =>
      simp only [List.getElem?_cons_zero, Option.some.injEq] at h
      subst h
      simp only [List.eraseIdx_cons_zero, List.map_cons, List.sum_cons]
      omega
    | succ j =>
      have h' : xs[j]? = some el := by simpa using h
      have := ih j el h'
      simp only [List.eraseIdx_cons_succ, List.map_cons, List.sum_cons]
      omega

theorem alookup_isSome_of_mem {k : Nat} {v : List Nat} {c : Cache} (h : (k, v) ∈ c) :
    (alookup k c).isSome = true := by
  induction c with
  | nil => cases h
  | cons p c ih =>
    obtain ⟨k', v'⟩ := p
    rw [alookup_cons]
    split
    · rfl
    · rename_i hne
      rcases List.mem_cons.mp h with e | h
      · cases e; exact absurd rfl hne
      · exact ih h

section
variable {α : Type} [DecidableEq α] {leq : α → α → Bool} {E : List α}

/-! ### the potential -/

/-- fuel that suffices for the work-list loop of the constructor on `n` elements -/
def fuelBound (n : Nat) : Nat := 2 ^ n

/-- weight of a work-list entry: `2 ^ (number of strict ancestors)` -/
def wt (leq : α → α → Bool) (E : List α) (x : Nat) : Nat := 2 ^ (closed leq .anc E x).length

/-- potential of a work list -/
def wsum (leq : α → α → Bool) (E : List α) (l : List Nat) : Nat := (l.map (wt leq E)).sum

/-- potential of the initial work list of `closedByDirect` -/
def startWeight (leq : α → α → Bool) (E : List α) (cd : Cache) : Nat :=
  wsum leq E (cd.filterMap fun kv => if kv.2.isEmpty then some kv.1 else none)

theorem wsum_append (a b : List Nat) : wsum leq E (a ++ b) = wsum leq E a + wsum leq E b := by
  simp [wsum, List.map_append]

theorem wsum_cons (x : Nat) (l : List Nat) : wsum leq E (x :: l) = wt leq E x + wsum leq E l := by
  simp [wsum]

/-- An antichain `T` that lies, together with the strict up-sets of its members, inside `S` weighs less than
    `2 ^ |S|`.  (This is "a cover-path is determined by its vertex set" in arithmetic form.) -/
theorem antichain_weight (T : List Nat) : ∀ (S : List Nat), T.Nodup → (∀ p ∈ T, p ∈ S) →
    (∀ p ∈ T, ∀ a, ltD leq .anc E a p = true → a ∈ S) →
    (∀ p ∈ T, ∀ q ∈ T, ltD leq .anc E q p = false) →
    1 + wsum leq E T ≤ 2 ^ S.length := by
  induction T with
  | nil => intro S _ _ _ _; simp only [wsum, List.map_nil, List.sum_nil]; exact Nat.one_le_two_pow
  | cons p T ih =>
    intro S hn hT hA hX
    have hn' := List.nodup_cons.mp hn
    have hp : p ∈ S := hT p List.mem_cons_self
    have h1 := ih (S.erase p) hn'.2
      (fun q hq => by
        have hne : q ≠ p := fun e => hn'.1 (e ▸ hq)
        exact (List.mem_erase_of_ne hne).mpr (hT q (List.mem_cons_of_mem _ hq)))
      (fun q hq a ha => by
        have hne : a ≠ p := by
          intro e; subst e
          have := hX q (List.mem_cons_of_mem _ hq) a List.mem_cons_self
          rw [ha] at this; cases this
        exact (List.mem_erase_of_ne hne).mpr (hA q (List.mem_cons_of_mem _ hq) a ha))
      (fun q hq r hr => hX q (List.mem_cons_of_mem _ hq) r (List.mem_cons_of_mem _ hr))
    have h2 : (closed leq .anc E p).length ≤ (S.erase p).length := by
      apply nodup_subset_length_le _ _ (nodup_closed .anc p)
      intro a ha
      have hlt := mem_closed.mp ha
      have hne : a ≠ p := by
        intro e; subst e; rw [ltD_irrefl] at hlt; cases hlt
      exact (List.mem_erase_of_ne hne).mpr (hA p List.mem_cons_self a hlt)
    have h3 : wt leq E p ≤ 2 ^ (S.erase p).length := Nat.pow_le_pow_right (by decide) h2
    rw [List.length_erase_of_mem hp] at h1 h3
    have h4 : 0 < S.length := List.length_pos_of_mem hp
    have h5 : 2 ^ S.length = 2 * 2 ^ (S.length - 1) := by
      have : S.length = (S.length - 1) + 1 := by omega
      rw [this, Nat.pow_succ]; simp only [Nat.add_sub_cancel]; omega
    rw [wsum_cons, h5]
    omega

/-! ### what a correct `children_dict` provides -/

theorem cd_lookup {cd : Cache} (hcd : CorrectCD leq E cd) {x : Nat} (hx : x < E.length) :
    ∃ dr, alookup x cd = some dr := by
  obtain ⟨vs, hvs⟩ := hcd.total x hx
  exact Option.isSome_iff_exists.mp (alookup_isSome_of_mem hvs)

theorem cd_lookup_mem {cd : Cache} (hcd : CorrectCD leq E cd) {x : Nat} {dr : List Nat}
    (h : alookup x cd = some dr) : ∀ y, y ∈ dr ↔ isCover leq .desc E y x = true :=
  (hcd.entry _ (alookup_mem h)).2.2

theorem cd_relIn {cd : Cache} (hcd : CorrectCD leq E cd) {p x : Nat} :
    RelIn cd p x ↔ isCover leq .desc E x p = true := by
  constructor
  · rintro ⟨vs, hm, hx⟩
    exact ((hcd.entry _ hm).2.2 x).mp hx
  · intro hc
    obtain ⟨vs, hm⟩ := hcd.total p (ltD_lt (isCover_iff.mp hc).1).2
    exact ⟨vs, hm, ((hcd.entry _ hm).2.2 x).mpr hc⟩

theorem trans_lookup {cd : Cache} (hcd : CorrectCD leq E cd) {x : Nat} (hx : x < E.length) :
    ∃ tr, alookup x (transposeHierarchy cd) = some tr := by
  obtain ⟨vs, hvs⟩ := hcd.total x hx
  exact Option.isSome_iff_exists.mp (((transposeHierarchy_spec cd x).2).mpr (Or.inl ⟨vs, hvs⟩))

theorem trans_lookup_spec {cd : Cache} (hcd : CorrectCD leq E cd) {x : Nat} {tr : List Nat}
    (h : alookup x (transposeHierarchy cd) = some tr) :
    tr.Nodup ∧ ∀ p, p ∈ tr ↔ isCover leq .desc E x p = true := by
  obtain ⟨h1, h2⟩ := (transposeHierarchy_spec cd x).1 tr h
  exact ⟨h1, fun p => by rw [h2 p, cd_relIn hcd]⟩

/-! ### `findReady` and the closure fold cannot fail -/

theorem findReady_exists {direct : Cache} {visited : List Nat} : ∀ (l : List Nat) (i : Nat),
    (∀ x ∈ l, (alookup x direct).isSome = true) →
    (∃ x ∈ l, ∃ dr, alookup x direct = some dr ∧ ∀ y ∈ dr, y ∈ visited) →
    ∃ idx, findReady direct visited l i = some idx := by
  intro l
  induction l with
  | nil => intro i _ h; obtain ⟨x, hx, _⟩ := h; cases hx
  | cons x xs ih =>
    intro i hall hex
    obtain ⟨dr, hdr⟩ := Option.isSome_iff_exists.mp (hall x List.mem_cons_self)
    unfold findReady
    rw [hdr]
    simp only
    by_cases hr : dr.all (fun y => decide (y ∈ visited)) = true
    · rw [if_pos hr]; exact ⟨i, rfl⟩
    · rw [if_neg hr]
      apply ih (i + 1) (fun y hy => hall y (List.mem_cons_of_mem _ hy))
      obtain ⟨y, hy, dr', hdr', hv⟩ := hex
      rcases List.mem_cons.mp hy with e | hy
      · subst e
        rw [hdr] at hdr'; cases hdr'
        exfalso; apply hr
        simpa using hv
      · exact ⟨y, hy, dr', hdr', hv⟩

theorem closureFold_ok {closed : Cache} (l : List Nat) : ∀ (a : List Nat),
    (∀ r ∈ l, (alookup r closed).isSome = true) →
    ∃ cl, l.foldl (fun acc r => match acc, alookup r closed with
        | some a, some c => some (setUnion a c)
        | _, _ => none) (some a) = some cl := by
  induction l with
  | nil => intro a _; exact ⟨a, rfl⟩
  | cons r rs ih =>
    intro a h
    obtain ⟨c, hc⟩ := Option.isSome_iff_exists.mp (h r List.mem_cons_self)
    rw [List.foldl_cons, hc]
    exact ih (setUnion a c) (fun r' hr' => h r' (List.mem_cons_of_mem _ hr'))

/-! ### the progress invariant -/

/-- progress invariant of the `while` loop of `_closed_relation_cache_by_direct_cache` -/
structure LInv (leq : α → α → Bool) (E : List α) (tv vis : List Nat) (cl : Cache) : Prop where
  tvLt : ∀ x ∈ tv, x < E.length
  visCl : ∀ k ∈ vis, (alookup k cl).isSome = true
  visDown : ∀ x ∈ vis, ∀ y, isCover leq .desc E y x = true → y ∈ vis
  ready : ∀ m, m < E.length → m ∉ vis → (∀ c, isCover leq .desc E c m = true → c ∈ vis) → m ∈ tv

theorem linv_start {cd : Cache} (hcd : CorrectCD leq E cd) :
    LInv leq E (cd.filterMap fun kv => if kv.2.isEmpty then some kv.1 else none) [] [] := by
  refine ⟨?_, fun _ hk => (by cases hk), fun _ hx => (by cases hx), ?_⟩
  · intro x hx
    obtain ⟨kv, hkv, he⟩ := List.mem_filterMap.mp hx
    split at he
    · cases he; exact (hcd.entry _ hkv).1
    · cases he
  · intro m hm _ hch
    obtain ⟨vs, hvs⟩ := hcd.total m hm
    have hempty : vs = [] := by
      apply List.eq_nil_iff_forall_not_mem.mpr
      intro x hx
      have := hch x (((hcd.entry _ hvs).2.2 x).mp hx)
      cases this
    rw [List.mem_filterMap]
    exact ⟨(m, vs), hvs, by simp [hempty]⟩

theorem linv_step {cd : Cache} (hcd : CorrectCD leq E cd) {tv vis : List Nat} {cl : Cache}
    (hinv : LInv leq E tv vis cl) {j el : Nat} {dr tr cl1 : List Nat} (hel : tv[j]? = some el)
    (hdr : alookup el cd = some dr) (htr : alookup el (transposeHierarchy cd) = some tr)
    (hvis : ∀ y ∈ dr, y ∈ vis) :
    LInv leq E (tv.eraseIdx j ++ tr) (setInsert el vis) (ainsert el cl1 cl) := by
  have htrm := (trans_lookup_spec hcd htr).2
  refine ⟨?_, ?_, ?_, ?_⟩
  · intro x hx
    rcases List.mem_append.mp hx with hx | hx
    · exact hinv.tvLt x (List.mem_of_mem_eraseIdx hx)
    · exact (ltD_lt (isCover_iff.mp ((htrm x).mp hx)).1).2
  · intro k hk
    rw [alookup_ainsert]
    split
    · rfl
    · rename_i hne
      rcases mem_setInsert.mp hk with e | hk
      · exact absurd e hne
      · exact hinv.visCl k hk
  · intro x hx y hy
    rcases mem_setInsert.mp hx with e | hx
    · subst e
      exact mem_setInsert.mpr (Or.inr (hvis y ((cd_lookup_mem hcd hdr y).mpr hy)))
    · exact mem_setInsert.mpr (Or.inr (hinv.visDown x hx y hy))
  · intro m hm hmv hch
    have hmv' : m ∉ vis := fun h => hmv (mem_setInsert.mpr (Or.inr h))
    have hme : m ≠ el := fun e => hmv (mem_setInsert.mpr (Or.inl e))
    by_cases hall : ∀ c, isCover leq .desc E c m = true → c ∈ vis
    · have := hinv.ready m hm hmv' hall
      rcases mem_or_eraseIdx hel this with e | h2
      · exact absurd e hme
      · exact List.mem_append.mpr (Or.inl h2)
    · -- some child of `m` became visited just now: it is `el`, so `m` is a parent of `el`
      have : ∃ c, isCover leq .desc E c m = true ∧ c ∉ vis := by
        apply Classical.byContradiction
        intro hn
        apply hall
        intro c hc
        apply Classical.byContradiction
        intro hcv
        exact hn ⟨c, hc, hcv⟩
      obtain ⟨c, hc, hcv⟩ := this
      rcases mem_setInsert.mp (hch c hc) with e | h
      · subst e
        exact List.mem_append.mpr (Or.inr ((htrm m).mpr hc))
      · exact absurd h hcv

variable (hpo : IdxPO leq E)
include hpo

/-- while the work list is non-empty some entry is ready -/
theorem exists_ready {cd : Cache} (hcd : CorrectCD leq E cd) {t : Nat} {ts vis : List Nat} {cl : Cache}
    (hinv : LInv leq E (t :: ts) vis cl) :
    ∃ x ∈ t :: ts, ∃ dr, alookup x cd = some dr ∧ ∀ y ∈ dr, y ∈ vis := by
  have htn : t < E.length := hinv.tvLt t List.mem_cons_self
  by_cases ht : t ∈ vis
  · obtain ⟨dr, hdr⟩ := cd_lookup hcd htn
    exact ⟨t, List.mem_cons_self, dr, hdr, fun y hy => hinv.visDown t ht y ((cd_lookup_mem hcd hdr y).mp hy)⟩
  · -- a minimal unvisited element below `t`
    have hl : ∀ y ∈ (List.range E.length).filter (fun y => decide (y ∉ vis)), y < E.length :=
      fun y hy => List.mem_range.mp (List.mem_filter.mp hy).1
    have htl : t ∈ (List.range E.length).filter (fun y => decide (y ∉ vis)) :=
      List.mem_filter.mpr ⟨List.mem_range.mpr htn, by simpa using ht⟩
    obtain ⟨m, hm, _, hmax⟩ := exists_maximal hpo .anc _ hl t htl
    have hmn : m < E.length := hl m hm
    have hmv : m ∉ vis := by simpa using (List.mem_filter.mp hm).2
    have hch : ∀ c, isCover leq .desc E c m = true → c ∈ vis := by
      intro c hc
      apply Classical.byContradiction
      intro hcv
      have hlt := (isCover_iff.mp hc).1
      have hcl : c ∈ (List.range E.length).filter (fun y => decide (y ∉ vis)) :=
        List.mem_filter.mpr ⟨List.mem_range.mpr (ltD_lt hlt).1, by simpa using hcv⟩
      have h1 := hmax c hcl
      have hfl : ltD leq .anc E m c = ltD leq .desc E c m := ltD_flip .desc E m c
      rw [hfl, hlt] at h1
      cases h1
    obtain ⟨dr, hdr⟩ := cd_lookup hcd hmn
    exact ⟨m, hinv.ready m hmn hmv hch, dr, hdr, fun y hy => hch y ((cd_lookup_mem hcd hdr y).mp hy)⟩

/-- one iteration lowers the potential -/
theorem wsum_step {cd : Cache} (hcd : CorrectCD leq E cd) {tv : List Nat} {j el : Nat} {tr : List Nat}
    (hel : tv[j]? = some el) (htr : alookup el (transposeHierarchy cd) = some tr) :
    wsum leq E (tv.eraseIdx j ++ tr) + 1 ≤ wsum leq E tv := by
  obtain ⟨htrn, htrm⟩ := trans_lookup_spec hcd htr
  have hup : ∀ p ∈ tr, ltD leq .anc E p el = true := by
    intro p hp
    have hfl : ltD leq .anc E p el = ltD leq .desc E el p := ltD_flip .desc E p el
    rw [hfl]
    exact (isCover_iff.mp ((htrm p).mp hp)).1
  have h1 := antichain_weight (leq := leq) (E := E) tr (closed leq .anc E el) htrn
    (fun p hp => mem_closed.mpr (hup p hp))
    (fun p hp a ha => mem_closed.mpr (ltD_trans hpo .anc ha (hup p hp)))
    (fun p hp q hq => by
      cases h : ltD leq .anc E q p
      · rfl
      · -- `el < p < q` contradicts `q` covering `el`
        exfalso
        have hfl1 : ltD leq .anc E q p = ltD leq .desc E p q := ltD_flip .desc E q p
        have hfl2 : ltD leq .anc E p el = ltD leq .desc E el p := ltD_flip .desc E p el
        have h2 := hup p hp
        rw [hfl1] at h
        rw [hfl2] at h2
        exact (isCover_iff.mp ((htrm q).mp hq)).2 p h2 h)
  have h2 : wsum leq E (tv.eraseIdx j) + wt leq E el = wsum leq E tv :=
    sum_map_eraseIdx (wt leq E) tv j el hel
  have h3 : wt leq E el = 2 ^ (closed leq .anc E el).length := rfl
  rw [wsum_append]
  omega

omit hpo in
/-- one iteration of the loop, when nothing fails -/
theorem closedByDirectLoop_step {direct trans : Cache} {fuel : Nat} {t : Nat} {ts vis : List Nat} {cl : Cache}
    {idx el : Nat} {dr tr cl1 : List Nat}
    (hfr : findReady direct vis (t :: ts) 0 = some idx) (hel : (t :: ts)[idx]? = some el)
    (hdr : alookup el direct = some dr) (htr : alookup el trans = some tr)
    (hfold : dr.foldl (fun acc r => match acc, alookup r cl with
        | some a, some c => some (setUnion a c)
        | _, _ => none) (some dr) = some cl1) :
    closedByDirectLoop direct trans (fuel + 1) (t :: ts) vis cl =
      closedByDirectLoop direct trans fuel ((t :: ts).eraseIdx idx ++ tr) (setInsert el vis)
        (ainsert el cl1 cl) := by
  rw [closedByDirectLoop]
  · simp only [hfr, hel, hdr, htr]
    split
    · rename_i h
      have h' : (none : Option (List Nat)) = some cl1 := h.symm.trans hfold
      cases h'
    · rename_i c h
      have h' : some c = some cl1 := h.symm.trans hfold
      cases h'
      rfl
  · intro h; cases h

/-- the loop returns when started with more fuel than the potential of the work list -/
theorem closedByDirectLoop_ok {cd : Cache} (hcd : CorrectCD leq E cd) (fuel : Nat) :
    ∀ (tv vis : List Nat) (cl : Cache), LInv leq E tv vis cl → wsum leq E tv < fuel →
      ∃ res, closedByDirectLoop cd (transposeHierarchy cd) fuel tv vis cl = .ok res := by
  induction fuel with
  | zero => intro tv vis cl _ h; cases h
  | succ fuel ih =>
    intro tv vis cl hinv hw
    cases tv with
    | nil => exact ⟨cl, by rw [closedByDirectLoop]⟩
    | cons t ts =>
      have hall : ∀ x ∈ t :: ts, (alookup x cd).isSome = true := by
        intro x hx
        obtain ⟨dr, hdr⟩ := cd_lookup hcd (hinv.tvLt x hx)
        rw [hdr]; rfl
      obtain ⟨idx, hfr⟩ := findReady_exists (t :: ts) 0 hall (exists_ready hpo hcd hinv)
      obtain ⟨j, hj, el, hel, dr, hdr, hvis⟩ := findReady_spec hfr
      rw [Nat.zero_add] at hj
      subst hj
      have heln : el < E.length := hinv.tvLt el (List.mem_of_getElem? hel)
      obtain ⟨tr, htr⟩ := trans_lookup hcd heln
      obtain ⟨cl1, hfold⟩ := closureFold_ok (closed := cl) dr dr (fun r hr => hinv.visCl r (hvis r hr))
      have hw' := wsum_step hpo hcd hel htr
      obtain ⟨res, hres⟩ := ih _ _ _ (linv_step (cl1 := cl1) hcd hinv hel hdr htr hvis) (by omega)
      exact ⟨res, by rw [closedByDirectLoop_step hfr hel hdr htr hfold]; exact hres⟩

/-- `_closed_relation_cache_by_direct_cache` returns on the true lower-cover relation, with the exact potential
    of the start list as fuel bound (no assumption on repeated keys of the association list) -/
theorem closedByDirect_returns_exact {cd : Cache} (hcd : CorrectCD leq E cd) {fuel : Nat}
    (hf : startWeight leq E cd < fuel) : ∃ dd, closedByDirect fuel cd = .ok dd := by
  unfold closedByDirect
  exact closedByDirectLoop_ok hpo hcd fuel _ _ _ (linv_start hcd) hf

omit hpo in
theorem start_nodup {cd : Cache} (hk : (cd.map Prod.fst).Nodup) :
    (cd.filterMap fun kv => if kv.2.isEmpty then some kv.1 else none).Nodup := by
  have : (cd.filterMap fun kv => if kv.2.isEmpty then some kv.1 else none)
      = (cd.filter fun kv => kv.2.isEmpty).map Prod.fst := by
    induction cd with
    | nil => rfl
    | cons kv cd ih =>
      have ih' := ih (List.nodup_cons.mp hk).2
      by_cases h : kv.2.isEmpty = true
      · simp only [List.filterMap_cons, h, if_true, List.filter_cons_of_pos, List.map_cons]
        rw [ih']
      · simp only [List.filterMap_cons, h, if_false, Bool.false_eq_true]
        rw [ih']
        simp [h]
  rw [this]
  exact List.Nodup.sublist (List.Sublist.map _ List.filter_sublist) hk

/-- the start potential of a dictionary with distinct keys is below `2 ^ n` -/
theorem startWeight_lt_pow {cd : Cache} (hcd : CorrectCD leq E cd) (hk : (cd.map Prod.fst).Nodup) :
    startWeight leq E cd < 2 ^ E.length := by
  have hmin : ∀ q ∈ (cd.filterMap fun kv => if kv.2.isEmpty then some kv.1 else none),
      ∀ p, ltD leq .anc E q p = false := by
    intro q hq p
    obtain ⟨kv, hkv, he⟩ := List.mem_filterMap.mp hq
    split at he
    · rename_i hem
      cases he
      cases h : ltD leq .anc E kv.1 p
      · rfl
      · exfalso
        have hfl : ltD leq .anc E kv.1 p = ltD leq .desc E p kv.1 := ltD_flip .desc E kv.1 p
        rw [hfl] at h
        -- `p < kv.1`: then `kv.1` has a lower cover, but its entry is empty
        obtain ⟨c, hc, _⟩ := exists_cover_above hpo .desc h
        have hc' := ((hcd.entry _ hkv).2.2 c).mpr hc
        rw [List.isEmpty_iff.mp hem] at hc'
        cases hc'
    · cases he
  have h := antichain_weight (leq := leq) (E := E) _ (List.range E.length) (start_nodup hk)
    (fun p hp => List.mem_range.mpr ((linv_start hcd).tvLt p hp))
    (fun p _ a ha => List.mem_range.mpr (ltD_lt ha).1)
    (fun p _ q hq => hmin q hq p)
  rw [List.length_range] at h
  unfold startWeight
  omega

omit hpo in
theorem initCD_of_closedByDirect {cd : Cache} {fuel : Nat} {dd : Cache} (h : closedByDirect fuel cd = .ok dd) :
    ∃ s : St α, initCD fuel E cd = .ok s := by
  unfold initCD
  rw [h]
  exact ⟨_, rfl⟩

/-- The constructor returns on the true lower-cover relation when the fuel exceeds the start potential
    (computable from `cd`); repeated keys in the association list are allowed here. -/
theorem initCD_returns_exact {cd : Cache} (hcd : CorrectCD leq E cd) {fuel : Nat}
    (hf : startWeight leq E cd < fuel) : ∃ s : St α, initCD fuel E cd = .ok s := by
  obtain ⟨dd, hdd⟩ := closedByDirect_returns_exact hpo hcd hf
  exact initCD_of_closedByDirect hdd

/-- **The constructor returns**: for a partial order on the indexes of `E`, a `children_dict` that is the
    true lower-cover relation (`CorrectCD`) and has distinct keys (every Python `dict` has), the work-list loop
    neither gets stuck nor fails, and `fuelBound E.length = 2 ^ E.length` units of fuel (or more) are enough. -/
theorem initCD_returns {cd : Cache} (hcd : CorrectCD leq E cd) (hk : (cd.map Prod.fst).Nodup) {fuel : Nat}
    (hf : fuelBound E.length ≤ fuel) : ∃ s : St α, initCD fuel E cd = .ok s := by
  apply initCD_returns_exact hpo hcd
  have := startWeight_lt_pow hpo hcd hk
  unfold fuelBound at hf
  omega

end

/-! ### an executable check of `CorrectCD` (used to exhibit concrete instances of the hypotheses) -/

section
variable {α : Type} [DecidableEq α]

/-- `cd` lists, for keys below `E.length`, exactly the lower covers, and every index is a key -/
def cdCheck (leq : α → α → Bool) (E : List α) (cd : Cache) : Bool :=
  cd.all (fun kv => decide (kv.1 < E.length) && decide kv.2.Nodup && kv.2.all (fun x => decide (x < E.length))
      && (List.range E.length).all (fun x => decide (x ∈ kv.2) == isCover leq .desc E x kv.1))
    && (List.range E.length).all (fun k => cd.any (fun kv => kv.1 == k))

theorem correctCD_of_check {leq : α → α → Bool} {E : List α} {cd : Cache} (h : cdCheck leq E cd = true) :
    CorrectCD leq E cd := by
  unfold cdCheck at h
  simp only [Bool.and_eq_true, List.all_eq_true, decide_eq_true_eq, List.mem_range, beq_iff_eq,
    List.any_eq_true] at h
  obtain ⟨h1, h2⟩ := h
  refine ⟨fun kv hkv => ?_, fun k hk => ?_⟩
  · obtain ⟨⟨⟨ha, hb⟩, hc⟩, hd⟩ := h1 kv hkv
    refine ⟨ha, hb, fun x => ?_⟩
    by_cases hx : x < E.length
    · have := hd x hx
      constructor
      · intro hm; rw [← this]; simpa using hm
      · intro hcov; rw [hcov] at this; simpa using this
    · constructor
      · intro hm; exact absurd (hc x hm) hx
      · intro hcov; exact absurd (ltD_lt (isCover_iff.mp hcov).1).1 hx
  · obtain ⟨kv, hkv, e⟩ := h2 k hk
    exact ⟨kv.2, by rw [← e]; exact hkv⟩

end

/-! ### the iteration count is the number of cover-paths, not the number of elements

  Boolean lattices (index = bit mask, children = masks with one bit cleared).  The loop needs one unit of fuel
  per iteration plus one for the final emptiness test: 2 atoms (4 elements) - 5 iterations, 3 atoms
  (8 elements) - 16 iterations; a 4-element chain - 4 iterations. -/

/-- the loop ran out of fuel -/
def ranOut (r : Except PyErr Cache) : Bool :=
  match r with
  | .error .OutOfFuel => true
  | _ => false

/-- the loop returned -/
def returned (r : Except PyErr Cache) : Bool :=
  match r with
  | .ok _ => true
  | .error _ => false

example : ranOut (closedByDirect 5 [(0, []), (1, [0]), (2, [0]), (3, [1, 2])]) = true
    ∧ returned (closedByDirect 6 [(0, []), (1, [0]), (2, [0]), (3, [1, 2])]) = true := by
  constructor <;> decide +kernel

example : ranOut (closedByDirect 16 [(0, []), (1, [0]), (2, [0]), (3, [1, 2]), (4, [0]), (5, [1, 4]), (6, [2, 4]),
      (7, [3, 5, 6])]) = true
    ∧ returned (closedByDirect 17 [(0, []), (1, [0]), (2, [0]), (3, [1, 2]), (4, [0]), (5, [1, 4]), (6, [2, 4]),
      (7, [3, 5, 6])]) = true := by
  constructor <;> decide +kernel

example : ranOut (closedByDirect 4 [(0, []), (1, [0]), (2, [1]), (3, [2])]) = true
    ∧ returned (closedByDirect 5 [(0, []), (1, [0]), (2, [1]), (3, [2])]) = true := by
  constructor <;> decide +kernel

/-- without distinct keys `2 ^ n` is not enough: one element listed three times is popped three times -/
example : ranOut (closedByDirect (fuelBound 1) [(0, []), (0, []), (0, [])]) = true := by decide +kernel

end Fca.Poset

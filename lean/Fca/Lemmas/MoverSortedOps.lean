/-
  `Sorted` is preserved by every Mover operation (all branches of `jitter_node`), and makes ranks geometric.
-/
import Fca.Lemmas.MoverSorted
import Fca.Lemmas.MoverSortedCases
namespace Fca.Mover
open Fca.Layout (VErr)

theorem getD_eq_get (l : List Rat) (k : Nat) (h : k < l.length) : l.getD k 0 = l[k] := by
  simp [List.getD_eq_getElem?_getD, h]

theorem setRow_sorted {m : St} (hs : Sorted m) (l q : Nat) (x : Rat) (hl : l < m.posPeers.length)
    (h : ((m.row l).set q x).Pairwise (· < ·)) : Sorted (setRow m l q x) := by
  intro l'
  by_cases e : l = l'
  · subst e; rw [setRow_row_same _ _ _ _ hl]; exact h
  · rw [setRow_row_other _ _ _ _ _ e]; exact hs l'

theorem sorted_of_posPeers_eq {m m1 : St} (h : m1.posPeers = m.posPeers) (hs : Sorted m) : Sorted m1 := by
  intro l; simp only [St.row, h]; exact hs l

theorem drop_get (pp : List Rat) (p a : Nat) (ha : a < pp.length) (hpa : p + 1 ≤ a) :
    ∃ h : a - (p + 1) < (pp.drop (p + 1)).length, (pp.drop (p + 1))[a - (p + 1)] = pp[a] := by
  refine ⟨by rw [List.length_drop]; omega, ?_⟩
  rw [List.getElem_drop]
  simp only [show p + 1 + (a - (p + 1)) = a by omega]

theorem swap_sorted {m m' : St} {a b : Nat} (hs : Sorted m) (h : swapNodes m a b = .ok m') : Sorted m' :=
  sorted_of_posPeers_eq (swap_frame h).2.2.2 hs

theorem shift_sorted {m m' : St} {i : Nat} {k : Int} (hs : Sorted m) (h : shiftNode m i k = .ok m') : Sorted m' :=
  sorted_of_posPeers_eq (shift_frame h).2.2.2 hs

theorem jitter_sorted {m m' : St} {i : Nat} {dx : Rat} (hw : WF m) (hb : Bij m) (hs : Sorted m)
    (h : jitterNode m i dx = .ok m') : Sorted m' := by
  obtain ⟨hi, hc⟩ := jitterNode_cases h
  have hl := hw.lvl_lt i hi
  have hp := hw.ord_lt i hi
  have hx := getD_eq_get _ _ hp
  generalize hppd : m.row (m.lvl i) = pp at hc hp hx
  generalize hpd : m.ord i = p at hc hp hx
  have hpps : pp.Pairwise (· < ·) := hppd ▸ hs (m.lvl i)
  rw [hx] at hc
  rcases hc with ⟨hdx, hb1, rfl⟩ | ⟨hdx, hb1, rfl⟩ | ⟨hdx, hb1, hpr, rfl⟩ | ⟨hdx, hb1, hpr, rfl⟩ |
      ⟨hdx, hnm, m1, h1, rfl⟩ | ⟨hdx, hnm, m1, h1, rfl⟩
  · -- last node moved right
    apply setRow_sorted hs _ _ _ hl
    rw [hppd]
    apply pairwise_set_lt hpps
    · intro a ha hap
      have := pairwise_lt_get hpps ha hp hap
      grind
    · intro b hb' hpb; omega
  · -- first node moved left
    have hdx' : dx < 0 := Rat.not_le.mp hdx
    apply setRow_sorted hs _ _ _ hl
    rw [hppd]
    apply pairwise_set_lt hpps
    · intro a ha hap; omega
    · intro b hb' hpb
      have := pairwise_lt_get hpps hp hb' hpb
      grind
  · -- order preserving, to the right
    have hp1 : p + 1 < pp.length := by omega
    rw [getD_eq_get _ _ hp1] at hpr
    apply setRow_sorted hs _ _ _ hl
    rw [hppd]
    apply pairwise_set_lt hpps
    · intro a ha hap
      have := pairwise_lt_get hpps ha hp hap
      grind
    · intro b hb' hpb
      have := pairwise_le_get hpps hp1 hb' (by omega)
      grind
  · -- order preserving, to the left
    have hdx' : dx < 0 := Rat.not_le.mp hdx
    have hp1 : p - 1 < pp.length := by omega
    rw [getD_eq_get _ _ hp1] at hpr
    apply setRow_sorted hs _ _ _ hl
    rw [hppd]
    apply pairwise_set_lt hpps
    · intro a ha hap
      have := pairwise_le_get hpps ha hp1 (by omega)
      grind
    · intro b hb' hpb
      have := pairwise_lt_get hpps hp hb' hpb
      grind
  · -- overtaking to the right
    obtain ⟨_, _, _, hpp1⟩ := shift_frame h1
    have hs1 : Sorted m1 := sorted_of_posPeers_eq hpp1 hs
    have hrow1 : m1.row (m.lvl i) = pp := by simp only [St.row, hpp1]; exact hppd
    generalize hnx : pp[p] + dx = newX at h1 hnm ⊢
    generalize hK : ((pp.drop (p + 1)).filter fun x => decide (x < newX)).length = K at h1
    have hKle : K ≤ pp.length - (p + 1) := by
      rw [← hK, ← List.length_drop]; exact List.length_filter_le _ _
    have hord := (shift_right hw hb (Int.natCast_nonneg K) h1).1
    simp only [hppd, hpd, Int.natAbs_natCast] at hord
    have hq : m1.ord i = p + K := by rw [hord]; omega
    rw [hq]
    apply setRow_sorted hs1 _ _ _ (by rw [hpp1]; exact hl)
    rw [hrow1]
    have hD : (pp.drop (p + 1)).Pairwise (· < ·) := List.Pairwise.sublist (List.drop_sublist _ _) hpps
    have hpre := filter_prefix (fun x => decide (x < newX)) _ hD
      (by intro x y hxy hy; simp only [decide_eq_true_eq] at hy ⊢; grind)
    rw [hK] at hpre
    have hle : pp[p] ≤ newX := by rw [← hnx]; grind
    apply pairwise_set_lt hpps
    · intro a ha haq
      rcases Nat.lt_trichotomy a p with h' | h' | h'
      · have := pairwise_lt_get hpps ha hp h'; grind
      · subst h'
        exact Rat.lt_of_le_of_ne hle (fun e => hnm (e ▸ List.getElem_mem _))
      · obtain ⟨hj, hje⟩ := drop_get pp p a ha (by omega)
        have := (hpre _ hj).mp (by omega)
        rw [hje] at this
        simpa using this
    · intro b hb' hqb
      obtain ⟨hj, hje⟩ := drop_get pp p b hb' (by omega)
      have hn : ¬ (b - (p + 1) < K) := by omega
      have := mt (hpre _ hj).mpr hn
      rw [hje] at this
      have hge : newX ≤ pp[b] := Rat.not_lt.mp (by simpa using this)
      exact Rat.lt_of_le_of_ne hge (fun e => hnm (e ▸ List.getElem_mem _))
  · -- overtaking to the left
    have hdx' : dx < 0 := Rat.not_le.mp hdx
    obtain ⟨_, _, _, hpp1⟩ := shift_frame h1
    have hs1 : Sorted m1 := sorted_of_posPeers_eq hpp1 hs
    have hrow1 : m1.row (m.lvl i) = pp := by simp only [St.row, hpp1]; exact hppd
    have hlt : pp[p] + dx < pp[p] := by grind
    generalize hnx : pp[p] + dx = newX at h1 hnm hlt ⊢
    have hTlen : (pp.take p).length = p := by rw [List.length_take]; omega
    generalize hK : ((pp.take p).filter fun x => decide (newX < x)).length = K at h1
    have hKle : K ≤ p := by
      rw [← hK]; have := List.length_filter_le (fun x => decide (newX < x)) (pp.take p); omega
    have hq : m1.ord i = p - K := by
      by_cases hK0 : K = 0
      · subst hK0
        have hord := (shift_right hw hb (by simp) h1).1
        simp only [hppd, hpd] at hord
        rw [hord]; simp
      · have hord := (shift_left hw hb (by omega) h1).1
        simp only [hpd, Int.natAbs_neg, Int.natAbs_natCast] at hord
        rw [hord]; omega
    rw [hq]
    apply setRow_sorted hs1 _ _ _ (by rw [hpp1]; exact hl)
    rw [hrow1]
    have hT : (pp.take p).Pairwise (· < ·) := List.Pairwise.sublist (List.take_sublist _ _) hpps
    have hpre := filter_prefix (fun x => !decide (newX < x)) _ hT
      (by intro x y hxy hy; simp only [Bool.not_eq_true', decide_eq_false_iff_not] at hy ⊢; grind)
    have hcompl := length_filter_compl (fun x => decide (newX < x)) (pp.take p)
    rw [hK, hTlen] at hcompl
    generalize hK' : ((pp.take p).filter fun x => !decide (newX < x)).length = K' at hpre hcompl
    have hqK : p - K = K' := by omega
    rw [hqK]
    have hTget : ∀ a (ha : a < p), ∃ h : a < (pp.take p).length, (pp.take p)[a] = pp[a]'(by omega) :=
      fun a ha => ⟨by omega, List.getElem_take⟩
    apply pairwise_set_lt hpps
    · intro a ha haq
      obtain ⟨hj, hje⟩ := hTget a (by omega)
      have := (hpre _ hj).mp haq
      rw [hje] at this
      have hge : pp[a] ≤ newX := Rat.not_lt.mp (by simpa using this)
      exact Rat.lt_of_le_of_ne hge (fun e => hnm (e ▸ List.getElem_mem _))
    · intro b hb' hqb
      rcases Nat.lt_trichotomy b p with h' | h' | h'
      · obtain ⟨hj, hje⟩ := hTget b h'
        have hn : ¬ (b < K') := by omega
        have := mt (hpre _ hj).mpr hn
        rw [hje] at this
        simpa using this
      · subst h'; exact hlt
      · have := pairwise_lt_get hpps hp hb' h'; grind

theorem step_sorted {m m' : St} {o : Op} (hw : WF m) (hb : Bij m) (hs : Sorted m) (h : step m o = .ok m') :
    Sorted m' := by
  cases o with
  | swap a b => exact swap_sorted hs h
  | shift i k => exact shift_sorted hs h
  | jitter i dx => exact jitter_sorted hw hb hs h
  | place i x => exact jitter_sorted hw hb hs (placeNode_ok h).2

theorem run_sorted : ∀ (ops : List Op) (m : St), WF m → Bij m → Sorted m → Sorted (run m ops)
  | [], _, _, _, hs => hs
  | o :: os, m, hw, hb, hs => by
    simp only [run]
    split
    · rename_i m1 h1
      exact run_sorted os m1 (step_wf hw h1) (step_bij hw hb h1) (step_sorted hw hb hs h1)
    · exact run_sorted os m hw hb hs

/-- with ascending rows the rank order of the peers of a level is their left-to-right order -/
theorem rank_geometric {m : St} (hw : WF m) (hs : Sorted m) {a b : Nat} (ha : a < m.n) (hb : b < m.n)
    (hl : m.lvl a = m.lvl b) : m.ord a < m.ord b ↔ m.peerCoord a < m.peerCoord b := by
  have hpa := hw.ord_lt a ha
  have hpb := hw.ord_lt b hb
  rw [← hl] at hpb
  simp only [St.peerCoord, ← hl]
  rw [getD_eq_get _ _ hpa, getD_eq_get _ _ hpb]
  constructor
  · intro h; exact pairwise_lt_get (hs _) hpa hpb h
  · intro h
    apply Classical.byContradiction
    intro hn
    have := pairwise_le_get (hs (m.lvl a)) hpb hpa (by omega)
    exact absurd h (Rat.not_lt.mpr this)

end Fca.Mover

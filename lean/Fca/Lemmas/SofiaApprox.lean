/-
  Fca.Lemmas.SofiaApprox — invariants of the Sofia projection loop (proved by induction over the
  loop), the counting lemma behind `count ≤ L_max + 2`, and the tree/forest lemmas.
-/
import Fca.Model.SofiaApprox
import Fca.Spec.C15
import Fca.Lemmas.Galois
import Batteries.Data.List.Perm
namespace Fca.SofiaApprox
open Fca Fca.Spec

/-! ## masks of attribute sets -/

/-- the mask of `B'` (objects having all attributes of `B`) -/
def maskOf (t : Table) (B : List Nat) : Mask :=
  (List.range t.height).map fun g => B.all fun a => t.get g a

variable (t : Table)

theorem maskOf_nil : maskOf t [] = List.replicate t.height true := by
  simp [maskOf, List.map_const']

@[simp] theorem length_maskOf (B : List Nat) : (maskOf t B).length = t.height := by
  simp [maskOf]

theorem band_maskOf_attr (B : List Nat) (j : Nat) :
    band (maskOf t B) (attrExtent t j) = maskOf t (j :: B) := by
  simp only [band, maskOf, attrExtent, List.zipWith_map, List.zipWith_self, List.all_cons]
  apply List.map_congr_left
  intro g _
  exact Bool.and_comm _ _

theorem search1_maskOf (B : List Nat) : search1 (maskOf t B) = extAll t B := by
  simp only [search1, length_maskOf, extAll, ext]
  apply List.filter_congr
  intro g hg
  have hg' : g < t.height := List.mem_range.mp hg
  simp [maskOf, List.getD_eq_getElem?_getD, List.getElem?_map, List.getElem?_range hg']

theorem count_maskOf (B : List Nat) : count (maskOf t B) = (extAll t B).length := by
  simp only [count, maskOf, List.filter_map, List.length_map, extAll, ext]
  rfl

theorem count_le_height (B : List Nat) : count (maskOf t B) ≤ t.height := by
  rw [count_maskOf]
  have := List.length_filter_le (fun g => B.all fun a => t.get g a) (List.range t.height)
  simpa [extAll, ext] using this

/-- masks are determined by the prime set -/
theorem maskOf_eq_of_extAll_eq {B B' : List Nat} (h : extAll t B = extAll t B') :
    maskOf t B = maskOf t B' := by
  unfold maskOf
  apply List.map_congr_left
  intro g hg
  have hg' : g < t.height := List.mem_range.mp hg
  have h1 : g ∈ extAll t B ↔ g ∈ extAll t B' := by rw [h]
  rw [mem_extAll, mem_extAll] at h1
  rw [Bool.eq_iff_iff]
  simp only [List.all_eq_true]
  constructor
  · intro H; exact (h1.mp ⟨hg', H⟩).2
  · intro H; exact (h1.mpr ⟨hg', H⟩).2

theorem extAll_sublist_of_subset {B B' : List Nat} (h : ∀ a ∈ B, a ∈ B') :
    (extAll t B').Sublist (extAll t B) := by
  have : extAll t B' = (extAll t B).filter (fun g => B'.all fun a => t.get g a) := by
    simp only [extAll, ext, List.filter_filter]
    apply List.filter_congr
    intro g _
    rw [Bool.eq_iff_iff]
    simp only [List.all_eq_true, Bool.and_eq_true]
    constructor
    · intro H; exact ⟨H, fun a ha => H a (h a ha)⟩
    · intro H; exact H.1
  rw [this]
  exact List.filter_sublist

/-- a larger attribute set with at least the same support has the same mask -/
theorem maskOf_eq_of_subset_of_count {B B' : List Nat} (h : ∀ a ∈ B, a ∈ B')
    (hc : count (maskOf t B) ≤ count (maskOf t B')) : maskOf t B' = maskOf t B := by
  rw [count_maskOf, count_maskOf] at hc
  exact maskOf_eq_of_extAll_eq t ((extAll_sublist_of_subset t h).eq_of_length_le hc)

theorem count_mono_of_subset {B B' : List Nat} (h : ∀ a ∈ B, a ∈ B') :
    count (maskOf t B') ≤ count (maskOf t B) := by
  rw [count_maskOf, count_maskOf]
  exact (extAll_sublist_of_subset t h).length_le

theorem maskOf_congr {B B' : List Nat} (h : ∀ a, a ∈ B ↔ a ∈ B') : maskOf t B = maskOf t B' := by
  apply maskOf_eq_of_subset_of_count t (fun a ha => (h a).mpr ha)
  exact count_mono_of_subset t (fun a ha => (h a).mp ha)

theorem attrExtent_eq_maskOf (j : Nat) : attrExtent t j = maskOf t [j] := by
  simp [attrExtent, maskOf]

/-- threshold test is antitone in the count -/
theorem below_mono {ms : MinSupp} {n c c' : Nat} (h : c' ≤ c) (hb : ms.below n c = true) :
    ms.below n c' = true := by
  simp only [MinSupp.below, decide_eq_true_eq] at *
  exact Nat.lt_of_le_of_lt (Nat.mul_le_mul_right _ h) hb

/-! ## the pruning filter -/

theorem pruneGo_sublist (th : Int) (last : Nat) :
    ∀ (i : Nat) (es : List Mask) (ms : List Int), (pruneGo th last i es ms).Sublist es := by
  intro i es
  induction es generalizing i with
  | nil => intro ms; simp [pruneGo]
  | cons e es ih =>
    intro ms
    cases ms with
    | nil => simp [pruneGo]
    | cons m ms =>
      simp only [pruneGo]
      split
      · exact (ih (i + 1) ms).cons_cons e
      · exact (ih (i + 1) ms).cons e

theorem pruneGo_zero (th : Int) (last : Nat) (e : Mask) (es : List Mask) (m : Int) (ms : List Int) :
    pruneGo th last 0 (e :: es) (m :: ms) = e :: pruneGo th last 1 es ms := by
  simp [pruneGo]

/-- the last extent survives (index `len - 1`) when `zip` does not truncate -/
theorem pruneGo_last (th : Int) (last : Nat) (x : Mask) :
    ∀ (ys : List Mask) (i : Nat) (ms : List Int), (ys ++ [x]).length = ms.length →
      last = i + ys.length → ∃ zs, pruneGo th last i (ys ++ [x]) ms = zs ++ [x] := by
  intro ys
  induction ys with
  | nil =>
    intro i ms hlen hlast
    cases ms with
    | nil => simp at hlen
    | cons m ms =>
      refine ⟨[], ?_⟩
      have : ms = [] := by simpa using hlen.symm
      subst this
      simp only [List.length_nil, Nat.add_zero] at hlast
      simp [pruneGo, hlast]
  | cons y ys ih =>
    intro i ms hlen hlast
    cases ms with
    | nil => simp at hlen
    | cons m ms =>
      have hlen' : (ys ++ [x]).length = ms.length := by simpa using hlen
      obtain ⟨zs, hzs⟩ := ih (i + 1) ms hlen' (by simp only [List.length_cons] at hlast; omega)
      simp only [List.cons_append, pruneGo]
      split
      · exact ⟨y :: zs, by rw [hzs]; rfl⟩
      · exact ⟨zs, hzs⟩

theorem pruneGo_length_le (th : Int) (last : Nat) :
    ∀ (es : List Mask) (i : Nat) (ms : List Int),
      (pruneGo th last i es ms).length
        ≤ (ms.filter fun m => decide (m > th)).length + (if i = 0 then 1 else 0) + (if i ≤ last then 1 else 0) := by
  intro es
  induction es with
  | nil => intro i ms; simp [pruneGo]
  | cons e es ih =>
    intro i ms
    cases ms with
    | nil => simp [pruneGo]
    | cons m ms =>
      have IH := ih (i + 1) ms
      simp only [pruneGo, List.filter_cons]
      grind

/-! ## the stable insertion sort -/

theorem insertKey_perm {α} (le : α → α → Bool) (x : α) : ∀ l : List α, (insertKey le x l).Perm (x :: l)
  | [] => List.Perm.refl _
  | y :: ys => by
    simp only [insertKey]
    split
    · exact List.Perm.refl _
    · exact ((insertKey_perm le x ys).cons y).trans (List.Perm.swap x y ys)

theorem isort_perm {α} (le : α → α → Bool) : ∀ l : List α, (isort le l).Perm l
  | [] => List.Perm.refl _
  | x :: xs => (insertKey_perm le x _).trans ((isort_perm le xs).cons x)

theorem pairwise_insertKey {α} {le : α → α → Bool} (trans : ∀ a b c, le a b → le b c → le a c)
    (total : ∀ a b, le a b || le b a) (x : α) :
    ∀ l : List α, l.Pairwise (fun a b => le a b) → (insertKey le x l).Pairwise (fun a b => le a b)
  | [], _ => by simp [insertKey]
  | y :: ys, h => by
    simp only [insertKey]
    rw [List.pairwise_cons] at h
    split
    · rename_i hxy
      rw [List.pairwise_cons]
      refine ⟨?_, List.pairwise_cons.mpr h⟩
      intro z hz
      rcases List.mem_cons.mp hz with rfl | hz
      · exact hxy
      · exact trans _ _ _ hxy (h.1 z hz)
    · rename_i hxy
      have hyx : le y x = true := by
        have := total x y
        simp only [Bool.or_eq_true] at this
        rcases this with h1 | h1
        · exact absurd h1 hxy
        · exact h1
      rw [List.pairwise_cons]
      refine ⟨?_, pairwise_insertKey trans total x ys h.2⟩
      intro z hz
      rcases List.mem_cons.mp ((insertKey_perm le x ys).mem_iff.mp hz) with rfl | hz
      · exact hyx
      · exact h.1 z hz

theorem pairwise_isort {α} {le : α → α → Bool} (trans : ∀ a b c, le a b → le b c → le a c)
    (total : ∀ a b, le a b || le b a) : ∀ l : List α, (isort le l).Pairwise (fun a b => le a b)
  | [] => by simp [isort]
  | x :: xs => pairwise_insertKey trans total x _ (pairwise_isort trans total xs)

/-! ## at most `k` values exceed the `(k+1)`-th largest -/

theorem filter_gt_sorted_desc :
    ∀ (s : List Int) (k : Nat) (th : Int), s.Pairwise (fun a b => b ≤ a) → s[k]? = some th →
      (s.filter fun m => decide (m > th)).length ≤ k := by
  intro s
  induction s with
  | nil => intro k th _ h; simp at h
  | cons a s ih =>
    intro k th hp hk
    rw [List.pairwise_cons] at hp
    cases k with
    | zero =>
      simp only [List.getElem?_cons_zero, Option.some.injEq] at hk
      subst hk
      have : (List.filter (fun m => decide (m > a)) (a :: s)) = [] := by
        rw [List.filter_eq_nil_iff]
        intro x hx
        rcases List.mem_cons.mp hx with rfl | hx
        · simp
        · have := hp.1 x hx
          simp only [gt_iff_lt, decide_eq_true_eq]; omega
      rw [this]; simp
    | succ k =>
      simp only [List.getElem?_cons_succ] at hk
      have := ih k th hp.2 hk
      simp only [List.filter_cons]
      split
      · simp only [List.length_cons]; omega
      · omega

theorem count_gt_thold_le (meas : List Int) (lmax : Nat) (th : Int)
    (h : ((isort (fun a b => decide (a ≤ b)) meas).reverse)[lmax]? = some th) :
    (meas.filter fun m => decide (m > th)).length ≤ lmax := by
  have hperm : ((isort (fun a b => decide (a ≤ b)) meas).reverse).Perm meas :=
    (List.reverse_perm _).trans (isort_perm _ _)
  have hsorted : ((isort (fun a b => decide (a ≤ b)) meas).reverse).Pairwise (fun a b => b ≤ a) := by
    rw [List.pairwise_reverse]
    have := pairwise_isort (le := fun (a b : Int) => decide (a ≤ b))
      (by intro a b c; simp only [decide_eq_true_eq]; omega)
      (by intro a b; simp only [Bool.or_eq_true, decide_eq_true_eq]; omega) meas
    exact this.imp (by intro a b h; simpa using h)
  have := filter_gt_sorted_desc _ lmax th hsorted h
  rw [(hperm.filter _).length_eq] at this
  exact this

/-! ## the loop body before pruning -/

/-- the only assumption on Python's set-iteration order: it enumerates the set -/
def TieOK (tie : Tie) : Prop := ∀ (i : Nat) (l : List Mask), (tie i l).Perm l

/-- a measure function returns one value per extent (both `stability_lbounds` do) -/
def MeasLen (meas : Measure) : Prop := ∀ l : List Mask, (meas l).length = l.length

theorem supportFilter_sublist (ms : MinSupp) (n : Nat) (l : List Mask) :
    (supportFilter ms n l).Sublist l := by
  cases l with
  | nil => simp [supportFilter]
  | cons x xs => exact (List.filter_sublist).cons_cons x

/-- the sorted, duplicate-free union `sorted(set(extents_proj) | new_extents, key=count)` -/
def sortedUnion (tie : Tie) (projI : Nat) (exts : List Mask) (a : Mask) : List Mask :=
  sortByCount (tie projI (exts ++ exts.map fun e => band e a).eraseDups)

theorem stepPre_eq (tie : Tie) (ms : MinSupp) (n projI : Nat) (exts : List Mask) (a : Mask) :
    stepPre tie ms n projI exts a = supportFilter ms n (sortedUnion tie projI exts a) := rfl

theorem sortedUnion_perm {tie : Tie} (htie : TieOK tie) (projI : Nat) (exts : List Mask) (a : Mask) :
    (sortedUnion tie projI exts a).Perm (exts ++ exts.map fun e => band e a).eraseDups :=
  (isort_perm _ _).trans (htie _ _)

theorem mem_sortedUnion {tie : Tie} (htie : TieOK tie) (projI : Nat) (exts : List Mask) (a e : Mask) :
    e ∈ sortedUnion tie projI exts a ↔ e ∈ exts ∨ ∃ e' ∈ exts, e = band e' a := by
  rw [(sortedUnion_perm htie projI exts a).mem_iff, List.mem_eraseDups, List.mem_append, List.mem_map]
  constructor
  · rintro (h | ⟨e', h, rfl⟩)
    · exact Or.inl h
    · exact Or.inr ⟨e', h, rfl⟩
  · rintro (h | ⟨e', h, rfl⟩)
    · exact Or.inl h
    · exact Or.inr ⟨e', h, rfl⟩

theorem sortedUnion_nodup {tie : Tie} (htie : TieOK tie) (projI : Nat) (exts : List Mask) (a : Mask) :
    (sortedUnion tie projI exts a).Nodup :=
  (sortedUnion_perm htie projI exts a).symm.nodup (nodup_eraseDups _)

theorem sortedUnion_sorted (tie : Tie) (projI : Nat) (exts : List Mask) (a : Mask) :
    (sortedUnion tie projI exts a).Pairwise (fun x y => count x ≤ count y) := by
  have := pairwise_isort (le := fun (x y : Mask) => decide (count x ≤ count y))
    (by intro x y z; simp only [decide_eq_true_eq]; omega)
    (by intro x y; simp only [Bool.or_eq_true, decide_eq_true_eq]; omega)
    (tie projI (exts ++ exts.map fun e => band e a).eraseDups)
  exact this.imp (by intro x y h; simpa using h)

/-- in a list sorted by a key, the head has the least key -/
theorem head_le_of_sorted {α} {k : α → Nat} {h : α} {tl : List α}
    (hs : (h :: tl).Pairwise (fun x y => k x ≤ k y)) {x : α} (hx : x ∈ h :: tl) : k h ≤ k x := by
  rcases List.mem_cons.mp hx with rfl | hx
  · exact Nat.le_refl _
  · exact (List.pairwise_cons.mp hs).1 x hx

/-- in a list sorted by a key, the last element has the greatest key -/
theorem le_last_of_sorted {α} {k : α → Nat} {l : α} {ys : List α}
    (hs : (ys ++ [l]).Pairwise (fun x y => k x ≤ k y)) {x : α} (hx : x ∈ ys ++ [l]) : k x ≤ k l := by
  rcases List.mem_append.mp hx with hx | hx
  · exact (List.pairwise_append.mp hs).2.2 x hx l (by simp)
  · have : x = l := by simpa using hx
    subst this; exact Nat.le_refl _

/-! ## the loop invariant -/

/-- invariant of `extents_proj` after the projections `S` (newest first) have been applied -/
structure Inv (t : Table) (ms : MinSupp) (lmax : Nat) (S : List Nat) (exts : List Mask) : Prop where
  /-- every extent is the prime set of a set of applied attributes (hence closed) -/
  gen : ∀ e ∈ exts, ∃ B, (∀ b ∈ B, b ∈ S) ∧ e = maskOf t B
  nodup : exts.Nodup
  /-- the first extent is the intersection of all applied attribute extents: the least one -/
  head : ∃ tl, exts = maskOf t S :: tl
  /-- the last extent is the all-objects extent -/
  last : ∃ ys, exts = ys ++ [maskOf t []]
  /-- every extent but the first meets the support threshold -/
  supp : ∀ e ∈ exts.tail, ms.below t.height (count e) = false
  /-- at most `L_max + 2` extents -/
  len : exts.length ≤ lmax + 2

theorem inv_init (t : Table) (ms : MinSupp) (lmax : Nat) :
    Inv t ms lmax [] [List.replicate t.height true] := by
  rw [← maskOf_nil]
  exact ⟨by intro e he; exact ⟨[], by simp, by simpa using he⟩, by simp, ⟨[], rfl⟩, ⟨[], rfl⟩,
    by simp, by simp⟩

/-- weaker invariant (no length bound) that the body establishes before the pruning block -/
structure InvPre (t : Table) (ms : MinSupp) (S : List Nat) (exts : List Mask) : Prop where
  gen : ∀ e ∈ exts, ∃ B, (∀ b ∈ B, b ∈ S) ∧ e = maskOf t B
  nodup : exts.Nodup
  head : ∃ tl, exts = maskOf t S :: tl
  last : ∃ ys, exts = ys ++ [maskOf t []]
  supp : ∀ e ∈ exts.tail, ms.below t.height (count e) = false

theorem Inv.toPre {t : Table} {ms : MinSupp} {lmax : Nat} {S : List Nat} {exts : List Mask}
    (h : Inv t ms lmax S exts) : InvPre t ms S exts := ⟨h.gen, h.nodup, h.head, h.last, h.supp⟩

/-- the sorted union starts with the new least extent and ends with the all-objects extent -/
theorem sortedUnion_shape {t : Table} {ms : MinSupp} {tie : Tie} (htie : TieOK tie) {S : List Nat}
    {exts : List Mask} (h : InvPre t ms S exts) (j : Nat) :
    let u := sortedUnion tie j exts (attrExtent t j)
    (∀ e ∈ u, ∃ B, (∀ b ∈ B, b ∈ j :: S) ∧ e = maskOf t B) ∧
    (∃ tl, u = maskOf t (j :: S) :: tl) ∧ (∃ ys, u = ys ++ [maskOf t []]) := by
  intro u
  have hgen : ∀ e ∈ u, ∃ B, (∀ b ∈ B, b ∈ j :: S) ∧ e = maskOf t B := by
    intro e he
    rcases (mem_sortedUnion htie j exts _ e).mp he with he | ⟨e', he', rfl⟩
    · obtain ⟨B, hB, rfl⟩ := h.gen e he
      exact ⟨B, fun b hb => List.mem_cons_of_mem _ (hB b hb), rfl⟩
    · obtain ⟨B, hB, rfl⟩ := h.gen e' he'
      refine ⟨j :: B, ?_, band_maskOf_attr t B j⟩
      intro b hb
      rcases List.mem_cons.mp hb with rfl | hb
      · exact List.mem_cons_self
      · exact List.mem_cons_of_mem _ (hB b hb)
  have hsorted := sortedUnion_sorted tie j exts (attrExtent t j)
  obtain ⟨tl0, htl0⟩ := h.head
  obtain ⟨ys0, hys0⟩ := h.last
  have hm0 : maskOf t (j :: S) ∈ u := by
    apply (mem_sortedUnion htie j exts _ _).mpr
    exact Or.inr ⟨maskOf t S, by rw [htl0]; exact List.mem_cons_self, (band_maskOf_attr t S j).symm⟩
  have htop : maskOf t [] ∈ u := by
    apply (mem_sortedUnion htie j exts _ _).mpr
    exact Or.inl (by rw [hys0]; simp)
  refine ⟨hgen, ?_, ?_⟩
  · -- head
    cases hu : u with
    | nil => rw [hu] at hm0; cases hm0
    | cons hd tl =>
      have hsorted' : (hd :: tl).Pairwise (fun x y => count x ≤ count y) := hu ▸ hsorted
      have hle : count hd ≤ count (maskOf t (j :: S)) := head_le_of_sorted hsorted' (hu ▸ hm0)
      obtain ⟨B, hB, hBe⟩ := hgen hd (by rw [hu]; exact List.mem_cons_self)
      rw [hBe] at hle
      have := maskOf_eq_of_subset_of_count t hB hle
      exact ⟨tl, by rw [hBe, this]⟩
  · -- last
    have hne : u ≠ [] := by intro h0; rw [h0] at htop; cases htop
    obtain ⟨ys, l, hyl⟩ : ∃ ys l, u = ys ++ [l] :=
      ⟨u.dropLast, u.getLast hne, (List.dropLast_concat_getLast hne).symm⟩
    have hsorted' : (ys ++ [l]).Pairwise (fun x y => count x ≤ count y) := hyl ▸ hsorted
    have hle : count (maskOf t []) ≤ count l := le_last_of_sorted hsorted' (hyl ▸ htop)
    obtain ⟨B, _, hBe⟩ := hgen l (by rw [hyl]; simp)
    rw [hBe] at hle
    have := maskOf_eq_of_subset_of_count t (B := []) (B' := B) (by simp) hle
    exact ⟨ys, by rw [hyl, hBe, this]⟩

/-- the all-objects extent meets the threshold whenever a non-skipped attribute does -/
theorem top_meets {t : Table} {ms : MinSupp} {j : Nat}
    (hj : ms.below t.height (count (attrExtent t j)) = false) :
    ms.below t.height (count (maskOf t [])) = false := by
  cases hb : ms.below t.height (count (maskOf t [])) with
  | false => rfl
  | true =>
    have hmono : count (attrExtent t j) ≤ count (maskOf t []) := by
      rw [attrExtent_eq_maskOf]; exact count_mono_of_subset t (by simp)
    rw [below_mono hmono hb] at hj; cases hj

/-- the loop body up to the pruning block re-establishes the invariant (without the length bound) -/
theorem invPre_stepPre {t : Table} {ms : MinSupp} {tie : Tie} (htie : TieOK tie) {S : List Nat}
    {exts : List Mask} (h : InvPre t ms S exts) (j : Nat)
    (hj : ms.below t.height (count (attrExtent t j)) = false) :
    InvPre t ms (j :: S) (stepPre tie ms t.height j exts (attrExtent t j)) := by
  rw [stepPre_eq]
  obtain ⟨hgen, ⟨tl, htl⟩, ⟨ys, hys⟩⟩ := sortedUnion_shape htie h j
  have hnd := sortedUnion_nodup htie j exts (attrExtent t j)
  have hsub := supportFilter_sublist ms t.height (sortedUnion tie j exts (attrExtent t j))
  refine ⟨fun e he => hgen e (hsub.subset he), hnd.sublist hsub, ?_, ?_, ?_⟩
  · rw [htl]; exact ⟨_, rfl⟩
  · rw [htl] at hys ⊢
    simp only [supportFilter]
    cases ys with
    | nil =>
      simp only [List.nil_append, List.cons.injEq] at hys
      obtain ⟨h1, h2⟩ := hys
      subst h2
      exact ⟨[], by simp [h1]⟩
    | cons y ys =>
      simp only [List.cons_append, List.cons.injEq] at hys
      obtain ⟨h1, h2⟩ := hys
      subst h2
      refine ⟨maskOf t (j :: S) :: ys.filter (fun e => !(ms.below t.height (count e))), ?_⟩
      simp [List.filter_append, top_meets hj]
  · rw [htl]
    intro e he
    simp only [supportFilter, List.tail_cons, List.mem_filter, Bool.not_eq_true'] at he
    exact he.2

/-! ## the pruning block and the whole loop -/

theorem inv_prune {t : Table} {ms : MinSupp} {lmax : Nat} {S : List Nat} {u : List Mask}
    {meas : List Int} (h : InvPre t ms S u) (hlen : meas.length = u.length) (hgt : u.length > lmax) :
    ∃ out, prune lmax u meas = .ok out ∧ Inv t ms lmax S out := by
  unfold prune
  simp only
  cases hth : ((isort (fun a b => decide (a ≤ b)) meas).reverse)[lmax]? with
  | none =>
    rw [List.getElem?_eq_none_iff] at hth
    simp only [List.length_reverse, (isort_perm _ meas).length_eq] at hth
    omega
  | some th =>
    refine ⟨_, rfl, ?_⟩
    have hsub := pruneGo_sublist th (u.length - 1) 0 u meas
    obtain ⟨tl, htl⟩ := h.head
    obtain ⟨ys, hys⟩ := h.last
    obtain ⟨m, ms', hm⟩ : ∃ m ms', meas = m :: ms' := by
      cases meas with
      | nil => rw [htl] at hlen; simp at hlen
      | cons m ms' => exact ⟨m, ms', rfl⟩
    have hout : pruneGo th (u.length - 1) 0 u meas
        = maskOf t S :: pruneGo th (u.length - 1) 1 tl ms' := by
      rw [hm, htl]; exact pruneGo_zero _ _ _ _ _ _
    refine ⟨fun e he => h.gen e (hsub.subset he), h.nodup.sublist hsub, ⟨_, hout⟩, ?_, ?_, ?_⟩
    · have := pruneGo_last th (u.length - 1) (maskOf t []) ys 0 meas (by rw [← hys]; exact hlen.symm)
        (by rw [hys]; simp)
      rw [← hys] at this
      exact this
    · intro e he
      rw [hout, List.tail_cons] at he
      apply h.supp
      rw [htl, List.tail_cons]
      exact (pruneGo_sublist th (u.length - 1) 1 tl ms').subset he
    · have h1 := pruneGo_length_le th (u.length - 1) u 0 meas
      have h2 := count_gt_thold_le meas lmax th hth
      simp only [↓reduceIte, Nat.zero_le] at h1
      omega

/-- the set of applied (non-skipped) projections, newest first -/
def applied (ms : MinSupp) (t : Table) : List Nat → List Nat → List Nat
  | S, [] => S
  | S, j :: rest => applied ms t (if skips ms t.height (attrExtent t j) then S else j :: S) rest

theorem mem_applied (ms : MinSupp) (t : Table) (js : List Nat) :
    ∀ (S : List Nat) (x : Nat), x ∈ applied ms t S js ↔
      x ∈ S ∨ (x ∈ js ∧ skips ms t.height (attrExtent t x) = false) := by
  induction js with
  | nil => intro S x; simp [applied]
  | cons j rest ih =>
    intro S x
    simp only [applied]
    rw [ih]
    by_cases hs : skips ms t.height (attrExtent t j) = true
    · simp only [hs, ↓reduceIte, List.mem_cons]
      constructor
      · rintro (h | ⟨h1, h2⟩)
        · exact Or.inl h
        · exact Or.inr ⟨Or.inr h1, h2⟩
      · rintro (h | ⟨rfl | h1, h2⟩)
        · exact Or.inl h
        · rw [hs] at h2; cases h2
        · exact Or.inr ⟨h1, h2⟩
    · simp only [hs, Bool.false_eq_true, ↓reduceIte, List.mem_cons]
      have hs' : skips ms t.height (attrExtent t j) = false := by simpa using hs
      constructor
      · rintro ((rfl | h) | ⟨h1, h2⟩)
        · exact Or.inr ⟨Or.inl rfl, hs'⟩
        · exact Or.inl h
        · exact Or.inr ⟨Or.inr h1, h2⟩
      · rintro (h | ⟨rfl | h1, h2⟩)
        · exact Or.inl (Or.inr h)
        · exact Or.inl (Or.inl rfl)
        · exact Or.inr ⟨h1, h2⟩

theorem inv_step {t : Table} {ms : MinSupp} {lmax : Nat} {tie : Tie} {meas : Measure}
    (htie : TieOK tie) (hmeas : MeasLen meas) {S : List Nat} {exts : List Mask}
    (h : Inv t ms lmax S exts) (j : Nat) :
    ∃ out, step tie meas ms t.height lmax j exts (attrExtent t j) = .ok out ∧
      Inv t ms lmax (if skips ms t.height (attrExtent t j) then S else j :: S) out := by
  unfold step skips
  by_cases hall : pyAll (attrExtent t j) = true
  · simp only [hall, ↓reduceIte, Bool.true_or]
    exact ⟨_, rfl, h⟩
  · by_cases hb : ms.below t.height (count (attrExtent t j)) = true
    · simp only [hall, Bool.false_eq_true, ↓reduceIte, hb, Bool.or_true]
      exact ⟨_, rfl, h⟩
    · have hb' : ms.below t.height (count (attrExtent t j)) = false := by simpa using hb
      simp only [hall, Bool.false_eq_true, ↓reduceIte, hb', Bool.or_false]
      have hpre := invPre_stepPre htie h.toPre j hb'
      by_cases hgt : (stepPre tie ms t.height j exts (attrExtent t j)).length > lmax
      · simp only [hgt, ↓reduceIte]
        exact inv_prune hpre (hmeas _) hgt
      · simp only [hgt, ↓reduceIte]
        exact ⟨_, rfl, hpre.gen, hpre.nodup, hpre.head, hpre.last, hpre.supp, by omega⟩

theorem inv_loop {t : Table} {ms : MinSupp} {lmax : Nat} {tie : Tie} {meas : Measure}
    (htie : TieOK tie) (hmeas : MeasLen meas) (js : List Nat) :
    ∀ {S : List Nat} {exts : List Mask}, Inv t ms lmax S exts →
      ∃ out, loop tie meas ms lmax t exts js = .ok out ∧ Inv t ms lmax (applied ms t S js) out := by
  induction js with
  | nil => intro S exts h; exact ⟨exts, rfl, h⟩
  | cons j rest ih =>
    intro S exts h
    obtain ⟨out, hout, hinv⟩ := inv_step htie hmeas h j
    simp only [loop, hout, applied]
    exact ih hinv

/-- Sofia's final `extents_proj` satisfies the invariant for the set of applied projections -/
theorem inv_sofiaMasks {tie : Tie} {meas : Measure} (htie : TieOK tie) (hmeas : MeasLen meas)
    (ms : MinSupp) (lmax : Nat) (t : Table) :
    ∃ out, sofiaMasks tie meas ms lmax t = .ok out ∧
      Inv t ms lmax (applied ms t [] (List.range t.width)) out :=
  inv_loop htie hmeas _ (inv_init t ms lmax)

theorem applied_lt (ms : MinSupp) (t : Table) :
    ∀ b ∈ applied ms t [] (List.range t.width), b < t.width := by
  intro b hb
  rcases (mem_applied ms t _ _ b).mp hb with h | ⟨h, _⟩
  · cases h
  · exact List.mem_range.mp h

/-! ## both stability bounds return one value per extent -/

theorem measLen_boundLog : MeasLen boundLog := by
  intro l; simp [boundLog]

theorem measLen_boundStab (n : Nat) : MeasLen (boundStab n) := by
  intro l; simp [boundStab]

theorem measLen_measureOf (useLog : Bool) (n : Nat) : MeasLen (measureOf useLog n) := by
  unfold measureOf
  cases useLog
  · exact measLen_boundStab n
  · exact measLen_boundLog

/-! ## completeness while the limit does not bind -/

/-- every prime set of applied attributes that meets the threshold is present -/
def Complete (t : Table) (ms : MinSupp) (S : List Nat) (exts : List Mask) : Prop :=
  ∀ B : List Nat, (∀ b ∈ B, b ∈ S) → ms.below t.height (count (maskOf t B)) = false → maskOf t B ∈ exts

theorem mem_supportFilter {ms : MinSupp} {n : Nat} {l : List Mask} {e : Mask} (he : e ∈ l)
    (hm : ms.below n (count e) = false) : e ∈ supportFilter ms n l := by
  cases l with
  | nil => cases he
  | cons x xs =>
    simp only [supportFilter, List.mem_cons, List.mem_filter]
    rcases List.mem_cons.mp he with rfl | he
    · exact Or.inl rfl
    · exact Or.inr ⟨he, by simp [hm]⟩

theorem not_below_of_le {ms : MinSupp} {n c c' : Nat} (h : c' ≤ c) (hb : ms.below n c' = false) :
    ms.below n c = false := by
  cases hc : ms.below n c with
  | false => rfl
  | true => rw [below_mono h hc] at hb; cases hb

theorem complete_stepPre {t : Table} {ms : MinSupp} {tie : Tie} (htie : TieOK tie) {S : List Nat}
    {exts : List Mask} (hc : Complete t ms S exts) (j : Nat) :
    Complete t ms (j :: S) (stepPre tie ms t.height j exts (attrExtent t j)) := by
  intro B hB hm
  rw [stepPre_eq]
  apply mem_supportFilter _ hm
  apply (mem_sortedUnion htie j exts _ _).mpr
  by_cases hj : j ∈ B
  · right
    have hB0 : ∀ b ∈ B.filter (fun b => b != j), b ∈ S := by
      intro b hb
      rw [List.mem_filter] at hb
      rcases List.mem_cons.mp (hB b hb.1) with rfl | h
      · simp at hb
      · exact h
    have hsub : ∀ b ∈ B.filter (fun b => b != j), b ∈ B := fun b hb => (List.mem_filter.mp hb).1
    have hm0 := not_below_of_le (count_mono_of_subset t hsub) hm
    refine ⟨_, hc _ hB0 hm0, ?_⟩
    rw [band_maskOf_attr]
    apply maskOf_congr
    intro a
    simp only [List.mem_cons, List.mem_filter, bne_iff_ne, ne_eq]
    constructor
    · intro ha
      by_cases haj : a = j
      · exact Or.inl haj
      · exact Or.inr ⟨ha, haj⟩
    · rintro (rfl | ⟨ha, _⟩)
      · exact hj
      · exact ha
  · left
    apply hc B _ hm
    intro b hb
    rcases List.mem_cons.mp (hB b hb) with rfl | h
    · exact absurd hb hj
    · exact h

theorem complete_loop {t : Table} {ms : MinSupp} {lmax : Nat} {tie : Tie} {meas : Measure}
    (htie : TieOK tie) (js : List Nat) :
    ∀ {S : List Nat} {exts : List Mask}, neverBindsLoop tie ms lmax t exts js = true →
      Complete t ms S exts →
      ∃ out, loop tie meas ms lmax t exts js = .ok out ∧ Complete t ms (applied ms t S js) out := by
  induction js with
  | nil => intro S exts _ hc; exact ⟨exts, rfl, hc⟩
  | cons j rest ih =>
    intro S exts hnb hc
    simp only [neverBindsLoop] at hnb
    simp only [loop, applied, step]
    by_cases hs : skips ms t.height (attrExtent t j) = true
    · simp only [hs, ↓reduceIte] at hnb ⊢
      have : (if pyAll (attrExtent t j) = true then (Except.ok exts : Except PyErr (List Mask))
          else if ms.below t.height (count (attrExtent t j)) = true then Except.ok exts
          else
            let u := stepPre tie ms t.height j exts (attrExtent t j)
            if u.length > lmax then prune lmax u (meas u) else Except.ok u) = Except.ok exts := by
        unfold skips at hs
        rcases Bool.or_eq_true_iff.mp hs with h | h
        · simp [h]
        · by_cases h1 : pyAll (attrExtent t j) = true
          · simp [h1]
          · simp [h1, h]
      rw [this]
      exact ih hnb hc
    · have hs' : skips ms t.height (attrExtent t j) = false := by simpa using hs
      simp only [hs', Bool.false_eq_true, ↓reduceIte, Bool.and_eq_true, decide_eq_true_eq] at hnb ⊢
      unfold skips at hs'
      rw [Bool.or_eq_false_iff] at hs'
      have hle : ¬ (stepPre tie ms t.height j exts (attrExtent t j)).length > lmax := by omega
      simp only [hs'.1, hs'.2, Bool.false_eq_true, ↓reduceIte, hle]
      exact ih hnb.2 (complete_stepPre htie hc j)

theorem complete_init (t : Table) (ms : MinSupp) : Complete t ms [] [List.replicate t.height true] := by
  intro B hB _
  have : B = [] := by
    cases B with
    | nil => rfl
    | cons b _ => exact absurd (hB b List.mem_cons_self) (by simp)
  subst this
  rw [maskOf_nil]; simp

theorem pyAll_attrExtent {t : Table} {a : Nat} (h : pyAll (attrExtent t a) = true) :
    ∀ g, g < t.height → t.get g a = true := by
  intro g hg
  simp only [pyAll, attrExtent, List.all_map, List.all_eq_true, List.mem_range] at h
  exact h g hg

/-- dropping the skipped attributes does not change the mask of a set that meets the threshold -/
theorem maskOf_filter_applied {t : Table} {ms : MinSupp} {B : List Nat}
    (hm : ms.below t.height (count (maskOf t B)) = false) :
    maskOf t (B.filter fun a => !(skips ms t.height (attrExtent t a))) = maskOf t B := by
  apply maskOf_eq_of_extAll_eq
  apply extAll_eq_of_mem_iff
  intro g hg
  constructor
  · intro H a ha
    by_cases hs : skips ms t.height (attrExtent t a) = true
    · unfold skips at hs
      rcases Bool.or_eq_true_iff.mp hs with h | h
      · exact pyAll_attrExtent h g hg
      · exfalso
        have hle : count (maskOf t B) ≤ count (attrExtent t a) := by
          rw [attrExtent_eq_maskOf]
          exact count_mono_of_subset t (by intro x hx; have : x = a := by simpa using hx
                                           subst this; exact ha)
        rw [below_mono hle h] at hm; cases hm
    · exact H a (List.mem_filter.mpr ⟨ha, by simpa using hs⟩)
  · intro H a ha
    exact H a (List.mem_filter.mp ha).1

/-- when the limit never binds, Sofia's final extents contain the prime set of EVERY attribute set
    whose support meets the threshold -/
theorem complete_sofiaMasks {tie : Tie} {meas : Measure} (htie : TieOK tie)
    (ms : MinSupp) (lmax : Nat) (t : Table) (hnb : neverBinds tie ms lmax t = true) :
    ∃ out, sofiaMasks tie meas ms lmax t = .ok out ∧
      ∀ B : List Nat, (∀ b ∈ B, b < t.width) → ms.below t.height (count (maskOf t B)) = false →
        maskOf t B ∈ out := by
  obtain ⟨out, hout, hc⟩ := complete_loop (meas := meas) htie (List.range t.width) hnb (complete_init t ms)
  refine ⟨out, hout, ?_⟩
  intro B hB hm
  rw [← maskOf_filter_applied hm]
  apply hc
  · intro b hb
    rw [List.mem_filter] at hb
    apply (mem_applied ms t _ _ b).mpr
    exact Or.inr ⟨List.mem_range.mpr (hB b hb.1), by simpa using hb.2⟩
  · rw [maskOf_filter_applied hm]; exact hm

/-! ## from masks to concepts -/

theorem nodup_map_on {α β} {f : α → β} {l : List α} (H : ∀ x ∈ l, ∀ y ∈ l, f x = f y → x = y)
    (d : l.Nodup) : (l.map f).Nodup := by
  unfold List.Nodup at *
  rw [List.pairwise_map]
  exact d.imp_of_mem (fun hx hy hne heq => hne (H _ hx _ hy heq))

/-- closure of a prime set is the prime set -/
theorem closure_extAll {t : Table} {B : List Nat} (hB : ∀ b ∈ B, b < t.width) :
    closure t (extAll t B) = extAll t B := extAll_closureAttr t hB

/-- two prime sets with the same members are the same list -/
theorem extAll_eq_of_same_mem {t : Table} {B B' : List Nat}
    (h : ∀ g, g ∈ extAll t B ↔ g ∈ extAll t B') : extAll t B = extAll t B' := by
  apply extAll_eq_of_mem_iff
  intro g hg
  have := h g
  rw [mem_extAll, mem_extAll] at this
  constructor
  · intro H; exact (this.mp ⟨hg, H⟩).2
  · intro H; exact (this.mpr ⟨hg, H⟩).2

/-! ## decision trees -/

theorem treeExtents_nodup (M : List (List Bool)) (w : Nat) : (treeExtents M w).Nodup :=
  nodup_eraseDups _

theorem mem_treeExtents (M : List (List Bool)) (w : Nat) (A : List Nat) :
    A ∈ treeExtents M w ↔ ∃ j, j < w ∧ colSupport M j = A := by
  simp [treeExtents, List.mem_eraseDups]

/-! ## a decidable sufficient condition for "the limit never binds" -/

open Fca.Spec.C15 in
/-- before the pruning block there are at most (#concepts meeting the threshold) + 1 extents -/
theorem length_le_meeting {t : Table} {ms : MinSupp} {S : List Nat} {u : List Mask}
    (h : InvPre t ms S u) (hS : ∀ b ∈ S, b < t.width) : u.length ≤ (meeting t ms).length + 1 := by
  obtain ⟨tl, htl⟩ := h.head
  have hnd : tl.Nodup := by
    have := h.nodup; rw [htl] at this; exact (List.nodup_cons.mp this).2
  have hgen : ∀ e ∈ tl, ∃ B, (∀ b ∈ B, b < t.width) ∧ e = maskOf t B := by
    intro e he
    obtain ⟨B, hB, rfl⟩ := h.gen e (by rw [htl]; exact List.mem_cons_of_mem _ he)
    exact ⟨B, fun b hb => hS b (hB b hb), rfl⟩
  let f : Mask → List Nat × List Nat := fun e => (search1 e, intAll t (search1 e))
  have hnd' : (tl.map f).Nodup := by
    apply nodup_map_on _ hnd
    intro x hx y hy hxy
    obtain ⟨B, _, rfl⟩ := hgen x hx
    obtain ⟨B', _, rfl⟩ := hgen y hy
    simp only [f, search1_maskOf, Prod.mk.injEq] at hxy
    exact maskOf_eq_of_extAll_eq t hxy.1
  have hsub : tl.map f ⊆ meeting t ms := by
    intro c hc
    obtain ⟨e, he, rfl⟩ := List.mem_map.mp hc
    obtain ⟨B, hB, rfl⟩ := hgen e he
    have hs := h.supp (maskOf t B) (by rw [htl]; exact he)
    simp only [f, search1_maskOf, meeting, List.mem_filter, meets]
    refine ⟨(mem_allConcepts t).mpr (isConcept_of_attrs t hB), ?_⟩
    rw [count_maskOf] at hs
    simp [hs]
  have := (List.subperm_of_subset hnd' hsub).length_le
  rw [htl]
  simp only [List.length_map] at this
  simp only [List.length_cons]
  omega

open Fca.Spec.C15 in
theorem neverBindsLoop_of_count {t : Table} {ms : MinSupp} {lmax : Nat} {tie : Tie} (htie : TieOK tie)
    (hcnt : (meeting t ms).length + 1 ≤ lmax) (js : List Nat) :
    ∀ {S : List Nat} {exts : List Mask}, InvPre t ms S exts → (∀ b ∈ S, b < t.width) →
      (∀ j ∈ js, j < t.width) → neverBindsLoop tie ms lmax t exts js = true := by
  induction js with
  | nil => intros; rfl
  | cons j rest ih =>
    intro S exts h hS hjs
    simp only [neverBindsLoop]
    have hrest : ∀ j ∈ rest, j < t.width := fun x hx => hjs x (List.mem_cons_of_mem _ hx)
    by_cases hs : skips ms t.height (attrExtent t j) = true
    · simp only [hs, ↓reduceIte]
      exact ih h hS hrest
    · have hs' : skips ms t.height (attrExtent t j) = false := by simpa using hs
      simp only [hs', Bool.false_eq_true, ↓reduceIte, Bool.and_eq_true, decide_eq_true_eq]
      unfold skips at hs'
      rw [Bool.or_eq_false_iff] at hs'
      have hpre := invPre_stepPre htie h j hs'.2
      have hS' : ∀ b ∈ j :: S, b < t.width := by
        intro b hb
        rcases List.mem_cons.mp hb with rfl | hb
        · exact hjs _ List.mem_cons_self
        · exact hS b hb
      exact ⟨Nat.le_trans (length_le_meeting hpre hS') hcnt, ih hpre hS' hrest⟩

open Fca.Spec.C15 in
/-- if (#concepts meeting the threshold) + 1 ≤ L_max the pruning block never runs, whatever the tie order -/
theorem neverBinds_of_count {t : Table} {ms : MinSupp} {lmax : Nat} {tie : Tie} (htie : TieOK tie)
    (hcnt : (meeting t ms).length + 1 ≤ lmax) : neverBinds tie ms lmax t = true := by
  unfold neverBinds
  exact neverBindsLoop_of_count htie hcnt _ (inv_init t ms lmax).toPre (by simp)
    (fun j hj => List.mem_range.mp hj)

/-! ## the checker accepts when every clause holds -/

open Fca.Spec.C15 in
theorem failsExt_eq_nil {t : Table} {ms : MinSupp} {lmax : Nat} {exts : List (List Nat)}
    (h1 : (exts.all fun A => closure t A == A) = true)
    (h2 : exts.Nodup)
    (h3 : exts.contains (List.range t.height) = true)
    (h4 : (exts.any fun A0 => exts.all fun A => subset A0 A) = true)
    (h5 : (exts.all fun A => A == List.range t.height || (exts.all fun A' => subset A A')
            || meets ms t.height A) = true)
    (h6 : exts.length ≤ lmax + 2)
    (h7 : (meeting t ms).length + 1 ≤ lmax → ((meeting t ms).all fun c => exts.contains c.1) = true) :
    failsExt t ms lmax exts = [] := by
  unfold failsExt
  simp only []
  rw [if_pos h1, if_pos (by simpa using h2), if_pos h3, if_pos h4, if_pos h5, if_pos h6]
  by_cases hcnt : (meeting t ms).length + 1 ≤ lmax
  · rw [h7 hcnt]; simp
  · simp [hcnt]

/-! ## the checker through the transposed table -/

open Fca.Spec.C15 in
theorem mem_meetingT {t : Table} (hwf : t.WF) (ms : MinSupp) (c : List Nat × List Nat) :
    c ∈ meetingT t ms ↔ c ∈ meeting t ms := by
  obtain ⟨A, B⟩ := c
  simp only [meetingT, meeting, List.mem_filter, List.mem_map, Prod.mk.injEq, Prod.exists]
  constructor
  · rintro ⟨⟨B', A', hmem, rfl, rfl⟩, hm⟩
    refine ⟨?_, hm⟩
    rw [mem_allConcepts] at hmem ⊢
    rw [← isConcept_transpose t hwf]; exact hmem
  · rintro ⟨hmem, hm⟩
    refine ⟨⟨B, A, ?_, rfl, rfl⟩, hm⟩
    rw [mem_allConcepts] at hmem ⊢
    rw [isConcept_transpose t hwf]; exact hmem

open Fca.Spec.C15 in
theorem meetingT_perm {t : Table} (hwf : t.WF) (ms : MinSupp) : (meetingT t ms).Perm (meeting t ms) := by
  apply (List.perm_ext_iff_of_nodup _ _).mpr (mem_meetingT hwf ms)
  · unfold meetingT
    apply List.Nodup.sublist List.filter_sublist
    apply nodup_map_on _ (allConcepts_nodup (transpose t))
    intro x _ y _ h
    simp only [Prod.mk.injEq] at h
    exact Prod.ext h.2 h.1
  · unfold meeting
    exact List.Nodup.sublist List.filter_sublist (allConcepts_nodup t)

open Fca.Spec.C15 in
theorem failsExtT_eq {t : Table} (hwf : t.WF) (ms : MinSupp) (lmax : Nat) (exts : List (List Nat)) :
    failsExtT t ms lmax exts = failsExt t ms lmax exts := by
  have hlen := (meetingT_perm hwf ms).length_eq
  have hall : ((meetingT t ms).all fun c => exts.contains c.1) = ((meeting t ms).all fun c => exts.contains c.1) := by
    rw [Bool.eq_iff_iff, List.all_eq_true, List.all_eq_true]
    constructor
    · intro H c hc; exact H c ((mem_meetingT hwf ms c).mpr hc)
    · intro H c hc; exact H c ((mem_meetingT hwf ms c).mp hc)
  unfold failsExtT failsExt
  simp only [hlen, hall]

end Fca.SofiaApprox

/-
  Fca.Lemmas.CodecMV — the per-structure value codecs (`to_json` / `from_json`) invert each other.
-/
import Fca.Model.CodecMV
import Fca.Lemmas.CodecConcept
namespace Fca.Codec

/-- a float literal stays what it is under `float(.)` (it has a fraction, an exponent, or is inf/nan) -/
def IsFloatLit (l : Str) : Prop := floatLit l = l
instance (l : Str) : Decidable (IsFloatLit l) := by unfold IsFloatLit; infer_instance

/-- `v` is a description the pattern structure class `t` produces (and stores) -/
def Fits : PType → PVal → Prop
  | .AttributePS, .attr _ => True
  | .SetPS, .set xs => isSortedBy Atom.lt xs = true ∧ isSortedBy Atom.le xs = true
  | .IntervalPS, .interval a b => IsFloatLit a ∧ IsFloatLit b
  | .IntervalNumpyPS, .interval a b => IsFloatLit a ∧ IsFloatLit b
  | .IntervalPS, .none_ => True
  | .IntervalNumpyPS, .none_ => True
  | _, _ => False

instance (t : PType) (v : PVal) : Decidable (Fits t v) := by
  cases t <;> cases v <;> simp only [Fits] <;> infer_instance

theorem pySet_of_sorted : ∀ xs : List Atom, isSortedBy Atom.lt xs = true → pySet xs = xs
  | [], _ => rfl
  | [_], _ => rfl
  | a :: b :: r, h => by
    simp only [isSortedBy, Bool.and_eq_true] at h
    have ih := pySet_of_sorted (b :: r) h.2
    simp only [pySet, List.foldr_cons] at ih ⊢
    rw [ih]
    simp [setInsert, h.1]

theorem atoms_back (xs : List Atom) : mapME asAtom (xs.map Atom.toJV) = .ok xs := by
  have := mapME_map_ok asAtom Atom.toJV id xs (by intro a _; cases a <;> rfl)
  simpa using this

/-- tree level: `from_json ∘ to_json = id` on the descriptions of each shipped pattern structure -/
theorem fromJsonVal_toJsonVal (t : PType) (v : PVal) (h : Fits t v) :
    (toJsonVal t v).bind (fromJsonVal t) = .ok v := by
  cases t <;> cases v <;> simp only [Fits] at h <;> try rfl
  rename_i xs
  show fromJsonVal .SetPS (JV.arr ((sortedBy Atom.le xs).map Atom.toJV)) = .ok (.set xs)
  rw [sortedBy_of_sorted _ _ h.2]
  have := atoms_back xs
  unfold fromJsonVal
  simp only [this, pySet_of_sorted xs h.1]

/-- text level, under the (trusted) hypothesis that `json.loads` inverts `json.dumps` on the tree of
    this value -/
theorem fromJsonText_toJsonText (t : PType) (v : PVal) (h : Fits t v)
    (hcodec : ∀ j, toJsonVal t v = .ok j → loads (dumps j) = some j) :
    (toJsonText t v).bind (fun s => fromJsonText t (.str s)) = .ok v := by
  have hv := fromJsonVal_toJsonVal t v h
  cases hj : toJsonVal t v with
  | error e => rw [hj] at hv; cases hv
  | ok j =>
    rw [hj] at hv
    simp only [toJsonText, hj, Except.bind, fromJsonText, hcodec j hj] at hv ⊢
    exact hv

/-- constructing a pattern structure from such descriptions leaves them unchanged (`_transform_data`) -/
theorem transformVal_fits (t : PType) (v : PVal) (h : Fits t v) (hnone : v ≠ .none_) :
    transformVal t v = .ok v := by
  cases t <;> cases v <;> simp only [Fits] at h <;>
    first
    | exact absurd h id
    | exact absurd rfl hnone
    | rfl
    | (simp only [transformVal]; rw [h.1, h.2])

end Fca.Codec

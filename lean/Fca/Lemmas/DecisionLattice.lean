/-
  Lemmas for C20 (decision lattice): scaling of `sumDiff`, telescoping of the node deltas along the
  descent path, and the one-step semantics of a tree generator.
-/
import Fca.Model.DecisionLattice
namespace Fca.DL
open Fca

/-! ### scaling -/

theorem alGet_map_scale (dec : List (DKey × Rat)) (c : Rat) (k : DKey) :
    alGet (dec.map fun kv => (kv.1, kv.2 * c)) k = (alGet dec k).map (· * c) := by
  induction dec with
  | nil => rfl
  | cons kv rest ih =>
    simp only [List.map, alGet]
    split
    · rfl
    · exact ih

theorem getD_map_scale (acc : List Rat) (c : Rat) (g : Nat) :
    (acc.map (· * c)).getD g 0 = acc.getD g 0 * c := by
  simp only [List.getD_eq_getElem?_getD, List.getElem?_map]
  cases acc[g]? <;> simp [Rat.zero_mul]

theorem addAt_scale (acc : List Rat) (ext : List Nat) (d c : Rat) :
    addAt (acc.map (· * c)) ext (d * c) = (addAt acc ext d).map (· * c) := by
  unfold addAt
  simp only [List.length_map, List.map_map]
  apply List.map_congr_left
  intro g _
  simp only [Function.comp, getD_map_scale]
  split
  · rw [Rat.add_mul]
  · rfl

theorem sumDiff_scale (dec : List (DKey × Rat)) (c : Rat) (recs : List GenRec) (acc : List Rat) :
    sumDiff (dec.map fun kv => (kv.1, kv.2 * c)) recs (acc.map (· * c))
      = (sumDiff dec recs acc).map (List.map (· * c)) := by
  induction recs generalizing acc with
  | nil => rfl
  | cons r rs ih =>
    simp only [sumDiff, alGet_map_scale]
    cases alGet dec ⟨r.sup, r.concept, r.gen⟩ with
    | none => rfl
    | some d =>
      simp only [Option.map]
      rw [addAt_scale, ih]

theorem predict_imul (L : DLat) (X : Rows) (m : Nat) (order : List GenRec → List GenRec) (c : Rat) :
    predict (imul L c) X m order = (predict L X m order).map (List.map (· * c)) := by
  unfold predict imul
  simp only
  cases traceContext L.lat X m order with
  | error e => rfl
  | ok recs =>
    simp only
    have h0 : List.replicate (nObjects X) (0 : Rat) = (List.replicate (nObjects X) (0 : Rat)).map (· * c) := by
      simp [Rat.zero_mul]
    rw [h0, sumDiff_scale]
    simp [Rat.zero_mul]


/-! ### telescoping of the deltas along the descent path -/

def sumR : List Rat → Rat
  | [] => 0
  | x :: xs => x + sumR xs

theorem pathFrom_cons (t : Tree) (x : List Rat) (fuel i : Nat) :
    ∃ tl, pathFrom t x fuel i = i :: tl := by
  cases fuel with
  | zero => exact ⟨[], rfl⟩
  | succ fuel =>
    unfold pathFrom
    split
    · split
      · exact ⟨[], rfl⟩
      · split <;> exact ⟨_, rfl⟩
    · exact ⟨[], rfl⟩

/-- what `wfNode` gives at an internal node -/
theorem wfNode_internal {t : Tree} {X : Rows} {m : Nat} {nxt : Rat → Rat} {i : Nat} {l r f : Int} {thr : Rat}
    (hw : wfNode t X m nxt i = true)
    (h1 : t.left[i]? = some l) (h2 : t.right[i]? = some r) (h3 : t.feature[i]? = some f)
    (h4 : t.threshold[i]? = some thr) (hl : ¬ l = -1) :
    (i : Int) < l ∧ (i : Int) < r ∧ 0 ≤ f ∧ f < (m : Int)
    ∧ (∀ row ∈ X, row.getD f.toNat 0 ≤ thr ∨ nxt thr ≤ row.getD f.toNat 0)
    ∧ parentOf t l.toNat = some i ∧ isLeftChild t l.toNat = true
    ∧ parentOf t r.toNat = some i ∧ isLeftChild t r.toNat = false := by
  simp only [wfNode, h1, h2, h3, h4] at hw
  simp only [Bool.or_eq_true, Bool.and_eq_true, beq_iff_eq, decide_eq_true_eq, bne_iff_ne, ne_eq,
    List.all_eq_true, Bool.not_eq_true'] at hw
  rcases hw with hw | hw
  · exact absurd hw.1 hl
  · obtain ⟨⟨⟨⟨⟨⟨⟨⟨⟨⟨⟨a1, _⟩, a3⟩, _⟩, _⟩, a6⟩, a7⟩, a8⟩, a9⟩, a10⟩, a11⟩, a12⟩ := hw
    exact ⟨a1, a3, a6, a7, a8.2, a9, a10, a11, a12⟩

/-- the threshold of an internal node lies strictly below its successor -/
theorem wfNode_lt {t : Tree} {X : Rows} {m : Nat} {nxt : Rat → Rat} {i : Nat} {l r f : Int} {thr : Rat}
    (hw : wfNode t X m nxt i = true)
    (h1 : t.left[i]? = some l) (h2 : t.right[i]? = some r) (h3 : t.feature[i]? = some f)
    (h4 : t.threshold[i]? = some thr) (hl : ¬ l = -1) : thr < nxt thr := by
  simp only [wfNode, h1, h2, h3, h4] at hw
  simp only [Bool.or_eq_true, Bool.and_eq_true, beq_iff_eq, decide_eq_true_eq, bne_iff_ne, ne_eq,
    List.all_eq_true, Bool.not_eq_true'] at hw
  rcases hw with hw | hw
  · exact absurd hw.1 hl
  · exact hw.1.1.1.1.2.1

theorem telescope_tail (t : Tree) (X : Rows) (m : Nat) (nxt : Rat → Rat)
    (hlen : t.left.length = t.n) (hwf : ∀ i < t.n, wfNode t X m nxt i = true) (x : List Rat) :
    ∀ fuel i, sumR (((pathFrom t x fuel i).drop 1).map (delta t))
      = t.value.getD (descend t x fuel i) 0 - t.value.getD i 0 := by
  intro fuel
  induction fuel with
  | zero => intro i; simp [pathFrom, descend, sumR, Rat.sub_self]
  | succ fuel ih =>
    intro i
    unfold pathFrom descend
    split
    · rename_i l r f thr h1 h2 h3 h4
      split
      · simp [sumR, Rat.sub_self]
      · rename_i hl
        have hi : i < t.n := by
          rw [← hlen]
          exact (List.getElem?_eq_some_iff.mp h1).1
        obtain ⟨a1, a3, _, _, _, a9, _, a11, _⟩ := wfNode_internal (hwf i hi) h1 h2 h3 h4 hl
        split
        · obtain ⟨tl, htl⟩ := pathFrom_cons t x fuel l.toNat
          have hc := ih l.toNat
          rw [htl] at hc ⊢
          have hd : delta t l.toNat = t.value.getD l.toNat 0 - t.value.getD i 0 := by
            have : l.toNat ≠ 0 := by omega
            simp [delta, this, a9]
          simp only [List.drop_succ_cons, List.drop_zero, List.map_cons, sumR] at hc ⊢
          rw [hc, hd]
          grind
        · obtain ⟨tl, htl⟩ := pathFrom_cons t x fuel r.toNat
          have hc := ih r.toNat
          rw [htl] at hc ⊢
          have hd : delta t r.toNat = t.value.getD r.toNat 0 - t.value.getD i 0 := by
            have : r.toNat ≠ 0 := by omega
            simp [delta, this, a11]
          simp only [List.drop_succ_cons, List.drop_zero, List.map_cons, sumR] at hc ⊢
          rw [hc, hd]
          grind
    · simp [sumR, Rat.sub_self]

/-- the telescoping core: the node deltas along the root-to-leaf path of a row add up to the leaf value -/
theorem telescope (t : Tree) (X : Rows) (m : Nat) (nxt : Rat → Rat)
    (hlen : t.left.length = t.n) (hwf : ∀ i < t.n, wfNode t X m nxt i = true) (x : List Rat) :
    sumR ((pathFrom t x t.n 0).map (delta t)) = treePredict t x := by
  obtain ⟨tl, htl⟩ := pathFrom_cons t x t.n 0
  have h := telescope_tail t X m nxt hlen hwf x t.n 0
  rw [htl] at h ⊢
  simp only [List.drop_succ_cons, List.drop_zero, List.map_cons, sumR] at h ⊢
  rw [h]
  simp only [delta, treePredict, if_true]
  grind


/-! ### `sumDiff` as a sum over the records that contain a row -/

theorem sumR_perm {l1 l2 : List Rat} (h : l1.Perm l2) : sumR l1 = sumR l2 := by
  induction h with
  | nil => rfl
  | cons x _ ih => simp [sumR, ih]
  | swap x y l => simp only [sumR]; grind
  | trans _ _ ih1 ih2 => exact ih1.trans ih2

theorem addAt_length (acc : List Rat) (ext : List Nat) (d : Rat) : (addAt acc ext d).length = acc.length := by
  simp [addAt]

theorem addAt_getD (acc : List Rat) (ext : List Nat) (d : Rat) (g : Nat) (hg : g < acc.length) :
    (addAt acc ext d).getD g 0 = if ext.contains g then acc.getD g 0 + d else acc.getD g 0 := by
  simp [addAt, List.getD_eq_getElem?_getD, hg]

theorem sumDiff_spec (dec : List (DKey × Rat)) (d : Nat → Rat) (recs : List GenRec)
    (hk : ∀ r ∈ recs, alGet dec ⟨r.sup, r.concept, r.gen⟩ = some (d r.concept)) (acc : List Rat) :
    ∃ res, sumDiff dec recs acc = .ok res ∧ res.length = acc.length ∧
      ∀ g < acc.length, res.getD g 0
        = acc.getD g 0 + sumR (((recs.filter fun r => r.ext.contains g).map (·.concept)).map d) := by
  induction recs generalizing acc with
  | nil =>
    refine ⟨acc, rfl, rfl, ?_⟩
    intro g _
    simp [sumR, Rat.add_zero]
  | cons r rs ih =>
    have hr := hk r List.mem_cons_self
    obtain ⟨res, h1, h2, h3⟩ := ih (fun r' h' => hk r' (List.mem_cons_of_mem _ h')) (addAt acc r.ext (d r.concept))
    refine ⟨res, ?_, ?_, ?_⟩
    · simp only [sumDiff, hr]; exact h1
    · rw [h2, addAt_length]
    · intro g hg
      rw [h3 g (by rw [addAt_length]; exact hg), addAt_getD _ _ _ _ hg]
      simp only [List.filter_cons]
      split
      · simp only [List.map_cons, sumR]; grind
      · rfl

/-! ### one step of generator tracing -/

theorem pyIdx_ok {m : Nat} {f : Int} (h0 : 0 ≤ f) (h1 : f < (m : Int)) : pyIdx m f = .ok f.toNat := by
  unfold pyIdx
  rw [if_pos h0, if_pos (by omega)]

theorem extensionI_single (X : Rows) (m : Nat) (f : Int) (d : Descr) (base : List Nat)
    (h0 : 0 ≤ f) (h1 : f < (m : Int)) :
    extensionI X m [(f, d)] (some base) = .ok (base.filter fun g => d.sat (cell X g f.toNat)) := by
  cases base with
  | nil => rfl
  | cons b bs =>
    simp only [extensionI, extLoop, pyIdx_ok h0 h1, extPS]
    exact ite_self _

theorem sat_left (thr x : Rat) : (Descr.ivl .ninf (.fin thr)).sat x = decide (x ≤ thr) := by
  simp [Descr.sat, Descr.ends, Ext.le]

theorem sat_right (thr nthr x : Rat) (heps : thr < nthr) (hsep : x ≤ thr ∨ nthr ≤ x) :
    (Descr.ivl (.fin nthr) .pinf).sat x = !decide (x ≤ thr) := by
  simp only [Descr.sat, Descr.ends, Ext.le, Bool.and_true]
  by_cases h : x ≤ thr
  · have : ¬ (nthr ≤ x) := by grind
    simp [h, this]
  · have : nthr ≤ x := by rcases hsep with h' | h'; exact absurd h' h; exact h'
    simp [h, this]

/-- what the decidable `wellFormed` predicate provides -/
theorem wf_parts {t : Tree} {X : Rows} {m : Nat} {nxt : Rat → Rat} (h : wellFormed t X m nxt = true) :
    t.left.length = t.n ∧ (∀ i < t.n, wfNode t X m nxt i = true) := by
  simp only [wellFormed, Bool.and_eq_true, decide_eq_true_eq, List.all_eq_true, List.mem_range] at h
  obtain ⟨⟨⟨⟨⟨⟨⟨_, h2⟩, _⟩, _⟩, _⟩, _⟩, h8⟩, _⟩ := h
  exact ⟨h2, h8⟩


/-! ### inversion of `parse`: parents and deltas -/


theorem parentsList_ok (t : Tree) : ∀ (ks : List Nat) (pl : List (Option Nat)),
    parentsList t ks = .ok pl → pl = ks.map (parentOf t) ∧ ∀ k ∈ ks, (parentOf t k).isSome := by
  intro ks
  induction ks with
  | nil => intro pl h; simp [parentsList] at h; subst h; simp
  | cons k rest ih =>
    intro pl h
    simp only [parentsList] at h
    split at h
    · cases h
    · rename_i p hp
      split at h
      · cases h
      · rename_i ps hps
        cases h
        obtain ⟨h1, h2⟩ := ih ps hps
        refine ⟨by simp [hp, h1], ?_⟩
        intro k' hk'
        rcases List.mem_cons.mp hk' with rfl | hk'
        · simp [hp]
        · exact h2 k' hk'

theorem deltas_ok (t : Tree) : ∀ (ks : List Nat) (ds : List Rat),
    (∀ k ∈ ks, (parentOf t k).isSome) → 0 ∉ ks →
    deltas t.value ks (ks.map (parentOf t)) = .ok ds → ds = ks.map (delta t) := by
  intro ks
  induction ks with
  | nil => intro ds _ _ h; simp [deltas] at h; subst h; rfl
  | cons k rest ih =>
    intro ds hs h0 h
    have hk : (parentOf t k).isSome := hs k List.mem_cons_self
    obtain ⟨p, hp⟩ := Option.isSome_iff_exists.mp hk
    simp only [List.map_cons, hp, deltas] at h
    split at h
    · rename_i vk vp hvk hvp
      split at h
      · cases h
      · rename_i ds' hds
        cases h
        have hk0 : k ≠ 0 := fun e => h0 (e ▸ List.mem_cons_self)
        have := ih ds' (fun k' hk' => hs k' (List.mem_cons_of_mem _ hk'))
          (fun h' => h0 (List.mem_cons_of_mem _ h')) hds
        simp [this, delta, hk0, hp, List.getD_eq_getElem?_getD, hvk, hvp]
    · cases h


theorem parse_dtargets_eq (t : Tree) (m : Nat) (nxt : Rat → Rat) (r : Rules) (hn : 0 < t.n)
    (h : parse t m nxt = .ok r) :
    r.dtargets = (List.range t.n).map (delta t) ∧
    r.dparents = none :: ((List.range t.n).drop 1).map (parentOf t) := by
  unfold parse at h
  split at h
  · cases h
  · rename_i pl hpl
    split at h
    · cases h
    · rename_i dps ps _
      split at h
      · cases h
      · rename_i ds hds
        cases h
        obtain ⟨h1, h2⟩ := parentsList_ok t _ _ hpl
        subst h1
        have h0 : 0 ∉ nodes1 t := by
          unfold nodes1
          intro hmem
          obtain ⟨n', hn'⟩ : ∃ n', t.n = n' + 1 := ⟨t.n - 1, by omega⟩
          rw [hn', List.range_succ_eq_map] at hmem
          simp at hmem
        have hd := deltas_ok t _ _ h2 h0 hds
        subst hd
        refine ⟨?_, rfl⟩
        obtain ⟨n', hn'⟩ : ∃ n', t.n = n' + 1 := ⟨t.n - 1, by omega⟩
        have hv : t.value.take 1 = [delta t 0] := by
          unfold Tree.n at hn'
          cases hval : t.value with
          | nil => simp [hval] at hn'
          | cons v vs => simp [delta, hval]
        simp only [nodes1, hv, hn', List.range_succ_eq_map, List.drop_succ_cons, List.drop_zero,
          List.map_cons, List.singleton_append]

/-- one tracing step at an internal node: the extension of a child's generator inside any base set is the
    rows of the base whose descent step goes to that child -/
theorem trace_step (t : Tree) (X : Rows) (m : Nat) (nxt : Rat → Rat) (hwf : wellFormed t X m nxt = true)
    (i : Nat) (l r f : Int) (thr : Rat)
    (h1 : t.left[i]? = some l) (h2 : t.right[i]? = some r) (h3 : t.feature[i]? = some f)
    (h4 : t.threshold[i]? = some thr) (hl : ¬ l = -1)
    (base : List Nat) (hbase : ∀ g ∈ base, g < nObjects X) :
    extensionI X m [(f, directDescr t nxt l.toNat thr)] (some base)
        = .ok (base.filter fun g => descend t (X.getD g []) 1 i == l.toNat) ∧
    extensionI X m [(f, directDescr t nxt r.toNat thr)] (some base)
        = .ok (base.filter fun g => descend t (X.getD g []) 1 i == r.toNat) := by
  obtain ⟨hlen, hnode⟩ := wf_parts hwf
  have hi : i < t.n := by rw [← hlen]; exact (List.getElem?_eq_some_iff.mp h1).1
  obtain ⟨a1, a3, a6, a7, a8, _, a10, _, a12⟩ := wfNode_internal (hnode i hi) h1 h2 h3 h4 hl
  have heps := wfNode_lt (hnode i hi) h1 h2 h3 h4 hl
  have hne : l.toNat ≠ r.toNat := by
    have := hnode i hi
    simp only [wfNode, h1, h2, h3, h4] at this
    simp only [Bool.or_eq_true, Bool.and_eq_true, beq_iff_eq, decide_eq_true_eq, bne_iff_ne, ne_eq] at this
    rcases this with hh | hh
    · exact absurd hh.1 hl
    · have hlr : l ≠ r := hh.1.1.1.1.1.1.1.2
      omega
  have hstep : ∀ g, descend t (X.getD g []) 1 i
      = if (X.getD g []).getD f.toNat 0 ≤ thr then l.toNat else r.toNat := by
    intro g
    simp only [descend, h1, h2, h3, h4, if_neg hl]
  constructor
  · rw [extensionI_single X m f _ base a6 a7]
    congr 1
    apply List.filter_congr
    intro g _
    simp only [directDescr, a10, if_true, sat_left, hstep, cell]
    by_cases hx : (X.getD g []).getD f.toNat 0 ≤ thr
    · rw [if_pos hx, decide_eq_true hx]; simp
    · rw [if_neg hx, decide_eq_false hx]; simp [Ne.symm hne]
  · rw [extensionI_single X m f _ base a6 a7]
    congr 1
    apply List.filter_congr
    intro g hg
    have hrow : X.getD g [] ∈ X := by
      have hlt : g < X.length := hbase g hg
      simp [List.getD_eq_getElem?_getD, List.getElem?_eq_getElem hlt]
    simp only [directDescr, a12, Bool.false_eq_true, if_false, hstep, cell]
    rw [sat_right thr (nxt thr) _ heps (a8 _ hrow)]
    by_cases hx : (X.getD g []).getD f.toNat 0 ≤ thr
    · rw [if_pos hx, decide_eq_true hx]; simp [hne]
    · rw [if_neg hx, decide_eq_false hx]; simp

/-! ### the explicit-`eps` mode: the former hypothesis implies `wellFormed … (nxtEps eps)` -/

/-- the node condition of the explicit-`eps` mode as it was stated before the successor map was introduced:
    the threshold separates every row's value by at least `eps` -/
def wfNodeEps (t : Tree) (X : Rows) (m : Nat) (eps : Rat) (i : Nat) : Bool :=
  match t.left[i]?, t.right[i]?, t.feature[i]?, t.threshold[i]? with
  | some l, some r, some f, some thr =>
    (l == -1 && r == -1) ||
    (decide ((i : Int) < l) && decide (l < (t.n : Int)) && decide ((i : Int) < r) && decide (r < (t.n : Int))
      && l != r && decide (0 ≤ f) && decide (f < (m : Int))
      && X.all (fun row => decide (row.getD f.toNat 0 ≤ thr) || decide (thr + eps ≤ row.getD f.toNat 0))
      && parentOf t l.toNat == some i && isLeftChild t l.toNat
      && parentOf t r.toNat == some i && !isLeftChild t r.toNat)
  | _, _, _, _ => false

/-- the former hypothesis: `0 < eps`, the tree shape, and thresholds that separate the data by at least `eps` -/
def wellFormedEps (t : Tree) (X : Rows) (m : Nat) (eps : Rat) : Bool :=
  decide (0 < t.n) && decide (t.left.length = t.n) && decide (t.right.length = t.n)
  && decide (t.feature.length = t.n) && decide (t.threshold.length = t.n)
  && decide (0 < eps)
  && X.all (fun r => decide (r.length = m))
  && (List.range t.n).all (fun i => wfNodeEps t X m eps i)
  && ((List.range t.n).drop 1).all (fun k =>
      ((t.left ++ t.right).filter (fun c => c == (k : Int))).length == 1)

theorem wfNode_of_eps {t : Tree} {X : Rows} {m : Nat} {eps : Rat} (heps : 0 < eps) {i : Nat}
    (h : wfNodeEps t X m eps i = true) : wfNode t X m (nxtEps eps) i = true := by
  unfold wfNodeEps at h
  unfold wfNode
  split at h
  · rename_i l r f thr h1 h2 h3 h4
    simp only [h1, h2, h3, h4]
    have hlt : decide (thr < nxtEps eps thr) = true := by
      simp only [nxtEps]; grind
    simp only [Bool.or_eq_true, Bool.and_eq_true] at h ⊢
    rcases h with h | h
    · exact Or.inl h
    · refine Or.inr ?_
      obtain ⟨⟨⟨⟨⟨b1, b2⟩, b3⟩, b4⟩, b5⟩, b6⟩ := h
      exact ⟨⟨⟨⟨⟨b1, hlt, b2⟩, b3⟩, b4⟩, b5⟩, b6⟩
  · cases h

theorem wellFormed_of_eps {t : Tree} {X : Rows} {m : Nat} {eps : Rat}
    (h : wellFormedEps t X m eps = true) : wellFormed t X m (nxtEps eps) = true := by
  unfold wellFormedEps at h
  unfold wellFormed
  simp only [Bool.and_eq_true, decide_eq_true_eq, List.all_eq_true] at h ⊢
  obtain ⟨⟨⟨⟨⟨⟨⟨⟨h1, h2⟩, h3⟩, h4⟩, h5⟩, h6⟩, h7⟩, h8⟩, h9⟩ := h
  exact ⟨⟨⟨⟨⟨⟨⟨h1, h2⟩, h3⟩, h4⟩, h5⟩, h7⟩, fun i hi => wfNode_of_eps h6 (h8 i hi)⟩, h9⟩

end Fca.DL

/-
  Lemmas/SemiLatticeOrder — the `Fresh` order answers read through ELEMENTS: the set of elements an answer denotes
  depends on the element SET only, not on the listing order (so two listings of one set give `__eq__`-equal
  posets with the same descendants / ancestors / cover relation).
-/
import Fca.Lemmas.SemiLatticeFull2
set_option linter.unusedSectionVars false
set_option linter.unusedVariables false
namespace Fca.SemiLattice
open Fca Fca.Poset Fca.Poset.Fresh Fca.SemiLattice.Spec

section
variable {α : Type} [DecidableEq α] {leq : α → α → Bool} {E : List α}

/-- `y` is strictly on the `d` side of `x` (`.desc`: `y < x`, `.anc`: `y > x`) -/
def strictD (leq : α → α → Bool) (d : Dir) (y x : α) : Prop := inner leq d x y = true ∧ y ≠ x

/-- the elements denoted by a list of indexes -/
def Denotes (E : List α) (l : List Nat) (y : α) : Prop := ∃ j, j ∈ l ∧ E[j]? = some y

theorem getElem?_inj_of_nodup (hnd : E.Nodup) {i j : Nat} {x : α} (hi : E[i]? = some x) (hj : E[j]? = some x) :
    i = j := by
  have hil := (List.getElem?_eq_some_iff.mp hi).1
  have hjl := (List.getElem?_eq_some_iff.mp hj).1
  have h1 := (List.getElem?_eq_some_iff.mp hi).2
  have h2 := (List.getElem?_eq_some_iff.mp hj).2
  exact (List.getElem_inj hnd).mp (h1.trans h2.symm)

theorem ltD_elem (hnd : E.Nodup) {d : Dir} {j i : Nat} {y x : α} (hj : E[j]? = some y) (hi : E[i]? = some x) :
    ltD leq d E j i = true ↔ strictD leq d y x := by
  rw [ltD_iff, relD_elem hj hi]
  constructor
  · rintro ⟨h1, h2⟩
    exact ⟨h1, fun e => h2 (getElem?_inj_of_nodup hnd hj (e ▸ hi))⟩
  · rintro ⟨h1, h2⟩
    exact ⟨h1, fun e => h2 (by subst e; rw [hj] at hi; exact Option.some.inj hi)⟩

/-- descendants / ancestors of the element `x`, as elements: exactly the elements strictly on that side of `x` -/
theorem closed_denotes (hnd : E.Nodup) {d : Dir} {i : Nat} {x : α} (hi : E[i]? = some x) (y : α) :
    Denotes E (closed leq d E i) y ↔ y ∈ E ∧ strictD leq d y x := by
  constructor
  · rintro ⟨j, hj, hy⟩
    exact ⟨List.mem_of_getElem? hy, (ltD_elem hnd hy hi).mp (mem_closed.mp hj)⟩
  · rintro ⟨hy, hs⟩
    obtain ⟨j, hjl, hjy⟩ := List.getElem_of_mem hy
    have hj : E[j]? = some y := by rw [List.getElem?_eq_getElem hjl, hjy]
    exact ⟨j, mem_closed.mpr ((ltD_elem hnd hj hi).mpr hs), hj⟩

/-- children / parents of the element `x`, as elements: the covers -/
theorem direct_denotes (hnd : E.Nodup) {d : Dir} {i : Nat} {x : α} (hi : E[i]? = some x) (y : α) :
    Denotes E (direct leq d E i) y ↔
      y ∈ E ∧ strictD leq d y x ∧ ∀ z ∈ E, ¬ (strictD leq d y z ∧ strictD leq d z x) := by
  constructor
  · rintro ⟨j, hj, hy⟩
    obtain ⟨h1, h2⟩ := isCover_iff.mp (mem_direct.mp hj)
    refine ⟨List.mem_of_getElem? hy, (ltD_elem hnd hy hi).mp h1, fun z hz hzz => ?_⟩
    obtain ⟨k, hkl, hkz⟩ := List.getElem_of_mem hz
    have hk : E[k]? = some z := by rw [List.getElem?_eq_getElem hkl, hkz]
    exact h2 k ((ltD_elem hnd hy hk).mpr hzz.1) ((ltD_elem hnd hk hi).mpr hzz.2)
  · rintro ⟨hy, hs, hz⟩
    obtain ⟨j, hjl, hjy⟩ := List.getElem_of_mem hy
    have hj : E[j]? = some y := by rw [List.getElem?_eq_getElem hjl, hjy]
    refine ⟨j, mem_direct.mpr (isCover_iff.mpr ⟨(ltD_elem hnd hj hi).mpr hs, fun k hk1 hk2 => ?_⟩), hj⟩
    have hkl := (ltD_lt hk1).2
    have hk : E[k]? = some E[k] := List.getElem?_eq_getElem hkl
    exact hz _ (List.getElem_mem hkl) ⟨(ltD_elem hnd hj hk).mp hk1, (ltD_elem hnd hk hi).mp hk2⟩

/-- two duplicate-free listings of one element set are `POSet.__eq__`-equal -/
theorem eqOther_of_same_set {O : List α} (hnd : E.Nodup) (hndO : O.Nodup) (h : ∀ x, x ∈ E ↔ x ∈ O) :
    eqOther leq E O = true := by
  unfold eqOther
  simp only [Bool.and_eq_true, List.all_eq_true, decide_eq_true_eq, List.mem_range]
  refine ⟨⟨fun x hx => (h x).mp hx, fun x hx => (h x).mpr hx⟩, fun i hi => ?_⟩
  unfold eqAt
  have hie : E[i]? = some E[i] := List.getElem?_eq_getElem hi
  rw [hie]
  simp only
  obtain ⟨oi, hoi⟩ := indexOf?_some_of_mem ((h _).mp (List.getElem_mem hi))
  have hoie := indexOf?_spec hoi
  rw [hoi]
  simp only [setEq, Bool.and_eq_true, List.all_eq_true, decide_eq_true_eq]
  -- membership in the other poset's descendants, mapped to our indexes
  have hmem : ∀ x, x ∈ otherDescMapped leq O E oi ↔ x ∈ closed leq .desc E i := by
    intro x
    unfold otherDescMapped
    simp only [List.mem_filterMap]
    constructor
    · rintro ⟨j, hj, hx⟩
      unfold otherDesc at hj
      simp only [List.mem_filter, List.mem_range, Bool.and_eq_true, bne_iff_ne, ne_eq] at hj
      obtain ⟨hjl, hle, hne⟩ := hj
      have hje : O[j]? = some O[j] := List.getElem?_eq_getElem hjl
      rw [hje] at hx
      simp only at hx
      rw [hje, hoie] at hle
      simp only at hle
      have hxe := indexOf?_spec hx
      refine mem_closed.mpr ((ltD_elem hnd hxe hie).mpr ⟨hle, fun e => hne ?_⟩)
      exact getElem?_inj_of_nodup hndO hje (e ▸ hoie)
    · intro hx
      have hxl := (ltD_lt (mem_closed.mp hx)).1
      have hxe : E[x]? = some E[x] := List.getElem?_eq_getElem hxl
      obtain ⟨hle, hne⟩ := (ltD_elem hnd hxe hie).mp (mem_closed.mp hx)
      obtain ⟨j, hjl, hjx⟩ := List.getElem_of_mem ((h _).mp (List.getElem_mem hxl))
      have hje : O[j]? = some E[x] := by rw [List.getElem?_eq_getElem hjl, hjx]
      refine ⟨j, ?_, ?_⟩
      · unfold otherDesc
        simp only [List.mem_filter, List.mem_range, Bool.and_eq_true, bne_iff_ne, ne_eq]
        refine ⟨hjl, ?_, fun e => hne ?_⟩
        · rw [hje, hoie]; exact hle
        · subst e; rw [hje] at hoie; exact Option.some.inj hoie
      · rw [hje]
        simp only
        exact indexOf?_getElem hnd hxl
  exact ⟨fun x hx => (hmem x).mpr hx, fun x hx => (hmem x).mp hx⟩

end
end Fca.SemiLattice

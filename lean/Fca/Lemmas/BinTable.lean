/-
  Fca.Lemmas.BinTable — per-backend lemmas: each backend's `all/any` (per row,
  per column, with the early `break`s and masks) computes the plain quantifier.
-/
import Fca.Model.BinTable
namespace Fca

/-! ### generic list facts -/

theorem pyAll_map {α} (xs : List α) (f : α → Bool) : pyAll (xs.map f) = xs.all f := by
  simp [pyAll, List.all_map]

theorem pyAny_map {α} (xs : List α) (f : α → Bool) : pyAny (xs.map f) = xs.any f := by
  simp [pyAny, List.any_map]

theorem zipFilter_map (idx : List Nat) (p : Nat → Bool) :
    zipFilter idx (idx.map p) = idx.filter p := by
  induction idx with
  | nil => rfl
  | cons x xs ih =>
    simp only [zipFilter, List.map_cons, List.zip_cons_cons, List.filterMap_cons, List.filter_cons] at *
    cases h : p x <;> simp [ih]

theorem zipWith_map_self {α β γ} (xs : List α) (f : α → β) (g : β → α → γ) :
    List.zipWith g (xs.map f) xs = xs.map fun x => g (f x) x := by
  induction xs with
  | nil => rfl
  | cons x xs ih => simp [ih]

theorem replicate_eq_map {α β} (xs : List α) (b : β) : List.replicate xs.length b = xs.map fun _ => b := by
  induction xs with
  | nil => rfl
  | cons x xs ih => simp [List.replicate_succ, ih]

theorem search1_map_range (n : Nat) (p : Nat → Bool) :
    search1 ((List.range n).map p) = (List.range n).filter p := by
  unfold search1
  simp only [List.length_map, List.length_range]
  apply List.filter_congr
  intro i hi
  have : i < n := List.mem_range.mp hi
  simp [List.getD_eq_getElem?_getD, List.getElem?_map, List.getElem?_range this]

/-- positions picked out of `idx` by the set bits of `idx.map p` are `idx.filter p` -/
theorem search1_pick (idx : List Nat) (p : Nat → Bool) :
    (search1 (idx.map p)).map (fun i => idx.getD i 0) = idx.filter p := by
  induction idx with
  | nil => rfl
  | cons x xs ih =>
    unfold search1 at *
    simp only [List.map_cons, List.length_cons, List.length_map] at *
    rw [List.range_succ_eq_map, List.filter_cons]
    simp only [List.getD_cons_zero, List.filter_map, List.map_map]
    have hcomp : ((fun i => (p x :: List.map p xs).getD i false) ∘ Nat.succ)
        = fun i => (List.map p xs).getD i false := by
      funext i; simp
    have hcomp2 : ((fun i => (x :: xs).getD i 0) ∘ Nat.succ) = fun i => xs.getD i 0 := by
      funext i; simp
    rw [hcomp, List.filter_cons]
    cases hp : p x
    · simp only [Bool.false_eq_true, ↓reduceIte, List.map_map, hcomp2, ih]
    · simp only [↓reduceIte, List.map_cons, List.getD_cons_zero, List.map_map, hcomp2, ih]

/-! ### well-formed tables: a row is the map of `get` over the width -/

theorem Table.row_eq_map (t : Table) (h : t.WF) {i : Nat} (hi : i < t.height) :
    t.row i = (List.range t.width).map (t.get i) := by
  have hmem : t.row i ∈ t.data := by
    unfold Table.row
    rw [List.getD_eq_getElem?_getD, List.getElem?_eq_getElem hi]
    simp only [Option.getD_some]
    exact List.getElem_mem hi
  have hlen : (t.row i).length = t.width := h _ hmem
  apply List.ext_getElem
  · simp [hlen]
  · intro k h1 h2
    simp [Table.get, List.getD_eq_getElem?_getD, List.getElem?_eq_getElem h1]

theorem Table.row_getD_of_ge (t : Table) (h : t.WF) {i j : Nat} (hi : i < t.height) (hj : t.width ≤ j) :
    t.get i j = false := by
  have hmem : t.row i ∈ t.data := by
    unfold Table.row
    rw [List.getD_eq_getElem?_getD, List.getElem?_eq_getElem hi]
    simp only [Option.getD_some]
    exact List.getElem_mem hi
  have hlen : (t.row i).length = t.width := h _ hmem
  unfold Table.get
  rw [List.getD_eq_getElem?_getD, List.getElem?_eq_none (by omega)]
  rfl

/-! ### BinTableLists -/
namespace L

theorem allPerRow_eq (t : Table) (h : t.WF) (rows : List Nat) (hr : ∀ i ∈ rows, i < t.height)
    (cols : Option (List Nat)) :
    allPerRow t (some rows) cols
      = rows.map fun i => (cols.getD (List.range t.width)).all fun j => t.get i j := by
  cases cols with
  | none =>
    simp only [allPerRow, rowsOf, Option.getD_some, Option.getD_none]
    apply List.map_congr_left
    intro i hi
    rw [Table.row_eq_map t h (hr i hi), pyAll_map]
  | some cs =>
    simp only [allPerRow, rowsOf, Option.getD_some, pyAll_map]

theorem anyPerRow_eq (t : Table) (h : t.WF) (rows : List Nat) (hr : ∀ i ∈ rows, i < t.height)
    (cols : Option (List Nat)) :
    anyPerRow t (some rows) cols
      = rows.map fun i => (cols.getD (List.range t.width)).any fun j => t.get i j := by
  cases cols with
  | none =>
    simp only [anyPerRow, rowsOf, Option.getD_some, Option.getD_none]
    apply List.map_congr_left
    intro i hi
    rw [Table.row_eq_map t h (hr i hi), pyAny_map]
  | some cs =>
    simp only [anyPerRow, rowsOf, Option.getD_some, pyAny_map]

theorem allPerColumnLoop_eq (t : Table) (cs : List Nat) (rows : List Nat) (f : Nat → Bool) :
    allPerColumnLoop t cs rows (cs.map f)
      = cs.map fun c => f c && rows.all fun i => t.get i c := by
  induction rows generalizing f with
  | nil => simp [allPerColumnLoop]
  | cons i rest ih =>
    simp only [allPerColumnLoop, zipWith_map_self]
    split
    · rename_i hstop
      apply List.map_congr_left
      intro c hc
      rw [pyAny_map] at hstop
      have hfalse : (f c && t.get i c) = false := by
        have := hstop
        simp only [Bool.not_eq_true', List.any_eq_false] at this
        simpa using this c hc
      simp only [List.all_cons]
      rw [← Bool.and_assoc, hfalse]; simp
    · rw [ih (fun c => f c && t.get i c)]
      apply List.map_congr_left
      intro c _
      simp [List.all_cons, Bool.and_assoc]

theorem allPerColumn_eq (t : Table) (rows : List Nat) (cols : Option (List Nat)) :
    allPerColumn t (some rows) cols
      = (cols.getD (List.range t.width)).map fun c => rows.all fun i => t.get i c := by
  simp only [allPerColumn, rowsOf, Option.getD_some]
  rw [replicate_eq_map, allPerColumnLoop_eq]
  simp

theorem anyPerColumnLoop_eq (t : Table) (cs : List Nat) (rows : List Nat) (f : Nat → Bool) :
    anyPerColumnLoop t cs rows (cs.map f)
      = cs.map fun c => f c || rows.any fun i => t.get i c := by
  induction rows generalizing f with
  | nil => simp [anyPerColumnLoop]
  | cons i rest ih =>
    simp only [anyPerColumnLoop, zipWith_map_self]
    split
    · rename_i hstop
      apply List.map_congr_left
      intro c hc
      rw [pyAll_map] at hstop
      have htrue : (f c || t.get i c) = true := by
        simp only [List.all_eq_true] at hstop
        exact hstop c hc
      simp only [List.any_cons]
      rw [← Bool.or_assoc, htrue]; simp
    · rw [ih (fun c => f c || t.get i c)]
      apply List.map_congr_left
      intro c _
      simp [List.any_cons, Bool.or_assoc]

theorem anyPerColumn_eq (t : Table) (rows : List Nat) (cols : Option (List Nat)) :
    anyPerColumn t (some rows) cols
      = (cols.getD (List.range t.width)).map fun c => rows.any fun i => t.get i c := by
  simp only [anyPerColumn, rowsOf, Option.getD_some]
  rw [replicate_eq_map, anyPerColumnLoop_eq]
  simp

end L

end Fca

namespace Fca

theorem zipWith_map_map_self {α β γ δ} (xs : List α) (f : α → β) (g : α → γ) (h : β → γ → δ) :
    List.zipWith h (xs.map f) (xs.map g) = xs.map fun x => h (f x) (g x) := by
  induction xs with
  | nil => rfl
  | cons x xs ih => simp [ih]

theorem getD_map_range {n : Nat} (f : Nat → Bool) {c : Nat} (hc : c < n) :
    ((List.range n).map f).getD c false = f c := by
  simp [List.getD_eq_getElem?_getD, List.getElem?_map, List.getElem?_range hc]

/-! ### BinTableBitarray -/
namespace B

/-- the column predicate a mask encodes -/
def maskPred : Option (List Nat) → Nat → Bool
  | none, _ => true
  | some cs, c => cs.contains c

theorem allPerRow_eq (t : Table) (h : t.WF) (rows : List Nat) (hr : ∀ i ∈ rows, i < t.height)
    (cols : Option (List Nat)) (hc : ∀ cs, cols = some cs → ∀ c ∈ cs, c < t.width) :
    allPerRow t (some rows) cols
      = rows.map fun i => (cols.getD (List.range t.width)).all fun j => t.get i j := by
  cases cols with
  | none =>
    simp only [allPerRow, rowsOf, Option.getD_some, Option.getD_none]
    apply List.map_congr_left
    intro i hi
    rw [Table.row_eq_map t h (hr i hi), pyAll_map]
  | some cs =>
    simp only [allPerRow, rowsOf, Option.getD_some]
    apply List.map_congr_left
    intro i hi
    rw [Table.row_eq_map t h (hr i hi)]
    simp only [bor, maskNotIn, zipWith_map_map_self, pyAll_map]
    rw [Bool.eq_iff_iff]
    simp only [List.all_eq_true, List.mem_range, Bool.or_eq_true, Bool.not_eq_true',
      List.contains_eq_mem, decide_eq_false_iff_not]
    constructor
    · intro H c hcm
      rcases H c (hc cs rfl c hcm) with h1 | h1
      · exact h1
      · exact absurd hcm (by simpa using h1)
    · intro H j _
      by_cases hj : j ∈ cs
      · exact Or.inl (H j hj)
      · exact Or.inr (by simpa using hj)

theorem anyPerRow_eq (t : Table) (h : t.WF) (rows : List Nat) (hr : ∀ i ∈ rows, i < t.height)
    (cols : Option (List Nat)) (hc : ∀ cs, cols = some cs → ∀ c ∈ cs, c < t.width) :
    anyPerRow t (some rows) cols
      = rows.map fun i => (cols.getD (List.range t.width)).any fun j => t.get i j := by
  cases cols with
  | none =>
    simp only [anyPerRow, rowsOf, Option.getD_some, Option.getD_none]
    apply List.map_congr_left
    intro i hi
    rw [Table.row_eq_map t h (hr i hi), pyAny_map]
  | some cs =>
    simp only [anyPerRow, rowsOf, Option.getD_some]
    apply List.map_congr_left
    intro i hi
    rw [Table.row_eq_map t h (hr i hi)]
    simp only [band, maskIn, zipWith_map_map_self, pyAny_map]
    rw [Bool.eq_iff_iff]
    simp only [List.any_eq_true, List.mem_range, Bool.and_eq_true, List.contains_eq_mem,
      decide_eq_true_eq]
    constructor
    · rintro ⟨j, _, h1, h2⟩
      exact ⟨j, h2, h1⟩
    · rintro ⟨j, h1, h2⟩
      exact ⟨j, hc cs rfl j h1, h2, h1⟩

/-- the `&=` accumulator with its masked early `break`: on every column the mask keeps,
    the result is the plain conjunction over the rows. -/
theorem allPerColumnLoop_spec (t : Table) (h : t.WF) (sel : Option (List Nat))
    (rows : List Nat) (hr : ∀ i ∈ rows, i < t.height) (f : Nat → Bool) :
    ∃ f' : Nat → Bool,
      allPerColumnLoop t (sel.map (maskIn t)) rows ((List.range t.width).map f)
        = (List.range t.width).map f' ∧
      ∀ c, c < t.width → maskPred sel c = true → f' c = (f c && rows.all fun i => t.get i c) := by
  induction rows generalizing f with
  | nil => exact ⟨f, by simp [allPerColumnLoop], by intro c _ _; simp⟩
  | cons i rest ih =>
    have hi : i < t.height := hr i (List.mem_cons_self)
    have hrest : ∀ k ∈ rest, k < t.height := fun k hk => hr k (List.mem_cons_of_mem _ hk)
    simp only [allPerColumnLoop]
    rw [Table.row_eq_map t h hi]
    simp only [band, zipWith_map_map_self]
    by_cases hstop : stopAll (sel.map (maskIn t)) ((List.range t.width).map fun x => f x && t.get i x) = true
    · simp only [hstop, if_true]
      refine ⟨fun c => f c && t.get i c, rfl, ?_⟩
      intro c hcw hm
      have hfalse : (f c && t.get i c) = false := by
        cases sel with
        | none =>
          simp only [Option.map_none, stopAll, pyAny_map, Bool.not_eq_true', List.any_eq_false,
            List.mem_range] at hstop
          simpa using hstop c hcw
        | some cs =>
          simp only [Option.map_some, stopAll, band, maskIn, zipWith_map_map_self, pyAny_map, Bool.not_eq_true',
            List.any_eq_false, List.mem_range] at hstop
          have := hstop c hcw
          simp only [maskPred, List.contains_eq_mem, decide_eq_true_eq] at hm
          simpa [hm] using this
      simp only [List.all_cons]
      rw [← Bool.and_assoc, hfalse]; simp
    · simp only [hstop, if_false, Bool.false_eq_true]
      obtain ⟨f', h1, h2⟩ := ih hrest (fun c => f c && t.get i c)
      refine ⟨f', h1, ?_⟩
      intro c hcw hm
      rw [h2 c hcw hm]
      simp [List.all_cons, Bool.and_assoc]

theorem allPerColumn_eq (t : Table) (h : t.WF) (rows : List Nat) (hr : ∀ i ∈ rows, i < t.height)
    (cols : Option (List Nat)) (hc : ∀ cs, cols = some cs → ∀ c ∈ cs, c < t.width) :
    allPerColumn t (some rows) cols
      = (cols.getD (List.range t.width)).map fun c => rows.all fun i => t.get i c := by
  have hrep : List.replicate t.width true = (List.range t.width).map fun _ => true := by
    have := replicate_eq_map (List.range t.width) true
    simpa using this
  cases cols with
  | none =>
    obtain ⟨f', h1, h2⟩ := allPerColumnLoop_spec t h none rows hr (fun _ => true)
    simp only [allPerColumn, rowsOf, Option.getD_some, Option.getD_none, hrep]
    simp only [Option.map_none] at h1
    rw [h1]
    apply List.map_congr_left
    intro c hcm
    rw [h2 c (List.mem_range.mp hcm) rfl]; simp
  | some cs =>
    obtain ⟨f', h1, h2⟩ := allPerColumnLoop_spec t h (some cs) rows hr (fun _ => true)
    simp only [allPerColumn, rowsOf, Option.getD_some, hrep]
    simp only [Option.map_some] at h1
    rw [h1]
    apply List.map_congr_left
    intro c hcm
    have hcw := hc cs rfl c hcm
    rw [getD_map_range f' hcw, h2 c hcw (by simpa [maskPred] using hcm)]; simp

/-- dual mask predicate for `_any_per_column` (it breaks on `(vals | notin).all()`). -/
theorem anyPerColumnLoop_spec (t : Table) (h : t.WF) (sel : Option (List Nat))
    (rows : List Nat) (hr : ∀ i ∈ rows, i < t.height) (f : Nat → Bool) :
    ∃ f' : Nat → Bool,
      anyPerColumnLoop t (sel.map (maskNotIn t)) rows ((List.range t.width).map f)
        = (List.range t.width).map f' ∧
      ∀ c, c < t.width → maskPred sel c = true → f' c = (f c || rows.any fun i => t.get i c) := by
  induction rows generalizing f with
  | nil => exact ⟨f, by simp [anyPerColumnLoop], by intro c _ _; simp⟩
  | cons i rest ih =>
    have hi : i < t.height := hr i (List.mem_cons_self)
    have hrest : ∀ k ∈ rest, k < t.height := fun k hk => hr k (List.mem_cons_of_mem _ hk)
    simp only [anyPerColumnLoop]
    rw [Table.row_eq_map t h hi]
    simp only [bor, zipWith_map_map_self]
    by_cases hstop : stopAny (sel.map (maskNotIn t)) ((List.range t.width).map fun x => f x || t.get i x) = true
    · simp only [hstop, if_true]
      refine ⟨fun c => f c || t.get i c, rfl, ?_⟩
      intro c hcw hm
      have htrue : (f c || t.get i c) = true := by
        cases sel with
        | none =>
          simp only [Option.map_none, stopAny, pyAll_map, List.all_eq_true, List.mem_range] at hstop
          exact hstop c hcw
        | some cs =>
          simp only [Option.map_some, stopAny, bor, maskNotIn, zipWith_map_map_self, pyAll_map,
            List.all_eq_true, List.mem_range] at hstop
          have := hstop c hcw
          simp only [maskPred, List.contains_eq_mem, decide_eq_true_eq] at hm
          simpa [hm] using this
      simp only [List.any_cons]
      rw [← Bool.or_assoc, htrue]; simp
    · simp only [hstop, if_false, Bool.false_eq_true]
      obtain ⟨f', h1, h2⟩ := ih hrest (fun c => f c || t.get i c)
      refine ⟨f', h1, ?_⟩
      intro c hcw hm
      rw [h2 c hcw hm]
      simp [List.any_cons, Bool.or_assoc]

theorem anyPerColumn_eq (t : Table) (h : t.WF) (rows : List Nat) (hr : ∀ i ∈ rows, i < t.height)
    (cols : Option (List Nat)) (hc : ∀ cs, cols = some cs → ∀ c ∈ cs, c < t.width) :
    anyPerColumn t (some rows) cols
      = (cols.getD (List.range t.width)).map fun c => rows.any fun i => t.get i c := by
  have hrep : List.replicate t.width false = (List.range t.width).map fun _ => false := by
    have := replicate_eq_map (List.range t.width) false
    simpa using this
  cases cols with
  | none =>
    obtain ⟨f', h1, h2⟩ := anyPerColumnLoop_spec t h none rows hr (fun _ => false)
    simp only [anyPerColumn, rowsOf, Option.getD_some, Option.getD_none, hrep]
    simp only [Option.map_none] at h1
    rw [h1]
    apply List.map_congr_left
    intro c hcm
    rw [h2 c (List.mem_range.mp hcm) rfl]; simp
  | some cs =>
    obtain ⟨f', h1, h2⟩ := anyPerColumnLoop_spec t h (some cs) rows hr (fun _ => false)
    simp only [anyPerColumn, rowsOf, Option.getD_some, hrep]
    simp only [Option.map_some] at h1
    rw [h1]
    apply List.map_congr_left
    intro c hcm
    have hcw := hc cs rfl c hcm
    rw [getD_map_range f' hcw, h2 c hcw (by simpa [maskPred] using hcm)]; simp

end B

/-! ### BinTableNumpy -/
namespace N

theorem allAxis1_eq (t : Table) (h : t.WF) (rows : List Nat) (hr : ∀ i ∈ rows, i < t.height)
    (cols : Option (List Nat)) :
    allAxis t 1 (some rows) cols
      = rows.map fun i => (cols.getD (List.range t.width)).all fun j => t.get i j := by
  cases cols with
  | none =>
    simp only [allAxis, slice, allAxis1, List.map_map, Option.getD_none]
    simp only [Nat.one_ne_zero, ↓reduceIte]
    apply List.map_congr_left
    intro i hi
    simp only [Function.comp]
    rw [Table.row_eq_map t h (hr i hi), pyAll_map]
  | some cs =>
    simp only [allAxis, slice, allAxis1, List.map_map, Option.getD_some]
    simp only [Nat.one_ne_zero, ↓reduceIte]
    apply List.map_congr_left
    intro i _
    simp only [Function.comp, pyAll_map, Table.get]

theorem anyAxis1_eq (t : Table) (h : t.WF) (rows : List Nat) (hr : ∀ i ∈ rows, i < t.height)
    (cols : Option (List Nat)) :
    anyAxis t 1 (some rows) cols
      = rows.map fun i => (cols.getD (List.range t.width)).any fun j => t.get i j := by
  cases cols with
  | none =>
    simp only [anyAxis, slice, anyAxis1, List.map_map, Option.getD_none]
    simp only [Nat.one_ne_zero, ↓reduceIte]
    apply List.map_congr_left
    intro i hi
    simp only [Function.comp]
    rw [Table.row_eq_map t h (hr i hi), pyAny_map]
  | some cs =>
    simp only [anyAxis, slice, anyAxis1, List.map_map, Option.getD_some]
    simp only [Nat.one_ne_zero, ↓reduceIte]
    apply List.map_congr_left
    intro i _
    simp only [Function.comp, pyAny_map, Table.get]

theorem getD_map_of_lt {cs : List Nat} (g : Nat → Bool) {k : Nat} (hk : k < cs.length) :
    (cs.map g).getD k false = g (cs.getD k 0) := by
  simp [List.getD_eq_getElem?_getD, List.getElem?_map, List.getElem?_eq_getElem hk]

theorem map_range_length_getD (cs : List Nat) (g : Nat → Bool) :
    (List.range cs.length).map (fun k => g (cs.getD k 0)) = cs.map g := by
  apply List.ext_getElem
  · simp
  · intro k h1 h2
    simp [List.getD_eq_getElem?_getD, List.getElem?_eq_getElem (by simpa using h1 : k < cs.length)]

theorem allAxis0_eq (t : Table) (rows : List Nat) (cols : Option (List Nat)) :
    allAxis t 0 (some rows) cols
      = (cols.getD (List.range t.width)).map fun c => rows.all fun i => t.get i c := by
  cases cols with
  | none =>
    simp only [allAxis, slice, allAxis0, ↓reduceIte, Option.getD_none, List.all_map]
    rfl
  | some cs =>
    simp only [allAxis, slice, allAxis0, ↓reduceIte, Option.getD_some, List.all_map]
    rw [← map_range_length_getD cs (fun c => rows.all fun i => t.get i c)]
    apply List.map_congr_left
    intro k hk
    have hk' : k < cs.length := List.mem_range.mp hk
    apply List.all_congr rfl
    intro i
    simp only [Function.comp]
    rw [getD_map_of_lt (fun j => (t.row i).getD j false) hk']
    rfl

theorem anyAxis0_eq (t : Table) (rows : List Nat) (cols : Option (List Nat)) :
    anyAxis t 0 (some rows) cols
      = (cols.getD (List.range t.width)).map fun c => rows.any fun i => t.get i c := by
  cases cols with
  | none =>
    simp only [anyAxis, slice, anyAxis0, ↓reduceIte, Option.getD_none, List.any_map]
    rfl
  | some cs =>
    simp only [anyAxis, slice, anyAxis0, ↓reduceIte, Option.getD_some, List.any_map]
    rw [← map_range_length_getD cs (fun c => rows.any fun i => t.get i c)]
    apply List.map_congr_left
    intro k hk
    have hk' : k < cs.length := List.mem_range.mp hk
    apply List.any_congr rfl
    intro i
    simp only [Function.comp]
    rw [getD_map_of_lt (fun j => (t.row i).getD j false) hk']
    rfl

end N
end Fca

/-
  Fca.Lemmas.LatticeQueryPruned — the order queries on a *pruned* lattice: any duplicate-free list of formal
  concepts of one table (e.g. what remains after `del L[i]` / `L.remove(c)`), not necessarily all of them.
  The concept comparison is still a partial order = extent inclusion, so descendants / ancestors / children /
  parents are the strict sub-extents / super-extents and the covers *within the list*.
-/
import Fca.Lemmas.LatticeQueryConcept
namespace Fca.LQ
open Fca Fca.Spec

/-- `cs` is a duplicate-free list of formal concepts of `t` (any subset of them, in any order) -/
def IsConceptSub (t : Table) (cs : Lat) : Prop :=
  cs.Nodup ∧ ∀ c ∈ cs, isConcept t c.1 c.2 = true

instance (t : Table) (cs : Lat) : Decidable (IsConceptSub t cs) := by
  unfold IsConceptSub; infer_instance

theorem isConceptSub_iff_bool (t : Table) (cs : Lat) :
    Spec.isConceptSub t cs = true ↔ IsConceptSub t cs := by
  simp [Spec.isConceptSub, IsConceptSub, List.all_eq_true]

theorem IsConceptList.toSub {t : Table} {cs : Lat} (H : IsConceptList t cs) : IsConceptSub t cs :=
  ⟨H.nodup, fun _ hc => H.mem_iff.mp hc⟩

/-- removing elements keeps a pruned concept list -/
theorem IsConceptSub.sublist {t : Table} {cs cs' : Lat} (H : IsConceptSub t cs) (h : cs'.Sublist cs) :
    IsConceptSub t cs' :=
  ⟨List.Nodup.sublist h H.1, fun c hc => H.2 c (h.subset hc)⟩

namespace IsConceptSub
variable {t : Table} {cs : Lat} (H : IsConceptSub t cs)
include H

theorem isConcept {i : Nat} (hi : i < cs.length) : Spec.isConcept t (extOf cs i) (intOf cs i) = true :=
  H.2 _ (conc_mem hi)

theorem ext_eq {i : Nat} (hi : i < cs.length) : extAll t (intOf cs i) = extOf cs i :=
  ((isConcept_iff t).mp (H.isConcept hi)).1

theorem int_eq {i : Nat} (hi : i < cs.length) : intAll t (extOf cs i) = intOf cs i :=
  ((isConcept_iff t).mp (H.isConcept hi)).2

theorem ext_nodup {i : Nat} (hi : i < cs.length) : (extOf cs i).Nodup := by
  rw [← H.ext_eq hi]; exact extAll_nodup t _

theorem ext_sorted {i : Nat} (hi : i < cs.length) : (extOf cs i).Pairwise (· < ·) := by
  rw [← H.ext_eq hi]; exact extAll_sorted t _

theorem ext_lt {i : Nat} (hi : i < cs.length) : ∀ g ∈ extOf cs i, g < t.height := by
  rw [← H.ext_eq hi]; exact extAll_lt t

theorem int_lt {i : Nat} (hi : i < cs.length) : ∀ a ∈ intOf cs i, a < t.width := by
  rw [← H.int_eq hi]; exact intAll_lt t

theorem ext_inj {i j : Nat} (hi : i < cs.length) (hj : j < cs.length)
    (h : extOf cs i = extOf cs j) : i = j := by
  have hc : conc cs i = conc cs j := by
    apply Prod.ext
    · exact h
    · show intOf cs i = intOf cs j
      rw [← H.int_eq hi, ← H.int_eq hj, h]
  exact (List.getD_inj hi hj H.1).mp hc

theorem leq_iff {i : Nat} (hi : i < cs.length) (j : Nat) :
    leq cs i j = true ↔ ∀ g ∈ extOf cs i, g ∈ extOf cs j :=
  conceptLe_iff (H.ext_nodup hi)

theorem leq_antisymm {i j : Nat} (hi : i < cs.length) (hj : j < cs.length)
    (h₁ : leq cs i j = true) (h₂ : leq cs j i = true) : i = j := by
  apply H.ext_inj hi hj
  apply PQ.sorted_ext (H.ext_sorted hi) (H.ext_sorted hj)
  intro x
  exact ⟨(H.leq_iff hi j).mp h₁ x, (H.leq_iff hj i).mp h₂ x⟩

theorem isPO : PQ.IsPO (leq cs) cs.length where
  refl := fun a ha => (H.leq_iff ha a).mpr (fun _ h => h)
  trans := fun _ _ _ h₁ h₂ => conceptLe_trans h₁ h₂
  antisymm := fun _ _ ha hb h₁ h₂ => H.leq_antisymm ha hb h₁ h₂

theorem lt_iff_ssubset {i j : Nat} (hi : i < cs.length) (hj : j < cs.length) :
    (leq cs j i = true ∧ j ≠ i) ↔ Spec.ssubset (extOf cs j) (extOf cs i) = true := by
  rw [ssubset_iff, H.leq_iff hj i]
  constructor
  · rintro ⟨hle, hne⟩
    refine ⟨hle, fun hback => hne ?_⟩
    exact H.leq_antisymm hj hi ((H.leq_iff hj i).mpr hle) ((H.leq_iff hi j).mpr hback)
  · rintro ⟨hle, hnb⟩
    refine ⟨hle, ?_⟩
    rintro rfl
    exact hnb (fun _ h => h)

/-! ### the four relations within the list -/

theorem descendants_eq (i : Nat) (hi : i < cs.length) :
    descendants cs i = Spec.strictSub (cs.map (·.1)) i := by
  unfold descendants PQ.descendants Spec.strictSub
  rw [List.length_map]
  apply List.filter_congr
  intro j hj
  have hjn := List.mem_range.mp hj
  rw [exts_getD, exts_getD, Bool.eq_iff_iff, Bool.and_eq_true, bne_iff_ne]
  exact H.lt_iff_ssubset hi hjn

theorem ancestors_eq (i : Nat) (hi : i < cs.length) :
    ancestors cs i = Spec.strictSuper (cs.map (·.1)) i := by
  unfold ancestors PQ.ancestors Spec.strictSuper
  rw [List.length_map]
  apply List.filter_congr
  intro j hj
  have hjn := List.mem_range.mp hj
  rw [exts_getD, exts_getD, Bool.eq_iff_iff, Bool.and_eq_true, bne_iff_ne]
  constructor
  · rintro ⟨h, hne⟩
    exact (H.lt_iff_ssubset hjn hi).mp ⟨h, fun e => hne e.symm⟩
  · intro h
    have := (H.lt_iff_ssubset hjn hi).mpr h
    exact ⟨this.1, fun e => this.2 e.symm⟩

theorem children_eq {ord : List Nat → List Nat} (ho : PQ.IsOrder ord) (i : Nat) (hi : i < cs.length) :
    children cs ord i = Spec.lowerCovers (cs.map (·.1)) i := by
  apply PQ.sorted_ext (PQ.children_sorted ord i) (lowerCovers_sorted _ _)
  intro x
  rw [PQ.mem_children H.isPO ho, mem_lowerCovers, List.length_map]
  simp only [exts_getD, PQ.mem_descendants]
  constructor
  · rintro ⟨⟨hx, hle, hne⟩, hno⟩
    refine ⟨hx, (H.lt_iff_ssubset hi hx).mp ⟨hle, hne⟩, ?_⟩
    rintro k hk ⟨h₁, h₂⟩
    have hki := (H.lt_iff_ssubset hi hk).mpr h₂
    have hxk := (H.lt_iff_ssubset hk hx).mpr h₁
    exact hno k ⟨hk, hki.1, hki.2⟩ ⟨hx, hxk.1, hxk.2⟩
  · rintro ⟨hx, hss, hno⟩
    have hxi := (H.lt_iff_ssubset hi hx).mpr hss
    refine ⟨⟨hx, hxi.1, hxi.2⟩, ?_⟩
    rintro y ⟨hy, hyl, hyn⟩ ⟨_, hxl, hxn⟩
    exact hno y hy ⟨(H.lt_iff_ssubset hy hx).mp ⟨hxl, hxn⟩, (H.lt_iff_ssubset hi hy).mp ⟨hyl, hyn⟩⟩

theorem parents_eq {ord : List Nat → List Nat} (ho : PQ.IsOrder ord) (i : Nat) (hi : i < cs.length) :
    parents cs ord i = Spec.upperCovers (cs.map (·.1)) i := by
  apply PQ.sorted_ext (PQ.parents_sorted ord i) (upperCovers_sorted _ _)
  intro x
  rw [PQ.mem_parents H.isPO ho, mem_upperCovers, List.length_map]
  simp only [exts_getD, PQ.mem_ancestors]
  constructor
  · rintro ⟨⟨hx, hle, hne⟩, hno⟩
    refine ⟨hx, (H.lt_iff_ssubset hx hi).mp ⟨hle, fun e => hne e.symm⟩, ?_⟩
    rintro k hk ⟨h₁, h₂⟩
    have hik := (H.lt_iff_ssubset hk hi).mpr h₁
    have hkx := (H.lt_iff_ssubset hx hk).mpr h₂
    exact hno k ⟨hk, hik.1, fun e => hik.2 e.symm⟩ ⟨hx, hkx.1, fun e => hkx.2 e.symm⟩
  · rintro ⟨hx, hss, hno⟩
    have hix := (H.lt_iff_ssubset hx hi).mpr hss
    refine ⟨⟨hx, hix.1, fun e => hix.2 e.symm⟩, ?_⟩
    rintro y ⟨hy, hyl, hyn⟩ ⟨_, hxl, hxn⟩
    exact hno y hy ⟨(H.lt_iff_ssubset hy hi).mp ⟨hyl, fun e => hyn e.symm⟩,
      (H.lt_iff_ssubset hx hy).mp ⟨hxl, fun e => hxn e.symm⟩⟩

/-- if the concept with all objects is kept, it is the unique top -/
theorem top_eq (hmem : (extAll t [], closureAttr t []) ∈ cs) :
    ∃ k, k < cs.length ∧ top cs = .ok k ∧ extOf cs k = List.range t.height := by
  obtain ⟨k, hk, e⟩ := exists_idx_of_mem hmem
  have he : extOf cs k = List.range t.height := by
    unfold extOf; rw [e]; exact extAll_nil t
  refine ⟨k, hk, ?_, he⟩
  apply PQ.top_eq_of_greatest H.isPO hk
  intro j hj
  rw [H.leq_iff hj k, he]
  intro g hg
  exact List.mem_range.mpr (H.ext_lt hj g hg)

/-- if the concept of all attributes is kept, it is the unique bottom -/
theorem bottom_eq (hmem : (extAll t (List.range t.width), closureAttr t (List.range t.width)) ∈ cs) :
    ∃ k, k < cs.length ∧ bottom cs = .ok k ∧ extOf cs k = extAll t (List.range t.width) := by
  obtain ⟨k, hk, e⟩ := exists_idx_of_mem hmem
  have he : extOf cs k = extAll t (List.range t.width) := by
    unfold extOf; rw [e]
  refine ⟨k, hk, ?_, he⟩
  apply PQ.bottom_eq_of_least H.isPO hk
  intro j hj
  rw [H.leq_iff hk j, he, ← H.ext_eq hj]
  exact extAll_antitone t (fun a ha => List.mem_range.mpr (H.int_lt hj a ha))

end IsConceptSub
end Fca.LQ

/-
  Fca.Lemmas.LatticeQueryClosed — `POSet._closed_relation_cache_by_direct_cache` on a `children_dict` that holds the
  lower covers of a finite order: the worklist terminates within `(n+1)^n` pops (potential argument), never
  meets a stale index, and the resulting dictionary holds, for every element, exactly its strict descendants.
-/
import Fca.Lemmas.LatticeQueryDict
import Fca.Lemmas.LatticeQueryLabels
namespace Fca.LC
open Fca

/-- the hypotheses: `direct` stores, for every index below `n`, the lower covers w.r.t. `leq` -/
structure ClosedSetup (leq : Nat → Nat → Bool) (n : Nat) (μ : Nat → Nat) (direct : Dict) : Prop where
  po : PQ.IsPO leq n
  mono : ∀ a b, a < n → b < n → leq a b = true → a ≠ b → μ a < μ b
  keys : KeysNodup direct
  keysLt : ∀ p ∈ direct, p.1 < n
  children : ∀ i, i < n → ∃ l, dget direct i = some l ∧ ∀ x, x ∈ l ↔ x ∈ PQ.children leq n id i

section
variable {leq : Nat → Nat → Bool} {n : Nat} {μ : Nat → Nat} {direct : Dict}

theorem ClosedSetup.child_desc (S : ClosedSetup leq n μ direct) {i c : Nat}
    (hc : c ∈ PQ.children leq n id i) : c ∈ PQ.descendants leq n i :=
  ((PQ.mem_children S.po PQ.isOrder_id).mp hc).1

/-- strict descendants = children and their strict descendants -/
theorem ClosedSetup.desc_decomp (S : ClosedSetup leq n μ direct) {i : Nat} (hi : i < n) (x : Nat) :
    x ∈ PQ.descendants leq n i ↔
      x ∈ PQ.children leq n id i ∨ ∃ c ∈ PQ.children leq n id i, x ∈ PQ.descendants leq n c := by
  constructor
  · intro hx
    obtain ⟨j, hj, hxj⟩ := PQ.exists_child_above S.po μ S.mono PQ.isOrder_id hx
    by_cases e : x = j
    · exact Or.inl (e ▸ hj)
    · exact Or.inr ⟨j, hj, PQ.mem_descendants.mpr ⟨(PQ.mem_descendants.mp hx).1, hxj, e⟩⟩
  · rintro (h | ⟨c, hc, hxc⟩)
    · exact S.child_desc h
    · exact PQ.descendants_trans S.po hi c (S.child_desc hc) x hxc

/-- the transposed `children_dict`: `x` is stored at key `v` iff `v` is a child of `x` -/
theorem ClosedSetup.trans_spec (S : ClosedSetup leq n μ direct) (v x : Nat) :
    Has (transposeHierarchy direct) v x ↔ x < n ∧ v ∈ PQ.children leq n id x := by
  rw [(transposeHierarchy_spec direct).2.1 v x]
  constructor
  · rintro ⟨vs, hmem, hv⟩
    have hx : x < n := S.keysLt _ hmem
    obtain ⟨l, hl, hlc⟩ := S.children x hx
    have := dget_of_mem S.keys hmem
    rw [hl] at this
    simp only [Option.some.injEq] at this
    exact ⟨hx, (hlc v).mp (this ▸ hv)⟩
  · rintro ⟨hx, hv⟩
    obtain ⟨l, hl, hlc⟩ := S.children x hx
    exact ⟨l, mem_of_dget hl, (hlc v).mpr hv⟩

/-! ### the potential -/

/-- weight of a worklist entry -/
def weight (leq : Nat → Nat → Bool) (n : Nat) (x : Nat) : Nat := (n + 1) ^ (PQ.ancestors leq n x).length

theorem ClosedSetup.anc_lt (S : ClosedSetup leq n μ direct) {x p : Nat} (hx : x < n) (hpn : p < n)
    (hp : x ∈ PQ.children leq n id p) :
    (PQ.ancestors leq n p).length < (PQ.ancestors leq n x).length := by
  have hxd := PQ.mem_descendants.mp (S.child_desc hp)
  have hpx : p ∈ PQ.ancestors leq n x := PQ.mem_ancestors.mpr ⟨hpn, hxd.2.1, fun e => hxd.2.2 e.symm⟩
  apply LQ.length_lt_of_ssubset (PQ.ancestors_nodup p)
    (fun g hg => PQ.ancestors_trans S.po hx p hpx g hg) hpx
  intro h
  exact (PQ.mem_ancestors.mp h).2.2 rfl

theorem sum_map_le (f : Nat → Nat) (B : Nat) : ∀ (l : List Nat), (∀ x ∈ l, f x ≤ B) →
    (l.map f).sum ≤ l.length * B
  | [], _ => by simp
  | a :: rest, h => by
    have h1 := h a List.mem_cons_self
    have h2 := sum_map_le f B rest (fun x hx => h x (List.mem_cons_of_mem _ hx))
    simp only [List.map_cons, List.sum_cons, List.length_cons, Nat.add_mul, Nat.one_mul]
    omega

/-- popping `x` and pushing (a list no longer than `n` of) its parents lowers the potential -/
theorem ClosedSetup.weight_step (S : ClosedSetup leq n μ direct) {x : Nat} (hx : x < n) (L : List Nat)
    (hL : ∀ p ∈ L, p < n ∧ x ∈ PQ.children leq n id p) (hlen : L.length ≤ n) :
    (L.map (weight leq n)).sum + 1 ≤ weight leq n x := by
  unfold weight
  cases ha : (PQ.ancestors leq n x).length with
  | zero =>
    have : L = [] := by
      cases L with
      | nil => rfl
      | cons p r =>
        have := S.anc_lt hx (hL p List.mem_cons_self).1 (hL p List.mem_cons_self).2
        omega
    subst this; simp
  | succ a =>
    have hb : ∀ p ∈ L, (n + 1) ^ (PQ.ancestors leq n p).length ≤ (n + 1) ^ a := by
      intro p hp
      have := S.anc_lt hx (hL p hp).1 (hL p hp).2
      exact Nat.pow_le_pow_right (by omega) (by omega)
    have h1 := sum_map_le (fun p => (n + 1) ^ (PQ.ancestors leq n p).length) ((n + 1) ^ a) L hb
    have h2 : L.length * (n + 1) ^ a ≤ n * (n + 1) ^ a := Nat.mul_le_mul_right _ hlen
    have h3 : 1 ≤ (n + 1) ^ a := Nat.pow_pos (by omega)
    rw [Nat.pow_succ, Nat.mul_add, Nat.mul_one]
    have : (n + 1) ^ a * n = n * (n + 1) ^ a := Nat.mul_comm _ _
    omega

/-! ### list helpers -/

/-- the readiness test `direct[el] & visited == direct[el]` -/
def rdy (direct : Dict) (visited : List Nat) (z : Nat) : Bool :=
  ((dget direct z).getD []).all (visited.contains ·)

theorem findReady_some (direct : Dict) (visited : List Nat) : ∀ (l : List Nat) (off : Nat),
    (∃ z ∈ l, rdy direct visited z = true) →
    ∃ j, j < l.length ∧ findReady direct visited l off = some (off + j) ∧
      rdy direct visited (l.getD j 0) = true
  | [], _, ⟨_, h, _⟩ => by cases h
  | a :: rest, off, ⟨z, hz, hr⟩ => by
    unfold findReady
    by_cases ha : rdy direct visited a = true
    · refine ⟨0, by simp, ?_, by simpa using ha⟩
      unfold rdy at ha
      rw [if_pos ha]; rfl
    · have hz' : z ∈ rest := by
        rcases List.mem_cons.mp hz with e | h
        · rw [e] at hr; exact absurd hr ha
        · exact h
      obtain ⟨j, hj, hf, hrj⟩ := findReady_some direct visited rest (off + 1) ⟨z, hz', hr⟩
      refine ⟨j + 1, by simp; omega, ?_, by simpa using hrj⟩
      unfold rdy at ha
      rw [if_neg ha, hf]
      congr 1; omega

theorem mem_eraseIdx_of_ne : ∀ (l : List Nat) (j : Nat) (x : Nat), x ∈ l → x ≠ l.getD j 0 →
    x ∈ l.eraseIdx j
  | [], _, _, h, _ => by cases h
  | a :: rest, 0, x, h, hne => by
    simp only [List.getD_cons_zero] at hne
    rcases List.mem_cons.mp h with e | h'
    · exact absurd e hne
    · simpa using h'
  | a :: rest, j + 1, x, h, hne => by
    simp only [List.getD_cons_succ] at hne
    rw [List.eraseIdx_cons_succ]
    rcases List.mem_cons.mp h with e | h'
    · rw [e]; exact List.mem_cons_self
    · exact List.mem_cons_of_mem _ (mem_eraseIdx_of_ne rest j x h' hne)

theorem sum_eraseIdx (f : Nat → Nat) : ∀ (l : List Nat) (j : Nat), j < l.length →
    ((l.eraseIdx j).map f).sum + f (l.getD j 0) = (l.map f).sum
  | [], _, h => by simp at h
  | a :: rest, 0, _ => by simp; omega
  | a :: rest, j + 1, h => by
    have := sum_eraseIdx f rest j (by simpa using h)
    simp only [List.eraseIdx_cons_succ, List.map_cons, List.sum_cons, List.getD_cons_succ]
    omega

theorem getD_mem : ∀ (l : List Nat) (j : Nat), j < l.length → l.getD j 0 ∈ l
  | [], _, h => by simp at h
  | a :: rest, 0, _ => by simp
  | a :: rest, j + 1, h => by
    simp only [List.getD_cons_succ]
    exact List.mem_cons_of_mem _ (getD_mem rest j (by simpa using h))

theorem mem_dset : ∀ (d : Dict) (k : Nat) (v : List Nat) (q : Nat × List Nat), q ∈ dset d k v →
    q.1 = k ∨ q ∈ d
  | [], k, v, q, h => by
    simp only [dset, List.mem_singleton] at h
    rw [h]; exact Or.inl rfl
  | (k', v') :: rest, k, v, q, h => by
    unfold dset at h
    by_cases e : k' = k
    · have hb : (k' == k) = true := by simpa using e
      rw [hb] at h
      simp only [↓reduceIte, List.mem_cons] at h
      rcases h with h | h
      · rw [h]; exact Or.inl e
      · exact Or.inr (List.mem_cons_of_mem _ h)
    · have hb : (k' == k) = false := by simpa using e
      rw [hb] at h
      simp only [Bool.false_eq_true, ↓reduceIte, List.mem_cons] at h
      rcases h with h | h
      · rw [h]; exact Or.inr List.mem_cons_self
      · rcases mem_dset rest k v q h with h' | h'
        · exact Or.inl h'
        · exact Or.inr (List.mem_cons_of_mem _ h')

theorem mem_foldl_union (closed : Dict) : ∀ (rs acc : List Nat) (y : Nat),
    y ∈ rs.foldl (fun acc r => unionInto acc ((dget closed r).getD [])) acc ↔
      y ∈ acc ∨ ∃ r ∈ rs, y ∈ (dget closed r).getD []
  | [], acc, y => by simp
  | r :: rest, acc, y => by
    rw [List.foldl_cons, mem_foldl_union closed rest _ y, mem_unionInto]
    simp only [List.mem_cons, exists_eq_or_imp]
    constructor
    · rintro ((h | h) | h)
      · exact Or.inl h
      · exact Or.inr (Or.inl h)
      · exact Or.inr (Or.inr h)
    · rintro (h | h | h)
      · exact Or.inl (Or.inl h)
      · exact Or.inl (Or.inr h)
      · exact Or.inr h

/-! ### the worklist -/

/-- loop invariant of `_closed_relation_cache_by_direct_cache` -/
structure Inv (leq : Nat → Nat → Bool) (n : Nat) (toVisit visited : List Nat) (closed : Dict) : Prop where
  vis : ∀ x ∈ visited, x < n ∧ ∃ l, dget closed x = some l ∧ ∀ y, y ∈ l ↔ y ∈ PQ.descendants leq n x
  down : ∀ x ∈ visited, ∀ c ∈ PQ.children leq n id x, c ∈ visited
  tv : ∀ x ∈ toVisit, x < n
  ready : ∀ x, x < n → x ∉ visited → (∀ c ∈ PQ.children leq n id x, c ∈ visited) → x ∈ toVisit
  ckeys : KeysNodup closed
  cvis : ∀ p ∈ closed, p.1 ∈ visited

theorem ClosedSetup.rdy_iff (S : ClosedSetup leq n μ direct) (visited : List Nat) {z : Nat} (hz : z < n) :
    rdy direct visited z = true ↔ ∀ c ∈ PQ.children leq n id z, c ∈ visited := by
  obtain ⟨l, hl, hlc⟩ := S.children z hz
  unfold rdy
  rw [hl]
  simp only [Option.getD_some, List.all_eq_true, List.contains_eq_mem, decide_eq_true_eq]
  exact ⟨fun h c hc => h c ((hlc c).mpr hc), fun h c hc => h c ((hlc c).mp hc)⟩

theorem ClosedSetup.exists_ready (S : ClosedSetup leq n μ direct) {toVisit visited : List Nat} {closed : Dict}
    (I : Inv leq n toVisit visited closed) : ∀ (m w : Nat), μ w < m → w < n → w ∉ visited →
    ∃ z ∈ toVisit, rdy direct visited z = true
  | 0, _, h, _, _ => by omega
  | m + 1, w, hm, hw, hwv => by
    by_cases hall : ∀ c ∈ PQ.children leq n id w, c ∈ visited
    · exact ⟨w, I.ready w hw hwv hall, (S.rdy_iff visited hw).mpr hall⟩
    · have : ∃ c, c ∈ PQ.children leq n id w ∧ c ∉ visited := by
        apply Classical.byContradiction
        intro hno
        apply hall
        intro c hc
        apply Classical.byContradiction
        intro hcv
        exact hno ⟨c, hc, hcv⟩
      obtain ⟨c, hc, hcv⟩ := this
      have hcd := PQ.mem_descendants.mp (S.child_desc hc)
      have := S.mono c w hcd.1 hw hcd.2.1 hcd.2.2
      exact S.exists_ready I m c (by omega) hcd.1 hcv

theorem ClosedSetup.closedLoop_ok (S : ClosedSetup leq n μ direct) {ord : List Nat → List Nat}
    (hord : ∀ l, (ord l).Perm l) : ∀ (fuel : Nat) (toVisit visited : List Nat) (closed : Dict),
    Inv leq n toVisit visited closed → (toVisit.map (weight leq n)).sum < fuel →
    ∃ d, closedLoop direct (transposeHierarchy direct) ord fuel toVisit visited closed = .ok d ∧
      KeysNodup d ∧ (∀ p ∈ d, p.1 < n) ∧
      ∀ x, x < n → ∃ l, dget d x = some l ∧ ∀ y, y ∈ l ↔ y ∈ PQ.descendants leq n x
  | 0, _, _, _, _, h => by omega
  | fuel + 1, [], visited, closed, I, _ => by
    have hall : ∀ x, x < n → x ∈ visited := by
      intro x hx
      apply Classical.byContradiction
      intro hxv
      obtain ⟨z, hz, _⟩ := S.exists_ready I (μ x + 1) x (by omega) hx hxv
      cases hz
    refine ⟨closed, rfl, I.ckeys, fun p hp => (I.vis _ (I.cvis p hp)).1, fun x hx => (I.vis x (hall x hx)).2⟩
  | fuel + 1, a :: r, visited, closed, I, hpot => by
    -- a ready entry exists in the non-empty worklist
    have hex : ∃ z ∈ a :: r, rdy direct visited z = true := by
      by_cases hav : a ∈ visited
      · exact ⟨a, List.mem_cons_self, (S.rdy_iff visited (I.tv a List.mem_cons_self)).mpr (I.down a hav)⟩
      · exact S.exists_ready I (μ a + 1) a (by omega) (I.tv a List.mem_cons_self) hav
    obtain ⟨j, hj, hfind, hrdy⟩ := findReady_some direct visited (a :: r) 0 hex
    have helmem : (a :: r).getD j 0 ∈ a :: r := getD_mem _ j hj
    have heln : (a :: r).getD j 0 < n := I.tv _ helmem
    obtain ⟨rels, hrels, hrelsC⟩ := S.children _ heln
    have hready := (S.rdy_iff visited heln).mp hrdy
    unfold closedLoop
    simp only [hfind, Nat.zero_add, hrels]
    -- the parents pushed on the worklist
    have hT : ∀ p, p ∈ (dget (transposeHierarchy direct) ((a :: r).getD j 0)).getD [] ↔
        p < n ∧ (a :: r).getD j 0 ∈ PQ.children leq n id p := by
      intro p
      rw [← S.trans_spec]
      unfold Has
      cases hd : dget (transposeHierarchy direct) ((a :: r).getD j 0) with
      | none => simp
      | some l => simp
    have hTnd : ((dget (transposeHierarchy direct) ((a :: r).getD j 0)).getD []).Nodup := by
      cases hd : dget (transposeHierarchy direct) ((a :: r).getD j 0) with
      | none => simp
      | some l => exact (transposeHierarchy_spec direct).1 _ l hd
    have hTlen : ((dget (transposeHierarchy direct) ((a :: r).getD j 0)).getD []).length ≤ n := by
      have := List.Nodup.length_le_of_subset hTnd (l₂ := List.range n)
        (fun p hp => List.mem_range.mpr ((hT p).mp hp).1)
      rwa [List.length_range] at this
    have hP := hord ((dget (transposeHierarchy direct) ((a :: r).getD j 0)).getD [])
    apply S.closedLoop_ok hord fuel
    · -- the invariant is preserved
      refine ⟨?_, ?_, ?_, ?_, dset_keysNodup I.ckeys, ?_⟩
      · intro x hx
        by_cases e : x = (a :: r).getD j 0
        · refine ⟨e ▸ heln, _, by rw [e]; exact dget_dset_self _ _ _, ?_⟩
          intro y
          rw [mem_foldl_union, e, S.desc_decomp heln y]
          constructor
          · rintro (h | ⟨c, hc, hy⟩)
            · exact Or.inl ((hrelsC y).mp h)
            · have hcC := (hrelsC c).mp hc
              obtain ⟨_, l, hl, hlD⟩ := I.vis c (hready c hcC)
              rw [hl] at hy
              exact Or.inr ⟨c, hcC, (hlD y).mp hy⟩
          · rintro (h | ⟨c, hcC, hy⟩)
            · exact Or.inl ((hrelsC y).mpr h)
            · obtain ⟨_, l, hl, hlD⟩ := I.vis c (hready c hcC)
              refine Or.inr ⟨c, (hrelsC c).mpr hcC, ?_⟩
              rw [hl]; exact (hlD y).mpr hy
        · have hxv : x ∈ visited := by
            rcases mem_addElem.mp hx with h | h
            · exact h
            · exact absurd h e
          obtain ⟨h1, l, hl, hlD⟩ := I.vis x hxv
          exact ⟨h1, l, by rw [dget_dset_ne _ _ _ _ e]; exact hl, hlD⟩
      · intro x hx c hc
        rcases mem_addElem.mp hx with h | h
        · exact mem_addElem.mpr (Or.inl (I.down x h c hc))
        · rw [h] at hc; exact mem_addElem.mpr (Or.inl (hready c hc))
      · intro x hx
        rcases List.mem_append.mp hx with h | h
        · exact I.tv x (List.mem_of_mem_eraseIdx h)
        · exact ((hT x).mp (hP.mem_iff.mp h)).1
      · intro x hxn hxv hch
        have hxv0 : x ∉ visited := fun h => hxv (mem_addElem.mpr (Or.inl h))
        have hxne : x ≠ (a :: r).getD j 0 := fun h => hxv (mem_addElem.mpr (Or.inr h))
        by_cases hold : ∀ c ∈ PQ.children leq n id x, c ∈ visited
        · exact List.mem_append_left _ (mem_eraseIdx_of_ne _ j x (I.ready x hxn hxv0 hold) hxne)
        · have : ∃ c, c ∈ PQ.children leq n id x ∧ c ∉ visited := by
            apply Classical.byContradiction
            intro hno
            apply hold
            intro c hc
            apply Classical.byContradiction
            intro hcv
            exact hno ⟨c, hc, hcv⟩
          obtain ⟨c, hc, hcv⟩ := this
          have hce : c = (a :: r).getD j 0 := by
            rcases mem_addElem.mp (hch c hc) with h | h
            · exact absurd h hcv
            · exact h
          apply List.mem_append_right
          rw [hP.mem_iff, hT]
          exact ⟨hxn, hce ▸ hc⟩
      · intro p hp
        rcases mem_dset _ _ _ p hp with h | h
        · exact mem_addElem.mpr (Or.inr h)
        · exact mem_addElem.mpr (Or.inl (I.cvis p h))
    · -- the potential decreases
      rw [List.map_append, List.sum_append]
      have h1 := sum_eraseIdx (weight leq n) (a :: r) j hj
      have h2 := S.weight_step heln (ord ((dget (transposeHierarchy direct) ((a :: r).getD j 0)).getD []))
        (fun p hp => (hT p).mp (hP.mem_iff.mp hp)) (by rw [hP.length_eq]; exact hTlen)
      omega

theorem weight_le (leq : Nat → Nat → Bool) (n x : Nat) : weight leq n x ≤ (n + 1) ^ n := by
  unfold weight
  apply Nat.pow_le_pow_right (by omega)
  have := List.Nodup.length_le_of_subset (PQ.ancestors_nodup (leq := leq) (n := n) x) (l₂ := List.range n)
    (fun p hp => List.mem_range.mpr (PQ.mem_ancestors.mp hp).1)
  rwa [List.length_range] at this

/-- `_closed_relation_cache_by_direct_cache(children_dict)` with fuel `closedFuel n` returns the strict
    descendants of every element -/
theorem ClosedSetup.closedByDirect_ok (S : ClosedSetup leq n μ direct) {ord : List Nat → List Nat}
    (hord : ∀ l, (ord l).Perm l) {fuel : Nat} (hf : closedFuel n ≤ fuel) :
    ∃ d, closedByDirect direct ord fuel = .ok d ∧ Good d n (PQ.descendants leq n) := by
  unfold closedByDirect
  simp only
  have hstart_mem : ∀ x, x ∈ (direct.filter fun p => p.2.length == 0).map (·.1) ↔
      ∃ l, (x, l) ∈ direct ∧ l = [] := by
    intro x
    simp only [List.mem_map, List.mem_filter, beq_iff_eq, List.length_eq_zero_iff]
    constructor
    · rintro ⟨p, ⟨hp, he⟩, rfl⟩
      exact ⟨p.2, hp, he⟩
    · rintro ⟨l, hl, he⟩
      exact ⟨(x, l), ⟨hl, he⟩, rfl⟩
  have hstart_nd : ((direct.filter fun p => p.2.length == 0).map (·.1)).Nodup := by
    have : ((direct.filter fun p => p.2.length == 0).map (·.1)).Sublist (direct.map (·.1)) :=
      List.Sublist.map _ List.filter_sublist
    exact List.Nodup.sublist this S.keys
  have hstart_lt : ∀ x ∈ (direct.filter fun p => p.2.length == 0).map (·.1), x < n := by
    intro x hx
    obtain ⟨l, hl, _⟩ := (hstart_mem x).mp hx
    exact S.keysLt _ hl
  have I : Inv leq n ((direct.filter fun p => p.2.length == 0).map (·.1)) [] [] := by
    refine ⟨fun x hx => (by cases hx), fun x hx => (by cases hx), hstart_lt, ?_, (by simp [KeysNodup]),
      fun p hp => (by cases hp)⟩
    intro x hx _ hall
    obtain ⟨l, hl, hlc⟩ := S.children x hx
    have : l = [] := by
      cases l with
      | nil => rfl
      | cons c r => exact absurd (hall c ((hlc c).mp List.mem_cons_self)) (by simp)
    exact (hstart_mem x).mpr ⟨l, mem_of_dget hl, this⟩
  have hpot : (((direct.filter fun p => p.2.length == 0).map (·.1)).map (weight leq n)).sum < fuel := by
    have h1 := sum_map_le (weight leq n) ((n + 1) ^ n)
      ((direct.filter fun p => p.2.length == 0).map (·.1)) (fun x _ => weight_le leq n x)
    have h2 := List.Nodup.length_le_of_subset hstart_nd (l₂ := List.range n)
      (fun x hx => List.mem_range.mpr (hstart_lt x hx))
    rw [List.length_range] at h2
    have h3 : ((direct.filter fun p => p.2.length == 0).map (·.1)).length * (n + 1) ^ n ≤ n * (n + 1) ^ n :=
      Nat.mul_le_mul_right _ h2
    have h4 : 1 ≤ (n + 1) ^ n := Nat.pow_pos (by omega)
    unfold closedFuel at hf
    rw [Nat.pow_succ, Nat.mul_add, Nat.mul_one] at hf
    have : (n + 1) ^ n * n = n * (n + 1) ^ n := Nat.mul_comm _ _
    omega
  obtain ⟨d, hd, h1, h2, h3⟩ := S.closedLoop_ok hord fuel _ [] [] I hpot
  exact ⟨d, hd, h1, h2, h3⟩

/-! ### `POSet.__init__` with a `children_dict` -/

theorem isEmpty_congr {l l' : List Nat} (h : ∀ x, x ∈ l ↔ x ∈ l') : (l.length == 0) = (l'.length == 0) := by
  cases l with
  | nil =>
    cases l' with
    | nil => rfl
    | cons b r => exact absurd ((h b).mpr List.mem_cons_self) (by simp)
  | cons a r =>
    cases l' with
    | nil => exact absurd ((h a).mp List.mem_cons_self) (by simp)
    | cons b r' => simp

theorem cachedExtremes_eq {d : Dict} {R : Nat → List Nat} (g : Good d n R) :
    cachedExtremes d n = (List.range n).filter fun i => (R i).length == 0 := by
  unfold cachedExtremes
  apply List.filter_congr
  intro i hi
  obtain ⟨l, hl, hm⟩ := g.2.2 i (List.mem_range.mp hi)
  rw [hl]
  exact isEmpty_congr hm

theorem bottoms_of_bottom {k : Nat} (h : PQ.bottom leq n = .ok k) : PQ.bottoms leq n = [k] := by
  unfold PQ.bottom at h
  split at h
  · rename_i k' hk
    simp only [Except.ok.injEq] at h
    rw [hk, h]
  · cases h

theorem tops_of_top {k : Nat} (h : PQ.top leq n = .ok k) : PQ.tops leq n = [k] := by
  unfold PQ.top at h
  split at h
  · rename_i k' hk
    simp only [Except.ok.injEq] at h
    rw [hk, h]
  · cases h

/-- covers read from below and from above coincide -/
theorem mem_children_iff_mem_parents (po : PQ.IsPO leq n) {x p : Nat} (hx : x < n) (hp : p < n) :
    x ∈ PQ.children leq n id p ↔ p ∈ PQ.parents leq n id x := by
  rw [PQ.mem_children po PQ.isOrder_id, PQ.mem_parents po PQ.isOrder_id]
  simp only [PQ.mem_descendants, PQ.mem_ancestors]
  constructor
  · rintro ⟨⟨_, hle, hne⟩, hno⟩
    refine ⟨⟨hp, hle, fun e => hne e.symm⟩, ?_⟩
    rintro y ⟨hy, hxy, hyx⟩ ⟨_, hyp, hpy⟩
    exact hno y ⟨hy, hyp, fun e => hpy e.symm⟩ ⟨hx, hxy, fun e => hyx e.symm⟩
  · rintro ⟨⟨_, hle, hne⟩, hno⟩
    refine ⟨⟨hx, hle, fun e => hne e.symm⟩, ?_⟩
    rintro y ⟨hy, hyp, hyne⟩ ⟨_, hxy, hxne⟩
    exact hno y ⟨hy, hxy, fun e => hxne e.symm⟩ ⟨hp, hyp, fun e => hyne e.symm⟩

/-- `POSet.__init__(children_dict)` + the semilattice constructors: the four caches hold children / strict
    descendants / parents / strict ancestors, `_cache_top` / `_cache_bottom` the greatest / least element -/
theorem ClosedSetup.init_ok (S : ClosedSetup leq n μ direct) {ord : List Nat → List Nat}
    (hord : ∀ l, (ord l).Perm l) {fuel : Nat} (hf : closedFuel n ≤ fuel)
    {b t : Nat} (hb : b < n) (hleast : ∀ j, j < n → leq b j = true)
    (ht : t < n) (hgreat : ∀ j, j < n → leq j t = true) :
    ∃ c, initFromChildren direct n ord fuel = .ok c ∧ c.children = direct ∧
      Good c.children n (PQ.children leq n id) ∧ Good c.descendants n (PQ.descendants leq n) ∧
      Good c.parents n (PQ.parents leq n id) ∧ Good c.ancestors n (PQ.ancestors leq n) ∧
      c.top = some t ∧ c.bottom = some b := by
  obtain ⟨desc, hdesc, gdesc⟩ := S.closedByDirect_ok hord hf
  have gch : Good direct n (PQ.children leq n id) := ⟨S.keys, S.keysLt, S.children⟩
  have gpar : Good (transposeHierarchy direct) n (PQ.parents leq n id) := by
    apply gch.transpose
    · intro i _ x hx
      exact (PQ.mem_descendants.mp (S.child_desc hx)).1
    · intro v hv x
      constructor
      · intro hx
        have hxn : x < n := (PQ.mem_ancestors.mp ((PQ.mem_parents S.po PQ.isOrder_id).mp hx).1).1
        exact ⟨hxn, (mem_children_iff_mem_parents S.po hv hxn).mpr hx⟩
      · rintro ⟨hxn, h⟩
        exact (mem_children_iff_mem_parents S.po hv hxn).mp h
  have ganc : Good (transposeHierarchy desc) n (PQ.ancestors leq n) := by
    apply gdesc.transpose
    · intro i _ x hx
      exact (PQ.mem_descendants.mp hx).1
    · intro v hv x
      rw [PQ.mem_ancestors, PQ.mem_descendants]
      constructor
      · rintro ⟨hx, hle, hne⟩
        exact ⟨hx, hv, hle, fun e => hne e.symm⟩
      · rintro ⟨hx, _, hle, hne⟩
        exact ⟨hx, hle, fun e => hne e.symm⟩
  have hbots : cachedExtremes desc n = [b] := by
    rw [cachedExtremes_eq gdesc]
    exact bottoms_of_bottom (PQ.bottom_eq_of_least S.po hb hleast)
  have htops : cachedExtremes (transposeHierarchy desc) n = [t] := by
    rw [cachedExtremes_eq ganc]
    exact tops_of_top (PQ.top_eq_of_greatest S.po ht hgreat)
  refine ⟨⟨direct, desc, transposeHierarchy direct, transposeHierarchy desc, some t, some b⟩, ?_, rfl,
    gch, gdesc, gpar, ganc, rfl, rfl⟩
  unfold initFromChildren
  rw [hdesc]
  simp only [hbots, htops]

end
end Fca.LC

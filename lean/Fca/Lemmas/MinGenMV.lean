/-
  Fca.Lemmas.MinGenMV — `MVContext.extension_i` is a conjunctive filter; every generator the
  many-valued search stores has passed the `ext_ == ext_true` test.
-/
import Fca.Model.MinGenMV
import Fca.Spec.MinGenMV
namespace Fca.MGMV
open List

theorem psExtensionI_eq (col : Col) (d : Descr) (base : List Nat) :
    psExtensionI col d base = base.filter fun g => sat col d g := by
  cases d with
  | none =>
    simp only [psExtensionI]
    symm
    apply List.filter_eq_nil_iff.mpr
    intro g _
    simp [sat, Descr.bounds]
  | iv lo hi => rfl
  | num x => rfl

theorem extLoop_eq (cols : List Col) (descr : List (Nat × Descr)) (extent : List Nat) :
    extLoop cols descr extent = extSpec cols descr extent := by
  induction descr generalizing extent with
  | nil =>
    simp only [extLoop, extSpec, List.all_nil]
    exact (List.filter_eq_self.mpr (fun _ _ => rfl)).symm
  | cons p rest ih =>
    obtain ⟨ps, d⟩ := p
    simp only [extLoop, psExtensionI_eq]
    have hsplit : extSpec cols ((ps, d) :: rest) extent
        = extSpec cols rest (extent.filter fun g => sat (cols.getD ps []) d g) := by
      unfold extSpec
      rw [List.filter_filter]
      apply List.filter_congr
      intro g _
      simp only [List.all_cons]
      exact Bool.and_comm _ _
    split
    · rename_i h0
      rw [hsplit, List.eq_nil_of_length_eq_zero h0]
      rfl
    · rw [hsplit]; exact ih _

theorem extensionI_eq (cols : List Col) (n : Nat) (descr : List (Nat × Descr)) (base : Option (List Nat)) :
    extensionI cols n descr base = extSpec cols descr (base.getD (List.range n)) := by
  cases base with
  | none => simp only [extensionI, Option.getD_none, extLoop_eq]
  | some b =>
    simp only [extensionI, Option.getD_some]
    split
    · rename_i h0
      rw [List.eq_nil_of_length_eq_zero h0]; rfl
    · exact extLoop_eq _ _ _

/-- every stored generator passed the test -/
def Good (cols : List Col) (n : Nat) (bo extTrue : List Nat) (mg : List DescrD) : Prop :=
  ∀ d ∈ mg, extensionI cols n d (some bo) = extTrue

theorem mem_setAddD {s : List DescrD} {x d : DescrD} (h : d ∈ setAddD s x) : d ∈ s ∨ d = x := by
  unfold setAddD at h
  split at h
  · exact Or.inl h
  · simpa using h

theorem combLoop_good (cols : List Col) (n : Nat) (baseGen : List PGen) (bo extTrue : List Nat)
    (combSize : Nat) (cs : List (List PGen)) (st st' : St)
    (h : combLoop cols n baseGen bo extTrue combSize cs st = .ok st')
    (hg : Good cols n bo extTrue st.minGens) : Good cols n bo extTrue st'.minGens := by
  induction cs generalizing st with
  | nil => simp only [combLoop] at h; cases h; exact hg
  | cons c rest ih =>
    simp only [combLoop] at h
    split at h
    · cases h
    · rename_i descr hd
      refine ih _ h ?_
      simp only
      split
      · rename_i heq
        intro d hdm
        rcases mem_setAddD hdm with h1 | rfl
        · exact hg d h1
        · exact heq
      · exact hg

theorem sizeLoop_good (cols : List Col) (n : Nat) (baseGen : List PGen) (bo extTrue : List Nat)
    (sizes : List Nat) (gens : List PGen) (st st' : St)
    (h : sizeLoop cols n baseGen bo extTrue sizes gens st = .ok st')
    (hg : Good cols n bo extTrue st.minGens) : Good cols n bo extTrue st'.minGens := by
  induction sizes generalizing gens st with
  | nil => simp only [sizeLoop] at h; cases h; exact hg
  | cons k ks ih =>
    simp only [sizeLoop] at h
    split at h
    · cases h
    · rename_i st1 h1
      have hg1 := combLoop_good _ _ _ _ _ _ _ _ _ h1 hg
      split at h
      · cases h
      · split at h
        · cases h; exact hg1
        · exact ih _ _ h hg1

theorem whileLoop_good (cols : List Col) (n : Nat) (intent : List Descr) (psIter : List Nat) (baseGen : List PGen)
    (bo extTrue : List Nat) (fuel maxProj : Nat) (mg R : List DescrD)
    (h : whileLoop cols n intent psIter baseGen bo extTrue fuel maxProj mg = .ok R)
    (hg : Good cols n bo extTrue mg) : Good cols n bo extTrue R := by
  induction fuel generalizing maxProj mg with
  | zero =>
    unfold whileLoop at h
    split at h
    · cases h; exact hg
    · cases h
  | succ f ih =>
    unfold whileLoop at h
    split at h
    · cases h; exact hg
    · simp only at h
      split at h
      · cases h
      · rename_i st hst
        refine ih _ _ h ?_
        unfold whileBody at hst
        exact sizeLoop_good _ _ _ _ _ _ _ _ _ hst hg

/-! ### the acceptance test reads the base objects as a set -/

/-- object `g` falls into every interval of the description -/
def covers (cols : List Col) (d : DescrD) (g : Nat) : Bool := d.all fun p => sat (cols.getD p.1 []) p.2 g

theorem extSpec_eq_filter (cols : List Col) (d : DescrD) (bo : List Nat) :
    extSpec cols d bo = bo.filter (covers cols d) := rfl

theorem filter_eq_filter_iff {p q : Nat → Bool} (l : List Nat) :
    l.filter p = l.filter q ↔ ∀ g ∈ l, p g = q g := by
  constructor
  · intro h g hg
    rw [Bool.eq_iff_iff]
    constructor
    · intro hp
      have : g ∈ l.filter p := List.mem_filter.mpr ⟨hg, hp⟩
      rw [h] at this
      exact (List.mem_filter.mp this).2
    · intro hq
      have : g ∈ l.filter q := List.mem_filter.mpr ⟨hg, hq⟩
      rw [← h] at this
      exact (List.mem_filter.mp this).2
  · intro h
    exact List.filter_congr h

/-- the Boolean acceptance test `sameExtension` says: on every base object the generator and the intent agree -/
theorem sameExtension_iff (cols : List Col) (intent : List Descr) (bo : List Nat) (d : DescrD) :
    sameExtension cols intent bo d = true ↔ ∀ g ∈ bo, covers cols d g = covers cols (intentD intent) g := by
  unfold sameExtension
  rw [beq_iff_eq, extSpec_eq_filter, extSpec_eq_filter]
  exact filter_eq_filter_iff bo

/-! ### helpers for closed examples (no `DecidableEq` on `Except`) -/

def mvIs (r : Except PyErr (List MGMV.DescrD)) (want : Except PyErr (List MGMV.DescrD)) : Bool :=
  match r, want with
  | .ok v, .ok w => v == w
  | .error e, .error e' => e == e'
  | _, _ => false

theorem mvIs_eq {r want : Except PyErr (List MGMV.DescrD)} (h : mvIs r want = true) : r = want := by
  unfold mvIs at h
  split at h
  · rw [eq_of_beq h]
  · rw [eq_of_beq h]
  · cases h


end Fca.MGMV

/-
  Lemmas/SemiLatticeHist — histories of the semilattice machine, and the element-level (list-order independent)
  reading of "greatest / least element" used by incremental = batch.
-/
import Fca.Lemmas.SemiLatticeCtor
set_option linter.unusedSectionVars false
set_option linter.unusedVariables false
namespace Fca.SemiLattice
open Fca Fca.Poset Fca.Poset.Fresh Fca.SemiLattice.Spec

section
variable {α : Type} [DecidableEq α] {leq : α → α → Bool} {ord : List Nat → List Nat} {U : α → Prop}

/-- the specified element list after a history -/
def nextsSL (leq : α → α → Bool) (cls : Cls) : List α → List (OpSL α) → List α
  | E, [] => E
  | E, op :: ops => nextsSL leq cls (nextSL leq cls E op) ops

/-- no mutation of the history ends in an exception other than the specified refusal -/
def NoInternalError (leq : α → α → Bool) (ord : List Nat → List Nat) : SL α → List (OpSL α) → Prop
  | _, [] => True
  | s, op :: ops =>
    (isMutationSL op = true → ∀ e, (stepSL leq ord s op).2 = .err e → refusalSL leq s.cls s.p.elems op = some e) ∧
    NoInternalError leq ord (stepSL leq ord s op).1 ops

theorem nextSL_nodup {cls : Cls} {E : List α} (hnd : E.Nodup) (op : OpSL α) : (nextSL leq cls E op).Nodup := by
  cases op with
  | extreme d => exact hnd
  | op o =>
    simp only [nextSL]
    split
    · exact hnd
    · exact next_nodup hnd o

theorem nextSL_U {cls : Cls} {E : List α} (hU : ∀ a ∈ E, U a) (op : OpSL α) (hin : OpInSL U op) :
    ∀ a ∈ nextSL leq cls E op, U a := by
  cases op with
  | extreme d => exact hU
  | op o =>
    simp only [nextSL]
    split
    · exact hU
    · exact next_U hU o hin

/-- the invariant along a whole history -/
theorem runSL_spec (hpoU : PO leq U) (ops : List (OpSL α)) {s : SL α} (hI : InvTop leq s) (hnd : s.p.elems.Nodup)
    (hU : ∀ a ∈ s.p.elems, U a) (hin : ∀ op ∈ ops, OpInSL U op) (hclean : NoInternalError leq ord s ops) :
    InvTop leq (runSL leq ord s ops).1 ∧ (runSL leq ord s ops).1.p.elems = nextsSL leq s.cls s.p.elems ops ∧
      (runSL leq ord s ops).1.cls = s.cls ∧ (runSL leq ord s ops).1.p.useCache = s.p.useCache := by
  induction ops generalizing s with
  | nil => exact ⟨hI, rfl, rfl, rfl⟩
  | cons op ops ih =>
    obtain ⟨h1, h2⟩ := stepSL_spec (ord := ord) hpoU hI hnd hU op (hin op List.mem_cons_self)
    have hstep : InvTop leq (stepSL leq ord s op).1 ∧
        (stepSL leq ord s op).1.p.elems = nextSL leq s.cls s.p.elems op ∧
        (stepSL leq ord s op).1.cls = s.cls ∧ (stepSL leq ord s op).1.p.useCache = s.p.useCache := by
      cases hr : refusalSL leq s.cls s.p.elems op with
      | some e =>
        rw [h1 e hr]
        refine ⟨hI, ?_, rfl, rfl⟩
        cases op with
        | extreme d => simp [refusalSL] at hr
        | op o => simp only [refusalSL] at hr; simp [nextSL, hr]
      | none =>
        apply h2
        cases hm : isMutationSL op
        · exact Or.inl rfl
        · refine Or.inr fun e he => ?_
          have := hclean.1 hm e he
          rw [hr] at this; cases this
    obtain ⟨g1, g2, g3, g4⟩ := hstep
    have := ih (s := (stepSL leq ord s op).1) g1 (by rw [g2]; exact nextSL_nodup hnd op)
      (by rw [g2]; exact nextSL_U hU op (hin op List.mem_cons_self))
      (fun o ho => hin o (List.mem_cons_of_mem _ ho)) hclean.2
    simp only [runSL, nextsSL]
    rw [g2, g3] at this
    exact ⟨this.1, this.2.1, this.2.2.1.trans rfl, this.2.2.2.trans g4⟩

/-! ### the extreme *element*: independent of the listing order -/

/-- `x` is the greatest (`.anc`) / least (`.desc`) element of the set listed by `E` -/
def IsExtremeElem (leq : α → α → Bool) (d : Dir) (E : List α) (x : α) : Prop :=
  x ∈ E ∧ ∀ y ∈ E, inner leq d y x = true

theorem isExt_iff_elem {E : List α} {d : Dir} {t : Nat} :
    isExt leq d E t = true ↔ ∃ x, E[t]? = some x ∧ IsExtremeElem leq d E x := by
  rw [isExt_iff]
  constructor
  · rintro ⟨ht, hall⟩
    refine ⟨E[t], List.getElem?_eq_getElem ht, List.getElem_mem ht, fun y hy => ?_⟩
    obtain ⟨i, hi, rfl⟩ := List.getElem_of_mem hy
    rw [← relD_elem (List.getElem?_eq_getElem ht) (List.getElem?_eq_getElem hi)]
    exact hall i hi
  · rintro ⟨x, hx, _, hall⟩
    have ht : t < E.length := (List.getElem?_eq_some_iff.mp hx).1
    refine ⟨ht, fun i hi => ?_⟩
    rw [relD_elem hx (List.getElem?_eq_getElem hi)]
    exact hall _ (List.getElem_mem hi)

theorem isExtremeElem_unique (hpoU : PO leq U) {E : List α} (hU : ∀ a ∈ E, U a) {d : Dir} {x y : α}
    (hx : IsExtremeElem leq d E x) (hy : IsExtremeElem leq d E y) : x = y := by
  have h1 := hx.2 y hy.1
  have h2 := hy.2 x hx.1
  cases d <;> simp only [inner] at h1 h2
  · exact hpoU.antisymm _ _ (hU _ hx.1) (hU _ hy.1) h1 h2
  · exact hpoU.antisymm _ _ (hU _ hx.1) (hU _ hy.1) h2 h1

theorem isExtremeElem_congr {E E' : List α} (h : ∀ x, x ∈ E ↔ x ∈ E') {d : Dir} {x : α}
    (hx : IsExtremeElem leq d E x) : IsExtremeElem leq d E' x :=
  ⟨(h x).mp hx.1, fun y hy => hx.2 y ((h y).mpr hy)⟩

theorem greatestElem_eq_some_iff (hpoU : PO leq U) {E : List α} (hnd : E.Nodup) (hU : ∀ a ∈ E, U a) {d : Dir}
    {x : α} : greatestElem leq d E = some x ↔ IsExtremeElem leq d E x := by
  have hpo : IdxPO leq E := idxPO_of hpoU hnd hU
  constructor
  · intro h
    unfold greatestElem at h
    split at h
    · rename_i t hg
      obtain ⟨x', hx', he⟩ := isExt_iff_elem.mp ((greatest_eq_some_iff hpo).mp hg)
      rw [hx'] at h; cases h; exact he
    · cases h
  · intro h
    obtain ⟨t, ht, hxt⟩ := List.getElem_of_mem h.1
    have hx : E[t]? = some x := by rw [List.getElem?_eq_getElem ht, hxt]
    have : isExt leq d E t = true := isExt_iff_elem.mpr ⟨x, hx, h⟩
    simp [greatestElem, (greatest_eq_some_iff hpo).mpr this, hx]

/-- having a greatest / least element depends on the element set only -/
theorem hasExtremes_congr {E E' : List α} (h : ∀ x, x ∈ E ↔ x ∈ E') {cls : Cls}
    (hE : HasExtremes leq cls E) : HasExtremes leq cls E' := by
  intro d hd
  obtain ⟨t, ht⟩ := hE d hd
  obtain ⟨x, _, hx⟩ := isExt_iff_elem.mp ht
  have hx' := isExtremeElem_congr h hx
  obtain ⟨t', ht', hxt⟩ := List.getElem_of_mem hx'.1
  exact ⟨t', isExt_iff_elem.mpr ⟨x, by rw [List.getElem?_eq_getElem ht', hxt], hx'⟩⟩

/-! ### element sets after adding / removing lists of elements -/

theorem mem_foldl_add (l : List α) (f : Bool) (E : List α) (x : α) :
    x ∈ (l.map fun e => Op.add e f).foldl next E ↔ x ∈ E ∨ x ∈ l := by
  induction l generalizing E with
  | nil => simp
  | cons e l ih =>
    simp only [List.map_cons, List.foldl_cons, ih, next, List.mem_cons]
    by_cases he : e ∈ E
    · simp only [he, ↓reduceIte]
      constructor
      · rintro (h | h)
        · exact Or.inl h
        · exact Or.inr (Or.inr h)
      · rintro (h | h | h)
        · exact Or.inl h
        · subst h; exact Or.inl he
        · exact Or.inr h
    · simp only [he, ↓reduceIte, List.mem_append, List.mem_singleton]
      constructor
      · rintro ((h | h) | h)
        · exact Or.inl h
        · exact Or.inr (Or.inl h)
        · exact Or.inr (Or.inr h)
      · rintro (h | h | h)
        · exact Or.inl (Or.inl h)
        · exact Or.inl (Or.inr h)
        · exact Or.inr h

theorem mem_next_remove {E : List α} (hnd : E.Nodup) (e x : α) :
    x ∈ next E (.remove e) ↔ x ∈ E ∧ x ≠ e := by
  simp only [next]
  cases hi : indexOf? e E with
  | none =>
    have : e ∉ E := fun h => by
      obtain ⟨i, hi'⟩ := indexOf?_some_of_mem h
      rw [hi] at hi'; cases hi'
    simp only
    exact ⟨fun h => ⟨h, fun hx => this (hx ▸ h)⟩, fun h => h.1⟩
  | some i =>
    have hie := indexOf?_spec hi
    have hil : i < E.length := (List.getElem?_eq_some_iff.mp hie).1
    have hei : E[i] = e := by
      have := List.getElem?_eq_getElem hil
      rw [hie] at this; exact (Option.some.inj this).symm
    simp only
    rw [List.mem_eraseIdx_iff_getElem?]
    constructor
    · rintro ⟨j, hji, hj⟩
      have hjl : j < E.length := (List.getElem?_eq_some_iff.mp hj).1
      have hjx : E[j] = x := by
        have := List.getElem?_eq_getElem hjl
        rw [hj] at this; exact (Option.some.inj this).symm
      refine ⟨hjx ▸ List.getElem_mem hjl, fun hxe => hji ?_⟩
      exact (List.getElem_inj hnd).mp (by rw [hjx, hei, hxe])
    · rintro ⟨hx, hne⟩
      obtain ⟨j, hjl, hjx⟩ := List.getElem_of_mem hx
      refine ⟨j, fun hji => hne ?_, by rw [List.getElem?_eq_getElem hjl, hjx]⟩
      subst hji
      rw [← hjx, hei]

theorem mem_foldl_remove (l : List α) {E : List α} (hnd : E.Nodup) (x : α) :
    x ∈ (l.map Op.remove).foldl next E ↔ x ∈ E ∧ x ∉ l := by
  induction l generalizing E with
  | nil => simp
  | cons e l ih =>
    simp only [List.map_cons, List.foldl_cons]
    rw [ih (next_nodup hnd _), mem_next_remove hnd]
    simp only [List.mem_cons, not_or]
    constructor
    · rintro ⟨⟨h1, h2⟩, h3⟩; exact ⟨h1, h2, h3⟩
    · rintro ⟨h1, h2, h3⟩; exact ⟨⟨h1, h2⟩, h3⟩

end
end Fca.SemiLattice

/-
  Fca.Lemmas.CodecCxt — the `.cxt` and `.csv` text round trips of `Fca.Model.Codec`.
-/
import Fca.Lemmas.Codec
namespace Fca.Codec

/-- a name the `.cxt` format can carry: non-empty, no newline -/
def NameOk (l : Str) : Prop := l ≠ [] ∧ nl ∉ l
instance (l : Str) : Decidable (NameOk l) := by unfold NameOk; infer_instance

/-! ### the double-newline separator -/

abbrev nn : Str := [nl, nl]

theorem nn_prefix_of_ne (c : Char) (t : Str) (h : c ≠ nl) : nn.isPrefixOf (c :: t) = false := by
  have : (nl == c) = false := by simpa using fun e => h e.symm
  cases t <;> simp [List.isPrefixOf, this]

theorem nn_prefix_nl (t : Str) (h : ∀ u, t ≠ nl :: u) : nn.isPrefixOf (nl :: t) = false := by
  cases t with
  | nil => simp [List.isPrefixOf]
  | cons x u =>
    have : (nl == x) = false := by
      simp only [beq_eq_false_iff_ne, ne_eq]
      intro e; exact h u (by rw [e])
    simp [List.isPrefixOf, this]

theorem noEarly_append (sep : Str) (b T : Str) : ∀ a : Str,
    noEarly sep (a ++ b) T = (noEarly sep a (b ++ T) && noEarly sep b T)
  | [] => by simp [noEarly]
  | c :: a => by
    simp only [List.cons_append, noEarly, noEarly_append sep b T a, List.append_assoc, Bool.and_assoc]

theorem noEarly_nn_of_noNl (T : Str) : ∀ a : Str, nl ∉ a → noEarly nn a T = true
  | [], _ => rfl
  | c :: a, h => by
    simp only [List.mem_cons, not_or] at h
    simp only [noEarly, List.cons_append, nn_prefix_of_ne c _ (fun e => h.1 e.symm),
      noEarly_nn_of_noNl T a h.2, Bool.not_false, Bool.and_self]

/-- `d1 + '\n' + d2` (two newline-free fields, the second non-empty) holds no early `'\n\n'` -/
theorem noEarly_nn_two (d1 d2 T : Str) (h1 : nl ∉ d1) (h2 : nl ∉ d2) (hne : d2 ≠ []) :
    noEarly nn (d1 ++ nl :: d2) T = true := by
  rw [noEarly_append, noEarly_nn_of_noNl _ d1 h1]
  cases d2 with
  | nil => exact absurd rfl hne
  | cons e d2 =>
    simp only [List.mem_cons, not_or] at h2
    have hp : nn.isPrefixOf (nl :: (e :: d2 ++ T)) = false :=
      nn_prefix_nl _ (fun u hu => by
        simp only [List.cons_append, List.cons.injEq] at hu
        exact h2.1 hu.1.symm)
    have hrest := noEarly_nn_of_noNl T (e :: d2) (by simp [h2.1, h2.2])
    simp only [noEarly, List.cons_append, Bool.true_and] at hrest ⊢
    simp only [List.cons_append] at hp
    simp [hp, hrest]

theorem occurs_nn_line (R : Str) (hR : occurs nn R = false) (hR' : ∀ u, R ≠ nl :: u) :
    ∀ l : Str, nl ∉ l → occurs nn (l ++ nl :: R) = false
  | [], _ => by
    simp only [List.nil_append, occurs, nn_prefix_nl R hR', hR, Bool.or_self]
  | c :: l, h => by
    simp only [List.mem_cons, not_or] at h
    simp only [List.cons_append, occurs, nn_prefix_of_ne c _ (fun e => h.1 e.symm),
      occurs_nn_line R hR hR' l h.2, Bool.or_self]

theorem unlines_head (ls : List Str) (h : ∀ l ∈ ls, NameOk l) : ∀ u, unlines ls ≠ nl :: u := by
  intro u
  cases ls with
  | nil => simp [unlines]
  | cons l ls =>
    obtain ⟨hne, hnl⟩ := h l (by simp)
    cases l with
    | nil => exact absurd rfl hne
    | cons c l =>
      simp only [unlines, List.cons_append, ne_eq, List.cons.injEq, not_and]
      intro e
      simp only [List.mem_cons, not_or] at hnl
      exact absurd e.symm hnl.1

theorem occurs_nn_unlines : ∀ ls : List Str, (∀ l ∈ ls, NameOk l) → occurs nn (unlines ls) = false
  | [], _ => rfl
  | l :: ls, h => by
    have hls : ∀ l' ∈ ls, NameOk l' := fun l' hl' => h l' (List.mem_cons_of_mem _ hl')
    simp only [unlines]
    exact occurs_nn_line _ (occurs_nn_unlines ls hls) (unlines_head ls hls) l (h l (by simp)).2

/-! ### decimal numbers -/

theorem nl_not_mem_natRepr (n : Nat) : nl ∉ natRepr n := by
  intro h
  have := Nat.isDigit_of_mem_toDigits (by decide) (by decide) h
  simp [nl] at this

theorem natRepr_ne_nil (n : Nat) : natRepr n ≠ [] := Nat.toDigits_ne_nil

theorem pyInt_natRepr (n : Nat) : pyInt (natRepr n) = .ok n := by
  have h1 : (natRepr n).isEmpty = false := by
    cases h : natRepr n with
    | nil => exact absurd h (natRepr_ne_nil n)
    | cons _ _ => rfl
  have h2 : (natRepr n).all Char.isDigit = true :=
    List.all_eq_true.mpr fun c hc => Nat.isDigit_of_mem_toDigits (by decide) (by decide) hc
  simp only [pyInt, h1, h2, Bool.not_false, Bool.and_self, ↓reduceIte]
  exact congrArg _ (Nat.ofDigitChars_toDigits (by decide) (by decide))

/-! ### rows of `X` and `.` -/

theorem rowStr_decode (r : List Bool) : (rowStr r).map (fun c => c == 'X') = r := by
  induction r with
  | nil => rfl
  | cons b r ih =>
    simp only [rowStr, List.map_cons, List.map_map] at ih ⊢
    rw [ih]
    cases b <;> simp

theorem rows_decode (rows : List (List Bool)) :
    (rows.map rowStr).map (fun line => line.map fun c => c == 'X') = rows := by
  induction rows with
  | nil => rfl
  | cons r rows ih => simp only [List.map_cons, rowStr_decode, ih]

theorem rowStr_ok (r : List Bool) (h : r ≠ []) : NameOk (rowStr r) := by
  refine ⟨by simpa [rowStr] using h, ?_⟩
  intro hm
  simp only [rowStr, List.mem_map] at hm
  obtain ⟨b, _, hb⟩ := hm
  cases b <;> simp [nl] at hb

/-! ### the constructor accepts well-formed parts -/

theorem widthOf_eq (rows : List (List Bool)) (m : Nat) (hne : rows ≠ [])
    (h : ∀ r ∈ rows, r.length = m) : Cxt.widthOf rows = m := by
  cases rows with
  | nil => exact absurd rfl hne
  | cons r rs => exact h r (by simp)

theorem mkCxt_ok (rows : List (List Bool)) (objs attrs : List Str) (d : Option Str)
    (hne : rows ≠ []) (ho : objs.length = rows.length) (hr : ∀ r ∈ rows, r.length = attrs.length) :
    mkCxt rows (some objs) (some attrs) d = .ok ⟨objs, attrs, rows, d⟩ := by
  have hw := widthOf_eq rows attrs.length hne hr
  have hall : (rows.all fun r => r.length == attrs.length) = true :=
    List.all_eq_true.mpr fun r hr' => by simpa using hr r hr'
  simp only [mkCxt, hw, hall, ho, Bool.not_true, Bool.false_eq_true, ↓reduceIte, Option.getD_some,
    bne_self_eq_false]

/-! ### `.cxt` -/

/-- the shape of the text `write_cxt` produces -/
theorem writeCxt_eq (K : Cxt) (ho : K.objs ≠ []) (ha : K.attrs ≠ []) (hr : K.rows ≠ []) :
    writeCxt K = ['B'] ++ (nn ++ ((natRepr K.nObjs ++ nl :: natRepr K.nAttrs) ++
      (nn ++ unlines (K.objs ++ K.attrs ++ K.rows.map rowStr)))) := by
  have h3 : K.rows.map rowStr ≠ [] := by simpa using hr
  simp only [writeCxt, join_nl_eq_unlines _ ho, join_nl_eq_unlines _ ha, join_nl_eq_unlines _ h3,
    unlines_append]
  simp [List.append_assoc]

theorem splitOn_nn_writeCxt (K : Cxt) (ho : K.objs ≠ []) (ha : K.attrs ≠ []) (hr : K.rows ≠ [])
    (hlines : ∀ l ∈ K.objs ++ K.attrs ++ K.rows.map rowStr, NameOk l) :
    splitOn nn (writeCxt K) = [['B'], natRepr K.nObjs ++ nl :: natRepr K.nAttrs,
      unlines (K.objs ++ K.attrs ++ K.rows.map rowStr)] := by
  rw [writeCxt_eq K ho ha hr]
  unfold splitOn
  rw [splitGo_first nn (by simp) _ ['B'] (noEarly_nn_of_noNl _ _ (by simp [nl]))]
  rw [splitGo_first nn (by simp) _ _
    (noEarly_nn_two _ _ _ (nl_not_mem_natRepr _) (nl_not_mem_natRepr _) (natRepr_ne_nil _))]
  rw [splitGo_no_occ nn _ (occurs_nn_unlines _ hlines)]

theorem split_counts (n m : Nat) :
    mapME pyInt (splitOn [nl] (natRepr n ++ nl :: natRepr m)) = .ok [n, m] := by
  rw [splitOn_single_first nl _ _ (nl_not_mem_natRepr n)]
  unfold splitOn
  rw [splitGo_no_occ _ _ (occurs_single nl _ (nl_not_mem_natRepr m))]
  simp [mapME, pyInt_natRepr]

theorem stripNl_unlines (ls : List Str) (hne : ls ≠ []) (h : ∀ l ∈ ls, NameOk l) :
    stripNl (unlines ls) = pyJoin [nl] ls := by
  unfold stripNl
  have hl : lstripNl (unlines ls) = unlines ls := by
    cases ls with
    | nil => exact absurd rfl hne
    | cons l ls =>
      obtain ⟨hne', hnl⟩ := h l (by simp)
      cases l with
      | nil => exact absurd rfl hne'
      | cons c l =>
        simp only [List.mem_cons, not_or] at hnl
        simp only [unlines, List.cons_append]
        exact lstripNl_of_head c _ (fun e => hnl.1 e.symm)
  rw [hl]
  exact rstripNl_unlines ls hne h

theorem readCxt_writeCxt (K : Cxt) (hwf : K.WF) (hn : K.rows ≠ []) (hm : K.attrs ≠ [])
    (hobjs : ∀ g ∈ K.objs, NameOk g) (hattrs : ∀ a ∈ K.attrs, NameOk a) :
    readCxt (writeCxt K) = .ok { K with descr := none } := by
  obtain ⟨hlen, hrows⟩ := hwf
  have ho : K.objs ≠ [] := by
    intro e; rw [e] at hlen
    exact hn (List.eq_nil_of_length_eq_zero hlen.symm)
  have hmpos : 0 < K.attrs.length := List.length_pos_iff.mpr hm
  have hlines : ∀ l ∈ K.objs ++ K.attrs ++ K.rows.map rowStr, NameOk l := by
    intro l hl
    simp only [List.mem_append, List.mem_map] at hl
    rcases hl with (h | h) | ⟨r, hr, rfl⟩
    · exact hobjs l h
    · exact hattrs l h
    · exact rowStr_ok r (fun e => by have := hrows r hr; rw [e] at this; simp at this; omega)
  have hnA : K.nAttrs = K.attrs.length := widthOf_eq K.rows _ hn hrows
  have hlinesne : K.objs ++ K.attrs ++ K.rows.map rowStr ≠ [] := by simp [ho]
  unfold readCxt
  rw [splitOn_nn_writeCxt K ho hm hn hlines]
  simp only [split_counts, stripNl_unlines _ hlinesne hlines]
  rw [splitOn_join_single nl _ hlinesne (fun l hl => (hlines l hl).2)]
  have e1 : (K.objs ++ K.attrs ++ K.rows.map rowStr).take K.nObjs = K.objs := by
    rw [List.append_assoc, Cxt.nObjs, ← hlen, List.take_left]
  have e2 : (K.objs ++ K.attrs ++ K.rows.map rowStr).drop K.nObjs = K.attrs ++ K.rows.map rowStr := by
    rw [List.append_assoc, Cxt.nObjs, ← hlen, List.drop_left]
  have e3 : (K.attrs ++ K.rows.map rowStr).take K.nAttrs = K.attrs := by rw [hnA, List.take_left]
  have e4 : (K.attrs ++ K.rows.map rowStr).drop K.nAttrs = K.rows.map rowStr := by
    rw [hnA, List.drop_left]
  rw [e1, e2, e3, e4, rows_decode]
  exact mkCxt_ok K.rows K.objs K.attrs none hn hlen hrows

end Fca.Codec

/-
  Lemmas/SemiLatticeFull2 — the constructors establish the complete invariant `InvAll`; whole histories.
-/
import Fca.Lemmas.SemiLatticeFull
set_option linter.unusedSectionVars false
set_option linter.unusedVariables false
namespace Fca.SemiLattice
open Fca Fca.Poset Fca.Poset.Fresh Fca.SemiLattice.Spec

section
variable {α : Type} [DecidableEq α] {leq : α → α → Bool} {ord : List Nat → List Nat} {U : α → Prop}

/-- one side of the constructor check changes the poset part by the `POSet.tops / bottoms` scan only -/
theorem ctorSide_scan {E : List α} (hpo : IdxPO leq E) {G : Ghost} {c : Bool} {s : SL α}
    (h : InvB leq E G c s.p) (d : Dir) (hex : ∃ t, isExt leq d E t = true) :
    ∃ s1, ctorSide leq d c s = (s1, .ok ()) ∧ s1.p = (extremesE leq d s.p).1 ∧ s1.cls = s.cls := by
  obtain ⟨t, ht⟩ := hex
  obtain ⟨p', st, hm, h1, hst⟩ := extremesE_spec' hpo h d
  have hl : ML.lift (extremesE leq d) s = ({ s with p := p' }, .ok st) := by rw [lift_apply, hm]
  rw [extremes_of_isExt hpo ht] at hst
  subst hst
  unfold ctorSide
  rw [bind_ok hl, hm]
  cases c
  · exact ⟨_, rfl, rfl, rfl⟩
  · refine ⟨_, rfl, ?_, ?_⟩
    · simp only [List.head?_cons, p_setCache]
    · simp only [List.head?_cons, cls_setCache]

/-- the constructor, when it accepts, leaves caches in which a cached direct relation implies the cached closed
    relation (it caches closed relations only) -/
theorem ctor_dic (hpoU : PO leq U) (cls : Cls) (E : List α) (c : Bool) (hnd : E.Nodup) (hU : ∀ a ∈ E, U a)
    {s : SL α} (hs : ctor leq cls E c = .ok s) : DIC E.length E.length s.p := by
  have hpo : IdxPO leq E := idxPO_of hpoU hnd hU
  obtain ⟨hyes, hno⟩ := ctor_spec (leq := leq) hpoU cls E c hnd hU
  have hP : E ≠ [] ∧ HasExtremes leq cls E := by
    apply Classical.byContradiction
    intro hn
    rw [hno hn] at hs
    cases hs
  have hlen : ¬ E.length = 0 := fun h => hP.1 (List.length_eq_zero_iff.mp h)
  have hinit : InvB leq E Ghost.none c (init E c) :=
    InvB.ofOk rfl rfl (fun _ a b r h => by simp [init] at h)
      (fun _ d k v h => by cases d <;> simp [init, St.closed] at h)
      (fun _ d k v h => by cases d <;> simp [init, St.direct] at h)
  have d0 : DIC E.length E.length (init E c) := fun d k _ _ hp => by cases d <;> simp [init, St.direct] at hp
  have key : ∃ s', ctor leq cls E c = .ok s' ∧ DIC E.length E.length s'.p := by
    cases cls with
    | upper =>
      obtain ⟨s1, hr, hp1, _⟩ := ctorSide_scan (c := c) (s := ⟨.upper, init E c, none, none⟩) hpo hinit .anc
        (hP.2 .anc rfl)
      exact ⟨s1, by simp only [ctor, hlen, ↓reduceIte, hr], by rw [hp1]; exact (keeps_extremesE _ _ _).state d0⟩
    | lower =>
      obtain ⟨s1, hr, hp1, _⟩ := ctorSide_scan (c := c) (s := ⟨.lower, init E c, none, none⟩) hpo hinit .desc
        (hP.2 .desc rfl)
      exact ⟨s1, by simp only [ctor, hlen, ↓reduceIte, hr], by rw [hp1]; exact (keeps_extremesE _ _ _).state d0⟩
    | lattice =>
      obtain ⟨s1, hr, hp1, _⟩ := ctorSide_scan (c := c) (s := ⟨.lattice, init E c, none, none⟩) hpo hinit .desc
        (hP.2 .desc rfl)
      have h1 : InvB leq E Ghost.none c s1.p := by
        obtain ⟨p', st, hm, h1, _⟩ := extremesE_spec (ord := id) hpo (fun l => List.Perm.refl l) hinit .desc
        rw [hp1]
        show InvB leq E Ghost.none c (extremesE leq Dir.desc (init E c)).1
        rw [hm]; exact h1
      have d1 : DIC E.length E.length s1.p := by rw [hp1]; exact (keeps_extremesE _ _ _).state d0
      obtain ⟨s2, hr2, hp2, _⟩ := ctorSide_scan (c := c) (s := s1) hpo h1 .anc (hP.2 .anc rfl)
      have hm : (do ctorSide leq .desc c; ctorSide leq .anc c : ML α Unit)
          ⟨.lattice, init E c, none, none⟩ = (s2, .ok ()) := (bind_ok hr).trans hr2
      refine ⟨s2, ?_, by rw [hp2]; exact (keeps_extremesE _ _ _).state d1⟩
      simp only [ctor, hlen, ↓reduceIte]
      rw [hm]
  obtain ⟨s', hs', hd⟩ := key
  rw [hs] at hs'
  cases hs'
  exact hd

theorem ctor_invAll (hpoU : PO leq U) (cls : Cls) (E : List α) (c : Bool) (hnd : E.Nodup) (hU : ∀ a ∈ E, U a)
    {s : SL α} (hs : ctor leq cls E c = .ok s) : InvAll leq s := by
  obtain ⟨hyes, hno⟩ := ctor_spec (leq := leq) hpoU cls E c hnd hU
  have hP : E ≠ [] ∧ HasExtremes leq cls E := by
    apply Classical.byContradiction
    intro hn
    rw [hno hn] at hs
    cases hs
  obtain ⟨s', hs', h1, h2, h3, h4, h5⟩ := hyes hP
  rw [hs] at hs'
  cases hs'
  exact ⟨h4, by rw [h2]; exact hnd, by rw [h2, h3]; exact h5, fun _ => by rw [h2]; exact ctor_dic hpoU cls E c hnd hU hs⟩

/-! ### histories -/

/-- every operation of the history is in the documented range (`opOkSL`) when it is executed (specification
    level: the element list is threaded through `nextSL`) -/
def histOk (leq : α → α → Bool) (cls : Cls) (c : Bool) : List α → List (OpSL α) → Bool
  | _, [] => true
  | E, op :: ops => opOkSL cls E c op && histOk leq cls c (nextSL leq cls E op) ops

/-- whole histories: outputs are the specified ones, the complete invariant holds at the end -/
theorem runSL_full (hpoU : PO leq U) (hord : ∀ l, (ord l).Perm l) (ops : List (OpSL α)) {s : SL α}
    (hA : InvAll leq s) (hU : ∀ a ∈ s.p.elems, U a) (hin : ∀ op ∈ ops, OpInSL U op)
    (hok : histOk leq s.cls s.p.useCache s.p.elems ops = true) :
    InvAll leq (runSL leq ord s ops).1 ∧ (runSL leq ord s ops).2 = runFreshSL leq s.cls s.p.elems ops ∧
      (runSL leq ord s ops).1.p.elems = nextsSL leq s.cls s.p.elems ops ∧
      (runSL leq ord s ops).1.cls = s.cls ∧ (runSL leq ord s ops).1.p.useCache = s.p.useCache := by
  induction ops generalizing s with
  | nil => exact ⟨hA, rfl, rfl, rfl, rfl⟩
  | cons op ops ih =>
    simp only [histOk, Bool.and_eq_true] at hok
    obtain ⟨hok1, hok2⟩ := hok
    obtain ⟨g1, g2, g3, g4, g5⟩ := stepSL_full (ord := ord) hpoU hord hA hU op hok1 (hin op List.mem_cons_self)
    have := ih (s := (stepSL leq ord s op).1) g1
      (by rw [g3]; exact nextSL_U hU op (hin op List.mem_cons_self))
      (fun o ho => hin o (List.mem_cons_of_mem _ ho)) (by rw [g3, g4, g5]; exact hok2)
    simp only [runSL, runFreshSL, nextsSL]
    rw [g3, g4, g5] at this
    exact ⟨this.1, by rw [g2, this.2.1], this.2.2.1, this.2.2.2.1, this.2.2.2.2⟩

theorem answer_mutation_unit {cls : Cls} {E : List α} {o : Op α} (hm : isMutation o = true)
    (hr : refusal leq cls E o = none) : answer leq E o = .unit := by
  cases o <;> simp only [isMutation] at hm <;> try cases hm
  · rfl
  · rename_i k
    have hk : k < E.length := by
      simp only [refusal] at hr
      split at hr
      · cases hr
      · split at hr
        · assumption
        · cases hr
    simp [answer, hk]
  · rename_i e
    have he : e ∈ E := by
      simp only [refusal] at hr
      split at hr
      · cases hr
      · split at hr
        · assumption
        · cases hr
    obtain ⟨i, hi⟩ := indexOf?_some_of_mem he
    simp [answer, hi]

/-- in such a history no mutation dies of an exception other than its specified refusal -/
theorem noInternalError_of_histOk (hpoU : PO leq U) (hord : ∀ l, (ord l).Perm l) (ops : List (OpSL α)) {s : SL α}
    (hA : InvAll leq s) (hU : ∀ a ∈ s.p.elems, U a) (hin : ∀ op ∈ ops, OpInSL U op)
    (hok : histOk leq s.cls s.p.useCache s.p.elems ops = true) : NoInternalError leq ord s ops := by
  induction ops generalizing s with
  | nil => trivial
  | cons op ops ih =>
    simp only [histOk, Bool.and_eq_true] at hok
    obtain ⟨hok1, hok2⟩ := hok
    obtain ⟨g1, g2, g3, g4, g5⟩ := stepSL_full (ord := ord) hpoU hord hA hU op hok1 (hin op List.mem_cons_self)
    refine ⟨fun hm e he => ?_, ih (s := (stepSL leq ord s op).1) g1
      (by rw [g3]; exact nextSL_U hU op (hin op List.mem_cons_self))
      (fun o ho => hin o (List.mem_cons_of_mem _ ho)) (by rw [g3, g4, g5]; exact hok2)⟩
    rw [g2] at he
    cases op with
    | extreme d => simp [isMutationSL] at hm
    | op o =>
      simp only [refusalSL]
      simp only [isMutationSL] at hm
      have hans : answerSL leq s.cls s.p.elems (.op o) = (match refusal leq s.cls s.p.elems o with
          | some er => .err er
          | none => answer leq s.p.elems o) := by
        cases o <;> first | rfl | cases hm
      rw [hans] at he
      cases hr : refusal leq s.cls s.p.elems o with
      | some er => rw [hr] at he; cases he; rfl
      | none =>
        rw [hr] at he
        simp only [answer_mutation_unit hm hr] at he
        cases he

end
end Fca.SemiLattice

/-
  Lemmas/SemiLatticeFull2 — the constructors establish the complete invariant `InvAll`; whole histories.
-/
import Fca.Lemmas.SemiLatticeFull
set_option linter.unusedSectionVars false
set_option linter.unusedVariables false
namespace Fca.SemiLattice
open Fca Fca.Poset Fca.Poset.Fresh Fca.SemiLattice.Spec

section
variable {α : Type} [DecidableEq α] {leq : α → α → Bool} {ord : List Nat → List Nat} {U : α → Prop}

/-- one side of the constructor check, with the presence the scan leaves behind -/
theorem ctorSide_scan {E : List α} (hpo : IdxPO leq E) {G : Ghost} {c : Bool} {s : SL α}
    (h : InvB leq E G c s.p) (d : Dir) (hex : ∃ t, isExt leq d E t = true) :
    ∃ s1, ctorSide leq d c s = (s1, .ok ()) ∧
      InvB leq E (G.addClosedP d (fun k => k < E.length)) c s1.p ∧ s1.cls = s.cls := by
  obtain ⟨t, ht⟩ := hex
  obtain ⟨p', st, hl, h1, hst⟩ := lift_sat (s := s) (extremesE_spec' hpo h d)
  rw [extremes_of_isExt hpo ht] at hst
  subst hst
  unfold ctorSide
  rw [bind_ok hl]
  cases c
  · exact ⟨_, rfl, h1, rfl⟩
  · refine ⟨_, rfl, ?_, ?_⟩
    · simp only [List.head?_cons, p_setCache]; exact h1
    · simp only [List.head?_cons, cls_setCache]

/-- the constructor, when it accepts, leaves the closed relation of every element cached on every side the
    class overrides -/
theorem ctor_complete (hpoU : PO leq U) (cls : Cls) (E : List α) (c : Bool) (hnd : E.Nodup) (hU : ∀ a ∈ E, U a)
    {s : SL α} (hs : ctor leq cls E c = .ok s) : Complete s := by
  have hpo : IdxPO leq E := idxPO_of hpoU hnd hU
  obtain ⟨hyes, hno⟩ := ctor_spec (leq := leq) hpoU cls E c hnd hU
  have hP : E ≠ [] ∧ HasExtremes leq cls E := by
    apply Classical.byContradiction
    intro hn
    rw [hno hn] at hs
    cases hs
  have hlen : ¬ E.length = 0 := fun h => hP.1 (List.length_eq_zero_iff.mp h)
  have hinit : InvB leq E Ghost.none c (init E c) :=
    InvB.ofOk rfl rfl (fun _ a b r h => by simp [init] at h)
      (fun _ d k v h => by cases d <;> simp [init, St.closed] at h)
      (fun _ d k v h => by cases d <;> simp [init, St.direct] at h)
  -- the final state of the run, with its ghost promises
  have key : ∃ s' G, ctor leq cls E c = .ok s' ∧ InvB leq E G c s'.p ∧ s'.cls = cls ∧
      ∀ d, cls.has d = true → ∀ k, k < E.length → G.closedP d k := by
    cases cls with
    | upper =>
      obtain ⟨s1, hr, h1, hc1⟩ := ctorSide_scan (c := c) (s := ⟨.upper, init E c, none, none⟩) hpo hinit .anc
        (hP.2 .anc rfl)
      refine ⟨s1, _, by simp only [ctor, hlen, ↓reduceIte, hr], h1, hc1, fun d hd k hk => ?_⟩
      cases d
      · cases hd
      · exact Or.inr ⟨rfl, hk⟩
    | lower =>
      obtain ⟨s1, hr, h1, hc1⟩ := ctorSide_scan (c := c) (s := ⟨.lower, init E c, none, none⟩) hpo hinit .desc
        (hP.2 .desc rfl)
      refine ⟨s1, _, by simp only [ctor, hlen, ↓reduceIte, hr], h1, hc1, fun d hd k hk => ?_⟩
      cases d
      · exact Or.inr ⟨rfl, hk⟩
      · cases hd
    | lattice =>
      obtain ⟨s1, hr, h1, hc1⟩ := ctorSide_scan (c := c) (s := ⟨.lattice, init E c, none, none⟩) hpo hinit .desc
        (hP.2 .desc rfl)
      obtain ⟨s2, hr2, h2, hc2⟩ := ctorSide_scan (c := c) (s := s1) hpo h1 .anc (hP.2 .anc rfl)
      have hm : (do ctorSide leq .desc c; ctorSide leq .anc c : ML α Unit)
          ⟨.lattice, init E c, none, none⟩ = (s2, .ok ()) := (bind_ok hr).trans hr2
      refine ⟨s2, _, ?_, h2, hc2.trans hc1, fun d hd k hk => ?_⟩
      · simp only [ctor, hlen, ↓reduceIte]
        rw [hm]
      · cases d
        · exact Or.inl (Or.inr ⟨rfl, hk⟩)
        · exact Or.inr ⟨rfl, hk⟩
  obtain ⟨s', G, hs', hinv, hcls, hG⟩ := key
  rw [hs] at hs'
  cases hs'
  intro hu d hd k hk
  have hc : c = true := by rw [← hinv.flag]; exact hu
  rw [hinv.elems] at hk
  rw [hcls] at hd
  exact hinv.closedPres hc d k (hG d hd k hk)

theorem ctor_invAll (hpoU : PO leq U) (cls : Cls) (E : List α) (c : Bool) (hnd : E.Nodup) (hU : ∀ a ∈ E, U a)
    {s : SL α} (hs : ctor leq cls E c = .ok s) : InvAll leq s := by
  obtain ⟨hyes, hno⟩ := ctor_spec (leq := leq) hpoU cls E c hnd hU
  have hP : E ≠ [] ∧ HasExtremes leq cls E := by
    apply Classical.byContradiction
    intro hn
    rw [hno hn] at hs
    cases hs
  obtain ⟨s', hs', h1, h2, h3, h4, h5⟩ := hyes hP
  rw [hs] at hs'
  cases hs'
  exact ⟨h4, by rw [h2]; exact hnd, by rw [h2, h3]; exact h5, ctor_complete hpoU cls E c hnd hU hs⟩

/-! ### histories -/

/-- the history stays in the range of the full step theorem: every operation is `opOkSL` when it is executed and
    none is `add(new, fill_up_cache=False)` on a caching instance (specification level: threaded through `nextSL`) -/
def histOk (leq : α → α → Bool) (cls : Cls) (c : Bool) : List α → List (OpSL α) → Bool
  | _, [] => true
  | E, op :: ops =>
    opOkSL cls E c op &&
    !(match op with
      | .op (.add e false) => c && !(decide (e ∈ E))
      | _ => false) &&
    histOk leq cls c (nextSL leq cls E op) ops

theorem wipes_eq (s : SL α) (op : OpSL α) :
    wipes s op = (match op with
      | .op (.add e false) => s.p.useCache && !(decide (e ∈ s.p.elems))
      | _ => false) := by
  unfold wipes
  split <;> simp_all

/-- whole histories: outputs are the specified ones, the complete invariant holds at the end -/
theorem runSL_full (hpoU : PO leq U) (hord : ∀ l, (ord l).Perm l) (ops : List (OpSL α)) {s : SL α}
    (hA : InvAll leq s) (hU : ∀ a ∈ s.p.elems, U a) (hin : ∀ op ∈ ops, OpInSL U op)
    (hok : histOk leq s.cls s.p.useCache s.p.elems ops = true) :
    InvAll leq (runSL leq ord s ops).1 ∧ (runSL leq ord s ops).2 = runFreshSL leq s.cls s.p.elems ops ∧
      (runSL leq ord s ops).1.p.elems = nextsSL leq s.cls s.p.elems ops ∧
      (runSL leq ord s ops).1.cls = s.cls ∧ (runSL leq ord s ops).1.p.useCache = s.p.useCache := by
  induction ops generalizing s with
  | nil => exact ⟨hA, rfl, rfl, rfl, rfl⟩
  | cons op ops ih =>
    simp only [histOk, Bool.and_eq_true, Bool.not_eq_true'] at hok
    obtain ⟨⟨hok1, hw⟩, hok2⟩ := hok
    obtain ⟨g1, g2, g3, g4, g5⟩ := stepSL_full (ord := ord) hpoU hord hA hU op hok1 (hin op List.mem_cons_self)
      (by rw [wipes_eq]; exact hw)
    have := ih (s := (stepSL leq ord s op).1) g1
      (by rw [g3]; exact nextSL_U hU op (hin op List.mem_cons_self))
      (fun o ho => hin o (List.mem_cons_of_mem _ ho)) (by rw [g3, g4, g5]; exact hok2)
    simp only [runSL, runFreshSL, nextsSL]
    rw [g3, g4, g5] at this
    exact ⟨this.1, by rw [g2, this.2.1], this.2.2.1, this.2.2.2.1, this.2.2.2.2⟩

theorem answer_mutation_unit {cls : Cls} {E : List α} {o : Op α} (hm : isMutation o = true)
    (hr : refusal leq cls E o = none) : answer leq E o = .unit := by
  cases o <;> simp only [isMutation] at hm <;> try cases hm
  · rfl
  · rename_i k
    have hk : k < E.length := by
      simp only [refusal] at hr
      split at hr
      · cases hr
      · split at hr
        · assumption
        · cases hr
    simp [answer, hk]
  · rename_i e
    have he : e ∈ E := by
      simp only [refusal] at hr
      split at hr
      · cases hr
      · split at hr
        · assumption
        · cases hr
    obtain ⟨i, hi⟩ := indexOf?_some_of_mem he
    simp [answer, hi]

/-- in such a history no mutation dies of an exception other than its specified refusal -/
theorem noInternalError_of_histOk (hpoU : PO leq U) (hord : ∀ l, (ord l).Perm l) (ops : List (OpSL α)) {s : SL α}
    (hA : InvAll leq s) (hU : ∀ a ∈ s.p.elems, U a) (hin : ∀ op ∈ ops, OpInSL U op)
    (hok : histOk leq s.cls s.p.useCache s.p.elems ops = true) : NoInternalError leq ord s ops := by
  induction ops generalizing s with
  | nil => trivial
  | cons op ops ih =>
    simp only [histOk, Bool.and_eq_true, Bool.not_eq_true'] at hok
    obtain ⟨⟨hok1, hw⟩, hok2⟩ := hok
    obtain ⟨g1, g2, g3, g4, g5⟩ := stepSL_full (ord := ord) hpoU hord hA hU op hok1 (hin op List.mem_cons_self)
      (by rw [wipes_eq]; exact hw)
    refine ⟨fun hm e he => ?_, ih (s := (stepSL leq ord s op).1) g1
      (by rw [g3]; exact nextSL_U hU op (hin op List.mem_cons_self))
      (fun o ho => hin o (List.mem_cons_of_mem _ ho)) (by rw [g3, g4, g5]; exact hok2)⟩
    rw [g2] at he
    cases op with
    | extreme d => simp [isMutationSL] at hm
    | op o =>
      simp only [refusalSL]
      simp only [isMutationSL] at hm
      have hans : answerSL leq s.cls s.p.elems (.op o) = (match refusal leq s.cls s.p.elems o with
          | some er => .err er
          | none => answer leq s.p.elems o) := by
        cases o <;> first | rfl | cases hm
      rw [hans] at he
      cases hr : refusal leq s.cls s.p.elems o with
      | some er => rw [hr] at he; cases he; rfl
      | none =>
        rw [hr] at he
        simp only [answer_mutation_unit hm hr] at he
        cases he

end
end Fca.SemiLattice

/-
  Fca.Lemmas.CodecCsv — the `.csv` round trip (through a text-mode file) of `Fca.Model.Codec`,
  for a one-character separator.
-/
import Fca.Lemmas.CodecCxt
namespace Fca.Codec

/-- a field the csv format can carry with separator `c`: no separator, no newline, no carriage return -/
def FieldOk (c : Char) (l : Str) : Prop := c ∉ l ∧ nl ∉ l ∧ cr ∉ l
instance (c : Char) (l : Str) : Decidable (FieldOk c l) := by unfold FieldOk; infer_instance

theorem mem_pyJoin (sep : Str) (x : Char) : ∀ ls : List Str, x ∈ pyJoin sep ls →
    x ∈ sep ∨ ∃ l ∈ ls, x ∈ l
  | [], h => by simp [pyJoin] at h
  | [l], h => Or.inr ⟨l, by simp, by simpa [pyJoin] using h⟩
  | l :: y :: r, h => by
    simp only [pyJoin, List.mem_append] at h
    rcases h with (h | h) | h
    · exact Or.inr ⟨l, by simp, h⟩
    · exact Or.inl h
    · rcases mem_pyJoin sep x (y :: r) h with h | ⟨l', hl', hx⟩
      · exact Or.inl h
      · exact Or.inr ⟨l', List.mem_cons_of_mem _ hl', hx⟩

theorem mem_unlines (x : Char) : ∀ ls : List Str, x ∈ unlines ls → x = nl ∨ ∃ l ∈ ls, x ∈ l
  | [], h => by simp [unlines] at h
  | l :: ls, h => by
    simp only [unlines, List.mem_append, List.mem_cons] at h
    rcases h with h | h | h
    · exact Or.inr ⟨l, by simp, h⟩
    · exact Or.inl h
    · rcases mem_unlines x ls h with h | ⟨l', hl', hx⟩
      · exact Or.inl h
      · exact Or.inr ⟨l', List.mem_cons_of_mem _ hl', hx⟩

theorem unlines_eq_flatten (ls : List Str) : (ls.map fun l => l ++ [nl]).flatten = unlines ls := by
  induction ls with
  | nil => rfl
  | cons l ls ih => simp [unlines, ih]

/-- the word written for a cell -/
def word (wt wf : Str) (v : Bool) : Str := if v then wt else wf

/-- the fields of the lines of the csv file -/
def csvFields (K : Cxt) (wt wf : Str) : List (List Str) :=
  ([] :: K.attrs) :: (K.objs.zip K.rows).map fun p => p.1 :: p.2.map (word wt wf)

theorem writeCsv_eq (K : Cxt) (sep wt wf : Str) (hm : K.attrs ≠ [])
    (hr : ∀ r ∈ K.rows, r ≠ []) :
    writeCsv K sep wt wf = unlines ((csvFields K wt wf).map (pyJoin sep)) := by
  unfold writeCsv csvFields
  rw [← unlines_eq_flatten]
  simp only [List.map_cons, List.flatten_cons, List.map_map]
  congr 1
  · cases h : K.attrs with
    | nil => exact absurd h hm
    | cons a as => simp [pyJoin]
  · congr 1
    apply List.map_congr_left
    intro p hp
    have hne : p.2 ≠ [] := hr p.2 (List.of_mem_zip hp).2
    obtain ⟨o, r⟩ := p
    cases r with
    | nil => exact absurd rfl hne
    | cons v vs => simp [pyJoin]; rfl

theorem csvVals_words (wt wf : Str) (hne : wt ≠ wf) : ∀ r : List Bool,
    csvVals wt wf (r.map (word wt wf)) = .ok r
  | [] => rfl
  | v :: r => by
    simp only [List.map_cons, csvVals, csvVals_words wt wf hne r]
    cases v
    · have : (wf == wt) = false := by simpa using fun e => hne e.symm
      simp [word, this]
    · simp [word]

theorem csvLines_fields (c : Char) (wt wf : Str) (hne : wt ≠ wf) (hwt : c ∉ wt) (hwf : c ∉ wf) :
    ∀ ps : List (Str × List Bool), (∀ p ∈ ps, c ∉ p.1) →
    csvLines [c] wt wf (ps.map fun p => pyJoin [c] (p.1 :: p.2.map (word wt wf)))
      = .ok (ps.map (·.1), ps.map (·.2))
  | [], _ => rfl
  | p :: ps, h => by
    have hsplit : splitOn [c] (pyJoin [c] (p.1 :: p.2.map (word wt wf))) = p.1 :: p.2.map (word wt wf) := by
      apply splitOn_join_single c _ (by simp)
      intro l hl
      rcases List.mem_cons.mp hl with rfl | hl
      · exact h p (by simp)
      · obtain ⟨v, _, rfl⟩ := List.mem_map.mp hl
        cases v <;> simp [word, hwt, hwf]
    simp only [List.map_cons, csvLines, hsplit, csvVals_words wt wf hne,
      csvLines_fields c wt wf hne hwt hwf ps (fun q hq => h q (List.mem_cons_of_mem _ hq))]

theorem zip_unzip {α β : Type} : ∀ (xs : List α) (ys : List β), xs.length = ys.length →
    (xs.zip ys).map (·.1) = xs ∧ (xs.zip ys).map (·.2) = ys
  | [], [], _ => ⟨rfl, rfl⟩
  | [], _ :: _, h => by simp at h
  | _ :: _, [], h => by simp at h
  | x :: xs, y :: ys, h => by
    obtain ⟨h1, h2⟩ := zip_unzip xs ys (by simpa using h)
    simp [h1, h2]

theorem readCsv_writeCsv (K : Cxt) (c : Char) (wt wf : Str)
    (hwf : K.WF) (hn : K.rows ≠ []) (hm : K.attrs ≠ [])
    (hc : c ≠ nl ∧ c ≠ cr) (hne : wt ≠ wf) (hwt : FieldOk c wt) (hwf' : FieldOk c wf)
    (hobjs : ∀ g ∈ K.objs, FieldOk c g) (hattrs : ∀ a ∈ K.attrs, FieldOk c a) :
    csvViaFile K [c] wt wf = .ok { K with descr := none } := by
  obtain ⟨hlen, hrows⟩ := hwf
  have hmpos : 0 < K.attrs.length := List.length_pos_iff.mpr hm
  have hrne : ∀ r ∈ K.rows, r ≠ [] := fun r hr e => by
    have := hrows r hr; rw [e] at this; simp at this; omega
  -- every field of every line is admissible
  have hfields : ∀ fs ∈ csvFields K wt wf, ∀ f ∈ fs, FieldOk c f := by
    intro fs hfs f hf
    simp only [csvFields, List.mem_cons, List.mem_map] at hfs
    rcases hfs with rfl | ⟨p, hp, rfl⟩
    · rcases List.mem_cons.mp hf with rfl | hf
      · simp [FieldOk]
      · exact hattrs f hf
    · rcases List.mem_cons.mp hf with rfl | hf
      · exact hobjs _ (List.of_mem_zip hp).1
      · obtain ⟨v, _, rfl⟩ := List.mem_map.mp hf
        cases v <;> simp [word, hwt, hwf']
  have hlen2 : ∀ fs ∈ csvFields K wt wf, ∃ a b r, fs = a :: b :: r := by
    intro fs hfs
    simp only [csvFields, List.mem_cons, List.mem_map] at hfs
    rcases hfs with rfl | ⟨p, hp, rfl⟩
    · cases h : K.attrs with
      | nil => exact absurd h hm
      | cons a as => exact ⟨_, _, _, rfl⟩
    · have := hrne p.2 (List.of_mem_zip hp).2
      cases h : p.2 with
      | nil => exact absurd h this
      | cons v vs => exact ⟨_, _, _, rfl⟩
  -- every line is non-empty and free of newlines and carriage returns
  have hline : ∀ l ∈ (csvFields K wt wf).map (pyJoin [c]), NameOk l ∧ cr ∉ l := by
    intro l hl
    obtain ⟨fs, hfs, rfl⟩ := List.mem_map.mp hl
    obtain ⟨a, b, r, rfl⟩ := hlen2 fs hfs
    refine ⟨⟨by simp [pyJoin], ?_⟩, ?_⟩
    · intro hmem
      rcases mem_pyJoin _ _ _ hmem with h | ⟨f, hf, hx⟩
      · exact hc.1 (List.mem_singleton.mp h).symm
      · exact (hfields _ hfs f hf).2.1 hx
    · intro hmem
      rcases mem_pyJoin _ _ _ hmem with h | ⟨f, hf, hx⟩
      · exact hc.2 (List.mem_singleton.mp h).symm
      · exact (hfields _ hfs f hf).2.2 hx
  have hlinesne : (csvFields K wt wf).map (pyJoin [c]) ≠ [] := by simp [csvFields]
  have hfile : fileRoundTrip (writeCsv K [c] wt wf) = writeCsv K [c] wt wf := by
    apply fileRoundTrip_id
    rw [writeCsv_eq K [c] wt wf hm hrne]
    intro hmem
    rcases mem_unlines _ _ hmem with h | ⟨l, hl, hx⟩
    · simp [cr, nl] at h
    · exact (hline l hl).2 hx
  unfold csvViaFile readCsvText
  rw [hfile, writeCsv_eq K [c] wt wf hm hrne,
    stripNl_unlines _ hlinesne (fun l hl => (hline l hl).1),
    splitOn_join_single nl _ hlinesne (fun l hl => (hline l hl).1.2)]
  simp only [csvFields, List.map_cons, List.isEmpty_cons, Bool.false_eq_true, ↓reduceIte, List.map_map]
  have hheader : splitOn [c] (pyJoin [c] ([] :: K.attrs)) = [] :: K.attrs :=
    splitOn_join_single c _ (by simp) (fun l hl => by
      rcases List.mem_cons.mp hl with rfl | hl
      · simp
      · exact (hattrs l hl).1)
  have hbody := csvLines_fields c wt wf hne hwt.1 hwf'.1 (K.objs.zip K.rows)
    (fun p hp => (hobjs _ (List.of_mem_zip hp).1).1)
  obtain ⟨hz1, hz2⟩ := zip_unzip K.objs K.rows hlen
  rw [hz1, hz2] at hbody
  have hcomp : (List.map (pyJoin [c] ∘ fun p : Str × List Bool => p.1 :: List.map (word wt wf) p.2)
      (K.objs.zip K.rows)) = (K.objs.zip K.rows).map fun p => pyJoin [c] (p.1 :: p.2.map (word wt wf)) := rfl
  rw [hheader, hcomp, hbody]
  simp only [List.drop_succ_cons, List.drop_zero]
  exact mkCxt_ok K.rows K.objs K.attrs none hn hlen hrows

end Fca.Codec

/-
  Fca.Lemmas.CbONodup — no closed set is emitted twice.
  * `fbarray` variant: by the `intents_found` set.
  * `objectwise` variant (`extents_i_found` is never filled): by canonicity — an extent determines the
    combination that generates it (generator index and parent are functions of the extent).
-/
import Fca.Lemmas.CbOMachine
namespace Fca.CbOM
open Fca

section
variable {ι : Type} [BEq ι] [LawfulBEq ι]
variable {v : CboVariant} {n : Nat} {intention : List Nat → ι} {extIter : ι → List Nat → List Nat}
variable {c : List Nat → Nat → Bool}

/-- extents as sets -/
def SetEq (a b : List Nat) : Prop := ∀ g, g ∈ a ↔ g ∈ b

/-- pairwise different as sets -/
def Distinct (out : List (List Nat × List Nat)) : Prop := out.Pairwise fun p q => ¬ SetEq p.2 q.2

/-! ### `fbarray` -/

structure InvF (intention : List Nat → ι) (s : CboSt ι) : Prop where
  inFound : ∀ p ∈ s.out, intention p.1 ∈ s.intentsFound
  distinct : Distinct s.out

theorem invF_init : InvF intention (cboInit ι) :=
  ⟨fun p hp => by simp [cboInit] at hp, by simp [Distinct, cboInit]⟩

theorem invF_step (hy : Hyp v n intention extIter c) (hv : v = .fbarray) {s : CboSt ι} {comb : List Nat}
    {rest : List (List Nat)} (hinv : Inv (intention := intention) n c s) (hf : InvF intention s)
    (hst : s.stack = comb :: rest) :
    InvF intention (cboStep v n intention extIter comb { s with stack := rest }) := by
  have hso : StackOk n c comb := hinv.stk comb (by rw [hst]; exact List.mem_cons_self)
  have hr := hso.1
  rcases cboStep_cases hy comb { s with stack := rest } hr with ⟨heq, _⟩ | ⟨hcan, hnf, heq⟩
  · rw [heq]; exact ⟨hf.inFound, hf.distinct⟩
  · rw [heq]
    have hcl := mem_extentOf hy hr hcan
    refine ⟨?_, ?_⟩
    · intro p hp
      simp only [emitSt, hv, beq_self_eq_true, ↓reduceIte] at hp ⊢
      rcases List.mem_cons.mp hp with rfl | hp
      · exact List.mem_cons_self
      · exact List.mem_cons_of_mem _ (hf.inFound p hp)
    · simp only [emitSt, Distinct, List.pairwise_cons]
      refine ⟨?_, hf.distinct⟩
      intro q hq hse
      apply hnf hv
      obtain ⟨hqr, _, hqcan, hqe, _⟩ := hinv.outGood q hq
      have hqcl := mem_extentOf hy hqr hqcan
      rw [← hqe] at hqcl
      have : intention comb = intention q.1 := by
        apply hy.key_of_eq hv comb q.1 hr hqr
        intro g hg
        have h1 := hcl g
        have h2 := hqcl g
        have h3 := hse g
        cases hc1 : c comb g <;> cases hc2 : c q.1 g <;> simp_all
      rw [this]
      exact hf.inFound q hq

theorem loop_invF (hy : Hyp v n intention extIter c) (hv : v = .fbarray) :
    ∀ (f : Nat) (s : CboSt ι) (out : List (List Nat × List Nat)),
      Inv (intention := intention) n c s → InvF intention s →
      cboLoop v n intention extIter f s = .ok out →
      ∃ s' : CboSt ι, Inv (intention := intention) n c s' ∧ InvF intention s' ∧ s'.stack = [] ∧
        out = s'.out.reverse := by
  intro f
  induction f with
  | zero => intro s out _ _ h; simp [cboLoop] at h
  | succ f ih =>
    intro s out hinv hf h
    unfold cboLoop at h
    split at h
    · rename_i hs
      injection h with h
      exact ⟨s, hinv, hf, hs, h.symm⟩
    · rename_i comb rest hs
      exact ih _ out (inv_step hy hinv hs) (invF_step hy hv hinv hf hs) h

/-! ### `objectwise`: no found-set, uniqueness by canonicity -/

theorem nodup_map_of_inj_on {α β} {f : α → β} {l : List α} (hnd : l.Nodup)
    (hinj : ∀ a ∈ l, ∀ b ∈ l, f a = f b → a = b) : (l.map f).Nodup := by
  rw [List.Nodup, List.pairwise_map]
  have hall : l.Pairwise fun p q => (p ∈ l ∧ q ∈ l) := by
    rw [List.pairwise_iff_forall_sublist]
    intro a b hab
    exact ⟨hab.subset (by simp), hab.subset (by simp)⟩
  exact (hnd.and hall).imp fun ⟨hne, ha, hb⟩ he => hne (hinj _ ha _ hb he)

theorem distinct_unique : ∀ {out : List (List Nat × List Nat)}, Distinct out →
    ∀ r ∈ out, ∀ p ∈ out, SetEq r.2 p.2 → r = p
  | [], _, r, hr, _, _, _ => by cases hr
  | a :: out, hd, r, hr, p, hp, hse => by
    unfold Distinct at hd
    rw [List.pairwise_cons] at hd
    rcases List.mem_cons.mp hr with rfl | hr' <;> rcases List.mem_cons.mp hp with rfl | hp'
    · rfl
    · exact absurd hse (hd.1 p hp')
    · exact absurd (fun g => (hse g).symm) (hd.1 r hr')
    · exact distinct_unique hd.2 r hr' p hp' hse

structure InvU (n : Nat) (c : List Nat → Nat → Bool) (s : CboSt ι) : Prop where
  distinct : Distinct s.out
  stackNd : s.stack.Nodup
  notEmitted : ∀ x ∈ s.stack, ∀ p ∈ s.out, p.1 ≠ x
  stackForm : ∀ x ∈ s.stack, x = [] ∨ ∃ p ∈ s.out, ∃ g, x = p.2 ++ [g] ∧ lo p.1 ≤ g
  outForm : ∀ p ∈ s.out, p.1 = [] ∨ ∃ q ∈ s.out, ∃ g, p.1 = q.2 ++ [g] ∧ lo q.1 ≤ g
  upper : ∀ p ∈ s.out, ∀ x ∈ p.2, c (pre p.2 (lo p.1)) x = true
  rootFresh : [] ∈ s.stack → s.out = []

theorem invU_init : InvU n c (cboInit ι) := by
  refine ⟨by simp [Distinct, cboInit], by simp [cboInit], ?_, ?_, ?_, ?_, fun _ => rfl⟩
  · intro x _ p hp; simp [cboInit] at hp
  · intro x hx; simp only [cboInit, List.mem_singleton] at hx; exact Or.inl hx
  · intro p hp; simp [cboInit] at hp
  · intro p hp; simp [cboInit] at hp

/-- the parent of a canonical combination `P ++ [g]` is determined by the emitted extent `e` and `g` -/
theorem parent_char (hy : Hyp v n intention extIter c) {P e : List Nat} {g k : Nat}
    (hPr : InR n P) (hPcl : Closed n c P) (hup : ∀ x ∈ P, c (pre P k) x = true) (hkg : k ≤ g)
    (hcan : Canon c (P ++ [g])) (hcl : IsCl n c (P ++ [g]) e) :
    ∀ z, z ∈ P ↔ (z < n ∧ c (pre e g) z = true) := by
  have hPe : ∀ z ∈ P, z ∈ e := fun z hz =>
    (hcl z).mpr ⟨hPr z hz, hy.c_ext _ z (List.mem_append_left _ hz)⟩
  intro z
  constructor
  · intro hz
    refine ⟨hPr z hz, c_mono hy ?_ z (hup z hz)⟩
    intro y hy'
    obtain ⟨h1, h2⟩ := mem_pre.mp hy'
    exact mem_pre.mpr ⟨hPe y h1, by omega⟩
  · rintro ⟨hzn, hz⟩
    apply hPcl z hzn
    refine c_mono hy ?_ z hz
    intro y hy'
    obtain ⟨h1, h2⟩ := mem_pre.mp hy'
    have := hcan g (combLast_concat P g) y h2 ((hcl y).mp h1).2
    rcases List.mem_append.mp this with h | h
    · exact h
    · simp at h; omega

theorem invU_step (hy : Hyp v n intention extIter c) {s : CboSt ι} {comb : List Nat}
    {rest : List (List Nat)} (hinv : Inv (intention := intention) n c s) (hu : InvU n c s)
    (hst : s.stack = comb :: rest) :
    InvU n c (cboStep v n intention extIter comb { s with stack := rest }) := by
  have hcs : comb ∈ s.stack := by rw [hst]; exact List.mem_cons_self
  have hsub : ∀ x ∈ rest, x ∈ s.stack := fun x hx => by rw [hst]; exact List.mem_cons_of_mem _ hx
  have hso : StackOk n c comb := hinv.stk comb hcs
  have hr := hso.1
  have hnd : (comb :: rest).Nodup := hst ▸ hu.stackNd
  rcases cboStep_cases hy comb { s with stack := rest } hr with ⟨heq, _⟩ | ⟨hcan, _, heq⟩
  · rw [heq]
    exact ⟨hu.distinct, (List.nodup_cons.mp hnd).2, fun x hx => hu.notEmitted x (hsub x hx),
      fun x hx => hu.stackForm x (hsub x hx), hu.outForm, hu.upper,
      fun h => hu.rootFresh (hsub _ h)⟩
  · rw [heq]
    have hgo := goodOut_of_stackOk hy hso hcan
    have hcl := mem_extentOf hy hr hcan
    have hcombe : ∀ y ∈ comb, y ∈ extentOf n c comb := fun y hy' => List.mem_append_left _ hy'
    -- (A) the new record reaches its extent from the prefix below its generator bound
    have hA : ∀ x ∈ extentOf n c comb, c (pre (extentOf n c comb) (lo comb)) x = true := by
      intro x hx
      have hcx := ((hcl x).mp hx).2
      rcases hu.stackForm comb hcs with rfl | ⟨p, hp, g, rfl, hpg⟩
      · exact c_mono hy (fun _ h => by cases h) x hcx
      · rw [lo_concat]
        refine hy.c_trans _ _ ?_ x hcx
        intro y hy'
        rcases List.mem_append.mp hy' with h | h
        · refine c_mono hy ?_ y (hu.upper p hp y h)
          intro z hz
          obtain ⟨h1, h2⟩ := mem_pre.mp hz
          exact mem_pre.mpr ⟨hcombe z (List.mem_append_left _ h1), by omega⟩
        · simp at h; subst h
          exact hy.c_ext _ _ (mem_pre.mpr ⟨hcombe _ (by simp), by omega⟩)
    -- (B) no earlier record has the same extent
    have hB : ∀ q ∈ s.out, ¬ SetEq (extentOf n c comb) q.2 := by
      intro q hq hse
      rcases hu.stackForm comb hcs with rfl | ⟨p, hp, g, rfl, hpg⟩
      · have := hu.rootFresh hcs
        rw [this] at hq; cases hq
      · obtain ⟨hqr, _, hqcan, hqe, hqmin⟩ := hinv.outGood q hq
        have hqcl := mem_extentOf hy hqr hqcan
        rw [← hqe] at hqcl
        have h1 : lo q.1 ≤ g + 1 := by
          apply hqmin
          intro x hx
          have := hA x ((hse x).mpr hx)
          rw [lo_concat] at this
          refine c_mono hy ?_ x this
          intro z hz
          obtain ⟨z1, z2⟩ := mem_pre.mp hz
          exact mem_pre.mpr ⟨(hse z).mp z1, z2⟩
        have h2 : g + 1 ≤ lo q.1 := by
          have := hgo.2.2.2.2 (lo q.1) (by
            intro x hx
            refine c_mono hy ?_ x (hu.upper q hq x ((hse x).mp hx))
            intro z hz
            obtain ⟨z1, z2⟩ := mem_pre.mp hz
            exact mem_pre.mpr ⟨(hse z).mpr z1, z2⟩)
          rwa [lo_concat] at this
        rcases hu.outForm q hq with h0 | ⟨r, hr', g', hq1, hrg⟩
        · rw [h0] at h2; simp [lo, combLast] at h2
        · have hg' : g' = g := by rw [hq1, lo_concat] at h1 h2; omega
          subst hg'
          obtain ⟨hpr, _, hpc⟩ := sound hy hinv p hp
          obtain ⟨hrr, _, hrc⟩ := sound hy hinv r hr'
          have c1 := parent_char hy hpr hpc (hu.upper p hp) hpg hcan hcl
          have c2 := parent_char hy hrr hrc (hu.upper r hr') hrg (hq1 ▸ hqcan) (hq1 ▸ hqcl)
          have hrp : SetEq r.2 p.2 := by
            intro z
            rw [c1 z, c2 z]
            have e1 : ∀ w, c (pre q.2 g') w = true ↔ c (pre (extentOf n c (p.2 ++ [g'])) g') w = true := by
              intro w
              constructor
              · refine c_mono hy ?_ w
                intro y hy'
                obtain ⟨y1, y2⟩ := mem_pre.mp hy'
                exact mem_pre.mpr ⟨(hse y).mpr y1, y2⟩
              · refine c_mono hy ?_ w
                intro y hy'
                obtain ⟨y1, y2⟩ := mem_pre.mp hy'
                exact mem_pre.mpr ⟨(hse y).mp y1, y2⟩
            rw [e1 z]
          have := distinct_unique hu.distinct r hr' p hp hrp
          subst this
          exact hu.notEmitted _ hcs q hq hq1
    have hnotrest : comb ∉ rest := (List.nodup_cons.mp hnd).1
    -- a pushed combination whose parent extent is `e` cannot have an earlier parent
    have hfresh : ∀ (g : Nat) (p : List Nat × List Nat), p ∈ s.out → ∀ g', extentOf n c comb ++ [g] ≠ p.2 ++ [g'] := by
      intro g p hp g' he
      have := (List.append_inj' he (by simp)).1
      exact hB p hp (by rw [this]; exact fun _ => Iff.rfl)
    refine ⟨?_, ?_, ?_, ?_, ?_, ?_, ?_⟩
    · simp only [emitSt, Distinct, List.pairwise_cons]
      exact ⟨hB, hu.distinct⟩
    · simp only [emitSt]
      rw [List.nodup_append]
      refine ⟨?_, (List.nodup_cons.mp hnd).2, ?_⟩
      · rw [(List.reverse_perm _).nodup_iff]
        unfold children
        apply nodup_map_of_inj_on
        · exact (((List.reverse_perm _).nodup_iff.mpr (List.nodup_range' (step := 1) (by omega))).sublist List.filter_sublist)
        · intro a _ b _ hab
          have := (List.append_inj' hab rfl).2
          simpa using this
      · intro a ha b hb hab
        subst hab
        obtain ⟨g, _, _, _, rfl⟩ := mem_children.mp (List.mem_reverse.mp ha)
        rcases hu.stackForm _ (hsub _ hb) with h | ⟨p, hp, g', h, _⟩
        · simp at h
        · exact hfresh g p hp g' h
    · intro x hx p hp
      simp only [emitSt, List.mem_append, List.mem_reverse] at hx hp
      rcases hx with hx | hx
      · obtain ⟨g, _, _, _, rfl⟩ := mem_children.mp hx
        rcases List.mem_cons.mp hp with rfl | hp
        · simp only
          intro h
          have := congrArg List.length h
          simp [extentOf] at this
        · intro h
          rcases hu.outForm p hp with h0 | ⟨q, hq, g', hq1, _⟩
          · rw [h0] at h; simp at h
          · rw [hq1] at h; exact hfresh g q hq g' h.symm
      · rcases List.mem_cons.mp hp with rfl | hp
        · simp only; intro h; exact hnotrest (h ▸ hx)
        · exact hu.notEmitted x (hsub x hx) p hp
    · intro x hx
      simp only [emitSt, List.mem_append, List.mem_reverse] at hx ⊢
      rcases hx with hx | hx
      · obtain ⟨g, hg1, _, hg3, rfl⟩ := mem_children.mp hx
        right
        refine ⟨_, List.mem_cons_self, g, rfl, ?_⟩
        simp only
        unfold lo2 at hg1
        unfold lo
        cases hl : combLast comb with
        | none => simp
        | some l =>
          simp only [hl] at hg1 ⊢
          have : g ≠ l := fun e => hg3 (e ▸ hcombe l (combLast_mem hl))
          omega
      · rcases hu.stackForm x (hsub x hx) with h | ⟨p, hp, g, h1, h2⟩
        · exact Or.inl h
        · exact Or.inr ⟨p, List.mem_cons_of_mem _ hp, g, h1, h2⟩
    · intro p hp
      simp only [emitSt] at hp ⊢
      rcases List.mem_cons.mp hp with rfl | hp
      · rcases hu.stackForm comb hcs with h | ⟨q, hq, g, h1, h2⟩
        · exact Or.inl h
        · exact Or.inr ⟨q, List.mem_cons_of_mem _ hq, g, h1, h2⟩
      · rcases hu.outForm p hp with h | ⟨q, hq, g, h1, h2⟩
        · exact Or.inl h
        · exact Or.inr ⟨q, List.mem_cons_of_mem _ hq, g, h1, h2⟩
    · intro p hp
      simp only [emitSt] at hp
      rcases List.mem_cons.mp hp with rfl | hp
      · exact hA
      · exact hu.upper p hp
    · intro h
      exfalso
      simp only [emitSt, List.mem_append, List.mem_reverse] at h
      rcases h with h | h
      · obtain ⟨g, _, _, _, h⟩ := mem_children.mp h
        simp at h
      · have hout := hu.rootFresh (hsub _ h)
        rcases hu.stackForm comb hcs with h0 | ⟨p, hp, _⟩
        · exact hnotrest (h0 ▸ h)
        · rw [hout] at hp; cases hp

theorem loop_invU (hy : Hyp v n intention extIter c) :
    ∀ (f : Nat) (s : CboSt ι) (out : List (List Nat × List Nat)),
      Inv (intention := intention) n c s → InvU n c s →
      cboLoop v n intention extIter f s = .ok out →
      ∃ s' : CboSt ι, Inv (intention := intention) n c s' ∧ InvU n c s' ∧ s'.stack = [] ∧
        out = s'.out.reverse := by
  intro f
  induction f with
  | zero => intro s out _ _ h; simp [cboLoop] at h
  | succ f ih =>
    intro s out hinv hu h
    unfold cboLoop at h
    split at h
    · rename_i hs
      injection h with h
      exact ⟨s, hinv, hu, hs, h.symm⟩
    · rename_i comb rest hs
      exact ih _ out (inv_step hy hinv hs) (invU_step hy hinv hu hs) h

end
end Fca.CbOM

/-
  Lemmas for C20, part 4 — the converter does not raise on a well-formed, fitted tree:
  order facts on extended numbers, `generators_to_description` as an intersection, the accumulated premise of a
  node as the conjunction of the conditions along its path, concept extents, and the lattice's top/bottom.
-/
import Fca.Model.DecisionLattice
import Fca.Lemmas.DecisionLattice
import Fca.Lemmas.DecisionLatticeTrace
import Fca.Lemmas.DecisionLatticeTree
namespace Fca.DL
open Fca

/-! ### order on extended numbers -/

theorem Ext.le_trans' {a b c : Ext} (h1 : Ext.le a b = true) (h2 : Ext.le b c = true) : Ext.le a c = true := by
  cases a <;> cases b <;> cases c <;> simp_all [Ext.le]
  exact Rat.le_trans h1 h2

theorem Ext.le_total' (a b : Ext) : Ext.le a b = true ∨ Ext.le b a = true := by
  cases a <;> cases b <;> simp [Ext.le]
  exact Rat.le_total

theorem Ext.le_max2 (a b y : Ext) : Ext.le (Ext.max2 a b) y = (Ext.le a y && Ext.le b y) := by
  unfold Ext.max2
  rw [Bool.eq_iff_iff]
  simp only [Bool.and_eq_true]
  split
  · rename_i h
    exact ⟨fun h1 => ⟨h1, Ext.le_trans' h h1⟩, fun h1 => h1.1⟩
  · rename_i h
    have hab : Ext.le a b = true := by
      rcases Ext.le_total' a b with h' | h'
      · exact h'
      · exact absurd h' h
    exact ⟨fun h1 => ⟨Ext.le_trans' hab h1, h1⟩, fun h1 => h1.2⟩

theorem Ext.le_min2 (a b y : Ext) : Ext.le y (Ext.min2 a b) = (Ext.le y a && Ext.le y b) := by
  unfold Ext.min2
  rw [Bool.eq_iff_iff]
  simp only [Bool.and_eq_true]
  split
  · rename_i h
    exact ⟨fun h1 => ⟨h1, Ext.le_trans' h1 h⟩, fun h1 => h1.1⟩
  · rename_i h
    have hba : Ext.le b a = true := by
      rcases Ext.le_total' a b with h' | h'
      · exact absurd h' h
      · exact h'
    exact ⟨fun h1 => ⟨Ext.le_trans' h1 hba, h1⟩, fun h1 => h1.2⟩

/-! ### `generators_to_description` intersects -/

theorem sat_of_ne_none {d : Descr} (h : d ≠ .none) (x : Rat) :
    d.sat x = (Ext.le d.ends.1 (.fin x) && Ext.le (.fin x) d.ends.2) := by
  cases d with
  | none => exact absurd rfl h
  | num v => rfl
  | ivl lo hi => rfl

/-- if some value satisfies both descriptions, their combination exists, is not `None`, and is satisfied by
    exactly the values that satisfy both -/
theorem gtd_spec {a b : Descr} (ha : a ≠ .none) (hb : b ≠ .none) (w : Rat)
    (hwa : a.sat w = true) (hwb : b.sat w = true) :
    ∃ v, gtd a b = .ok v ∧ v ≠ .none ∧ ∀ y, v.sat y = (a.sat y && b.sat y) := by
  rw [sat_of_ne_none ha, Bool.and_eq_true] at hwa
  rw [sat_of_ne_none hb, Bool.and_eq_true] at hwb
  have hlo : Ext.le (Ext.max2 a.ends.1 b.ends.1) (.fin w) = true := by
    rw [Ext.le_max2]; simp [hwa.1, hwb.1]
  have hhi : Ext.le (.fin w) (Ext.min2 a.ends.2 b.ends.2) = true := by
    rw [Ext.le_min2]; simp [hwa.2, hwb.2]
  have hle := Ext.le_trans' hlo hhi
  have hsat : ∀ y, (Ext.le (Ext.max2 a.ends.1 b.ends.1) (.fin y) && Ext.le (.fin y) (Ext.min2 a.ends.2 b.ends.2))
      = (a.sat y && b.sat y) := by
    intro y
    rw [sat_of_ne_none ha, sat_of_ne_none hb, Ext.le_max2, Ext.le_min2]
    cases Ext.le a.ends.1 (.fin y) <;> cases Ext.le b.ends.1 (.fin y) <;>
      cases Ext.le (.fin y) a.ends.2 <;> cases Ext.le (.fin y) b.ends.2 <;> rfl
  have hg : gtd a b = (if Ext.max2 a.ends.1 b.ends.1 = Ext.min2 a.ends.2 b.ends.2
      then .ok (.num (Ext.max2 a.ends.1 b.ends.1))
      else .ok (.ivl (Ext.max2 a.ends.1 b.ends.1) (Ext.min2 a.ends.2 b.ends.2))) := by
    cases a with
    | none => exact absurd rfl ha
    | num va =>
      cases b with
      | none => exact absurd rfl hb
      | num vb => simp only [gtd, hle, if_true]
      | ivl l2 h2 => simp only [gtd, hle, if_true]
    | ivl l1 h1 =>
      cases b with
      | none => exact absurd rfl hb
      | num vb => simp only [gtd, hle, if_true]
      | ivl l2 h2 => simp only [gtd, hle, if_true]
  rw [hg]
  split
  · rename_i heq
    refine ⟨_, rfl, by simp, ?_⟩
    intro y
    rw [← hsat y, ← heq]
    rfl
  · refine ⟨_, rfl, by simp, ?_⟩
    intro y
    rw [← hsat y]
    rfl


/-! ### premises: semantics, well-formedness, and `accumulate` -/

/-- a row satisfies every condition of the premise -/
def premSat (p : Prem) (x : List Rat) : Bool := p.all fun jd => jd.2.sat (x.getD jd.1.toNat 0)

def entryOK (m : Nat) (jd : Int × Descr) : Prop := 0 ≤ jd.1 ∧ jd.1 < (m : Int) ∧ jd.2 ≠ .none

theorem premGet_none {l : Prem} {j : Int} (h : j ∉ l.map Prod.fst) : premGet l j = none := by
  induction l with
  | nil => rfl
  | cons a rest ih =>
    obtain ⟨k, v⟩ := a
    simp only [List.map_cons, List.mem_cons, not_or] at h
    simp only [premGet, List.lookup]
    have : (j == k) = false := by simp [h.1]
    rw [this]
    exact ih h.2

theorem premSet_absent {l : Prem} {j : Int} (v : Descr) (h : j ∉ l.map Prod.fst) :
    premSet l j v = l ++ [(j, v)] := by
  induction l with
  | nil => rfl
  | cons a rest ih =>
    obtain ⟨k, v'⟩ := a
    simp only [List.map_cons, List.mem_cons, not_or] at h
    simp only [premSet]
    rw [if_neg (fun e => h.1 e.symm), ih h.2]
    rfl

theorem premSat_append (a b : Prem) (x : List Rat) : premSat (a ++ b) x = (premSat a x && premSat b x) := by
  simp [premSat, List.all_append]

theorem accumulate_gen (m : Nat) (f : Int) (d : Descr) (w : List Rat)
    (hf0 : 0 ≤ f) (hfm : f < (m : Int)) (hdw : d.sat (w.getD f.toNat 0) = true) :
    ∀ (items : Prem) (v : Descr) (acc : Prem),
      (∀ jd ∈ items, entryOK m jd) → (items.map Prod.fst).Nodup →
      (∀ jd ∈ acc, entryOK m jd) → (acc.map Prod.fst).Nodup → f ∉ acc.map Prod.fst →
      (∀ j ∈ items.map Prod.fst, j ∉ acc.map Prod.fst) →
      v ≠ .none → (f ∈ items.map Prod.fst → v = d) → premSat items w = true →
      v.sat (w.getD f.toNat 0) = true →
      ∃ v' acc', accumulate m d items ((f, v) :: acc) = .ok ((f, v') :: acc') ∧ v' ≠ .none ∧
        (∀ jd ∈ acc', entryOK m jd) ∧ (acc'.map Prod.fst).Nodup ∧ f ∉ acc'.map Prod.fst ∧
        ∀ x : List Rat, (v'.sat (x.getD f.toNat 0) && premSat acc' x)
          = (v.sat (x.getD f.toNat 0) && premSat acc x && premSat items x) := by
  intro items
  induction items with
  | nil =>
    intro v acc _ _ hacc hnd hfa _ hv _ _ _
    exact ⟨v, acc, rfl, hv, hacc, hnd, hfa, by intro x; simp [premSat]⟩
  | cons a rest ih =>
    intro v acc hit hind hacc hnd hfa hdisj hv hvd hsw hvw
    obtain ⟨j, pd⟩ := a
    have hjok : entryOK m (j, pd) := hit _ List.mem_cons_self
    simp only [List.map_cons, List.nodup_cons] at hind
    have hsw' : pd.sat (w.getD j.toNat 0) = true ∧ premSat rest w = true := by
      simpa [premSat] using hsw
    by_cases hjf : j = f
    · subst hjf
      have hvd' : v = d := hvd (by simp)
      subst hvd'
      have hget : premGet ((j, v) :: acc) j = some v := by simp [premGet, List.lookup]
      obtain ⟨v2, hg, hv2, hs2⟩ := gtd_spec hjok.2.2 hv (w.getD j.toNat 0) hsw'.1 hvw
      obtain ⟨v', acc', h1, h2, h3, h4, h5, h6⟩ := ih v2 acc
        (fun jd hjd => hit jd (List.mem_cons_of_mem _ hjd)) hind.2 hacc hnd hfa
        (fun j' hj' => hdisj j' (by simp [hj'])) hv2 (fun hmem => absurd hmem hind.1) hsw'.2
        (by rw [hs2, Bool.and_eq_true]; exact ⟨hsw'.1, hvw⟩)
      refine ⟨v', acc', ?_, h2, h3, h4, h5, ?_⟩
      · simp only [accumulate, hget, pyIdx_ok hf0 hfm, hg, premSet, if_true]
        exact h1
      · intro x
        rw [h6 x, hs2]
        simp only [premSat, List.all_cons]
        cases pd.sat (x.getD j.toNat 0) <;> cases v.sat (x.getD j.toNat 0) <;> simp
    · have hja : j ∉ acc.map Prod.fst := hdisj j (by simp)
      have hget : premGet ((f, v) :: acc) j = none := by
        apply premGet_none
        simp only [List.map_cons, List.mem_cons, not_or]
        exact ⟨hjf, hja⟩
      have hset : premSet ((f, v) :: acc) j pd = (f, v) :: (acc ++ [(j, pd)]) := by
        simp only [premSet]
        rw [if_neg (fun e => hjf e.symm), premSet_absent pd hja]
      obtain ⟨v', acc', h1, h2, h3, h4, h5, h6⟩ := ih v (acc ++ [(j, pd)])
        (fun jd hjd => hit jd (List.mem_cons_of_mem _ hjd)) hind.2
        (by
          intro jd hjd
          rcases List.mem_append.mp hjd with e | e
          · exact hacc jd e
          · simp at e; subst e; exact hjok)
        (by
          rw [List.map_append, List.nodup_append]
          refine ⟨hnd, by simp, ?_⟩
          intro a ha b hb hab
          simp at hb
          exact hja (hb ▸ hab ▸ ha))
        (by
          rw [List.map_append, List.mem_append, not_or]
          exact ⟨hfa, by simp; exact fun e => hjf e.symm⟩)
        (by
          intro j' hj'
          rw [List.map_append, List.mem_append, not_or]
          refine ⟨hdisj j' (by simp [hj']), ?_⟩
          simp
          intro e
          exact hind.1 (e ▸ hj'))
        hv (fun hmem => hvd (by simp [hmem])) hsw'.2 hvw
      refine ⟨v', acc', ?_, h2, h3, h4, h5, ?_⟩
      · simp only [accumulate, hget, hset]
        exact h1
      · intro x
        rw [h6 x, premSat_append]
        simp only [premSat, List.all_cons, List.all_nil, Bool.and_true]
        cases pd.sat (x.getD j.toNat 0) <;> cases v.sat (x.getD f.toNat 0) <;> simp


def premOK (m : Nat) (p : Prem) : Prop := (∀ jd ∈ p, entryOK m jd) ∧ (p.map Prod.fst).Nodup

theorem accumulate_spec (m : Nat) (f : Int) (d : Descr) (w : List Rat)
    (hf0 : 0 ≤ f) (hfm : f < (m : Int)) (hd : d ≠ .none) (hdw : d.sat (w.getD f.toNat 0) = true)
    (Pp : Prem) (hok : premOK m Pp) (hw : premSat Pp w = true) :
    ∃ P', accumulate m d Pp [(f, d)] = .ok P' ∧ premOK m P' ∧
      ∀ x : List Rat, premSat P' x = (d.sat (x.getD f.toNat 0) && premSat Pp x) := by
  obtain ⟨v', acc', h1, h2, h3, h4, h5, h6⟩ := accumulate_gen m f d w hf0 hfm hdw Pp d []
    hok.1 hok.2 (by intro jd h; cases h) (by simp) (by simp) (by intro j _; simp) hd (fun _ => rfl) hw hdw
  refine ⟨_, h1, ⟨?_, ?_⟩, ?_⟩
  · intro jd hjd
    rcases List.mem_cons.mp hjd with e | e
    · subst e; exact ⟨hf0, hfm, h2⟩
    · exact h3 jd e
  · simp only [List.map_cons, List.nodup_cons]
    exact ⟨h5, h4⟩
  · intro x
    have := h6 x
    simp only [premSat, List.all_cons, List.all_nil, Bool.and_true] at this ⊢
    exact this

/-! ### `extension_i` of a well-formed premise -/

theorem extLoop_spec (X : Rows) (m : Nat) :
    ∀ (P : Prem) (e : List Nat), (∀ jd ∈ P, entryOK m jd) →
      extLoop X m P e = .ok (e.filter fun g => premSat P (X.getD g [])) := by
  intro P
  induction P with
  | nil =>
    intro e _
    simp only [extLoop, premSat, List.all_nil]
    rw [List.filter_eq_self.mpr (fun _ _ => rfl)]
  | cons jd rest ih =>
    intro e hok
    obtain ⟨j, d⟩ := jd
    obtain ⟨h0, hm, _⟩ := hok (j, d) List.mem_cons_self
    have hrest := ih (extPS X j.toNat d e) (fun jd hjd => hok jd (List.mem_cons_of_mem _ hjd))
    have hff : (extPS X j.toNat d e).filter (fun g => premSat rest (X.getD g []))
        = e.filter (fun g => premSat ((j, d) :: rest) (X.getD g [])) := by
      simp only [extPS, List.filter_filter, premSat, List.all_cons, cell]
      apply List.filter_congr
      intro g _
      rw [Bool.and_comm]
    simp only [extLoop, pyIdx_ok h0 hm]
    split
    · rename_i hempty
      rw [← hff]
      have : extPS X j.toNat d e = [] := by simpa using hempty
      rw [this]; rfl
    · rw [hrest, hff]

theorem extensionI_none_spec (X : Rows) (m : Nat) (P : Prem) (hok : ∀ jd ∈ P, entryOK m jd) :
    extensionI X m P none = .ok ((List.range (nObjects X)).filter fun g => premSat P (X.getD g [])) := by
  simp only [extensionI]
  exact extLoop_spec X m P _ hok

/-! ### pointwise versions of the tracing step and of the path recursion -/

theorem directDescr_sat {t : Tree} {X : Rows} {m : Nat} {nxt : Rat → Rat} (hwf : wellFormed t X m nxt = true)
    {k p : Nat} {l r f : Int} {thr : Rat}
    (g1 : t.left[p]? = some l) (g2 : t.right[p]? = some r) (g3 : t.feature[p]? = some f)
    (g4 : t.threshold[p]? = some thr) (gl : ¬ l = -1) (hk : k = l.toNat ∨ k = r.toNat)
    (x : List Rat) (hx : x ∈ X) :
    (directDescr t nxt k thr).sat (x.getD f.toNat 0) = (descend t x 1 p == k) := by
  obtain ⟨hlen, hnode⟩ := wf_parts hwf
  have hpn : p < t.n := by rw [← hlen]; exact (List.getElem?_eq_some_iff.mp g1).1
  obtain ⟨a1, a3, a6, a7, a8, _, a10, _, a12⟩ := wfNode_internal (hnode p hpn) g1 g2 g3 g4 gl
  have heps := wfNode_lt (hnode p hpn) g1 g2 g3 g4 gl
  have hne : l.toNat ≠ r.toNat := by
    have := hnode p hpn
    simp only [wfNode, g1, g2, g3, g4] at this
    simp only [Bool.or_eq_true, Bool.and_eq_true, beq_iff_eq, decide_eq_true_eq, bne_iff_ne, ne_eq] at this
    rcases this with hh | hh
    · exact absurd hh.1 gl
    · have hlr : l ≠ r := hh.1.1.1.1.1.1.1.2
      omega
  have hstep : descend t x 1 p = if x.getD f.toNat 0 ≤ thr then l.toNat else r.toNat := by
    simp only [descend, g1, g2, g3, g4, if_neg gl]
  rw [hstep]
  rcases hk with e | e
  · subst e
    simp only [directDescr, a10, if_true, sat_left]
    by_cases hx' : x.getD f.toNat 0 ≤ thr
    · rw [if_pos hx', decide_eq_true hx']; simp
    · rw [if_neg hx', decide_eq_false hx']; simp [Ne.symm hne]
  · subst e
    simp only [directDescr, a12, Bool.false_eq_true, if_false]
    rw [sat_right thr (nxt thr) _ heps (a8 x hx)]
    by_cases hx' : x.getD f.toNat 0 ≤ thr
    · rw [if_pos hx', decide_eq_true hx']; simp [hne]
    · rw [if_neg hx', decide_eq_false hx']; simp

theorem path_contains_step {t : Tree} {X : Rows} {m : Nat} {nxt : Rat → Rat} (hwf : wellFormed t X m nxt = true)
    {k p : Nat} (hp : parentOf t k = some p) (x : List Rat) :
    (pathFrom t x t.n 0).contains k = ((descend t x 1 p == k) && (pathFrom t x t.n 0).contains p) := by
  obtain ⟨hlen, hnode⟩ := wf_parts hwf
  obtain ⟨_, hrlen⟩ := wf_parts2 hwf
  obtain ⟨l, r, f, thr, g1, g2, g3, g4, gl, hpn, hpk, _⟩ := node_of_parent hlen hrlen hnode hp
  rw [Bool.eq_iff_iff]
  simp only [List.contains_eq_mem, decide_eq_true_eq, Bool.and_eq_true, beq_iff_eq]
  constructor
  · intro hk
    rcases path_parent hlen hnode x hp t.n 0 hk with e | ⟨e1, e2⟩
    · omega
    · exact ⟨e2, e1⟩
  · rintro ⟨e2, e1⟩
    have := path_child hlen hnode x g1 g2 g3 g4 gl t.n 0 (by omega) e1
    rw [e2] at this
    exact this


/-! ### `parse` does not raise on a well-formed, fitted tree -/

theorem fitted_witness {t : Tree} {X : Rows} (h : fitted t X = true) {k : Nat} (hk : k < t.n) :
    ∃ g, g < nObjects X ∧ k ∈ pathFrom t (X.getD g []) t.n 0 := by
  unfold fitted at h
  have := List.all_eq_true.mp h k (List.mem_range.mpr hk)
  obtain ⟨g, hg, hc⟩ := List.any_eq_true.mp this
  exact ⟨g, List.mem_range.mp hg, by simpa using hc⟩

theorem row_mem {X : Rows} {g : Nat} (hg : g < nObjects X) : X.getD g [] ∈ X := by
  have hlt : g < X.length := hg
  simp [List.getD_eq_getElem?_getD, List.getElem?_eq_getElem hlt]

/-- the accumulated premise of node `k`: well-formed, and satisfied by exactly the rows whose path passes `k` -/
def NodeOK (t : Tree) (X : Rows) (m : Nat) (k : Nat) (P : Prem) : Prop :=
  premOK m P ∧ ∀ x ∈ X, premSat P x = (pathFrom t x t.n 0).contains k

theorem parseLoop_ok {t : Tree} {X : Rows} {m : Nat} {nxt : Rat → Rat} (hwf : wellFormed t X m nxt = true)
    (hfit : fitted t X = true) (hpar : ∀ k, 0 < k → k < t.n → (parentOf t k).isSome) :
    ∀ (len k0 : Nat) (dps ps : List Prem), 0 < k0 → k0 + len ≤ t.n → ps.length = k0 →
      (∀ j < k0, ∃ P, ps[j]? = some P ∧ NodeOK t X m j P) →
      ∃ dps' ps', parseLoop t m nxt (List.range' k0 len) dps ps = .ok (dps', ps') ∧
        ps'.length = k0 + len ∧ ∀ j < k0 + len, ∃ P, ps'[j]? = some P ∧ NodeOK t X m j P := by
  obtain ⟨hlen, hnode⟩ := wf_parts hwf
  obtain ⟨_, hrlen⟩ := wf_parts2 hwf
  intro len
  induction len with
  | zero =>
    intro k0 dps ps _ _ hl hps
    exact ⟨dps, ps, rfl, by simpa using hl, by simpa using hps⟩
  | succ len ih =>
    intro k0 dps ps hk0 hkn hl hps
    have hk : k0 < t.n := by omega
    obtain ⟨p, hp⟩ := Option.isSome_iff_exists.mp (hpar k0 hk0 hk)
    obtain ⟨l, r, f, thr, g1, g2, g3, g4, gl, hpn, hpk, hkc⟩ := node_of_parent hlen hrlen hnode hp
    obtain ⟨Pp, hPp, hokp, hsemp⟩ := hps p hpk
    obtain ⟨_, _, a6, a7, _⟩ := wfNode_internal (hnode p hpn) g1 g2 g3 g4 gl
    -- a witness row of node k0
    obtain ⟨g, hg, hgk⟩ := fitted_witness hfit hk
    have hw := row_mem hg
    have hkc' : (pathFrom t (X.getD g []) t.n 0).contains k0 = true := by simpa using hgk
    rw [path_contains_step hwf hp, Bool.and_eq_true] at hkc'
    have hdw : (directDescr t nxt k0 thr).sat ((X.getD g []).getD f.toNat 0) = true := by
      rw [directDescr_sat hwf g1 g2 g3 g4 gl hkc _ hw]; exact hkc'.1
    have hdne : directDescr t nxt k0 thr ≠ .none := by
      unfold directDescr; split <;> simp
    obtain ⟨P', hacc, hok', hsem'⟩ := accumulate_spec m f (directDescr t nxt k0 thr) (X.getD g [])
      a6 a7 hdne hdw Pp hokp (by rw [hsemp _ hw]; exact hkc'.2)
    -- the recursive call
    obtain ⟨dps', ps', h1, h2, h3⟩ := ih (k0 + 1) (dps ++ [[(f, directDescr t nxt k0 thr)]]) (ps ++ [P'])
      (by omega) (by omega) (by simp [hl]) (by
        intro j hj
        by_cases hjk : j < k0
        · obtain ⟨P, hP, hPok⟩ := hps j hjk
          exact ⟨P, by rw [List.getElem?_append_left (by omega)]; exact hP, hPok⟩
        · have : j = k0 := by omega
          subst this
          refine ⟨P', by rw [← hl]; simp, hok', ?_⟩
          intro x hx
          rw [hsem' x, hsemp x hx, directDescr_sat hwf g1 g2 g3 g4 gl hkc x hx, path_contains_step hwf hp])
    refine ⟨dps', ps', ?_, by rw [h2]; omega, by
      intro j hj; exact h3 j (by omega)⟩
    simp only [List.range'_succ, parseLoop, hp, g4, g3, hPp, hacc]
    exact h1


theorem nodes1_eq_range' (t : Tree) : nodes1 t = List.range' 1 (t.n - 1) := by
  unfold nodes1
  rw [List.range_eq_range']
  simp

theorem dictLast_isSome {xs : List Int} {k : Nat} (h : (k : Int) ∈ xs) : (dictLast xs k).isSome = true := by
  obtain ⟨p, hp, hpe⟩ := List.mem_iff_getElem.mp h
  unfold dictLast
  have hmem : p ∈ (List.range xs.length).filter fun q => xs[q]? == some (k : Int) := by
    rw [List.mem_filter, List.mem_range]
    refine ⟨hp, ?_⟩
    simp [List.getElem?_eq_getElem hp, hpe]
  cases hl : ((List.range xs.length).filter fun q => xs[q]? == some (k : Int)).getLast? with
  | some q => rfl
  | none =>
    rw [List.getLast?_eq_none_iff] at hl
    rw [hl] at hmem
    cases hmem

/-- every non-root node is somebody's child, so the parent dictionaries find a parent -/
theorem parents_exist {t : Tree} {X : Rows} {m : Nat} {nxt : Rat → Rat} (hwf : wellFormed t X m nxt = true) :
    ∀ k, 0 < k → k < t.n → (parentOf t k).isSome = true := by
  intro k hk0 hkn
  have hcount : ((t.left ++ t.right).filter fun c => c == (k : Int)).length = 1 := by
    simp only [wellFormed, Bool.and_eq_true, List.all_eq_true] at hwf
    have hk : k ∈ (List.range t.n).drop 1 := by
      have : (List.range t.n).drop 1 = nodes1 t := rfl
      rw [this, nodes1_eq_range', List.mem_range'_1]
      omega
    have := hwf.2 k hk
    simpa using this
  have hmem : (k : Int) ∈ t.left ++ t.right := by
    have hne : ((t.left ++ t.right).filter fun c => c == (k : Int)) ≠ [] := by
      intro h; rw [h] at hcount; simp at hcount
    obtain ⟨c, hc⟩ := List.exists_mem_of_ne_nil _ hne
    obtain ⟨hc1, hc2⟩ := List.mem_filter.mp hc
    have : c = (k : Int) := by simpa using hc2
    exact this ▸ hc1
  unfold parentOf
  rcases List.mem_append.mp hmem with h | h
  · split
    · rfl
    · exact dictLast_isSome h
  · have := dictLast_isSome h
    split
    · rfl
    · rename_i hnone
      rw [hnone] at this
      cases this

theorem parentsList_total (t : Tree) : ∀ ks : List Nat, (∀ k ∈ ks, (parentOf t k).isSome = true) →
    parentsList t ks = .ok (ks.map (parentOf t)) := by
  intro ks
  induction ks with
  | nil => intro _; rfl
  | cons k ks ih =>
    intro h
    obtain ⟨p, hp⟩ := Option.isSome_iff_exists.mp (h k List.mem_cons_self)
    simp only [parentsList, hp, ih (fun k' hk' => h k' (List.mem_cons_of_mem _ hk')), List.map_cons]

theorem deltas_total (t : Tree) : ∀ ks : List Nat,
    (∀ k ∈ ks, k < t.n ∧ ∃ p, parentOf t k = some p ∧ p < t.n) →
    ∃ ds, deltas t.value ks (ks.map (parentOf t)) = .ok ds := by
  intro ks
  induction ks with
  | nil => intro _; exact ⟨[], rfl⟩
  | cons k ks ih =>
    intro h
    obtain ⟨hk, p, hp, hpn⟩ := h k List.mem_cons_self
    obtain ⟨ds, hds⟩ := ih (fun k' hk' => h k' (List.mem_cons_of_mem _ hk'))
    have h1 : t.value[k]? = some t.value[k] := List.getElem?_eq_getElem hk
    have h2 : t.value[p]? = some t.value[p] := List.getElem?_eq_getElem hpn
    exact ⟨(t.value[k] - t.value[p]) :: ds, by simp only [List.map_cons, hp, deltas, h1, h2, hds]⟩

/-- `parse` succeeds, and every accumulated premise is well-formed and describes exactly its node's rows -/
theorem parse_ok {t : Tree} {X : Rows} {m : Nat} {nxt : Rat → Rat} (hwf : wellFormed t X m nxt = true)
    (hfit : fitted t X = true) :
    ∃ r, parse t m nxt = .ok r ∧ r.premises.length = t.n ∧
      ∀ j < t.n, ∃ P, r.premises[j]? = some P ∧ NodeOK t X m j P := by
  obtain ⟨hlen, hnode⟩ := wf_parts hwf
  obtain ⟨hn, hrlen⟩ := wf_parts2 hwf
  have hpar := parents_exist hwf
  have hmem1 : ∀ k ∈ nodes1 t, 0 < k ∧ k < t.n := by
    intro k hk
    rw [nodes1_eq_range', List.mem_range'_1] at hk
    omega
  have hpl := parentsList_total t (nodes1 t) (fun k hk => hpar k (hmem1 k hk).1 (hmem1 k hk).2)
  obtain ⟨ds, hds⟩ := deltas_total t (nodes1 t) (by
    intro k hk
    obtain ⟨hk0, hkn⟩ := hmem1 k hk
    obtain ⟨p, hp⟩ := Option.isSome_iff_exists.mp (hpar k hk0 hkn)
    obtain ⟨_, _, _, _, _, _, _, _, _, hpn, _, _⟩ := node_of_parent hlen hrlen hnode hp
    exact ⟨hkn, p, hp, hpn⟩)
  obtain ⟨dps', ps', h1, h2, h3⟩ := parseLoop_ok hwf hfit hpar (t.n - 1) 1 [[]] [[]] (by omega) (by omega) rfl (by
    intro j hj
    have : j = 0 := by omega
    subst this
    refine ⟨[], rfl, ?_⟩
    unfold NodeOK premOK
    refine ⟨⟨(by intro jd h; cases h), (by simp)⟩, ?_⟩
    intro x _
    obtain ⟨tl, htl⟩ := pathFrom_cons t x t.n 0
    rw [htl]; simp [premSat])
  rw [← nodes1_eq_range'] at h1
  refine ⟨⟨none :: (nodes1 t).map (parentOf t), dps', t.value.take 1 ++ ds, ps'⟩, ?_, ?_, ?_⟩
  · simp only [parse, hpl, h1, hds]
  · simp only; rw [h2]; omega
  · intro j hj
    exact h3 j (by omega)

end Fca.DL

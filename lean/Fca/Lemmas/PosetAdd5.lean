/-
  Lemmas/PosetAdd5 — the neighbour patching loop of `add(e, fill_up_cache=True)`:
  `for el_i in range(el_i_new): …` turns caches that are right for `E` (plus the four entries of the new
  element at key `E.length`) into caches that are right for `E ++ [e]`.
-/
import Fca.Lemmas.PosetAdd4
set_option linter.unusedSectionVars false
namespace Fca.Poset
open Fca Fca.Poset.Fresh

section
variable {α : Type} [DecidableEq α] {leq : α → α → Bool} {E : List α} {e : α}

@[simp] theorem closed_withLeq (s : St α) (l : List ((Nat × Nat) × Bool)) (d : Dir) :
    St.closed { s with leqC := l } d = s.closed d := by cases d <;> rfl
@[simp] theorem direct_withLeq (s : St α) (l : List ((Nat × Nat) × Bool)) (d : Dir) :
    St.direct { s with leqC := l } d = s.direct d := by cases d <;> rfl

/-! ### pure facts: entries for `E` versus entries for `E ++ [e]` -/

variable (hpo' : IdxPO leq (E ++ [e]))
include hpo'

/-- the closed relation of an old element that is not on the far side of the new one is unchanged -/
theorem closed_ext_old {d : Dir} {i : Nat} {v : List Nat} (hi : i < E.length)
    (hv : ∀ x, x ∈ v ↔ ltD leq d E x i = true) (hn : ltD leq d (E ++ [e]) E.length i = false) :
    ∀ x, x ∈ v ↔ ltD leq d (E ++ [e]) x i = true := by
  intro x
  rw [hv x]
  by_cases hx : x < E.length
  · rw [ltD_ext_lt hx hi]
  · constructor
    · intro h; exact absurd (ltD_lt h).1 hx
    · intro h
      have := (ltD_ext_le h).1
      have hxn : x = E.length := by omega
      subst hxn; rw [hn] at h; cases h

/-- … and gets the new element when it is -/
theorem closed_ext_new {d : Dir} {i : Nat} {v : List Nat} (hi : i < E.length)
    (hv : ∀ x, x ∈ v ↔ ltD leq d E x i = true) (hn : ltD leq d (E ++ [e]) E.length i = true) :
    ∀ x, x ∈ setUnion v [E.length] ↔ ltD leq d (E ++ [e]) x i = true := by
  intro x
  rw [mem_setUnion, hv x]
  by_cases hx : x < E.length
  · rw [ltD_ext_lt hx hi]
    simp only [List.mem_singleton, or_iff_left_iff_imp]
    intro h; omega
  · constructor
    · rintro (h | h)
      · exact absurd (ltD_lt h).1 hx
      · simp at h; subst h; exact hn
    · intro h
      have := (ltD_ext_le h).1
      right; simp; omega

omit hpo' in
theorem nodup_setUnion_new {v : List Nat} (hvn : v.Nodup) : (setUnion v [E.length]).Nodup :=
  nodup_setUnion hvn (by simp)

/-- covers of an old element in the extended order -/
theorem direct_ext {d : Dir} {i x : Nat} (hi : i < E.length) :
    isCover leq d (E ++ [e]) x i = true ↔
      ((x < E.length ∧ isCover leq d E x i = true ∧
          ¬(ltD leq d (E ++ [e]) x E.length = true ∧ ltD leq d (E ++ [e]) E.length i = true)) ∨
       (x = E.length ∧ isCover leq d.flip (E ++ [e]) i E.length = true)) := by
  by_cases hx : x < E.length
  · rw [isCover_ext hpo' hx hi]
    constructor
    · rintro ⟨h1, h2⟩; exact Or.inl ⟨hx, h1, h2⟩
    · rintro (⟨_, h1, h2⟩ | ⟨h1, _⟩)
      · exact ⟨h1, h2⟩
      · omega
  · by_cases hxn : x = E.length
    · subst hxn
      rw [isCover_ext_new hpo']
      constructor
      · intro h; exact Or.inr ⟨rfl, h⟩
      · rintro (⟨h1, _⟩ | ⟨_, h⟩)
        · exact absurd h1 hx
        · exact h
    · constructor
      · intro h
        have := (ltD_ext_le (isCover_iff.mp h).1).1
        omega
      · rintro (⟨h1, _⟩ | ⟨h1, _⟩)
        · exact absurd h1 hx
        · exact absurd h1 hxn

/-- an unpatched direct entry stays right: nothing lies beyond the new element and the new element is not
    a cover -/
theorem direct_ext_old {d : Dir} {i : Nat} {v : List Nat} (hi : i < E.length)
    (hv : ∀ x, x ∈ v ↔ isCover leq d E x i = true)
    (h1 : ∀ x, x < E.length → isCover leq d E x i = true →
      ¬(ltD leq d (E ++ [e]) x E.length = true ∧ ltD leq d (E ++ [e]) E.length i = true))
    (h2 : isCover leq d.flip (E ++ [e]) i E.length = false) :
    ∀ x, x ∈ v ↔ isCover leq d (E ++ [e]) x i = true := by
  intro x
  rw [hv x, direct_ext hpo' hi]
  constructor
  · intro h
    have hx : x < E.length := (ltD_lt (isCover_iff.mp h).1).1
    exact Or.inl ⟨hx, h, h1 x hx h⟩
  · rintro (⟨_, h, _⟩ | ⟨_, h⟩)
    · exact h
    · rw [h2] at h; cases h

/-- the patched direct entry `{new} | (old - closed_of_new)` -/
theorem direct_ext_new {d : Dir} {i : Nat} {v far : List Nat} (hi : i < E.length)
    (hv : ∀ x, x ∈ v ↔ isCover leq d E x i = true)
    (hfar : ∀ x, x ∈ far ↔ ltD leq d (E ++ [e]) x E.length = true)
    (h1 : ltD leq d (E ++ [e]) E.length i = true)
    (h2 : isCover leq d.flip (E ++ [e]) i E.length = true) :
    ∀ x, x ∈ setUnion [E.length] (setDiff v far) ↔ isCover leq d (E ++ [e]) x i = true := by
  intro x
  rw [mem_setUnion, mem_setDiff, hv x, hfar x, direct_ext hpo' hi]
  simp only [List.mem_singleton]
  constructor
  · rintro (h | ⟨h, hn⟩)
    · exact Or.inr ⟨h, h2⟩
    · have hx : x < E.length := (ltD_lt (isCover_iff.mp h).1).1
      exact Or.inl ⟨hx, h, fun hh => hn hh.1⟩
  · rintro (⟨_, h, hn⟩ | ⟨h, _⟩)
    · exact Or.inr ⟨h, fun hh => hn ⟨hh, h1⟩⟩
    · exact Or.inl h

omit hpo' in
theorem nodup_patch {v far : List Nat} (hvn : v.Nodup) (hv : ∀ x ∈ v, x < E.length) :
    (setUnion [E.length] (setDiff v far)).Nodup := by
  unfold setUnion
  rw [List.nodup_append]
  refine ⟨by simp, (nodup_setDiff hvn).filter _, ?_⟩
  intro a ha b hb hab
  simp at ha
  subst ha; subst hab
  have := hv _ (mem_setDiff.mp (List.mem_filter.mp hb).1).1
  omega

end

/-! ### the loop invariant -/
section
variable {α : Type} [DecidableEq α] {leq : α → α → Bool}

/-- caches during the patching loop: entries keyed by an index in `pre` (already visited) or by the new index are
    right for `E ++ [e]`, the others still for `E`; `cl`/`dr` are the closed/direct entries of the new element -/
structure PatchInv (leq : α → α → Bool) (E : List α) (e : α) (cl dr : Dir → List Nat) (pre : List Nat)
    (s : St α) : Prop where
  elems : s.elems = E
  flag : s.useCache = true
  leqOk : ∀ a b r, alookup (a, b) s.leqC = some r →
    a ≤ E.length ∧ b ≤ E.length ∧ r = rel leq (E ++ [e]) a b
  closedOk : ∀ d k v, alookup k (s.closed d) = some v → k ≤ E.length ∧ v.Nodup ∧
    ((k = E.length ∨ k ∈ pre) → ∀ x, x ∈ v ↔ ltD leq d (E ++ [e]) x k = true) ∧
    (k < E.length → k ∉ pre → ∀ x, x ∈ v ↔ ltD leq d E x k = true)
  directOk : ∀ d k v, alookup k (s.direct d) = some v → k ≤ E.length ∧ v.Nodup ∧
    ((k = E.length ∨ k ∈ pre) → ∀ x, x ∈ v ↔ isCover leq d (E ++ [e]) x k = true) ∧
    (k < E.length → k ∉ pre → ∀ x, x ∈ v ↔ isCover leq d E x k = true)
  closedPres : ∀ d k, k < E.length → (alookup k (s.closed d)).isSome = true
  directPres : ∀ d k, k ∈ dr d → (alookup k (s.direct d.flip)).isSome = true
  closedNew : ∀ d, alookup E.length (s.closed d) = some (cl d)
  directNew : ∀ d, alookup E.length (s.direct d) = some (dr d)

variable {E : List α} {e : α} {cl dr : Dir → List Nat}

/-- how one iteration may change the state -/
structure PatchUpd (leq : α → α → Bool) (E : List α) (e : α) (i : Nat) (s s' : St α) : Prop where
  elems : s'.elems = s.elems
  flag : s'.useCache = s.useCache
  leqU : ∀ a b r, alookup (a, b) s'.leqC = some r → alookup (a, b) s.leqC = some r ∨
    (a ≤ E.length ∧ b ≤ E.length ∧ r = rel leq (E ++ [e]) a b)
  closedU : ∀ d k, k ≠ i → alookup k (s'.closed d) = alookup k (s.closed d)
  closedI : ∀ d v, alookup i (s'.closed d) = some v → v.Nodup ∧ ∀ x, x ∈ v ↔ ltD leq d (E ++ [e]) x i = true
  closedP : ∀ d, (alookup i (s'.closed d)).isSome = true
  directU : ∀ d k, k ≠ i → alookup k (s'.direct d) = alookup k (s.direct d)
  directI : ∀ d v, alookup i (s'.direct d) = some v →
    v.Nodup ∧ ∀ x, x ∈ v ↔ isCover leq d (E ++ [e]) x i = true
  directP : ∀ d, (alookup i (s.direct d)).isSome = true → (alookup i (s'.direct d)).isSome = true

theorem patchInv_update {pre : List Nat} {i : Nat} {s s' : St α} (hi : i < E.length)
    (h : PatchInv leq E e cl dr pre s) (u : PatchUpd leq E e i s s') :
    PatchInv leq E e cl dr (pre ++ [i]) s' := by
  have hin : i ≠ E.length := by omega
  refine ⟨u.elems.trans h.elems, u.flag.trans h.flag, ?_, ?_, ?_, ?_, ?_, ?_, ?_⟩
  · intro a b r hl
    rcases u.leqU a b r hl with h1 | h1
    · exact h.leqOk a b r h1
    · exact h1
  · intro d k v hl
    by_cases hk : k = i
    · subst hk
      obtain ⟨h1, h2⟩ := u.closedI d v hl
      exact ⟨by omega, h1, fun _ => h2, fun _ hn => absurd (List.mem_append.mpr (Or.inr (by simp))) hn⟩
    · rw [u.closedU d k hk] at hl
      obtain ⟨h1, h2, h3, h4⟩ := h.closedOk d k v hl
      refine ⟨h1, h2, fun hh => h3 ?_, fun hk1 hk2 => h4 hk1 (fun hp => hk2 (List.mem_append.mpr (Or.inl hp)))⟩
      rcases hh with hh | hh
      · exact Or.inl hh
      · rcases List.mem_append.mp hh with hh | hh
        · exact Or.inr hh
        · simp at hh; exact absurd hh hk
  · intro d k v hl
    by_cases hk : k = i
    · subst hk
      obtain ⟨h1, h2⟩ := u.directI d v hl
      exact ⟨by omega, h1, fun _ => h2, fun _ hn => absurd (List.mem_append.mpr (Or.inr (by simp))) hn⟩
    · rw [u.directU d k hk] at hl
      obtain ⟨h1, h2, h3, h4⟩ := h.directOk d k v hl
      refine ⟨h1, h2, fun hh => h3 ?_, fun hk1 hk2 => h4 hk1 (fun hp => hk2 (List.mem_append.mpr (Or.inl hp)))⟩
      rcases hh with hh | hh
      · exact Or.inl hh
      · rcases List.mem_append.mp hh with hh | hh
        · exact Or.inr hh
        · simp at hh; exact absurd hh hk
  · intro d k hk
    by_cases hki : k = i
    · subst hki; exact u.closedP d
    · rw [u.closedU d k hki]; exact h.closedPres d k hk
  · intro d k hk
    by_cases hki : k = i
    · subst hki; exact u.directP d.flip (h.directPres d k hk)
    · rw [u.directU d.flip k hki]; exact h.directPres d k hk
  · intro d; rw [u.closedU d _ (fun hh => hin hh.symm)]; exact h.closedNew d
  · intro d; rw [u.directU d _ (fun hh => hin hh.symm)]; exact h.directNew d

/-- after the loop (and appending the element) the invariant for `E ++ [e]` holds -/
theorem patchInv_final {s : St α} (h : PatchInv leq E e cl dr (List.range E.length) s) :
    InvB leq (E ++ [e]) Ghost.none true { s with elems := s.elems ++ [e] } := by
  have hlen : (E ++ [e]).length = E.length + 1 := by simp
  refine InvB.ofOk (by simp [h.elems]) h.flag (fun _ => ?_) (fun _ => ?_) (fun _ => ?_)
  · intro a b r hl
    obtain ⟨h1, h2, h3⟩ := h.leqOk a b r hl
    rw [hlen]; exact ⟨by omega, by omega, h3⟩
  · intro d k v hl
    have hl' : alookup k (s.closed d) = some v := by cases d <;> exact hl
    obtain ⟨h1, h2, h3, _⟩ := h.closedOk d k v hl'
    rw [hlen]
    refine ⟨by omega, h2, h3 ?_⟩
    by_cases hk : k = E.length
    · exact Or.inl hk
    · exact Or.inr (List.mem_range.mpr (by omega))
  · intro d k v hl
    have hl' : alookup k (s.direct d) = some v := by cases d <;> exact hl
    obtain ⟨h1, h2, h3, _⟩ := h.directOk d k v hl'
    rw [hlen]
    refine ⟨by omega, h2, h3 ?_⟩
    by_cases hk : k = E.length
    · exact Or.inl hk
    · exact Or.inr (List.mem_range.mpr (by omega))

/-- the state reached after the two traces satisfies the loop invariant for the empty prefix -/
theorem patchInv_init {G : Ghost} {s : St α} (hpo' : IdxPO leq (E ++ [e])) (h : InvB leq E G true s)
    (hcl : ∀ d, (cl d).Nodup ∧ ∀ x, x ∈ cl d ↔ ltD leq d (E ++ [e]) x E.length = true)
    (hdr : ∀ d, (dr d).Nodup ∧ ∀ x, x ∈ dr d ↔ isCover leq d (E ++ [e]) x E.length = true)
    (hGl : ∀ p, G.leqX p = if p = (E.length, E.length) then some true else none)
    (hGc : ∀ d k, G.closedX d k = if k = E.length then some (cl d) else none)
    (hGd : ∀ d k, G.directX d k = if k = E.length then some (dr d) else none)
    (hGcp : ∀ d k, k < E.length → G.closedP d k)
    (hGdp : ∀ d k, k ∈ cl d → G.directP d.flip k) :
    PatchInv leq E e cl dr [] s := by
  refine ⟨h.elems, h.flag, ?_, ?_, ?_, ?_, ?_, ?_, ?_⟩
  · intro a b r hl
    by_cases hin : a < E.length ∧ b < E.length
    · refine ⟨by omega, by omega, ?_⟩
      rw [rel_append_left hin.1 hin.2]
      exact h.leqIn rfl a b r hin.1 hin.2 hl
    · have := h.leqOut rfl a b hin
      rw [hl, hGl] at this
      split at this
      · rename_i hab
        cases hab
        cases this
        refine ⟨Nat.le_refl _, Nat.le_refl _, ?_⟩
        exact (hpo'.refl E.length (by simp)).symm
      · cases this
  · intro d k v hl
    by_cases hk : k < E.length
    · obtain ⟨h1, h2⟩ := h.closedIn rfl d k v hk hl
      refine ⟨by omega, h1, fun hh => ?_, fun _ _ => h2⟩
      rcases hh with hh | hh
      · omega
      · cases hh
    · have := h.closedOut rfl d k hk
      rw [hl, hGc] at this
      split at this
      · rename_i hkn
        cases this
        subst hkn
        exact ⟨Nat.le_refl _, (hcl d).1, fun _ => (hcl d).2, fun hh => absurd hh hk⟩
      · cases this
  · intro d k v hl
    by_cases hk : k < E.length
    · obtain ⟨h1, h2⟩ := h.directIn rfl d k v hk hl
      refine ⟨by omega, h1, fun hh => ?_, fun _ _ => h2⟩
      rcases hh with hh | hh
      · omega
      · cases hh
    · have := h.directOut rfl d k hk
      rw [hl, hGd] at this
      split at this
      · rename_i hkn
        cases this
        subst hkn
        exact ⟨Nat.le_refl _, (hdr d).1, fun _ => (hdr d).2, fun hh => absurd hh hk⟩
      · cases this
  · intro d k hk; exact h.closedPres rfl d k (hGcp d k hk)
  · intro d k hk
    apply h.directPres rfl d.flip k (hGdp d k _)
    rw [(hcl d).2 k]
    exact (isCover_iff.mp (((hdr d).2 k).mp hk)).1
  · intro d
    have := h.closedOut rfl d E.length (Nat.lt_irrefl _)
    rw [this, hGc, if_pos rfl]
  · intro d
    have := h.directOut rfl d E.length (Nat.lt_irrefl _)
    rw [this, hGd, if_pos rfl]

end
end Fca.Poset

/-
  Lemmas/PosetAdd4 — the order on `E ++ [e]` versus the order on `E` (the new element has index `E.length`),
  and what the two `trace_element` runs return in terms of the extended order.
-/
import Fca.Lemmas.PosetAdd3
set_option linter.unusedSectionVars false
namespace Fca.Poset
open Fca Fca.Poset.Fresh

section
variable {α : Type} [DecidableEq α] {leq : α → α → Bool} {E : List α} {e : α}

theorem relD_ext_lt {d : Dir} {x k : Nat} (hx : x < E.length) (hk : k < E.length) :
    relD leq d (E ++ [e]) x k = relD leq d E x k := by
  cases d <;> simp only [relD]
  · exact rel_append_left hx hk
  · exact rel_append_left hk hx

theorem ltD_ext_lt {d : Dir} {x k : Nat} (hx : x < E.length) (hk : k < E.length) :
    ltD leq d (E ++ [e]) x k = ltD leq d E x k := by
  unfold ltD; rw [relD_ext_lt hx hk]

theorem ltD_ext_le {d : Dir} {x k : Nat} (h : ltD leq d (E ++ [e]) x k = true) :
    x ≤ E.length ∧ k ≤ E.length := by
  have := ltD_lt h
  simp only [List.length_append, List.length_singleton] at this
  omega

variable (hpo' : IdxPO leq (E ++ [e]))
include hpo'

/-- covers among the old elements: the old covers, except when the new element comes in between -/
theorem isCover_ext {d : Dir} {x k : Nat} (hx : x < E.length) (hk : k < E.length) :
    isCover leq d (E ++ [e]) x k = true ↔
      (isCover leq d E x k = true ∧
        ¬(ltD leq d (E ++ [e]) x E.length = true ∧ ltD leq d (E ++ [e]) E.length k = true)) := by
  rw [isCover_iff, isCover_iff, ltD_ext_lt hx hk]
  constructor
  · rintro ⟨h1, h2⟩
    refine ⟨⟨h1, fun z hz1 hz2 => ?_⟩, fun hh => h2 _ hh.1 hh.2⟩
    have hz : z < E.length := (ltD_lt hz1).2
    exact h2 z (by rw [ltD_ext_lt hx hz]; exact hz1) (by rw [ltD_ext_lt hz hk]; exact hz2)
  · rintro ⟨⟨h1, h2⟩, h3⟩
    refine ⟨h1, fun z hz1 hz2 => ?_⟩
    have hz := (ltD_ext_le hz1).2
    by_cases hzn : z = E.length
    · subst hzn; exact h3 ⟨hz1, hz2⟩
    · have hz' : z < E.length := by omega
      exact h2 z (by rw [← ltD_ext_lt hx hz']; exact hz1) (by rw [← ltD_ext_lt hz' hk]; exact hz2)

/-- the new element is a `d`-cover of `k` iff `k` is a `d.flip`-cover of the new element -/
theorem isCover_ext_new {d : Dir} {k : Nat} :
    isCover leq d (E ++ [e]) E.length k = true ↔ isCover leq d.flip (E ++ [e]) k E.length = true :=
  isCover_flip.symm

omit hpo' in
theorem cmpB_lt {d : Dir} {i : Nat} (h : cmpB leq d e E i = true) : i < E.length := by
  unfold cmpB at h
  split at h
  · cases h
  · rename_i x hx; exact (List.getElem?_eq_some_iff.mp hx).1

omit hpo' in
theorem cmpB_iff_ltD {d : Dir} {i : Nat} :
    cmpB leq d e E i = true ↔ ltD leq d (E ++ [e]) i E.length = true := by
  constructor
  · intro h
    have hi := cmpB_lt h
    rw [cmpB_eq_relD hi] at h
    exact ltD_iff.mpr ⟨h, by omega⟩
  · intro h
    have hi : i < E.length := by
      have := (ltD_ext_le h).1
      have := (ltD_iff.mp h).2
      omega
    rw [cmpB_eq_relD hi]
    exact (ltD_iff.mp h).1

/-- the test set of `trace_element` is closed towards its side -/
theorem downSet_cmpB (d : Dir) : DownSet leq d E (cmpB leq d e E) := by
  refine ⟨fun i h => cmpB_lt h, fun i j hj hij => ?_⟩
  have hjn := cmpB_lt hj
  have hi : i < E.length := (relD_lt hij).1
  rw [cmpB_eq_relD hjn] at hj
  rw [cmpB_eq_relD hi]
  have : relD leq d (E ++ [e]) i j = true := by rw [relD_ext_lt hi hjn]; exact hij
  exact relD_trans hpo' d this hj

/-- what `trace_element` returns, in terms of the extended order: all / the nearest elements on the `d` side
    of the new element -/
theorem trace_result {d : Dir} {tr fin : List Nat} (hpo : IdxPO leq E)
    (h : BInv leq d E (cmpB leq d e E) [] tr fin) :
    (tr.Nodup ∧ ∀ x, x ∈ tr ↔ ltD leq d (E ++ [e]) x E.length = true) ∧
    (fin.Nodup ∧ ∀ x, x ∈ fin ↔ isCover leq d (E ++ [e]) x E.length = true) := by
  obtain ⟨h1, h2⟩ := binv_done hpo (downSet_cmpB hpo' d) h
  refine ⟨⟨h.trN, fun x => by rw [h1 x, cmpB_iff_ltD]⟩, h.finN, fun x => ?_⟩
  rw [h2 x, isCover_iff, cmpB_iff_ltD]
  constructor
  · rintro ⟨hx, hz⟩
    refine ⟨hx, fun z hz1 hz2 => ?_⟩
    have hDz := cmpB_iff_ltD.mpr hz2
    have hzl := cmpB_lt hDz
    have hxl : x < E.length := cmpB_lt (cmpB_iff_ltD.mpr hx)
    have := hz z hDz
    rw [← ltD_ext_lt (e := e) hxl hzl, hz1] at this; cases this
  · rintro ⟨hx, hz⟩
    refine ⟨hx, fun z hDz => ?_⟩
    have hzl := cmpB_lt hDz
    have hxl : x < E.length := cmpB_lt (cmpB_iff_ltD.mpr hx)
    cases hxz : ltD leq d E x z
    · rfl
    · exact (hz z (by rw [ltD_ext_lt hxl hzl]; exact hxz) (cmpB_iff_ltD.mp hDz)).elim

/-- an old element that is on the `d` side of the new one but not next to it keeps its `d.flip`-covers:
    none of them lies beyond the new element -/
theorem cover_not_beyond {d : Dir} {i x : Nat} (hi : ltD leq d (E ++ [e]) i E.length = true)
    (hnc : isCover leq d (E ++ [e]) i E.length = false)
    (hx : isCover leq d.flip (E ++ [e]) x i = true ∨ isCover leq d.flip E x i = true)
    (hxl : x < E.length) (hil : i < E.length) :
    ltD leq d.flip (E ++ [e]) x E.length = false := by
  cases hb : ltD leq d.flip (E ++ [e]) x E.length
  · rfl
  · exfalso
    -- i <_d z <_d new <_d x for some old z, contradicting that x is next to i
    have : ∃ z, ltD leq d (E ++ [e]) i z = true ∧ ltD leq d (E ++ [e]) z E.length = true := by
      apply Classical.byContradiction
      intro hne
      have : isCover leq d (E ++ [e]) i E.length = true :=
        isCover_iff.mpr ⟨hi, fun z h1 h2 => hne ⟨z, h1, h2⟩⟩
      rw [hnc] at this; cases this
    obtain ⟨z, hz1, hz2⟩ := this
    have hzl : z < E.length := by
      have := (ltD_ext_le hz1).2
      have := (ltD_iff.mp hz2).2
      omega
    rw [ltD_flip] at hb
    have hzx : ltD leq d (E ++ [e]) z x = true := ltD_trans hpo' d hz2 hb
    rcases hx with hx | hx
    · rw [isCover_flip] at hx
      exact (isCover_iff.mp hx).2 z hz1 hzx
    · rw [isCover_flip] at hx
      exact (isCover_iff.mp hx).2 z (by rw [← ltD_ext_lt hil hzl]; exact hz1)
        (by rw [← ltD_ext_lt hzl hxl]; exact hzx)

end
end Fca.Poset

/-
  Fca.Lemmas.CodecMVCxt — `MVContext.read_json (write_json K) = K` at tree level.
-/
import Fca.Lemmas.CodecMV
namespace Fca.Codec

/-! ### cells -/

/-- the JSON value a stored description is written as -/
def valTree : PType → PVal → JV
  | .AttributePS, .attr b => .bool b
  | .SetPS, .set xs => .arr (xs.map Atom.toJV)
  | .IntervalPS, .interval a b => .arr [.flt a, .flt b]
  | .IntervalNumpyPS, .interval a b => .arr [.flt a, .flt b]
  | _, _ => .null

theorem toJsonVal_fits (t : PType) (v : PVal) (h : Fits t v) : toJsonVal t v = .ok (valTree t v) := by
  cases t <;> cases v <;> simp only [Fits] at h <;> try rfl
  rename_i xs
  show Except.ok (JV.arr ((sortedBy Atom.le xs).map Atom.toJV)) = _
  rw [sortedBy_of_sorted _ _ h.2]; rfl

theorem fromJsonVal_valTree (t : PType) (v : PVal) (h : Fits t v) : fromJsonVal t (valTree t v) = .ok v := by
  have := fromJsonVal_toJsonVal t v h
  rw [toJsonVal_fits t v h] at this
  exact this

/-- the text a cell is written as -/
def cellText (t : PType) (v : PVal) : Str := dumps (valTree t v)

theorem encCell_fits (t : PType) (v : PVal) (h : Fits t v) : encCell (t, v) = .ok (cellText t v) := by
  simp only [encCell, toJsonText, toJsonVal_fits t v h, cellText]

theorem decCell_fits (t : PType) (v : PVal) (h : Fits t v)
    (hc : loads (dumps (valTree t v)) = some (valTree t v)) :
    decCell (t, jStr (cellText t v)) = .ok v := by
  simp only [decCell, fromJsonText, jStr, cellText, hc, fromJsonVal_valTree t v h]

theorem ofName_name (t : PType) : PType.ofName t.name = .ok t := by
  cases t <;> rfl

/-! ### dictionaries with distinct keys -/

theorem dset_fresh {α : Type} (k : Str) (v : α) : ∀ acc : List (Str × α), k ∉ acc.map (·.1) →
    dset k v acc = acc ++ [(k, v)]
  | [], _ => rfl
  | (k', v') :: acc, h => by
    simp only [List.map_cons, List.mem_cons, not_or] at h
    have : ¬ k' = k := fun e => h.1 e.symm
    simp only [dset, this, ↓reduceIte, dset_fresh k v acc h.2, List.cons_append]

theorem dictOfZipAux_nodup {α : Type} : ∀ (ks : List Str) (vs : List α) (acc : List (Str × α)),
    ks.Nodup → (∀ k ∈ ks, k ∉ acc.map (·.1)) → dictOfZipAux acc ks vs = acc ++ ks.zip vs
  | [], _, acc, _, _ => by simp [dictOfZipAux]
  | _ :: _, [], acc, _, _ => by simp [dictOfZipAux]
  | k :: ks, v :: vs, acc, hn, hd => by
    have hn' := List.nodup_cons.mp hn
    simp only [dictOfZipAux, dset_fresh k v acc (hd k (by simp))]
    rw [dictOfZipAux_nodup ks vs _ hn'.2 (by
      intro k' hk'
      simp only [List.map_append, List.map_cons, List.map_nil, List.mem_append, List.mem_singleton, not_or]
      exact ⟨hd k' (List.mem_cons_of_mem _ hk'), fun e => hn'.1 (e ▸ hk')⟩)]
    simp

theorem dictOfZip_nodup {α : Type} (ks : List Str) (vs : List α) (h : ks.Nodup) :
    dictOfZip ks vs = ks.zip vs := by
  simpa [dictOfZip] using dictOfZipAux_nodup ks vs [] h (by simp)

theorem dget_of_mem {α : Type} : ∀ (l : List (Str × α)) (k : Str) (v : α),
    (l.map (·.1)).Nodup → (k, v) ∈ l → dget k l = some v
  | [], _, _, _, h => by simp at h
  | (k', v') :: l, k, v, hn, h => by
    simp only [List.map_cons, List.nodup_cons] at hn
    rcases List.mem_cons.mp h with e | h'
    · cases e; simp [dget]
    · have : ¬ k' = k := by
        intro e; subst e
        exact hn.1 (List.mem_map.mpr ⟨(k', v), h', rfl⟩)
      simp only [dget, this, ↓reduceIte, dget_of_mem l k v hn.2 h']

/-! ### positions of distinct names -/

theorem idxFrom_none : ∀ (ys : List Str) (s : Nat) (x : Str), x ∉ ys → idxFrom ys s x = none
  | [], _, _, _ => rfl
  | y :: ys, s, x, h => by
    simp only [List.mem_cons, not_or] at h
    have : ¬ y = x := fun e => h.1 e.symm
    simp [idxFrom, idxFrom_none ys (s + 1) x h.2, this]

theorem idxFrom_nodup : ∀ (ys : List Str) (s i : Nat) (x : Str), ys.Nodup → ys[i]? = some x →
    idxFrom ys s x = some (s + i)
  | [], _, _, _, _, h => by simp at h
  | y :: ys, s, 0, x, hn, h => by
    simp only [List.getElem?_cons_zero, Option.some.injEq] at h
    subst h
    have hn' := List.nodup_cons.mp hn
    simp [idxFrom, idxFrom_none ys (s + 1) y hn'.1]
  | y :: ys, s, i + 1, x, hn, h => by
    simp only [List.getElem?_cons_succ] at h
    have hn' := List.nodup_cons.mp hn
    simp only [idxFrom, idxFrom_nodup ys (s + 1) i x hn'.2 h]
    congr 1; omega

theorem idxOf_nodup (ys : List Str) (i : Nat) (x : Str) (hn : ys.Nodup) (h : ys[i]? = some x) :
    idxOf ys x = some i := by
  simpa [idxOf] using idxFrom_nodup ys 0 i x hn h

/-! ### rows and columns -/

theorem foldl_min_const : ∀ (l : List Nat) (a : Nat), (∀ x ∈ l, x = a) → l.foldl min a = a
  | [], _, _ => rfl
  | x :: l, a, h => by
    have hx : x = a := h x (by simp)
    subst hx
    simp only [List.foldl_cons, Nat.min_self]
    exact foldl_min_const l x (fun y hy => h y (List.mem_cons_of_mem _ hy))

theorem map_getD_range (l : List PVal) (n : Nat) (h : l.length = n) :
    (List.range n).map (fun i => l.getD i .none_) = l := by
  apply List.ext_getElem
  · simp [h]
  · intro i h1 h2
    simp [List.getD_eq_getElem?_getD, List.getElem?_eq_getElem h2]

/-- well-formed many-valued context over the shipped pattern structures -/
structure MVOk (K : MVCxt) : Prop where
  names : K.cols.map (·.name) = K.attrs
  nodup : K.attrs.Nodup
  objs_ne : K.objs ≠ []
  cols_ne : K.cols ≠ []
  len : ∀ c ∈ K.cols, c.data.length = K.objs.length
  fits : ∀ c ∈ K.cols, ∀ v ∈ c.data, Fits c.ptype v ∧ v ≠ .none_

/-- the trusted text layer, for the cells of `K`: `json.loads(json.dumps(x)) == x` -/
def MVCodecOk (K : MVCxt) : Prop :=
  ∀ c ∈ K.cols, ∀ v ∈ c.data, loads (dumps (valTree c.ptype v)) = some (valTree c.ptype v)

/-- row `i` of the table -/
def rowAt (K : MVCxt) (i : Nat) : List PVal := K.cols.map fun c => c.data.getD i .none_

def rowsOf (K : MVCxt) : List (List PVal) := (List.range K.objs.length).map (rowAt K)

theorem zipStar_ne (cols : List (List PVal)) (h : cols ≠ []) :
    zipStar cols = (List.range (minLen cols)).map fun i => cols.map fun c => c.getD i .none_ := by
  cases cols with
  | nil => exact absurd rfl h
  | cons c cs => rfl

theorem minLen_const (cols : List (List PVal)) (n : Nat) (h : cols ≠ []) (hl : ∀ l ∈ cols, l.length = n) :
    minLen cols = n := by
  cases cols with
  | nil => exact absurd rfl h
  | cons c cs =>
    unfold minLen
    simp only [List.headD_cons, hl c (by simp)]
    apply foldl_min_const
    intro x hx
    obtain ⟨l, hlm, rfl⟩ := List.mem_map.mp hx
    exact hl l hlm

theorem dataRows_eq (K : MVCxt) (h : MVOk K) : K.dataRows = rowsOf K := by
  unfold MVCxt.dataRows rowsOf
  have hne : K.cols.map (·.data) ≠ [] := by simpa using h.cols_ne
  rw [zipStar_ne _ hne, minLen_const _ K.objs.length hne (by
    intro l hl
    obtain ⟨c, hc, rfl⟩ := List.mem_map.mp hl
    exact h.len c hc)]
  apply List.map_congr_left
  intro i _
  simp only [rowAt, List.map_map]
  rfl

theorem getD_mem (c : PCol) (i : Nat) (h : i < c.data.length) : c.data.getD i .none_ ∈ c.data := by
  simp [List.getD_eq_getElem?_getD, List.getElem?_eq_getElem h]

/-- the texts of row `i` -/
def rowTexts (K : MVCxt) (i : Nat) : List Str := K.cols.map fun c => cellText c.ptype (c.data.getD i .none_)

theorem encRow_rowAt (K : MVCxt) (h : MVOk K) (i : Nat) (hi : i < K.objs.length) :
    encRow (K.cols.map (·.ptype)) (rowAt K i) = .ok (rowTexts K i) := by
  unfold encRow rowAt rowTexts
  rw [List.zip_map']
  apply mapME_map_ok
  intro c hc
  exact encCell_fits _ _ (h.fits c hc _ (getD_mem c i (by rw [h.len c hc]; exact hi))).1

theorem decRow_rowTexts (K : MVCxt) (h : MVOk K) (hcod : MVCodecOk K) (i : Nat) (hi : i < K.objs.length) :
    decRow (K.cols.map (·.ptype)) (pvaluesJ (rowTexts K i)) = .ok (rowAt K i) := by
  have hk : JV.getKey (pvaluesJ (rowTexts K i)) "PValues".toList = .ok (.arr ((rowTexts K i).map jStr)) := by
    simp [pvaluesJ, JV.getKey, JV.lookup]
  unfold decRow
  rw [hk]
  simp only [rowTexts, List.map_map, rowAt]
  rw [List.zip_map']
  apply mapME_map_ok
  intro c hc
  have hm := getD_mem c i (by rw [h.len c hc]; exact hi)
  exact decCell_fits _ _ (h.fits c hc _ hm).1 (hcod c hc _ hm)

/-- `pattern_types` as the reader rebuilds it -/
def ptypesOf (K : MVCxt) : List (Str × PType) := K.cols.map fun c => (c.name, c.ptype)

theorem dictOfZip_cols (K : MVCxt) (h : MVOk K) :
    dictOfZip K.attrs (K.cols.map (·.ptype)) = ptypesOf K := by
  rw [dictOfZip_nodup _ _ h.nodup, ← h.names, List.zip_map']
  rfl

theorem ptypesOf_keys (K : MVCxt) (h : MVOk K) : ((ptypesOf K).map (·.1)).Nodup := by
  have : (ptypesOf K).map (·.1) = K.attrs := by
    rw [← h.names]; simp [ptypesOf, List.map_map]
  rw [this]; exact h.nodup

theorem dget_ptypesOf (K : MVCxt) (h : MVOk K) (c : PCol) (hc : c ∈ K.cols) :
    dget c.name (ptypesOf K) = some c.ptype :=
  dget_of_mem _ _ _ (ptypesOf_keys K h) (List.mem_map.mpr ⟨c, hc, rfl⟩)

theorem lookupP_cols (K : MVCxt) (h : MVOk K) :
    mapME (lookupP (ptypesOf K)) K.attrs = .ok (K.cols.map (·.ptype)) := by
  rw [← h.names]
  apply mapME_map_ok
  intro c hc
  simp only [lookupP, dget_ptypesOf K h c hc]

theorem ptypesOfJ_cols (K : MVCxt) :
    ptypesOfJ (.arr (K.cols.map fun c => jStr c.ptype.name)) = .ok (K.cols.map (·.ptype)) := by
  unfold ptypesOfJ
  apply mapME_map_ok
  intro c _
  simp only [jStr, decPType, ofName_name]

/-! ### the constructor -/

theorem isSortedBy_zipIdx (l : List PCol) : ∀ s : Nat,
    isSortedBy leIdx ((l.zipIdx s).map fun p => (p.2, p.1.name, p.1.ptype)) = true := by
  induction l with
  | nil => intro s; rfl
  | cons c l ih =>
    intro s
    cases l with
    | nil => rfl
    | cons c' l' =>
      have := ih (s + 1)
      simp only [List.zipIdx_cons, List.map_cons] at this ⊢
      simp only [isSortedBy, this, Bool.and_true, leIdx]
      simp

theorem cellAt_rows (K : MVCxt) (h : MVOk K) (c : PCol) (k : Nat) (hk : K.cols[k]? = some c) :
    mapME (cellAt c.ptype k) (rowsOf K) = .ok c.data := by
  have hc : c ∈ K.cols := List.mem_of_getElem? hk
  have : mapME (cellAt c.ptype k) (rowsOf K)
      = .ok ((List.range K.objs.length).map fun i => c.data.getD i .none_) := by
    unfold rowsOf
    apply mapME_map_ok
    intro i hi
    have hi' : i < K.objs.length := List.mem_range.mp hi
    have hrow : (rowAt K i)[k]? = some (c.data.getD i .none_) := by
      simp [rowAt, List.getElem?_map, hk]
    have hm := getD_mem c i (by rw [h.len c hc]; exact hi')
    simp only [cellAt, hrow]
    exact transformVal_fits _ _ (h.fits c hc _ hm).1 (h.fits c hc _ hm).2
  rw [this, map_getD_range _ _ (h.len c hc)]

theorem mkMVCxt_rows (K : MVCxt) (h : MVOk K) (d : Option Str) :
    mkMVCxt (rowsOf K) (ptypesOf K) (some K.objs) (some K.attrs) d = .ok ⟨K.objs, K.attrs, K.cols, d⟩ := by
  have hnpos : 0 < K.objs.length := List.length_pos_iff.mpr h.objs_ne
  have hlenrows : (rowsOf K).length = K.objs.length := by simp [rowsOf]
  have hattrs : K.attrs.length = K.cols.length := by rw [← h.names]; simp
  -- the indexed pattern types
  have hkeyed : mapME (ptypeIndexed K.attrs) (ptypesOf K)
      = .ok (K.cols.zipIdx.map fun p => (p.2, p.1.name, p.1.ptype)) := by
    have e : ptypesOf K = K.cols.zipIdx.map fun p => (p.1.name, p.1.ptype) := by
      conv => lhs; rw [ptypesOf, ← List.zipIdx_map_fst 0 K.cols, List.map_map]
      rfl
    rw [e]
    apply mapME_map_ok
    intro p hp
    have hget : K.cols[p.2]? = some p.1 := List.mem_zipIdx_iff_getElem?.mp hp
    have hname : K.attrs[p.2]? = some p.1.name := by
      rw [← h.names, List.getElem?_map, hget]; rfl
    simp only [ptypeIndexed, idxOf_nodup K.attrs p.2 p.1.name h.nodup hname]
  have hcols : mapME (mkPCol (rowsOf K)) (K.cols.zipIdx.map fun p => (p.2, p.1.name, p.1.ptype))
      = .ok K.cols := by
    have := mapME_map_ok (mkPCol (rowsOf K)) (fun p : PCol × Nat => (p.2, p.1.name, p.1.ptype)) (·.1)
      K.cols.zipIdx (by
        intro p hp
        have hget : K.cols[p.2]? = some p.1 := List.mem_zipIdx_iff_getElem?.mp hp
        simp only [mkPCol, cellAt_rows K h p.1 p.2 hget, Except.bind])
    rw [this, List.zipIdx_map_fst]
  have hall : (K.attrs.all fun a => (dget a (ptypesOf K)).isSome) = true := by
    rw [List.all_eq_true]
    intro a ha
    rw [← h.names] at ha
    obtain ⟨c, hc, rfl⟩ := List.mem_map.mp ha
    rw [dget_ptypesOf K h c hc]; rfl
  cases hr : rowsOf K with
  | nil => rw [hr] at hlenrows; simp at hlenrows; omega
  | cons row0 rest =>
    have hrow0 : row0.length = K.cols.length := by
      have : row0 ∈ rowsOf K := by rw [hr]; simp
      simp only [rowsOf, List.mem_map] at this
      obtain ⟨i, _, rfl⟩ := this
      simp [rowAt]
    rw [hr] at hlenrows hcols
    simp only [mkMVCxt, Option.getD_some, hlenrows, bne_self_eq_false, Bool.false_eq_true, ↓reduceIte,
      hrow0, hattrs, hall, Bool.not_true, hkeyed, Except.bind, sortedBy_of_sorted _ _ (isSortedBy_zipIdx K.cols 0),
      hcols]

/-! ### the round trip -/

theorem writeMVTree_eq (K : MVCxt) (h : MVOk K) :
    writeMVTree K = .ok (mvTreeOf K ((List.range K.objs.length).map (rowTexts K))) := by
  have : mapME (encRow (K.cols.map (·.ptype))) (rowsOf K) = .ok ((List.range K.objs.length).map (rowTexts K)) := by
    unfold rowsOf
    apply mapME_map_ok
    intro i hi
    exact encRow_rowAt K h i (List.mem_range.mp hi)
  simp only [writeMVTree, dataRows_eq K h, this, Except.bind]

theorem readMVBody_ok (K : MVCxt) (h : MVOk K) (hcod : MVCodecOk K) (dj : Option JV)
    (hdj : descrOf dj = .ok K.descr) (cnt : JV) :
    readMVBody dj (some (.arr (K.objs.map jStr)))
      (.obj [("AttrNames".toList, .arr (K.attrs.map jStr)),
             ("PTypes".toList, .arr (K.cols.map fun c => jStr c.ptype.name))])
      (.obj [("Count".toList, cnt),
             ("Data".toList, .arr (((List.range K.objs.length).map (rowTexts K)).map pvaluesJ))])
      = .ok K := by
  have h1 : ∀ x y : JV, JV.getOpt (.obj [("AttrNames".toList, x), ("PTypes".toList, y)]) "AttrNames".toList
      = .ok (some x) := by intro x y; simp [JV.getOpt, JV.lookup]
  have h2 : ∀ x y : JV, JV.getKey (.obj [("AttrNames".toList, x), ("PTypes".toList, y)]) "PTypes".toList
      = .ok y := by intro x y; simp [JV.getKey, JV.lookup]
  have h5 : ∀ (x : JV) (ls : List JV), dataLines (.obj [("Count".toList, x), ("Data".toList, .arr ls)]) = .ok ls := by
    intro x ls; simp [dataLines, JV.getKey, JV.lookup]
  have hdec : mapME (decRow (K.cols.map (·.ptype))) (((List.range K.objs.length).map (rowTexts K)).map pvaluesJ)
      = .ok (rowsOf K) := by
    rw [List.map_map]
    unfold rowsOf
    apply mapME_map_ok
    intro i hi
    exact decRow_rowTexts K h hcod i (List.mem_range.mp hi)
  have hK : (⟨K.objs, K.attrs, K.cols, K.descr⟩ : MVCxt) = K := rfl
  simp only [readMVBody, h1, h2, Except.bind, namesOf_arr, ptypesOfJ_cols, dictOfZip_cols K h, lookupP_cols K h,
    h5, hdec, hdj, mkMVCxt_rows K h, hK]

theorem readMV_writeMV (K : MVCxt) (h : MVOk K) (hcod : MVCodecOk K) :
    (writeMVTree K).bind readMVTree = .ok K := by
  rw [writeMVTree_eq K h]
  simp only [Except.bind, mvTreeOf, readMVTree]
  cases hd : K.descr with
  | none =>
    have g1 : ∀ x y : JV, JV.getOpt (.obj ([] ++ [("ObjNames".toList, x), ("Params".toList, y)])) "ObjNames".toList
        = .ok (some x) := by intro x y; simp [JV.getOpt, JV.lookup]
    have g2 : ∀ x y : JV, JV.getOpt (.obj ([] ++ [("ObjNames".toList, x), ("Params".toList, y)])) "Params".toList
        = .ok (some y) := by intro x y; simp [JV.getOpt, JV.lookup]
    have g3 : ∀ x y : JV, JV.getOpt (.obj ([] ++ [("ObjNames".toList, x), ("Params".toList, y)])) "Description".toList
        = .ok none := by intro x y; simp [JV.getOpt, JV.lookup]
    simp only [g1, g2, g3, Except.bind]
    exact readMVBody_ok K h hcod none (by rw [hd]; rfl) _
  | some d =>
    have g1 : ∀ z x y : JV, JV.getOpt (.obj ([("Description".toList, z)] ++ [("ObjNames".toList, x), ("Params".toList, y)]))
        "ObjNames".toList = .ok (some x) := by intro z x y; simp [JV.getOpt, JV.lookup]
    have g2 : ∀ z x y : JV, JV.getOpt (.obj ([("Description".toList, z)] ++ [("ObjNames".toList, x), ("Params".toList, y)]))
        "Params".toList = .ok (some y) := by intro z x y; simp [JV.getOpt, JV.lookup]
    have g3 : ∀ z x y : JV, JV.getOpt (.obj ([("Description".toList, z)] ++ [("ObjNames".toList, x), ("Params".toList, y)]))
        "Description".toList = .ok (some z) := by intro z x y; simp [JV.getOpt, JV.lookup]
    simp only [g1, g2, g3, Except.bind]
    exact readMVBody_ok K h hcod (some (jStr d)) (by rw [hd]; rfl) _

end Fca.Codec

/-
  Lemmas/SemiLatticePatch — the neighbour patching loop of `add(e, fill_up_cache=True)` under a WEAKER presence
  assumption than C09's `PatchInv`: the closed relation (`_cache_ancestors[i]` / `_cache_descendants[i]`) has to be
  cached only for the elements `i` that the loop actually patches on that side (those strictly below / above the new
  element), not for every element.  On a semilattice `trace_element` starts from the cached extreme index and does
  not scan, so only the traced elements are known to be cached.
  This file is an adapted copy of the second half of `Lemmas/PosetAdd5` and of `Lemmas/PosetAdd6` (C09), in the
  namespace `Fca.Poset.Weak`; the pure facts (`closed_ext_*`, `direct_ext_*`, ...) are used from C09 unchanged.
-/
import Fca.Lemmas.PosetAdd7
set_option linter.unusedSectionVars false
set_option linter.unusedVariables false
namespace Fca.Poset.Weak
open Fca Fca.Poset Fca.Poset.Fresh

/-! ### the loop invariant -/
section
variable {α : Type} [DecidableEq α] {leq : α → α → Bool}

/-- caches during the patching loop: entries keyed by an index in `pre` (already visited) or by the new index are
    right for `E ++ [e]`, the others still for `E`; `cl`/`dr` are the closed/direct entries of the new element -/
structure PatchInv (leq : α → α → Bool) (E : List α) (e : α) (cl dr : Dir → List Nat) (pre : List Nat)
    (s : St α) : Prop where
  elems : s.elems = E
  flag : s.useCache = true
  leqOk : ∀ a b r, alookup (a, b) s.leqC = some r →
    a ≤ E.length ∧ b ≤ E.length ∧ r = rel leq (E ++ [e]) a b
  closedOk : ∀ d k v, alookup k (s.closed d) = some v → k ≤ E.length ∧ v.Nodup ∧
    ((k = E.length ∨ k ∈ pre) → ∀ x, x ∈ v ↔ ltD leq d (E ++ [e]) x k = true) ∧
    (k < E.length → k ∉ pre → ∀ x, x ∈ v ↔ ltD leq d E x k = true)
  directOk : ∀ d k v, alookup k (s.direct d) = some v → k ≤ E.length ∧ v.Nodup ∧
    ((k = E.length ∨ k ∈ pre) → ∀ x, x ∈ v ↔ isCover leq d (E ++ [e]) x k = true) ∧
    (k < E.length → k ∉ pre → ∀ x, x ∈ v ↔ isCover leq d E x k = true)
  closedPres : ∀ d k, k ∈ cl d → (alookup k (s.closed d.flip)).isSome = true
  directPres : ∀ d k, k ∈ dr d → (alookup k (s.direct d.flip)).isSome = true
  closedNew : ∀ d, alookup E.length (s.closed d) = some (cl d)
  directNew : ∀ d, alookup E.length (s.direct d) = some (dr d)

variable {E : List α} {e : α} {cl dr : Dir → List Nat}

/-- how one iteration may change the state -/
structure PatchUpd (leq : α → α → Bool) (E : List α) (e : α) (i : Nat) (s s' : St α) : Prop where
  elems : s'.elems = s.elems
  flag : s'.useCache = s.useCache
  leqU : ∀ a b r, alookup (a, b) s'.leqC = some r → alookup (a, b) s.leqC = some r ∨
    (a ≤ E.length ∧ b ≤ E.length ∧ r = rel leq (E ++ [e]) a b)
  closedU : ∀ d k, k ≠ i → alookup k (s'.closed d) = alookup k (s.closed d)
  closedI : ∀ d v, alookup i (s'.closed d) = some v → v.Nodup ∧ ∀ x, x ∈ v ↔ ltD leq d (E ++ [e]) x i = true
  closedP : ∀ d, (alookup i (s.closed d)).isSome = true → (alookup i (s'.closed d)).isSome = true
  directU : ∀ d k, k ≠ i → alookup k (s'.direct d) = alookup k (s.direct d)
  directI : ∀ d v, alookup i (s'.direct d) = some v →
    v.Nodup ∧ ∀ x, x ∈ v ↔ isCover leq d (E ++ [e]) x i = true
  directP : ∀ d, (alookup i (s.direct d)).isSome = true → (alookup i (s'.direct d)).isSome = true

theorem patchInv_update {pre : List Nat} {i : Nat} {s s' : St α} (hi : i < E.length)
    (h : PatchInv leq E e cl dr pre s) (u : PatchUpd leq E e i s s') :
    PatchInv leq E e cl dr (pre ++ [i]) s' := by
  have hin : i ≠ E.length := by omega
  refine ⟨u.elems.trans h.elems, u.flag.trans h.flag, ?_, ?_, ?_, ?_, ?_, ?_, ?_⟩
  · intro a b r hl
    rcases u.leqU a b r hl with h1 | h1
    · exact h.leqOk a b r h1
    · exact h1
  · intro d k v hl
    by_cases hk : k = i
    · subst hk
      obtain ⟨h1, h2⟩ := u.closedI d v hl
      exact ⟨by omega, h1, fun _ => h2, fun _ hn => absurd (List.mem_append.mpr (Or.inr (by simp))) hn⟩
    · rw [u.closedU d k hk] at hl
      obtain ⟨h1, h2, h3, h4⟩ := h.closedOk d k v hl
      refine ⟨h1, h2, fun hh => h3 ?_, fun hk1 hk2 => h4 hk1 (fun hp => hk2 (List.mem_append.mpr (Or.inl hp)))⟩
      rcases hh with hh | hh
      · exact Or.inl hh
      · rcases List.mem_append.mp hh with hh | hh
        · exact Or.inr hh
        · simp at hh; exact absurd hh hk
  · intro d k v hl
    by_cases hk : k = i
    · subst hk
      obtain ⟨h1, h2⟩ := u.directI d v hl
      exact ⟨by omega, h1, fun _ => h2, fun _ hn => absurd (List.mem_append.mpr (Or.inr (by simp))) hn⟩
    · rw [u.directU d k hk] at hl
      obtain ⟨h1, h2, h3, h4⟩ := h.directOk d k v hl
      refine ⟨h1, h2, fun hh => h3 ?_, fun hk1 hk2 => h4 hk1 (fun hp => hk2 (List.mem_append.mpr (Or.inl hp)))⟩
      rcases hh with hh | hh
      · exact Or.inl hh
      · rcases List.mem_append.mp hh with hh | hh
        · exact Or.inr hh
        · simp at hh; exact absurd hh hk
  · intro d k hk
    by_cases hki : k = i
    · subst hki; exact u.closedP d.flip (h.closedPres d k hk)
    · rw [u.closedU d.flip k hki]; exact h.closedPres d k hk
  · intro d k hk
    by_cases hki : k = i
    · subst hki; exact u.directP d.flip (h.directPres d k hk)
    · rw [u.directU d.flip k hki]; exact h.directPres d k hk
  · intro d; rw [u.closedU d _ (fun hh => hin hh.symm)]; exact h.closedNew d
  · intro d; rw [u.directU d _ (fun hh => hin hh.symm)]; exact h.directNew d

/-- after the loop (and appending the element) the invariant for `E ++ [e]` holds -/
theorem patchInv_final {s : St α} (h : PatchInv leq E e cl dr (List.range E.length) s) :
    InvB leq (E ++ [e]) Ghost.none true { s with elems := s.elems ++ [e] } := by
  have hlen : (E ++ [e]).length = E.length + 1 := by simp
  refine InvB.ofOk (by simp [h.elems]) h.flag (fun _ => ?_) (fun _ => ?_) (fun _ => ?_)
  · intro a b r hl
    obtain ⟨h1, h2, h3⟩ := h.leqOk a b r hl
    rw [hlen]; exact ⟨by omega, by omega, h3⟩
  · intro d k v hl
    have hl' : alookup k (s.closed d) = some v := by cases d <;> exact hl
    obtain ⟨h1, h2, h3, _⟩ := h.closedOk d k v hl'
    rw [hlen]
    refine ⟨by omega, h2, h3 ?_⟩
    by_cases hk : k = E.length
    · exact Or.inl hk
    · exact Or.inr (List.mem_range.mpr (by omega))
  · intro d k v hl
    have hl' : alookup k (s.direct d) = some v := by cases d <;> exact hl
    obtain ⟨h1, h2, h3, _⟩ := h.directOk d k v hl'
    rw [hlen]
    refine ⟨by omega, h2, h3 ?_⟩
    by_cases hk : k = E.length
    · exact Or.inl hk
    · exact Or.inr (List.mem_range.mpr (by omega))

/-- the state reached after the two traces satisfies the loop invariant for the empty prefix -/
theorem patchInv_init {G : Ghost} {s : St α} (hpo' : IdxPO leq (E ++ [e])) (h : InvB leq E G true s)
    (hcl : ∀ d, (cl d).Nodup ∧ ∀ x, x ∈ cl d ↔ ltD leq d (E ++ [e]) x E.length = true)
    (hdr : ∀ d, (dr d).Nodup ∧ ∀ x, x ∈ dr d ↔ isCover leq d (E ++ [e]) x E.length = true)
    (hGl : ∀ p, G.leqX p = if p = (E.length, E.length) then some true else none)
    (hGc : ∀ d k, G.closedX d k = if k = E.length then some (cl d) else none)
    (hGd : ∀ d k, G.directX d k = if k = E.length then some (dr d) else none)
    (hGcp : ∀ d k, k ∈ cl d → G.closedP d.flip k)
    (hGdp : ∀ d k, k ∈ cl d → G.directP d.flip k) :
    PatchInv leq E e cl dr [] s := by
  refine ⟨h.elems, h.flag, ?_, ?_, ?_, ?_, ?_, ?_, ?_⟩
  · intro a b r hl
    by_cases hin : a < E.length ∧ b < E.length
    · refine ⟨by omega, by omega, ?_⟩
      rw [rel_append_left hin.1 hin.2]
      exact h.leqIn rfl a b r hin.1 hin.2 hl
    · have := h.leqOut rfl a b hin
      rw [hl, hGl] at this
      split at this
      · rename_i hab
        cases hab
        cases this
        refine ⟨Nat.le_refl _, Nat.le_refl _, ?_⟩
        exact (hpo'.refl E.length (by simp)).symm
      · cases this
  · intro d k v hl
    by_cases hk : k < E.length
    · obtain ⟨h1, h2⟩ := h.closedIn rfl d k v hk hl
      refine ⟨by omega, h1, fun hh => ?_, fun _ _ => h2⟩
      rcases hh with hh | hh
      · omega
      · cases hh
    · have := h.closedOut rfl d k hk
      rw [hl, hGc] at this
      split at this
      · rename_i hkn
        cases this
        subst hkn
        exact ⟨Nat.le_refl _, (hcl d).1, fun _ => (hcl d).2, fun hh => absurd hh hk⟩
      · cases this
  · intro d k v hl
    by_cases hk : k < E.length
    · obtain ⟨h1, h2⟩ := h.directIn rfl d k v hk hl
      refine ⟨by omega, h1, fun hh => ?_, fun _ _ => h2⟩
      rcases hh with hh | hh
      · omega
      · cases hh
    · have := h.directOut rfl d k hk
      rw [hl, hGd] at this
      split at this
      · rename_i hkn
        cases this
        subst hkn
        exact ⟨Nat.le_refl _, (hdr d).1, fun _ => (hdr d).2, fun hh => absurd hh hk⟩
      · cases this
  · intro d k hk; exact h.closedPres rfl d.flip k (hGcp d k hk)
  · intro d k hk
    apply h.directPres rfl d.flip k (hGdp d k _)
    rw [(hcl d).2 k]
    exact (isCover_iff.mp (((hdr d).2 k).mp hk)).1
  · intro d
    have := h.closedOut rfl d E.length (Nat.lt_irrefl _)
    rw [this, hGc, if_pos rfl]
  · intro d
    have := h.directOut rfl d E.length (Nat.lt_irrefl _)
    rw [this, hGd, if_pos rfl]

end

section
variable {α : Type} [DecidableEq α] {leq : α → α → Bool} {ord : List Nat → List Nat}
variable {E : List α} {e : α} {cl dr : Dir → List Nat}

variable (hpo' : IdxPO leq (E ++ [e]))
variable (hcl : ∀ d, (cl d).Nodup ∧ ∀ x, x ∈ cl d ↔ ltD leq d (E ++ [e]) x E.length = true)
variable (hdr : ∀ d, (dr d).Nodup ∧ ∀ x, x ∈ dr d ↔ isCover leq d (E ++ [e]) x E.length = true)
include hpo'

/-- comparisons of an old element that is on the `d` side of the new element with the new element -/
theorem rel_new_of_side {d : Dir} {i : Nat} (h : ltD leq d (E ++ [e]) i E.length = true) :
    (d == Dir.desc) = rel leq (E ++ [e]) i E.length ∧ (d == Dir.anc) = rel leq (E ++ [e]) E.length i := by
  have hne := (ltD_iff.mp h).2
  have hr := (ltD_iff.mp h).1
  cases d
  · simp only [relD] at hr
    refine ⟨by rw [hr]; rfl, ?_⟩
    cases h2 : rel leq (E ++ [e]) E.length i
    · rfl
    · exact absurd (hpo'.antisymm _ _ hr h2) hne
  · simp only [relD] at hr
    refine ⟨?_, by rw [hr]; rfl⟩
    cases h2 : rel leq (E ++ [e]) i E.length
    · rfl
    · exact absurd (hpo'.antisymm _ _ h2 hr) hne

theorem rel_new_of_neither {i : Nat} (hi : i < E.length)
    (h1 : ltD leq .desc (E ++ [e]) i E.length = false) (h2 : ltD leq .anc (E ++ [e]) i E.length = false) :
    false = rel leq (E ++ [e]) i E.length ∧ false = rel leq (E ++ [e]) E.length i := by
  have hne : i ≠ E.length := by omega
  constructor
  · cases h : rel leq (E ++ [e]) i E.length
    · rfl
    · have : ltD leq .desc (E ++ [e]) i E.length = true := ltD_iff.mpr ⟨h, hne⟩
      rw [h1] at this; cases this
  · cases h : rel leq (E ++ [e]) E.length i
    · rfl
    · have : ltD leq .anc (E ++ [e]) i E.length = true := ltD_iff.mpr ⟨h, hne⟩
      rw [h2] at this; cases this

include hcl hdr

/-- an entry of the closed cache of `i` that the loop does not touch: right for `E ++ [e]` when the new
    element is not on that side of `i` -/
theorem unpatched_closed {pre : List Nat} {s : St α} (h : PatchInv leq E e cl dr pre s) {i : Nat}
    (hi : i < E.length) (hip : i ∉ pre) {d : Dir} {v : List Nat} (hl : alookup i (s.closed d) = some v)
    (hn : ltD leq d (E ++ [e]) E.length i = false) :
    v.Nodup ∧ ∀ x, x ∈ v ↔ ltD leq d (E ++ [e]) x i = true := by
  obtain ⟨_, h2, _, h4⟩ := h.closedOk d i v hl
  exact ⟨h2, closed_ext_old hpo' hi (h4 hi hip) hn⟩

theorem unpatched_direct {pre : List Nat} {s : St α} (h : PatchInv leq E e cl dr pre s) {i : Nat}
    (hi : i < E.length) (hip : i ∉ pre) {d : Dir} {v : List Nat} (hl : alookup i (s.direct d) = some v)
    (hn : ltD leq d (E ++ [e]) E.length i = false) :
    v.Nodup ∧ ∀ x, x ∈ v ↔ isCover leq d (E ++ [e]) x i = true := by
  obtain ⟨_, h2, _, h4⟩ := h.directOk d i v hl
  refine ⟨h2, direct_ext_old hpo' hi (h4 hi hip) (fun x _ _ hh => ?_) ?_⟩
  · rw [hn] at hh; cases hh.2
  · cases hc : isCover leq d.flip (E ++ [e]) i E.length
    · rfl
    · have := (isCover_iff.mp hc).1
      rw [ltD_flip, hn] at this; cases this

/-- one half of the loop body -/
theorem addPatchSide_spec {pre : List Nat} {s : St α} (h : PatchInv leq E e cl dr pre s) {i : Nat}
    (hi : i < E.length) (hip : i ∉ pre) (d : Dir) (hA : ltD leq d (E ++ [e]) i E.length = true) :
    Sat (addPatchSide d E.length i) s (fun s' _ => PatchUpd leq E e i s s') := by
  have hin : i ≠ E.length := by omega
  have hni : E.length ≠ i := fun hh => hin hh.symm
  -- the new element is on the d.flip side of i, not on its d side
  have hflip : ltD leq d.flip (E ++ [e]) E.length i = true := by rw [ltD_flip]; exact hA
  have hnot : ltD leq d (E ++ [e]) E.length i = false := by
    cases hh : ltD leq d (E ++ [e]) E.length i
    · rfl
    · exact (ltD_asymm hpo' d hA hh).elim
  obtain ⟨cur, hcur⟩ := Option.isSome_iff_exists.mp (h.closedPres d i (((hcl d).2 i).mpr hA))
  obtain ⟨_, hcurn, _, hcurE⟩ := h.closedOk d.flip i cur hcur
  have hcurE := hcurE hi hip
  obtain ⟨hb1, hb2⟩ := rel_new_of_side hpo' hA
  unfold addPatchSide
  apply sat_bind; apply sat_get
  apply sat_bind; apply sat_lookup hcur
  apply sat_bind; apply sat_modify
  apply sat_bind; apply sat_modify
  apply sat_bind; apply sat_modify
  apply sat_bind; apply sat_get
  apply sat_bind
  apply sat_lookup (v := dr d) (by simp only [direct_withLeq, direct_setClosed]; exact h.directNew d)
  -- facts shared by both outcomes
  have hclosedU : ∀ d' k, k ≠ i →
      alookup k (if d' = d.flip then ainsert i (setUnion cur [E.length]) (s.closed d.flip) else s.closed d')
        = alookup k (s.closed d') := by
    intro d' k hk
    split
    · rename_i hd; subst hd; rw [alookup_ainsert, if_neg hk]
    · rfl
  have hclosedI : ∀ d' v,
      alookup i (if d' = d.flip then ainsert i (setUnion cur [E.length]) (s.closed d.flip) else s.closed d')
        = some v → v.Nodup ∧ ∀ x, x ∈ v ↔ ltD leq d' (E ++ [e]) x i = true := by
    intro d' v hl
    split at hl
    · rename_i hd; subst hd
      rw [alookup_ainsert, if_pos rfl] at hl
      cases hl
      exact ⟨nodup_setUnion_new hcurn, closed_ext_new hpo' hi hcurE hflip⟩
    · rename_i hd
      have := Dir.eq_of_ne_flip hd; subst this
      exact unpatched_closed hpo' hcl hdr h hi hip hl hnot
  have hclosedP : ∀ d', (alookup i (s.closed d')).isSome = true →
      (alookup i (if d' = d.flip then ainsert i (setUnion cur [E.length]) (s.closed d.flip)
        else s.closed d')).isSome = true := by
    intro d' hp
    split
    · rw [alookup_ainsert, if_pos rfl]; rfl
    · exact hp
  have hleqU : ∀ a b r,
      alookup (a, b) (ainsert (E.length, i) (d == Dir.anc) (ainsert (i, E.length) (d == Dir.desc) s.leqC)) = some r →
      alookup (a, b) s.leqC = some r ∨ (a ≤ E.length ∧ b ≤ E.length ∧ r = rel leq (E ++ [e]) a b) := by
    intro a b r hl
    rw [alookup_ainsert] at hl
    split at hl
    · rename_i hab; cases hab; cases hl
      exact Or.inr ⟨Nat.le_refl _, Nat.le_of_lt hi, hb2⟩
    · rw [alookup_ainsert] at hl
      split at hl
      · rename_i hab; cases hab; cases hl
        exact Or.inr ⟨Nat.le_of_lt hi, Nat.le_refl _, hb1⟩
      · exact Or.inl hl
  by_cases hid : i ∈ dr d
  · rw [if_pos hid]
    obtain ⟨curDir, hcurDir⟩ := Option.isSome_iff_exists.mp (h.directPres d i hid)
    obtain ⟨_, hcdn, _, hcdE⟩ := h.directOk d.flip i curDir hcurDir
    have hcdE := hcdE hi hip
    apply sat_bind
    apply sat_lookup (v := curDir) (by simp only [direct_withLeq, direct_setClosed]; exact hcurDir)
    apply sat_bind
    apply sat_lookup (v := cl d.flip) (by
      simp only [closed_withLeq, closed_setClosed, alookup_ainsert, if_neg hni]
      exact h.closedNew d.flip)
    apply sat_modify
    refine ⟨by simp, by simp, ?_, ?_, ?_, ?_, ?_, ?_, ?_⟩
    · intro a b r hl
      simp only [leqC_setDirect, leqC_setClosed] at hl
      exact hleqU a b r hl
    · intro d' k hk
      simp only [closed_setDirect, closed_withLeq, closed_setClosed_any]
      exact hclosedU d' k hk
    · intro d' v hl
      simp only [closed_setDirect, closed_withLeq, closed_setClosed_any] at hl
      exact hclosedI d' v hl
    · intro d' hp
      simp only [closed_setDirect, closed_withLeq, closed_setClosed_any]
      exact hclosedP d' hp
    · intro d' k hk
      simp only [direct_setDirect_any, direct_withLeq, direct_setClosed]
      split
      · rename_i hd; subst hd; rw [alookup_ainsert, if_neg hk]
      · rfl
    · intro d' v hl
      simp only [direct_setDirect_any, direct_withLeq, direct_setClosed] at hl
      split at hl
      · rename_i hd; subst hd
        rw [alookup_ainsert, if_pos rfl] at hl
        cases hl
        refine ⟨nodup_patch hcdn (fun x hx => ?_), ?_⟩
        · exact (ltD_lt (isCover_iff.mp ((hcdE x).mp hx)).1).1
        · exact direct_ext_new hpo' hi hcdE (hcl d.flip).2 hflip
            (by rw [Dir.flip_flip]; exact ((hdr d).2 i).mp hid)
      · rename_i hd
        have := Dir.eq_of_ne_flip hd; subst this
        exact unpatched_direct hpo' hcl hdr h hi hip hl hnot
    · intro d' hp
      simp only [direct_setDirect_any, direct_withLeq, direct_setClosed]
      split
      · rw [alookup_ainsert, if_pos rfl]; rfl
      · exact hp
  · rw [if_neg hid]
    apply sat_pure
    have hnc : isCover leq d (E ++ [e]) i E.length = false := by
      cases hh : isCover leq d (E ++ [e]) i E.length
      · rfl
      · exact (hid (((hdr d).2 i).mpr hh)).elim
    refine ⟨by simp, by simp, ?_, ?_, ?_, ?_, ?_, ?_, ?_⟩
    · intro a b r hl
      simp only [leqC_setClosed] at hl
      exact hleqU a b r hl
    · intro d' k hk
      simp only [closed_withLeq, closed_setClosed_any]
      exact hclosedU d' k hk
    · intro d' v hl
      simp only [closed_withLeq, closed_setClosed_any] at hl
      exact hclosedI d' v hl
    · intro d' hp
      simp only [closed_withLeq, closed_setClosed_any]
      exact hclosedP d' hp
    · intro d' k _
      simp only [direct_withLeq, direct_setClosed]
    · intro d' v hl
      simp only [direct_withLeq, direct_setClosed] at hl
      by_cases hd : d' = d.flip
      · subst hd
        obtain ⟨_, hvn, _, hvE⟩ := h.directOk d.flip i v hl
        refine ⟨hvn, direct_ext_old hpo' hi (hvE hi hip) (fun x hx hc hh => ?_)
          (by rw [Dir.flip_flip]; exact hnc)⟩
        have := cover_not_beyond hpo' hA hnc (Or.inr hc) hx hi
        rw [this] at hh; cases hh.1
      · have := Dir.eq_of_ne_flip hd; subst this
        exact unpatched_direct hpo' hcl hdr h hi hip hl hnot
    · intro d' hp
      simp only [direct_withLeq, direct_setClosed]
      exact hp

/-- the body of `for el_i in range(el_i_new)` -/
theorem addPatch_spec {pre : List Nat} {s : St α} (h : PatchInv leq E e cl dr pre s) {i : Nat}
    (hi : i < E.length) (hip : i ∉ pre) :
    Sat (addPatch E.length i) s (fun s' _ => PatchInv leq E e cl dr (pre ++ [i]) s') := by
  unfold addPatch
  apply sat_bind; apply sat_get
  apply sat_bind
  apply sat_lookup (v := cl .desc) (h.closedNew .desc)
  by_cases h1 : i ∈ cl .desc
  · rw [if_pos h1]
    apply sat_mono (addPatchSide_spec hpo' hcl hdr h hi hip .desc (((hcl .desc).2 i).mp h1))
    intro s' _ u
    exact patchInv_update hi h u
  · rw [if_neg h1]
    apply sat_bind
    apply sat_lookup (v := cl .anc) (h.closedNew .anc)
    by_cases h2 : i ∈ cl .anc
    · rw [if_pos h2]
      apply sat_mono (addPatchSide_spec hpo' hcl hdr h hi hip .anc (((hcl .anc).2 i).mp h2))
      intro s' _ u
      exact patchInv_update hi h u
    · rw [if_neg h2]
      have hd : ltD leq .desc (E ++ [e]) i E.length = false := by
        cases hh : ltD leq .desc (E ++ [e]) i E.length
        · rfl
        · exact (h1 (((hcl .desc).2 i).mpr hh)).elim
      have ha : ltD leq .anc (E ++ [e]) i E.length = false := by
        cases hh : ltD leq .anc (E ++ [e]) i E.length
        · rfl
        · exact (h2 (((hcl .anc).2 i).mpr hh)).elim
      obtain ⟨hb1, hb2⟩ := rel_new_of_neither hpo' hi hd ha
      have hside : ∀ d, ltD leq d (E ++ [e]) E.length i = false := by
        intro d
        cases d
        · have := ltD_flip (leq := leq) .anc (E ++ [e]) E.length i
          simp only [Dir.flip] at this
          rw [this]; exact ha
        · have := ltD_flip (leq := leq) .desc (E ++ [e]) E.length i
          simp only [Dir.flip] at this
          rw [this]; exact hd
      apply sat_bind; apply sat_modify
      apply sat_modify
      apply patchInv_update hi h
      refine ⟨rfl, rfl, ?_, ?_, ?_, ?_, ?_, ?_, ?_⟩
      · intro a b r hl
        simp only at hl
        rw [alookup_ainsert] at hl
        split at hl
        · rename_i hab; cases hab; cases hl
          exact Or.inr ⟨Nat.le_refl _, Nat.le_of_lt hi, hb2⟩
        · rw [alookup_ainsert] at hl
          split at hl
          · rename_i hab; cases hab; cases hl
            exact Or.inr ⟨Nat.le_of_lt hi, Nat.le_refl _, hb1⟩
          · exact Or.inl hl
      · intro d k _; simp only [closed_withLeq]
      · intro d v hl
        simp only [closed_withLeq] at hl
        exact unpatched_closed hpo' hcl hdr h hi hip hl (hside d)
      · intro d hp; simp only [closed_withLeq]; exact hp
      · intro d k _; simp only [direct_withLeq]
      · intro d v hl
        simp only [direct_withLeq] at hl
        exact unpatched_direct hpo' hcl hdr h hi hip hl (hside d)
      · intro d hp; simp only [direct_withLeq]; exact hp

/-- the whole loop -/
theorem addPatchLoop_spec {s : St α} (h : PatchInv leq E e cl dr [] s) :
    Sat (M.forM (addPatch E.length) (List.range E.length)) s
      (fun s' _ => PatchInv leq E e cl dr (List.range E.length) s') := by
  apply sat_forM_split (fun pre s' => PatchInv leq E e cl dr pre s') _ _ ?_ s h
  intro pre i post s1 hsplit h1
  have hi : i < E.length := List.mem_range.mp (by rw [hsplit]; simp)
  have hip : i ∉ pre := by
    have hn : (List.range E.length).Nodup := List.nodup_range
    rw [hsplit] at hn
    intro hp
    exact (List.nodup_append.mp hn).2.2 i hp i List.mem_cons_self rfl
  exact addPatch_spec hpo' hcl hdr h1 hi hip

end
end Fca.Poset.Weak

/-
  Lemmas/PosetAlgebraIdx — the element lists of the four set operators and the index maps of `_combine_caches`
  (`dictIdx?`, `idxMap`): where they are defined, injectivity, surjectivity onto the combined elements that
  come from the operand, and transport of the order relations `rel`/`ltD` along them.
-/
import Fca.Model.PosetAlgebra
import Fca.Lemmas.PosetFresh
set_option linter.unusedSectionVars false
namespace Fca.Poset
open Fca Fca.Poset.Fresh

section
variable {α : Type} [DecidableEq α]

/-! ### `toSet` -/

theorem mem_toSet {x : Nat} {l : List Nat} : x ∈ toSet l ↔ x ∈ l := by
  induction l with
  | nil => simp [toSet]
  | cons a l ih =>
    simp only [toSet]
    split
    · rename_i h
      rw [ih, List.mem_cons]
      constructor
      · exact Or.inr
      · rintro (rfl | h')
        · exact ih.mp h
        · exact h'
    · simp [List.mem_cons, ih]

theorem nodup_toSet (l : List Nat) : (toSet l).Nodup := by
  induction l with
  | nil => simp [toSet]
  | cons a l ih =>
    simp only [toSet]
    split
    · exact ih
    · rename_i h
      exact List.nodup_cons.mpr ⟨h, ih⟩

/-! ### the element lists -/

/-- the set-theoretic meaning of the four operators on membership -/
def SetOp.sem (op : SetOp) (inA inB : Prop) : Prop :=
  match op with
  | .and => inA ∧ inB
  | .or => inA ∨ inB
  | .xor => (inA ∧ ¬inB) ∨ (inB ∧ ¬inA)
  | .sub => inA ∧ ¬inB

theorem mem_combineElems (op : SetOp) (A B : List α) (x : α) :
    x ∈ combineElems op A B ↔ op.sem (x ∈ A) (x ∈ B) := by
  cases op <;> simp only [combineElems, SetOp.sem, List.mem_filter, List.mem_append, decide_eq_true_eq]
  · constructor
    · rintro (h | ⟨h, _⟩)
      · exact Or.inl h
      · exact Or.inr h
    · rintro (h | h)
      · exact Or.inl h
      · by_cases hx : x ∈ A
        · exact Or.inl hx
        · exact Or.inr ⟨h, hx⟩

theorem nodup_combineElems (op : SetOp) {A B : List α} (hA : A.Nodup) (hB : B.Nodup) :
    (combineElems op A B).Nodup := by
  cases op <;> simp only [combineElems]
  · exact hA.filter _
  · rw [List.nodup_append]
    refine ⟨hA, hB.filter _, ?_⟩
    intro x hx y hy e
    subst e
    simp only [List.mem_filter, decide_eq_true_eq] at hy
    exact hy.2 hx
  · rw [List.nodup_append]
    refine ⟨hA.filter _, hB.filter _, ?_⟩
    intro x hx y hy e
    subst e
    simp only [List.mem_filter, decide_eq_true_eq] at hx hy
    exact hy.2 hx.1
  · exact hA.filter _

/-- every element of the result comes from an operand -/
theorem combineElems_sub (op : SetOp) (A B : List α) (x : α) (h : x ∈ combineElems op A B) : x ∈ A ∨ x ∈ B := by
  rw [mem_combineElems] at h
  cases op <;> simp only [SetOp.sem] at h
  · exact Or.inl h.1
  · exact h
  · rcases h with h | h
    · exact Or.inl h.1
    · exact Or.inr h.1
  · exact Or.inl h.1

/-- the order of the result: the first operand's members in its order, then the members that are only in the
    second operand, in its order -/
theorem combineElems_order (op : SetOp) (A B : List α) :
    combineElems op A B =
      A.filter (fun x => decide (x ∈ combineElems op A B)) ++
        (B.filter fun x => decide (x ∉ A)).filter (fun x => decide (x ∈ combineElems op A B)) := by
  have hfil : ∀ (l : List α) (p q : α → Bool), (∀ x ∈ l, p x = q x) → l.filter p = l.filter q :=
    fun l p q h => List.filter_congr h
  cases op
  · -- and: nothing from B
    have h1 : A.filter (fun x => decide (x ∈ combineElems .and A B)) = combineElems .and A B := by
      simp only [combineElems]
      apply hfil
      intro x hx
      simp [List.mem_filter, hx]
    have h2 : (B.filter fun x => decide (x ∉ A)).filter (fun x => decide (x ∈ combineElems .and A B)) = [] := by
      rw [List.filter_eq_nil_iff]
      intro x hx
      simp only [List.mem_filter, decide_eq_true_eq] at hx
      simp only [combineElems, List.mem_filter, decide_eq_true_eq, not_and]
      intro hxa; exact absurd hxa hx.2
    rw [h1, h2, List.append_nil]
  · have h1 : A.filter (fun x => decide (x ∈ combineElems .or A B)) = A := by
      rw [List.filter_eq_self]
      intro x hx
      simp [combineElems, hx]
    have h2 : (B.filter fun x => decide (x ∉ A)).filter (fun x => decide (x ∈ combineElems .or A B))
        = B.filter fun x => decide (x ∉ A) := by
      rw [List.filter_eq_self]
      intro x hx
      simp only [List.mem_filter, decide_eq_true_eq] at hx
      simp [combineElems, hx.1, hx.2]
    rw [h1, h2]
    rfl
  · have h1 : A.filter (fun x => decide (x ∈ combineElems .xor A B)) = A.filter fun x => decide (x ∉ B) := by
      apply hfil
      intro x hx
      simp [combineElems, hx]
    have h2 : (B.filter fun x => decide (x ∉ A)).filter (fun x => decide (x ∈ combineElems .xor A B))
        = B.filter fun x => decide (x ∉ A) := by
      rw [List.filter_eq_self]
      intro x hx
      simp only [List.mem_filter, decide_eq_true_eq] at hx
      simp [combineElems, hx.1, hx.2]
    rw [h1, h2]
    rfl
  · have h1 : A.filter (fun x => decide (x ∈ combineElems .sub A B)) = combineElems .sub A B := by
      simp only [combineElems]
      apply hfil
      intro x hx
      simp [List.mem_filter, hx]
    have h2 : (B.filter fun x => decide (x ∉ A)).filter (fun x => decide (x ∈ combineElems .sub A B)) = [] := by
      rw [List.filter_eq_nil_iff]
      intro x hx
      simp only [List.mem_filter, decide_eq_true_eq] at hx
      simp only [combineElems, List.mem_filter, decide_eq_true_eq, not_and]
      intro hxa; exact absurd hxa hx.2
    rw [h1, h2, List.append_nil]

/-! ### `dictIdx?` -/

theorem dictIdx?_some {e : α} {l : List α} {i : Nat} (h : dictIdx? e l = some i) : l[i]? = some e := by
  induction l generalizing i with
  | nil => simp [dictIdx?] at h
  | cons x xs ih =>
    simp only [dictIdx?] at h
    split at h
    · rename_i j hj
      cases h
      simpa using ih hj
    · split at h
      · rename_i he
        cases h
        simp [he]
      · cases h

theorem dictIdx?_lt {e : α} {l : List α} {i : Nat} (h : dictIdx? e l = some i) : i < l.length :=
  (List.getElem?_eq_some_iff.mp (dictIdx?_some h)).1

theorem dictIdx?_of_mem {e : α} {l : List α} (h : e ∈ l) : ∃ i, dictIdx? e l = some i := by
  induction l with
  | nil => cases h
  | cons x xs ih =>
    simp only [dictIdx?]
    cases hxs : dictIdx? e xs with
    | some j => exact ⟨j + 1, rfl⟩
    | none =>
      rcases List.mem_cons.mp h with rfl | h'
      · exact ⟨0, by simp⟩
      · obtain ⟨i, hi⟩ := ih h'
        rw [hxs] at hi; cases hi

theorem dictIdx?_mem {e : α} {l : List α} {i : Nat} (h : dictIdx? e l = some i) : e ∈ l :=
  List.mem_of_getElem? (dictIdx?_some h)

/-- in a duplicate-free list the dictionary gives back the position -/
theorem dictIdx?_getElem {l : List α} (hnd : l.Nodup) {i : Nat} (hi : i < l.length) : dictIdx? l[i] l = some i := by
  obtain ⟨j, hj⟩ := dictIdx?_of_mem (List.getElem_mem hi)
  have hjl := dictIdx?_lt hj
  have := dictIdx?_some hj
  rw [List.getElem?_eq_getElem hjl] at this
  have e : l[j] = l[i] := by simpa using this
  have := (List.getElem_inj hnd).mp e
  rw [hj, this]

theorem dictIdx?_of_getElem? {l : List α} (hnd : l.Nodup) {i : Nat} {e : α} (h : l[i]? = some e) :
    dictIdx? e l = some i := by
  obtain ⟨hi, rfl⟩ := List.getElem?_eq_some_iff.mp h
  exact dictIdx?_getElem hnd hi

/-! ### `idxMap` -/

theorem idxMap_some {E C : List α} {i x : Nat} (h : idxMap E C i = some x) :
    ∃ e, E[i]? = some e ∧ C[x]? = some e := by
  unfold idxMap at h
  split at h
  · cases h
  · rename_i el hel
    exact ⟨el, hel, dictIdx?_some h⟩

theorem idxMap_lt {E C : List α} {i x : Nat} (h : idxMap E C i = some x) : i < E.length ∧ x < C.length := by
  obtain ⟨e, h1, h2⟩ := idxMap_some h
  exact ⟨(List.getElem?_eq_some_iff.mp h1).1, (List.getElem?_eq_some_iff.mp h2).1⟩

theorem idxMap_inj {E C : List α} (hE : E.Nodup) {i j x : Nat} (hi : idxMap E C i = some x)
    (hj : idxMap E C j = some x) : i = j := by
  obtain ⟨e, h1, h2⟩ := idxMap_some hi
  obtain ⟨e', h1', h2'⟩ := idxMap_some hj
  rw [h2] at h2'; cases h2'
  obtain ⟨hil, rfl⟩ := List.getElem?_eq_some_iff.mp h1
  obtain ⟨hjl, hje⟩ := List.getElem?_eq_some_iff.mp h1'
  exact ((List.getElem_inj hE).mp hje).symm

/-- every combined position whose element belongs to the operand is the image of the operand's position -/
theorem idxMap_surj {E C : List α} (hC : C.Nodup) {x : Nat} {e : α} (hx : C[x]? = some e) (he : e ∈ E) :
    ∃ i, idxMap E C i = some x := by
  obtain ⟨i, hi, rfl⟩ := List.getElem_of_mem he
  refine ⟨i, ?_⟩
  unfold idxMap
  rw [List.getElem?_eq_getElem hi]
  exact dictIdx?_of_getElem? hC hx

/-- the image of the operand position of `e` is the combined position of `e` -/
theorem idxMap_of_elems {E C : List α} (hC : C.Nodup) {i x : Nat} {e : α} (hi : E[i]? = some e)
    (hx : C[x]? = some e) : idxMap E C i = some x := by
  unfold idxMap
  rw [hi]
  exact dictIdx?_of_getElem? hC hx

variable {leq : α → α → Bool}

theorem rel_idxMap {E C : List α} {i j x y : Nat} (hi : idxMap E C i = some x) (hj : idxMap E C j = some y) :
    rel leq C x y = rel leq E i j := by
  obtain ⟨e, h1, h2⟩ := idxMap_some hi
  obtain ⟨e', h1', h2'⟩ := idxMap_some hj
  unfold rel
  rw [h1, h2, h1', h2']

theorem relD_idxMap {E C : List α} (d : Dir) {i j x y : Nat} (hi : idxMap E C i = some x)
    (hj : idxMap E C j = some y) : relD leq d C x y = relD leq d E i j := by
  cases d <;> simp only [relD]
  · exact rel_idxMap hi hj
  · exact rel_idxMap hj hi

theorem ltD_idxMap {E C : List α} (hE : E.Nodup) (d : Dir) {i j x y : Nat} (hi : idxMap E C i = some x)
    (hj : idxMap E C j = some y) : ltD leq d C x y = ltD leq d E i j := by
  unfold ltD
  rw [relD_idxMap d hi hj]
  have hne : (x != y) = (i != j) := by
    by_cases e : i = j
    · subst e
      rw [hi] at hj; cases hj
      simp
    · have : x ≠ y := by
        intro e'; subst e'
        exact e (idxMap_inj hE hi hj)
      have h1 : (x != y) = true := by simpa using this
      have h2 : (i != j) = true := by simpa using e
      rw [h1, h2]
  rw [hne]

end
end Fca.Poset

/-
  Fca.Lemmas.LindigComplete — completeness of `lindig_algorithm` for every iteration order:
  * `direct_super_concepts` lists every upper cover of the concept it is given (Lindig's neighbour theorem,
    re-proved for an arbitrary visiting order of `reps`: a cover `N` is appended when the last element of
    `N \ E` is visited, because elements leave `reps` only when visited);
  * at termination every listed concept has been processed, the bottom concept is listed, and every
    closed set is reached from the bottom by a chain of covers.
-/
import Fca.Lemmas.Lindig
namespace Fca.LindigL
open Fca Fca.Spec

section
variable {t : Table} {intention extension : List Nat → List Nat}

def Sub (A B : List Nat) : Prop := ∀ g ∈ A, g ∈ B
/-- a closed set, as the ascending list the operators return -/
def ClosedL (t : Table) (A : List Nat) : Prop := closure t A = A

/-- `N` is an upper cover of the closed set `E` -/
def Cover (t : Table) (E N : List Nat) : Prop :=
  ClosedL t N ∧ Sub E N ∧ (∃ g ∈ N, g ∉ E) ∧
    ∀ F, ClosedL t F → Sub E F → Sub F N → (F = E ∨ F = N)

theorem closedL_lt {A : List Nat} (h : ClosedL t A) : ∀ g ∈ A, g < t.height := by
  intro g hg; rw [← h] at hg; exact extAll_lt t g hg

theorem closedL_of_concept {c : List Nat × List Nat} (h : isConcept t c.1 c.2 = true) : ClosedL t c.1 := by
  have := (isConcept_iff t).mp h
  unfold ClosedL closure; rw [this.2, this.1]

theorem closedL_eq_of_mem {A B : List Nat} (hA : ClosedL t A) (hB : ClosedL t B)
    (h : ∀ g, g ∈ A ↔ g ∈ B) : A = B := by
  rw [← hA, ← hB]
  unfold closure
  congr 1
  apply intAll_eq_of_mem_iff
  intro a _
  constructor
  · intro H g hg; exact H g ((h g).mpr hg)
  · intro H g hg; exact H g ((h g).mp hg)

theorem closure_closedL {X : List Nat} (hX : ∀ g ∈ X, g < t.height) : ClosedL t (closure t X) :=
  closure_idem t hX

theorem cover_gen {E N : List Nat} (hE : ClosedL t E) (hc : Cover t E N) {g : Nat} (hgN : g ∈ N)
    (hgE : g ∉ E) : closure t (E ++ [g]) = N := by
  obtain ⟨hN, hEN, _, hmin⟩ := hc
  have hr : ∀ x ∈ E ++ [g], x < t.height := by
    intro x hx
    rcases List.mem_append.mp hx with h | h
    · exact closedL_lt hE x h
    · simp at h; subst h; exact closedL_lt hN _ hgN
  have h1 : Sub E (closure t (E ++ [g])) := fun x hx =>
    subset_closure t hr x (List.mem_append_left _ hx)
  have h2 : Sub (closure t (E ++ [g])) N := by
    intro x hx
    have := closure_mono t (A := E ++ [g]) (A' := N) (by
      intro y hy
      rcases List.mem_append.mp hy with h | h
      · exact hEN y h
      · simp at h; subst h; exact hgN) x hx
    rwa [hN] at this
  rcases hmin _ (closure_closedL hr) h1 h2 with h | h
  · exfalso
    apply hgE
    rw [← h]
    exact subset_closure t hr g (List.mem_append_right _ (by simp))
  · exact h

/-! ### the neighbour loop -/

theorem dsupLoop_mono (extent : List Nat) : ∀ (gs reps : List Nat) (nb : List (List Nat × List Nat)),
    ∀ x ∈ nb, x ∈ dsupLoop intention extension extent gs reps nb := by
  intro gs
  induction gs with
  | nil => intro reps nb x hx; simpa [dsupLoop] using hx
  | cons g gs ih =>
    intro reps nb x hx
    unfold dsupLoop
    simp only
    split
    · exact ih _ _ x (List.mem_append_left _ hx)
    · exact ih _ _ x hx

theorem exists_other {l : List Nat} (hnd : l.Nodup) {g : Nat} (hg : g ∈ l) (hlen : l.length ≠ 1) :
    ∃ x ∈ l, x ≠ g := by
  match l, hnd, hg, hlen with
  | [a], _, _, hlen => simp at hlen
  | a :: b :: rest, hnd, _, _ =>
    have hab : a ≠ b := by
      intro e; subst e
      exact (List.nodup_cons.mp hnd).1 List.mem_cons_self
    by_cases ha : a = g
    · exact ⟨b, by simp, fun e => hab (ha.trans e.symm)⟩
    · exact ⟨a, by simp, ha⟩

theorem dsupLoop_cover (ops : Ops t intention extension) {E N : List Nat} (hE : ClosedL t E)
    (hc : Cover t E N) :
    ∀ (gs reps : List Nat) (nb : List (List Nat × List Nat)), (g :: gs).Nodup → reps.Nodup →
      (∀ x ∈ gs, x ∉ E ∧ x < t.height) →
      ((N, intAll t N) ∈ nb ∨ ((∀ x, (x ∈ reps ∧ x ∈ N) ↔ (x ∈ gs ∧ x ∈ N)) ∧ ∃ x ∈ gs, x ∈ N)) →
      (N, intAll t N) ∈ dsupLoop intention extension E gs reps nb := by
  intro gs
  induction gs generalizing g with
  | nil =>
    intro reps nb _ _ _ hJ
    rcases hJ with h | ⟨_, x, hx, _⟩
    · simpa [dsupLoop] using h
    · cases hx
  | cons g' gs ih =>
    intro reps nb hgnd hrnd hgs hJ
    have hgnd' : (g' :: gs).Nodup := (List.nodup_cons.mp hgnd).2
    have hgs' : ∀ x ∈ gs, x ∉ E ∧ x < t.height := fun x hx => hgs x (List.mem_cons_of_mem _ hx)
    have hg'E := (hgs g' List.mem_cons_self).1
    have hg'n := (hgs g' List.mem_cons_self).2
    have hg'gs : g' ∉ gs := (List.nodup_cons.mp hgnd').1
    have hrE : ∀ x ∈ E ++ [g'], x < t.height := by
      intro x hx
      rcases List.mem_append.mp hx with h | h
      · exact closedL_lt hE x h
      · simp at h; subst h; exact hg'n
    have hM : intention (E ++ [g']) = intAll t (E ++ [g']) := ops.hI _ hrE
    have hG : extension (intention (E ++ [g'])) = closure t (E ++ [g']) := by
      rw [hM, ops.hE _ (intAll_lt t)]; rfl
    unfold dsupLoop
    simp only
    rcases hJ with h | ⟨hset, hex⟩
    · split
      · exact ih (g := g') _ _ hgnd' hrnd hgs' (Or.inl (List.mem_append_left _ h))
      · exact ih (g := g') _ _ hgnd' (hrnd.erase _) hgs' (Or.inl h)
    · by_cases hgN : g' ∈ N
      · have hcl := cover_gen hE hc hgN hg'E
        rw [hG, hcl]
        split
        · apply dsupLoop_mono
          apply List.mem_append_right
          rw [hM, ← intAll_closure t hrE, hcl]
          simp
        · rename_i hcnt
          apply ih (g := g') _ _ hgnd' (hrnd.erase _) hgs'
          right
          have hgr : g' ∈ reps := ((hset g').mpr ⟨List.mem_cons_self, hgN⟩).1
          constructor
          · intro x
            rw [hrnd.mem_erase_iff]
            constructor
            · rintro ⟨⟨hne, hxr⟩, hxN⟩
              have := (hset x).mp ⟨hxr, hxN⟩
              rcases List.mem_cons.mp this.1 with e | h
              · exact absurd e hne
              · exact ⟨h, hxN⟩
            · rintro ⟨hxg, hxN⟩
              have := (hset x).mpr ⟨List.mem_cons_of_mem _ hxg, hxN⟩
              exact ⟨⟨fun e => hg'gs (e ▸ hxg), this.1⟩, hxN⟩
          · have hf : g' ∈ reps.filter fun r => N.contains r := by
              simp [List.mem_filter, hgr, hgN]
            have hlen : (reps.filter fun r => N.contains r).length ≠ 1 := by
              intro e; exact hcnt (by rw [e]; rfl)
            obtain ⟨x, hx, hxne⟩ := exists_other (hrnd.sublist List.filter_sublist) hf hlen
            simp only [List.mem_filter, List.contains_eq_mem, decide_eq_true_eq] at hx
            have := (hset x).mp hx
            rcases List.mem_cons.mp this.1 with e | h
            · exact absurd e hxne
            · exact ⟨x, h, hx.2⟩
      · -- `g'` is irrelevant for `N`
        have hset' : ∀ reps' : List Nat, (∀ x, x ∈ reps' ∧ x ∈ N ↔ x ∈ reps ∧ x ∈ N) →
            ((∀ x, (x ∈ reps' ∧ x ∈ N) ↔ (x ∈ gs ∧ x ∈ N)) ∧ ∃ x ∈ gs, x ∈ N) := by
          intro reps' hr'
          constructor
          · intro x
            rw [hr' x, hset x]
            constructor
            · rintro ⟨h1, h2⟩
              rcases List.mem_cons.mp h1 with e | h
              · exact absurd (e ▸ h2) hgN
              · exact ⟨h, h2⟩
            · rintro ⟨h1, h2⟩; exact ⟨List.mem_cons_of_mem _ h1, h2⟩
          · obtain ⟨x, hx, hxN⟩ := hex
            rcases List.mem_cons.mp hx with e | h
            · exact absurd (e ▸ hxN) hgN
            · exact ⟨x, h, hxN⟩
        split
        · exact ih (g := g') _ _ hgnd' hrnd hgs' (Or.inr (hset' reps (fun _ => Iff.rfl)))
        · apply ih (g := g') _ _ hgnd' (hrnd.erase _) hgs'
          right
          apply hset'
          intro x
          rw [hrnd.mem_erase_iff]
          constructor
          · rintro ⟨⟨_, h⟩, h2⟩; exact ⟨h, h2⟩
          · rintro ⟨h, h2⟩; exact ⟨⟨fun e => hgN (e ▸ h2), h⟩, h2⟩

/-- `direct_super_concepts` lists every upper cover -/
theorem dsups_cover (ops : Ops t intention extension) (ord : List Nat → List Nat)
    (hord : ∀ l, (ord l).Perm l) {E N : List Nat} (hE : ClosedL t E) (hc : Cover t E N) :
    (N, intAll t N) ∈ directSuperConcepts t.height intention extension ord E := by
  unfold directSuperConcepts
  simp only
  have hp := hord ((List.range t.height).filter fun g => !E.contains g)
  have hnd : ((List.range t.height).filter fun g => !E.contains g).Nodup :=
    List.nodup_range.sublist List.filter_sublist
  have hmem : ∀ x, x ∈ ord ((List.range t.height).filter fun g => !E.contains g) ↔ (x < t.height ∧ x ∉ E) := by
    intro x
    rw [hp.mem_iff]
    simp [List.mem_filter]
  apply dsupLoop_cover (g := t.height) ops hE hc
  · rw [List.nodup_cons]
    refine ⟨?_, hp.nodup_iff.mpr hnd⟩
    intro h; have := (hmem _).mp h; omega
  · exact hnd
  · intro x hx; have := (hmem x).mp hx; exact ⟨this.2, this.1⟩
  · right
    constructor
    · intro x; rw [hp.mem_iff]
    · have hN := hc.1
      obtain ⟨_, _, ⟨g, hgN, hgE⟩, _⟩ := hc
      exact ⟨g, (hmem g).mpr ⟨closedL_lt hN g hgN, hgE⟩, hgN⟩

/-! ### the main loop: every listed concept gets processed -/

def Covered (t : Table) (concepts : List (List Nat × List Nat)) (E : List Nat) : Prop :=
  ∀ N, Cover t E N → N ∈ concepts.map (·.1)

structure LInv2 (t : Table) (s : LindigSt) : Prop where
  proc : ∀ i, i < s.concepts.length → i ∈ s.queue ∨ Covered t s.concepts (s.concepts.getD i ([], [])).1
  bottom : extAll t (List.range t.width) ∈ s.concepts.map (·.1)

theorem addSups_grow (cId : Nat) : ∀ (xs : List (List Nat × List Nat)) (s : LindigSt), LInv t s →
    (∀ x ∈ xs, isConcept t x.1 x.2 = true) →
    (∃ extra, (lindigAddSups cId xs s).concepts = s.concepts ++ extra) ∧
    (∀ x ∈ xs, x.1 ∈ (lindigAddSups cId xs s).concepts.map (·.1)) ∧
    (∀ i ∈ s.queue, i ∈ (lindigAddSups cId xs s).queue) ∧
    (∀ i, s.concepts.length ≤ i → i < (lindigAddSups cId xs s).concepts.length →
      i ∈ (lindigAddSups cId xs s).queue) := by
  intro xs
  induction xs with
  | nil =>
    intro s _ _
    refine ⟨⟨[], by simp [lindigAddSups]⟩, fun _ h => (by cases h), fun i h => (by simpa [lindigAddSups] using h), ?_⟩
    intro i h1 h2; simp only [lindigAddSups] at h2; omega
  | cons x xs ih =>
    intro s hinv hxs
    have hxs' : ∀ y ∈ xs, isConcept t y.1 y.2 = true := fun y hy => hxs y (List.mem_cons_of_mem _ hy)
    have hstep := addSups_inv (t := t) cId [x] s hinv (fun y hy => by
      simp only [List.mem_singleton] at hy; subst hy; exact hxs _ List.mem_cons_self)
    unfold lindigAddSups at hstep ⊢
    simp only at hstep ⊢
    cases hidx : lindigIndex s.concepts x.1 with
    | some k =>
      rw [hidx] at hstep
      simp only [lindigAddSups] at hstep ⊢
      obtain ⟨⟨extra, he⟩, h2, h3, h4⟩ := ih _ hstep.1 hxs'
      refine ⟨⟨extra, he⟩, ?_, h3, h4⟩
      intro y hy
      rcases List.mem_cons.mp hy with rfl | hy
      · rw [he]
        simp only [List.map_append, List.mem_append]
        left
        unfold lindigIndex at hidx
        simp only at hidx
        split at hidx
        · rename_i hlt
          rw [List.findIdx_lt_length] at hlt
          obtain ⟨c, hc, hceq⟩ := hlt
          simp only [beq_iff_eq] at hceq
          rw [(key_sorted_concept (hinv.conc c hc)).1,
            (key_sorted_concept (hxs _ List.mem_cons_self)).1] at hceq
          exact List.mem_map.mpr ⟨c, hc, hceq⟩
        · cases hidx
      · exact h2 y hy
    | none =>
      rw [hidx] at hstep
      simp only [lindigAddSups] at hstep ⊢
      obtain ⟨⟨extra, he⟩, h2, h3, h4⟩ := ih _ hstep.1 hxs'
      simp only at he h3 h4
      refine ⟨⟨[x] ++ extra, by rw [he]; simp⟩, ?_, ?_, ?_⟩
      · intro y hy
        rcases List.mem_cons.mp hy with rfl | hy
        · rw [he]; simp
        · exact h2 y hy
      · intro i hi; exact h3 i (List.mem_append_left _ hi)
      · intro i h1 h5
        by_cases hi : i = s.concepts.length
        · subst hi; exact h3 _ (List.mem_append_right _ (by simp))
        · apply h4 i _ h5
          simp only [List.length_append, List.length_singleton]; omega

theorem getD_append_left' {α} (l e : List α) (d : α) {i : Nat} (h : i < l.length) :
    (l ++ e).getD i d = l.getD i d := by
  simp [List.getD_eq_getElem?_getD, List.getElem?_append_left h]

theorem covered_mono {concepts extra : List (List Nat × List Nat)} {E : List Nat}
    (h : Covered t concepts E) : Covered t (concepts ++ extra) E := by
  intro N hN
  rw [List.map_append]
  exact List.mem_append_left _ (h N hN)

/-- a successful run ends with an empty queue, every listed concept processed -/
theorem loop_complete (ops : Ops t intention extension) (ord : List Nat → List Nat)
    (hord : ∀ l, (ord l).Perm l) (pick : List Nat → Nat) :
    ∀ (f : Nat) (s s' : LindigSt), LInv t s → LInv2 t s →
      lindigLoop t.height intention extension ord pick f s = .ok s' →
      LInv2 t s' ∧ s'.queue = [] := by
  intro f
  induction f with
  | zero => intro s s' _ _ h; simp [lindigLoop] at h
  | succ f ih =>
    intro s s' h h2 hrun
    unfold lindigLoop at hrun
    split at hrun
    · rename_i hq
      injection hrun with hrun
      subst hrun
      exact ⟨h2, hq⟩
    · rename_i q0 qs hq
      simp only at hrun
      generalize hcid : (if s.queue.contains (pick s.queue) = true then pick s.queue else q0) = cId at hrun
      have hcq : cId ∈ s.queue := by
        rw [← hcid]
        split
        · rename_i hc; simpa using hc
        · rw [hq]; exact List.mem_cons_self
      have hinv1 : ∀ pd, LInv t { s with queue := s.queue.erase cId, parentsDict := pd } := fun _ =>
        ⟨h.conc, h.nodup, fun i hi => h.qlt i (List.mem_of_mem_erase hi), h.qnd.erase _⟩
      have hlt := h.qlt cId hcq
      have hc : isConcept t (s.concepts.getD cId ([], [])).1 (s.concepts.getD cId ([], [])).2 = true := by
        apply h.conc
        rw [List.getD_eq_getElem?_getD, List.getElem?_eq_getElem hlt]
        exact List.getElem_mem hlt
      have hE := closedL_of_concept hc
      have hext : ∀ g ∈ (s.concepts.getD cId ([], [])).1, g < t.height := closedL_lt hE
      have hcov := fun N hN => dsups_cover ops ord hord hE (N := N) hN
      split at hrun
      · rename_i hemp
        apply ih _ s' (hinv1 _) ?_ hrun
        refine ⟨?_, h2.bottom⟩
        intro i hi
        simp only at hi ⊢
        by_cases hic : i = cId
        · right
          subst hic
          intro N hN
          have := hcov N hN
          rw [List.isEmpty_iff] at hemp
          rw [hemp] at this
          cases this
        · rcases h2.proc i hi with hq' | hq'
          · left; exact (List.mem_erase_of_ne hic).mpr hq'
          · right; exact hq'
      · have hds := dsups_sound ops ord hord _ hext
        obtain ⟨⟨extra, he⟩, hx2, hx3, hx4⟩ := addSups_grow cId _ _ (hinv1 s.parentsDict) hds
        obtain ⟨h1', _⟩ := addSups_inv (t := t) cId _ _ (hinv1 s.parentsDict) hds
        apply ih _ s' h1' ?_ hrun
        simp only at he hx3 hx4
        refine ⟨?_, ?_⟩
        · intro i hi
          rw [he] at hi ⊢
          by_cases hio : i < s.concepts.length
          · rw [getD_append_left' _ _ _ hio]
            by_cases hic : i = cId
            · right
              subst hic
              intro N hN
              rw [← he]
              exact hx2 _ (hcov N hN)
            · rcases h2.proc i hio with hq' | hq'
              · left; exact hx3 i ((List.mem_erase_of_ne hic).mpr hq')
              · right; exact covered_mono hq'
          · left
            apply hx4 i (by omega)
            rw [he]; exact hi
        · rw [he, List.map_append]
          exact List.mem_append_left _ h2.bottom

/-! ### every closed set is reached from the bottom by covers -/

theorem closedL_nodup {A : List Nat} (h : ClosedL t A) : A.Nodup := by
  rw [← h]; exact extAll_nodup t _

theorem strict_sub_length {A B : List Nat} (hA : A.Nodup) (h : Sub A B) {x : Nat} (hx : x ∈ B)
    (hxA : x ∉ A) : A.length < B.length := by
  have hnd : (x :: A).Nodup := List.nodup_cons.mpr ⟨hxA, hA⟩
  have hsub : (x :: A) ⊆ B := by
    intro y hy
    rcases List.mem_cons.mp hy with rfl | hy
    · exact hx
    · exact h y hy
  have := List.Nodup.length_le_of_subset hnd hsub
  simp only [List.length_cons] at this
  omega

theorem exists_extra {E F : List Nat} (hE : ClosedL t E) (hF : ClosedL t F) (hs : Sub E F) (hne : F ≠ E) :
    ∃ x ∈ F, x ∉ E := by
  apply Classical.byContradiction
  intro hno
  apply hne
  apply closedL_eq_of_mem hF hE
  intro g
  constructor
  · intro hg
    apply Classical.byContradiction
    intro hgE
    exact hno ⟨g, hg, hgE⟩
  · exact hs g

theorem exists_cover {E : List Nat} (hE : ClosedL t E) : ∀ (k : Nat) (F : List Nat), ClosedL t F → Sub E F →
    F ≠ E → F.length ≤ E.length + k → ∃ N, Cover t E N ∧ Sub N F := by
  intro k
  induction k with
  | zero =>
    intro F hF hs hne hlen
    obtain ⟨x, hx, hxE⟩ := exists_extra hE hF hs hne
    have := strict_sub_length (closedL_nodup hE) hs hx hxE
    omega
  | succ k ih =>
    intro F hF hs hne hlen
    by_cases hcov : ∀ F', ClosedL t F' → Sub E F' → Sub F' F → (F' = E ∨ F' = F)
    · exact ⟨F, ⟨hF, hs, exists_extra hE hF hs hne, hcov⟩, fun _ h => h⟩
    · have : ∃ F', ClosedL t F' ∧ Sub E F' ∧ Sub F' F ∧ F' ≠ E ∧ F' ≠ F := by
        apply Classical.byContradiction
        intro hno
        apply hcov
        intro F' h1 h2 h3
        apply Classical.byContradiction
        intro h4
        exact hno ⟨F', h1, h2, h3, fun e => h4 (Or.inl e), fun e => h4 (Or.inr e)⟩
      obtain ⟨F', h1, h2, h3, h4, h5⟩ := this
      obtain ⟨x, hx, hxF⟩ := exists_extra h1 hF h3 (fun e => h5 e.symm)
      have hl := strict_sub_length (closedL_nodup h1) h3 hx hxF
      obtain ⟨N, hN, hNF⟩ := ih F' h1 h2 h4 (by omega)
      exact ⟨N, hN, fun g hg => h3 g (hNF g hg)⟩

theorem chain {C : List (List Nat)} (hC : ∀ E ∈ C, ClosedL t E ∧ ∀ N, Cover t E N → N ∈ C) :
    ∀ (k : Nat) (A : List Nat), ClosedL t A → (∃ E ∈ C, Sub E A ∧ A.length ≤ E.length + k) → A ∈ C := by
  intro k
  induction k with
  | zero =>
    intro A hA ⟨E, hEC, hs, hlen⟩
    by_cases hne : A = E
    · rw [hne]; exact hEC
    · obtain ⟨x, hx, hxE⟩ := exists_extra (hC E hEC).1 hA hs hne
      have := strict_sub_length (closedL_nodup (hC E hEC).1) hs hx hxE
      omega
  | succ k ih =>
    intro A hA ⟨E, hEC, hs, hlen⟩
    by_cases hne : A = E
    · rw [hne]; exact hEC
    · obtain ⟨N, hN, hNA⟩ := exists_cover (hC E hEC).1 A.length A hA hs hne (by omega)
      have hNC := (hC E hEC).2 N hN
      obtain ⟨_, hEN, ⟨x, hx, hxE⟩, _⟩ := hN
      have := strict_sub_length (closedL_nodup (hC E hEC).1) hEN hx hxE
      exact ih A hA ⟨N, hNC, hNA, by omega⟩

theorem bottom_sub {A : List Nat} (hA : ClosedL t A) : Sub (extAll t (List.range t.width)) A := by
  intro g hg
  rw [← hA]
  unfold closure
  rw [mem_extAll] at hg ⊢
  exact ⟨hg.1, fun a ha => hg.2 a (List.mem_range.mpr (intAll_lt t a ha))⟩

/-- at termination every closed set is listed -/
theorem all_listed {s : LindigSt} (h : LInv t s) (h2 : LInv2 t s) (hq : s.queue = [])
    {A : List Nat} (hA : ClosedL t A) : A ∈ s.concepts.map (·.1) := by
  apply chain (C := s.concepts.map (·.1)) ?_ A.length A hA
  · exact ⟨_, h2.bottom, bottom_sub hA, by omega⟩
  · intro E hE
    obtain ⟨c, hc, rfl⟩ := List.mem_map.mp hE
    refine ⟨closedL_of_concept (h.conc c hc), ?_⟩
    obtain ⟨i, hi, hget⟩ := List.getElem_of_mem hc
    have hp := h2.proc i hi
    rw [hq] at hp
    rcases hp with hp | hp
    · cases hp
    · rw [List.getD_eq_getElem?_getD, List.getElem?_eq_getElem hi] at hp
      simp only [Option.getD_some, hget] at hp
      exact hp

theorem init_inv2 (ops : Ops t intention extension) :
    LInv2 t ⟨[(extension (List.range t.width), List.range t.width)], [0], [(0, [])], []⟩ := by
  refine ⟨?_, ?_⟩
  · intro i hi
    simp only [List.length_singleton] at hi
    left; simp; omega
  · rw [ops.hE _ (fun a ha => List.mem_range.mp ha)]; simp

end

/-- `lindig_algorithm` lists every formal concept (every direction, every iteration order) -/
theorem lindig_complete (K : Ctx) (hwf : K.table.WF) (iter : Option Bool)
    (ord : List Nat → List Nat) (hord : ∀ l, (ord l).Perm l) (pick : List Nat → Nat)
    (fuel : Nat) (hf : lindigAlgorithmFuel K iter ≤ fuel) (r : LindigOut)
    (hr : lindigAlgorithm K iter ord pick fuel = .ok r) :
    ∀ A B, (A, B) ∈ allConcepts K.table → (A, B) ∈ r.concepts.map conceptKey := by
  unfold lindigAlgorithm at hr
  unfold lindigAlgorithmFuel at hf
  simp only at hr
  intro A B hAB
  rw [mem_allConcepts] at hAB
  cases hit : iter.getD (decide (K.nObjects < K.nAttributes))
  · simp only [hit, Bool.false_eq_true, ↓reduceIte] at hr hf
    have ops := ops_swapped K hwf
    have hh : (transpose K.table).height = K.nAttributes := transpose_height K.table
    have hw : (transpose K.table).width = K.nObjects := rfl
    have hinit := init_inv ops
    have hinit2 := init_inv2 ops
    rw [hw] at hinit hinit2
    obtain ⟨s', hs', hinv⟩ := loop_ok ops ord hord pick fuel _ hinit (by
      simp only [List.length_singleton, hh]; unfold lindigFuel at hf; omega)
    obtain ⟨_, hq⟩ := loop_complete ops ord hord pick fuel _ s' hinit hinit2 hs'
    have h2' := (loop_complete ops ord hord pick fuel _ s' hinit hinit2 hs').1
    rw [hh] at hs'
    rw [hs'] at hr
    injection hr with hr
    subst hr
    have hT : isConcept (transpose K.table) B A = true := by
      rw [isConcept_transpose K.table hwf]; exact hAB
    have hB : ClosedL (transpose K.table) B := closedL_of_concept (c := (B, A)) hT
    obtain ⟨c, hc, hcB⟩ := List.mem_map.mp (all_listed hinv h2' hq hB)
    have hcc := hinv.conc c hc
    have hc2 : c.2 = A := by
      rw [← ((isConcept_iff _).mp hcc).2, ← ((isConcept_iff _).mp hT).2]
      rw [hcB]
    obtain ⟨k1, k2⟩ := key_sorted_concept hcc
    simp only [List.map_map, List.mem_map, Function.comp]
    refine ⟨c, hc, ?_⟩
    simp only [conceptKey, k1, k2, Prod.mk.injEq]
    exact ⟨hc2, hcB⟩
  · simp only [hit, ↓reduceIte] at hr hf
    have ops := ops_direct K hwf
    have hinit := init_inv ops
    have hinit2 := init_inv2 ops
    obtain ⟨s', hs', hinv⟩ := loop_ok ops ord hord pick fuel _ hinit (by
      simp only [List.length_singleton]; unfold lindigFuel at hf
      show 1 + 2 ^ K.nObjects < fuel + 1
      omega)
    obtain ⟨h2', hq⟩ := loop_complete ops ord hord pick fuel _ s' hinit hinit2 hs'
    have hs'' : lindigLoop K.nObjects (fun A => K.intentionI A none) (fun B => K.extensionI B none) ord pick fuel
        ⟨[(K.extensionI (List.range K.nAttributes) none, List.range K.nAttributes)], [0], [(0, [])], []⟩ = .ok s' := hs'
    rw [hs''] at hr
    injection hr with hr
    subst hr
    have hA : ClosedL K.table A := closedL_of_concept (c := (A, B)) hAB
    obtain ⟨c, hc, hcA⟩ := List.mem_map.mp (all_listed hinv h2' hq hA)
    have hcc := hinv.conc c hc
    have hc2 : c.2 = B := by
      rw [← ((isConcept_iff _).mp hcc).2, ← ((isConcept_iff _).mp hAB).2]
      rw [hcA]
    obtain ⟨k1, k2⟩ := key_sorted_concept hcc
    simp only [List.mem_map]
    refine ⟨_, ⟨c, hc, rfl⟩, ?_⟩
    simp only [conceptKey, k1, k2, Prod.mk.injEq]
    exact ⟨hcA, hc2⟩

end Fca.LindigL

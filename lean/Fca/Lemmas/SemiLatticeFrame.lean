/-
  Lemmas/SemiLatticeFrame — frame facts about the `POSet` model that hold for EVERY state (no cache invariant
  needed): the query accessors, the trace / patch loops of `add` and `reconnect_relatives` never touch the element
  list or the cache flag; on an uncached instance the queries do not change the state at all; `__delitem__` erases
  exactly the addressed position.  C11's guard logic and `InvTop` rest on these only, not on the correctness of the
  caches.
-/
import Fca.Lemmas.PosetStep
set_option linter.unusedSectionVars false
set_option linter.unusedVariables false
namespace Fca.Poset
open Fca

section
variable {α : Type} [DecidableEq α] {leq : α → α → Bool} {ord : List Nat → List Nat}

/-- `m` never changes the element list or the cache flag (whether it returns or raises) -/
structure Frame {β : Type} (m : M α β) : Prop where
  h : ∀ s, (m s).1.elems = s.elems ∧ (m s).1.useCache = s.useCache

theorem frame_pure {β : Type} (b : β) : Frame (pure b : M α β) := ⟨fun _ => ⟨rfl, rfl⟩⟩
theorem frame_throw {β : Type} (e : PyErr) : Frame (M.throw e : M α β) := ⟨fun _ => ⟨rfl, rfl⟩⟩
theorem frame_get : Frame (M.get : M α (St α)) := ⟨fun _ => ⟨rfl, rfl⟩⟩
theorem frame_ofExcept {β : Type} (x : Except PyErr β) : Frame (M.ofExcept x : M α β) := by
  cases x <;> exact ⟨fun _ => ⟨rfl, rfl⟩⟩
theorem frame_modify {f : St α → St α} (hf : ∀ s, (f s).elems = s.elems ∧ (f s).useCache = s.useCache) :
    Frame (M.modify f : M α Unit) := ⟨fun s => hf s⟩

theorem frame_bind {β γ : Type} {m : M α β} {f : β → M α γ} (hm : Frame m) (hf : ∀ b, Frame (f b)) :
    Frame (m >>= f) := by
  constructor
  intro s
  show (M.bind m f s).1.elems = _ ∧ (M.bind m f s).1.useCache = _
  unfold M.bind
  have h1 := hm.h s
  cases hr : m s with
  | mk s' r =>
    rw [hr] at h1
    cases r with
    | error e => exact h1
    | ok b =>
      have h2 := (hf b).h s'
      exact ⟨h2.1.trans h1.1, h2.2.trans h1.2⟩

theorem frame_filterM {p : Nat → M α Bool} (hp : ∀ i, Frame (p i)) (l : List Nat) : Frame (M.filterM p l) := by
  induction l with
  | nil => exact frame_pure _
  | cons i is ih =>
    unfold M.filterM
    exact frame_bind (hp i) fun b => frame_bind ih fun r => frame_pure _

theorem frame_foldM {β : Type} {f : β → Nat → M α β} (hf : ∀ a x, Frame (f a x)) (acc : β) (l : List Nat) :
    Frame (M.foldM f acc l) := by
  induction l generalizing acc with
  | nil => exact frame_pure _
  | cons x xs ih =>
    unfold M.foldM
    exact frame_bind (hf acc x) fun a => ih a

theorem frame_forM {f : Nat → M α Unit} (hf : ∀ x, Frame (f x)) (l : List Nat) : Frame (M.forM f l) := by
  induction l with
  | nil => exact frame_pure _
  | cons x xs ih =>
    unfold M.forM
    exact frame_bind (hf x) fun _ => ih

/-! ### the accessors -/

theorem frame_leqE (a b : Nat) : Frame (leqE leq a b) := by
  constructor
  intro s
  unfold leqE
  split
  · split
    · exact ⟨rfl, rfl⟩
    · split
      · exact ⟨rfl, rfl⟩
      · split
        · exact ⟨rfl, rfl⟩
        · split <;> exact ⟨rfl, rfl⟩
  · exact ⟨rfl, rfl⟩

theorem frame_leqDir (d : Dir) (i e : Nat) : Frame (leqDir leq d i e) := by
  cases d <;> exact frame_leqE _ _

theorem frame_closedNocache (d : Dir) (e : Nat) : Frame (closedNocache leq d e) := by
  unfold closedNocache
  exact frame_bind frame_get fun s => frame_filterM (fun i => frame_bind (frame_leqDir d i e) fun r => frame_pure _) _

theorem frame_setClosed (d : Dir) (g : St α → Cache) :
    Frame (M.modify fun s => s.setClosed d (g s) : M α Unit) :=
  frame_modify fun s => ⟨elems_setClosed _ _ _, flag_setClosed _ _ _⟩

theorem frame_setDirect (d : Dir) (g : St α → Cache) :
    Frame (M.modify fun s => s.setDirect d (g s) : M α Unit) :=
  frame_modify fun s => ⟨elems_setDirect _ _ _, flag_setDirect _ _ _⟩

theorem frame_closedE (d : Dir) (e : Nat) : Frame (closedE leq d e) := by
  unfold closedE
  refine frame_bind frame_get fun s => ?_
  split
  · split
    · exact frame_pure _
    · exact frame_bind (frame_closedNocache d e) fun r =>
        frame_bind (frame_setClosed d _) fun _ => frame_pure _
  · exact frame_closedNocache d e

theorem frame_directNocache (d : Dir) (e : Nat) : Frame (directNocache leq ord d e) := by
  unfold directNocache
  refine frame_bind (frame_closedE d e) fun xs => frame_foldM (fun acc x => ?_) _ _
  split
  · exact frame_bind (frame_closedE d x) fun a => frame_pure _
  · exact frame_pure _

theorem frame_directE (d : Dir) (e : Nat) : Frame (directE leq ord d e) := by
  unfold directE
  refine frame_bind frame_get fun s => ?_
  split
  · split
    · exact frame_pure _
    · exact frame_bind (frame_directNocache d e) fun r =>
        frame_bind (frame_setDirect d _) fun _ => frame_pure _
  · exact frame_directNocache d e

theorem frame_extremesE (d : Dir) : Frame (extremesE leq d) := by
  unfold extremesE
  exact frame_bind frame_get fun s => frame_filterM (fun i => frame_bind (frame_closedE d i) fun a => frame_pure _) _

theorem frame_boundE (d : Dir) (S : List Nat) : Frame (boundE leq ord d S) := by
  unfold boundE
  refine frame_bind frame_get fun s => ?_
  dsimp only
  split
  · exact frame_throw _
  · exact frame_bind (frame_closedE (leq := leq) d _) fun a0 =>
      frame_bind (frame_foldM (fun acc y => frame_bind (frame_closedE d y) fun a => frame_pure _) _ _) fun j1 =>
      frame_bind (frame_foldM (fun acc y => frame_bind (frame_closedE d y) fun a => frame_pure _) _ _) fun j2 =>
      frame_pure _

theorem frame_indexE (e : α) : Frame (indexE e : M α Nat) := by
  unfold indexE
  refine frame_bind frame_get fun s => ?_
  split
  · exact frame_pure _
  · exact frame_throw _

theorem frame_eqLoop (O : List α) (l : List Nat) : Frame (eqLoop leq O l) := by
  induction l with
  | nil => exact frame_pure _
  | cons i is ih =>
    unfold eqLoop
    refine frame_bind frame_get fun s => frame_bind (frame_closedE .desc i) fun mine => ?_
    split
    · exact frame_throw _
    · split
      · exact frame_throw _
      · split
        · exact ih
        · exact frame_pure _

theorem frame_eqE (O : List α) : Frame (eqE leq O) := by
  unfold eqE
  refine frame_bind frame_get fun s => ?_
  split
  · exact frame_eqLoop O _
  · exact frame_pure _

theorem frame_fillLeq : Frame (fillLeq leq : M α Unit) := by
  unfold fillLeq
  refine frame_bind frame_get fun s => frame_forM (fun i => frame_forM (fun j => ?_) _) _
  refine frame_bind frame_get fun s => ?_
  split
  · exact frame_pure _
  · exact frame_bind (frame_leqE i j) fun _ => frame_pure _

theorem frame_fillClosed (d : Dir) : Frame (fillClosed leq d : M α Unit) := by
  unfold fillClosed
  exact frame_bind frame_get fun s => frame_forM (fun i => frame_bind (frame_closedE d i) fun _ => frame_pure _) _

theorem frame_fillDirect (d : Dir) : Frame (fillDirect leq ord d : M α Unit) := by
  unfold fillDirect
  exact frame_bind frame_get fun s => frame_forM (fun i => frame_bind (frame_directE d i) fun _ => frame_pure _) _

theorem frame_fillE (k : FillKind) : Frame (fillE leq ord k : M α Unit) := by
  unfold fillE
  refine frame_bind frame_get fun s => ?_
  split
  · cases k
    · exact frame_fillLeq
    · exact frame_fillClosed _
    · exact frame_fillClosed _
    · exact frame_fillDirect _
    · exact frame_fillDirect _
    · exact frame_bind frame_fillLeq fun _ => frame_bind (frame_fillClosed _) fun _ =>
        frame_bind (frame_fillClosed _) fun _ => frame_bind (frame_fillDirect _) fun _ => frame_fillDirect _
  · exact frame_throw _

/-! ### the loops of `add` -/

theorem frame_lookupOrKeyError (k : Nat) (c : Cache) : Frame (lookupOrKeyError k c : M α (List Nat)) := by
  unfold lookupOrKeyError
  split
  · exact frame_pure _
  · exact frame_throw _

theorem frame_traceLoop (d : Dir) (e : α) (fuel : Nat) (tv tr fi : List Nat) :
    Frame (traceLoop leq ord d e fuel tv tr fi) := by
  induction fuel generalizing tv tr fi with
  | zero => unfold traceLoop; exact frame_throw _
  | succ n ih =>
    unfold traceLoop
    split
    · exact frame_pure _
    · refine frame_bind (frame_directE _ _) fun nx => frame_bind frame_get fun s =>
        frame_bind (frame_ofExcept _) fun nxt => ?_
      split
      · exact ih _ _ _
      · exact ih _ _ _

theorem frame_leqC_insert (k : Nat × Nat) (b : Bool) :
    Frame (M.modify fun s => { s with leqC := ainsert k b s.leqC } : M α Unit) :=
  frame_modify fun s => ⟨rfl, rfl⟩

theorem frame_addPatchSide (d : Dir) (n i : Nat) : Frame (addPatchSide d n i : M α Unit) := by
  unfold addPatchSide
  refine frame_bind frame_get fun s => frame_bind (frame_lookupOrKeyError _ _) fun cur =>
    frame_bind (frame_setClosed _ _) fun _ => frame_bind (frame_leqC_insert _ _) fun _ =>
    frame_bind (frame_leqC_insert _ _) fun _ => frame_bind frame_get fun s =>
    frame_bind (frame_lookupOrKeyError _ _) fun dirNew => ?_
  split
  · exact frame_bind (frame_lookupOrKeyError _ _) fun curDir => frame_bind (frame_lookupOrKeyError _ _) fun cloNew =>
      frame_setDirect _ _
  · exact frame_pure _

theorem frame_addPatch (n i : Nat) : Frame (addPatch n i : M α Unit) := by
  unfold addPatch
  refine frame_bind frame_get fun s => frame_bind (frame_lookupOrKeyError _ _) fun dn => ?_
  split
  · exact frame_addPatchSide _ _ _
  · refine frame_bind (frame_lookupOrKeyError _ _) fun an => ?_
    split
    · exact frame_addPatchSide _ _ _
    · exact frame_bind (frame_leqC_insert _ _) fun _ => frame_leqC_insert _ _

/-! ### `reconnect_relatives`, `__delitem__` -/

theorem frame_reconnectDirect (d : Dir) (item : Nat) (own : Option (List Nat)) :
    Frame (reconnectDirect ord d item own : M α Unit) := by
  unfold reconnectDirect
  refine frame_bind frame_get fun s => frame_forM (fun p => ?_) _
  refine frame_bind frame_get fun s => frame_bind (frame_lookupOrKeyError _ _) fun cur => ?_
  split
  · exact frame_setDirect _ _
  · dsimp only
    split
    · refine frame_bind (frame_foldM (fun acc c => ?_) _ _) fun nc' => frame_setDirect _ _
      exact frame_bind frame_get fun s => frame_bind (frame_lookupOrKeyError _ _) fun dc => frame_pure _
    · exact frame_setDirect _ _

theorem frame_reconnectClosed (d : Dir) (item : Nat) (own : Option (List Nat)) :
    Frame (reconnectClosed ord d item own : M α Unit) := by
  unfold reconnectClosed
  refine frame_forM (fun a => frame_bind frame_get fun s => ?_) _
  split
  · exact frame_pure _
  · exact frame_setClosed _ _

theorem frame_reconnectRelatives (item : Nat) : Frame (reconnectRelatives ord item : M α Unit) := by
  unfold reconnectRelatives
  refine frame_bind frame_get fun s => ?_
  refine frame_bind (frame_modify fun s => ⟨rfl, rfl⟩) fun _ => ?_
  refine frame_bind (frame_modify fun s => ⟨rfl, rfl⟩) fun _ => ?_
  refine frame_bind (frame_modify fun s => ⟨rfl, rfl⟩) fun _ => ?_
  refine frame_bind (frame_modify fun s => ⟨rfl, rfl⟩) fun _ => ?_
  exact frame_bind (frame_reconnectDirect _ _ _) fun _ => frame_bind (frame_reconnectDirect _ _ _) fun _ =>
    frame_bind (frame_reconnectClosed _ _ _) fun _ => frame_reconnectClosed _ _ _

/-- `del self[k]` with `k` in range: whatever happens afterwards, exactly position `k` is erased -/
theorem delE_elems {k : Nat} {s : St α} (hk : k < s.elems.length) :
    (delE ord k s).1.elems = s.elems.eraseIdx k ∧ (delE ord k s).1.useCache = s.useCache := by
  have hrest : Frame (if s.useCache = true then (do
      reconnectRelatives ord k
      M.modify fun s => { s with
        leqC := decrementLeq s.leqC k, descC := decrementCache s.descC k, ancC := decrementCache s.ancC k,
        chilC := decrementCache s.chilC k, parC := decrementCache s.parC k }) else pure () : M α Unit) := by
    split
    · exact frame_bind (frame_reconnectRelatives _) fun _ => frame_modify fun s => ⟨rfl, rfl⟩
    · exact frame_pure _
  have h := hrest.h { s with elems := s.elems.eraseIdx k }
  have hd : delE ord k s = (if s.useCache = true then (do
      reconnectRelatives ord k
      M.modify fun s => { s with
        leqC := decrementLeq s.leqC k, descC := decrementCache s.descC k, ancC := decrementCache s.ancC k,
        chilC := decrementCache s.chilC k, parC := decrementCache s.parC k }) else pure () : M α Unit)
        { s with elems := s.elems.eraseIdx k } := by
    simp only [delE, bind, M.bind, M.get, M.modify, hk, ↓reduceIte]
  rw [hd]
  exact h

/-! ### on an uncached instance the queries do not write at all -/

/-- with `use_cache=False`, `m` leaves the whole state as it is -/
structure NoWrite {β : Type} (m : M α β) : Prop where
  h : ∀ s, s.useCache = false → (m s).1 = s

theorem noWrite_pure {β : Type} (b : β) : NoWrite (pure b : M α β) := ⟨fun _ _ => rfl⟩
theorem noWrite_get : NoWrite (M.get : M α (St α)) := ⟨fun _ _ => rfl⟩

theorem noWrite_bind {β γ : Type} {m : M α β} {f : β → M α γ} (hm : NoWrite m) (hf : ∀ b, NoWrite (f b)) :
    NoWrite (m >>= f) := by
  constructor
  intro s hs
  show (M.bind m f s).1 = _
  unfold M.bind
  have h1 := hm.h s hs
  cases hr : m s with
  | mk s' r =>
    rw [hr] at h1
    simp only at h1
    subst h1
    cases r with
    | error e => rfl
    | ok b => exact (hf b).h _ hs

theorem noWrite_filterM {p : Nat → M α Bool} (hp : ∀ i, NoWrite (p i)) (l : List Nat) :
    NoWrite (M.filterM p l) := by
  induction l with
  | nil => exact noWrite_pure _
  | cons i is ih =>
    unfold M.filterM
    exact noWrite_bind (hp i) fun b => noWrite_bind ih fun r => noWrite_pure _

theorem noWrite_leqE (a b : Nat) : NoWrite (leqE leq a b) := by
  constructor
  intro s hs
  unfold leqE
  simp [hs]

theorem noWrite_leqDir (d : Dir) (i e : Nat) : NoWrite (leqDir leq d i e) := by
  cases d <;> exact noWrite_leqE _ _

theorem noWrite_closedNocache (d : Dir) (e : Nat) : NoWrite (closedNocache leq d e) := by
  unfold closedNocache
  exact noWrite_bind noWrite_get fun s =>
    noWrite_filterM (fun i => noWrite_bind (noWrite_leqDir d i e) fun r => noWrite_pure _) _

theorem noWrite_closedE (d : Dir) (e : Nat) : NoWrite (closedE leq d e) := by
  constructor
  intro s hs
  have h := (noWrite_closedNocache (leq := leq) d e).h s hs
  have : closedE leq d e s = closedNocache leq d e s := by
    simp only [closedE, bind, M.bind, M.get, hs, Bool.false_eq_true, ↓reduceIte]
  rw [this]; exact h

theorem noWrite_extremesE (d : Dir) : NoWrite (extremesE leq d) := by
  unfold extremesE
  exact noWrite_bind noWrite_get fun s =>
    noWrite_filterM (fun i => noWrite_bind (noWrite_closedE d i) fun a => noWrite_pure _) _

/-- `POSet.tops / bottoms` on an uncached instance: the state is untouched and the answer is the `Fresh` one -/
theorem extremesE_uncached {s : St α} (hpo : IdxPO leq s.elems) (d : Dir) (hs : s.useCache = false) :
    extremesE leq d s = (s, .ok (Fresh.extremes leq d s.elems)) := by
  have hinv : InvB leq s.elems Ghost.none false s :=
    InvB.ofOk rfl hs (fun e => (by cases e)) (fun e => (by cases e)) (fun e => (by cases e))
  obtain ⟨s', b, hrun, _, hb⟩ := extremesE_spec (ord := id) hpo (fun l => List.Perm.refl l) hinv d
  have hw := (noWrite_extremesE (leq := leq) d).h s hs
  rw [hrun] at hw
  simp only at hw
  rw [hrun, hw, hb]

/-! ### the query steps keep the element list -/

def isMutation : Op α → Bool
  | .add _ _ => true
  | .del _ => true
  | .remove _ => true
  | _ => false

theorem step_query_frame (s : St α) (o : Op α) (ho : isMutation o = false) :
    (step leq ord s o).1.elems = s.elems ∧ (step leq ord s o).1.useCache = s.useCache := by
  cases o with
  | leq i j => exact (frame_leqE (leq := leq) i j).h s
  | closed d i => exact (frame_closedE (leq := leq) d i).h s
  | direct d i => exact (frame_directE (leq := leq) (ord := ord) d i).h s
  | extremes d => exact (frame_extremesE (leq := leq) d).h s
  | bound d S => exact (frame_boundE (leq := leq) (ord := ord) d S).h s
  | index e => exact (frame_indexE e).h s
  | add e f => cases ho
  | del i => cases ho
  | remove e => cases ho
  | eqOther O => exact (frame_eqE (leq := leq) O).h s
  | fillUp k => exact (frame_fillE (leq := leq) (ord := ord) k).h s

end
end Fca.Poset

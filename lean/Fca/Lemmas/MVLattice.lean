/-
  Fca.Lemmas.MVLattice — helper lemmas for property C14, part 3: the three mining paths.
  * the binarising paths: `cboFbarray` on the binarised table / its transpose is exact by property C02's
    machine analysis (`CbOM.fbarray_trace`, `exact_of_trace`, `exact_of_trace_T`), hence `FcaExact`;
  * the object-wise path: the abstract worklist machine of `Lemmas/CbOMachine` instantiated with the
    many-valued closure `ext ∘ int` (the hypothesis `c_trans` of the machine is where `BottomOK` enters);
  * what "the lattice is exact" means (`ExactMV`) and that descriptions of equal object sets agree.
-/
import Fca.Lemmas.MVBinarize
import Fca.Lemmas.CbODispatch
namespace Fca.MV
open Fca Fca.Spec Fca.CbOM

/-! ### from C02's `ExactConcepts` to `FcaExact` -/

theorem fcaExact_of_exact {t : Table} {cs : List ConceptRec} (h : ExactConcepts t cs)
    (hs : ∀ c ∈ cs, sortIdx c.extentI = c.extentI) : FcaExact t (cs.map (·.extentI)) := by
  have hmap : cs.map (·.extentI) = (cs.map conceptKey).map (·.1) := by
    rw [List.map_map]
    apply List.map_congr_left
    intro c hc
    simp only [Function.comp, conceptKey]
    exact (hs c hc).symm
  rw [hmap]
  obtain ⟨hnd, hmem⟩ := h
  constructor
  · show (List.map (·.1) (cs.map conceptKey)).Pairwise (· ≠ ·)
    rw [List.pairwise_map]
    refine List.Pairwise.imp_of_mem ?_ hnd
    intro x y hx hy hne hxy
    obtain ⟨A₁, B₁⟩ := x
    obtain ⟨A₂, B₂⟩ := y
    have h1 := (isConcept_iff t).mp ((mem_allConcepts t).mp ((hmem A₁ B₁).mp hx))
    have h2 := (isConcept_iff t).mp ((mem_allConcepts t).mp ((hmem A₂ B₂).mp hy))
    simp only at hxy
    subst hxy
    apply hne
    rw [← h1.2, ← h2.2]
  · intro E
    simp only [List.mem_map]
    constructor
    · rintro ⟨⟨A, B⟩, hk, rfl⟩
      exact ⟨B, (mem_allConcepts t).mp ((hmem A B).mp (List.mem_map.mpr hk))⟩
    · rintro ⟨B, hB⟩
      have := (hmem E B).mpr ((mem_allConcepts t).mpr hB)
      obtain ⟨c, hc, hkc⟩ := List.mem_map.mp this
      exact ⟨(E, B), ⟨c, hc, hkc⟩, rfl⟩

/-- the `FormalContext` handed to the formal-context miner -/
def MVCtx.binCtx (K : MVCtx) : Ctx := (⟨K.binTable, K.objNames⟩ : MVCtx.BinCtx).toCtx

theorem MVCtx.binCtx_table (K : MVCtx) : K.binCtx.table = K.binTable := rfl

theorem MVCtx.binarize_eq' (K : MVCtx) (hc : K.cols ≠ []) : K.binarize = .ok ⟨K.binTable, K.objNames⟩ :=
  K.binarize_eq hc

/-- direct shape: CbO on the binarised context lists exactly the concept extents of its table -/
theorem MVCtx.bin_direct_exact (K : MVCtx) (hwf : K.WF) (hc : K.cols ≠ []) (fuel : Nat)
    (hf : cboFuel K.nObjects ≤ fuel) :
    ∃ cs, cboFbarray K.binCtx fuel = .ok cs ∧ FcaExact K.binTable (cs.map (·.extentI)) := by
  have hwfT : K.binCtx.table.WF := transpose_wf _
  have hn : K.binCtx.nObjects = K.nObjects := K.binTable_height hwf hc
  obtain ⟨tr, htr, hok⟩ := fbarray_trace K.binCtx hwfT fuel (by rw [hn]; exact hf)
  refine ⟨tr.map fun p => K.binCtx.fromObjects p.2 false, ?_, ?_⟩
  · unfold cboFbarray; rw [htr]
  · apply fcaExact_of_exact (exact_of_trace K.binCtx hwfT hok false)
    intro c hc'
    obtain ⟨p, hp, rfl⟩ := List.mem_map.mp hc'
    have hr := (hok.sound p hp).1
    have hint : K.binCtx.intentionI p.2 none = intAll K.binCtx.table p.2 :=
      C01.intention_i_exact K.binCtx hwfT p.2 none hr (by intro bs h; cases h)
    simp only [Ctx.fromObjects, Bool.not_false, ↓reduceIte, hint]
    rw [C01.extension_i_exact K.binCtx hwfT _ none (intAll_lt K.binCtx.table) (by intro bs h; cases h)]
    exact sortIdx_sorted (extAll_sorted K.binCtx.table _)

/-- transposed shape: the intents CbO lists on the transposed binarised context are exactly the concept
    extents of the binarised table -/
theorem MVCtx.bin_transposed_exact (K : MVCtx) (fuel : Nat) (hf : cboFuel K.binTable.width ≤ fuel) :
    ∃ cs, cboFbarray K.binCtx.T fuel = .ok cs ∧ FcaExact K.binTable (cs.map (·.intentI)) := by
  have hwf : K.binCtx.table.WF := transpose_wf _
  have hT : K.binCtx.T.table = transpose K.binCtx.table := rfl
  have hwfT : K.binCtx.T.table.WF := by rw [hT]; exact transpose_wf _
  have hn : K.binCtx.T.nObjects = K.binTable.width := by
    show K.binCtx.T.table.height = _
    rw [hT, transpose_height]; rfl
  obtain ⟨tr, htr, hok⟩ := fbarray_trace K.binCtx.T hwfT fuel (by rw [hn]; exact hf)
  refine ⟨tr.map fun p => K.binCtx.T.fromObjects p.2 false, ?_, ?_⟩
  · unfold cboFbarray; rw [htr]
  · have hex := exact_of_trace_T K.binCtx hwf hok
    have hsorted : ∀ c ∈ tr.map (fun p => K.binCtx.T.fromObjects p.2 false), sortIdx c.intentI = c.intentI := by
      intro c hc'
      obtain ⟨p, hp, rfl⟩ := List.mem_map.mp hc'
      have hr := (hok.sound p hp).1
      have hint : K.binCtx.T.intentionI p.2 none = intAll K.binCtx.T.table p.2 :=
        C01.intention_i_exact K.binCtx.T hwfT p.2 none hr (by intro bs h; cases h)
      show sortIdx (K.binCtx.T.intentionI p.2 none) = K.binCtx.T.intentionI p.2 none
      rw [hint]
      exact sortIdx_sorted (intAll_sorted K.binCtx.T.table p.2)
    have := fcaExact_of_exact hex (by
      intro r hr
      obtain ⟨c, hc', rfl⟩ := List.mem_map.mp hr
      simp only [Ctx.fromObjects, Bool.not_true, Bool.false_eq_true, ↓reduceIte]
      exact hsorted c hc')
    rw [List.map_map] at this
    have e : ((fun r : ConceptRec => r.extentI) ∘ fun c : ConceptRec => K.binCtx.fromObjects c.intentI true) =
        fun c => c.intentI := by
      funext c; simp [Ctx.fromObjects]
    rw [e] at this
    exact this

end Fca.MV

namespace Fca.MV
open Fca Fca.Spec Fca.CbOM

/-! ### the object-wise path: the worklist machine on the many-valued closure -/

/-- "`g` lies in the closure of the combination `X`" for the machine: members of `X` count as closed over
    (the machine asks this of arbitrary lists), otherwise in-range objects under the description of `X` -/
def MVCtx.cMV (K : MVCtx) (X : List Nat) (g : Nat) : Bool :=
  X.contains g || (decide (g < K.nObjects) && K.coversAll (K.intentionI X) g)

theorem MVCtx.extIter_eq (K : MVCtx) (X base : List Nat) :
    K.extIter (K.intentionI X) base = base.filter (K.coversAll (K.intentionI X)) := by
  unfold MVCtx.extIter
  rw [K.extensionI_eq _ (some base) (K.wellTyped_intentionI X)]
  rfl

theorem MVCtx.coversAll_intention_self (K : MVCtx) (X : List Nat) (g : Nat) (hg : g ∈ X) :
    K.coversAll (K.intentionI X) g = true :=
  (K.coversAll_intentionI X g).mpr (fun _ c _ => c.covers_intention X g hg)

theorem MVCtx.coversAll_least (K : MVCtx) (X : List Nat) (hX : X ≠ []) (Y : List Nat)
    (h : ∀ g ∈ X, K.coversAll (K.intentionI Y) g = true) (g : Nat)
    (hg : K.coversAll (K.intentionI X) g = true) : K.coversAll (K.intentionI Y) g = true := by
  rw [K.coversAll_intentionI] at hg ⊢
  intro i c hc
  exact c.intention_least X hX (c.intentionI Y)
    (fun a ha => (K.coversAll_intentionI Y a).mp (h a ha) i c hc) g (hg i c hc)

theorem MVCtx.coversAll_of_bottom (K : MVCtx) (Y : List Nat) (g : Nat)
    (h : K.coversAll K.bottomDesc g = true) : K.coversAll (K.intentionI Y) g = true := by
  rw [K.coversAll_bottomDesc] at h
  rw [K.coversAll_intentionI]
  intro i c hc
  exact c.covers_intention_of_bottom Y g (h i c hc)

theorem MVCtx.mem_clSpec' (K : MVCtx) (A : List Nat) (g : Nat) :
    g ∈ K.clSpec A ↔ g < K.nObjects ∧ K.coversAll (K.intentionI A) g = true := by
  unfold MVCtx.clSpec MVCtx.extSpec
  rw [List.mem_filter, List.mem_range]

theorem MVCtx.mem_extBottom' (K : MVCtx) (g : Nat) :
    g ∈ K.extBottom ↔ g < K.nObjects ∧ K.coversAll K.bottomDesc g = true := by
  unfold MVCtx.extBottom MVCtx.extSpec
  rw [List.mem_filter, List.mem_range]

/-- the machine's hypotheses hold for the many-valued closure; `c_trans` for the empty combination is
    exactly `BottomOK` (the closure of `∅` lies inside every closure) -/
theorem MVCtx.hyp_mv (K : MVCtx) (hb : K.BottomOK) :
    Hyp .objectwise K.nObjects K.intentionI K.extIter K.cMV where
  ext_iter := by
    intro X base _ hbase
    rw [K.extIter_eq]
    apply List.filter_congr
    intro g hg
    unfold MVCtx.cMV
    have hgn : g < K.nObjects := hbase g hg
    by_cases hgX : g ∈ X
    · simp [hgX, K.coversAll_intention_self X g hgX]
    · simp [hgX, hgn]
  c_ext := by
    intro X g hg
    simp [MVCtx.cMV, hg]
  c_trans := by
    intro X Y h k hk
    have hcovY : ∀ g ∈ X, K.coversAll (K.intentionI Y) g = true := by
      intro g hg
      have := h g hg
      unfold MVCtx.cMV at this
      simp only [Bool.or_eq_true, List.contains_eq_mem, decide_eq_true_eq, Bool.and_eq_true] at this
      rcases this with hY | ⟨_, hc⟩
      · exact K.coversAll_intention_self Y g hY
      · exact hc
    unfold MVCtx.cMV at hk
    simp only [Bool.or_eq_true, List.contains_eq_mem, decide_eq_true_eq, Bool.and_eq_true] at hk
    rcases hk with hkX | ⟨hkn, hkc⟩
    · exact h k hkX
    · have : K.coversAll (K.intentionI Y) k = true := by
        by_cases hX : X = []
        · subst hX
          have hmem : k ∈ K.clSpec [] := (K.mem_clSpec' [] k).mpr ⟨hkn, hkc⟩
          rw [K.clSpec_nil_of_bottomOK hb] at hmem
          exact K.coversAll_of_bottom Y k ((K.mem_extBottom' k).mp hmem).2
        · exact K.coversAll_least X hX Y hcovY k hkc
      unfold MVCtx.cMV
      simp [hkn, this]
  key_of_eq := by intro h; cases h

theorem MVCtx.closed_cMV_iff (K : MVCtx) (A : List Nat) :
    Closed K.nObjects K.cMV A ↔ ∀ g ∈ K.clSpec A, g ∈ A := by
  unfold Closed MVCtx.cMV
  constructor
  · intro h g hg
    obtain ⟨h1, h2⟩ := (K.mem_clSpec' A g).mp hg
    exact h g h1 (by simp [h1, h2])
  · intro h g hg hc
    simp only [Bool.or_eq_true, List.contains_eq_mem, decide_eq_true_eq, Bool.and_eq_true] at hc
    rcases hc with hc | ⟨h1, h2⟩
    · exact hc
    · exact h g ((K.mem_clSpec' A g).mpr ⟨h1, h2⟩)

/-- `close_by_one_objectwise` on descriptions, with the closed-form fuel: terminates; every emission is an
    in-range duplicate-free closed set; no closed set is emitted twice; every closed set is emitted -/
theorem MVCtx.objectwise_trace (K : MVCtx) (hb : K.BottomOK) (fuel : Nat) (hf : cboFuel K.nObjects ≤ fuel) :
    ∃ tr, K.cboObjectwiseTrace fuel = .ok tr ∧
      (∀ p ∈ tr, InR K.nObjects p.2 ∧ p.2.Nodup ∧ Closed K.nObjects K.cMV p.2) ∧
      Distinct tr ∧
      (∀ A, InR K.nObjects A → Closed K.nObjects K.cMV A → ∃ p ∈ tr, SetEq p.2 A) := by
  have hy := K.hyp_mv hb
  obtain ⟨tr, htr⟩ := loop_terminates hy fuel hf
  refine ⟨tr, htr, ?_⟩
  obtain ⟨s', hinv, hinvU, hst, hout⟩ := loop_invU hy fuel _ tr inv_init invU_init htr
  subst hout
  refine ⟨?_, distinct_reverse hinvU.distinct, ?_⟩
  · intro p hp
    exact sound hy hinv p (List.mem_reverse.mp hp)
  · intro A hA hAc
    obtain ⟨p, hp, hpA⟩ := complete hy hinv hst A hA hAc
    exact ⟨p, List.mem_reverse.mpr hp, hpA⟩

/-! ### closed sets -/

theorem MVCtx.mem_closedSets (K : MVCtx) (S : List Nat) :
    S ∈ K.closedSets ↔ S = K.extBottom ∨
      ∃ A, A ∈ sublists (List.range K.nObjects) ∧ A ≠ [] ∧ K.clSpec A = S := by
  unfold MVCtx.closedSets MVCtx.closedNE
  simp only [List.mem_eraseDups, List.mem_cons, List.mem_map, List.mem_filter, Bool.not_eq_eq_eq_not,
    Bool.not_true, List.isEmpty_eq_false_iff]
  constructor
  · rintro (h | ⟨A, ⟨h1, h2⟩, h3⟩)
    · exact Or.inl h
    · exact Or.inr ⟨A, h1, h2, h3⟩
  · rintro (h | ⟨A, h1, h2, h3⟩)
    · exact Or.inl h
    · exact Or.inr ⟨A, ⟨h1, h2⟩, h3⟩

theorem MVCtx.extBottom_lt (K : MVCtx) : ∀ g ∈ K.extBottom, g < K.nObjects :=
  fun g hg => ((K.mem_extBottom' g).mp hg).1

theorem MVCtx.clSpec_sorted (K : MVCtx) (A : List Nat) : (K.clSpec A).Pairwise (· < ·) := by
  unfold MVCtx.clSpec MVCtx.extSpec
  exact List.Pairwise.filter _ List.pairwise_lt_range

theorem MVCtx.extBottom_sorted (K : MVCtx) : K.extBottom.Pairwise (· < ·) := by
  unfold MVCtx.extBottom MVCtx.extSpec
  exact List.Pairwise.filter _ List.pairwise_lt_range

theorem MVCtx.closedSets_sorted (K : MVCtx) : ∀ S ∈ K.closedSets, S.Pairwise (· < ·) ∧ ∀ g ∈ S, g < K.nObjects := by
  intro S hS
  rcases (K.mem_closedSets S).mp hS with rfl | ⟨A, _, _, rfl⟩
  · exact ⟨K.extBottom_sorted, K.extBottom_lt⟩
  · exact ⟨K.clSpec_sorted A, K.clSpec_lt A⟩

/-- under `BottomOK` every closed set is a fixpoint of the closure as the code computes it -/
theorem MVCtx.closedSets_fix (K : MVCtx) (hb : K.BottomOK) : ∀ S ∈ K.closedSets, K.clSpec S = S := by
  intro S hS
  rcases (K.mem_closedSets S).mp hS with rfl | ⟨A, hA, hne, rfl⟩
  · by_cases he : K.extBottom = []
    · rw [he, K.clSpec_nil_of_bottomOK hb, he]
    · unfold MVCtx.clSpec MVCtx.extBottom MVCtx.extSpec
      apply filter_range_eq_of_mem_iff
      intro g
      have e1 := K.mem_clSpec' K.extBottom g
      have e2 := K.mem_extBottom' g
      unfold MVCtx.clSpec MVCtx.extBottom MVCtx.extSpec at e1 e2
      constructor
      · intro hg
        have hg' : g ∈ K.clSpec K.extBottom := by unfold MVCtx.clSpec MVCtx.extBottom MVCtx.extSpec; exact hg
        have := K.clSpec_least K.extBottom he K.bottomDesc K.wellTyped_bottomDesc
          (fun x hx => ((K.mem_extBottom' x).mp hx).2) g hg'
        exact e2.mpr ⟨K.clSpec_lt _ g hg', this⟩
      · intro hg
        have hg' : g ∈ K.extBottom := by unfold MVCtx.extBottom MVCtx.extSpec; exact hg
        have := K.clSpec_extensive K.extBottom K.extBottom_lt g hg'
        unfold MVCtx.clSpec MVCtx.extBottom MVCtx.extSpec at this
        exact this
  · exact K.clSpec_idem A hne (fun x hx => List.mem_range.mp (mem_of_mem_sublists hA x hx))

/-- an in-range list closed under the many-valued closure is, as a set, one of the closed sets -/
theorem MVCtx.closed_mem_closedSets (K : MVCtx) (E : List Nat) (hr : ∀ g ∈ E, g < K.nObjects)
    (hcl : ∀ g ∈ K.clSpec E, g ∈ E) : ∃ S ∈ K.closedSets, MVCtx.SetEqL E S := by
  by_cases hE : E = []
  · subst hE
    refine ⟨K.extBottom, (K.mem_closedSets _).mpr (Or.inl rfl), ?_⟩
    intro g
    constructor
    · intro h; cases h
    · intro h; exact hcl g (K.extBottom_subset_clSpec [] g h)
  · let A := (List.range K.nObjects).filter fun g => E.contains g
    have hAmem : ∀ g, g ∈ A ↔ g ∈ E := by
      intro g
      simp only [A, List.mem_filter, List.mem_range, List.contains_eq_mem, decide_eq_true_eq]
      exact ⟨fun h => h.2, fun h => ⟨hr g h, h⟩⟩
    have hAne : A ≠ [] := by
      obtain ⟨a, as, rfl⟩ := List.exists_cons_of_ne_nil hE
      intro h
      have := (hAmem a).mpr List.mem_cons_self
      rw [h] at this; cases this
    have hcongr : K.clSpec A = K.clSpec E := K.clSpec_congr A E hAne hE hAmem
    refine ⟨K.clSpec A, (K.mem_closedSets _).mpr (Or.inr ⟨A, filter_mem_sublists _ _, hAne, rfl⟩), ?_⟩
    intro g
    rw [hcongr]
    exact ⟨K.clSpec_extensive E hr g, hcl g⟩

/-! ### from the lists of extents to `ExactMV` -/

theorem MVCtx.mapFromObjects_true (K : MVCtx) (exts : List (List Nat)) :
    MVCtx.mapFromObjects K true exts = .ok (exts.map fun E => ⟨E, K.intentionI E⟩) := by
  induction exts with
  | nil => rfl
  | cons E Es ih => simp [MVCtx.mapFromObjects, MVCtx.fromObjects, ih]

theorem sameSet_iff (a b : List Nat) : MVCtx.sameSet a b = true ↔ MVCtx.SetEqL a b := by
  unfold MVCtx.sameSet MVCtx.subsetL MVCtx.SetEqL
  simp only [Bool.and_eq_true, List.all_eq_true, List.contains_eq_mem, decide_eq_true_eq]
  exact ⟨fun h g => ⟨h.1 g, h.2 g⟩, fun h => ⟨fun g => (h g).mp, fun g => (h g).mpr⟩⟩

theorem hasDupExtent_false (pcs : List MVCtx.PC)
    (h : pcs.Pairwise fun p q => ¬ MVCtx.SetEqL p.extent q.extent) : MVCtx.hasDupExtent pcs = false := by
  induction pcs with
  | nil => rfl
  | cons c cs ih =>
    rw [List.pairwise_cons] at h
    simp only [MVCtx.hasDupExtent, Bool.or_eq_false_iff, ih h.2, and_true]
    rw [Bool.eq_false_iff]
    intro hany
    obtain ⟨c', hc', hs⟩ := List.any_eq_true.mp hany
    exact h.1 c' hc' ((sameSet_iff _ _).mp hs)

/-- the object-wise path is exact under `BottomOK` -/
theorem MVCtx.cboObjectwise_exact (K : MVCtx) (hb : K.BottomOK) (fuel : Nat) (hf : cboFuel K.nObjects ≤ fuel) :
    ∃ pcs, K.cboObjectwise fuel = .ok pcs ∧ MVCtx.ExactMV K pcs := by
  obtain ⟨tr, htr, hsound, hdist, hcompl⟩ := K.objectwise_trace hb fuel hf
  refine ⟨(tr.map (·.2)).map fun E => ⟨E, K.intentionI E⟩, ?_, ?_⟩
  · unfold MVCtx.cboObjectwise
    rw [htr]
    exact K.mapFromObjects_true _
  · rw [List.map_map]
    constructor
    · intro pc hpc
      obtain ⟨p, hp, rfl⟩ := List.mem_map.mp hpc
      obtain ⟨h1, h2, _⟩ := hsound p hp
      exact ⟨h1, h2, rfl⟩
    · rw [List.pairwise_map]
      exact hdist
    · intro pc hpc
      obtain ⟨p, hp, rfl⟩ := List.mem_map.mp hpc
      obtain ⟨h1, _, h3⟩ := hsound p hp
      exact K.closed_mem_closedSets p.2 h1 ((K.closed_cMV_iff p.2).mp h3)
    · intro S hS
      have hfix := K.closedSets_fix hb S hS
      obtain ⟨p, hp, hpS⟩ := hcompl S (K.closedSets_sorted S hS).2
        ((K.closed_cMV_iff S).mpr (by rw [hfix]; exact fun g h => h))
      exact ⟨_, List.mem_map.mpr ⟨p, hp, rfl⟩, hpS⟩

/-- pattern concepts built from an exact list of concept extents of the binarised table -/
theorem MVCtx.exact_of_fcaExact (K : MVCtx) (hwf : K.WF) (hc : K.cols ≠ []) (hb : K.BottomOK)
    (exts : List (List Nat)) (hex : FcaExact K.binTable exts) :
    ∃ pcs, MVCtx.mapFromObjects K false exts = .ok pcs ∧ MVCtx.ExactMV K pcs := by
  have hcs : ∀ E ∈ exts, E ∈ K.closedSets := fun E hE =>
    (concept_extents_eq_closedSets K hwf hc hb E).mp ((hex.2 E).mp hE)
  have hfix : ∀ E ∈ exts, K.clSpec E = E := fun E hE => K.closedSets_fix hb E (hcs E hE)
  refine ⟨_, mapFromObjects_fix K exts hfix, ?_⟩
  constructor
  · intro pc hpc
    obtain ⟨E, hE, rfl⟩ := List.mem_map.mp hpc
    have hs := K.closedSets_sorted E (hcs E hE)
    refine ⟨hs.2, ?_, rfl⟩
    exact hs.1.imp (fun h => Nat.ne_of_lt h)
  · rw [List.pairwise_map]
    have hall : exts.Pairwise fun p q => (p ∈ exts ∧ q ∈ exts) := by
      rw [List.pairwise_iff_forall_sublist]
      intro a b hab
      exact ⟨hab.subset (by simp), hab.subset (by simp)⟩
    refine (hex.1.and hall).imp ?_
    rintro p q ⟨hne, hp, hq⟩ hse
    exact hne (sorted_unique (K.closedSets_sorted p (hcs p hp)).1 (K.closedSets_sorted q (hcs q hq)).1 hse)
  · intro pc hpc
    obtain ⟨E, hE, rfl⟩ := List.mem_map.mp hpc
    exact ⟨E, hcs E hE, fun _ => Iff.rfl⟩
  · intro S hS
    have : S ∈ exts := (hex.2 S).mpr ((concept_extents_eq_closedSets K hwf hc hb S).mpr hS)
    exact ⟨_, List.mem_map.mpr ⟨S, this, rfl⟩, fun _ => Iff.rfl⟩

/-- `close_by_one` on a many-valued context, any threshold, with the closed-form fuel, is exact under
    `BottomOK`; so is `ConceptLattice.from_context` (no repeated extent reaches `order_extents_comparison`) -/
theorem MVCtx.closeByOne_exact (K : MVCtx) (hwf : K.WF) (hn : 1 ≤ K.nObjects) (hc : K.cols ≠ [])
    (hb : K.BottomOK) (thr fuel : Nat) (hf : K.closeByOneFuel thr ≤ fuel) :
    ∃ pcs, K.closeByOne thr fuel = .ok pcs ∧ K.latticeConcepts thr fuel = .ok pcs ∧ MVCtx.ExactMV K pcs := by
  have key : ∃ pcs, K.closeByOne thr fuel = .ok pcs ∧ MVCtx.ExactMV K pcs := by
    unfold MVCtx.closeByOne
    unfold MVCtx.closeByOneFuel at hf
    cases hp : K.choosePath thr with
    | objectwise =>
      rw [hp] at hf
      exact K.cboObjectwise_exact hb fuel hf
    | binDirect =>
      rw [hp] at hf
      simp only at hf ⊢
      obtain ⟨cs, hcs, hex⟩ := K.bin_direct_exact hwf hc fuel hf
      rw [K.binarize_eq' hc]
      simp only
      have : cboFbarray (⟨K.binTable, K.objNames⟩ : MVCtx.BinCtx).toCtx fuel = .ok cs := hcs
      rw [this]
      exact K.exact_of_fcaExact hwf hc hb _ hex
    | binTransposed =>
      rw [hp] at hf
      simp only at hf ⊢
      have hw : K.binTable.width = K.nBinAttrs := by rw [K.nBinAttrs_eq hwf hn]; rfl
      obtain ⟨cs, hcs, hex⟩ := K.bin_transposed_exact fuel (by rw [hw]; exact hf)
      rw [K.binarize_eq' hc]
      simp only
      have : cboFbarray (⟨K.binTable, K.objNames⟩ : MVCtx.BinCtx).toCtx.T fuel = .ok cs := hcs
      rw [this]
      exact K.exact_of_fcaExact hwf hc hb _ hex
  obtain ⟨pcs, h1, h2⟩ := key
  refine ⟨pcs, h1, ?_, h2⟩
  unfold MVCtx.latticeConcepts
  rw [h1]
  simp [hasDupExtent_false pcs h2.distinct]

end Fca.MV

namespace Fca.MV
open Fca Fca.Spec Fca.CbOM

/-! ### descriptions of equal object sets agree -/

theorem Col.intentionI_equiv (c : Col) (A B : List Nat) (h : MVCtx.SetEqL A B) :
    (c.intentionI A).Equiv (c.intentionI B) := by
  cases c with
  | interval data =>
    simp only [Col.intentionI, DVal.Equiv]
    cases A with
    | nil =>
      cases B with
      | nil => rfl
      | cons b bs => have := (h b).mpr List.mem_cons_self; cases this
    | cons a as =>
      cases B with
      | nil => have := (h a).mp List.mem_cons_self; cases this
      | cons b bs =>
        obtain ⟨lo, hi, e1, hall, ⟨xl, hxl, hlo⟩, ⟨xh, hxh, hhi⟩⟩ := ivIntention_spec data a as
        obtain ⟨lo', hi', e2, hall', ⟨xl', hxl', hlo'⟩, ⟨xh', hxh', hhi'⟩⟩ := ivIntention_spec data b bs
        rw [e1, e2]
        have a1 := (hall' xl ((h xl).mp hxl)).1
        have a2 := (hall xl' ((h xl').mpr hxl')).1
        have a3 := (hall' xh ((h xh).mp hxh)).2
        have a4 := (hall xh' ((h xh').mpr hxh')).2
        have el : lo = lo' := by omega
        have eh : hi = hi' := by omega
        rw [el, eh]
  | set data =>
    simp only [Col.intentionI, DVal.Equiv]
    intro x
    rw [mem_setIntention, mem_setIntention]
    constructor
    · rintro ⟨g, hg, hx⟩; exact ⟨g, (h g).mp hg, hx⟩
    · rintro ⟨g, hg, hx⟩; exact ⟨g, (h g).mpr hg, hx⟩
  | attr data =>
    simp only [Col.intentionI, DVal.Equiv, Col.attrIntention]
    have hemp : A.isEmpty = B.isEmpty := by
      cases A with
      | nil =>
        cases B with
        | nil => rfl
        | cons b bs => have := (h b).mpr List.mem_cons_self; cases this
      | cons a as =>
        cases B with
        | nil => have := (h a).mp List.mem_cons_self; cases this
        | cons b bs => rfl
    have hall : (A.all fun g => data.getD g false) = (B.all fun g => data.getD g false) := by
      rw [Bool.eq_iff_iff, List.all_eq_true, List.all_eq_true]
      exact ⟨fun H g hg => H g ((h g).mpr hg), fun H g hg => H g ((h g).mp hg)⟩
    rw [hemp, hall]

theorem MVCtx.intentionI_equiv (K : MVCtx) (A B : List Nat) (h : MVCtx.SetEqL A B) :
    DescEquiv (K.intentionI A) (K.intentionI B) := by
  unfold DescEquiv MVCtx.intentionI
  refine ⟨by simp, ?_⟩
  rw [List.zip_map']
  intro p hp
  obtain ⟨ci, _, rfl⟩ := List.mem_map.mp hp
  exact ⟨rfl, ci.1.intentionI_equiv A B h⟩

/-- two exact lists of pattern concepts hold the same concepts: equal extents (as sets) with equivalent
    descriptions -/
theorem MVCtx.exactMV_agree (K : MVCtx) (p₁ p₂ : List MVCtx.PC) (h₁ : MVCtx.ExactMV K p₁) (h₂ : MVCtx.ExactMV K p₂) :
    ∀ pc ∈ p₁, ∃ pc' ∈ p₂, MVCtx.SetEqL pc.extent pc'.extent ∧ DescEquiv pc.intent pc'.intent := by
  intro pc hpc
  obtain ⟨S, hS, hpS⟩ := h₁.sound pc hpc
  obtain ⟨pc', hpc', hpS'⟩ := h₂.complete S hS
  have hse : MVCtx.SetEqL pc.extent pc'.extent := fun g => (hpS g).trans (hpS' g).symm
  refine ⟨pc', hpc', hse, ?_⟩
  rw [(h₁.wf pc hpc).2.2, (h₂.wf pc' hpc').2.2]
  exact K.intentionI_equiv _ _ hse

end Fca.MV

namespace Fca.MV
open Fca Fca.Spec

/-! ### when `BottomOK` holds -/

/-- `BottomOK` says exactly that the code's closure of the empty set is the least closed set -/
theorem MVCtx.bottomOK_iff (K : MVCtx) : K.BottomOK ↔ K.clSpec [] = K.extBottom := by
  constructor
  · exact K.clSpec_nil_of_bottomOK
  · intro h
    unfold MVCtx.BottomOK
    rw [K.cl_eq]
    simp only
    intro S hS g hg
    rw [h] at hg
    rcases (K.mem_closedSets S).mp hS with rfl | ⟨A, _, _, rfl⟩
    · exact hg
    · exact K.extBottom_subset_clSpec A g hg

def Col.isAttr : Col → Bool
  | .attr _ => true
  | _ => false

def Col.isInterval : Col → Bool
  | .interval _ => true
  | _ => false

theorem MVCtx.bottomOK_of_no_attr (K : MVCtx) (h : ∀ c ∈ K.cols, c.isAttr = false) : K.BottomOK := by
  rw [K.bottomOK_iff]
  have : K.intentionI [] = K.bottomDesc := by
    unfold MVCtx.intentionI MVCtx.bottomDesc
    apply List.map_congr_left
    intro ci hci
    have hc : ci.1 ∈ K.cols := List.mem_of_getElem? (List.mem_zipIdx_iff_getElem?.mp hci)
    have := h ci.1 hc
    cases hci1 : ci.1 with
    | interval d => rfl
    | set d => rfl
    | attr d => rw [hci1] at this; simp [Col.isAttr] at this
  unfold MVCtx.clSpec MVCtx.extBottom
  rw [this]

theorem MVCtx.bottomOK_of_interval (K : MVCtx) (h : ∃ c ∈ K.cols, c.isInterval = true) : K.BottomOK := by
  rw [K.bottomOK_iff]
  obtain ⟨c, hc, hi⟩ := h
  obtain ⟨i, hi'⟩ := List.mem_iff_getElem?.mp hc
  have e1 : K.clSpec [] = [] := by
    rw [List.eq_nil_iff_forall_not_mem]
    intro g hg
    have := ((K.mem_clSpec [] g).mp hg).2 i c hi'
    cases c with
    | interval d => simp [Col.intentionI, Col.ivIntention, Col.covers] at this
    | set d => simp [Col.isInterval] at hi
    | attr d => simp [Col.isInterval] at hi
  have e2 : K.extBottom = [] := by
    rw [List.eq_nil_iff_forall_not_mem]
    intro g hg
    have := K.extBottom_subset_clSpec [] g hg
    rw [e1] at this; cases this
  rw [e1, e2]

end Fca.MV

/-
  Lemmas about the Mover model: frame conditions of every operation, the range invariant `WF`,
  and the list facts behind the `pos` round trip.
-/
import Fca.Model.Mover
namespace Fca.Mover
open Fca.Layout (VErr)

/-! ### list helpers -/

theorem getD_set_eq {α} (l : List α) (i : Nat) (x d : α) (h : i < l.length) :
    (l.set i x).getD i d = x := by
  simp [List.getD_eq_getElem?_getD, h]

theorem getD_set_ne {α} (l : List α) (i j : Nat) (x d : α) (h : i ≠ j) :
    (l.set i x).getD j d = l.getD j d := by
  simp [List.getD_eq_getElem?_getD, h]

theorem getD_map_range {α} (f : Nat → α) (n i : Nat) (d : α) (h : i < n) :
    ((List.range n).map f).getD i d = f i := by
  simp [List.getD_eq_getElem?_getD, h]

theorem getD_map {α β} (f : α → β) (l : List α) (i : Nat) (d : α) (e : β) (h : i < l.length) :
    (l.map f).getD i e = f (l.getD i d) := by
  simp [List.getD_eq_getElem?_getD, h]

/-! ### the range invariant -/

/-- all four state lists are mutually consistent: no read in the model falls outside a list -/
structure WF (m : St) : Prop where
  len_ord : m.peersOrder.length = m.levels.length
  len_lvl : m.posPeers.length = m.posLevels.length
  lvl_lt  : ∀ el, el < m.n → m.lvl el < m.posPeers.length
  ord_lt  : ∀ el, el < m.n → m.ord el < (m.row (m.lvl el)).length

/-! ### swap -/

theorem swapNodes_ok {m m' : St} {a b : Nat} (h : swapNodes m a b = .ok m') :
    a < m.n ∧ b < m.n ∧ m.lvl a = m.lvl b ∧
    m' = { m with peersOrder := (m.peersOrder.set a (m.ord b)).set b (m.ord a) } := by
  unfold swapNodes at h
  split at h
  · rename_i hab
    split at h
    · cases h
    · rename_i hl
      cases h
      exact ⟨hab.1, hab.2, Decidable.of_not_not hl, rfl⟩
  · cases h

theorem swap_ord_a {m m' : St} {a b : Nat} (hw : m.peersOrder.length = m.levels.length)
    (h : swapNodes m a b = .ok m') : m'.ord a = m.ord b := by
  obtain ⟨ha, hb, _, rfl⟩ := swapNodes_ok h
  simp only [St.ord]
  by_cases hab : a = b
  · subst hab
    rw [getD_set_eq]
    simp only [List.length_set]; rw [hw]; exact ha
  · rw [getD_set_ne _ _ _ _ _ (Ne.symm hab), getD_set_eq]
    rw [hw]; exact ha

theorem swap_ord_b {m m' : St} {a b : Nat} (hw : m.peersOrder.length = m.levels.length)
    (h : swapNodes m a b = .ok m') : m'.ord b = m.ord a := by
  obtain ⟨ha, hb, _, rfl⟩ := swapNodes_ok h
  simp only [St.ord]
  rw [getD_set_eq]
  simp only [List.length_set]; rw [hw]; exact hb

theorem swap_ord_other {m m' : St} {a b j : Nat} (h : swapNodes m a b = .ok m')
    (hja : j ≠ a) (hjb : j ≠ b) : m'.ord j = m.ord j := by
  obtain ⟨_, _, _, rfl⟩ := swapNodes_ok h
  simp only [St.ord]
  rw [getD_set_ne _ _ _ _ _ (Ne.symm hjb), getD_set_ne _ _ _ _ _ (Ne.symm hja)]

theorem swap_frame {m m' : St} {a b : Nat} (h : swapNodes m a b = .ok m') :
    m'.dir = m.dir ∧ m'.levels = m.levels ∧ m'.posLevels = m.posLevels ∧ m'.posPeers = m.posPeers := by
  obtain ⟨_, _, _, rfl⟩ := swapNodes_ok h
  exact ⟨rfl, rfl, rfl, rfl⟩

theorem swap_wf {m m' : St} {a b : Nat} (hw : WF m) (h : swapNodes m a b = .ok m') : WF m' := by
  have hoa := swap_ord_a hw.len_ord h
  have hob := swap_ord_b hw.len_ord h
  have hoo := fun j => @swap_ord_other m m' a b j h
  obtain ⟨hd, hl, hpl, hpp⟩ := swap_frame h
  obtain ⟨ha, hb, hlab, hm'⟩ := swapNodes_ok h
  have hlvl : ∀ el, m'.lvl el = m.lvl el := by intro el; simp only [St.lvl, hl]
  have hrow : ∀ l, m'.row l = m.row l := by intro l; simp only [St.row, hpp]
  have hn : m'.n = m.n := by simp only [St.n, hl]
  refine ⟨?_, ?_, ?_, ?_⟩
  · rw [hl, hm']; simp only [List.length_set]; exact hw.len_ord
  · rw [hpp, hpl]; exact hw.len_lvl
  · intro el hel; rw [hlvl, hpp]; exact hw.lvl_lt el (hn ▸ hel)
  · intro el hel
    rw [hn] at hel
    rw [hlvl, hrow]
    by_cases h1 : el = a
    · subst h1; rw [hoa, hlab]; exact hw.ord_lt b hb
    · by_cases h2 : el = b
      · subst h2; rw [hob, ← hlab]; exact hw.ord_lt a ha
      · rw [hoo el h1 h2]; exact hw.ord_lt el hel

/-! ### swap loop / shift -/

theorem swapLoop_frame {i : Nat} : ∀ {ns : List Nat} {m m' : St}, swapLoop m i ns = .ok m' →
    m'.dir = m.dir ∧ m'.levels = m.levels ∧ m'.posLevels = m.posLevels ∧ m'.posPeers = m.posPeers
  | [], m, m', h => by cases h; exact ⟨rfl, rfl, rfl, rfl⟩
  | s :: ss, m, m', h => by
    simp only [swapLoop] at h
    split at h
    · cases h
    · rename_i m1 h1
      obtain ⟨a1, a2, a3, a4⟩ := swap_frame h1
      obtain ⟨b1, b2, b3, b4⟩ := swapLoop_frame h
      exact ⟨b1.trans a1, b2.trans a2, b3.trans a3, b4.trans a4⟩

theorem swapLoop_wf {i : Nat} : ∀ {ns : List Nat} {m m' : St}, WF m → swapLoop m i ns = .ok m' → WF m'
  | [], m, m', hw, h => by cases h; exact hw
  | s :: ss, m, m', hw, h => by
    simp only [swapLoop] at h
    split at h
    · cases h
    · rename_i m1 h1
      exact swapLoop_wf (swap_wf hw h1) h

/-- nodes of another level keep their rank through the swap loop -/
theorem swapLoop_other {i : Nat} : ∀ {ns : List Nat} {m m' : St}, swapLoop m i ns = .ok m' →
    ∀ j, m.lvl j ≠ m.lvl i → m'.ord j = m.ord j
  | [], m, m', h, j, _ => by cases h; rfl
  | s :: ss, m, m', h, j, hj => by
    simp only [swapLoop] at h
    split at h
    · cases h
    · rename_i m1 h1
      obtain ⟨_, hl, _, _⟩ := swap_frame h1
      obtain ⟨_, _, hlis, _⟩ := swapNodes_ok h1
      have hlvl : ∀ el, m1.lvl el = m.lvl el := by intro el; simp only [St.lvl, hl]
      have := swapLoop_other h j (by rw [hlvl, hlvl]; exact hj)
      rw [this]
      apply swap_ord_other h1
      · intro e; subst e; exact hj rfl
      · intro e; subst e; exact hj hlis.symm

theorem shiftNode_ok {m m' : St} {i : Nat} {k : Int} (h : shiftNode m i k = .ok m') :
    i < m.n ∧ swapLoop m i (nodesToSwap m i k) = .ok m' := by
  unfold shiftNode at h
  split at h
  · exact ⟨by assumption, h⟩
  · cases h

/-! ### setRow / jitter -/

theorem setRow_row_same (m : St) (l p : Nat) (x : Rat) (hl : l < m.posPeers.length) :
    (setRow m l p x).row l = (m.row l).set p x := by
  simp only [setRow, St.row]
  exact getD_set_eq _ _ _ _ hl

theorem setRow_row_other (m : St) (l l' p : Nat) (x : Rat) (h : l ≠ l') :
    (setRow m l p x).row l' = m.row l' := by
  simp only [setRow, St.row]
  exact getD_set_ne _ _ _ _ _ h

theorem setRow_wf {m : St} (hw : WF m) (l p : Nat) (x : Rat) : WF (setRow m l p x) := by
  refine ⟨hw.len_ord, ?_, ?_, ?_⟩
  · simp only [setRow, List.length_set]; exact hw.len_lvl
  · intro el hel; simp only [setRow, List.length_set]; exact hw.lvl_lt el hel
  · intro el hel
    have h1 := hw.ord_lt el hel
    have h2 := hw.lvl_lt el hel
    show (setRow m l p x).ord el < ((setRow m l p x).row ((setRow m l p x).lvl el)).length
    have e1 : (setRow m l p x).ord el = m.ord el := rfl
    have e2 : (setRow m l p x).lvl el = m.lvl el := rfl
    rw [e1, e2]
    by_cases hl : l = m.lvl el
    · subst hl
      rw [setRow_row_same _ _ _ _ h2, List.length_set]; exact h1
    · rw [setRow_row_other _ _ _ _ _ hl]; exact h1

/-- what `jitter_node` can return: a row update of the original state or of the shifted state -/
theorem jitterNode_ok {m m' : St} {i : Nat} {dx : Rat} (h : jitterNode m i dx = .ok m') :
    i < m.n ∧
    (m' = setRow m (m.lvl i) (m.ord i) ((m.row (m.lvl i)).getD (m.ord i) 0 + dx) ∨
     ∃ k m1, shiftNode m i k = .ok m1 ∧
       m' = setRow m1 (m.lvl i) (m1.ord i) ((m.row (m.lvl i)).getD (m.ord i) 0 + dx)) := by
  unfold jitterNode at h
  split at h
  · rename_i hi
    refine ⟨hi, ?_⟩
    simp only at h
    by_cases hdx : 0 ≤ dx
    · simp only [hdx, ↓reduceIte] at h
      split at h
      · cases h; exact Or.inl rfl
      · split at h
        · cases h; exact Or.inl rfl
        · split at h
          · cases h
          · split at h
            · cases h
            · rename_i m1 h1
              cases h
              exact Or.inr ⟨_, m1, h1, rfl⟩
    · simp only [hdx, ↓reduceIte] at h
      split at h
      · cases h; exact Or.inl rfl
      · split at h
        · cases h; exact Or.inl rfl
        · split at h
          · cases h
          · split at h
            · cases h
            · rename_i m1 h1
              cases h
              exact Or.inr ⟨_, m1, h1, rfl⟩
  · cases h

theorem placeNode_ok {m m' : St} {i : Nat} {x : Rat} (h : placeNode m i x = .ok m') :
    i < m.n ∧ jitterNode m i (x - (posx m).getD i 0) = .ok m' := by
  unfold placeNode at h
  split at h
  · exact ⟨by assumption, h⟩
  · cases h

/-! ### every operation: frame, WF, other levels -/

/-- the node an operation is about -/
def Op.node : Op → Nat
  | .swap a _ => a
  | .shift i _ => i
  | .jitter i _ => i
  | .place i _ => i

theorem shift_frame {m m' : St} {i : Nat} {k : Int} (h : shiftNode m i k = .ok m') :
    m'.dir = m.dir ∧ m'.levels = m.levels ∧ m'.posLevels = m.posLevels ∧ m'.posPeers = m.posPeers :=
  swapLoop_frame (shiftNode_ok h).2

theorem jitter_frame {m m' : St} {i : Nat} {dx : Rat} (h : jitterNode m i dx = .ok m') :
    m'.dir = m.dir ∧ m'.levels = m.levels ∧ m'.posLevels = m.posLevels ∧
    m'.posPeers.length = m.posPeers.length := by
  obtain ⟨_, h | ⟨k, m1, h1, h⟩⟩ := jitterNode_ok h
  · subst h; exact ⟨rfl, rfl, rfl, by simp only [setRow, List.length_set]⟩
  · subst h
    obtain ⟨a, b, c, d⟩ := shift_frame h1
    exact ⟨a, b, c, by simp only [setRow, List.length_set]; rw [d]⟩

theorem step_frame {m m' : St} {o : Op} (h : step m o = .ok m') :
    m'.dir = m.dir ∧ m'.levels = m.levels ∧ m'.posLevels = m.posLevels := by
  cases o with
  | swap a b => obtain ⟨a, b, c, _⟩ := swap_frame h; exact ⟨a, b, c⟩
  | shift i k => obtain ⟨a, b, c, _⟩ := shift_frame h; exact ⟨a, b, c⟩
  | jitter i dx => obtain ⟨a, b, c, _⟩ := jitter_frame h; exact ⟨a, b, c⟩
  | place i x => obtain ⟨a, b, c, _⟩ := jitter_frame (placeNode_ok h).2; exact ⟨a, b, c⟩

theorem shift_wf {m m' : St} {i : Nat} {k : Int} (hw : WF m) (h : shiftNode m i k = .ok m') : WF m' :=
  swapLoop_wf hw (shiftNode_ok h).2

theorem jitter_wf {m m' : St} {i : Nat} {dx : Rat} (hw : WF m) (h : jitterNode m i dx = .ok m') : WF m' := by
  obtain ⟨_, h | ⟨k, m1, h1, h⟩⟩ := jitterNode_ok h
  · subst h; exact setRow_wf hw _ _ _
  · subst h; exact setRow_wf (shift_wf hw h1) _ _ _

theorem step_wf {m m' : St} {o : Op} (hw : WF m) (h : step m o = .ok m') : WF m' := by
  cases o with
  | swap a b => exact swap_wf hw h
  | shift i k => exact shift_wf hw h
  | jitter i dx => exact jitter_wf hw h
  | place i x => exact jitter_wf hw (placeNode_ok h).2

theorem peerCoord_congr {m m' : St} {j : Nat} (hl : m'.levels = m.levels) (ho : m'.ord j = m.ord j)
    (hr : m'.row (m.lvl j) = m.row (m.lvl j)) : m'.peerCoord j = m.peerCoord j := by
  have : m'.lvl j = m.lvl j := by simp only [St.lvl, hl]
  simp only [St.peerCoord, this, ho, hr]

theorem shift_other {m m' : St} {i : Nat} {k : Int} (h : shiftNode m i k = .ok m') (j : Nat)
    (hj : m.lvl j ≠ m.lvl i) : m'.peerCoord j = m.peerCoord j := by
  obtain ⟨_, hl, _, hp⟩ := shift_frame h
  exact peerCoord_congr hl (swapLoop_other (shiftNode_ok h).2 j hj) (by simp only [St.row, hp])

theorem jitter_other {m m' : St} {i : Nat} {dx : Rat} (h : jitterNode m i dx = .ok m') (j : Nat)
    (hj : m.lvl j ≠ m.lvl i) : m'.peerCoord j = m.peerCoord j := by
  obtain ⟨_, h | ⟨k, m1, h1, h⟩⟩ := jitterNode_ok h
  · subst h
    exact peerCoord_congr rfl rfl (setRow_row_other _ _ _ _ _ (Ne.symm hj))
  · subst h
    obtain ⟨_, hl, _, hp⟩ := shift_frame h1
    have hl1 : m1.lvl j = m.lvl j := by simp only [St.lvl, hl]
    have := shift_other h1 j hj
    rw [← this]
    refine peerCoord_congr (m := m1) rfl rfl ?_
    rw [hl1]
    exact setRow_row_other _ _ _ _ _ (Ne.symm hj)

/-- an operation on node `o.node` does not move any node of another level along the peer axis -/
theorem step_other {m m' : St} {o : Op} (h : step m o = .ok m') (j : Nat)
    (hj : m.lvl j ≠ m.lvl o.node) : m'.peerCoord j = m.peerCoord j := by
  cases o with
  | swap a b =>
    obtain ⟨_, hl, _, hp⟩ := swap_frame h
    obtain ⟨_, _, hlab, _⟩ := swapNodes_ok h
    refine peerCoord_congr hl (swap_ord_other h ?_ ?_) (by simp only [St.row, hp])
    · intro e; subst e; exact hj rfl
    · intro e; subst e; exact hj hlab.symm
  | shift i k => exact shift_other h j hj
  | jitter i dx => exact jitter_other h j hj
  | place i x => exact jitter_other (placeNode_ok h).2 j hj

theorem levelCoord_congr {m m' : St} (hl : m'.levels = m.levels) (hp : m'.posLevels = m.posLevels) (j : Nat) :
    m'.levelCoord j = m.levelCoord j := by
  simp only [St.levelCoord, St.lvl, hl, hp]

/-! ### histories -/

theorem run_frame : ∀ (ops : List Op) (m : St),
    (run m ops).dir = m.dir ∧ (run m ops).levels = m.levels ∧ (run m ops).posLevels = m.posLevels
  | [], m => ⟨rfl, rfl, rfl⟩
  | o :: os, m => by
    simp only [run]
    split
    · rename_i m1 h1
      obtain ⟨a, b, c⟩ := step_frame h1
      obtain ⟨a', b', c'⟩ := run_frame os m1
      exact ⟨a'.trans a, b'.trans b, c'.trans c⟩
    · exact run_frame os m

theorem run_wf : ∀ (ops : List Op) (m : St), WF m → WF (run m ops)
  | [], m, hw => hw
  | o :: os, m, hw => by
    simp only [run]
    split
    · rename_i m1 h1
      exact run_wf os m1 (step_wf hw h1)
    · exact run_wf os m hw

theorem run_other : ∀ (ops : List Op) (m : St) (j : Nat),
    (∀ o ∈ ops, m.lvl j ≠ m.lvl o.node) → (run m ops).peerCoord j = m.peerCoord j
  | [], m, j, _ => rfl
  | o :: os, m, j, hj => by
    simp only [run]
    split
    · rename_i m1 h1
      obtain ⟨_, hl, _⟩ := step_frame h1
      have hlvl : ∀ el, m1.lvl el = m.lvl el := by intro el; simp only [St.lvl, hl]
      rw [run_other os m1 j (by
        intro o' ho'; rw [hlvl, hlvl]; exact hj o' (List.mem_cons_of_mem _ ho'))]
      exact step_other h1 j (hj o List.mem_cons_self)
    · exact run_other os m j (fun o' ho' => hj o' (List.mem_cons_of_mem _ ho'))

/-! ### the `pos` setter: membership facts of the sorts, then the round trip -/

theorem mem_insertDesc {a x : Rat} : ∀ {l : List Rat}, a ∈ insertDesc x l ↔ a = x ∨ a ∈ l
  | [] => by simp [insertDesc]
  | y :: ys => by
    simp only [insertDesc]
    split
    · rename_i h
      have : x = y := by simpa using h
      subst this
      simp
    · split
      · simp
      · simp only [List.mem_cons, mem_insertDesc (l := ys)]
        constructor
        · rintro (h | h | h) <;> simp [h]
        · rintro (h | h | h) <;> simp [h]

theorem mem_sortedSetDesc {a : Rat} : ∀ {l : List Rat}, a ∈ sortedSetDesc l ↔ a ∈ l
  | [] => by simp [sortedSetDesc]
  | x :: xs => by
    simp only [sortedSetDesc, mem_insertDesc, mem_sortedSetDesc (l := xs), List.mem_cons]

theorem mem_insertByKey {key : Nat → Rat} {a x : Nat} : ∀ {l : List Nat}, a ∈ insertByKey key x l ↔ a = x ∨ a ∈ l
  | [] => by simp [insertByKey]
  | y :: ys => by
    simp only [insertByKey]
    split
    · simp
    · simp only [List.mem_cons, mem_insertByKey (l := ys)]
      constructor
      · rintro (h | h | h) <;> simp [h]
      · rintro (h | h | h) <;> simp [h]

theorem mem_sortByKey {key : Nat → Rat} {a : Nat} : ∀ {l : List Nat}, a ∈ sortByKey key l ↔ a ∈ l
  | [] => by simp [sortByKey]
  | x :: xs => by
    simp only [sortByKey, mem_insertByKey, mem_sortByKey (l := xs), List.mem_cons]

theorem getD_idxOf_map {β} (f : Nat → β) (l : List Nat) (a : Nat) (d : β) (h : a ∈ l) :
    (l.map f).getD (l.idxOf a) d = f a := by
  have hlt : l.idxOf a < l.length := List.idxOf_lt_length_iff.mpr h
  rw [getD_map f l _ 0 d hlt]
  congr 1
  rw [List.getD_eq_getElem?_getD, List.getElem?_eq_getElem hlt]
  simp only [Option.getD_some]
  exact List.getElem_idxOf hlt

theorem getD_idxOf_self (l : List Rat) (c : Rat) (h : c ∈ l) : l.getD (l.idxOf c) 0 = c := by
  have hlt : l.idxOf c < l.length := List.idxOf_lt_length_iff.mpr h
  rw [List.getD_eq_getElem?_getD, List.getElem?_eq_getElem hlt]
  simp only [Option.getD_some]
  exact List.getElem_idxOf hlt

/-- the facts about a freshly loaded state from which round trip and `WF` follow -/
theorem loadState_spec (d : Dir) (val : List (Rat × Rat)) :
    WF (loadState d val) ∧
    ∀ el, el < val.length →
      (loadState d val).peerCoord el = (val.getD el (0, 0)).1 ∧
      (loadState d val).levelCoord el = (val.getD el (0, 0)).2 := by
  generalize hLC : sortedSetDesc (val.map (·.2)) = LC
  generalize hlevels : levelsOf LC val = levels
  have hmemLC : ∀ el, el < val.length → (val.getD el (0, 0)).2 ∈ LC := by
    intro el hel
    rw [← hLC]
    apply mem_sortedSetDesc.mpr
    apply List.mem_map.mpr
    refine ⟨val.getD el (0, 0), ?_, rfl⟩
    rw [List.getD_eq_getElem?_getD, List.getElem?_eq_getElem hel]
    simp only [Option.getD_some, List.getElem_mem]
  have hlev : ∀ el, el < val.length → levels.getD el 0 = LC.idxOf (val.getD el (0, 0)).2 := by
    intro el hel
    rw [← hlevels]
    exact getD_map (fun p : Rat × Rat => LC.idxOf p.2) val el (0, 0) 0 hel
  have hlevlt : ∀ el, el < val.length → levels.getD el 0 < LC.length := by
    intro el hel
    rw [hlev el hel]
    exact List.idxOf_lt_length_iff.mpr (hmemLC el hel)
  have hmemPeers : ∀ el, el < val.length → el ∈ peersOf val levels (levels.getD el 0) := by
    intro el hel
    apply mem_sortByKey.mpr
    apply List.mem_filter.mpr
    exact ⟨List.mem_range.mpr hel, by simp⟩
  have hpo : ∀ l, l < LC.length →
      ((List.range LC.length).map (peersOf val levels)).getD l [] = peersOf val levels l :=
    fun l hl => getD_map_range _ _ _ _ hl
  have hrow : ∀ l, l < LC.length →
      (((List.range LC.length).map (peersOf val levels)).map fun ps => ps.map (keyOf val)).getD l []
        = (peersOf val levels l).map (keyOf val) := by
    intro l hl
    rw [List.map_map]
    exact getD_map_range _ _ _ _ hl
  have hF1 : (loadState d val).levels = levels := by simp only [loadState, hLC, hlevels]
  have hF2 : (loadState d val).peersOrder = (List.range val.length).map fun el =>
      (((List.range LC.length).map (peersOf val levels)).getD (levels.getD el 0) []).idxOf el := by
    simp only [loadState, hLC, hlevels]
  have hF3 : (loadState d val).posLevels = LC := by simp only [loadState, hLC]
  have hF4 : (loadState d val).posPeers =
      ((List.range LC.length).map (peersOf val levels)).map fun ps => ps.map (keyOf val) := by
    simp only [loadState, hLC, hlevels]
  have hlen : levels.length = val.length := by rw [← hlevels]; simp only [levelsOf, List.length_map]
  have hord : ∀ el, el < val.length →
      (loadState d val).ord el = (peersOf val levels (levels.getD el 0)).idxOf el := by
    intro el hel
    simp only [St.ord, hF2]
    rw [getD_map_range _ _ _ _ hel, hpo _ (hlevlt el hel)]
  have hlvl : ∀ el, (loadState d val).lvl el = levels.getD el 0 := by
    intro el; simp only [St.lvl, hF1]
  have hrw : ∀ l, (loadState d val).row l =
      (((List.range LC.length).map (peersOf val levels)).map fun ps => ps.map (keyOf val)).getD l [] := by
    intro l; simp only [St.row, hF4]
  constructor
  · refine ⟨?_, ?_, ?_, ?_⟩
    · rw [hF1, hF2]; simp only [List.length_map, List.length_range, hlen]
    · rw [hF3, hF4]; simp only [List.length_map, List.length_range]
    · intro el hel
      simp only [St.n, hF1, hlen] at hel
      rw [hlvl, hF4]
      simp only [List.length_map, List.length_range]
      exact hlevlt el hel
    · intro el hel
      simp only [St.n, hF1, hlen] at hel
      rw [hord el hel, hlvl, hrw, hrow _ (hlevlt el hel), List.length_map]
      exact List.idxOf_lt_length_iff.mpr (hmemPeers el hel)
  · intro el hel
    constructor
    · simp only [St.peerCoord]
      rw [hord el hel, hlvl, hrw, hrow _ (hlevlt el hel)]
      exact getD_idxOf_map _ _ _ _ (hmemPeers el hel)
    · simp only [St.levelCoord]
      rw [hlvl, hF3, hlev el hel]
      exact getD_idxOf_self _ _ (hmemLC el hel)

theorem loadState_n (d : Dir) (val : List (Rat × Rat)) : (loadState d val).n = val.length := by
  simp only [loadState, St.n, levelsOf, List.length_map]

theorem loadState_dir (d : Dir) (val : List (Rat × Rat)) : (loadState d val).dir = d := rfl

theorem orient_back (d : Dir) (p : Rat × Rat) :
    (match d with
      | .v => ((orient d p).1, (orient d p).2)
      | .h => (-(orient d p).2, (orient d p).1)) = p := by
  cases d
  · rfl
  · simp only [orient]
    rw [Rat.neg_neg]

theorem getPos_eq (m : St) : getPos m = (List.range m.n).map fun el =>
    match m.dir with
    | .v => (m.peerCoord el, m.levelCoord el)
    | .h => (-(m.levelCoord el), m.peerCoord el) := by
  unfold getPos posx posy
  cases m.dir <;> simp only [List.zip_map'] <;> rfl

theorem range_map_getD {α} (l : List α) (d : α) : (List.range l.length).map (fun i => l.getD i d) = l := by
  apply List.ext_getElem
  · simp
  · intro i h1 h2
    simp [List.getD_eq_getElem?_getD, h2]

end Fca.Mover

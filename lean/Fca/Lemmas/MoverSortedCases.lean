/-
  The branch structure of `jitter_node` with its guards (inversion lemma for the `Sorted` proof).
-/
import Fca.Lemmas.MoverSorted
namespace Fca.Mover
open Fca.Layout (VErr)

/-- the branch taken by `jitter_node`, with its guard -/
theorem jitterNode_cases {m m' : St} {i : Nat} {dx : Rat} (h : jitterNode m i dx = .ok m') :
    i < m.n ∧
    ((0 ≤ dx ∧ m.ord i + 1 = (m.row (m.lvl i)).length ∧
        m' = setRow m (m.lvl i) (m.ord i) ((m.row (m.lvl i)).getD (m.ord i) 0 + dx)) ∨
     (¬ 0 ≤ dx ∧ m.ord i = 0 ∧
        m' = setRow m (m.lvl i) (m.ord i) ((m.row (m.lvl i)).getD (m.ord i) 0 + dx)) ∨
     (0 ≤ dx ∧ m.ord i + 1 ≠ (m.row (m.lvl i)).length ∧
        (m.row (m.lvl i)).getD (m.ord i) 0 + dx < (m.row (m.lvl i)).getD (m.ord i + 1) 0 ∧
        m' = setRow m (m.lvl i) (m.ord i) ((m.row (m.lvl i)).getD (m.ord i) 0 + dx)) ∨
     (¬ 0 ≤ dx ∧ m.ord i ≠ 0 ∧
        (m.row (m.lvl i)).getD (m.ord i - 1) 0 < (m.row (m.lvl i)).getD (m.ord i) 0 + dx ∧
        m' = setRow m (m.lvl i) (m.ord i) ((m.row (m.lvl i)).getD (m.ord i) 0 + dx)) ∨
     (0 ≤ dx ∧ (m.row (m.lvl i)).getD (m.ord i) 0 + dx ∉ m.row (m.lvl i) ∧
        ∃ m1, shiftNode m i ((((m.row (m.lvl i)).drop (m.ord i + 1)).filter
            fun x => decide (x < (m.row (m.lvl i)).getD (m.ord i) 0 + dx)).length : Int) = .ok m1 ∧
          m' = setRow m1 (m.lvl i) (m1.ord i) ((m.row (m.lvl i)).getD (m.ord i) 0 + dx)) ∨
     (¬ 0 ≤ dx ∧ (m.row (m.lvl i)).getD (m.ord i) 0 + dx ∉ m.row (m.lvl i) ∧
        ∃ m1, shiftNode m i (-((((m.row (m.lvl i)).take (m.ord i)).filter
            fun x => decide ((m.row (m.lvl i)).getD (m.ord i) 0 + dx < x)).length : Int)) = .ok m1 ∧
          m' = setRow m1 (m.lvl i) (m1.ord i) ((m.row (m.lvl i)).getD (m.ord i) 0 + dx))) := by
  unfold jitterNode at h
  split at h
  · rename_i hi
    refine ⟨hi, ?_⟩
    simp only at h
    by_cases hdx : 0 ≤ dx
    · simp only [hdx, ↓reduceIte] at h
      split at h
      · rename_i hb
        cases h
        exact Or.inl ⟨hdx, by simpa using hb, rfl⟩
      · rename_i hb
        split at h
        · rename_i hp
          cases h
          exact Or.inr (Or.inr (Or.inl ⟨hdx, by simpa using hb, by simpa using hp, rfl⟩))
        · split at h
          · cases h
          · rename_i hany
            split at h
            · cases h
            · rename_i m1 h1
              cases h
              refine Or.inr (Or.inr (Or.inr (Or.inr (Or.inl ⟨hdx, ?_, m1, h1, rfl⟩))))
              intro hmem
              apply hany
              simp only [List.any_eq_true, beq_iff_eq]
              exact ⟨_, hmem, rfl⟩
    · simp only [hdx, ↓reduceIte] at h
      split at h
      · rename_i hb
        cases h
        exact Or.inr (Or.inl ⟨hdx, by simpa using hb, rfl⟩)
      · rename_i hb
        split at h
        · rename_i hp
          cases h
          exact Or.inr (Or.inr (Or.inr (Or.inl ⟨hdx, by simpa using hb, by simpa using hp, rfl⟩)))
        · split at h
          · cases h
          · rename_i hany
            split at h
            · cases h
            · rename_i m1 h1
              cases h
              refine Or.inr (Or.inr (Or.inr (Or.inr (Or.inr ⟨hdx, ?_, m1, h1, rfl⟩))))
              intro hmem
              apply hany
              simp only [List.any_eq_true, beq_iff_eq]
              exact ⟨_, hmem, rfl⟩
  · cases h

end Fca.Mover

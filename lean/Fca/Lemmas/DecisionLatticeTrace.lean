/-
  Lemmas for C20, part 2 — the worklist of `trace_context(use_generators=True)` on a lattice whose
  generator dictionary has the shape `from_decision_tree` builds (root: the empty premise; every other
  node `k`: `{par k: [prem k]}`), generic in the node extents `E`.

  Result (`traceLoop_spec`): the loop terminates without error within `len(self)` iterations; the emitted
  generator records are exactly the record of the root and the records of the children of visited nodes;
  every node with a non-empty extent is visited.
-/
import Fca.Model.DecisionLattice
namespace Fca.DL
open Fca

/-! ### association lists -/

theorem alGet_alSet_same {α β : Type} [DecidableEq α] (l : List (α × β)) (k : α) (v : β) :
    alGet (alSet l k v) k = some v := by
  induction l with
  | nil => simp [alSet, alGet]
  | cons kv rest ih =>
    obtain ⟨k', v'⟩ := kv
    simp only [alSet]
    split
    · rename_i h; simp [alGet, h]
    · rename_i h; simp [alGet, h, ih]

theorem alGet_alSet_ne {α β : Type} [DecidableEq α] (l : List (α × β)) (k k' : α) (v : β) (h : k' ≠ k) :
    alGet (alSet l k v) k' = alGet l k' := by
  induction l with
  | nil => simp [alSet, alGet, Ne.symm h]
  | cons kv rest ih =>
    obtain ⟨a, b⟩ := kv
    simp only [alSet]
    split
    · rename_i hak
      subst hak
      simp [alGet, Ne.symm h]
    · simp only [alGet, ih]

theorem ensure_recs (s : TrSt) (c : Nat) : (ensure s c).recs = s.recs := by
  unfold ensure; split <;> rfl

theorem ensure_get_ne (s : TrSt) (c k : Nat) (h : k ≠ c) : alGet (ensure s c).ce k = alGet s.ce k := by
  unfold ensure
  split
  · rfl
  · exact alGet_alSet_ne _ _ _ _ h

theorem ensure_of_some (s : TrSt) (c : Nat) (v : CE) (h : alGet s.ce c = some v) : ensure s c = s := by
  unfold ensure; rw [h]

theorem ensure_get_of_none (s : TrSt) (c : Nat) (h : alGet s.ce c = none) :
    alGet (ensure s c).ce c = some (.nested []) := by
  unfold ensure; rw [h]; exact alGet_alSet_same _ _ _

theorem setUnion_nil_left (e : List Nat) : setUnion [] e = e := by
  simp [setUnion]

/-! ### the stable sort only permutes -/

theorem insBySupport_perm (sup : Nat → Nat) (x : Nat) : ∀ l : List Nat, (insBySupport sup x l).Perm (x :: l) := by
  intro l
  induction l with
  | nil => exact List.Perm.refl _
  | cons y ys ih =>
    simp only [insBySupport]
    split
    · exact ((List.Perm.cons y ih).trans (List.Perm.swap x y ys))
    · exact List.Perm.refl _

theorem sortBySupport_perm (sup : Nat → Nat) : ∀ l : List Nat, (sortBySupport sup l).Perm l := by
  intro l
  induction l with
  | nil => exact List.Perm.refl _
  | cons x xs ih =>
    simp only [sortBySupport]
    exact (insBySupport_perm sup x _).trans (List.Perm.cons x ih)

/-! ### the specification the lattice has to meet -/

/-- the lattice-as-data has the generator dictionary of a converted tree with parent function `par`,
    direct premises `prem` and node extents `E` in the traced context -/
structure TSpec (L : Lat) (X : Rows) (m n : Nat) (par : Nat → Nat) (prem : Nat → Prem)
    (E : Nat → List Nat) : Prop where
  npos : 0 < n
  top0 : L.top = 0
  glen : L.gens.length = n
  g0 : L.gens[0]? = some (.flat [])
  gk : ∀ k, 0 < k → k < n → L.gens[k]? = some (.cond [(par k, [prem k])])
  parlt : ∀ k, 0 < k → k < n → par k < k
  e0 : extensionI X m [] none = .ok (E 0)
  ek : ∀ k, 0 < k → k < n → extensionI X m (prem k) (some (E (par k))) = .ok (E k)
  esub : ∀ k, 0 < k → k < n → ∀ g ∈ E k, g ∈ E (par k)
  clen : n ≤ L.concepts.length

/-- the generator record of node `k` -/
def recOf (par : Nat → Nat) (prem : Nat → Prem) (E : Nat → List Nat) (k : Nat) : GenRec :=
  if k = 0 then ⟨none, 0, E 0, []⟩ else ⟨some (par k), k, E k, prem k⟩

theorem recOf_concept (par : Nat → Nat) (prem : Nat → Prem) (E : Nat → List Nat) (k : Nat) :
    (recOf par prem E k).concept = k := by
  unfold recOf; split
  · rename_i h; simp [h]
  · rfl

theorem recOf_ext (par : Nat → Nat) (prem : Nat → Prem) (E : Nat → List Nat) (k : Nat) :
    (recOf par prem E k).ext = E k := by
  unfold recOf; split
  · rename_i h; simp [h]
  · rfl

section
variable {L : Lat} {X : Rows} {m n : Nat} {par : Nat → Nat} {prem : Nat → Prem} {E : Nat → List Nat}

/-- invariant of the memo `concept_extents` and of the record list: `D` = nodes whose record was emitted -/
structure SInv (n : Nat) (par : Nat → Nat) (prem : Nat → Prem) (E : Nat → List Nat)
    (s : TrSt) (D : Nat → Prop) : Prop where
  hit : ∀ k, 0 < k → D k → k < n ∧ alGet s.ce k = some (.nested [(some (par k), E k), (none, E k)])
  miss : ∀ k, 0 < k → ¬ D k → alGet s.ce k = none
  recs : ∀ r, r ∈ s.recs ↔ ∃ k, D k ∧ r = recOf par prem E k

theorem SInv.congr {s : TrSt} {D D' : Nat → Prop} (h : ∀ x, D x ↔ D' x) (hi : SInv n par prem E s D) :
    SInv n par prem E s D' := by
  refine ⟨?_, ?_, ?_⟩
  · intro k hk hd; exact hi.hit k hk ((h k).mpr hd)
  · intro k hk hd; exact hi.miss k hk (fun h' => hd ((h k).mp h'))
  · intro r; rw [hi.recs r]
    constructor
    · rintro ⟨k, hk, e⟩; exact ⟨k, (h k).mp hk, e⟩
    · rintro ⟨k, hk, e⟩; exact ⟨k, (h k).mpr hk, e⟩

/-- `stored_extension(c, superconcept_i=None)` for the root or an already traced node -/
theorem storedExtNone_spec (h : TSpec L X m n par prem E) (s : TrSt) (c : Nat)
    (hc : c = 0 ∨ (0 < c ∧ alGet s.ce c = some (.nested [(some (par c), E c), (none, E c)]))) :
    ∃ s', storedExtNone L X m s c = .ok (s', E c) ∧
      (∀ k, k ≠ 0 → alGet s'.ce k = alGet s.ce k) ∧
      (∀ r, r ∈ s'.recs ↔ r ∈ s.recs ∨ (c = 0 ∧ r = recOf par prem E 0)) := by
  rcases hc with rfl | ⟨hpos, hce⟩
  · refine ⟨{ ce := alSet (ensure s 0).ce 0 (.flat (E 0)),
              recs := (ensure s 0).recs ++ [⟨none, 0, E 0, []⟩] }, ?_, ?_, ?_⟩
    · simp only [storedExtNone, h.top0, if_true, storedTop, h.g0, h.e0]
    · intro k hk
      simp only
      rw [alGet_alSet_ne _ _ _ _ hk, ensure_get_ne _ _ _ hk]
    · intro r
      simp only [List.mem_append, List.mem_singleton, ensure_recs, recOf, if_true, true_and]
  · refine ⟨s, ?_, fun _ _ => rfl, ?_⟩
    · have hne : ¬ c = L.top := by rw [h.top0]; omega
      simp only [storedExtNone, ensure_of_some s c _ hce, if_neg hne, hce, alGet]
      simp
    · intro r
      constructor
      · intro hr; exact Or.inl hr
      · rintro (hr | ⟨h0, _⟩)
        · exact hr
        · omega

/-- `stored_extension(k, superconcept_i=par k)` when `k` has not been traced yet -/
theorem storedExt_fresh (h : TSpec L X m n par prem E) {s : TrSt} {D : Nat → Prop}
    (hi : SInv n par prem E s D) (k : Nat) (hk0 : 0 < k) (hkn : k < n) (hnd : ¬ D k) (hp : D (par k)) :
    ∃ s', storedExt L X m s k (par k) = .ok (s', E k) ∧
      SInv n par prem E s' (fun x => x = k ∨ D x) := by
  have hplt := h.parlt k hk0 hkn
  have hpk : par k ≠ k := by omega
  have hmiss := hi.miss k hk0 hnd
  -- the call for the superconcept
  have hpre : par k = 0 ∨ (0 < par k ∧ alGet (ensure s k).ce (par k)
      = some (.nested [(some (par (par k)), E (par k)), (none, E (par k))])) := by
    by_cases hp0 : par k = 0
    · exact Or.inl hp0
    · right
      have hpos : 0 < par k := by omega
      exact ⟨hpos, by rw [ensure_get_ne _ _ _ hpk]; exact (hi.hit _ hpos hp).2⟩
  obtain ⟨s2, hs2, hce2, hrec2⟩ := storedExtNone_spec h (ensure s k) (par k) hpre
  have hk0' : k ≠ 0 := by omega
  have hce2k : alGet s2.ce k = some (.nested []) := by
    rw [hce2 k hk0']; exact ensure_get_of_none s k hmiss
  have hne : ¬ k = L.top := by rw [h.top0]; omega
  refine ⟨{ ce := alSet s2.ce k (.nested [(some (par k), E k), (none, E k)]),
            recs := s2.recs ++ [⟨some (par k), k, E k, prem k⟩] }, ?_, ?_⟩
  · simp only [storedExt, if_neg hne, ensure_get_of_none s k hmiss, alGet, h.gk k hk0 hkn, if_true, hs2,
      genLoop, h.ek k hk0 hkn, setUnion_nil_left, hce2k, alSet, ite_self]
    simp [setUnion_nil_left]
  · refine ⟨?_, ?_, ?_⟩
    · intro j hj hd
      by_cases hjk : j = k
      · subst hjk
        exact ⟨hkn, by simp only; exact alGet_alSet_same _ _ _⟩
      · have hdj : D j := by rcases hd with e | e; exact absurd e hjk; exact e
        refine ⟨(hi.hit j hj hdj).1, ?_⟩
        simp only
        rw [alGet_alSet_ne _ _ _ _ hjk, hce2 j (by omega), ensure_get_ne _ _ _ hjk]
        exact (hi.hit j hj hdj).2
    · intro j hj hd
      have hjk : j ≠ k := fun e => hd (Or.inl e)
      simp only
      rw [alGet_alSet_ne _ _ _ _ hjk, hce2 j (by omega), ensure_get_ne _ _ _ hjk]
      exact hi.miss j hj (fun e => hd (Or.inr e))
    · intro r
      simp only [List.mem_append, List.mem_singleton, hrec2, ensure_recs, hi.recs]
      constructor
      · rintro ((⟨j, hj, e⟩ | ⟨hp0, e⟩) | e)
        · exact ⟨j, Or.inr hj, e⟩
        · exact ⟨0, Or.inr (hp0 ▸ hp), e⟩
        · refine ⟨k, Or.inl rfl, ?_⟩
          rw [e]; simp [recOf, hk0']
      · rintro ⟨j, hj | hj, e⟩
        · right; subst hj; rw [e]; simp [recOf, hk0']
        · exact Or.inl (Or.inl ⟨j, hj, e⟩)

/-- `stored_extension(k, superconcept_i=par k)` when it is memoised -/
theorem storedExt_cached (h : TSpec L X m n par prem E) {s : TrSt} {D : Nat → Prop}
    (hi : SInv n par prem E s D) (k : Nat) (hk0 : 0 < k) (hd : D k) :
    storedExt L X m s k (par k) = .ok (s, E k) := by
  obtain ⟨_, hce⟩ := hi.hit k hk0 hd
  have hne : ¬ k = L.top := by rw [h.top0]; omega
  simp only [storedExt, ensure_of_some s k _ hce, if_neg hne, hce, alGet, if_true]

theorem passOne_spec (h : TSpec L X m n par prem E) (c : Nat) :
    ∀ (ks : List Nat) (s : TrSt) (D : Nat → Prop), SInv n par prem E s D → D c → ks.Nodup →
      (∀ k ∈ ks, 0 < k ∧ k < n ∧ par k = c ∧ ¬ D k) →
      ∃ s', passOne L X m c ks s = .ok s' ∧ SInv n par prem E s' (fun x => x ∈ ks ∨ D x) := by
  intro ks
  induction ks with
  | nil =>
    intro s D hi _ _ _
    exact ⟨s, rfl, hi.congr (fun x => by simp)⟩
  | cons k ks ih =>
    intro s D hi hc hnd hks
    obtain ⟨hk0, hkn, hpar, hndk⟩ := hks k List.mem_cons_self
    obtain ⟨s1, hs1, hi1⟩ := storedExt_fresh h hi k hk0 hkn hndk (hpar ▸ hc)
    have hnd' := List.nodup_cons.mp hnd
    obtain ⟨s2, hs2, hi2⟩ := ih s1 (fun x => x = k ∨ D x) hi1 (Or.inr hc) hnd'.2 (by
      intro k' hk'
      obtain ⟨a, b, c', d⟩ := hks k' (List.mem_cons_of_mem _ hk')
      refine ⟨a, b, c', ?_⟩
      rintro (e | e)
      · exact hnd'.1 (e ▸ hk')
      · exact d e)
    refine ⟨s2, ?_, hi2.congr (fun x => by simp only [List.mem_cons]; grind)⟩
    simp only [passOne]
    rw [← hpar, hs1]
    simp only
    rw [hpar]; exact hs2

theorem passTwo_spec (h : TSpec L X m n par prem E) (c : Nat) (visited queue : List Nat)
    {s : TrSt} {D : Nat → Prop} (hi : SInv n par prem E s D) :
    ∀ (ks : List Nat), (∀ k ∈ ks, 0 < k ∧ par k = c ∧ D k) →
      passTwo L X m c visited queue ks s = .ok (s, ks.filter fun k =>
        decide ((E k).length > 0) && !visited.contains k && !queue.contains k) := by
  intro ks
  induction ks with
  | nil => intro _; rfl
  | cons k ks ih =>
    intro hks
    obtain ⟨hk0, hpar, hd⟩ := hks k List.mem_cons_self
    have h1 := storedExt_cached h hi k hk0 hd
    rw [hpar] at h1
    simp only [passTwo, h1, ih (fun k' hk' => hks k' (List.mem_cons_of_mem _ hk')), List.filter_cons]
    split <;> rfl

theorem mem_subconceptsOf (h : TSpec L X m n par prem E) (c k : Nat) :
    k ∈ subconceptsOf L c ↔ 0 < k ∧ k < n ∧ par k = c := by
  simp only [subconceptsOf, List.mem_filter, List.mem_range, h.glen]
  constructor
  · rintro ⟨hkn, hk⟩
    by_cases hk0 : k = 0
    · subst hk0
      have := h.g0
      simp [List.getD_eq_getElem?_getD, this, GenEntry.hasKey] at hk
    · have hpos : 0 < k := by omega
      have := h.gk k hpos hkn
      simp [List.getD_eq_getElem?_getD, this, GenEntry.hasKey] at hk
      exact ⟨hpos, hkn, hk⟩
  · rintro ⟨hpos, hkn, hpar⟩
    refine ⟨hkn, ?_⟩
    have := h.gk k hpos hkn
    simp [List.getD_eq_getElem?_getD, this, GenEntry.hasKey, hpar]

theorem subconceptsOf_nodup (c : Nat) : (subconceptsOf L c).Nodup := by
  unfold subconceptsOf
  exact List.Nodup.sublist List.filter_sublist List.nodup_range

/-- the set of nodes whose record has been emitted once the nodes of `V` have been visited -/
def DV (n : Nat) (par : Nat → Nat) (V : List Nat) (x : Nat) : Prop :=
  (x = 0 ∧ 0 ∈ V) ∨ (0 < x ∧ x < n ∧ par x ∈ V)

/-- the loop invariant of `trace_context` -/
structure LInv (n : Nat) (par : Nat → Nat) (prem : Nat → Prem) (E : Nat → List Nat)
    (s : TrSt) (Q V : List Nat) : Prop where
  sinv : SInv n par prem E s (DV n par V)
  nodup : (Q ++ V).Nodup
  lt : ∀ x ∈ Q ++ V, x < n
  top : 0 ∈ Q ++ V
  queued : ∀ x ∈ Q ++ V, x ≠ 0 → par x ∈ V
  closed : ∀ v ∈ V, ∀ k, 0 < k → k < n → par k = v → E k ≠ [] → k ∈ Q ++ V


theorem linv_step (h : TSpec L X m n par prem E) {s : TrSt} {c : Nat} {rest V : List Nat}
    (hi : LInv n par prem E s (c :: rest) V) :
    ∃ s1 e s2 news, storedExtNone L X m s c = .ok (s1, e) ∧
      passOne L X m c (subconceptsOf L c) s1 = .ok s2 ∧
      passTwo L X m c (c :: V) rest (subconceptsOf L c) s2 = .ok (s2, news) ∧
      ∀ sup : Nat → Nat, LInv n par prem E s2 (rest ++ sortBySupport sup news) (c :: V) := by
  -- facts about the popped node
  have hnd0 : (c :: (rest ++ V)).Nodup := by simpa using hi.nodup
  obtain ⟨hc_notin, hndrv⟩ := List.nodup_cons.mp hnd0
  obtain ⟨hndr, hndv, hdisj⟩ := List.nodup_append.mp hndrv
  have hcr : c ∉ rest := fun hh => hc_notin (List.mem_append_left _ hh)
  have hcv : c ∉ V := fun hh => hc_notin (List.mem_append_right _ hh)
  have hcn : c < n := hi.lt c (by simp)
  have hparc : c ≠ 0 → par c ∈ V := hi.queued c (by simp)
  -- the call for the node itself
  have hpre : c = 0 ∨ (0 < c ∧ alGet s.ce c = some (.nested [(some (par c), E c), (none, E c)])) := by
    by_cases hc0 : c = 0
    · exact Or.inl hc0
    · have hpos : 0 < c := by omega
      exact Or.inr ⟨hpos, (hi.sinv.hit c hpos (Or.inr ⟨hpos, hcn, hparc hc0⟩)).2⟩
  obtain ⟨s1, hs1, hce1, hrec1⟩ := storedExtNone_spec h s c hpre
  let D1 : Nat → Prop := fun x => (x = 0 ∧ 0 ∈ c :: V) ∨ (0 < x ∧ x < n ∧ par x ∈ V)
  have hi1 : SInv n par prem E s1 D1 := by
    refine ⟨?_, ?_, ?_⟩
    · intro k hk hd
      have hd' : DV n par V k := by
        rcases hd with ⟨e, _⟩ | hd
        · omega
        · exact Or.inr hd
      rw [hce1 k (by omega)]
      exact hi.sinv.hit k hk hd'
    · intro k hk hd
      rw [hce1 k (by omega)]
      apply hi.sinv.miss k hk
      rintro (⟨e, _⟩ | hd')
      · omega
      · exact hd (Or.inr hd')
    · intro r
      rw [hrec1, hi.sinv.recs]
      constructor
      · rintro (⟨k, hk, e⟩ | ⟨hc0, e⟩)
        · rcases hk with ⟨k0, hv⟩ | hk
          · exact ⟨k, Or.inl ⟨k0, List.mem_cons_of_mem _ hv⟩, e⟩
          · exact ⟨k, Or.inr hk, e⟩
        · exact ⟨0, Or.inl ⟨rfl, by simp [hc0]⟩, e⟩
      · rintro ⟨k, hk, e⟩
        rcases hk with ⟨k0, hv⟩ | hk
        · rcases List.mem_cons.mp hv with hv | hv
          · exact Or.inr ⟨hv.symm, k0 ▸ e⟩
          · exact Or.inl ⟨k, Or.inl ⟨k0, hv⟩, e⟩
        · exact Or.inl ⟨k, Or.inr hk, e⟩
  have hD1c : D1 c := by
    by_cases hc0 : c = 0
    · exact Or.inl ⟨hc0, by simp [hc0]⟩
    · exact Or.inr ⟨by omega, hcn, hparc hc0⟩
  have hsubs : ∀ k ∈ subconceptsOf L c, 0 < k ∧ k < n ∧ par k = c ∧ ¬ D1 k := by
    intro k hk
    obtain ⟨a, b, d⟩ := (mem_subconceptsOf h c k).mp hk
    refine ⟨a, b, d, ?_⟩
    rintro (⟨e, _⟩ | ⟨_, _, hv⟩)
    · omega
    · exact hcv (d ▸ hv)
  obtain ⟨s2, hs2, hi2⟩ := passOne_spec h c _ s1 D1 hi1 hD1c (subconceptsOf_nodup c) hsubs
  have hp2 := passTwo_spec h c (c :: V) rest hi2 (subconceptsOf L c) (by
    intro k hk
    obtain ⟨a, _, d, _⟩ := hsubs k hk
    exact ⟨a, d, Or.inl hk⟩)
  refine ⟨s1, E c, s2, _, hs1, hs2, hp2, ?_⟩
  intro sup
  -- the new queue
  have hmemN : ∀ k, k ∈ sortBySupport sup ((subconceptsOf L c).filter fun k =>
      decide ((E k).length > 0) && !(c :: V).contains k && !rest.contains k)
      ↔ (0 < k ∧ k < n ∧ par k = c) ∧ E k ≠ [] ∧ k ∉ c :: V ∧ k ∉ rest := by
    intro k
    rw [(sortBySupport_perm sup _).mem_iff, List.mem_filter, mem_subconceptsOf h c k]
    simp only [Bool.and_eq_true, decide_eq_true_eq, Bool.not_eq_true', List.contains_eq_mem,
      decide_eq_false_iff_not, List.length_pos_iff, gt_iff_lt]
    constructor
    · rintro ⟨a, ⟨b, d⟩, e⟩; exact ⟨a, b, d, e⟩
    · rintro ⟨a, b, d, e⟩; exact ⟨a, ⟨b, d⟩, e⟩
  have hndN : (sortBySupport sup ((subconceptsOf L c).filter fun k =>
      decide ((E k).length > 0) && !(c :: V).contains k && !rest.contains k)).Nodup :=
    (sortBySupport_perm sup _).nodup_iff.mpr
      (List.Nodup.sublist List.filter_sublist (subconceptsOf_nodup c))
  refine ⟨?_, ?_, ?_, ?_, ?_, ?_⟩
  · refine hi2.congr ?_
    intro x
    simp only [mem_subconceptsOf h c x, D1, DV, List.mem_cons]
    constructor
    · rintro (⟨a, b, d⟩ | ⟨a, b⟩ | ⟨a, b, d⟩)
      · exact Or.inr ⟨a, b, Or.inl d⟩
      · exact Or.inl ⟨a, b⟩
      · exact Or.inr ⟨a, b, Or.inr d⟩
    · rintro (⟨a, b⟩ | ⟨a, b, d | d⟩)
      · exact Or.inr (Or.inl ⟨a, b⟩)
      · exact Or.inl ⟨a, b, d⟩
      · exact Or.inr (Or.inr ⟨a, b, d⟩)
  · rw [List.nodup_append]
    refine ⟨?_, ?_, ?_⟩
    · rw [List.nodup_append]
      refine ⟨hndr, hndN, ?_⟩
      intro a ha b hb hab
      exact ((hmemN b).mp hb).2.2.2 (hab ▸ ha)
    · exact List.nodup_cons.mpr ⟨hcv, hndv⟩
    · intro a ha b hb hab
      rcases List.mem_append.mp ha with ha | ha
      · rcases List.mem_cons.mp hb with hb | hb
        · exact hcr (hb ▸ hab ▸ ha)
        · exact hdisj a ha b hb hab
      · exact ((hmemN a).mp ha).2.2.1 (hab ▸ hb)
  · intro x hx
    rcases List.mem_append.mp hx with hx | hx
    · rcases List.mem_append.mp hx with hx | hx
      · exact hi.lt x (by simp [hx])
      · exact ((hmemN x).mp hx).1.2.1
    · rcases List.mem_cons.mp hx with hx | hx
      · exact hx ▸ hcn
      · exact hi.lt x (by simp [hx])
  · have := hi.top
    simp only [List.mem_append, List.mem_cons] at this ⊢
    rcases this with (e | e) | e
    · exact Or.inr (Or.inl e)
    · exact Or.inl (Or.inl e)
    · exact Or.inr (Or.inr e)
  · intro x hx hx0
    rcases List.mem_append.mp hx with hx | hx
    · rcases List.mem_append.mp hx with hx | hx
      · exact List.mem_cons_of_mem _ (hi.queued x (by simp [hx]) hx0)
      · rw [((hmemN x).mp hx).1.2.2]; exact List.mem_cons_self
    · rcases List.mem_cons.mp hx with hx | hx
      · exact List.mem_cons_of_mem _ (hx ▸ hparc (hx ▸ hx0))
      · exact List.mem_cons_of_mem _ (hi.queued x (by simp [hx]) hx0)
  · intro v hv k hk0 hkn hpar hne
    rcases List.mem_cons.mp hv with hv | hv
    · subst hv
      by_cases h1 : k ∈ v :: V
      · exact List.mem_append_right _ h1
      · by_cases h2 : k ∈ rest
        · exact List.mem_append_left _ (List.mem_append_left _ h2)
        · exact List.mem_append_left _ (List.mem_append_right _
            ((hmemN k).mpr ⟨⟨hk0, hkn, hpar⟩, hne, h1, h2⟩))
    · have := hi.closed v hv k hk0 hkn hpar hne
      simp only [List.mem_append, List.mem_cons] at this ⊢
      rcases this with (e | e) | e
      · exact Or.inr (Or.inl e)
      · exact Or.inl (Or.inl e)
      · exact Or.inr (Or.inr e)


/-- pigeonhole: once `n` nodes have been visited the queue is empty -/
theorem queue_nil_of_full {s : TrSt} {Q V : List Nat} (hi : LInv n par prem E s Q V) (hfull : n ≤ V.length) :
    Q = [] := by
  cases Q with
  | nil => rfl
  | cons q qs =>
    exfalso
    have hnd0 : (q :: (qs ++ V)).Nodup := by simpa using hi.nodup
    obtain ⟨hq, hndrv⟩ := List.nodup_cons.mp hnd0
    have hndv := (List.nodup_append.mp hndrv).2.1
    have hnd2 : (q :: V).Nodup :=
      List.nodup_cons.mpr ⟨fun hh => hq (List.mem_append_right _ hh), hndv⟩
    have hsub : (q :: V) ⊆ List.range n := by
      intro x hx
      rw [List.mem_range]
      apply hi.lt x
      rcases List.mem_cons.mp hx with hx | hx
      · simp [hx]
      · simp [hx]
    have := List.Nodup.length_le_of_subset hnd2 hsub
    simp only [List.length_cons, List.length_range] at this
    omega

theorem traceLoop_inv (h : TSpec L X m n par prem E) :
    ∀ (fuel : Nat) (Q V : List Nat) (s : TrSt), LInv n par prem E s Q V → n ≤ V.length + fuel →
      ∃ s' V', traceLoop L X m fuel Q V s = .ok s' ∧ LInv n par prem E s' [] V' := by
  intro fuel
  induction fuel with
  | zero =>
    intro Q V s hi hf
    have hq := queue_nil_of_full hi (by omega)
    subst hq
    exact ⟨s, V, by simp [traceLoop], hi⟩
  | succ fuel ih =>
    intro Q V s hi hf
    cases Q with
    | nil => exact ⟨s, V, by simp [traceLoop], hi⟩
    | cons c rest =>
      obtain ⟨s1, e, s2, news, h1, h2, h3, h4⟩ := linv_step h hi
      obtain ⟨s', V', hs', hi'⟩ := ih _ (c :: V) s2
        (h4 (fun k => (L.concepts.getD k default).support))
        (by simp only [List.length_cons]; omega)
      refine ⟨s', V', ?_, hi'⟩
      simp only [traceLoop, h1, h2, h3]
      exact hs'

/-- the records the trace emits, the visited set, and its closure -/
theorem traceLoop_spec (h : TSpec L X m n par prem E) :
    ∃ s V, traceLoop L X m L.concepts.length [L.top] [] ⟨[], []⟩ = .ok s ∧
      (∀ r, r ∈ s.recs ↔ ∃ k, DV n par V k ∧ r = recOf par prem E k) ∧
      0 ∈ V ∧ (∀ k, k < n → E k ≠ [] → k ∈ V) := by
  have hinit : LInv n par prem E ⟨[], []⟩ [0] [] := by
    refine ⟨⟨?_, ?_, ?_⟩, ?_, ?_, ?_, ?_, ?_⟩
    · intro k _ hd
      rcases hd with ⟨_, hv⟩ | ⟨_, _, hv⟩ <;> simp at hv
    · intro k _ _; rfl
    · intro r
      constructor
      · intro hr; simp at hr
      · rintro ⟨k, hd, _⟩
        rcases hd with ⟨_, hv⟩ | ⟨_, _, hv⟩ <;> simp at hv
    · simp
    · intro x hx; simp at hx; subst hx; exact h.npos
    · simp
    · intro x hx hx0; simp at hx; exact absurd hx hx0
    · intro v hv; simp at hv
  obtain ⟨s, V, hs, hi⟩ := traceLoop_inv h L.concepts.length [0] [] ⟨[], []⟩ hinit
    (by simp only [List.length_nil, Nat.zero_add]; exact h.clen)
  have h0 : 0 ∈ V := by simpa using hi.top
  refine ⟨s, V, by rw [h.top0]; exact hs, hi.sinv.recs, h0, ?_⟩
  intro k
  induction k using Nat.strongRecOn with
  | _ k ih =>
    intro hkn hne
    by_cases hk0 : k = 0
    · exact hk0 ▸ h0
    · have hpos : 0 < k := by omega
      obtain ⟨g, hg⟩ := List.exists_mem_of_ne_nil _ hne
      have hgp := h.esub k hpos hkn g hg
      have hplt := h.parlt k hpos hkn
      have hpv := ih (par k) hplt (by omega) (List.ne_nil_of_mem hgp)
      simpa using hi.closed (par k) hpv k hpos hkn rfl hne


/-! ### from the emitted records to the per-row view -/

theorem nodup_eraseDups_aux : ∀ (k : Nat) (l : List GenRec), l.length ≤ k → l.eraseDups.Nodup := by
  intro k
  induction k with
  | zero =>
    intro l hl
    have : l = [] := List.eq_nil_of_length_eq_zero (by omega)
    subst this; simp
  | succ k ih =>
    intro l hl
    cases l with
    | nil => simp
    | cons a as =>
      rw [List.eraseDups_cons, List.nodup_cons]
      refine ⟨?_, ih _ ?_⟩
      · intro hmem
        rw [List.mem_eraseDups, List.mem_filter] at hmem
        simp at hmem
      · have := List.length_filter_le (fun b => !b == a) as
        simp only [List.length_cons] at hl
        omega

theorem nodup_eraseDups (l : List GenRec) : l.eraseDups.Nodup := nodup_eraseDups_aux l.length l (Nat.le_refl _)

theorem nodup_map_of_inj_on {α β : Type} (f : α → β) {l : List α} (hnd : l.Nodup)
    (hinj : ∀ a ∈ l, ∀ b ∈ l, f a = f b → a = b) : (l.map f).Nodup := by
  induction l with
  | nil => simp
  | cons x xs ih =>
    obtain ⟨hx, hxs⟩ := List.nodup_cons.mp hnd
    rw [List.map_cons, List.nodup_cons]
    refine ⟨?_, ih hxs (fun a ha b hb => hinj a (List.mem_cons_of_mem _ ha) b (List.mem_cons_of_mem _ hb))⟩
    intro hmem
    obtain ⟨y, hy, hxy⟩ := List.mem_map.mp hmem
    have := hinj y (List.mem_cons_of_mem _ hy) x List.mem_cons_self hxy
    exact hx (this ▸ hy)

/-- The trace returns (in the unspecified set order) duplicate-free records, each the record of a node,
    and for every row `g` the nodes whose record contains `g` are exactly the nodes `c < n` with `g ∈ E c`. -/
theorem traceContext_rows (h : TSpec L X m n par prem E) (order : List GenRec → List GenRec)
    (horder : ∀ l, (order l).Perm l) :
    ∃ recs, traceContext L X m order = .ok recs ∧
      (∀ r ∈ recs, ∃ k, k < n ∧ r = recOf par prem E k) ∧
      ∀ g, ((recs.filter fun r => r.ext.contains g).map (·.concept)).Nodup ∧
        ∀ c, c ∈ (recs.filter fun r => r.ext.contains g).map (·.concept) ↔ c < n ∧ g ∈ E c := by
  obtain ⟨s, V, hs, hrecs, h0, hclosed⟩ := traceLoop_spec h
  have hDVlt : ∀ k, DV n par V k → k < n := by
    rintro k (⟨e, _⟩ | ⟨_, e, _⟩)
    · exact e ▸ h.npos
    · exact e
  have hmem : ∀ r, r ∈ order s.recs.eraseDups ↔ ∃ k, DV n par V k ∧ r = recOf par prem E k := by
    intro r
    rw [(horder _).mem_iff, List.mem_eraseDups, hrecs]
  have hnd : (order s.recs.eraseDups).Nodup := (horder _).nodup_iff.mpr (nodup_eraseDups _)
  refine ⟨order s.recs.eraseDups, by simp only [traceContext, hs], ?_, ?_⟩
  · intro r hr
    obtain ⟨k, hk, e⟩ := (hmem r).mp hr
    exact ⟨k, hDVlt k hk, e⟩
  · intro g
    constructor
    · apply nodup_map_of_inj_on _ (List.Nodup.sublist List.filter_sublist hnd)
      intro a ha b hb hab
      obtain ⟨ka, _, ea⟩ := (hmem a).mp (List.mem_filter.mp ha).1
      obtain ⟨kb, _, eb⟩ := (hmem b).mp (List.mem_filter.mp hb).1
      rw [ea, eb, recOf_concept, recOf_concept] at hab
      rw [ea, eb, hab]
    · intro c
      simp only [List.mem_map, List.mem_filter, List.contains_eq_mem, decide_eq_true_eq]
      constructor
      · rintro ⟨r, ⟨hr, hg⟩, hc⟩
        obtain ⟨k, hk, e⟩ := (hmem r).mp hr
        rw [e, recOf_concept] at hc
        rw [e, recOf_ext] at hg
        subst hc
        exact ⟨hDVlt k hk, hg⟩
      · rintro ⟨hcn, hg⟩
        refine ⟨recOf par prem E c, ⟨(hmem _).mpr ⟨c, ?_, rfl⟩, by rw [recOf_ext]; exact hg⟩, recOf_concept _ _ _ c⟩
        by_cases hc0 : c = 0
        · exact Or.inl ⟨hc0, h0⟩
        · have hpos : 0 < c := by omega
          have hgp := h.esub c hpos hcn g hg
          have hplt := h.parlt c hpos hcn
          exact Or.inr ⟨hpos, hcn, hclosed (par c) (by omega) (List.ne_nil_of_mem hgp)⟩

end
end Fca.DL

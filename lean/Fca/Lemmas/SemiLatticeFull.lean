/-
  Lemmas/SemiLatticeFull — with C09's complete step theorems: a non-refused mutation of a semilattice never raises,
  the `POSet` cache invariant is preserved, and every output is the specified one.
-/
import Fca.Lemmas.SemiLatticeAdd
set_option linter.unusedSectionVars false
set_option linter.unusedVariables false
namespace Fca.SemiLattice
open Fca Fca.Poset Fca.Poset.Fresh Fca.SemiLattice.Spec

section
variable {α : Type} [DecidableEq α] {leq : α → α → Bool} {ord : List Nat → List Nat} {U : α → Prop}

/-! ### a non-refused mutation returns as soon as the `POSet` part returns -/

theorem addSL_ok (hpoU : PO leq U) {s : SL α} (hI : InvTop leq s) (hnd : s.p.elems.Nodup)
    (hU : ∀ a ∈ s.p.elems, U a) {e : α} (heU : U e) (fill : Bool)
    (href : refusal leq s.cls s.p.elems (.add e fill) = none) {s1 : SL α}
    (hr : posetAddSL leq ord e fill s = (s1, .ok ())) :
    ∃ s', addSL leq ord e fill s = (s', .ok ()) ∧ s'.p = s1.p := by
  have hpo : IdxPO leq s.p.elems := idxPO_of hpoU hnd hU
  have hadd := posetAddSL_spec (leq := leq) (ord := ord) (invTop_good hI) e fill
  rw [hr] at hadd
  obtain ⟨a1, a2, a3, a4, a5, a6⟩ := hadd
  simp only at a1 a2 a3 a4 a5 a6
  cases hcls : s.cls with
  | upper =>
    obtain ⟨t, x, ht, hc, hx, hg, hge⟩ := hI.get hpo (d := .anc) (by rw [hcls]; rfl)
    have hrun : addSL leq ord e fill s = (guardAdd leq .anc e >>= fun bt =>
        posetAddSL leq ord e fill >>= fun _ => updateAfterAdd .anc bt e) s := by
      unfold addSL
      rw [bind_ok (get_apply s)]
      simp only [hcls]
    have hgrd := guardAdd_run hpo ht hc hx e
    rw [hcls] at href
    simp only [refusal, dirsOf, List.any_cons, List.any_nil, hge, Bool.or_false] at href
    have hinc : incomparable leq e x = false := by
      cases h : incomparable leq e x
      · rfl
      · simp [h] at href
    rw [hinc] at hgrd
    obtain ⟨s2, h2, hp, _⟩ := updateAfterAdd_spec hpoU hnd hU heU ht hx hinc (s1 := s1)
      (a5 trivial) (fun hu => by rw [SL.cache, a2]; exact hc (a4 ▸ hu))
    exact ⟨s2, by rw [hrun, bind_ok hgrd, bind_ok hr]; exact h2, hp⟩
  | lower =>
    obtain ⟨t, x, ht, hc, hx, hg, hge⟩ := hI.get hpo (d := .desc) (by rw [hcls]; rfl)
    have hrun : addSL leq ord e fill s = (guardAdd leq .desc e >>= fun bt =>
        posetAddSL leq ord e fill >>= fun _ => updateAfterAdd .desc bt e) s := by
      unfold addSL
      rw [bind_ok (get_apply s)]
      simp only [hcls]
    have hgrd := guardAdd_run hpo ht hc hx e
    rw [hcls] at href
    simp only [refusal, dirsOf, List.any_cons, List.any_nil, hge, Bool.or_false] at href
    have hinc : incomparable leq e x = false := by
      cases h : incomparable leq e x
      · rfl
      · simp [h] at href
    rw [hinc] at hgrd
    obtain ⟨s2, h2, hp, _⟩ := updateAfterAdd_spec hpoU hnd hU heU ht hx hinc (s1 := s1)
      (a5 trivial) (fun hu => by rw [SL.cache, a3]; exact hc (a4 ▸ hu))
    exact ⟨s2, by rw [hrun, bind_ok hgrd, bind_ok hr]; exact h2, hp⟩
  | lattice =>
    obtain ⟨t, x, ht, hc, hx, hg, hge⟩ := hI.get hpo (d := .anc) (by rw [hcls]; rfl)
    obtain ⟨tb, xb, htb, hcb, hxb, hgb, hgeb⟩ := hI.get hpo (d := .desc) (by rw [hcls]; rfl)
    have hrun : addSL leq ord e fill s = (guardAdd leq .anc e >>= fun bt => guardAdd leq .desc e >>= fun bb =>
        posetAddSL leq ord e fill >>= fun _ => updateAfterAdd .desc bb e >>= fun _ =>
        updateAfterAdd .anc bt e) s := by
      unfold addSL
      rw [bind_ok (get_apply s)]
      simp only [hcls]
    have hgrd := guardAdd_run hpo ht hc hx e
    have hgrdb := guardAdd_run hpo htb hcb hxb e
    rw [hcls] at href
    simp only [refusal, dirsOf, List.any_cons, List.any_nil, hge, hgeb, Bool.or_false] at href
    have hinc : incomparable leq e x = false := by
      cases h : incomparable leq e x
      · rfl
      · simp [h] at href
    have hincb : incomparable leq e xb = false := by
      cases h : incomparable leq e xb
      · rfl
      · simp [h] at href
    rw [hinc] at hgrd
    rw [hincb] at hgrdb
    obtain ⟨s2, h2, hp, hcl, hfl, _⟩ := updateAfterAdd_spec hpoU hnd hU heU htb hxb hincb (s1 := s1)
      (a5 trivial) (fun hu => by rw [SL.cache, a3]; exact hcb (a4 ▸ hu))
    obtain ⟨s3, h3, hp3, _⟩ := updateAfterAdd_spec hpoU hnd hU heU ht hx hinc (s1 := s2)
      (by rw [hp]; exact a5 trivial) (fun hu => by
        have : s2.cache Dir.anc = s1.cache Dir.anc := hfl
        rw [this, SL.cache, a2]; exact hc (a4 ▸ (hp ▸ hu)))
    exact ⟨s3, by rw [hrun, bind_ok hgrd, bind_ok hgrdb, bind_ok hr, bind_ok h2]; exact h3, hp3.trans hp⟩

theorem delSL_ok (hpoU : PO leq U) {s : SL α} (hI : InvTop leq s) (hnd : s.p.elems.Nodup)
    (hU : ∀ a ∈ s.p.elems, U a) (k : Nat)
    (href : refusal leq s.cls s.p.elems (.del k) = none) (hok : (delE ord k s.p).2 = .ok ()) :
    ∃ s', delSL leq ord k s = (s', .ok ()) ∧ s'.p = (delE ord k s.p).1 := by
  have hpo : IdxPO leq s.p.elems := idxPO_of hpoU hnd hU
  have hl : ML.lift (delE ord k) s = ({ s with p := (delE ord k s.p).1 }, .ok ()) := by
    rw [lift_apply, hok]
  cases hcls : s.cls with
  | upper =>
    obtain ⟨t, x, ht, hc, hx, hg, hge⟩ := hI.get hpo (d := .anc) (by rw [hcls]; rfl)
    have hrun : delSL leq ord k s = (guardDel leq .anc k >>= fun _ => ML.lift (delE ord k) >>= fun _ =>
        updateAfterDel .anc k) s := by
      unfold delSL
      rw [bind_ok (get_apply s)]
      simp only [hcls]
    have hgrd := guardDel_run hpo ht hc k
    rw [hcls] at href
    simp only [refusal, dirsOf, List.any_cons, List.any_nil, hg, Bool.or_false, beq_some_iff] at href
    have htk : t ≠ k := fun h => by simp [h] at href
    have hk : k < s.p.elems.length := by
      apply Classical.byContradiction
      intro h; simp [htk, h] at href
    rw [if_neg htk] at hgrd
    obtain ⟨he1, hu1⟩ := delE_elems (ord := ord) hk
    obtain ⟨s2, h2, hp, _⟩ := updateAfterDel_spec ht hk htk (s1 := { s with p := (delE ord k s.p).1 }) he1
      (fun hu => hc (hu1 ▸ hu))
    exact ⟨s2, by rw [hrun, bind_ok hgrd, bind_ok hl]; exact h2, hp⟩
  | lower =>
    obtain ⟨t, x, ht, hc, hx, hg, hge⟩ := hI.get hpo (d := .desc) (by rw [hcls]; rfl)
    have hrun : delSL leq ord k s = (guardDel leq .desc k >>= fun _ => ML.lift (delE ord k) >>= fun _ =>
        updateAfterDel .desc k) s := by
      unfold delSL
      rw [bind_ok (get_apply s)]
      simp only [hcls]
    have hgrd := guardDel_run hpo ht hc k
    rw [hcls] at href
    simp only [refusal, dirsOf, List.any_cons, List.any_nil, hg, Bool.or_false, beq_some_iff] at href
    have htk : t ≠ k := fun h => by simp [h] at href
    have hk : k < s.p.elems.length := by
      apply Classical.byContradiction
      intro h; simp [htk, h] at href
    rw [if_neg htk] at hgrd
    obtain ⟨he1, hu1⟩ := delE_elems (ord := ord) hk
    obtain ⟨s2, h2, hp, _⟩ := updateAfterDel_spec ht hk htk (s1 := { s with p := (delE ord k s.p).1 }) he1
      (fun hu => hc (hu1 ▸ hu))
    exact ⟨s2, by rw [hrun, bind_ok hgrd, bind_ok hl]; exact h2, hp⟩
  | lattice =>
    obtain ⟨t, x, ht, hc, hx, hg, hge⟩ := hI.get hpo (d := .anc) (by rw [hcls]; rfl)
    obtain ⟨tb, xb, htb, hcb, hxb, hgb, hgeb⟩ := hI.get hpo (d := .desc) (by rw [hcls]; rfl)
    have hrun : delSL leq ord k s = (guardDel leq .anc k >>= fun _ => guardDel leq .desc k >>= fun _ =>
        ML.lift (delE ord k) >>= fun _ => updateAfterDel .desc k >>= fun _ => updateAfterDel .anc k) s := by
      unfold delSL
      rw [bind_ok (get_apply s)]
      simp only [hcls]
    have hgrd := guardDel_run hpo ht hc k
    have hgrdb := guardDel_run hpo htb hcb k
    rw [hcls] at href
    simp only [refusal, dirsOf, List.any_cons, List.any_nil, hg, hgb, Bool.or_false] at href
    have htk : t ≠ k := fun h => by simp [h] at href
    have htbk : tb ≠ k := fun h => by simp [h] at href
    have hk : k < s.p.elems.length := by
      apply Classical.byContradiction
      intro h; simp [htk, htbk, h] at href
    rw [if_neg htk] at hgrd
    rw [if_neg htbk] at hgrdb
    obtain ⟨he1, hu1⟩ := delE_elems (ord := ord) hk
    obtain ⟨s2, h2, hp, hcl, hfl, _⟩ := updateAfterDel_spec htb hk htbk (s1 := { s with p := (delE ord k s.p).1 }) he1
      (fun hu => hcb (hu1 ▸ hu))
    obtain ⟨s3, h3, hp3, _⟩ := updateAfterDel_spec ht hk htk (s1 := s2)
      (by rw [hp]; exact he1) (fun hu => by
        have : s2.cache Dir.anc = ({ s with p := (delE ord k s.p).1 } : SL α).cache Dir.anc := hfl
        rw [this]
        have hu' : (delE ord k s.p).1.useCache = true := by rw [hp] at hu; exact hu
        exact hc (hu1 ▸ hu'))
    exact ⟨s3, by rw [hrun, bind_ok hgrd, bind_ok hgrdb, bind_ok hl, bind_ok h2]; exact h3, hp3.trans hp⟩

/-! ### `remove` is `del` of the element's index once the guards are passed -/

theorem removeSL_eq_delSL (hpoU : PO leq U) {s : SL α} (hI : InvTop leq s) (hnd : s.p.elems.Nodup)
    (hU : ∀ a ∈ s.p.elems, U a) (e : α) {i : Nat}
    (href : refusal leq s.cls s.p.elems (.remove e) = none) (hi : indexOf? e s.p.elems = some i) :
    removeSL leq ord e s = delSL leq ord i s := by
  have hpo : IdxPO leq s.p.elems := idxPO_of hpoU hnd hU
  have hpost : posetRemoveSL leq ord e s = delSL leq ord i s := by
    unfold posetRemoveSL
    have hl := lift_indexE s e
    rw [hi] at hl
    rw [bind_ok hl]
  cases hcls : s.cls with
  | upper =>
    obtain ⟨t, x, ht, hc, hx, hg, hge⟩ := hI.get hpo (d := .anc) (by rw [hcls]; rfl)
    have hrun : removeSL leq ord e s = (guardRemove leq .anc e >>= fun _ => posetRemoveSL leq ord e) s := by
      unfold removeSL
      rw [bind_ok (get_apply s)]
      simp only [hcls]
    have hgrd := guardRemove_run hpo ht hc hx e
    rw [hcls] at href
    have hxe : x ≠ e := fun h => by simp [refusal, dirsOf, hge, h] at href
    rw [if_neg hxe] at hgrd
    rw [hrun, bind_ok hgrd, hpost]
  | lower =>
    obtain ⟨t, x, ht, hc, hx, hg, hge⟩ := hI.get hpo (d := .desc) (by rw [hcls]; rfl)
    have hrun : removeSL leq ord e s = (guardRemove leq .desc e >>= fun _ => posetRemoveSL leq ord e) s := by
      unfold removeSL
      rw [bind_ok (get_apply s)]
      simp only [hcls]
    have hgrd := guardRemove_run hpo ht hc hx e
    rw [hcls] at href
    have hxe : x ≠ e := fun h => by simp [refusal, dirsOf, hge, h] at href
    rw [if_neg hxe] at hgrd
    rw [hrun, bind_ok hgrd, hpost]
  | lattice =>
    obtain ⟨t, x, ht, hc, hx, hg, hge⟩ := hI.get hpo (d := .anc) (by rw [hcls]; rfl)
    obtain ⟨tb, xb, htb, hcb, hxb, hgb, hgeb⟩ := hI.get hpo (d := .desc) (by rw [hcls]; rfl)
    have hrun : removeSL leq ord e s = (guardRemove leq .anc e >>= fun _ => guardRemove leq .desc e >>= fun _ =>
        posetRemoveSL leq ord e) s := by
      unfold removeSL
      rw [bind_ok (get_apply s)]
      simp only [hcls]
    have hgrd := guardRemove_run hpo ht hc hx e
    have hgrdb := guardRemove_run hpo htb hcb hxb e
    rw [hcls] at href
    have hxe : x ≠ e := fun h => by simp [refusal, dirsOf, hge, hgeb, h] at href
    have hxbe : xb ≠ e := fun h => by simp [refusal, dirsOf, hge, hgeb, h] at href
    rw [if_neg hxe] at hgrd
    rw [if_neg hxbe] at hgrdb
    rw [hrun, bind_ok hgrd, bind_ok hgrdb, hpost]

/-! ### the complete invariant -/

/-- `InvTop` (C11) + duplicate-free elements + C09's cache invariant + `DIC` (on a caching instance: wherever the
    direct relation of an element is cached, its closed relation is cached too) -/
structure InvAll (leq : α → α → Bool) (s : SL α) : Prop where
  top : InvTop leq s
  nd : s.p.elems.Nodup
  inv : InvB leq s.p.elems Ghost.none s.p.useCache s.p
  dic : s.p.useCache = true → DIC s.p.elems.length s.p.elems.length s.p

/-- `POSet.add` on a semilattice under the complete invariant (every variant: present element, uncached,
    `fill_up_cache=False` - which wipes the relation caches -, `fill_up_cache=True`) -/
theorem posetAddSL_full (hpoU : PO leq U) (hord : ∀ l, (ord l).Perm l) {s : SL α} (hA : InvAll leq s)
    (hU : ∀ a ∈ s.p.elems, U a) {e : α} (heU : U e) (fill : Bool) :
    ∃ s1, posetAddSL leq ord e fill s = (s1, .ok ()) ∧
      InvB leq (addNext s.p.elems e) Ghost.none s.p.useCache s1.p ∧
      (s.p.useCache = true → DIC (addNext s.p.elems e).length (addNext s.p.elems e).length s1.p) := by
  have hpo : IdxPO leq s.p.elems := idxPO_of hpoU hA.nd hU
  by_cases he : e ∈ s.p.elems
  · refine ⟨s, ?_, ?_, ?_⟩
    · unfold posetAddSL
      rw [bind_ok (get_apply s)]
      simp only [he, ↓reduceIte, pure_apply]
    · simp only [addNext, he, ↓reduceIte]; exact hA.inv
    · simp only [addNext, he, ↓reduceIte]; exact hA.dic
  · have hrun : posetAddSL leq ord e fill s = (posetAddCacheSL leq ord e fill >>= fun _ =>
        ML.lift (M.modify fun p => { p with elems := p.elems ++ [e] })) s := by
      unfold posetAddSL
      rw [bind_ok (get_apply s)]
      simp only [he, ↓reduceIte]
    cases huc : s.p.useCache
    · -- uncached
      have hc : posetAddCacheSL leq ord e fill s = (s, .ok ()) := by
        unfold posetAddCacheSL
        rw [bind_ok (get_apply s)]
        simp only [huc, Bool.false_eq_true, ↓reduceIte, pure_apply]
      refine ⟨_, by rw [hrun, bind_ok hc]; exact lift_modify _ s, ?_, fun h => by cases h⟩
      simp only [addNext, he, ↓reduceIte]
      have := hA.inv
      rw [huc] at this
      exact add_uncached_inv this
    · have hinv := hA.inv
      rw [huc] at hinv
      cases fill
      · -- `fill_up_cache=False`: the four relation caches are wiped
        have hc : posetAddCacheSL leq ord e false s =
            ({ s with p := { s.p with descC := [], ancC := [], chilC := [], parC := [] } }, .ok ()) := by
          unfold posetAddCacheSL
          rw [bind_ok (get_apply s)]
          rw [if_pos huc]
          exact lift_modify _ s
        refine ⟨_, by rw [hrun, bind_ok hc]; exact lift_modify _ _, ?_, fun _ d k _ _ hp => ?_⟩
        · simp only [addNext, he, ↓reduceIte]
          exact add_nofill_inv hinv
        · cases d <;> simp [St.direct] at hp
      · have hpo' : IdxPO leq (s.p.elems ++ [e]) := by
          have := idxPO_of hpoU (addNext_nodup hA.nd e) (addNext_U hU heU)
          simpa [addNext, he] using this
        obtain ⟨p6, cl, dr, hfill, hP, hD⟩ := posetAddFillSL_specW (ord := ord) hpo hpo' hord hinv
          (fun d hd => by
            obtain ⟨t, ht, hc⟩ := hA.top.ext d hd
            exact ⟨t, ht, hc huc⟩)
          (hA.dic huc)
        have hc : posetAddCacheSL leq ord e true s = ({ s with p := p6 }, .ok ()) := by
          unfold posetAddCacheSL
          rw [bind_ok (get_apply s)]
          simp only [huc, ↓reduceIte]
          exact hfill
        refine ⟨_, by rw [hrun, bind_ok hc]; exact lift_modify _ _, ?_, fun _ d k hk hx hp => ?_⟩
        · simp only [addNext, he, ↓reduceIte]
          exact Weak.patchInv_final hP
        · simp only [addNext, he, ↓reduceIte, List.length_append, List.length_singleton] at hk
          have hcl : ({ p6 with elems := p6.elems ++ [e] } : St α).closed d = p6.closed d := by cases d <;> rfl
          have hdr : ({ p6 with elems := p6.elems ++ [e] } : St α).direct d = p6.direct d := by cases d <;> rfl
          show (alookup k (({ p6 with elems := p6.elems ++ [e] } : St α).closed d)).isSome = true
          rw [hcl]
          by_cases hkn : k = s.p.elems.length
          · rw [hkn, hP.closedNew d]; rfl
          · have hp' : (alookup k (p6.direct d)).isSome = true := by rw [← hdr]; exact hp
            exact hD d k (by omega) (by omega) hp'

theorem next_query {E : List α} {o : Op α} (ho : isMutation o = false) : next E o = E := by
  cases o <;> first | rfl | cases ho

theorem refusal_query {cls : Cls} {E : List α} {o : Op α} (ho : isMutation o = false) :
    refusal leq cls E o = none := by
  cases o <;> first | rfl | cases ho

/-- a state that differs from `s` in the poset part only, by a query of the `POSet` -/
theorem invAll_query (hpoU : PO leq U) (hord : ∀ l, (ord l).Perm l) {s : SL α} (hA : InvAll leq s)
    (hU : ∀ a ∈ s.p.elems, U a) (o : Op α) (ho : isMutation o = false)
    (hok : opOk s.p.elems s.p.useCache o = true) :
    InvAll leq ({ s with p := (step leq ord s.p o).1 } : SL α) ∧
      (step leq ord s.p o).2 = answer leq s.p.elems o ∧
      (step leq ord s.p o).1.elems = s.p.elems ∧ (step leq ord s.p o).1.useCache = s.p.useCache := by
  have hin : OpIn U o := by cases o <;> first | trivial | cases ho
  obtain ⟨h1, h2⟩ := step_spec_full hpoU hord hA.nd hU hA.inv o hok hin
  obtain ⟨f1, f2⟩ := step_query_frame (leq := leq) (ord := ord) s.p o ho
  rw [next_query ho] at h1
  have hnd' : ({ s with p := (step leq ord s.p o).1 } : SL α).p.elems.Nodup := by
    show (step leq ord s.p o).1.elems.Nodup
    rw [f1]; exact hA.nd
  refine ⟨⟨invTop_of_frame hA.top rfl f1 f2 rfl rfl, hnd', ?_, ?_⟩, h2, f1, f2⟩
  · show InvB leq (step leq ord s.p o).1.elems Ghost.none (step leq ord s.p o).1.useCache (step leq ord s.p o).1
    rw [f1, f2]; exact h1
  · intro hu
    have hu' : s.p.useCache = true := by rw [← f2]; exact hu
    show DIC (step leq ord s.p o).1.elems.length (step leq ord s.p o).1.elems.length (step leq ord s.p o).1
    rw [f1]
    exact step_query_dic (leq := leq) (ord := ord) _ _ s.p o ho (hA.dic hu')

/-- ONE STEP, complete: under `InvAll`, for every operation in the documented range (including
    `add(new, fill_up_cache=False)` on a caching instance), the step re-establishes `InvAll`, its output is the
    specified answer (`Spec.answerSL`: the refusal's exception, or the `Fresh` answer - in particular a non-refused
    mutation never raises), the element list is the specified one, class tag and cache flag are kept. -/
theorem stepSL_full (hpoU : PO leq U) (hord : ∀ l, (ord l).Perm l) {s : SL α} (hA : InvAll leq s)
    (hU : ∀ a ∈ s.p.elems, U a) (op : OpSL α) (hok : opOkSL s.cls s.p.elems s.p.useCache op = true)
    (hin : OpInSL U op) :
    InvAll leq (stepSL leq ord s op).1 ∧ (stepSL leq ord s op).2 = answerSL leq s.cls s.p.elems op ∧
      (stepSL leq ord s op).1.p.elems = nextSL leq s.cls s.p.elems op ∧
      (stepSL leq ord s op).1.cls = s.cls ∧ (stepSL leq ord s op).1.p.useCache = s.p.useCache := by
  have hpo : IdxPO leq s.p.elems := idxPO_of hpoU hA.nd hU
  obtain ⟨hrej, hacc⟩ := stepSL_spec (ord := ord) hpoU hA.top hA.nd hU op hin
  -- a refused operation
  have refused : ∀ e, refusalSL leq s.cls s.p.elems op = some e → (∃ o, op = .op o) →
      InvAll leq (stepSL leq ord s op).1 ∧ (stepSL leq ord s op).2 = answerSL leq s.cls s.p.elems op ∧
      (stepSL leq ord s op).1.p.elems = nextSL leq s.cls s.p.elems op ∧
      (stepSL leq ord s op).1.cls = s.cls ∧ (stepSL leq ord s op).1.p.useCache = s.p.useCache := by
    rintro e he ⟨o, rfl⟩
    rw [hrej e he]
    simp only [refusalSL] at he
    refine ⟨hA, ?_, by simp [nextSL, he], rfl, rfl⟩
    cases o <;> simp_all [answerSL, refusal]
  -- a query through the `POSet`
  have query : ∀ o : Op α, isMutation o = false → opOk s.p.elems s.p.useCache o = true →
      stepSL leq ord s (.op o) = ({ s with p := (step leq ord s.p o).1 }, (step leq ord s.p o).2) →
      answerSL leq s.cls s.p.elems (.op o) = answer leq s.p.elems o →
      InvAll leq (stepSL leq ord s (.op o)).1 ∧
      (stepSL leq ord s (.op o)).2 = answerSL leq s.cls s.p.elems (.op o) ∧
      (stepSL leq ord s (.op o)).1.p.elems = nextSL leq s.cls s.p.elems (.op o) ∧
      (stepSL leq ord s (.op o)).1.cls = s.cls ∧ (stepSL leq ord s (.op o)).1.p.useCache = s.p.useCache := by
    intro o ho hok' hst hans
    obtain ⟨q1, q2, q3, q4⟩ := invAll_query (ord := ord) hpoU hord hA hU o ho hok'
    rw [hst, hans]
    refine ⟨q1, q2, ?_, rfl, q4⟩
    simp only [nextSL, refusal_query ho, next_query ho]
    exact q3
  cases op with
  | extreme d =>
    simp only [opOkSL] at hok
    obtain ⟨t, ht, hc⟩ := hA.top.ext d hok
    have hg := (greatest_eq_some_iff hpo).mpr ht
    simp only [stepSL, hok, ↓reduceIte, extremeE_run hpo ht hc, outOf, answerSL, hg, nextSL]
    exact ⟨hA, trivial, trivial, trivial, trivial⟩
  | op o =>
    simp only [opOkSL] at hok
    cases o with
    | extremes d =>
      cases hd : s.cls.has d
      · have hx : extremesSL leq d s = ML.lift (extremesE leq d) s := by
          unfold extremesSL
          rw [bind_ok (get_apply s)]
          simp only [hd, Bool.false_eq_true, ↓reduceIte]
        exact query (.extremes d) rfl hok (by simp only [stepSL, hx, lift_apply]; rfl)
          (by simp [answerSL, hd])
      · obtain ⟨t, ht, hc⟩ := hA.top.ext d hd
        have hg := (greatest_eq_some_iff hpo).mpr ht
        simp only [stepSL, extremesSL_run hpo hd ht hc, outOf, answerSL, hd, ↓reduceIte, hg, nextSL, refusal, next]
        exact ⟨hA, trivial, trivial, trivial, trivial⟩
    | leq i j => exact query _ rfl hok rfl (by simp [answerSL, refusal])
    | closed d i => exact query _ rfl hok rfl (by simp [answerSL, refusal])
    | direct d i => exact query _ rfl hok rfl (by simp [answerSL, refusal])
    | bound d S => exact query _ rfl hok rfl (by simp [answerSL, refusal])
    | index e => exact query _ rfl hok rfl (by simp [answerSL, refusal])
    | eqOther O => exact query _ rfl hok rfl (by simp [answerSL, refusal])
    | fillUp k => exact query _ rfl hok rfl (by simp [answerSL, refusal])
    | add e f =>
      cases href : refusal leq s.cls s.p.elems (.add e f) with
      | some er => exact refused er (by simp [refusalSL, href]) ⟨_, rfl⟩
      | none =>
        obtain ⟨s1, hr, hinv1, hcomp1⟩ := posetAddSL_full (ord := ord) hpoU hord hA hU (e := e) hin f
        obtain ⟨s', hs', hp'⟩ := addSL_ok (ord := ord) hpoU hA.top hA.nd hU (e := e) hin f href hr
        have hout : (stepSL leq ord s (.op (.add e f))).2 = .unit := by simp only [stepSL, hs', outOf]
        obtain ⟨g1, g2, g3, g4⟩ := hacc (Or.inr fun er h => by rw [hout] at h; cases h)
        have hst : (stepSL leq ord s (.op (.add e f))).1 = s' := by simp only [stepSL, hs']
        rw [hst] at g1 g2 g3 g4 ⊢
        have hnx : nextSL leq s.cls s.p.elems (.op (.add e f)) = addNext s.p.elems e := by
          simp only [nextSL, href]; rfl
        refine ⟨⟨g1, ?_, ?_, ?_⟩, ?_, g2, g3, g4⟩
        · rw [g2, hnx]; exact addNext_nodup hA.nd e
        · rw [g2, hnx, g4, hp']; exact hinv1
        · intro hu
          rw [g2, hnx, hp']
          exact hcomp1 (g4 ▸ hu)
        · rw [hout]; simp [answerSL, href, answer]
    | del k =>
      cases href : refusal leq s.cls s.p.elems (.del k) with
      | some er => exact refused er (by simp [refusalSL, href]) ⟨_, rfl⟩
      | none =>
        have hk : k < s.p.elems.length := by
          simp only [refusal] at href
          split at href
          · cases href
          · split at href
            · assumption
            · cases href
        obtain ⟨p1, u, hrun, hinv1⟩ := delE_spec hpo hord hk hA.inv
        have hrun' : delE ord k s.p = (p1, .ok ()) := hrun
        obtain ⟨s', hs', hp'⟩ := delSL_ok (ord := ord) hpoU hA.top hA.nd hU k href (by rw [hrun'])
        rw [hrun'] at hp'
        simp only at hp'
        have hout : (stepSL leq ord s (.op (.del k))).2 = .unit := by simp only [stepSL, hs', outOf]
        obtain ⟨g1, g2, g3, g4⟩ := hacc (Or.inr fun er h => by rw [hout] at h; cases h)
        have hst : (stepSL leq ord s (.op (.del k))).1 = s' := by simp only [stepSL, hs']
        rw [hst] at g1 g2 g3 g4 ⊢
        have hnx : nextSL leq s.cls s.p.elems (.op (.del k)) = s.p.elems.eraseIdx k := by
          simp only [nextSL, href, next]
        refine ⟨⟨g1, ?_, ?_, ?_⟩, ?_, g2, g3, g4⟩
        · rw [g2, hnx]; exact hA.nd.eraseIdx k
        · rw [g2, hnx, g4, hp']; exact hinv1
        · intro hu
          have hu0 : s.p.useCache = true := g4 ▸ hu
          rw [g2, hnx, List.length_eraseIdx_of_lt hk, hp']
          have := delE_dic (ord := ord) hk hk hu0 (by rw [hrun']) (hA.dic hu0)
          rw [hrun'] at this
          exact this
        · rw [hout]; simp [answerSL, href, answer, hk]
    | remove e =>
      cases href : refusal leq s.cls s.p.elems (.remove e) with
      | some er => exact refused er (by simp [refusalSL, href]) ⟨_, rfl⟩
      | none =>
        have he : e ∈ s.p.elems := by
          simp only [refusal] at href
          split at href
          · cases href
          · split at href
            · assumption
            · cases href
        obtain ⟨i, hi⟩ := indexOf?_some_of_mem he
        have hk : i < s.p.elems.length := (List.getElem?_eq_some_iff.mp (indexOf?_spec hi)).1
        have hrefd := refusal_del_of_remove href hi
        have heq := removeSL_eq_delSL (ord := ord) hpoU hA.top hA.nd hU e href hi
        obtain ⟨p1, u, hrun, hinv1⟩ := delE_spec hpo hord hk hA.inv
        have hrun' : delE ord i s.p = (p1, .ok ()) := hrun
        obtain ⟨s', hs', hp'⟩ := delSL_ok (ord := ord) hpoU hA.top hA.nd hU i hrefd (by rw [hrun'])
        rw [hrun'] at hp'
        simp only at hp'
        rw [← heq] at hs'
        have hout : (stepSL leq ord s (.op (.remove e))).2 = .unit := by simp only [stepSL, hs', outOf]
        obtain ⟨g1, g2, g3, g4⟩ := hacc (Or.inr fun er h => by rw [hout] at h; cases h)
        have hst : (stepSL leq ord s (.op (.remove e))).1 = s' := by simp only [stepSL, hs']
        rw [hst] at g1 g2 g3 g4 ⊢
        have hnx : nextSL leq s.cls s.p.elems (.op (.remove e)) = s.p.elems.eraseIdx i := by
          simp only [nextSL, href, next, hi]
        refine ⟨⟨g1, ?_, ?_, ?_⟩, ?_, g2, g3, g4⟩
        · rw [g2, hnx]; exact hA.nd.eraseIdx i
        · rw [g2, hnx, g4, hp']; exact hinv1
        · intro hu
          have hu0 : s.p.useCache = true := g4 ▸ hu
          rw [g2, hnx, List.length_eraseIdx_of_lt hk, hp']
          have := delE_dic (ord := ord) hk hk hu0 (by rw [hrun']) (hA.dic hu0)
          rw [hrun'] at this
          exact this
        · rw [hout]; simp [answerSL, href, answer, hi]

end
end Fca.SemiLattice

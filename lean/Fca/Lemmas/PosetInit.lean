/-
  Lemmas/PosetInit — the constructor with `children_dict`, part 1: `_transpose_hierarchy`.
-/
import Fca.Lemmas.PosetStep2
set_option linter.unusedSectionVars false
namespace Fca.Poset
open Fca Fca.Poset.Fresh

/-! ### folds with invariants -/

theorem foldl_inv_pre {β γ : Type} (P : List γ → β → Prop) (f : β → γ → β) (l : List γ)
    (h : ∀ pre x b, x ∈ l → P pre b → P (pre ++ [x]) (f b x)) (pre : List γ) (b : β) (hb : P pre b) :
    P (pre ++ l) (l.foldl f b) := by
  induction l generalizing pre b with
  | nil => simpa using hb
  | cons x xs ih =>
    rw [List.foldl_cons]
    have := ih (fun pre y b hy => h pre y b (List.mem_cons_of_mem _ hy)) (pre ++ [x]) (f b x)
      (h pre x b List.mem_cons_self hb)
    simpa using this

theorem foldl_inv {β γ : Type} (P : β → Prop) (f : β → γ → β) (l : List γ)
    (h : ∀ x b, x ∈ l → P b → P (f b x)) (b : β) (hb : P b) : P (l.foldl f b) := by
  induction l generalizing b with
  | nil => exact hb
  | cons x xs ih =>
    rw [List.foldl_cons]
    exact ih (fun y b hy => h y b (List.mem_cons_of_mem _ hy)) (f b x) (h x b List.mem_cons_self hb)

/-! ### `_transpose_hierarchy` -/

/-- `v` is listed under key `k` in the (raw) dictionary `h` -/
def RelIn (h : Cache) (k v : Nat) : Prop := ∃ vs, (k, vs) ∈ h ∧ v ∈ vs
/-- `v` occurs in `h` as a key or as a value -/
def KeyIn (h : Cache) (v : Nat) : Prop := (∃ vs, (v, vs) ∈ h) ∨ ∃ k, RelIn h k v

/-- the transposed dictionary of the entries processed so far -/
def TInv (P : Cache) (nd : Cache) : Prop :=
  ∀ v, (∀ l, alookup v nd = some l → l.Nodup ∧ ∀ k, k ∈ l ↔ RelIn P k v) ∧
       ((alookup v nd).isSome = true ↔ KeyIn P v)

/-- inner loop: entry `(k, vs)` being processed, `vs1` done -/
def TInvIn (P : Cache) (k : Nat) (vs1 : List Nat) (nd : Cache) : Prop :=
  ∀ v, (∀ l, alookup v nd = some l → l.Nodup ∧ ∀ k', k' ∈ l ↔ (RelIn P k' v ∨ (k' = k ∧ v ∈ vs1))) ∧
       ((alookup v nd).isSome = true ↔ (KeyIn P v ∨ v = k ∨ v ∈ vs1))

theorem relIn_append {P : Cache} {k : Nat} {vs : List Nat} {k' v : Nat} :
    RelIn (P ++ [(k, vs)]) k' v ↔ (RelIn P k' v ∨ (k' = k ∧ v ∈ vs)) := by
  unfold RelIn
  constructor
  · rintro ⟨ws, hm, hv⟩
    rcases List.mem_append.mp hm with h | h
    · exact Or.inl ⟨ws, h, hv⟩
    · simp at h; obtain ⟨rfl, rfl⟩ := h; exact Or.inr ⟨rfl, hv⟩
  · rintro (⟨ws, hm, hv⟩ | ⟨rfl, hv⟩)
    · exact ⟨ws, List.mem_append.mpr (Or.inl hm), hv⟩
    · exact ⟨vs, List.mem_append.mpr (Or.inr (by simp)), hv⟩

theorem keyIn_append {P : Cache} {k : Nat} {vs : List Nat} {v : Nat} :
    KeyIn (P ++ [(k, vs)]) v ↔ (KeyIn P v ∨ v = k ∨ v ∈ vs) := by
  unfold KeyIn
  constructor
  · rintro (⟨ws, hm⟩ | ⟨k', hr⟩)
    · rcases List.mem_append.mp hm with h | h
      · exact Or.inl (Or.inl ⟨ws, h⟩)
      · simp at h; exact Or.inr (Or.inl h.1)
    · rcases relIn_append.mp hr with h | ⟨_, h⟩
      · exact Or.inl (Or.inr ⟨k', h⟩)
      · exact Or.inr (Or.inr h)
  · rintro ((⟨ws, hm⟩ | ⟨k', hr⟩) | rfl | hv)
    · exact Or.inl ⟨ws, List.mem_append.mpr (Or.inl hm)⟩
    · exact Or.inr ⟨k', relIn_append.mpr (Or.inl hr)⟩
    · exact Or.inl ⟨vs, List.mem_append.mpr (Or.inr (by simp))⟩
    · exact Or.inr ⟨k, relIn_append.mpr (Or.inr ⟨rfl, hv⟩)⟩

theorem tinv_step {P : Cache} {k : Nat} {vs : List Nat} {nd : Cache} (h : TInv P nd) :
    TInv (P ++ [(k, vs)])
      (vs.foldl (fun nd v => ainsert v (setUnion ((alookup v nd).getD []) [k]) nd)
        (if (alookup k nd).isSome then nd else ainsert k [] nd)) := by
  -- start of the inner loop
  have h0 : TInvIn P k [] (if (alookup k nd).isSome then nd else ainsert k [] nd) := by
    intro v
    by_cases hk : (alookup k nd).isSome = true
    · rw [if_pos hk]
      refine ⟨fun l hl => ?_, ?_⟩
      · obtain ⟨h1, h2⟩ := (h v).1 l hl
        exact ⟨h1, fun k' => by rw [h2 k']; simp⟩
      · rw [(h v).2]
        constructor
        · exact Or.inl
        · rintro (h1 | rfl | h1)
          · exact h1
          · exact (h v).2.mp hk
          · cases h1
    · rw [if_neg hk]
      refine ⟨fun l hl => ?_, ?_⟩
      · rw [alookup_ainsert] at hl
        split at hl
        · rename_i e; subst e; cases hl
          refine ⟨List.nodup_nil, fun k' => ?_⟩
          simp only [List.not_mem_nil, and_false, or_false, false_iff]
          intro hr
          exact hk ((h v).2.mpr (Or.inr ⟨k', hr⟩))
        · obtain ⟨h1, h2⟩ := (h v).1 l hl
          exact ⟨h1, fun k' => by rw [h2 k']; simp⟩
      · rw [alookup_ainsert]
        split
        · rename_i e; subst e; simp
        · rename_i e
          rw [(h v).2]
          constructor
          · exact Or.inl
          · rintro (h1 | h1 | h1)
            · exact h1
            · exact absurd h1 e
            · cases h1
  -- the inner loop
  have hloop := foldl_inv_pre (fun vs1 nd => TInvIn P k vs1 nd)
    (fun nd v => ainsert v (setUnion ((alookup v nd).getD []) [k]) nd) vs ?_ [] _ h0
  · simp only [List.nil_append] at hloop
    intro v
    refine ⟨fun l hl => ?_, ?_⟩
    · obtain ⟨h1, h2⟩ := (hloop v).1 l hl
      exact ⟨h1, fun k' => by rw [h2 k', relIn_append]⟩
    · rw [(hloop v).2, keyIn_append]
  · intro vs1 w nd1 _ hq v
    refine ⟨fun l hl => ?_, ?_⟩
    · rw [alookup_ainsert] at hl
      split at hl
      · rename_i e; subst e; cases hl
        cases hc : alookup v nd1 with
        | none =>
          simp only [Option.getD_none]
          refine ⟨nodup_setUnion List.nodup_nil (by simp), fun k' => ?_⟩
          rw [mem_setUnion]
          simp only [List.not_mem_nil, false_or, List.mem_singleton, List.mem_append, or_true, and_true]
          constructor
          · intro e; exact Or.inr e
          · rintro (hr | e)
            · exfalso
              have := (hq v).2.mpr (Or.inl (Or.inr ⟨k', hr⟩))
              rw [hc] at this; cases this
            · exact e
        | some l0 =>
          obtain ⟨h1, h2⟩ := (hq v).1 l0 hc
          simp only [Option.getD_some]
          refine ⟨nodup_setUnion h1 (by simp), fun k' => ?_⟩
          rw [mem_setUnion, h2 k']
          simp only [List.mem_singleton, List.mem_append, or_true, and_true]
          constructor
          · rintro ((hr | ⟨e, hv⟩) | e)
            · exact Or.inl hr
            · exact Or.inr e
            · exact Or.inr e
          · rintro (hr | e)
            · exact Or.inl (Or.inl hr)
            · exact Or.inr e
      · rename_i e
        obtain ⟨h1, h2⟩ := (hq v).1 l hl
        refine ⟨h1, fun k' => ?_⟩
        rw [h2 k']
        simp only [List.mem_append, List.mem_singleton]
        constructor
        · rintro (hr | ⟨e1, hv⟩)
          · exact Or.inl hr
          · exact Or.inr ⟨e1, Or.inl hv⟩
        · rintro (hr | ⟨e1, hv | hv⟩)
          · exact Or.inl hr
          · exact Or.inr ⟨e1, hv⟩
          · exact absurd hv e
    · rw [alookup_ainsert]
      split
      · rename_i e; subst e; simp
      · rename_i e
        rw [(hq v).2]
        simp only [List.mem_append, List.mem_singleton]
        constructor
        · rintro (h1 | h1 | h1)
          · exact Or.inl h1
          · exact Or.inr (Or.inl h1)
          · exact Or.inr (Or.inr (Or.inl h1))
        · rintro (h1 | h1 | h1 | h1)
          · exact Or.inl h1
          · exact Or.inr (Or.inl h1)
          · exact Or.inr (Or.inr h1)
          · exact absurd h1 e

theorem transposeHierarchy_spec (h : Cache) : TInv h (transposeHierarchy h) := by
  unfold transposeHierarchy
  have := foldl_inv_pre (fun P nd => TInv P nd)
    (fun nd kv =>
      let nd := if (alookup kv.1 nd).isSome then nd else ainsert kv.1 [] nd
      kv.2.foldl (fun nd v => ainsert v (setUnion ((alookup v nd).getD []) [kv.1]) nd) nd) h ?_ [] [] ?_
  · simpa using this
  · intro pre kv nd _ hnd
    exact tinv_step hnd
  · intro v
    refine ⟨fun l hl => by simp at hl, ?_⟩
    simp only [alookup_nil, Option.isSome_none, Bool.false_eq_true, false_iff]
    rintro (⟨_, h⟩ | ⟨_, _, h, _⟩) <;> cases h

end Fca.Poset

/-
  Lemmas for C20, part 5 — concepts of the converted tree, leaves, the lattice's unique top and bottom, and
  `fromDecisionTree` succeeding on every well-formed, fitted tree.
-/
import Fca.Lemmas.DecisionLatticeConv
namespace Fca.DL
open Fca

/-! ### concepts -/

def extOfPrem (X : Rows) (P : Prem) : List Nat :=
  (List.range (nObjects X)).filter fun g => premSat P (X.getD g [])

def conceptOfPrem (X : Rows) (m : Nat) (P : Prem) : Concept :=
  ⟨extOfPrem X P, intentionI X m (extOfPrem X P)⟩

theorem conceptsFrom_ok (X : Rows) (m : Nat) : ∀ ps : List Prem, (∀ P ∈ ps, ∀ jd ∈ P, entryOK m jd) →
    conceptsFrom X m ps = .ok (ps.map (conceptOfPrem X m)) := by
  intro ps
  induction ps with
  | nil => intro _; rfl
  | cons P ps ih =>
    intro h
    have h1 := extensionI_none_spec X m P (h P List.mem_cons_self)
    simp only [conceptsFrom, conceptFromDescr, h1, ih (fun P' hP' => h P' (List.mem_cons_of_mem _ hP')),
      List.map_cons, conceptOfPrem, extOfPrem]

theorem extOfPrem_node {t : Tree} {X : Rows} {m : Nat} {j : Nat} {P : Prem} (h : NodeOK t X m j P) :
    extOfPrem X P = EF t X j := by
  unfold extOfPrem EF
  apply List.filter_congr
  intro g hg
  exact h.2 _ (row_mem (List.mem_range.mp hg))

/-! ### strictness of node extents -/

theorem EF_strict {t : Tree} {X : Rows} {m : Nat} {nxt : Rat → Rat} (hwf : wellFormed t X m nxt = true)
    (hfit : fitted t X = true) {j : Nat} (hj0 : 0 < j) (hjn : j < t.n) :
    (EF t X j).length < nObjects X := by
  obtain ⟨hlen, hnode⟩ := wf_parts hwf
  obtain ⟨_, hrlen⟩ := wf_parts2 hwf
  obtain ⟨p, hp⟩ := Option.isSome_iff_exists.mp (parents_exist hwf j hj0 hjn)
  obtain ⟨l, r, f, thr, g1, g2, g3, g4, gl, hpn, hpk, hkc⟩ := node_of_parent hlen hrlen hnode hp
  obtain ⟨a1, a3, _, _, _, a9, _, a11, _⟩ := wfNode_internal (hnode p hpn) g1 g2 g3 g4 gl
  obtain ⟨b1, b2⟩ := wfNode_bounds (hnode p hpn) g1 g2 g3 g4 gl
  have hne : l.toNat ≠ r.toNat := by
    have := hnode p hpn
    simp only [wfNode, g1, g2, g3, g4] at this
    simp only [Bool.or_eq_true, Bool.and_eq_true, beq_iff_eq, decide_eq_true_eq, bne_iff_ne, ne_eq] at this
    rcases this with hh | hh
    · exact absurd hh.1 gl
    · have hlr : l ≠ r := hh.1.1.1.1.1.1.1.2
      omega
  -- the sibling
  obtain ⟨s, hs, hsn, hsj⟩ : ∃ s, parentOf t s = some p ∧ s < t.n ∧ s ≠ j := by
    rcases hkc with e | e
    · exact ⟨r.toNat, a11, by omega, by omega⟩
    · exact ⟨l.toNat, a9, by omega, by omega⟩
  obtain ⟨g, hg, hgs⟩ := fitted_witness hfit hsn
  have hgs' : g ∈ EF t X s := mem_EF.mpr ⟨hg, hgs⟩
  rw [EF_step hwf hs, List.mem_filter] at hgs'
  have hstep : descend t (X.getD g []) 1 p = s := by simpa using hgs'.2
  have hnot : g ∉ EF t X j := by
    intro hgj
    rw [EF_step hwf hp, List.mem_filter] at hgj
    have : descend t (X.getD g []) 1 p = j := by simpa using hgj.2
    exact hsj (hstep ▸ this)
  have hlt : (EF t X j).length < (List.range (nObjects X)).length := by
    unfold EF at hnot ⊢
    rw [List.length_filter_lt_length_iff_exists]
    refine ⟨g, List.mem_range.mpr hg, ?_⟩
    intro hc
    exact hnot (List.mem_filter.mpr ⟨List.mem_range.mpr hg, hc⟩)
  simpa using hlt

/-! ### leaves -/

theorem two_leaves {t : Tree} {X : Rows} {m : Nat} {nxt : Rat → Rat}
    (hlen : t.left.length = t.n) (hwf : ∀ i < t.n, wfNode t X m nxt i = true) :
    ∀ (d i : Nat) (l : Int), t.n - i ≤ d → i < t.n → t.left[i]? = some l → ¬ l = -1 →
      ∃ a b, a ≠ b ∧ a < t.n ∧ b < t.n ∧ t.left[a]? = some (-1) ∧ t.left[b]? = some (-1) := by
  intro d
  induction d with
  | zero => intro i l h1 h2; omega
  | succ d ih =>
    intro i l hd hi h1 hl
    obtain ⟨l', r, f, thr, g1, g2, g3, g4⟩ := wfNode_lookups (hwf i hi)
    rw [h1] at g1
    have : l' = l := (Option.some.inj g1).symm
    subst this
    obtain ⟨a1, a3, _⟩ := wfNode_internal (hwf i hi) h1 g2 g3 g4 hl
    obtain ⟨b1, b2⟩ := wfNode_bounds (hwf i hi) h1 g2 g3 g4 hl
    have hne : l' ≠ r := by
      have := hwf i hi
      simp only [wfNode, h1, g2, g3, g4] at this
      simp only [Bool.or_eq_true, Bool.and_eq_true, beq_iff_eq, decide_eq_true_eq, bne_iff_ne, ne_eq] at this
      rcases this with hh | hh
      · exact absurd hh.1 hl
      · exact hh.1.1.1.1.1.1.1.2
    have hln : l'.toNat < t.n := by omega
    have hrn : r.toNat < t.n := by omega
    obtain ⟨ll, _, _, _, k1, _⟩ := wfNode_lookups (hwf _ hln)
    obtain ⟨rl, _, _, _, k2, _⟩ := wfNode_lookups (hwf _ hrn)
    by_cases hll : ll = -1
    · by_cases hrl : rl = -1
      · exact ⟨l'.toNat, r.toNat, by omega, hln, hrn, hll ▸ k1, hrl ▸ k2⟩
      · exact ih r.toNat rl (by omega) hrn k2 hrl
    · exact ih l'.toNat ll (by omega) hln k1 hll

theorem length_gt_one_of_two {l : List Nat} {a b : Nat} (ha : a ∈ l) (hb : b ∈ l) (hab : a ≠ b) :
    1 < l.length := by
  match l, ha, hb with
  | [x], ha, hb =>
    simp at ha hb
    omega
  | x :: y :: rest, _, _ => simp

theorem filter_range_single (P : Nat → Bool) : ∀ (n b : Nat), b < n → P b = true →
    (∀ i, i < n → i ≠ b → P i = false) → (List.range n).filter P = [b] := by
  intro n
  induction n with
  | zero => intro b hb; omega
  | succ n ih =>
    intro b hb hP hrest
    rw [List.range_succ, List.filter_append]
    by_cases hbn : b = n
    · subst hbn
      have : (List.range b).filter P = [] := by
        rw [List.filter_eq_nil_iff]
        intro a ha
        rw [List.mem_range] at ha
        rw [hrest a (by omega) (by omega)]
        simp
      rw [this]
      simp [hP]
    · rw [ih b (by omega) hP (fun i hi hib => hrest i (by omega) hib)]
      have : P n = false := hrest n (by omega) (by omega)
      simp [this]


/-! ### unique top and bottom of the concept list -/

theorem le_root {c c0 : Concept} {nObj : Nat} (h0 : c0.extent = List.range nObj)
    (hs : c.extent.Sublist (List.range nObj)) : c.le c0 = true := by
  simp only [Concept.le, Concept.support, Bool.and_eq_true, Bool.not_eq_true', decide_eq_false_iff_not,
    List.all_eq_true, List.contains_eq_mem, decide_eq_true_eq, h0]
  refine ⟨?_, fun g hg => hs.subset hg⟩
  have := hs.length_le
  omega

theorem topsByLeq_eq {cs : List Concept} {nObj : Nat} (c0 : Concept) (rest : List Concept)
    (hcs : cs = c0 :: rest) (h0 : c0.extent = List.range nObj)
    (hsub : ∀ c ∈ cs, c.extent.Sublist (List.range nObj))
    (hstrict : ∀ j, 0 < j → j < cs.length → (cs.getD j default).extent.length < nObj) :
    topsByLeq cs = [0] := by
  unfold topsByLeq
  have hpos : 0 < cs.length := by rw [hcs]; simp
  have hc0 : cs.getD 0 default = c0 := by rw [hcs]; rfl
  apply filter_range_single _ cs.length 0 hpos
  · rw [List.all_eq_true]
    intro j hj
    rw [List.mem_range] at hj
    by_cases hj0 : j = 0
    · simp [hj0]
    · have := hstrict j (by omega) hj
      have hle : (cs.getD 0 default).le (cs.getD j default) = false := by
        rw [hc0]
        simp only [Concept.le, Concept.support, h0, List.length_range]
        have : decide (nObj > (cs.getD j default).extent.length) = true := by simpa using this
        rw [this]; rfl
      rw [hle]; simp
  · intro i hi hi0
    rw [List.all_eq_false]
    refine ⟨0, List.mem_range.mpr hpos, ?_⟩
    have hci : cs.getD i default ∈ cs := by
      simp [List.getD_eq_getElem?_getD, List.getElem?_eq_getElem hi]
    have hle := le_root (c := cs.getD i default) (c0 := cs.getD 0 default) (by rw [hc0]; exact h0) (hsub _ hci)
    have hne : (0 == i) = false := by simp; omega
    rw [hle, hne]; simp

theorem bottomsByLeq_single (c : Concept) : bottomsByLeq [c] = [0] := by
  unfold bottomsByLeq
  apply filter_range_single _ 1 0 (by omega)
  · simp
  · intro i hi hi0; simp at hi; omega

theorem bottomsByLeq_last (cs : List Concept) (b : Concept) (hb : b.extent = [])
    (hne : ∀ c ∈ cs, c.extent ≠ []) : bottomsByLeq (cs ++ [b]) = [cs.length] := by
  unfold bottomsByLeq
  have hN : (cs ++ [b]).length = cs.length + 1 := by simp
  have hlast : (cs ++ [b]).getD cs.length default = b := by
    simp [List.getD_eq_getElem?_getD]
  have hget : ∀ i, i < cs.length → (cs ++ [b]).getD i default ∈ cs := by
    intro i hi
    simp [List.getD_eq_getElem?_getD, List.getElem?_append_left hi, List.getElem?_eq_getElem hi]
  rw [hN]
  apply filter_range_single _ (cs.length + 1) cs.length (by omega)
  · rw [List.all_eq_true]
    intro j hj
    rw [List.mem_range] at hj
    by_cases hjl : j = cs.length
    · simp [hjl]
    · have hjc := hget j (by omega)
      have hpos : 0 < ((cs ++ [b]).getD j default).extent.length :=
        List.length_pos_iff.mpr (hne _ hjc)
      have hle : ((cs ++ [b]).getD j default).le ((cs ++ [b]).getD cs.length default) = false := by
        rw [hlast]
        simp only [Concept.le, Concept.support, hb, List.length_nil]
        have : decide (((cs ++ [b]).getD j default).extent.length > 0) = true := by simpa using hpos
        rw [this]; rfl
      rw [hle]; simp
  · intro i hi hil
    rw [List.all_eq_false]
    refine ⟨cs.length, List.mem_range.mpr (by omega), ?_⟩
    have hle : ((cs ++ [b]).getD cs.length default).le ((cs ++ [b]).getD i default) = true := by
      rw [hlast]
      simp [Concept.le, Concept.support, hb]
    have hne' : (cs.length == i) = false := by simp; omega
    rw [hle, hne']; simp


/-! ### the converter succeeds -/

theorem bottomConcept_ok (X : Rows) (m : Nat) (hm : 0 < m) :
    conceptFromDescr X m ((List.range m).map fun (j : Nat) => ((j : Int), Descr.none))
      = .ok ⟨[], intentionI X m []⟩ := by
  obtain ⟨m', hm'⟩ : ∃ m', m = m' + 1 := ⟨m - 1, by omega⟩
  have hpy : pyIdx m ((0 : Nat) : Int) = .ok 0 := by
    rw [pyIdx_ok (by omega) (by omega)]; rfl
  have hfil : extPS X 0 Descr.none (List.range (nObjects X)) = [] := by
    simp [extPS, Descr.sat]
  rw [hm', List.range_succ_eq_map, ← hm']
  simp only [List.map_cons, conceptFromDescr, extensionI, extLoop, hpy, hfil, List.isEmpty_nil, if_true]

theorem leaf_mem_bottoms {t : Tree} {X : Rows} {m : Nat} {nxt : Rat → Rat} (hwf : wellFormed t X m nxt = true)
    {a : Nat} (ha : a < t.n) (hleaf : t.left[a]? = some (-1)) :
    a ∈ bottomsByChildren ((List.range t.n).map (dparF t)) t.n := by
  obtain ⟨hlen, hnode⟩ := wf_parts hwf
  obtain ⟨_, hrlen⟩ := wf_parts2 hwf
  unfold bottomsByChildren
  rw [List.mem_filter, List.mem_range]
  refine ⟨ha, ?_⟩
  simp only [Bool.not_eq_true', List.contains_eq_mem, decide_eq_false_iff_not, List.mem_map, List.mem_range]
  rintro ⟨k, _, hk⟩
  unfold dparF at hk
  split at hk
  · cases hk
  · obtain ⟨l, _, _, _, g1, _, _, _, gl, _⟩ := node_of_parent hlen hrlen hnode hk
    rw [hleaf] at g1
    exact gl (Option.some.inj g1).symm

theorem conversion_ok {t : Tree} {X : Rows} {m : Nat} {nxt : Rat → Rat} (hwf : wellFormed t X m nxt = true)
    (hfit : fitted t X = true) : ∃ L, fromDecisionTree t X m nxt = .ok L := by
  obtain ⟨hlen, hnode⟩ := wf_parts hwf
  obtain ⟨hn, hrlen⟩ := wf_parts2 hwf
  obtain ⟨r, hr, hplen, hprem⟩ := parse_ok hwf hfit
  obtain ⟨hdp, _⟩ := parse_inv t m nxt r hn hr
  -- the concepts
  have hentries : ∀ P ∈ r.premises, ∀ jd ∈ P, entryOK m jd := by
    intro P hP
    obtain ⟨j, hj, hjP⟩ := List.mem_iff_getElem.mp hP
    obtain ⟨P', hP', hok⟩ := hprem j (hplen ▸ hj)
    rw [List.getElem?_eq_getElem hj, hjP] at hP'
    exact (Option.some.inj hP') ▸ hok.1.1
  have hcs := conceptsFrom_ok X m r.premises hentries
  have hclen : (r.premises.map (conceptOfPrem X m)).length = t.n := by simp [hplen]
  have hcget : ∀ j, j < t.n → ((r.premises.map (conceptOfPrem X m)).getD j default).extent = EF t X j := by
    intro j hj
    obtain ⟨P, hP, hok⟩ := hprem j hj
    simp only [List.getD_eq_getElem?_getD, List.getElem?_map, hP, Option.map, Option.getD, conceptOfPrem]
    exact extOfPrem_node hok
  have hmemc : ∀ c ∈ r.premises.map (conceptOfPrem X m), ∃ j, j < t.n ∧ c.extent = EF t X j := by
    intro c hc
    obtain ⟨j, hj, hjc⟩ := List.mem_iff_getElem.mp hc
    rw [hclen] at hj
    refine ⟨j, hj, ?_⟩
    rw [← hcget j hj, ← hjc]
    simp [List.getD_eq_getElem?_getD, List.getElem?_eq_getElem (hclen ▸ hj)]
  obtain ⟨g0, hg0, _⟩ := fitted_witness hfit hn
  have hsubEF : ∀ j, (EF t X j).Sublist (List.range (nObjects X)) := fun j => List.filter_sublist
  obtain ⟨c0, rest, hcons⟩ : ∃ c0 rest, r.premises.map (conceptOfPrem X m) = c0 :: rest := by
    cases hmap : r.premises.map (conceptOfPrem X m) with
    | nil => rw [hmap] at hclen; simp at hclen; omega
    | cons a b => exact ⟨a, b, rfl⟩
  have hc0 : c0.extent = List.range (nObjects X) := by
    have := hcget 0 hn
    rw [hcons] at this
    simp only [List.getD_cons_zero] at this
    rw [this, EF_zero]
  unfold fromDecisionTree
  simp only [hr, hcs]
  by_cases hone : t.n = 1
  · -- a single node: no completion
    have hbot : bottomsByChildren r.dparents (r.premises.map (conceptOfPrem X m)).length = [0] := by
      rw [hclen, hdp, hone]
      simp [bottomsByChildren, dparF, List.range_succ]
    have hrest : rest = [] := by
      have : (c0 :: rest).length = 1 := by rw [← hcons, hclen, hone]
      simpa using this
    rw [hbot]
    simp only [List.length_cons, List.length_nil, Nat.zero_add, gt_iff_lt, Nat.lt_irrefl, if_false, ne_eq,
      not_true_eq_false]
    rw [hcons, hrest]
    have ht : topsByLeq [c0] = [0] := by
      apply topsByLeq_eq c0 [] rfl hc0
      · intro c hc; simp at hc; subst hc; rw [hc0]; exact List.Sublist.refl _
      · intro j hj0 hj1; simp at hj1; omega
    rw [ht, bottomsByLeq_single]
    exact ⟨_, rfl⟩
  · -- at least two leaves: the bottom concept is added
    have hn2 : 1 < t.n := by omega
    obtain ⟨p1, hp1⟩ := Option.isSome_iff_exists.mp (parents_exist hwf 1 (by omega) hn2)
    obtain ⟨l, rr, f, thr, g1, g2, g3, g4, gl, hpn, hpk, _⟩ := node_of_parent hlen hrlen hnode hp1
    obtain ⟨_, _, a6, a7, _⟩ := wfNode_internal (hnode p1 hpn) g1 g2 g3 g4 gl
    have hm : 0 < m := by omega
    obtain ⟨a, b, hab, han, hbn, hla, hlb⟩ := two_leaves hlen hnode t.n p1 l (by omega) hpn g1 gl
    have hbots : 1 < (bottomsByChildren r.dparents (r.premises.map (conceptOfPrem X m)).length).length := by
      rw [hclen, hdp]
      exact length_gt_one_of_two (leaf_mem_bottoms hwf han hla) (leaf_mem_bottoms hwf hbn hlb) hab
    rw [if_pos hbots, bottomConcept_ok X m hm]
    simp only [List.length_cons, List.length_nil, Nat.zero_add, ne_eq, not_true_eq_false, if_false]
    have ht : topsByLeq (r.premises.map (conceptOfPrem X m) ++ [(⟨[], intentionI X m []⟩ : Concept)]) = [0] := by
      apply topsByLeq_eq c0 (rest ++ [(⟨[], intentionI X m []⟩ : Concept)]) (by rw [hcons]; rfl) hc0
      · intro c hc
        rcases List.mem_append.mp hc with hc | hc
        · obtain ⟨j, _, hj⟩ := hmemc c hc
          rw [hj]; exact hsubEF j
        · simp at hc; subst hc; exact List.nil_sublist _
      · intro j hj0 hjN
        simp only [List.length_append, hclen, List.length_cons, List.length_nil] at hjN
        by_cases hjn : j < t.n
        · have : (r.premises.map (conceptOfPrem X m) ++ [(⟨[], intentionI X m []⟩ : Concept)]).getD j default
              = (r.premises.map (conceptOfPrem X m)).getD j default := by
            simp only [List.getD_eq_getElem?_getD]
            rw [List.getElem?_append_left (by rw [hclen]; exact hjn)]
          rw [this, hcget j hjn]
          exact EF_strict hwf hfit hj0 hjn
        · have hj : j = (r.premises.map (conceptOfPrem X m)).length := by rw [hclen]; omega
          have : (r.premises.map (conceptOfPrem X m) ++ [(⟨[], intentionI X m []⟩ : Concept)]).getD j default
              = (⟨[], intentionI X m []⟩ : Concept) := by
            rw [hj]; simp [List.getD_eq_getElem?_getD]
          rw [this]
          show (0 : Nat) < nObjects X
          omega
    have hb := bottomsByLeq_last (r.premises.map (conceptOfPrem X m)) (⟨[], intentionI X m []⟩ : Concept) rfl (by
      intro c hc
      obtain ⟨j, hj, hje⟩ := hmemc c hc
      obtain ⟨g, hg, hgk⟩ := fitted_witness hfit hj
      rw [hje]
      exact List.ne_nil_of_mem (mem_EF.mpr ⟨hg, hgk⟩))
    rw [ht, hb]
    exact ⟨_, rfl⟩

end Fca.DL

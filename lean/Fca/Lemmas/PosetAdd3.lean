/-
  Lemmas/PosetAdd3 — the breadth-first search of `_trace_elements_both_directions`, monadic part:
  `traceLoop` keeps the loop invariant, never runs out of fuel, and `trace_element` returns (in either
  direction) exactly the elements on that side of the new element and the extreme ones among them.
-/
import Fca.Lemmas.PosetAdd2
set_option linter.unusedSectionVars false
namespace Fca.Poset
open Fca Fca.Poset.Fresh

section
variable {α : Type} [DecidableEq α] {leq : α → α → Bool} {ord : List Nat → List Nat}
variable {E : List α} {G : Ghost} {c : Bool}

theorem length_setInsert_of_not_mem {x : Nat} {l : List Nat} (h : x ∉ l) :
    (setInsert x l).length = l.length + 1 := by
  unfold setInsert
  simp [h]

variable (hpo : IdxPO leq E) (hord : ∀ l, (ord l).Perm l)
include hpo hord

theorem traceLoop_spec {d : Dir} {e : α} (hD : DownSet leq d E (cmpB leq d e E)) (fuel : Nat) :
    ∀ (tv tr fin : List Nat) (s : St α), BInv leq d E (cmpB leq d e E) tv tr fin →
      InvB leq E (G.addDirectP d.flip (fun k => k ∈ tr)) c s →
      E.length + 1 ≤ fuel + tr.length →
      Sat (traceLoop leq ord d e fuel tv tr fin) s (fun s' r =>
        BInv leq d E (cmpB leq d e E) [] r.2 r.1 ∧
        InvB leq E (G.addDirectP d.flip (fun k => k ∈ r.2)) c s') := by
  induction fuel with
  | zero =>
    intro tv tr fin s h _ hf
    have := binv_tr_length hD h
    omega
  | succ fuel ih =>
    intro tv tr fin s h hinv hf
    cases tv with
    | nil =>
      unfold traceLoop
      exact sat_pure ⟨h, hinv⟩
    | cons el rest =>
      unfold traceLoop
      simp only
      have hDel : cmpB leq d e E el = true := h.tvD el List.mem_cons_self
      have hel : el < E.length := hD.lt el hDel
      have helt : el ∉ tr := h.disj el List.mem_cons_self
      apply sat_bind
      apply sat_mono (directE_spec' hpo hord hinv d.flip hel)
      rintro s1 nx ⟨h1, hnx, hpres⟩
      apply sat_bind
      apply sat_get
      rw [h1.elems]
      have hnxr : ∀ p ∈ nx, p < E.length := by
        intro p hp
        have := mem_direct.mp ((hnx.2 p).mp hp)
        exact (ltD_lt (isCover_iff.mp this).1).1
      rw [filterCmp_ok hnxr]
      apply sat_bind
      apply sat_ofExcept_ok
      have hnxt : ∀ p, p ∈ nx.filter (cmpB leq d e E) ↔
          (isCover leq d E el p = true ∧ cmpB leq d e E p = true) := by
        intro p
        rw [List.mem_filter, hnx.2 p, mem_direct, isCover_flip]
      have hinv' : InvB leq E (G.addDirectP d.flip (fun k => k ∈ setInsert el tr)) c s1 := by
        refine h1.dropDirectP.addDirectP d.flip _ (fun hct k hk => ?_)
        rcases mem_setInsert.mp hk with e1 | hk
        · subst e1; exact hpres hct
        · exact h1.directPres hct d.flip k (Or.inr ⟨rfl, hk⟩)
      have hlen : E.length + 1 ≤ fuel + (setInsert el tr).length := by
        rw [length_setInsert_of_not_mem helt]; omega
      by_cases hemp : (nx.filter (cmpB leq d e E)).isEmpty = true
      · rw [if_pos hemp]
        apply ih rest (setInsert el tr) (setInsert el fin) s1 _ hinv' hlen
        apply binv_step_empty h
        intro p hc
        cases hp : cmpB leq d e E p
        · rfl
        · have := (hnxt p).mpr ⟨hc, hp⟩
          rw [List.isEmpty_iff.mp hemp] at this; cases this
      · rw [if_neg hemp]
        apply ih _ (setInsert el tr) fin s1 _ hinv' hlen
        apply binv_step_nonempty h hnxt (hnx.1.filter _)
        · intro e1; apply hemp; rw [e1]; rfl
        · exact hord _

/-- `trace_element(element, 'up')` (`d = .desc`) / `'down'` (`d = .anc`) -/
theorem traceElement_spec {d : Dir} {e : α} (hD : DownSet leq d E (cmpB leq d e E)) {s : St α}
    (h : InvB leq E G c s) :
    Sat (traceElement leq ord d e) s (fun s' r =>
      BInv leq d E (cmpB leq d e E) [] r.2 r.1 ∧
      InvB leq E ((G.addClosedP d (fun k => k < E.length)).addDirectP d.flip (fun k => k ∈ r.2)) c s') := by
  unfold traceElement
  apply sat_bind
  apply sat_mono (extremesE_spec' hpo h d)
  rintro s1 start ⟨h1, rfl⟩
  apply sat_bind
  apply sat_get
  rw [h1.elems]
  have hsr : ∀ i ∈ extremes leq d E, i < E.length := by
    intro i hi
    unfold extremes at hi
    exact List.mem_range.mp (List.mem_filter.mp hi).1
  rw [filterCmp_ok hsr]
  apply sat_bind
  apply sat_ofExcept_ok
  exact traceLoop_spec hpo hord hD (E.length + 1) _ [] [] s1 binv_init
    (h1.addDirectP d.flip _ (fun _ k hk => by cases hk)) (by simp)

end
end Fca.Poset

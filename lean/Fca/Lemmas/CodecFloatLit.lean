/-
  Fca.Lemmas.CodecFloatLit — the model's own `loads` inverts its `dumps` on every interval description
  `[a, b]` whose borders are JSON float literals: finite `repr` literals (digits, sign, fraction / exponent)
  and the non-finite tokens `Infinity`, `-Infinity` — in either position.  This discharges the codec
  hypothesis (`MVCodecOk`, `PCodecOk`) for interval cells without trusting anything.
-/
import Fca.Model.CodecMV
import Fca.Lemmas.CodecMVCxt
namespace Fca.Codec

/-- a finite float literal as `float.__repr__` / `json.dumps` write it: it starts with a digit, or with `-` and a
    digit; it has number characters only; it has a fraction or an exponent -/
def finiteLitB (l : Str) : Bool :=
  (match l with
    | c :: cs => c.isDigit || (c == '-' && (match cs with | d :: _ => d.isDigit | [] => false))
    | [] => false)
  && l.all isNumChar && l.any (fun c => c == '.' || c == 'e' || c == 'E')

/-- the literals `json.dumps(float)` can write, NaN excluded -/
def IsJsonFloat (l : Str) : Prop := finiteLitB l = true ∨ l = "Infinity".toList ∨ l = "-Infinity".toList
instance (l : Str) : Decidable (IsJsonFloat l) := by unfold IsJsonFloat; infer_instance

theorem spanNum_append : ∀ (l : Str) (d : Char) (r : Str), (∀ c ∈ l, isNumChar c = true) → isNumChar d = false →
    spanNum (l ++ d :: r) = (l, d :: r)
  | [], d, r, _, hd => by simp [spanNum, hd]
  | c :: cs, d, r, hl, hd => by
    have hc : isNumChar c = true := hl c (by simp)
    have ih := spanNum_append cs d r (fun x hx => hl x (List.mem_cons_of_mem _ hx)) hd
    simp [spanNum, hc, ih]

theorem numOfLit_float (l : Str) (h : (l.any fun c => c == '.' || c == 'e' || c == 'E') = true) :
    numOfLit l = some (.flt l) := by
  unfold numOfLit
  rw [if_pos h]

theorem isWs_of_isNumChar (c : Char) (h : isNumChar c = true) : isWs c = false := by
  unfold isWs
  unfold isNumChar at h
  rcases hws : (c == ' ' || c == '\n' || c == '\r' || c == '\t') with _ | _
  · rfl
  · exfalso
    simp only [Bool.or_eq_true, beq_iff_eq] at hws
    rcases hws with ((rfl | rfl) | rfl) | rfl <;> simp at h

/-- the first character of a finite literal is a digit or a minus sign followed by a digit -/
theorem parseVal_finite (f : Nat) (l : Str) (d : Char) (r : Str) (h : finiteLitB l = true)
    (hd : isNumChar d = false) : parseVal (f + 1) (l ++ d :: r) = some (.flt l, d :: r) := by
  unfold finiteLitB at h
  simp only [Bool.and_eq_true, List.all_eq_true] at h
  obtain ⟨⟨hhead, hall⟩, hany⟩ := h
  have hspan := spanNum_append l d r hall hd
  have hnum := numOfLit_float l hany
  cases l with
  | nil => simp at hhead
  | cons c cs =>
    have hc : isNumChar c = true := hall c (by simp)
    have hws := isWs_of_isNumChar c hc
    have hsk : skipWs ((c :: cs) ++ d :: r) = (c :: cs) ++ d :: r := by
      simp [skipWs, hws]
    rw [parseVal, hsk]
    simp only [List.cons_append]
    split
    all_goals first
      | (rename_i heq; simp only [List.cons.injEq] at heq; obtain ⟨rfl, _⟩ := heq; simp [isNumChar] at hc; done)
      | skip
    · -- `-Infinity…`: excluded, a finite literal has a digit after the sign
      rename_i heq
      simp only [List.cons.injEq] at heq
      obtain ⟨rfl, htl⟩ := heq
      cases cs with
      | nil => simp at hhead
      | cons d' ds =>
        simp only [List.cons_append, List.cons.injEq] at htl
        obtain ⟨rfl, _⟩ := htl
        simp at hhead
    · rename_i heq
      simp only [List.cons.injEq] at heq
      obtain ⟨rfl, rfl⟩ := heq
      have hspan' : spanNum (c :: (cs ++ d :: r)) = (c :: cs, d :: r) := hspan
      rw [if_pos hc, hspan']
      simp only [hnum, Option.map_some]
    · rename_i heq
      cases heq

theorem parseVal_inf (f : Nat) (r : Str) :
    parseVal (f + 1) ("Infinity".toList ++ r) = some (.flt "Infinity".toList, r) := by
  show parseVal (f + 1) ('I' :: 'n' :: 'f' :: 'i' :: 'n' :: 'i' :: 't' :: 'y' :: r) = _
  rw [parseVal]
  simp [skipWs, isWs]

theorem parseVal_neginf (f : Nat) (r : Str) :
    parseVal (f + 1) ("-Infinity".toList ++ r) = some (.flt "-Infinity".toList, r) := by
  show parseVal (f + 1) ('-' :: 'I' :: 'n' :: 'f' :: 'i' :: 'n' :: 'i' :: 't' :: 'y' :: r) = _
  rw [parseVal]
  simp [skipWs, isWs]

/-- one float literal followed by a delimiter -/
theorem parseVal_lit (f : Nat) (l : Str) (d : Char) (r : Str) (h : IsJsonFloat l) (hd : isNumChar d = false) :
    parseVal (f + 1) (l ++ d :: r) = some (.flt l, d :: r) := by
  rcases h with h | rfl | rfl
  · exact parseVal_finite f l d r h hd
  · exact parseVal_inf f (d :: r)
  · exact parseVal_neginf f (d :: r)

/-- a float literal starts with a character that is neither blank nor `]` -/
theorem lit_head (l : Str) (h : IsJsonFloat l) :
    ∃ c cs, l = c :: cs ∧ isWs c = false ∧ c ≠ ']' := by
  rcases h with h | rfl | rfl
  · unfold finiteLitB at h
    simp only [Bool.and_eq_true, List.all_eq_true] at h
    cases l with
    | nil => simp at h
    | cons c cs =>
      have hc : isNumChar c = true := h.1.2 c (by simp)
      refine ⟨c, cs, rfl, isWs_of_isNumChar c hc, ?_⟩
      rintro rfl
      simp [isNumChar] at hc
  · exact ⟨'I', _, rfl, by decide, by decide⟩
  · exact ⟨'-', _, rfl, by decide, by decide⟩

theorem parseVal_blank (f : Nat) (s : Str) : parseVal (f + 1) (' ' :: s) = parseVal (f + 1) s := by
  rw [parseVal, parseVal]
  have : skipWs (' ' :: s) = skipWs s := by simp [skipWs, isWs]
  rw [this]

/-- the last element of a list: ` b]` -/
theorem parseElems_last (f : Nat) (b : Str) (hb : IsJsonFloat b) :
    parseElems (f + 2) (' ' :: (b ++ [']'])) = some ([.flt b], []) := by
  rw [parseElems, parseVal_blank, parseVal_lit f b ']' [] hb (by decide)]
  simp [skipWs, isWs]

/-- two elements: `a, b]` -/
theorem parseElems_two (f : Nat) (a b : Str) (ha : IsJsonFloat a) (hb : IsJsonFloat b) :
    parseElems (f + 3) (a ++ ',' :: ' ' :: (b ++ [']'])) = some ([.flt a, .flt b], []) := by
  rw [parseElems, parseVal_lit (f + 1) a ',' _ ha (by decide)]
  simp [skipWs, isWs, parseElems_last f b hb]

/-- `[a, b]` -/
theorem parseVal_pair (f : Nat) (a b : Str) (ha : IsJsonFloat a) (hb : IsJsonFloat b) :
    parseVal (f + 4) ('[' :: (a ++ ',' :: ' ' :: (b ++ [']']))) = some (.arr [.flt a, .flt b], []) := by
  obtain ⟨ca, csa, rfl, hwa, hna⟩ := lit_head a ha
  rw [parseVal]
  have hs1 : skipWs ('[' :: ((ca :: csa) ++ ',' :: ' ' :: (b ++ [']'])))
      = '[' :: ((ca :: csa) ++ ',' :: ' ' :: (b ++ [']'])) := by simp [skipWs, isWs]
  have hs2 : skipWs ((ca :: csa) ++ ',' :: ' ' :: (b ++ [']']))
      = ca :: (csa ++ ',' :: ' ' :: (b ++ [']'])) := by simp [skipWs, hwa]
  rw [hs1]
  simp only [hs2]
  split
  · rename_i heq
    simp only [List.cons.injEq] at heq
    exact absurd heq.1 hna
  · have := parseElems_two f (ca :: csa) b ha hb
    simp only [List.cons_append] at this
    simp [this]

/-- `json.loads(json.dumps([a, b])) == [a, b]` in the model, for float literals in both positions -/
theorem loads_dumps_pair (a b : Str) (ha : IsJsonFloat a) (hb : IsJsonFloat b) :
    loads (dumps (.arr [.flt a, .flt b])) = some (.arr [.flt a, .flt b]) := by
  have hd : dumps (.arr [.flt a, .flt b]) = '[' :: (a ++ ',' :: ' ' :: (b ++ [']'])) := by
    simp [dumps, dumpsWith, dumpsElems]
  rw [hd]
  unfold loads
  have hlen : ('[' :: (a ++ ',' :: ' ' :: (b ++ [']']))).length + 1 = (a.length + b.length + 1) + 4 := by
    simp only [List.length_cons, List.length_append, List.length_nil]; omega
  rw [hlen, parseVal_pair _ a b ha hb]
  simp [skipWs]

end Fca.Codec

/-
  Fca.Lemmas.ConstructSweep — the chain sweep of `construct_lattice_from_spanning_tree` and of its
  `_parallel` twin, for an arbitrary order in which the chains are scanned for each concept:
  when all chains have been processed, `all_superconcepts[c]` is the complete set of strict superconcepts
  of `c` and `superconcepts_dict[c]` is a sound candidate set containing every upper cover.
-/
import Fca.Lemmas.ConstructScan
import Fca.Lemmas.ConstructFinal
namespace Fca.Construct
open Fca.Spec

theorem getD_set_self' {α : Type} {D : List α} {k : Nat} {v d : α} (hk : k < D.length) :
    (D.set k v).getD k d = v := by
  simp [List.getD_eq_getElem?_getD, hk]

theorem getD_set_ne' {α : Type} {D : List α} {k i : Nat} {v d : α} (h : i ≠ k) :
    (D.set k v).getD i d = D.getD i d := by
  simp only [List.getD_eq_getElem?_getD]
  rw [List.getElem?_set_ne (Ne.symm h)]

variable {n : Nat} {lt : Nat → Nat → Bool} {rk : Nat → Nat}

/-- static facts about the order, the listing positions and the chains -/
structure SweepCtx (n : Nat) (lt : Nat → Nat → Bool) (rk : Nat → Nat) (pos : Nat → Nat) (top : Nat)
    (chains : List (List Nat)) : Prop where
  so : StrictOrd lt rk
  posOK : ∀ a b, a < n → b < n → lt a b = true → pos b < pos a
  topLt : top < n
  topMax : ∀ j, j < n → j ≠ top → lt j top = true
  chainsLt : ∀ ch ∈ chains, ∀ x ∈ ch, x < n
  chainsDesc : ∀ ch ∈ chains, ch.Pairwise (fun a b => lt b a = true)
  chainsHead : ∀ ch ∈ chains, ch.head? = some top
  chainsCover : ∀ i, i < n → ∃ ch ∈ chains, i ∈ ch

/-- `c` has been processed: its candidate set is no longer empty -/
def Proc (sw : Sweep) (c : Nat) : Prop := sw.supD.getD c [] ≠ []

/-- invariant of the three shared dictionaries between two concepts -/
structure GInv (n : Nat) (lt : Nat → Nat → Bool) (sw : Sweep) : Prop where
  lenA : sw.allSup.length = n
  lenI : sw.incomp.length = n
  lenS : sw.supD.length = n
  allOK : ∀ c, c < n → Proc sw c → ∀ x, x ∈ sw.allSup.getD c [] ↔ (x < n ∧ lt c x = true)
  supSound : ∀ c, c < n → ∀ x ∈ sw.supD.getD c [], x < n ∧ lt c x = true
  supNodup : ∀ c, c < n → (sw.supD.getD c []).Nodup
  supCov : ∀ c, c < n → Proc sw c → ∀ x ∈ upperCoversBy n lt c, x ∈ sw.supD.getD c []
  unproc : ∀ c, c < n → ¬ Proc sw c → sw.allSup.getD c [] = [] ∧ sw.incomp.getD c [] = []

section
variable {pos : Nat → Nat} {top : Nat} {chains : List (List Nat)}

theorem SweepCtx.top_not_below (ctx : SweepCtx n lt rk pos top chains) {x : Nat} (hx : x < n) :
    lt top x = false := by
  apply Bool.eq_false_iff.mpr
  intro h
  by_cases e : x = top
  · subst e; rw [ctx.so.irrefl] at h; cases h
  · have := ctx.so.asymm (ctx.topMax x hx e)
    rw [h] at this; cases this

theorem GInv.top_unproc (ctx : SweepCtx n lt rk pos top chains) {sw : Sweep} (g : GInv n lt sw) :
    ¬ Proc sw top := by
  intro hp
  unfold Proc at hp
  cases hl : sw.supD.getD top [] with
  | nil => exact hp hl
  | cons x xs =>
    have := g.supSound top ctx.topLt x (by rw [hl]; exact List.mem_cons_self ..)
    rw [ctx.top_not_below this.1] at this; cases this.2

/-- `all_superconcepts[p]` is complete for a processed `p` and for the top -/
theorem GInv.allComplete (ctx : SweepCtx n lt rk pos top chains) {sw : Sweep} (g : GInv n lt sw)
    {p : Nat} (hp : p < n) (h : Proc sw p ∨ p = top) :
    ∀ x, x ∈ sw.allSup.getD p [] ↔ (x < n ∧ lt p x = true) := by
  rcases h with h | h
  · exact g.allOK p hp h
  · subst h
    intro x
    rw [(g.unproc p hp (g.top_unproc ctx)).1]
    constructor
    · intro hx; cases hx
    · rintro ⟨hx, hlt⟩
      rw [ctx.top_not_below hx] at hlt; cases hlt

/-- invariant of the resume indexes while walking down one chain; `a` is the chain element just passed -/
structure LInv (n : Nat) (lt : Nat → Nat → Bool) (top : Nat) (chains : List (List Nat)) (sw : Sweep)
    (idxs : List Nat) (a : Nat) : Prop where
  idxLen : idxs.length = chains.length
  pre : ∀ chI, chI < chains.length → idxs.getD chI 0 ≤ (chains.getD chI []).length ∧
    ∀ x ∈ (chains.getD chI []).take (idxs.getD chI 0), lt a x = true
  aLt : a < n
  aOK : Proc sw a ∨ a = top

/-- invariant during the scans of one concept `c`; `sw0` is the state before `c` was started and
    `D` the chains already scanned -/
structure SInv (n : Nat) (lt : Nat → Nat → Bool) (top : Nat) (chains : List (List Nat)) (c : Nat)
    (sw0 sw : Sweep) (idxs : List Nat) (D : List Nat) : Prop where
  lenA : sw.allSup.length = n
  lenI : sw.incomp.length = n
  lenS : sw.supD.length = n
  idxLen : idxs.length = chains.length
  frameA : ∀ c', c' ≠ c → sw.allSup.getD c' [] = sw0.allSup.getD c' []
  frameI : ∀ c', c' ≠ c → sw.incomp.getD c' [] = sw0.incomp.getD c' []
  frameS : ∀ c', c' ≠ c → sw.supD.getD c' [] = sw0.supD.getD c' []
  allSound : ∀ x ∈ sw.allSup.getD c [], x < n ∧ lt c x = true
  supSound : ∀ x ∈ sw.supD.getD c [], x < n ∧ lt c x = true
  supNodup : (sw.supD.getD c []).Nodup
  supNe : sw.supD.getD c [] ≠ []
  incSound : ∀ x ∈ sw.incomp.getD c [], lt c x = false
  topIn : top ∈ sw.allSup.getD c []
  covIn : ∀ q ∈ sw.allSup.getD c [], q ∈ upperCoversBy n lt c → q ∈ sw.supD.getD c []
  starts : ∀ chI, chI < chains.length → idxs.getD chI 0 ≤ (chains.getD chI []).length ∧
    ∀ x ∈ (chains.getD chI []).take (idxs.getD chI 0), x ∈ sw.allSup.getD c []
  done : ∀ chI ∈ D, ∀ x ∈ chains.getD chI [], lt c x = true → x ∈ sw.allSup.getD c []

theorem getD_mem_chains {chains : List (List Nat)} {chI : Nat} (h : chI < chains.length) :
    chains.getD chI [] ∈ chains := by
  rw [List.getD_eq_getElem?_getD, List.getElem?_eq_getElem h]
  exact List.getElem_mem _

/-- one scan keeps the invariant and completes its chain -/
theorem scanOne_ok (ctx : SweepCtx n lt rk pos top chains) {c : Nat} (hc : c < n) {sw0 sw : Sweep}
    {idxs D : List Nat} (inv : SInv n lt top chains c sw0 sw idxs D) {chI : Nat}
    (hchI : chI < chains.length) :
    SInv n lt top chains c sw0 (scanOne lt pos chains c (sw, idxs) chI).1
      (scanOne lt pos chains c (sw, idxs) chI).2 (chI :: D) := by
  have hmem := getD_mem_chains hchI
  have sctx : ScanCtx n lt rk pos top (chains.getD chI []) c :=
    ⟨ctx.so, ctx.posOK, hc, ctx.chainsLt _ hmem, ctx.chainsDesc _ hmem, ctx.chainsHead _ hmem⟩
  have res := iterateChain_ok sctx
    ⟨sw.supD.getD c [], sw.allSup.getD c [], sw.incomp.getD c [], idxs.getD chI 0⟩
    inv.allSound inv.supSound inv.supNodup inv.incSound inv.topIn (inv.starts chI hchI).1
    (inv.starts chI hchI).2 inv.covIn
  unfold scanOne
  simp only
  generalize iterateChain lt pos (chains.getD chI []) c
    ⟨sw.supD.getD c [], sw.allSup.getD c [], sw.incomp.getD c [], idxs.getD chI 0⟩ = r at res
  have hcA : c < sw.allSup.length := by rw [inv.lenA]; exact hc
  have hcI : c < sw.incomp.length := by rw [inv.lenI]; exact hc
  have hcS : c < sw.supD.length := by rw [inv.lenS]; exact hc
  have hchIl : chI < idxs.length := by rw [inv.idxLen]; exact hchI
  refine ⟨by simpa using inv.lenA, by simpa using inv.lenI, by simpa using inv.lenS,
    by simpa using inv.idxLen, ?_, ?_, ?_, ?_, ?_, ?_, ?_, ?_, ?_, ?_, ?_, ?_⟩
  · intro c' hne; simp only; rw [getD_set_ne hne]; exact inv.frameA c' hne
  · intro c' hne; simp only; rw [getD_set_ne hne]; exact inv.frameI c' hne
  · intro c' hne; simp only; rw [getD_set_ne hne]; exact inv.frameS c' hne
  · simp only; rw [getD_set_self hcA]; exact res.allSound
  · simp only; rw [getD_set_self hcS]; exact res.supSound
  · simp only; rw [getD_set_self hcS]; exact res.supNodup
  · simp only; rw [getD_set_self hcS]
    intro e
    cases hl : sw.supD.getD c [] with
    | nil => exact inv.supNe hl
    | cons x xs =>
      have := res.monoSup x (by simp only; rw [hl]; exact List.mem_cons_self ..)
      rw [e] at this; cases this
  · simp only; rw [getD_set_self hcI]; exact res.incSound
  · simp only; rw [getD_set_self hcA]; exact res.monoAll _ inv.topIn
  · simp only; rw [getD_set_self hcA, getD_set_self hcS]; exact res.covIn
  · intro chJ hchJ
    simp only
    rw [getD_set_self hcA]
    by_cases e : chJ = chI
    · subst e
      rw [getD_set_self' hchIl]
      exact ⟨res.startLe, res.startIn⟩
    · rw [getD_set_ne' e]
      exact ⟨(inv.starts chJ hchJ).1, fun x hx => res.monoAll x ((inv.starts chJ hchJ).2 x hx)⟩
  · intro chJ hchJ x hx hlt
    simp only
    rw [getD_set_self hcA]
    rcases List.mem_cons.mp hchJ with e | hD
    · subst e; exact res.done x hx hlt
    · exact res.monoAll x (inv.done chJ hD x hx hlt)

theorem scans_ok (ctx : SweepCtx n lt rk pos top chains) {c : Nat} (hc : c < n) {sw0 : Sweep} :
    ∀ (order : List Nat) (sw : Sweep) (idxs D : List Nat), (∀ chI ∈ order, chI < chains.length) →
      SInv n lt top chains c sw0 sw idxs D →
      SInv n lt top chains c sw0 (order.foldl (scanOne lt pos chains c) (sw, idxs)).1
        (order.foldl (scanOne lt pos chains c) (sw, idxs)).2 (order.reverse ++ D) := by
  intro order
  induction order with
  | nil => intro sw idxs D _ inv; simpa using inv
  | cons chI rest ih =>
    intro sw idxs D hlt inv
    have step := scanOne_ok ctx hc inv (hlt chI (List.mem_cons_self ..))
    have := ih _ _ (chI :: D) (fun x hx => hlt x (List.mem_cons_of_mem _ hx)) step
    simp only [List.foldl_cons, List.reverse_cons, List.append_assoc, List.singleton_append]
    exact this

/-- every chain index occurs in the scan order of every concept, and nothing else -/
def ScanOrderOK (chains : List (List Nat)) (scanOrder : Nat → List Nat) : Prop :=
  ∀ c chI, chI ∈ scanOrder c ↔ chI < chains.length

/-- the body of the loop over one chain, for one chain step `p → c` -/
theorem processConcept_ok (ctx : SweepCtx n lt rk pos top chains) {scanOrder : Nat → List Nat}
    (hso : ScanOrderOK chains scanOrder) {sw : Sweep} {idxs : List Nat} {p c : Nat}
    (g : GInv n lt sw) (l : LInv n lt top chains sw idxs p) (hc : c < n) (hcp : lt c p = true) :
    GInv n lt (processConcept lt pos chains scanOrder (sw, idxs) p c).1 ∧
    LInv n lt top chains (processConcept lt pos chains scanOrder (sw, idxs) p c).1
      (processConcept lt pos chains scanOrder (sw, idxs) p c).2 c ∧
    (∀ c', Proc sw c' → Proc (processConcept lt pos chains scanOrder (sw, idxs) p c).1 c') := by
  have hpn := l.aLt
  unfold processConcept
  simp only
  by_cases hproc : (!(sw.supD.getD c []).isEmpty) = true
  · -- already processed: `continue`
    rw [if_pos hproc]
    have hP : Proc sw c := by
      unfold Proc
      intro e; rw [e] at hproc; simp at hproc
    refine ⟨g, ⟨l.idxLen, fun chI hchI => ⟨(l.pre chI hchI).1, fun x hx => ?_⟩, hc, Or.inl hP⟩, fun _ h => h⟩
    exact ctx.so.trans _ _ _ hcp ((l.pre chI hchI).2 x hx)
  · rw [if_neg hproc]
    have hNP : ¬ Proc sw c := by
      unfold Proc
      intro hne
      apply hproc
      cases hl : sw.supD.getD c [] with
      | nil => exact absurd hl hne
      | cons x xs => simp
    obtain ⟨ua, ui⟩ := g.unproc c hc hNP
    have hsupnil : sw.supD.getD c [] = [] := by
      unfold Proc at hNP
      exact Classical.byContradiction hNP
    have hpc : p ≠ c := by intro e; subst e; rw [ctx.so.irrefl] at hcp; cases hcp
    have hpAll := g.allComplete ctx hpn l.aOK
    have hcA : c < sw.allSup.length := by rw [g.lenA]; exact hc
    have hcS : c < sw.supD.length := by rw [g.lenS]; exact hc
    -- the state after the initialisation of `c`
    have hinitAll : ∀ x, x ∈ union (sw.allSup.getD c []) (union [p] (sw.allSup.getD p [])) ↔
        (x = p ∨ (x < n ∧ lt p x = true)) := by
      intro x
      rw [mem_union, mem_union, ua, hpAll x]
      simp
    have inv0 : SInv n lt top chains c sw
        ⟨sw.allSup.set c (union (sw.allSup.getD c []) (union [p] (sw.allSup.getD p []))), sw.incomp,
          sw.supD.set c [p]⟩ idxs [] := by
      refine ⟨by simpa using g.lenA, g.lenI, by simpa using g.lenS, l.idxLen, ?_, fun _ _ => rfl, ?_,
        ?_, ?_, ?_, ?_, ?_, ?_, ?_, ?_, by simp⟩
      · intro c' hne; simp only; rw [getD_set_ne hne]
      · intro c' hne; simp only; rw [getD_set_ne hne]
      · simp only; rw [getD_set_self hcA]
        intro x hx
        rcases (hinitAll x).mp hx with e | ⟨h1, h2⟩
        · subst e; exact ⟨hpn, hcp⟩
        · exact ⟨h1, ctx.so.trans _ _ _ hcp h2⟩
      · simp only; rw [getD_set_self hcS]
        intro x hx
        have : x = p := by simpa using hx
        subst this; exact ⟨hpn, hcp⟩
      · simp only; rw [getD_set_self hcS]; simp
      · simp only; rw [getD_set_self hcS]; simp
      · simp only; rw [ui]; simp
      · simp only; rw [getD_set_self hcA]
        apply (hinitAll top).mpr
        by_cases e : p = top
        · exact Or.inl e.symm
        · exact Or.inr ⟨ctx.topLt, ctx.topMax p hpn e⟩
      · simp only; rw [getD_set_self hcA, getD_set_self hcS]
        intro q hq hcov
        rcases (hinitAll q).mp hq with e | ⟨h1, h2⟩
        · subst e; simp
        · have := (mem_upperCoversBy.mp hcov).2.2 p hpn hcp
          rw [h2] at this; cases this
      · intro chI hchI
        simp only; rw [getD_set_self hcA]
        refine ⟨(l.pre chI hchI).1, fun x hx => ?_⟩
        apply (hinitAll x).mpr
        right
        have hxn : x < n := ctx.chainsLt _ (getD_mem_chains hchI) x (List.mem_of_mem_take hx)
        exact ⟨hxn, (l.pre chI hchI).2 x hx⟩
    have fin := scans_ok ctx hc (scanOrder c) _ idxs [] (fun chI h => (hso c chI).mp h) inv0
    generalize (scanOrder c).foldl (scanOne lt pos chains c)
      (⟨sw.allSup.set c (union (sw.allSup.getD c []) (union [p] (sw.allSup.getD p []))), sw.incomp,
        sw.supD.set c [p]⟩, idxs) = res at fin
    obtain ⟨sw', idxs'⟩ := res
    simp only at fin ⊢
    have hPc : Proc sw' c := fin.supNe
    have hProcIff : ∀ c', c' ≠ c → (Proc sw' c' ↔ Proc sw c') := by
      intro c' hne; unfold Proc; rw [fin.frameS c' hne]
    -- completeness of `all_superconcepts[c]`
    have hcomplete : ∀ x, x ∈ sw'.allSup.getD c [] ↔ (x < n ∧ lt c x = true) := by
      intro x
      constructor
      · exact fin.allSound x
      · rintro ⟨hx, hlt⟩
        obtain ⟨ch, hch, hxch⟩ := ctx.chainsCover x hx
        obtain ⟨chI, hchI, hget⟩ := List.getElem_of_mem hch
        have hgd : chains.getD chI [] = ch := by
          rw [List.getD_eq_getElem?_getD, List.getElem?_eq_getElem hchI]; simpa using hget
        have hD : chI ∈ (scanOrder c).reverse ++ [] := by
          simp only [List.append_nil, List.mem_reverse]; exact (hso c chI).mpr hchI
        exact fin.done chI hD x (by rw [hgd]; exact hxch) hlt
    refine ⟨⟨fin.lenA, fin.lenI, fin.lenS, ?_, ?_, ?_, ?_, ?_⟩, ⟨fin.idxLen, ?_, hc, Or.inl hPc⟩, ?_⟩
    · intro c' hc' hP
      by_cases e : c' = c
      · subst e; exact hcomplete
      · rw [fin.frameA c' e]; exact g.allOK c' hc' ((hProcIff c' e).mp hP)
    · intro c' hc'
      by_cases e : c' = c
      · subst e; exact fin.supSound
      · rw [fin.frameS c' e]; exact g.supSound c' hc'
    · intro c' hc'
      by_cases e : c' = c
      · subst e; exact fin.supNodup
      · rw [fin.frameS c' e]; exact g.supNodup c' hc'
    · intro c' hc' hP
      by_cases e : c' = c
      · subst e
        intro x hx
        have hx' := mem_upperCoversBy.mp hx
        exact fin.covIn x ((hcomplete x).mpr ⟨hx'.1, hx'.2.1⟩) hx
      · rw [fin.frameS c' e]; exact g.supCov c' hc' ((hProcIff c' e).mp hP)
    · intro c' hc' hNP'
      have e : c' ≠ c := by intro e; subst e; exact hNP' hPc
      rw [fin.frameA c' e, fin.frameI c' e]
      exact g.unproc c' hc' (fun h => hNP' ((hProcIff c' e).mpr h))
    · intro chI hchI
      exact ⟨(fin.starts chI hchI).1, fun x hx => (fin.allSound x ((fin.starts chI hchI).2 x hx)).2⟩
    · intro c' hP
      by_cases e : c' = c
      · subst e; exact hPc
      · exact (hProcIff c' e).mpr hP

/-- walking down one chain -/
theorem processChainAux_ok (ctx : SweepCtx n lt rk pos top chains) {scanOrder : Nat → List Nat}
    (hso : ScanOrderOK chains scanOrder) :
    ∀ (ch : List Nat) (sw : Sweep) (idxs : List Nat), (∀ x ∈ ch, x < n) →
      ch.Pairwise (fun a b => lt b a = true) →
      GInv n lt sw → (∀ a, ch.head? = some a → LInv n lt top chains sw idxs a) →
      GInv n lt (processChainAux lt pos chains scanOrder (sw, idxs) ch).1 ∧
      (∀ c', Proc sw c' → Proc (processChainAux lt pos chains scanOrder (sw, idxs) ch).1 c') ∧
      (∀ x ∈ ch.tail, Proc (processChainAux lt pos chains scanOrder (sw, idxs) ch).1 x) := by
  intro ch
  induction ch with
  | nil => intro sw idxs _ _ g _; exact ⟨g, fun _ h => h, by simp⟩
  | cons p rest ih =>
    intro sw idxs hlt hdesc g hl
    cases rest with
    | nil => exact ⟨g, fun _ h => h, by simp⟩
    | cons c rest' =>
      have l := hl p rfl
      have hc : c < n := hlt c (by simp)
      have hcp : lt c p = true := List.rel_of_pairwise_cons hdesc (List.mem_cons_self ..)
      obtain ⟨g1, l1, m1⟩ := processConcept_ok ctx hso g l hc hcp
      unfold processChainAux
      generalize processConcept lt pos chains scanOrder (sw, idxs) p c = st at g1 l1 m1
      obtain ⟨sw1, idxs1⟩ := st
      simp only at g1 l1 m1
      obtain ⟨g2, m2, p2⟩ := ih sw1 idxs1 (fun x hx => hlt x (List.mem_cons_of_mem _ hx)) hdesc.of_cons g1
        (fun a ha => by
          have : a = c := by simpa using ha.symm
          subst this; exact l1)
      refine ⟨g2, fun c' h => m2 c' (m1 c' h), ?_⟩
      intro x hx
      simp only [List.tail_cons] at hx p2
      rcases List.mem_cons.mp hx with e | hx
      · subst e
        apply m2
        rcases l1.aOK with h | h
        · exact h
        · -- `c = top` is impossible below `p`
          subst h
          rw [ctx.top_not_below l.aLt] at hcp; cases hcp
      · exact p2 x hx

theorem getD_replicate_zero {m i : Nat} : (List.replicate m 0).getD i 0 = 0 := by
  rw [List.getD_eq_getElem?_getD]
  by_cases hi : i < m
  · simp [hi]
  · simp [hi]

/-- one iteration of the outer loop: a whole chain -/
theorem processChain_ok (ctx : SweepCtx n lt rk pos top chains) {scanOrder : Nat → List Nat}
    (hso : ScanOrderOK chains scanOrder) {sw : Sweep} (g : GInv n lt sw) {ch : List Nat}
    (hch : ch ∈ chains) :
    GInv n lt (processChain lt pos chains scanOrder sw ch) ∧
    (∀ c', Proc sw c' → Proc (processChain lt pos chains scanOrder sw ch) c') ∧
    (∀ x ∈ ch, x ≠ top → Proc (processChain lt pos chains scanOrder sw ch) x) := by
  unfold processChain
  have hhead := ctx.chainsHead ch hch
  obtain ⟨g1, m1, p1⟩ := processChainAux_ok ctx hso ch sw (List.replicate chains.length 0)
    (ctx.chainsLt ch hch) (ctx.chainsDesc ch hch) g
    (fun a ha => by
      rw [hhead] at ha
      have : a = top := by simpa using ha.symm
      subst this
      refine ⟨by simp, fun chI _ => ?_, ctx.topLt, Or.inr rfl⟩
      rw [getD_replicate_zero]
      simp)
  refine ⟨g1, m1, fun x hx hne => ?_⟩
  cases ch with
  | nil => cases hx
  | cons a rest =>
    have : a = top := by simpa using hhead
    subst this
    rcases List.mem_cons.mp hx with e | hx
    · exact absurd e hne
    · exact p1 x hx

theorem sweepInit_ginv (n : Nat) (lt : Nat → Nat → Bool) : GInv n lt (sweepInit n) := by
  have hnil : ∀ c, (List.replicate n ([] : List Nat)).getD c [] = [] := by
    intro c
    rw [List.getD_eq_getElem?_getD]
    by_cases hc : c < n
    · simp [hc]
    · simp [hc]
  refine ⟨by simp [sweepInit], by simp [sweepInit], by simp [sweepInit], ?_, ?_, ?_, ?_, ?_⟩
  · intro c _ hP; unfold Proc sweepInit at hP; simp only at hP; rw [hnil] at hP; exact absurd rfl hP
  · intro c _ x hx; unfold sweepInit at hx; simp only at hx; rw [hnil] at hx; cases hx
  · intro c _; unfold sweepInit; simp only; rw [hnil]; exact List.nodup_nil
  · intro c _ hP; unfold Proc sweepInit at hP; simp only at hP; rw [hnil] at hP; exact absurd rfl hP
  · intro c _ _; unfold sweepInit; simp only; rw [hnil]; exact ⟨rfl, rfl⟩

/-- the outer loop over all chains -/
theorem sweep_fold_ok (ctx : SweepCtx n lt rk pos top chains) {scanOrder : Nat → List Nat}
    (hso : ScanOrderOK chains scanOrder) :
    ∀ (todo : List (List Nat)) (sw : Sweep), (∀ ch ∈ todo, ch ∈ chains) → GInv n lt sw →
      GInv n lt (todo.foldl (processChain lt pos chains scanOrder) sw) ∧
      (∀ c', Proc sw c' → Proc (todo.foldl (processChain lt pos chains scanOrder) sw) c') ∧
      (∀ ch ∈ todo, ∀ x ∈ ch, x ≠ top → Proc (todo.foldl (processChain lt pos chains scanOrder) sw) x) := by
  intro todo
  induction todo with
  | nil => intro sw _ g; exact ⟨g, fun _ h => h, by simp⟩
  | cons ch rest ih =>
    intro sw hsub g
    obtain ⟨g1, m1, p1⟩ := processChain_ok ctx hso g (hsub ch (List.mem_cons_self ..))
    obtain ⟨g2, m2, p2⟩ := ih _ (fun c hc => hsub c (List.mem_cons_of_mem _ hc)) g1
    simp only [List.foldl_cons]
    refine ⟨g2, fun c' h => m2 c' (m1 c' h), ?_⟩
    intro ch' hch' x hx hne
    rcases List.mem_cons.mp hch' with e | hch'
    · subst e; exact m2 x (p1 x hx hne)
    · exact p2 ch' hch' x hx hne

/-- after the sweep the hypotheses of the final loop hold -/
theorem sweep_post (ctx : SweepCtx n lt rk pos top chains) {scanOrder : Nat → List Nat}
    (hso : ScanOrderOK chains scanOrder) :
    SweepPost n lt (chains.foldl (processChain lt pos chains scanOrder) (sweepInit n)) := by
  obtain ⟨g, _, p⟩ := sweep_fold_ok ctx hso chains (sweepInit n) (fun _ h => h) (sweepInit_ginv n lt)
  have hall : ∀ c, c < n → c ≠ top →
      Proc (chains.foldl (processChain lt pos chains scanOrder) (sweepInit n)) c := by
    intro c hc hne
    obtain ⟨ch, hch, hcch⟩ := ctx.chainsCover c hc
    exact p ch hch c hcch hne
  refine ⟨fun c hc => ?_, g.supSound, fun c hc => ?_, g.supNodup⟩
  · by_cases e : c = top
    · exact g.allComplete ctx hc (Or.inr e)
    · exact g.allComplete ctx hc (Or.inl (hall c hc e))
  · by_cases e : c = top
    · intro x hx
      have hx' := mem_upperCoversBy.mp hx
      rw [e, ctx.top_not_below hx'.1] at hx'; cases hx'.2.1
    · exact g.supCov c hc (hall c hc e)

/-- **the sweep computes the covers**, for every order in which the chains are scanned -/
theorem sweep_finalize_ok (ctx : SweepCtx n lt rk pos top chains) {scanOrder : Nat → List Nat}
    (hso : ScanOrderOK chains scanOrder) (ord : List Nat → List Nat) (hperm : ∀ xs, (ord xs).Perm xs) :
    (finalize n pos ord (chains.foldl (processChain lt pos chains scanOrder) (sweepInit n))).length = n ∧
    ∀ s, s < n →
      ((finalize n pos ord (chains.foldl (processChain lt pos chains scanOrder) (sweepInit n))).getD s []).Nodup ∧
      SameSetC ((finalize n pos ord (chains.foldl (processChain lt pos chains scanOrder) (sweepInit n))).getD s [])
        (coversBy n lt s) :=
  finalize_ok ctx.so pos ctx.posOK ord hperm (sweep_post ctx hso)

end

end Fca.Construct

/-
  Fca.Lemmas.CaspLoops — what the loops of `Fca.Model.Caspailleur` compute, position by position
  (no assumption on the family yet): the scatter loop (transpose), `commonDescendants`, `childrenOf`,
  `transChildren`.
-/
import Fca.Lemmas.CaspBits
namespace Fca.Casp

/-- a table of `R` bitarrays of length `C` -/
def Shape (t : List Bits) (R C : Nat) : Prop := t.length = R ∧ ∀ r, r < R → (t.getD r []).length = C

theorem shape_replicate (R C : Nat) : Shape (List.replicate R (zeros C)) R C := by
  refine ⟨by simp, fun r hr => ?_⟩
  simp [List.getD_eq_getElem?_getD, hr]

theorem cell_replicate (R C r c : Nat) : cell (List.replicate R (zeros C)) r c = false := by
  unfold cell
  by_cases hr : r < R
  · simp [List.getD_eq_getElem?_getD, hr, bit_zeros]
  · simp [List.getD_eq_getElem?_getD, hr, bit_nil]

theorem getD_setCell (t : List Bits) (r c r' : Nat) :
    (setCell t r c).getD r' [] = if r' = r ∧ r < t.length then (t.getD r []).set c true else t.getD r' [] := by
  unfold setCell
  simp only [List.getD_eq_getElem?_getD, List.getElem?_set]
  by_cases h : r = r'
  · subst h
    by_cases hr : r < t.length <;> simp [hr]
  · have : ¬ r' = r := fun e => h e.symm
    simp [h, this]

theorem shape_setCell {t : List Bits} {R C : Nat} (h : Shape t R C) (r c : Nat) : Shape (setCell t r c) R C := by
  refine ⟨by simp [setCell, h.1], fun r' hr' => ?_⟩
  rw [getD_setCell]
  split
  · rw [List.length_set]; exact h.2 r (by omega)
  · exact h.2 r' hr'

theorem cell_setCell {t : List Bits} {R C : Nat} (h : Shape t R C) (r c r' c' : Nat) :
    cell (setCell t r c) r' c' = true ↔ (r' = r ∧ c' = c ∧ r < R ∧ c < C) ∨ cell t r' c' = true := by
  unfold cell
  rw [getD_setCell]
  split
  · rename_i hh
    obtain ⟨rfl, hr⟩ := hh
    rw [bit_set, h.2 r' (h.1 ▸ hr)]
    simp only [Bool.or_eq_true, decide_eq_true_eq]
    have := h.1
    constructor
    · rintro (⟨a, b⟩ | a)
      · exact .inl ⟨trivial, a, by omega, b⟩
      · exact .inr a
    · rintro (⟨_, a, _, b⟩ | a)
      · exact .inl ⟨a, b⟩
      · exact .inr a
  · rename_i hh
    constructor
    · exact fun a => .inr a
    · rintro (⟨a, _, b, _⟩ | a)
      · exact absurd ⟨a, h.1 ▸ b⟩ hh
      · exact a

theorem scatterRow_spec {R C : Nat} (i : Nat) : ∀ (js : List Nat) (t : List Bits), Shape t R C →
    Shape (scatterRow i js t) R C ∧
    ∀ r c, cell (scatterRow i js t) r c = true ↔ (c = i ∧ r ∈ js ∧ r < R ∧ i < C) ∨ cell t r c = true := by
  intro js
  induction js with
  | nil => intro t h; exact ⟨h, fun r c => by simp [scatterRow]⟩
  | cons j js ih =>
    intro t h
    obtain ⟨h1, h2⟩ := ih (setCell t j i) (shape_setCell h j i)
    refine ⟨h1, fun r c => ?_⟩
    simp only [scatterRow]
    rw [h2, cell_setCell h]
    simp only [List.mem_cons]
    constructor
    · rintro (⟨a, b, c', d⟩ | ⟨a, b, c', d⟩ | a)
      · exact .inl ⟨a, .inr b, c', d⟩
      · exact .inl ⟨b, .inl a, a ▸ c', d⟩
      · exact .inr a
    · rintro (⟨a, b | b, c', d⟩ | a)
      · exact .inr (.inl ⟨b, a, b ▸ c', d⟩)
      · exact .inl ⟨a, b, c', d⟩
      · exact .inr (.inr a)

theorem scatter_spec {R C : Nat} : ∀ (rows : List Bits) (i0 : Nat) (t : List Bits), Shape t R C →
    Shape (scatter rows i0 t) R C ∧
    ∀ r c, cell (scatter rows i0 t) r c = true ↔
      (i0 ≤ c ∧ c - i0 < rows.length ∧ bit (rows.getD (c - i0) []) r = true ∧ r < R ∧ c < C) ∨
        cell t r c = true := by
  intro rows
  induction rows with
  | nil => intro i0 t h; exact ⟨h, fun r c => by simp [scatter]⟩
  | cons row rows ih =>
    intro i0 t h
    obtain ⟨s1, s2⟩ := scatterRow_spec (R := R) (C := C) i0 (search1 row) t h
    obtain ⟨h1, h2⟩ := ih (i0 + 1) _ s1
    refine ⟨h1, fun r c => ?_⟩
    simp only [scatter]
    rw [h2, s2]
    simp only [mem_search1, List.length_cons]
    constructor
    · rintro (⟨a, b, c', d, e⟩ | ⟨a, b, c', d⟩ | a)
      · refine .inl ⟨by omega, by omega, ?_, d, e⟩
        have : c - i0 = (c - (i0 + 1)) + 1 := by omega
        rw [this]; simpa using c'
      · subst a
        exact .inl ⟨Nat.le_refl _, by simp, by simpa using b, c', d⟩
      · exact .inr a
    · rintro (⟨a, b, c', d, e⟩ | a)
      · by_cases hc : c = i0
        · subst hc
          exact .inr (.inl ⟨rfl, by simpa using c', d, e⟩)
        · refine .inl ⟨by omega, by omega, ?_, d, e⟩
          have : c - i0 = (c - (i0 + 1)) + 1 := by omega
          rw [this] at c'; simpa using c'
      · exact .inr (.inr a)

/-- the transpose computed by the scatter loop from the all-zero table -/
theorem scatter_zero (rows : List Bits) (R C : Nat) :
    Shape (scatter rows 0 (List.replicate R (zeros C))) R C ∧
    ∀ r c, cell (scatter rows 0 (List.replicate R (zeros C))) r c = true ↔
      (bit (rows.getD c []) r = true ∧ c < rows.length ∧ r < R ∧ c < C) := by
  obtain ⟨h1, h2⟩ := scatter_spec (R := R) (C := C) rows 0 _ (shape_replicate R C)
  refine ⟨h1, fun r c => ?_⟩
  rw [h2, cell_replicate]
  simp only [Nat.zero_le, Nat.sub_zero, true_and, Bool.false_eq_true, or_false]
  constructor
  · rintro ⟨a, b, c', d⟩; exact ⟨b, a, c', d⟩
  · rintro ⟨a, b, c', d⟩; exact ⟨b, a, c', d⟩

/-! ### the three inner loops of `sort_intents_inclusion` -/

theorem foldl_band_spec (f : Nat → Bits) (n : Nat) : ∀ (l : List Nat) (init : Bits),
    init.length = n → (∀ m ∈ l, (f m).length = n) →
    (l.foldl (fun c m => band c (f m)) init).length = n ∧
    ∀ j, bit (l.foldl (fun c m => band c (f m)) init) j = true ↔
      bit init j = true ∧ ∀ m ∈ l, bit (f m) j = true := by
  intro l
  induction l with
  | nil => intro init h _; exact ⟨h, fun j => by simp⟩
  | cons m l ih =>
    intro init h hf
    have hl : (band init (f m)).length = n := by
      rw [length_band, h, hf m (List.mem_cons_self ..)]; omega
    obtain ⟨h1, h2⟩ := ih (band init (f m)) hl (fun m' hm' => hf m' (List.mem_cons_of_mem _ hm'))
    refine ⟨h1, fun j => ?_⟩
    simp only [List.foldl_cons]
    rw [h2, bit_band]
    simp only [Bool.and_eq_true, List.mem_cons, forall_eq_or_imp]
    exact ⟨fun ⟨⟨a, b⟩, c⟩ => ⟨a, b, c⟩, fun ⟨a, b, c⟩ => ⟨⟨a, b⟩, c⟩⟩

theorem foldl_bor_spec (f : Nat → Bits) (n : Nat) : ∀ (l : List Nat) (init : Bits),
    init.length = n → (∀ m ∈ l, (f m).length = n) →
    (l.foldl (fun c m => bor c (f m)) init).length = n ∧
    ∀ j, bit (l.foldl (fun c m => bor c (f m)) init) j = true ↔
      bit init j = true ∨ ∃ m ∈ l, bit (f m) j = true := by
  intro l
  induction l with
  | nil => intro init h _; exact ⟨h, fun j => by simp⟩
  | cons m l ih =>
    intro init h hf
    have hm := hf m (List.mem_cons_self ..)
    have hl : (bor init (f m)).length = n := by rw [length_bor, h, hm]; omega
    obtain ⟨h1, h2⟩ := ih (bor init (f m)) hl (fun m' hm' => hf m' (List.mem_cons_of_mem _ hm'))
    refine ⟨h1, fun j => ?_⟩
    simp only [List.foldl_cons]
    rw [h2, bit_bor (by rw [h, hm])]
    simp only [Bool.or_eq_true, List.mem_cons, exists_eq_or_imp]
    exact or_assoc

theorem foldl_find_spec (g : Nat → Bits) (n : Nat) : ∀ (l : List Nat) (init : Bits), init.length = n →
    (l.foldl (fun ch m => match find1 (g m) with
        | none => ch
        | some k => ch.set k true) init).length = n ∧
    ∀ j, bit (l.foldl (fun ch m => match find1 (g m) with
        | none => ch
        | some k => ch.set k true) init) j = true ↔
      bit init j = true ∨ (j < n ∧ ∃ m ∈ l, find1 (g m) = some j) := by
  intro l
  induction l with
  | nil => intro init h; exact ⟨h, fun j => by simp⟩
  | cons m l ih =>
    intro init h
    simp only [List.foldl_cons]
    cases hf : find1 (g m) with
    | none =>
      obtain ⟨h1, h2⟩ := ih init h
      refine ⟨h1, fun j => ?_⟩
      rw [h2]
      simp only [List.mem_cons, exists_eq_or_imp, hf, reduceCtorEq, false_or]
    | some k =>
      obtain ⟨h1, h2⟩ := ih (init.set k true) (by simpa using h)
      refine ⟨h1, fun j => ?_⟩
      rw [h2, bit_set]
      simp only [Bool.or_eq_true, decide_eq_true_eq, List.mem_cons, exists_eq_or_imp, hf,
        Option.some.injEq, h]
      constructor
      · rintro ((⟨a, b⟩ | a) | ⟨a, b⟩)
        · exact .inr ⟨a ▸ b, .inl a.symm⟩
        · exact .inl a
        · exact .inr ⟨a, .inr b⟩
      · rintro (a | ⟨a, b | b⟩)
        · exact .inl (.inr a)
        · exact .inl (.inl ⟨b.symm, b ▸ a⟩)
        · exact .inr ⟨a, b⟩

end Fca.Casp

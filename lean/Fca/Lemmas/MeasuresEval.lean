/-
  Fca.Lemmas.MeasuresEval — evaluation of the measure models on a concept lattice, and the two arithmetic
  cores (bracket, exponentiated log bound) in exact rationals.
-/
import Fca.Lemmas.MeasuresBounds
namespace Fca.Measures
open Fca Fca.Spec

theorem stabilityBounds_nil (L : Lattice) {i : Nat} {A B : List Nat} (hi : L.concepts[i]? = some (A, B))
    (hch : L.childrenOf i = []) : stabilityBounds i L = .ok (1, 1) := by
  simp only [stabilityBounds, get_ok L hi, hch]
  simp [pyMax, pySum, bind, Except.bind, pure, Except.pure]

theorem stabilityBounds_cons (L : Lattice) {i : Nat} {A B : List Nat} (hi : L.concepts[i]? = some (A, B))
    (hcs : ∀ j ∈ L.childrenOf i, j < L.concepts.length) (hne : L.childrenOf i ≠ []) {m : Rat}
    (hm : pyMax ((L.childrenOf i).map fun j => pow2neg (setDiffLen A (extOf L j))) = .ok m) :
    stabilityBounds i L
      = .ok (1 - pySum ((L.childrenOf i).map fun j => pow2neg (setDiffLen A (extOf L j))), 1 - m) := by
  have hlen : (L.childrenOf i).length > 0 := List.length_pos_iff.mpr hne
  simp only [stabilityBounds, get_ok L hi, hlen, if_true]
  simp only [bind, Except.bind, pure, Except.pure]
  rw [invDiff_eq L A _ hcs]
  simp only [hm]

theorem logStabilityLbound_nil (L : Lattice) {i : Nat} {A B : List Nat} (hi : L.concepts[i]? = some (A, B))
    (hch : L.childrenOf i = []) {w : Nat} (hw : w ≠ 0) :
    logStabilityLbound i L w = .ok ⟨none, w⟩ := by
  simp only [logStabilityLbound, get_ok L hi, hch]
  simp [bind, Except.bind, pure, Except.pure, hw]

theorem logStabilityLbound_cons (L : Lattice) {i : Nat} {A B : List Nat} (hi : L.concepts[i]? = some (A, B))
    (hcs : ∀ j ∈ L.childrenOf i, j < L.concepts.length) (hne : L.childrenOf i ≠ []) {m : Nat}
    (hm : pyMin ((L.childrenOf i).map fun j => setDiffLen A (extOf L j)) = .ok m) {w : Nat} (hw : w ≠ 0) :
    logStabilityLbound i L w = .ok ⟨some m, w⟩ := by
  have hemp : (L.childrenOf i).isEmpty = false := by
    cases hc : L.childrenOf i with
    | nil => exact absurd hc hne
    | cons _ _ => rfl
  simp only [logStabilityLbound, get_ok L hi, hemp]
  simp only [bind, Except.bind, pure, Except.pure]
  rw [deltas_eq L A _ hcs]
  simp [hm, hw]

/-- the `stability` model computes the definition value -/
theorem stability_eq_def (K : Ctx) (hwf : K.table.WF) (L : Lattice) {i : Nat} {A B : List Nat}
    (hi : L.concepts[i]? = some (A, B)) (hc : isConcept K.table A B = true) :
    stability i L K = .ok (stabilityDef K.table A B) := by
  simp only [stability, get_ok L hi]
  simp only [bind, Except.bind, pure, Except.pure]
  by_cases hlen : A.length > 0
  · simp only [hlen, if_true]
    rw [stabilityLoop_genCount K hwf A B hc]
    rfl
  · have hA : A = [] := List.eq_nil_of_length_eq_zero (by omega)
    subst hA
    have hint := ((isConcept_iff K.table).mp hc).2
    simp [stabilityDef, genCount, sublists, hint]

/-- bracket, in exact fractions: `G + N = 2^n`, `P ≤ N ≤ S` -/
theorem bracket_arith {G N S P n : Nat} (hGN : G + N = 2 ^ n) (hNS : N ≤ S) (hPN : P ≤ N) :
    1 - ((S : Nat) : Rat) / ((2 ^ n : Nat) : Rat) ≤ ((G : Nat) : Rat) / ((2 ^ n : Nat) : Rat) ∧
    ((G : Nat) : Rat) / ((2 ^ n : Nat) : Rat) ≤ 1 - ((P : Nat) : Rat) / ((2 ^ n : Nat) : Rat) := by
  have hD : (0 : Rat) < ((2 ^ n : Nat) : Rat) := by exact_mod_cast Nat.pos_of_ne_zero (by positivity)
  have hG : ((G : Nat) : Rat) + (N : Rat) = ((2 ^ n : Nat) : Rat) := by exact_mod_cast hGN
  have h1 : ((N : Nat) : Rat) ≤ (S : Rat) := by exact_mod_cast hNS
  have h2 : ((P : Nat) : Rat) ≤ (N : Rat) := by exact_mod_cast hPN
  generalize ((2 ^ n : Nat) : Rat) = D at *
  have e1 : 1 - (S : Rat) / D = (D - S) / D := by field_simp
  have e2 : 1 - (P : Rat) / D = (D - P) / D := by field_simp
  rw [e1, e2, div_le_div_iff_of_pos_right hD, div_le_div_iff_of_pos_right hD]
  constructor <;> linarith

/-- exponentiated log bound, in exact fractions -/
theorem log_arith {G N n d c w : Nat} (hGN : G + N = 2 ^ n) (h : N * 2 ^ d ≤ c * 2 ^ n) (hc : c ≤ w) :
    (1 - ((G : Nat) : Rat) / ((2 ^ n : Nat) : Rat)) * (2 : Rat) ^ d ≤ (w : Rat) := by
  have hD : (0 : Rat) < ((2 ^ n : Nat) : Rat) := by exact_mod_cast Nat.pos_of_ne_zero (by positivity)
  have hG : ((G : Nat) : Rat) + (N : Rat) = ((2 ^ n : Nat) : Rat) := by exact_mod_cast hGN
  have h1 : ((N : Nat) : Rat) * (2 : Rat) ^ d ≤ (w : Rat) * ((2 ^ n : Nat) : Rat) := by
    have : N * 2 ^ d ≤ w * 2 ^ n := Nat.le_trans h (Nat.mul_le_mul_right _ hc)
    exact_mod_cast this
  generalize ((2 ^ n : Nat) : Rat) = D at *
  have e1 : (1 - (G : Rat) / D) = (N : Rat) / D := by
    field_simp; linarith
  rw [e1, div_mul_eq_mul_div, div_le_iff₀ hD]
  exact h1

end Fca.Measures

/-
  Lemmas for the geometric reading of the Mover: `Sorted` (every row of peer coordinates is strictly
  ascending, i.e. rank order = left-to-right order), established by `setPos` on pairwise distinct
  positions and preserved by every operation.
-/
import Fca.Lemmas.MoverShift
namespace Fca.Mover
open Fca.Layout (VErr)

/-- within every level the peer coordinates strictly increase along the rank order -/
def Sorted (m : St) : Prop := ∀ l, (m.row l).Pairwise (· < ·)

/-! ### list facts -/

theorem pairwise_lt_get {l : List Rat} (hs : l.Pairwise (· < ·)) {a b : Nat} (ha : a < l.length) (hb : b < l.length)
    (hab : a < b) : l[a] < l[b] :=
  List.pairwise_iff_getElem.mp hs a b ha hb hab

theorem pairwise_le_get {l : List Rat} (hs : l.Pairwise (· < ·)) {a b : Nat} (ha : a < l.length) (hb : b < l.length)
    (hab : a ≤ b) : l[a] ≤ l[b] := by
  rcases Nat.lt_or_ge a b with h | h
  · exact Rat.le_of_lt (pairwise_lt_get hs ha hb h)
  · have : a = b := by omega
    subst this; exact Rat.le_refl

/-- overwriting slot `q` of a strictly ascending list by a value that fits between its neighbours -/
theorem pairwise_set_lt {l : List Rat} {q : Nat} {x : Rat} (hs : l.Pairwise (· < ·))
    (hlo : ∀ a (h : a < l.length), a < q → l[a] < x) (hhi : ∀ b (h : b < l.length), q < b → x < l[b]) :
    (l.set q x).Pairwise (· < ·) := by
  apply List.pairwise_iff_getElem.mpr
  intro a b ha hb hab
  have ha' : a < l.length := by simpa using ha
  have hb' : b < l.length := by simpa using hb
  rw [List.getElem_set, List.getElem_set]
  by_cases h1 : q = a
  · subst h1
    have : ¬ q = b := by omega
    simp only [this, ↓reduceIte]
    exact hhi b hb' hab
  · by_cases h2 : q = b
    · subst h2
      simp only [h1, ↓reduceIte]
      exact hlo a ha' hab
    · simp only [h1, h2, ↓reduceIte]
      exact pairwise_lt_get hs ha' hb' hab

/-- in a strictly ascending list the elements satisfying a downward closed predicate form a prefix,
    whose length is the number of such elements -/
theorem filter_prefix (P : Rat → Bool) : ∀ (l : List Rat), l.Pairwise (· < ·) →
    (∀ x y, x < y → P y = true → P x = true) →
    ∀ j (h : j < l.length), (j < (l.filter P).length ↔ P l[j] = true)
  | [], _, _, j, h => absurd h (Nat.not_lt_zero _)
  | a :: as, hs, hP, j, h => by
    obtain ⟨ha, has⟩ := List.pairwise_cons.mp hs
    by_cases hpa : P a = true
    · simp only [List.filter_cons, hpa, ↓reduceIte, List.length_cons]
      cases j with
      | zero => simp [hpa]
      | succ j =>
        simp only [List.getElem_cons_succ]
        have := filter_prefix P as has hP j (by simpa using h)
        rw [← this]; omega
    · have hnone : ∀ y ∈ as, ¬ P y = true := fun y hy hpy => hpa (hP a y (ha y hy) hpy)
      have hnil : as.filter P = [] := List.filter_eq_nil_iff.mpr hnone
      simp only [List.filter_cons, hpa, Bool.false_eq_true, ↓reduceIte, hnil, List.length_nil, Nat.not_lt_zero,
        false_iff]
      cases j with
      | zero => simpa using hpa
      | succ j =>
        simp only [List.getElem_cons_succ]
        exact hnone _ (List.getElem_mem _)

theorem length_filter_compl (P : Rat → Bool) : ∀ (l : List Rat),
    (l.filter P).length + (l.filter fun x => !P x).length = l.length
  | [] => rfl
  | a :: as => by
    have := length_filter_compl P as
    by_cases h : P a = true
    · simp only [List.filter_cons, h, ↓reduceIte, List.length_cons, Bool.not_true, Bool.false_eq_true]; omega
    · have h' : P a = false := by simpa using h
      simp only [List.filter_cons, h', Bool.false_eq_true, ↓reduceIte, List.length_cons, Bool.not_false]; omega

/-! ### sorting by key gives ascending keys -/

theorem insertByKey_sorted (key : Nat → Rat) (x : Nat) : ∀ l : List Nat,
    l.Pairwise (fun a b => key a ≤ key b) → (insertByKey key x l).Pairwise (fun a b => key a ≤ key b)
  | [], _ => by simp [insertByKey]
  | y :: ys, h => by
    simp only [insertByKey]
    have hy := List.pairwise_cons.mp h
    split
    · rename_i hle
      refine List.pairwise_cons.mpr ⟨?_, h⟩
      intro z hz
      rcases List.mem_cons.mp hz with rfl | hz
      · exact hle
      · exact Rat.le_trans hle (hy.1 z hz)
    · rename_i hle
      refine List.pairwise_cons.mpr ⟨?_, insertByKey_sorted key x ys hy.2⟩
      intro z hz
      rcases List.mem_cons.mp ((insertByKey_perm key x ys).mem_iff.mp hz) with rfl | hz
      · exact Rat.le_of_lt (Rat.not_le.mp hle)
      · exact hy.1 z hz

theorem sortByKey_sorted (key : Nat → Rat) : ∀ l : List Nat,
    (sortByKey key l).Pairwise (fun a b => key a ≤ key b)
  | [] => List.Pairwise.nil
  | x :: xs => insertByKey_sorted key x _ (sortByKey_sorted key xs)

/-- loading pairwise distinct positions yields strictly ascending rows -/
theorem loadState_sorted (d : Dir) (val : List (Rat × Rat)) (hnd : val.Nodup) : Sorted (loadState d val) := by
  generalize hLC : sortedSetDesc (val.map (·.2)) = LC
  generalize hlevels : levelsOf LC val = levels
  have hF4 : (loadState d val).posPeers =
      ((List.range LC.length).map (peersOf val levels)).map fun ps => ps.map (keyOf val) := by
    simp only [loadState, hLC, hlevels]
  have hmemLC : ∀ el, el < val.length → (val.getD el (0, 0)).2 ∈ LC := by
    intro el hel
    rw [← hLC]
    apply mem_sortedSetDesc.mpr
    apply List.mem_map.mpr
    refine ⟨val.getD el (0, 0), ?_, rfl⟩
    rw [List.getD_eq_getElem?_getD, List.getElem?_eq_getElem hel]
    simp only [Option.getD_some, List.getElem_mem]
  have hlev : ∀ el, el < val.length → levels.getD el 0 = LC.idxOf (val.getD el (0, 0)).2 := by
    intro el hel
    rw [← hlevels]
    exact getD_map (fun p : Rat × Rat => LC.idxOf p.2) val el (0, 0) 0 hel
  intro l
  simp only [St.row, hF4]
  by_cases hl : l < LC.length
  · rw [List.map_map, getD_map_range _ _ _ _ hl]
    simp only [Function.comp]
    rw [List.pairwise_map]
    have h1 : (peersOf val levels l).Pairwise (fun a b => keyOf val a ≤ keyOf val b) := sortByKey_sorted _ _
    have h2 : (peersOf val levels l).Pairwise (· ≠ ·) := peersOf_nodup val levels l
    refine List.Pairwise.imp_of_mem ?_ (h1.and h2)
    intro a b ha hb ⟨hle, hne⟩
    apply Rat.lt_of_le_of_ne hle
    intro hk
    apply hne
    obtain ⟨han, hal⟩ := mem_peersOf.mp ha
    obtain ⟨hbn, hbl⟩ := mem_peersOf.mp hb
    have hy : (val.getD a (0, 0)).2 = (val.getD b (0, 0)).2 := by
      have e1 := getD_idxOf_self LC _ (hmemLC a han)
      have e2 := getD_idxOf_self LC _ (hmemLC b hbn)
      rw [← hlev a han, hal] at e1
      rw [← hlev b hbn, hbl] at e2
      rw [← e1, ← e2]
    have : val.getD a (0, 0) = val.getD b (0, 0) := Prod.ext hk hy
    exact (List.getD_inj han hbn hnd).mp this
  · have : (List.map (fun ps => List.map (keyOf val) ps) (List.map (peersOf val levels) (List.range LC.length))).getD l [] = [] := by
      rw [List.getD_eq_getElem?_getD, List.getElem?_eq_none (by simp; omega)]
      rfl
    rw [this]
    exact List.Pairwise.nil

theorem orient_injective (d : Dir) (p q : Rat × Rat) (h : orient d p = orient d q) : p = q := by
  cases d
  · exact h
  · simp only [orient, Prod.mk.injEq] at h
    apply Prod.ext
    · have := h.2; grind
    · exact h.1

theorem nodup_map_orient (d : Dir) {value : List (Rat × Rat)} (h : value.Nodup) : (value.map (orient d)).Nodup := by
  rw [List.Nodup, List.pairwise_map]
  exact List.Pairwise.imp (fun hne e => hne (orient_injective d _ _ e)) h

end Fca.Mover

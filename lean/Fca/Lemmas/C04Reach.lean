/-
  Fca.Lemmas.C04Reach — reading "below" off the DRAWN diagram: reachability along the cover edges
  (`parents`) of a complete concept list gives exactly the ancestor sets, so the table is reconstructed from the
  reduced labels and the drawn edges alone (`Spec.holdsC04Edges`).
-/
import Fca.Spec.C04Diagram
import Fca.Lemmas.LatticeQueryLabels
import Fca.Lemmas.LatticeQueryC04
namespace Fca.LQ
open Fca Fca.Spec

/-! ### the generic closure -/

theorem mem_stepRel {rel : List (List Nat)} {s : List Nat} {x : Nat} :
    x ∈ stepRel rel s ↔ x ∈ s ∨ ∃ y ∈ s, x ∈ rel.getD y [] := by
  unfold stepRel
  rw [List.mem_eraseDups, List.mem_append, List.mem_flatMap]

theorem subset_stepRel (rel : List (List Nat)) (s : List Nat) : ∀ x ∈ s, x ∈ stepRel rel s :=
  fun _ hx => mem_stepRel.mpr (Or.inl hx)

theorem stepRel_mono {rel : List (List Nat)} {s s' : List Nat} (h : ∀ x ∈ s, x ∈ s') :
    ∀ x ∈ stepRel rel s, x ∈ stepRel rel s' := by
  intro x hx
  rcases mem_stepRel.mp hx with hx | ⟨y, hy, hxy⟩
  · exact mem_stepRel.mpr (Or.inl (h x hx))
  · exact mem_stepRel.mpr (Or.inr ⟨y, h y hy, hxy⟩)

theorem closeRel_mono {rel : List (List Nat)} :
    ∀ (f : Nat) {s s' : List Nat}, (∀ x ∈ s, x ∈ s') → ∀ x ∈ closeRel rel f s, x ∈ closeRel rel f s'
  | 0, _, _, h => h
  | f + 1, _, _, h => closeRel_mono f (stepRel_mono h)

theorem subset_closeRel {rel : List (List Nat)} :
    ∀ (f : Nat) (s : List Nat), ∀ x ∈ s, x ∈ closeRel rel f s
  | 0, _ => fun _ hx => hx
  | f + 1, s => fun x hx => subset_closeRel f (stepRel rel s) x (subset_stepRel rel s x hx)

/-- one more unit of fuel only adds nodes -/
theorem closeRel_succ_subset {rel : List (List Nat)} :
    ∀ (f : Nat) (s : List Nat), ∀ x ∈ closeRel rel f s, x ∈ closeRel rel (f + 1) s
  | 0, s => fun x hx => subset_stepRel rel s x hx
  | f + 1, s => fun x hx => closeRel_succ_subset f (stepRel rel s) x hx

theorem closeRel_fuel_mono {rel : List (List Nat)} {f f' : Nat} (h : f ≤ f') (s : List Nat) :
    ∀ x ∈ closeRel rel f s, x ∈ closeRel rel f' s := by
  induction h with
  | refl => exact fun _ hx => hx
  | step _ ih => exact fun x hx => closeRel_succ_subset _ s x (ih x hx)

/-- an invariant of the start set that is kept along the edges holds for everything reached -/
theorem closeRel_inv {rel : List (List Nat)} (P : Nat → Prop)
    (hstep : ∀ y, P y → ∀ x ∈ rel.getD y [], P x) :
    ∀ (f : Nat) (s : List Nat), (∀ x ∈ s, P x) → ∀ x ∈ closeRel rel f s, P x
  | 0, _, hs => hs
  | f + 1, s, hs => closeRel_inv P hstep f (stepRel rel s) (by
      intro x hx
      rcases mem_stepRel.mp hx with hx | ⟨y, hy, hxy⟩
      · exact hs x hx
      · exact hstep y (hs y hy) x hxy)

/-! ### the cover edges of a complete concept list -/

/-- `parents_dict` of the model, as the list of parent sets -/
def parentsRel (cs : Lat) (ord : List Nat → List Nat) : List (List Nat) :=
  (List.range cs.length).map (parents cs ord)

theorem parentsRel_length (cs : Lat) (ord : List Nat → List Nat) : (parentsRel cs ord).length = cs.length := by
  simp [parentsRel]

theorem parentsRel_getD {cs : Lat} {ord : List Nat → List Nat} {i : Nat} (hi : i < cs.length) :
    (parentsRel cs ord).getD i [] = parents cs ord i := by
  simp [parentsRel, List.getD_eq_getElem?_getD, List.getElem?_map, List.getElem?_range hi]

theorem parentsRel_getD_ge {cs : Lat} {ord : List Nat → List Nat} {i : Nat} (hi : cs.length ≤ i) :
    (parentsRel cs ord).getD i [] = [] := by
  have : (parentsRel cs ord)[i]? = none := by
    rw [List.getElem?_eq_none_iff, parentsRel_length]; exact hi
  simp [List.getD_eq_getElem?_getD, this]

namespace IsConceptList
variable {t : Table} {cs : Lat} (H : IsConceptList t cs)
include H

theorem parents_sub_ancestors {ord : List Nat → List Nat} (ho : PQ.IsOrder ord) {i : Nat} :
    ∀ x ∈ parents cs ord i, x ∈ ancestors cs i :=
  fun _ hx => ((PQ.mem_parents H.isPO ho).mp hx).1

/-- everything reached along the parent edges is an ancestor -/
theorem reach_sound {ord : List Nat → List Nat} (ho : PQ.IsOrder ord) {i : Nat} (hi : i < cs.length) (f : Nat) :
    ∀ x ∈ closeRel (parentsRel cs ord) f (parents cs ord i), x ∈ ancestors cs i := by
  apply closeRel_inv (fun x => x ∈ ancestors cs i)
  · intro y hy x hx
    have hyn : y < cs.length := (PQ.mem_ancestors.mp hy).1
    rw [parentsRel_getD hyn] at hx
    exact PQ.ancestors_trans H.isPO hi y hy x (H.parents_sub_ancestors ho x hx)
  · exact H.parents_sub_ancestors ho

/-- every ancestor is reached, with as much fuel as there are ancestors -/
theorem reach_complete {ord : List Nat → List Nat} (ho : PQ.IsOrder ord) :
    ∀ (m i : Nat), i < cs.length → (ancestors cs i).length ≤ m →
      ∀ k ∈ ancestors cs i, k ∈ closeRel (parentsRel cs ord) m (parents cs ord i)
  | m, i, hi, hm, k, hk => by
    obtain ⟨j, hj, hjk⟩ := H.parent_below ho hk
    obtain ⟨hjn, hij, hji⟩ := H.parents_lt ho hj
    by_cases e : j = k
    · subst e
      exact subset_closeRel m _ j hj
    · obtain ⟨hkn, _, _⟩ := PQ.mem_ancestors.mp hk
      have hkj : k ∈ ancestors cs j := PQ.mem_ancestors.mpr ⟨hkn, hjk, fun e' => e e'.symm⟩
      have hja : j ∈ ancestors cs i := H.parents_sub_ancestors ho j hj
      have hlt : (ancestors cs j).length < (ancestors cs i).length := by
        apply length_lt_of_ssubset (PQ.ancestors_nodup (leq := leq cs) (n := cs.length) j)
          (fun x hx => PQ.ancestors_trans H.isPO hi j hja x hx) hja
        intro hjj
        exact (PQ.mem_ancestors.mp hjj).2.2 rfl
      match m, hm with
      | 0, hm => omega
      | m' + 1, hm =>
        have ih := reach_complete ho m' j hjn (by omega) k hkj
        show k ∈ closeRel (parentsRel cs ord) m' (stepRel (parentsRel cs ord) (parents cs ord i))
        apply closeRel_mono m' _ k ih
        intro x hx
        exact mem_stepRel.mpr (Or.inr ⟨j, hj, by rw [parentsRel_getD hjn]; exact hx⟩)

/-- reachability along the drawn parent edges = the ancestor set -/
theorem mem_reachFrom {ord : List Nat → List Nat} (ho : PQ.IsOrder ord) {i : Nat} (hi : i < cs.length) (k : Nat) :
    k ∈ reachFrom (parentsRel cs ord) i ↔ k ∈ ancestors cs i := by
  unfold reachFrom
  rw [parentsRel_length, parentsRel_getD hi]
  constructor
  · exact H.reach_sound ho hi _ k
  · apply H.reach_complete ho cs.length i hi
    unfold ancestors PQ.ancestors
    exact Nat.le_trans (List.length_filter_le _ _) (by simp)

end IsConceptList

/-- `C04Holds` looks at the ancestor lists only through membership -/
theorem C04Holds.congr_anc {t : Table} {newExt newInt anc anc' : List (List Nat)}
    (h : C04Holds t newExt newInt anc) (hl : anc'.length = anc.length)
    (hm : ∀ i, i < newExt.length → ∀ j, j ∈ anc'.getD i [] ↔ j ∈ anc.getD i []) :
    C04Holds t newExt newInt anc' := by
  obtain ⟨h1, h2, h3, h4, h5, h6⟩ := h
  refine ⟨h1, hl.trans h2, h3, h4, h5, ?_⟩
  intro g a i j hg ha hi hj hgi haj
  rw [hm i hi j]
  exact h6 g a i j hg ha hi hj hgi haj

end Fca.LQ

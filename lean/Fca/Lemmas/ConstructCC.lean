/-
  Fca.Lemmas.ConstructCC — `complete_comparison`: the in-place subtraction loop over the (aliased)
  dictionary of all-subconcept sets ends with exactly the lower covers, for both values of the flag.
-/
import Fca.Lemmas.ConstructBasic
namespace Fca.Construct
open Fca.Spec

variable {n : Nat} {lt : Nat → Nat → Bool} {rank : Nat → Nat}

/-- invariant of the outer loop after the first `k` keys have been processed -/
structure CCInv (n : Nat) (lt : Nat → Nat → Bool) (k : Nat) (D : List (List Nat)) : Prop where
  len : D.length = n
  nodup : ∀ i, i < n → (D.getD i []).Nodup
  sound : ∀ i, i < n → ∀ x ∈ D.getD i [], x < n ∧ lt x i = true
  keeps : ∀ i, i < n → ∀ x ∈ coversBy n lt i, x ∈ D.getD i []
  done : ∀ i, i < k → i < n → ∀ x ∈ D.getD i [], x ∈ coversBy n lt i
  todo : ∀ i, k ≤ i → i < n → ∀ x, x < n → lt x i = true → x ∈ D.getD i []

theorem getD_map_range {f : Nat → List Nat} {n i : Nat} (hi : i < n) :
    ((List.range n).map f).getD i [] = f i := by
  simp [List.getD_eq_getElem?_getD, hi]

theorem mem_getSubconcepts_unsorted {a x : Nat} :
    x ∈ getSubconcepts n lt false a ↔ x < n ∧ lt x a = true := by
  simp [getSubconcepts]

theorem mem_getSubconcepts_sorted {a x : Nat} (htopo : ∀ j, j < n → lt j a = true → a < j) :
    x ∈ getSubconcepts n lt true a ↔ x < n ∧ lt x a = true := by
  simp only [getSubconcepts, Bool.true_and, List.mem_filter, List.mem_range]
  constructor
  · rintro ⟨h1, h2⟩
    refine ⟨h1, ?_⟩
    split at h2
    · cases h2
    · exact h2
  · rintro ⟨h1, h2⟩
    refine ⟨h1, ?_⟩
    have := htopo x h1 h2
    rw [if_neg (by simp; omega)]
    exact h2

theorem nodup_getSubconcepts {s : Bool} {a : Nat} : (getSubconcepts n lt s a).Nodup := by
  unfold getSubconcepts; exact List.nodup_range.filter _

theorem ccInv_init (s : Bool) (nj : Nat)
    (hmem : ∀ a x, a < n → (x ∈ getSubconcepts n lt s a ↔ x < n ∧ lt x a = true)) :
    CCInv n lt 0 (allSubconcepts n lt s nj) := by
  unfold allSubconcepts
  refine ⟨by simp, ?_, ?_, ?_, ?_, ?_⟩
  · intro i hi; rw [getD_map_range hi]; exact nodup_getSubconcepts
  · intro i hi x hx; rw [getD_map_range hi] at hx; exact (hmem i x hi).mp hx
  · intro i hi x hx; rw [getD_map_range hi]
    have := mem_coversBy.mp hx
    exact (hmem i x hi).mpr ⟨this.1, this.2.1⟩
  · intro i hi; omega
  · intro i _ hi x hx hlt; rw [getD_map_range hi]; exact (hmem i x hi).mpr ⟨hx, hlt⟩

theorem foldl_congr_mem {α β : Type} {f g : α → β → α} {l : List β} {s : α}
    (hfg : ∀ cur c, c ∈ l → f cur c = g cur c) : l.foldl f s = l.foldl g s := by
  induction l generalizing s with
  | nil => rfl
  | cons b bs ih =>
    simp only [List.foldl_cons]
    rw [hfg s b (List.mem_cons_self ..)]
    exact ih (fun cur c hc => hfg cur c (List.mem_cons_of_mem _ hc))

/-- the inner loop only rewrites key `a`, to the start value minus everything stored at the visited keys -/
theorem inner_fold (a : Nat) (iter : List Nat) (D : List (List Nat)) (ha : a < D.length)
    (hne : ∀ b ∈ iter, b ≠ a) :
    iter.foldl (fun D b_i => D.set a (diff (D.getD a []) (D.getD b_i []))) D
      = D.set a (iter.foldl (fun cur b_i => diff cur (D.getD b_i [])) (D.getD a [])) := by
  induction iter generalizing D with
  | nil => simp only [List.foldl_nil]; exact (set_getD_self ha).symm
  | cons b bs ih =>
    simp only [List.foldl_cons]
    have hb : b ≠ a := hne b (List.mem_cons_self ..)
    rw [ih (D.set a (diff (D.getD a []) (D.getD b []))) (by simpa using ha)
      (fun c hc => hne c (List.mem_cons_of_mem _ hc))]
    rw [getD_set_self ha, List.set_set]
    congr 1
    apply foldl_congr_mem
    intro cur c hc
    rw [getD_set_ne (hne c (List.mem_cons_of_mem _ hc))]

theorem mem_foldl_diff {D : List (List Nat)} {iter : List Nat} {s : List Nat} {x : Nat} :
    x ∈ iter.foldl (fun cur b_i => diff cur (D.getD b_i [])) s
      ↔ x ∈ s ∧ ∀ b ∈ iter, x ∉ D.getD b [] := by
  induction iter generalizing s with
  | nil => simp
  | cons b bs ih =>
    simp only [List.foldl_cons, ih, mem_diff, List.mem_cons, forall_eq_or_imp]
    constructor
    · rintro ⟨⟨h1, h2⟩, h3⟩; exact ⟨h1, h2, h3⟩
    · rintro ⟨h1, h2, h3⟩; exact ⟨⟨h1, h2⟩, h3⟩

theorem nodup_foldl_diff {D : List (List Nat)} {iter : List Nat} {s : List Nat} (hs : s.Nodup) :
    (iter.foldl (fun cur b_i => diff cur (D.getD b_i [])) s).Nodup := by
  induction iter generalizing s with
  | nil => simpa
  | cons b bs ih => exact ih (nodup_diff hs)

/-- one iteration of the outer loop -/
theorem ccInv_step (h : StrictOrd lt rank) (ord : List Nat → List Nat) (s : Bool)
    (hord : ∀ xs x, x ∈ ord xs ↔ x ∈ xs) {k : Nat} {D : List (List Nat)} (hk : k < n)
    (inv : CCInv n lt k D) : CCInv n lt (k + 1) (reduceStep ord s D k) := by
  have hkD : k < D.length := by rw [inv.len]; exact hk
  -- membership in the iterated copy = membership in `D[k]`
  have hiter : ∀ x, x ∈ (if s then sortAsc (D.getD k []) else ord (D.getD k [])) ↔ x ∈ D.getD k [] := by
    intro x; split
    · exact mem_sortAsc
    · exact hord _ _
  have hne : ∀ b ∈ (if s then sortAsc (D.getD k []) else ord (D.getD k [])), b ≠ k := by
    intro b hb hbk
    have := (inv.sound k hk b ((hiter b).mp hb)).2
    rw [hbk, h.irrefl] at this; cases this
  have hstep : reduceStep ord s D k = D.set k
      ((if s then sortAsc (D.getD k []) else ord (D.getD k [])).foldl
        (fun cur b_i => diff cur (D.getD b_i [])) (D.getD k [])) := by
    unfold reduceStep
    exact inner_fold k _ D hkD hne
  rw [hstep]
  -- characterisation of the new value at key `k`
  have hnew : ∀ x, x ∈ (if s then sortAsc (D.getD k []) else ord (D.getD k [])).foldl
        (fun cur b_i => diff cur (D.getD b_i [])) (D.getD k []) ↔ x ∈ coversBy n lt k := by
    intro x
    rw [mem_foldl_diff]
    constructor
    · rintro ⟨hx, hall⟩
      have hxs := inv.sound k hk x hx
      refine mem_coversBy.mpr ⟨hxs.1, hxs.2, ?_⟩
      intro m hm hxm
      apply Bool.eq_false_iff.mpr
      intro hmk
      obtain ⟨b, hb, hbk, hxb⟩ := exists_cover_above h hxs.1 m hm hxm hmk
      have hbD : b ∈ D.getD k [] := inv.todo k (Nat.le_refl _) hk b hb hbk
      exact hall b ((hiter b).mpr hbD) (inv.keeps b hb x hxb)
    · intro hx
      refine ⟨inv.keeps k hk x hx, ?_⟩
      intro b hb hxb
      have hbk := inv.sound k hk b ((hiter b).mp hb)
      have hxb' := inv.sound b hbk.1 x hxb
      have := (mem_coversBy.mp hx).2.2 b hbk.1 hxb'.2
      rw [hbk.2] at this; cases this
  refine ⟨by simpa using inv.len, ?_, ?_, ?_, ?_, ?_⟩
  · intro i hi
    by_cases hik : i = k
    · subst hik; rw [getD_set_self hkD]; exact nodup_foldl_diff (inv.nodup i hi)
    · rw [getD_set_ne hik]; exact inv.nodup i hi
  · intro i hi x hx
    by_cases hik : i = k
    · subst hik; rw [getD_set_self hkD] at hx
      have := mem_coversBy.mp ((hnew x).mp hx)
      exact ⟨this.1, this.2.1⟩
    · rw [getD_set_ne hik] at hx; exact inv.sound i hi x hx
  · intro i hi x hx
    by_cases hik : i = k
    · subst hik; rw [getD_set_self hkD]; exact (hnew x).mpr hx
    · rw [getD_set_ne hik]; exact inv.keeps i hi x hx
  · intro i hik1 hi x hx
    by_cases hik : i = k
    · subst hik; rw [getD_set_self hkD] at hx; exact (hnew x).mp hx
    · rw [getD_set_ne hik] at hx; exact inv.done i (by omega) hi x hx
  · intro i hik1 hi x hx hlt
    have hik : i ≠ k := by omega
    rw [getD_set_ne hik]; exact inv.todo i (by omega) hi x hx hlt

theorem ccInv_loop (h : StrictOrd lt rank) (ord : List Nat → List Nat) (s : Bool)
    (hord : ∀ xs x, x ∈ ord xs ↔ x ∈ xs) (D0 : List (List Nat)) (inv0 : CCInv n lt 0 D0) :
    ∀ k, k ≤ n → CCInv n lt k ((List.range k).foldl (reduceStep ord s) D0) := by
  intro k
  induction k with
  | zero => intro _; simpa using inv0
  | succ k ih =>
    intro hk
    rw [List.range_succ, List.foldl_append]
    simp only [List.foldl_cons, List.foldl_nil]
    exact ccInv_step h ord s hord (by omega) (ih (by omega))

/-- generic statement: with a strict order on the indexes the routine returns the lower covers -/
theorem completeComparison_covers (h : StrictOrd lt rank) (ord : List Nat → List Nat) (s : Bool) (nj : Nat)
    (hord : ∀ xs x, x ∈ ord xs ↔ x ∈ xs)
    (hmem : ∀ a x, a < n → (x ∈ getSubconcepts n lt s a ↔ x < n ∧ lt x a = true)) :
    (completeComparison n lt s nj ord).length = n ∧
    ∀ i, i < n → ((completeComparison n lt s nj ord).getD i []).Nodup ∧
      SameSetC ((completeComparison n lt s nj ord).getD i []) (coversBy n lt i) := by
  have inv := ccInv_loop h ord s hord _ (ccInv_init s nj hmem) n (Nat.le_refl _)
  unfold completeComparison
  refine ⟨inv.len, fun i hi => ⟨inv.nodup i hi, fun x => ⟨inv.done i hi hi x, inv.keeps i hi x⟩⟩⟩

end Fca.Construct

/-
  Fca.Lemmas.MeasuresArrays — `concept.measures` dictionaries and the `measures` property:
  when every concept carries the same keys, the arrays are `key ↦ [d.lookup key for d in concepts]`.
-/
import Fca.Model.Measures
namespace Fca.Measures
open Fca

/-- `list(d.keys())` -/
def keysOf (d : MDict) : List String := d.map Prod.fst

/-! ### `d[k] = v` -/

theorem keysOf_dictSet (d : MDict) (k : String) (v : Val) :
    keysOf (dictSet d k v) = if k ∈ keysOf d then keysOf d else keysOf d ++ [k] := by
  induction d with
  | nil => simp [dictSet, keysOf]
  | cons p rest ih =>
    obtain ⟨k', v'⟩ := p
    simp only [dictSet]
    by_cases hk : k' = k
    · subst hk; simp [keysOf]
    · have hk' : (k' == k) = false := by simpa using hk
      have hne : ¬ k = k' := fun e => hk e.symm
      simp only [hk', Bool.false_eq_true, ↓reduceIte]
      simp only [keysOf, List.map_cons, List.mem_cons, hne, false_or] at ih ⊢
      rw [ih]
      by_cases hm : k ∈ List.map Prod.fst rest <;> simp [hm]

theorem lookup_dictSet (d : MDict) (k : String) (v : Val) (k' : String) :
    (dictSet d k v).lookup k' = if k' = k then some v else d.lookup k' := by
  induction d with
  | nil =>
    simp only [dictSet, List.lookup_cons, List.lookup_nil]
    by_cases h : k' = k
    · simp [h]
    · have hb : (k' == k) = false := by simpa using h
      simp [h, hb]
  | cons p rest ih =>
    obtain ⟨k₀, v₀⟩ := p
    simp only [dictSet]
    by_cases hk : k₀ = k
    · subst hk
      simp only [beq_self_eq_true, ↓reduceIte, List.lookup_cons]
      by_cases h : k' = k₀
      · simp [h]
      · have hb : (k' == k₀) = false := by simpa using h
        simp [h, hb]
    · have hk' : (k₀ == k) = false := by simpa using hk
      simp only [hk', Bool.false_eq_true, ↓reduceIte, List.lookup_cons, ih]
      by_cases h : k' = k
      · subst h
        have : (k' == k₀) = false := by simpa using fun e => hk e.symm
        simp [this]
      · simp [h]

theorem nodup_addKey {keys : List String} (h : keys.Nodup) (k : String) :
    (if k ∈ keys then keys else keys ++ [k]).Nodup := by
  split
  · exact h
  · rename_i hk
    rw [List.nodup_append]
    refine ⟨h, by simp, ?_⟩
    intro a ha b hb
    simp only [List.mem_singleton] at hb
    subst hb
    rintro rfl
    exact hk ha

/-- key list after storing the keys `ks` in turn -/
def addKeys (keys : List String) (ks : List String) : List String :=
  ks.foldl (fun acc k => if k ∈ acc then acc else acc ++ [k]) keys

theorem keysOf_foldl_dictSet (kvs : List (String × Val)) (d : MDict) :
    keysOf (kvs.foldl (fun d p => dictSet d p.1 p.2) d) = addKeys (keysOf d) (kvs.map Prod.fst) := by
  induction kvs generalizing d with
  | nil => rfl
  | cons p rest ih =>
    simp only [List.foldl_cons, List.map_cons, addKeys]
    rw [ih, keysOf_dictSet]
    rfl

theorem nodup_addKeys {keys : List String} (h : keys.Nodup) (ks : List String) : (addKeys keys ks).Nodup := by
  induction ks generalizing keys with
  | nil => exact h
  | cons k rest ih => exact ih (nodup_addKey h k)

theorem mem_addKeys_of_mem {keys ks : List String} {k : String} (hk : k ∈ ks) : k ∈ addKeys keys ks := by
  induction ks generalizing keys with
  | nil => cases hk
  | cons k₀ rest ih =>
    simp only [addKeys, List.foldl_cons]
    have hmono : ∀ (ks : List String) (acc : List String) (x : String), x ∈ acc →
        x ∈ ks.foldl (fun acc k => if k ∈ acc then acc else acc ++ [k]) acc := by
      intro ks
      induction ks with
      | nil => intro acc x hx; exact hx
      | cons y ys ihy =>
        intro acc x hx
        simp only [List.foldl_cons]
        apply ihy
        split
        · exact hx
        · exact List.mem_append_left _ hx
    rcases List.mem_cons.mp hk with rfl | hk
    · apply hmono
      split
      · assumption
      · simp
    · exact ih hk

/-! ### the `measures` loop -/

theorem lookup_eq_none_of_not_mem {β} {d : List (String × β)} {k : String} (h : k ∉ d.map Prod.fst) :
    d.lookup k = none := by
  induction d with
  | nil => rfl
  | cons p rest ih =>
    obtain ⟨k₀, v₀⟩ := p
    simp only [List.map_cons, List.mem_cons, not_or] at h
    have : (k == k₀) = false := by simpa using h.1
    simp only [List.lookup_cons, this]
    exact ih h.2

theorem lookup_isSome_of_mem {β} {d : List (String × β)} {k : String} (h : k ∈ d.map Prod.fst) :
    ∃ v, d.lookup k = some v := by
  induction d with
  | nil => cases h
  | cons p rest ih =>
    obtain ⟨k₀, v₀⟩ := p
    simp only [List.lookup_cons]
    by_cases hk : k = k₀
    · subst hk; exact ⟨v₀, by simp⟩
    · have : (k == k₀) = false := by simpa using hk
      simp only [this]
      simp only [List.map_cons, List.mem_cons, hk, false_or] at h
      exact ih h

theorem hasKey_iff (md : MArrays) (k : String) : hasKey md k = true ↔ k ∈ md.map Prod.fst := by
  simp only [hasKey, List.any_eq_true, beq_iff_eq, List.mem_map]

theorem appendAt_of_not_mem (md : MArrays) (k : String) (x : Option Val) (h : k ∉ md.map Prod.fst) :
    appendAt md k x = md := by
  induction md with
  | nil => rfl
  | cons p rest ih =>
    obtain ⟨k₀, vs⟩ := p
    simp only [List.map_cons, List.mem_cons, not_or] at h
    have : (k₀ == k) = false := by simpa using fun e => h.1 e.symm
    simp only [appendAt, this, Bool.false_eq_true, ↓reduceIte, ih h.2]

/-- appending under a present key of an array table written as `keys.map (k ↦ (k, F k))` -/
theorem appendAt_map (keys : List String) (hnd : keys.Nodup) (F : String → List (Option Val)) (k : String)
    (x : Option Val) :
    appendAt (keys.map fun k' => (k', F k')) k x
      = keys.map fun k' => (k', if k' = k then F k' ++ [x] else F k') := by
  induction keys with
  | nil => rfl
  | cons k₀ rest ih =>
    obtain ⟨h0, hrest⟩ := List.nodup_cons.mp hnd
    simp only [List.map_cons, appendAt]
    by_cases hk : k₀ = k
    · subst hk
      simp only [beq_self_eq_true, ↓reduceIte, List.cons.injEq, true_and]
      apply List.map_congr_left
      intro k' hk'
      have : ¬ k' = k₀ := by rintro rfl; exact h0 hk'
      simp [this]
    · have hk' : (k₀ == k) = false := by simpa using hk
      simp only [hk', Bool.false_eq_true, ↓reduceIte, hk, ih hrest]

theorem appendAt_append_new (md : MArrays) (k : String) (vs : List (Option Val)) (x : Option Val)
    (h : k ∉ md.map Prod.fst) : appendAt (md ++ [(k, vs)]) k x = md ++ [(k, vs ++ [x])] := by
  induction md with
  | nil => simp [appendAt]
  | cons p rest ih =>
    obtain ⟨k₀, ws⟩ := p
    simp only [List.map_cons, List.mem_cons, not_or] at h
    have : (k₀ == k) = false := by simpa using fun e => h.1 e.symm
    simp only [List.cons_append, appendAt, this, Bool.false_eq_true, ↓reduceIte, ih h.2]

/-- first concept (`i = 0`): every key is new -/
theorem measItems_zero (d : MDict) (md : MArrays) (hnd : (keysOf d).Nodup)
    (hdis : ∀ k ∈ keysOf d, k ∉ md.map Prod.fst) :
    measItems 0 d md = md ++ d.map fun p => (p.1, [some p.2]) := by
  induction d generalizing md with
  | nil => simp [measItems]
  | cons p rest ih =>
    obtain ⟨k, v⟩ := p
    simp only [keysOf, List.map_cons, List.nodup_cons] at hnd
    have hk : k ∉ md.map Prod.fst := hdis k (by simp [keysOf])
    have hh : hasKey md k = false := by
      cases hq : hasKey md k with
      | false => rfl
      | true => exact absurd ((hasKey_iff md k).mp hq) hk
    simp only [measItems, hh, Bool.false_eq_true, ↓reduceIte, List.replicate_zero]
    rw [appendAt_append_new md k [] (some v) hk, ih _ hnd.2]
    · simp
    · intro k' hk'
      simp only [List.map_append, List.map_cons, List.map_nil, List.mem_append, List.mem_singleton, not_or]
      refine ⟨hdis k' (by simp only [keysOf, List.map_cons, List.mem_cons]; exact Or.inr hk'), ?_⟩
      rintro rfl
      exact hnd.1 hk'

/-- later concepts: every key is present -/
theorem measItems_present (i : Nat) (keys : List String) (hnd : keys.Nodup) (d : MDict)
    (hdnd : (keysOf d).Nodup) (hsub : ∀ k ∈ keysOf d, k ∈ keys) (F : String → List (Option Val)) :
    measItems i d (keys.map fun k => (k, F k))
      = keys.map fun k => (k, match d.lookup k with | some v => F k ++ [some v] | none => F k) := by
  induction d generalizing F with
  | nil => simp [measItems]
  | cons p rest ih =>
    obtain ⟨k, v⟩ := p
    simp only [keysOf, List.map_cons, List.nodup_cons] at hdnd
    have hk : k ∈ keys := hsub k (by simp [keysOf])
    have hh : hasKey (keys.map fun k => (k, F k)) k = true := by
      rw [hasKey_iff]; simpa using hk
    simp only [measItems, hh, ↓reduceIte]
    rw [appendAt_map keys hnd F k (some v)]
    rw [ih hdnd.2 (fun k' hk' => hsub k' (by simp only [keysOf, List.map_cons, List.mem_cons]; exact Or.inr hk'))]
    apply List.map_congr_left
    intro k' _
    simp only [List.lookup_cons]
    by_cases h : k' = k
    · subst h
      have : rest.lookup k' = none := lookup_eq_none_of_not_mem hdnd.1
      simp [this]
    · have : (k' == k) = false := by simpa using h
      simp [h, this]

theorem map_self_lookup (d : MDict) (hnd : (keysOf d).Nodup) (G : Option Val → List (Option Val)) :
    (d.map fun p => (p.1, G (some p.2))) = (keysOf d).map fun k => (k, G (d.lookup k)) := by
  induction d with
  | nil => rfl
  | cons p rest ih =>
    obtain ⟨k, v⟩ := p
    simp only [keysOf, List.map_cons, List.nodup_cons] at hnd
    simp only [List.map_cons, keysOf, List.lookup_cons, beq_self_eq_true, List.cons.injEq, true_and]
    rw [show (List.map (fun p => (p.1, G (some p.2))) rest) = _ from ih hnd.2]
    simp only [keysOf, List.map_map]
    apply List.map_congr_left
    intro p hp
    have : ¬ p.1 = k := by
      rintro rfl
      exact hnd.1 (List.mem_map.mpr ⟨p, hp, rfl⟩)
    have hb : (p.1 == k) = false := by simpa using this
    simp [hb]

/-- all concepts carry exactly the keys `keys` -/
def Uniform (keys : List String) (st : List MDict) : Prop := ∀ d ∈ st, keysOf d = keys

theorem measLoop_uniform (keys : List String) (hnd : keys.Nodup) (rest : List MDict)
    (hu : Uniform keys rest) (pre : List MDict) (i : Nat) :
    measLoop i rest (keys.map fun k => (k, pre.map fun d => d.lookup k))
      = keys.map fun k => (k, (pre ++ rest).map fun d => d.lookup k) := by
  induction rest generalizing pre i with
  | nil => simp [measLoop]
  | cons d rest ih =>
    have hd : keysOf d = keys := hu d List.mem_cons_self
    simp only [measLoop]
    rw [measItems_present i keys hnd d (hd ▸ hnd) (fun k hk => hd ▸ hk)]
    have : (keys.map fun k => (k, match d.lookup k with
        | some v => (pre.map fun d => d.lookup k) ++ [some v]
        | none => pre.map fun d => d.lookup k))
        = keys.map fun k => (k, (pre ++ [d]).map fun d => d.lookup k) := by
      apply List.map_congr_left
      intro k hk
      obtain ⟨v, hv⟩ := lookup_isSome_of_mem (d := d) (k := k) (by rw [← hd] at hk; exact hk)
      simp [hv]
    rw [this, ih (fun d' hd' => hu d' (List.mem_cons_of_mem _ hd')) (pre ++ [d]) (i + 1)]
    simp

/-- the arrays of a uniform, non-empty lattice state -/
theorem measLoop_eq (keys : List String) (hnd : keys.Nodup) (st : List MDict) (hu : Uniform keys st)
    (hne : st ≠ []) :
    measLoop 0 st [] = keys.map fun k => (k, st.map fun d => d.lookup k) := by
  cases st with
  | nil => exact absurd rfl hne
  | cons d rest =>
    have hd : keysOf d = keys := hu d List.mem_cons_self
    simp only [measLoop]
    rw [measItems_zero d [] (hd ▸ hnd) (by simp), List.nil_append]
    rw [map_self_lookup d (hd ▸ hnd) (fun x => [x]), hd]
    have := measLoop_uniform keys hnd rest (fun d' hd' => hu d' (List.mem_cons_of_mem _ hd')) [d] 1
    simpa using this

theorem dedup_replicate (n x : Nat) : dedup (List.replicate (n + 1) x) = [x] := by
  induction n with
  | zero => rfl
  | succ n ih =>
    rw [List.replicate_succ, dedup, ih]
    simp

/-- **`measures` of a uniform state**: the assert passes; one array per key, one entry per concept -/
theorem measures_uniform (keys : List String) (hnd : keys.Nodup) (st : List MDict) (hu : Uniform keys st)
    (hne : st ≠ []) :
    measures st = .ok (keys.map fun k => (k, st.map fun d => d.lookup k)) := by
  unfold measures
  rw [measLoop_eq keys hnd st hu hne]
  simp only
  cases keys with
  | nil => simp
  | cons k ks =>
    have : (List.map (fun p : String × List (Option Val) => p.2.length)
        (List.map (fun k => (k, List.map (fun d => List.lookup k d) st)) (k :: ks)))
        = List.replicate (ks.length + 1) st.length := by
      simp only [List.map_map]
      rw [List.eq_replicate_iff]
      simp
    rw [this]
    simp [distinctCount, dedup_replicate]

end Fca.Measures

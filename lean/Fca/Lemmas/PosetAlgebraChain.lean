/-
  Lemmas/PosetAlgebraChain — the C09 invariant along whole histories (`inv_run`), so that operands which went
  through arbitrary public histories (queries, fill_up_*, add with or without cache filling, del, remove) and
  results that are queried / mutated and then used as operands again are covered by `Fca.C10.combine_inv`.
-/
import Fca.Props.C09
namespace Fca.Poset
open Fca Fca.Poset.Fresh Fca.C09

section
variable {α : Type} [DecidableEq α] {leq : α → α → Bool} {ord : List Nat → List Nat} {U : α → Prop}

/-- the element list after a history -/
def nextAll (E : List α) : List (Op α) → List α
  | [] => E
  | op :: ops => nextAll (next E op) ops

/-- a valid history keeps the invariant; the elements evolve as `next` says, the cache flag stays -/
theorem inv_run (henv : Env leq ord U) (ops : List (Op α)) (s : St α) (hinv : Inv leq s)
    (hU : ∀ a ∈ s.elems, U a) (hin : OpsIn U ops) (hok : opsOk s.elems s.useCache ops = true) :
    Inv leq (run leq ord s ops).1 ∧ (run leq ord s ops).1.elems = nextAll s.elems ops ∧
      (run leq ord s ops).1.useCache = s.useCache ∧ (∀ a ∈ (run leq ord s ops).1.elems, U a) := by
  induction ops generalizing s with
  | nil => exact ⟨hinv, rfl, rfl, hU⟩
  | cons op ops ih =>
    simp only [opsOk, Bool.and_eq_true] at hok
    have hin1 : OpIn U op := hin op List.mem_cons_self
    obtain ⟨hinv', hel, hfl⟩ := inv_step henv s op hinv hU hok.1 hin1
    have := ih (step leq ord s op).1 hinv' (by rw [hel]; exact next_U hU op hin1)
      (fun o ho => hin o (List.mem_cons_of_mem _ ho)) (by rw [hel, hfl]; exact hok.2)
    simp only [run, nextAll]
    rw [← hel, ← hfl]
    exact this

end
end Fca.Poset

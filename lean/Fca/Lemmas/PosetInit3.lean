/-
  Lemmas/PosetInit3 — the constructor with `children_dict`, part 3: the comparison table and the invariant of
  the constructed state.
-/
import Fca.Lemmas.PosetInit2
set_option linter.unusedSectionVars false
namespace Fca.Poset
open Fca Fca.Poset.Fresh

section
variable {α : Type} [DecidableEq α] {leq : α → α → Bool} {E : List α}
variable (hpo : IdxPO leq E)
include hpo

/-- the `leq_dict` filled from the descendants dictionary -/
theorem leqFill_spec {dd : Cache}
    (hdd : ∀ kv ∈ dd, kv.1 < E.length ∧ kv.2.Nodup ∧ ∀ x, x ∈ kv.2 ↔ ltD leq .desc E x kv.1 = true) :
    ∀ a b r, alookup (a, b) (dd.foldl (fun acc kv =>
        (List.range E.length).foldl (fun acc i => ainsert (i, kv.1) (i == kv.1 || kv.2.contains i) acc) acc)
        ([] : List ((Nat × Nat) × Bool))) = some r →
      a < E.length ∧ b < E.length ∧ r = rel leq E a b := by
  apply foldl_inv (fun acc : List ((Nat × Nat) × Bool) => ∀ a b r, alookup (a, b) acc = some r →
      a < E.length ∧ b < E.length ∧ r = rel leq E a b)
  · intro kv acc hkv hacc
    obtain ⟨hk, _, hv⟩ := hdd kv hkv
    apply foldl_inv (fun acc : List ((Nat × Nat) × Bool) => ∀ a b r, alookup (a, b) acc = some r →
      a < E.length ∧ b < E.length ∧ r = rel leq E a b) _ _ _ acc hacc
    intro i acc1 hi hacc1 a b r hl
    rw [alookup_ainsert] at hl
    split at hl
    · rename_i e; cases e; cases hl
      have hi' := List.mem_range.mp hi
      refine ⟨hi', hk, ?_⟩
      by_cases e : i = kv.1
      · rw [e, hpo.refl _ hk]; simp
      · have : ltD leq .desc E i kv.1 = rel leq E i kv.1 := by simp [ltD, relD, e]
        rw [Bool.eq_iff_iff]
        simp only [Bool.or_eq_true, beq_iff_eq, e, false_or, List.contains_eq_mem, decide_eq_true_eq]
        rw [hv i, this]
    · exact hacc1 a b r hl
  · intro a b r hl; simp at hl

/-- `POSet(elements, leq, use_cache=True, children_dict=cd)` with the true lower-cover relation -/
theorem initCD_inv {cd : Cache} (hcd : CorrectCD leq E cd) {fuel : Nat} {s : St α}
    (h : initCD fuel E cd = .ok s) : InvB leq E Ghost.none true s := by
  unfold initCD at h
  split at h
  · cases h
  · rename_i dd hdd
    obtain ⟨hddOk, hddTot⟩ := closedByDirect_spec hpo hcd hdd
    simp only [Except.ok.injEq] at h
    subst h
    refine InvB.ofOk rfl rfl (fun _ => ?_) (fun _ => ?_) (fun _ => ?_)
    · intro a b r hl
      simp only at hl
      split at hl
      · exact leqFill_spec hpo hddOk a b r hl
      · simp at hl
    · intro d k v hl
      cases d
      · have := hddOk _ (alookup_mem (show alookup k dd = some v from hl))
        exact this
      · have hl' : alookup k (transposeHierarchy dd) = some v := hl
        obtain ⟨hvn, hvm⟩ := ((transposeHierarchy_spec dd k).1 v hl')
        have hkey := ((transposeHierarchy_spec dd k).2).mp (by rw [hl']; rfl)
        have hmem : ∀ x, x ∈ v ↔ ltD leq .anc E x k = true := by
          intro x
          rw [hvm x]
          have hfl : ltD leq .anc E x k = ltD leq .desc E k x := ltD_flip .desc E x k
          rw [hfl]
          constructor
          · rintro ⟨vs, hm, hk⟩
            exact ((hddOk _ hm).2.2 k).mp hk
          · intro hlt
            obtain ⟨vs, hm⟩ := hddTot x (ltD_lt hlt).2
            exact ⟨vs, hm, ((hddOk _ hm).2.2 k).mpr hlt⟩
        refine ⟨?_, hvn, hmem⟩
        rcases hkey with ⟨vs, hm⟩ | ⟨k', vs, hm, hk⟩
        · exact (hddOk _ hm).1
        · exact (ltD_lt (((hddOk _ hm).2.2 k).mp hk)).1
    · intro d k v hl
      cases d
      · exact hcd.entry _ (alookup_mem (show alookup k cd = some v from hl))
      · have hl' : alookup k (transposeHierarchy cd) = some v := hl
        obtain ⟨hvn, hvm⟩ := ((transposeHierarchy_spec cd k).1 v hl')
        have hkey := ((transposeHierarchy_spec cd k).2).mp (by rw [hl']; rfl)
        have hmem : ∀ x, x ∈ v ↔ isCover leq .anc E x k = true := by
          intro x
          rw [hvm x]
          have hfl : isCover leq .anc E x k = true ↔ isCover leq .desc E k x = true :=
            isCover_flip (d := .desc)
          rw [hfl]
          constructor
          · rintro ⟨vs, hm, hk⟩
            exact ((hcd.entry _ hm).2.2 k).mp hk
          · intro hc
            obtain ⟨vs, hm⟩ := hcd.total x (ltD_lt (isCover_iff.mp hc).1).2
            exact ⟨vs, hm, ((hcd.entry _ hm).2.2 k).mpr hc⟩
        refine ⟨?_, hvn, hmem⟩
        rcases hkey with ⟨vs, hm⟩ | ⟨k', vs, hm, hk⟩
        · exact (hcd.entry _ hm).1
        · exact (ltD_lt (isCover_iff.mp (((hcd.entry _ hm).2.2 k).mp hk)).1).1

end
end Fca.Poset

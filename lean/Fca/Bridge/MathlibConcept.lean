/-
  Fca.Bridge.MathlibConcept — spec adequacy: the list-level specification used by every
  property (`Spec.extAll`, `Spec.intAll`, `Spec.isConcept`) is the textbook notion, i.e.
  Mathlib's `lowerPolar` / `upperPolar` / `Concept` of the incidence relation of the table.
-/
import Mathlib.Order.Concept
import Fca.Lemmas.Galois
namespace Fca.Bridge
open Fca Fca.Spec

/-- the incidence relation of a table between its objects and attributes -/
def rel (t : Table) : Fin t.height → Fin t.width → Prop := fun g a => t.get g.val a.val = true

/-- the set of objects (as `Fin`) listed in `A` -/
def objSet (t : Table) (A : List Nat) : Set (Fin t.height) := {g | g.val ∈ A}
/-- the set of attributes (as `Fin`) listed in `B` -/
def attrSet (t : Table) (B : List Nat) : Set (Fin t.width) := {a | a.val ∈ B}

/-- `intAll` is Mathlib's `upperPolar` of the incidence relation -/
theorem intAll_eq_upperPolar (t : Table) (A : List Nat) (hA : ∀ g ∈ A, g < t.height) :
    attrSet t (intAll t A) = upperPolar (rel t) (objSet t A) := by
  ext a
  simp only [attrSet, Set.mem_ofPred_eq, mem_intAll, mem_upperPolar_iff, objSet, rel]
  constructor
  · rintro ⟨_, h⟩ g hg; exact h g.val hg
  · intro h
    exact ⟨a.isLt, fun g hg => h (a := ⟨g, hA g hg⟩) hg⟩

/-- `extAll` is Mathlib's `lowerPolar` of the incidence relation -/
theorem extAll_eq_lowerPolar (t : Table) (B : List Nat) (hB : ∀ a ∈ B, a < t.width) :
    objSet t (extAll t B) = lowerPolar (rel t) (attrSet t B) := by
  ext g
  simp only [objSet, Set.mem_ofPred_eq, mem_extAll, mem_lowerPolar_iff, attrSet, rel]
  constructor
  · rintro ⟨_, h⟩ a ha; exact h a.val ha
  · intro h
    exact ⟨g.isLt, fun a ha => h (b := ⟨a, hB a ha⟩) ha⟩

/-- a pair accepted by `isConcept` is a Mathlib `Concept` with that extent and intent -/
theorem isConcept_to_concept (t : Table) (A B : List Nat) (h : isConcept t A B = true) :
    ∃ c : Concept (Fin t.height) (Fin t.width) (rel t),
      c.extent = objSet t A ∧ c.intent = attrSet t B := by
  rw [isConcept_iff] at h
  obtain ⟨he, hi⟩ := h
  have hA : ∀ g ∈ A, g < t.height := by rw [← he]; exact extAll_lt t
  have hB : ∀ a ∈ B, a < t.width := by rw [← hi]; exact intAll_lt t
  refine ⟨⟨objSet t A, attrSet t B, ?_, ?_⟩, rfl, rfl⟩
  · rw [← intAll_eq_upperPolar t A hA, hi]
  · rw [← extAll_eq_lowerPolar t B hB, he]

/-- conversely every Mathlib concept of the incidence relation is listed by `isConcept`
    (with its extent and intent written as ascending lists) -/
theorem concept_to_isConcept (t : Table) (c : Concept (Fin t.height) (Fin t.width) (rel t)) :
    ∃ A B : List Nat, isConcept t A B = true ∧ c.extent = objSet t A ∧ c.intent = attrSet t B := by
  classical
  let A := (List.range t.height).filter fun g => decide (∃ h : g < t.height, (⟨g, h⟩ : Fin t.height) ∈ c.extent)
  let B := (List.range t.width).filter fun a => decide (∃ h : a < t.width, (⟨a, h⟩ : Fin t.width) ∈ c.intent)
  have hAset : objSet t A = c.extent := by
    ext g
    simp only [objSet, Set.mem_ofPred_eq, A, List.mem_filter, List.mem_range, decide_eq_true_eq]
    constructor
    · rintro ⟨_, h, hm⟩; exact hm
    · intro hm; exact ⟨g.isLt, g.isLt, hm⟩
  have hBset : attrSet t B = c.intent := by
    ext a
    simp only [attrSet, Set.mem_ofPred_eq, B, List.mem_filter, List.mem_range, decide_eq_true_eq]
    constructor
    · rintro ⟨_, h, hm⟩; exact hm
    · intro hm; exact ⟨a.isLt, a.isLt, hm⟩
  have hA : ∀ g ∈ A, g < t.height := fun g hg => List.mem_range.mp (List.mem_filter.mp hg).1
  have hB : ∀ a ∈ B, a < t.width := fun a ha => List.mem_range.mp (List.mem_filter.mp ha).1
  refine ⟨A, B, ?_, hAset.symm, hBset.symm⟩
  rw [isConcept_iff]
  constructor
  · -- extAll t B = A : both are filters of range height with the same members
    have hset : objSet t (extAll t B) = objSet t A := by
      rw [extAll_eq_lowerPolar t B hB, hBset, hAset, c.lowerPolar_intent]
    unfold extAll ext
    apply filter_eq_of_mem_iff
    intro g hg
    have hgl : g < t.height := List.mem_range.mp hg
    have := congrArg (fun s => (⟨g, hgl⟩ : Fin t.height) ∈ s) hset
    simp only [objSet, Set.mem_ofPred_eq, eq_iff_iff] at this
    rw [mem_extAll] at this
    simp only [List.all_eq_true, decide_eq_true_eq]
    constructor
    · intro h
      have := this.mp ⟨hgl, h⟩
      simp only [A, List.mem_filter, decide_eq_true_eq] at this
      exact this.2
    · intro h
      have hm : g ∈ A := by
        simp only [A, List.mem_filter, decide_eq_true_eq]; exact ⟨hg, h⟩
      exact (this.mpr hm).2
  · have hset : attrSet t (intAll t A) = attrSet t B := by
      rw [intAll_eq_upperPolar t A hA, hAset, hBset, c.upperPolar_extent]
    unfold intAll int
    apply filter_eq_of_mem_iff
    intro a ha
    have hal : a < t.width := List.mem_range.mp ha
    have := congrArg (fun s => (⟨a, hal⟩ : Fin t.width) ∈ s) hset
    simp only [attrSet, Set.mem_ofPred_eq, eq_iff_iff] at this
    rw [mem_intAll] at this
    simp only [List.all_eq_true, decide_eq_true_eq]
    constructor
    · intro h
      have := this.mp ⟨hal, h⟩
      simp only [B, List.mem_filter, decide_eq_true_eq] at this
      exact this.2
    · intro h
      have hm : a ∈ B := by
        simp only [B, List.mem_filter, decide_eq_true_eq]; exact ⟨ha, h⟩
      exact (this.mpr hm).2

end Fca.Bridge

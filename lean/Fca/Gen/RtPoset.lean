/-
  Fca.Gen.RtPoset — runtime vocabulary of the translator for `fcapy/poset/poset.py` (uncached queries): the receiver
  `PosetR α` carries `_elements` and `_leq_func` (a pure total function, A11 of harness/py2lean.py); Python sets of
  indexes are lists up to membership, and the order in which `list(s)` / `for x in s` walks a set is the explicit
  parameter `ord : List Nat → List Nat` of every generated definition (A10).  No Mathlib import.
-/
import Fca.Gen.Rt
namespace Fca.Gen

/-- a `POSet` with `use_cache=False`: the elements and the comparison -/
structure PosetR (α : Type) where
  elems : List α
  leq : α → α → Bool

/-- `a - b` on sets -/
def setDiff {α} [BEq α] (a b : List α) : List α := a.filter fun x => !b.contains x

end Fca.Gen

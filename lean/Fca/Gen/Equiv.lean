/-
  Fca.Gen.Equiv — every definition the translator generates from the Python source
  (`Fca/Gen/Generated.lean`, namespace `Fca.Gen.Lists`) equals the hand-written model
  (`Fca/Model/BinTable.lean`, `Fca/Model/BinTableOps.lean`, namespace `Fca.L`):

      f_eq_model : t.WF → InRange rows t.height → InRange cols t.width →
                   Gen.Lists.f t rows cols = .ok (L.f t rows cols)

  (`InRange sel n` is written out: `∀ xs, sel = some xs → ∀ x ∈ xs, x < n` — definitionally `OptIdx.Valid` of C05 and
  `BaseInRange` of C01.)  This file covers `all/any/sum` (whole table, per row, per column) and imports no more than
  `Props/C01` may see; `_get_row`, `_get_column`, `&`, `|`, `~` are in `Fca/Gen/EquivOps.lean`.

  under exactly the hypotheses of the C01/C05 theorems (a well-formed table, in-range selections), so every
  property theorem about the model transfers to the source-derived definition (`gen_*` in `Props/C01`, `Props/C05`).

  The proofs do not mention the text of the generated loop bodies: a body is only required to agree, on in-range
  arguments, with one round of the model's loop (`…Step`), which `simp` establishes from `idx_data`/`idx_row`.
  `harness/genside.py` re-elaborates THIS FILE against freshly generated definitions whenever the Python source
  changed (the generated namespace is then renamed, so keep referring to it only as `Fca.Gen.Lists`); the
  `-- @target f` markers tell it which generated function a failing declaration belongs to.
-/
import Fca.Gen.Generated
import Fca.Gen.RtLemmas
import Fca.Lemmas.BinTable
namespace Fca.Gen.Lists
open Fca Fca.Gen

-- the tactic scripts below are deliberately tolerant (they must also check against re-generated definitions)
set_option linter.unusedSimpArgs false
set_option linter.unusedVariables false

/-- an optional in-range selection, defaulted to "everything", is in range -/
theorem getD_lt {sel : Option (List Nat)} {n : Nat} (h : ∀ xs, sel = some xs → ∀ x ∈ xs, x < n) :
    ∀ x ∈ sel.getD (List.range n), x < n := by
  cases sel with
  | none => intro x hx; exact List.mem_range.mp hx
  | some xs => exact h xs rfl

/-- closes `lhs = rhs` goals that are equal up to unfolding / a case split on a condition / commutativity -/
macro "gen_close" : tactic =>
  `(tactic| first
    | done
    | rfl
    | (split <;> simp_all <;> done)
    | (simp [Function.curry, Bool.and_comm, Bool.or_comm, Nat.add_comm] <;> done)
    | (split <;> simp_all [Function.curry, Bool.and_comm, Bool.or_comm, Nat.add_comm] <;> done))

/-- the shared first step: split the optional selections, name the in-range facts -/
macro "gen_selections" hrs:ident hcs:ident : tactic =>
  `(tactic| (
    rename_i rows cols hr hc
    have $hrs : ∀ i ∈ L.rowsOf _ rows, i < _ := getD_lt hr
    have $hcs : ∀ c ∈ cols.getD (List.range _), c < _ := getD_lt hc
    cases rows <;> cases cols <;>
      simp only [L.rowsOf, Option.getD_none, Option.getD_some] at $hrs:ident $hcs:ident ⊢ <;>
      simp only [pure_eq_ok, Gen.range, Gen.len, Gen.zip, listMul_singleton, List.length_range]))

/-! ## one round of the model's column loops, as `for`-steps -/

def allPerColumnStep (t : Table) (cs : List Nat) (i : Nat) (vals : List Bool) : ForInStep (List Bool) :=
  if !(Fca.pyAny (List.zipWith (fun v c => v && t.get i c) vals cs))
  then .done (List.zipWith (fun v c => v && t.get i c) vals cs)
  else .yield (List.zipWith (fun v c => v && t.get i c) vals cs)

def anyPerColumnStep (t : Table) (cs : List Nat) (i : Nat) (vals : List Bool) : ForInStep (List Bool) :=
  if Fca.pyAll (List.zipWith (fun v c => v || t.get i c) vals cs)
  then .done (List.zipWith (fun v c => v || t.get i c) vals cs)
  else .yield (List.zipWith (fun v c => v || t.get i c) vals cs)

def sumPerColumnStep (t : Table) (cs : List Nat) (i : Nat) (vals : List Nat) : ForInStep (List Nat) :=
  .yield (List.zipWith (fun v c => v + (if t.get i c then 1 else 0)) vals cs)

theorem forIn_allPerColumn {ε} (t : Table) (cs rs : List Nat) (vals : List Bool)
    (f : Nat → List Bool → Except ε (ForInStep (List Bool)))
    (h : ∀ i ∈ rs, ∀ v, f i v = .ok (allPerColumnStep t cs i v)) :
    forIn rs vals f = .ok (L.allPerColumnLoop t cs rs vals) := by
  rw [forIn_ok vals h]
  congr 1
  induction rs generalizing vals with
  | nil => rfl
  | cons i rest ih =>
    simp only [Gen.loop, L.allPerColumnLoop, allPerColumnStep]
    by_cases hb : (!(Fca.pyAny (List.zipWith (fun v c => v && t.get i c) vals cs))) = true
    · simp only [hb, if_true]
    · simp only [hb, if_false]
      exact ih _ (fun j hj => h j (List.mem_cons_of_mem _ hj))

theorem forIn_anyPerColumn {ε} (t : Table) (cs rs : List Nat) (vals : List Bool)
    (f : Nat → List Bool → Except ε (ForInStep (List Bool)))
    (h : ∀ i ∈ rs, ∀ v, f i v = .ok (anyPerColumnStep t cs i v)) :
    forIn rs vals f = .ok (L.anyPerColumnLoop t cs rs vals) := by
  rw [forIn_ok vals h]
  congr 1
  induction rs generalizing vals with
  | nil => rfl
  | cons i rest ih =>
    simp only [Gen.loop, L.anyPerColumnLoop, anyPerColumnStep]
    by_cases hb : Fca.pyAll (List.zipWith (fun v c => v || t.get i c) vals cs) = true
    · simp only [hb, if_true]
    · simp only [hb, if_false]
      exact ih _ (fun j hj => h j (List.mem_cons_of_mem _ hj))

theorem forIn_sumPerColumn {ε} (t : Table) (cs rs : List Nat) (vals : List Nat)
    (f : Nat → List Nat → Except ε (ForInStep (List Nat)))
    (h : ∀ i ∈ rs, ∀ v, f i v = .ok (sumPerColumnStep t cs i v)) :
    forIn rs vals f = .ok (L.sumPerColumnLoop t cs rs vals) := by
  rw [forIn_ok vals h]
  congr 1
  induction rs generalizing vals with
  | nil => rfl
  | cons i rest ih =>
    simp only [Gen.loop, L.sumPerColumnLoop, sumPerColumnStep]
    exact ih _ (fun j hj => h j (List.mem_cons_of_mem _ hj))

/-! ### the early `break`s are optimisations: a source without them is proved equal to the model as well -/

theorem loop_yield {α β} (k : α → β → β) : ∀ (xs : List α) (b : β),
    Gen.loop (fun x b => ForInStep.yield (k x b)) xs b = xs.foldl (fun b x => k x b) b
  | [], _ => rfl
  | x :: xs, b => by simp only [Gen.loop, List.foldl_cons]; exact loop_yield k xs _

theorem zipWith_and_stable (g : Nat → Bool) : ∀ (v : List Bool) (cs : List Nat),
    v.length ≤ cs.length → Fca.pyAny v = false → List.zipWith (fun v c => v && g c) v cs = v
  | [], _, _, _ => by simp
  | _ :: _, [], h, _ => by simp at h
  | b :: v, c :: cs, h, hany => by
    simp only [Fca.pyAny, List.any_cons, id, Bool.or_eq_false_iff] at hany
    have ih := zipWith_and_stable g v cs (by simpa using h) (by simpa [Fca.pyAny] using hany.2)
    simp [hany.1, ih]

theorem zipWith_or_stable (g : Nat → Bool) : ∀ (v : List Bool) (cs : List Nat),
    v.length ≤ cs.length → Fca.pyAll v = true → List.zipWith (fun v c => v || g c) v cs = v
  | [], _, _, _ => by simp
  | _ :: _, [], h, _ => by simp at h
  | b :: v, c :: cs, h, hall => by
    simp only [Fca.pyAll, List.all_cons, id, Bool.and_eq_true] at hall
    have ih := zipWith_or_stable g v cs (by simpa using h) (by simpa [Fca.pyAll] using hall.2)
    simp [hall.1, ih]

/-- the early `break` of `_all_per_column` is an optimisation only: the loop without it computes the same -/
theorem allPerColumnLoop_eq_foldl (t : Table) (cs : List Nat) : ∀ (rs : List Nat) (vals : List Bool),
    L.allPerColumnLoop t cs rs vals = rs.foldl (fun v i => List.zipWith (fun v c => v && t.get i c) v cs) vals
  | [], _ => rfl
  | i :: rest, vals => by
    simp only [L.allPerColumnLoop, List.foldl_cons]
    split
    · rename_i hstop
      have hlen : (List.zipWith (fun v c => v && t.get i c) vals cs).length ≤ cs.length := by
        simp only [List.length_zipWith]; exact Nat.min_le_right _ _
      generalize List.zipWith (fun v c => v && t.get i c) vals cs = w at hstop hlen
      have hw : Fca.pyAny w = false := by simpa using hstop
      clear hstop
      induction rest with
      | nil => rfl
      | cons j rest ih => simp only [List.foldl_cons, zipWith_and_stable (t.get j) w cs hlen hw]; exact ih
    · exact allPerColumnLoop_eq_foldl t cs rest _

theorem anyPerColumnLoop_eq_foldl (t : Table) (cs : List Nat) : ∀ (rs : List Nat) (vals : List Bool),
    L.anyPerColumnLoop t cs rs vals = rs.foldl (fun v i => List.zipWith (fun v c => v || t.get i c) v cs) vals
  | [], _ => rfl
  | i :: rest, vals => by
    simp only [L.anyPerColumnLoop, List.foldl_cons]
    split
    · rename_i hstop
      have hlen : (List.zipWith (fun v c => v || t.get i c) vals cs).length ≤ cs.length := by
        simp only [List.length_zipWith]; exact Nat.min_le_right _ _
      generalize List.zipWith (fun v c => v || t.get i c) vals cs = w at hstop hlen
      induction rest with
      | nil => rfl
      | cons j rest ih => simp only [List.foldl_cons, zipWith_or_stable (t.get j) w cs hlen hstop]; exact ih
    · exact anyPerColumnLoop_eq_foldl t cs rest _

theorem forIn_allPerColumn_nobreak {ε} (t : Table) (cs rs : List Nat) (vals : List Bool)
    (f : Nat → List Bool → Except ε (ForInStep (List Bool)))
    (h : ∀ i ∈ rs, ∀ v, f i v = .ok (.yield (List.zipWith (fun v c => v && t.get i c) v cs))) :
    forIn rs vals f = .ok (L.allPerColumnLoop t cs rs vals) := by
  rw [forIn_ok (g := fun i v => .yield (List.zipWith (fun v c => v && t.get i c) v cs)) vals h,
    loop_yield (fun i v => List.zipWith (fun v c => v && t.get i c) v cs), allPerColumnLoop_eq_foldl]

theorem forIn_anyPerColumn_nobreak {ε} (t : Table) (cs rs : List Nat) (vals : List Bool)
    (f : Nat → List Bool → Except ε (ForInStep (List Bool)))
    (h : ∀ i ∈ rs, ∀ v, f i v = .ok (.yield (List.zipWith (fun v c => v || t.get i c) v cs))) :
    forIn rs vals f = .ok (L.anyPerColumnLoop t cs rs vals) := by
  rw [forIn_ok (g := fun i v => .yield (List.zipWith (fun v c => v || t.get i c) v cs)) vals h,
    loop_yield (fun i v => List.zipWith (fun v c => v || t.get i c) v cs), anyPerColumnLoop_eq_foldl]
/-- `[… row[c] … for v, c in zip(vals, cs)]` on a row of a well-formed table -/
theorem mapM_zip_cols {β γ} (t : Table) (hwf : t.WF) {i : Nat} (hi : i < t.height) {cs : List Nat}
    (hcs : ∀ c ∈ cs, c < t.width) (vals : List β) (f : β × Nat → Except PyErr γ) (g : β → Nat → γ)
    (h : ∀ v c, c < t.width → f (v, c) = .ok (g v c)) :
    (vals.zip cs).mapM f = .ok (List.zipWith g vals cs) := by
  rw [mapM_ok (g := fun p => g p.1 p.2) (fun p hp => h p.1 p.2 (hcs _ (List.of_mem_zip hp).2)),
    List.map_zip_eq_zipWith]
  rfl

-- @target allAll
theorem allAll_eq_model (t : Table) (hwf : t.WF) (rows cols : Option (List Nat))
    (hr : ∀ xs, rows = some xs → ∀ x ∈ xs, x < t.height) (hc : ∀ xs, cols = some xs → ∀ x ∈ xs, x < t.width) :
    Fca.Gen.Lists.allAll t rows cols = .ok (L.allAll t rows cols) := by
  unfold Fca.Gen.Lists.allAll L.allAll
  gen_selections hrs hcs
  iterate 2
   · rw [forIn_return_const (fun i => !Fca.pyAll (t.row i)) false _ (fun i hi s => by
      simp only [idx_data t (hrs i hi), ok_bind, pyAll_eq]; gen_close)]
     simp only [ite_ok_not, List.all_eq_not_any_not, Bool.not_not]
   · rw [forIn_return_const (fun i => List.any _ fun j => !t.get i j) false _ (fun i hi s => by
      simp only [idx_data t (hrs i hi), ok_bind]
      rw [forIn_return_const (fun j => !t.get i j) false _ (fun j hj s => by
        simp only [idx_row t hwf (hrs i hi) (hcs j hj), ok_bind]; gen_close)])]
     simp only [ite_ok_not, List.all_eq_not_any_not, Bool.not_not]

-- @target anyAny
theorem anyAny_eq_model (t : Table) (hwf : t.WF) (rows cols : Option (List Nat))
    (hr : ∀ xs, rows = some xs → ∀ x ∈ xs, x < t.height) (hc : ∀ xs, cols = some xs → ∀ x ∈ xs, x < t.width) :
    Fca.Gen.Lists.anyAny t rows cols = .ok (L.anyAny t rows cols) := by
  unfold Fca.Gen.Lists.anyAny L.anyAny
  gen_selections hrs hcs
  iterate 2
   · rw [forIn_return_const (fun i => Fca.pyAny (t.row i)) true _ (fun i hi s => by
      simp only [idx_data t (hrs i hi), ok_bind, pyAny_eq]; gen_close)]
     simp only [ite_ok_self]
   · rw [forIn_return_const (fun i => List.any _ fun j => t.get i j) true _ (fun i hi s => by
      simp only [idx_data t (hrs i hi), ok_bind]
      rw [forIn_return_const (fun j => t.get i j) true _ (fun j hj s => by
        simp only [idx_row t hwf (hrs i hi) (hcs j hj), ok_bind]; gen_close)])]
     simp only [ite_ok_self]

-- @target allPerRow
theorem allPerRow_eq_model (t : Table) (hwf : t.WF) (rows cols : Option (List Nat))
    (hr : ∀ xs, rows = some xs → ∀ x ∈ xs, x < t.height) (hc : ∀ xs, cols = some xs → ∀ x ∈ xs, x < t.width) :
    Fca.Gen.Lists.allPerRow t rows cols = .ok (L.allPerRow t rows cols) := by
  unfold Fca.Gen.Lists.allPerRow L.allPerRow
  gen_selections hrs hcs
  iterate 2
   · rw [mapM_ok (g := fun i => Fca.pyAll (t.row i)) (fun i hi => by
      simp only [idx_data t (hrs i hi), ok_bind, pyAll_eq]; gen_close)]
     gen_close
   · rw [mapM_ok (g := fun i => Fca.pyAll (List.map (fun j => t.get i j) _)) (fun i hi => by
      rw [mapM_ok (g := fun j => t.get i j) (fun j hj => by
        simp only [idx_data t (hrs i hi), ok_bind, idx_row t hwf (hrs i hi) (hcs j hj)]; gen_close)]
      simp only [ok_bind, pyAll_eq]; gen_close)]
     gen_close

-- @target anyPerRow
theorem anyPerRow_eq_model (t : Table) (hwf : t.WF) (rows cols : Option (List Nat))
    (hr : ∀ xs, rows = some xs → ∀ x ∈ xs, x < t.height) (hc : ∀ xs, cols = some xs → ∀ x ∈ xs, x < t.width) :
    Fca.Gen.Lists.anyPerRow t rows cols = .ok (L.anyPerRow t rows cols) := by
  unfold Fca.Gen.Lists.anyPerRow L.anyPerRow
  gen_selections hrs hcs
  iterate 2
   · rw [mapM_ok (g := fun i => Fca.pyAny (t.row i)) (fun i hi => by
      simp only [idx_data t (hrs i hi), ok_bind, pyAny_eq]; gen_close)]
     gen_close
   · rw [mapM_ok (g := fun i => Fca.pyAny (List.map (fun j => t.get i j) _)) (fun i hi => by
      rw [mapM_ok (g := fun j => t.get i j) (fun j hj => by
        simp only [idx_data t (hrs i hi), ok_bind, idx_row t hwf (hrs i hi) (hcs j hj)]; gen_close)]
      simp only [ok_bind, pyAny_eq]; gen_close)]
     gen_close

-- @target sumPerRow
theorem sumPerRow_eq_model (t : Table) (hwf : t.WF) (rows cols : Option (List Nat))
    (hr : ∀ xs, rows = some xs → ∀ x ∈ xs, x < t.height) (hc : ∀ xs, cols = some xs → ∀ x ∈ xs, x < t.width) :
    Fca.Gen.Lists.sumPerRow t rows cols = .ok (L.sumPerRow t rows cols) := by
  unfold Fca.Gen.Lists.sumPerRow L.sumPerRow
  gen_selections hrs hcs
  iterate 2
   · rw [mapM_ok (g := fun i => L.countTrue (t.row i)) (fun i hi => by
      simp only [idx_data t (hrs i hi), ok_bind, pySumB_eq]; gen_close)]
     gen_close
   · rw [mapM_ok (g := fun i => L.countTrue (List.map (fun j => t.get i j) _)) (fun i hi => by
      rw [mapM_ok (g := fun j => t.get i j) (fun j hj => by
        simp only [idx_data t (hrs i hi), ok_bind, idx_row t hwf (hrs i hi) (hcs j hj)]; gen_close)]
      simp only [ok_bind, pySumB_eq]; gen_close)]
     gen_close

-- @target allPerColumn
theorem allPerColumn_eq_model (t : Table) (hwf : t.WF) (rows cols : Option (List Nat))
    (hr : ∀ xs, rows = some xs → ∀ x ∈ xs, x < t.height) (hc : ∀ xs, cols = some xs → ∀ x ∈ xs, x < t.width) :
    Fca.Gen.Lists.allPerColumn t rows cols = .ok (L.allPerColumn t rows cols) := by
  unfold Fca.Gen.Lists.allPerColumn L.allPerColumn
  gen_selections hrs hcs
  all_goals
    simp only [ok_bind, bind_ok_right]
    first
    | (refine forIn_allPerColumn t _ _ _ _ (fun i hi v => ?_)
       simp only [idx_data t (hrs i hi), ok_bind]
       rw [mapM_zip_cols t hwf (hrs i hi) hcs v _ (fun v c => v && t.get i c) (fun v c hc => by
         simp only [idx_row t hwf (hrs i hi) hc, ok_bind]; gen_close)]
       simp only [ok_bind, pyAny_eq, allPerColumnStep]
       gen_close)
    | (refine forIn_allPerColumn_nobreak t _ _ _ _ (fun i hi v => ?_)      -- the source has no `break`
       simp only [idx_data t (hrs i hi), ok_bind]
       rw [mapM_zip_cols t hwf (hrs i hi) hcs v _ (fun v c => v && t.get i c) (fun v c hc => by
         simp only [idx_row t hwf (hrs i hi) hc, ok_bind]; gen_close)]
       simp only [ok_bind]
       gen_close)

-- @target anyPerColumn
theorem anyPerColumn_eq_model (t : Table) (hwf : t.WF) (rows cols : Option (List Nat))
    (hr : ∀ xs, rows = some xs → ∀ x ∈ xs, x < t.height) (hc : ∀ xs, cols = some xs → ∀ x ∈ xs, x < t.width) :
    Fca.Gen.Lists.anyPerColumn t rows cols = .ok (L.anyPerColumn t rows cols) := by
  unfold Fca.Gen.Lists.anyPerColumn L.anyPerColumn
  gen_selections hrs hcs
  all_goals
    simp only [ok_bind, bind_ok_right]
    first
    | (refine forIn_anyPerColumn t _ _ _ _ (fun i hi v => ?_)
       simp only [idx_data t (hrs i hi), ok_bind]
       rw [mapM_zip_cols t hwf (hrs i hi) hcs v _ (fun v c => v || t.get i c) (fun v c hc => by
         simp only [idx_row t hwf (hrs i hi) hc, ok_bind]; gen_close)]
       simp only [ok_bind, pyAll_eq, anyPerColumnStep]
       gen_close)
    | (refine forIn_anyPerColumn_nobreak t _ _ _ _ (fun i hi v => ?_)      -- the source has no `break`
       simp only [idx_data t (hrs i hi), ok_bind]
       rw [mapM_zip_cols t hwf (hrs i hi) hcs v _ (fun v c => v || t.get i c) (fun v c hc => by
         simp only [idx_row t hwf (hrs i hi) hc, ok_bind]; gen_close)]
       simp only [ok_bind]
       gen_close)

-- @target sumPerColumn
theorem sumPerColumn_eq_model (t : Table) (hwf : t.WF) (rows cols : Option (List Nat))
    (hr : ∀ xs, rows = some xs → ∀ x ∈ xs, x < t.height) (hc : ∀ xs, cols = some xs → ∀ x ∈ xs, x < t.width) :
    Fca.Gen.Lists.sumPerColumn t rows cols = .ok (L.sumPerColumn t rows cols) := by
  unfold Fca.Gen.Lists.sumPerColumn L.sumPerColumn
  gen_selections hrs hcs
  all_goals
    simp only [ok_bind, bind_ok_right]
    refine forIn_sumPerColumn t _ _ _ _ (fun i hi v => ?_)
    simp only [idx_data t (hrs i hi), ok_bind]
    rw [mapM_zip_cols t hwf (hrs i hi) hcs v _ (fun v c => v + (if t.get i c then 1 else 0)) (fun v c hc => by
      simp only [idx_row t hwf (hrs i hi) hc, ok_bind, intOfBool_eq]; gen_close)]
    simp only [ok_bind, sumPerColumnStep]
    gen_close

-- @target sumAll
theorem sumAll_eq_model (t : Table) (hwf : t.WF) (rows cols : Option (List Nat))
    (hr : ∀ xs, rows = some xs → ∀ x ∈ xs, x < t.height) (hc : ∀ xs, cols = some xs → ∀ x ∈ xs, x < t.width) :
    Fca.Gen.Lists.sumAll t rows cols = .ok (L.sumAll t rows cols) := by
  unfold Fca.Gen.Lists.sumAll L.sumAll
  rw [sumPerRow_eq_model t hwf rows cols hr hc]
  simp only [ok_bind, pure_eq_ok, pySum_eq]

/-! ## `AbstractBinTable.all / any / all_i / any_i` on a `BinTableLists` receiver, specialised to `axis = 0 / 1`
  (the translator folds the `axis` tests; `self.…` resolves along `BinTableLists → AbstractBinTable`) -/

-- @target allAxis0
theorem allAxis0_eq_model (t : Table) (hwf : t.WF) (rows cols : Option (List Nat))
    (hr : ∀ xs, rows = some xs → ∀ x ∈ xs, x < t.height) (hc : ∀ xs, cols = some xs → ∀ x ∈ xs, x < t.width) :
    Fca.Gen.Lists.allAxis0 t rows cols = .ok (L.allPerColumn t rows cols) := by
  unfold Fca.Gen.Lists.allAxis0
  rw [allPerColumn_eq_model t hwf rows cols hr hc]; gen_close

-- @target allAxis1
theorem allAxis1_eq_model (t : Table) (hwf : t.WF) (rows cols : Option (List Nat))
    (hr : ∀ xs, rows = some xs → ∀ x ∈ xs, x < t.height) (hc : ∀ xs, cols = some xs → ∀ x ∈ xs, x < t.width) :
    Fca.Gen.Lists.allAxis1 t rows cols = .ok (L.allPerRow t rows cols) := by
  unfold Fca.Gen.Lists.allAxis1
  rw [allPerRow_eq_model t hwf rows cols hr hc]; gen_close

-- @target anyAxis0
theorem anyAxis0_eq_model (t : Table) (hwf : t.WF) (rows cols : Option (List Nat))
    (hr : ∀ xs, rows = some xs → ∀ x ∈ xs, x < t.height) (hc : ∀ xs, cols = some xs → ∀ x ∈ xs, x < t.width) :
    Fca.Gen.Lists.anyAxis0 t rows cols = .ok (L.anyPerColumn t rows cols) := by
  unfold Fca.Gen.Lists.anyAxis0
  rw [anyPerColumn_eq_model t hwf rows cols hr hc]; gen_close

-- @target anyAxis1
theorem anyAxis1_eq_model (t : Table) (hwf : t.WF) (rows cols : Option (List Nat))
    (hr : ∀ xs, rows = some xs → ∀ x ∈ xs, x < t.height) (hc : ∀ xs, cols = some xs → ∀ x ∈ xs, x < t.width) :
    Fca.Gen.Lists.anyAxis1 t rows cols = .ok (L.anyPerRow t rows cols) := by
  unfold Fca.Gen.Lists.anyAxis1
  rw [anyPerRow_eq_model t hwf rows cols hr hc]; gen_close

/-- closes the index-pairing step of `all_i / any_i`: `[i for i, flg in zip(sel, flags) / enumerate(flags) if flg]` -/
macro "gen_pairing" sel:ident : tactic =>
  `(tactic| (
    simp only [ok_bind, pure_eq_ok]
    cases $sel:ident <;>
      simp only [L.allI, L.anyI, L.pairFilter, zipFilter, Gen.enumerate, Gen.zip, Nat.zero_ne_one, Nat.one_ne_zero,
        if_true, if_false] <;>
      gen_close))

-- @target allI0
theorem allI0_eq_model (t : Table) (hwf : t.WF) (rows cols : Option (List Nat))
    (hr : ∀ xs, rows = some xs → ∀ x ∈ xs, x < t.height) (hc : ∀ xs, cols = some xs → ∀ x ∈ xs, x < t.width) :
    Fca.Gen.Lists.allI0 t rows cols = .ok (L.allI t 0 rows cols) := by
  unfold Fca.Gen.Lists.allI0
  rw [allAxis0_eq_model t hwf rows cols hr hc]
  gen_pairing cols

-- @target allI1
theorem allI1_eq_model (t : Table) (hwf : t.WF) (rows cols : Option (List Nat))
    (hr : ∀ xs, rows = some xs → ∀ x ∈ xs, x < t.height) (hc : ∀ xs, cols = some xs → ∀ x ∈ xs, x < t.width) :
    Fca.Gen.Lists.allI1 t rows cols = .ok (L.allI t 1 rows cols) := by
  unfold Fca.Gen.Lists.allI1
  rw [allAxis1_eq_model t hwf rows cols hr hc]
  gen_pairing rows

-- @target anyI0
theorem anyI0_eq_model (t : Table) (hwf : t.WF) (rows cols : Option (List Nat))
    (hr : ∀ xs, rows = some xs → ∀ x ∈ xs, x < t.height) (hc : ∀ xs, cols = some xs → ∀ x ∈ xs, x < t.width) :
    Fca.Gen.Lists.anyI0 t rows cols = .ok (L.anyI t 0 rows cols) := by
  unfold Fca.Gen.Lists.anyI0
  rw [anyAxis0_eq_model t hwf rows cols hr hc]
  gen_pairing cols

-- @target anyI1
theorem anyI1_eq_model (t : Table) (hwf : t.WF) (rows cols : Option (List Nat))
    (hr : ∀ xs, rows = some xs → ∀ x ∈ xs, x < t.height) (hc : ∀ xs, cols = some xs → ∀ x ∈ xs, x < t.width) :
    Fca.Gen.Lists.anyI1 t rows cols = .ok (L.anyI t 1 rows cols) := by
  unfold Fca.Gen.Lists.anyI1
  rw [anyAxis1_eq_model t hwf rows cols hr hc]
  gen_pairing rows

end Fca.Gen.Lists

/-
  Fca.Gen.EquivPoset — the uncached queries of `fcapy/poset/poset.py` generated from the Python source
  (`Fca/Gen/GeneratedPoset.lean`: `__len__`, `_leq_elements_nocache`, `leq_elements`, `_descendants_nocache /
  _ancestors_nocache`, `descendants / ancestors`, `_children_nocache / _parents_nocache`, `children / parents`,
  `bottoms / tops`) against the hand-written state-passing model `Fca/Model/Poset.lean`:

      posetDescendants_eq_model : s.useCache = false →
          (closedE leq .desc e).run s = (s, Gen.Lists.posetDescendants ord ⟨s.elems, leq⟩ e)      … and so on:

  on a cache-less state the model leaves the state alone and answers exactly what the source-derived definition
  computes (`IndexError` included); `ord` (the iteration order of a set) is the same parameter on both sides.
  `harness/genside.py` re-elaborates THIS FILE against freshly generated definitions whenever the Python source changed.
-/
import Fca.Gen.GeneratedPoset
import Fca.Gen.RtLemmas
import Fca.Model.Poset
namespace Fca.Gen.Lists
open Fca Fca.Gen Fca.Poset

set_option linter.unusedSimpArgs false
set_option linter.unusedVariables false

variable {α : Type} [DecidableEq α] (leq : α → α → Bool) (ord : List Nat → List Nat)

/-- the receiver a cache-less model state denotes -/
def recvOf (leq : α → α → Bool) (s : St α) : PosetR α := ⟨s.elems, leq⟩

-- @target posetLen
theorem posetLen_eq_model (P : PosetR α) : Fca.Gen.Lists.posetLen ord P = .ok P.elems.length := by
  unfold Fca.Gen.Lists.posetLen
  rfl

-- @target posetLeqNocache
theorem posetLeqNocache_eq_model (P : PosetR α) (a b : Nat) :
    Fca.Gen.Lists.posetLeqNocache ord P a b = leqNocache P.leq P.elems a b := by
  unfold Fca.Gen.Lists.posetLeqNocache leqNocache Gen.idx
  cases P.elems[a]? <;> cases P.elems[b]? <;> rfl

-- @target posetLeq
theorem posetLeq_eq_model (s : St α) (hc : s.useCache = false) (a b : Nat) :
    (leqE leq a b).run s = (s, Fca.Gen.Lists.posetLeq ord (recvOf leq s) a b) := by
  unfold Fca.Gen.Lists.posetLeq
  simp only [posetLeqNocache_eq_model, M.run, leqE, hc, Bool.false_eq_true, if_false, recvOf, bind_ok_right, pure_eq_ok]

theorem except_bind_ok_right {ε β} (x : Except ε β) : (x.bind fun a => Except.ok a) = x := by cases x <;> rfl
theorem except_ok_bind {ε β γ} (a : β) (f : β → Except ε γ) : (Except.ok a).bind f = f a := rfl

/-- `{i for i in xs if p(i)}` in the state monad of the model, when `p` leaves the state alone -/
theorem filterM_eq (s : St α) (p : Nat → M α Bool) (f : Nat → Except PyErr (Option Nat)) (g : Nat → Except PyErr Bool)
    (hp : ∀ i, p i s = (s, g i))
    (hf : ∀ i, f i = match g i with
      | .error e => Except.error e
      | .ok b => Except.ok (if b then some i else none)) :
    ∀ xs : List Nat, M.filterM p xs s = (s, Gen.filterMapM f xs)
  | [] => rfl
  | i :: is => by
    have ih := filterM_eq s p f g hp hf is
    simp only [M.filterM, bind, M.bind, hp i, Gen.filterMapM, hf i]
    cases g i with
    | error e => rfl
    | ok b =>
      simp only [ih]
      cases Gen.filterMapM f is with
      | error e => rfl
      | ok r => cases b <;> rfl

/-- `for x in xs: acc = step(acc, x)` in the state monad of the model, when `step` leaves the state alone -/
theorem foldM_eq (s : St α) (step : List Nat → Nat → M α (List Nat))
    (body : Nat → List Nat → Except PyErr (ForInStep (List Nat))) (g : List Nat → Nat → Except PyErr (List Nat))
    (hstep : ∀ acc x, step acc x s = (s, g acc x))
    (hbody : ∀ x acc, body x acc = match g acc x with
      | .error e => Except.error e
      | .ok a => Except.ok (ForInStep.yield a)) :
    ∀ (xs : List Nat) (acc : List Nat), M.foldM step acc xs s = (s, forIn xs acc body)
  | [], acc => rfl
  | x :: xs, acc => by
    simp only [M.foldM, bind, M.bind, hstep acc x, List.forIn_cons, hbody x acc]
    cases g acc x with
    | error e => rfl
    | ok a => exact foldM_eq s step body g hstep hbody xs a

theorem setDiff_eq (a b : List Nat) : Gen.setDiff a b = Poset.setDiff a b := by
  unfold Gen.setDiff Poset.setDiff
  apply List.filter_congr
  intro x _
  simp

-- @target posetDescendantsNocache
theorem posetDescendantsNocache_eq_model (s : St α) (hc : s.useCache = false) (e : Nat) :
    (closedNocache leq .desc e).run s = (s, Fca.Gen.Lists.posetDescendantsNocache ord (recvOf leq s) e) := by
  unfold Fca.Gen.Lists.posetDescendantsNocache closedNocache
  simp only [M.run, bind, M.bind, M.get, posetLen_eq_model, ok_bind, pure_eq_ok, bind_ok_right, recvOf, Gen.range]
  exact filterM_eq s _ _ (fun i => (posetLeq ord (recvOf leq s) i e).map fun r => r && i != e)
    (fun i => by
      have h := posetLeq_eq_model leq ord s hc i e
      simp only [M.run] at h
      simp only [leqDir, bind, M.bind, h, pure, M.pure]
      cases posetLeq ord (recvOf leq s) i e <;> rfl)
    (fun i => by
      simp only [recvOf]
      cases posetLeq ord ⟨s.elems, leq⟩ i e with
      | error err => rfl
      | ok b => by_cases hie : i = e <;> cases b <;> simp [Functor.map, Except.map, hie, bind, Except.bind])
    _

-- @target posetAncestorsNocache
theorem posetAncestorsNocache_eq_model (s : St α) (hc : s.useCache = false) (e : Nat) :
    (closedNocache leq .anc e).run s = (s, Fca.Gen.Lists.posetAncestorsNocache ord (recvOf leq s) e) := by
  unfold Fca.Gen.Lists.posetAncestorsNocache closedNocache
  simp only [M.run, bind, M.bind, M.get, posetLen_eq_model, ok_bind, pure_eq_ok, bind_ok_right, recvOf, Gen.range]
  exact filterM_eq s _ _ (fun i => (posetLeq ord (recvOf leq s) e i).map fun r => r && i != e)
    (fun i => by
      have h := posetLeq_eq_model leq ord s hc e i
      simp only [M.run] at h
      simp only [leqDir, bind, M.bind, h, pure, M.pure]
      cases posetLeq ord (recvOf leq s) e i <;> rfl)
    (fun i => by
      simp only [recvOf]
      cases posetLeq ord ⟨s.elems, leq⟩ e i with
      | error err => rfl
      | ok b => by_cases hie : i = e <;> cases b <;> simp [Functor.map, Except.map, hie, bind, Except.bind])
    _

-- @target posetDescendants
theorem posetDescendants_eq_model (s : St α) (hc : s.useCache = false) (e : Nat) :
    (closedE leq .desc e).run s = (s, Fca.Gen.Lists.posetDescendants ord (recvOf leq s) e) := by
  unfold Fca.Gen.Lists.posetDescendants closedE
  have h := posetDescendantsNocache_eq_model leq ord s hc e
  simp only [M.run] at h ⊢
  simp only [bind, M.bind, M.get, hc, Bool.false_eq_true, if_false, h]
  all_goals (cases posetDescendantsNocache ord (recvOf leq s) e <;> rfl)

-- @target posetAncestors
theorem posetAncestors_eq_model (s : St α) (hc : s.useCache = false) (e : Nat) :
    (closedE leq .anc e).run s = (s, Fca.Gen.Lists.posetAncestors ord (recvOf leq s) e) := by
  unfold Fca.Gen.Lists.posetAncestors closedE
  have h := posetAncestorsNocache_eq_model leq ord s hc e
  simp only [M.run] at h ⊢
  simp only [bind, M.bind, M.get, hc, Bool.false_eq_true, if_false, h]
  all_goals (cases posetAncestorsNocache ord (recvOf leq s) e <;> rfl)

/-- the pruning loop of `_children_nocache` / `_parents_nocache` over a closed relation `clo` -/
theorem direct_loop (s : St α) (step : List Nat → Nat → M α (List Nat)) (clo : Nat → Except PyErr (List Nat))
    (hstep : ∀ acc x, step acc x s = (s, if x ∈ acc then (clo x).map (Poset.setDiff acc) else Except.ok acc))
    (xs acc : List Nat) :
    M.foldM step acc xs s = (s, forIn xs acc (fun x (r : List Nat) =>
      if r.contains x = true then (clo x >>= fun t => (pure (ForInStep.yield (Gen.setDiff r t)) : Except PyErr _))
      else pure (ForInStep.yield r))) := by
  apply foldM_eq s step _ (fun acc x => if x ∈ acc then (clo x).map (Poset.setDiff acc) else .ok acc) hstep
  intro x acc
  by_cases hx : x ∈ acc
  · have : acc.contains x = true := by simpa using hx
    simp only [this, if_true, hx]
    cases clo x with
    | error e => rfl
    | ok t => simp [Functor.map, Except.map, setDiff_eq]
  · have : acc.contains x = false := by simpa using hx
    simp [this, hx]

/-- one round of the model's pruning loop, with the closed relation answered without touching the state -/
theorem direct_step (s : St α) (cloM : Nat → M α (List Nat)) (clo : Nat → Except PyErr (List Nat))
    (hclo : ∀ x, cloM x s = (s, clo x)) (acc : List Nat) (x : Nat) :
    (if x ∈ acc then (cloM x).bind fun a => pure (Poset.setDiff acc a) else pure acc : M α (List Nat)) s
      = (s, if x ∈ acc then (clo x).map (Poset.setDiff acc) else Except.ok acc) := by
  by_cases hx : x ∈ acc
  · simp only [hx, if_true, M.bind, hclo x]
    cases clo x <;> rfl
  · simp only [hx, if_false]; rfl

-- @target posetChildrenNocache
theorem posetChildrenNocache_eq_model (s : St α) (hc : s.useCache = false) (e : Nat) :
    (directNocache leq ord .desc e).run s = (s, Fca.Gen.Lists.posetChildrenNocache ord (recvOf leq s) e) := by
  unfold Fca.Gen.Lists.posetChildrenNocache directNocache
  have h := posetDescendants_eq_model leq ord s hc e
  simp only [M.run] at h ⊢
  simp only [bind, M.bind, h]
  cases posetDescendants ord (recvOf leq s) e with
  | error err => rfl
  | ok xs =>
    simp only [ok_bind]
    rw [direct_loop s _ (fun x => posetDescendants ord (recvOf leq s) x) (fun acc x =>
      direct_step s (closedE leq .desc) _ (fun x => by
        have := posetDescendants_eq_model leq ord s hc x; simpa [M.run] using this) acc x)]
    first | rfl | (simp only [pure_eq_ok, bind_ok_right, ok_bind, except_bind_ok_right, except_ok_bind]; rfl)

-- @target posetParentsNocache
theorem posetParentsNocache_eq_model (s : St α) (hc : s.useCache = false) (e : Nat) :
    (directNocache leq ord .anc e).run s = (s, Fca.Gen.Lists.posetParentsNocache ord (recvOf leq s) e) := by
  unfold Fca.Gen.Lists.posetParentsNocache directNocache
  have h := posetAncestors_eq_model leq ord s hc e
  simp only [M.run] at h ⊢
  simp only [bind, M.bind, h]
  cases posetAncestors ord (recvOf leq s) e with
  | error err => rfl
  | ok xs =>
    simp only [ok_bind]
    rw [direct_loop s _ (fun x => posetAncestors ord (recvOf leq s) x) (fun acc x =>
      direct_step s (closedE leq .anc) _ (fun x => by
        have := posetAncestors_eq_model leq ord s hc x; simpa [M.run] using this) acc x)]
    first | rfl | (simp only [pure_eq_ok, bind_ok_right, ok_bind, except_bind_ok_right, except_ok_bind]; rfl)

-- @target posetChildren
theorem posetChildren_eq_model (s : St α) (hc : s.useCache = false) (e : Nat) :
    (directE leq ord .desc e).run s = (s, Fca.Gen.Lists.posetChildren ord (recvOf leq s) e) := by
  unfold Fca.Gen.Lists.posetChildren directE
  have h := posetChildrenNocache_eq_model leq ord s hc e
  simp only [M.run] at h ⊢
  simp only [bind, M.bind, M.get, hc, Bool.false_eq_true, if_false, h]
  all_goals (cases posetChildrenNocache ord (recvOf leq s) e <;> rfl)

-- @target posetParents
theorem posetParents_eq_model (s : St α) (hc : s.useCache = false) (e : Nat) :
    (directE leq ord .anc e).run s = (s, Fca.Gen.Lists.posetParents ord (recvOf leq s) e) := by
  unfold Fca.Gen.Lists.posetParents directE
  have h := posetParentsNocache_eq_model leq ord s hc e
  simp only [M.run] at h ⊢
  simp only [bind, M.bind, M.get, hc, Bool.false_eq_true, if_false, h]
  all_goals (cases posetParentsNocache ord (recvOf leq s) e <;> rfl)

-- @target posetBottoms
theorem posetBottoms_eq_model (s : St α) (hc : s.useCache = false) :
    (extremesE leq .desc).run s = (s, Fca.Gen.Lists.posetBottoms ord (recvOf leq s)) := by
  unfold Fca.Gen.Lists.posetBottoms extremesE
  simp only [M.run, bind, M.bind, M.get, posetLen_eq_model, ok_bind, pure_eq_ok, bind_ok_right, recvOf, Gen.range]
  exact filterM_eq s _ _ (fun i => (posetDescendants ord (recvOf leq s) i).map fun a => a.isEmpty)
    (fun i => by
      have h := posetDescendants_eq_model leq ord s hc i
      simp only [M.run] at h
      simp only [bind, M.bind, h, pure, M.pure]
      cases posetDescendants ord (recvOf leq s) i <;> rfl)
    (fun i => by
      simp only [recvOf]
      cases posetDescendants ord ⟨s.elems, leq⟩ i with
      | error err => rfl
      | ok a => cases h : a.isEmpty <;> simp [Functor.map, Except.map, h, bind, Except.bind])
    _

-- @target posetTops
theorem posetTops_eq_model (s : St α) (hc : s.useCache = false) :
    (extremesE leq .anc).run s = (s, Fca.Gen.Lists.posetTops ord (recvOf leq s)) := by
  unfold Fca.Gen.Lists.posetTops extremesE
  simp only [M.run, bind, M.bind, M.get, posetLen_eq_model, ok_bind, pure_eq_ok, bind_ok_right, recvOf, Gen.range]
  exact filterM_eq s _ _ (fun i => (posetAncestors ord (recvOf leq s) i).map fun a => a.isEmpty)
    (fun i => by
      have h := posetAncestors_eq_model leq ord s hc i
      simp only [M.run] at h
      simp only [bind, M.bind, h, pure, M.pure]
      cases posetAncestors ord (recvOf leq s) i <;> rfl)
    (fun i => by
      simp only [recvOf]
      cases posetAncestors ord ⟨s.elems, leq⟩ i with
      | error err => rfl
      | ok a => cases h : a.isEmpty <;> simp [Functor.map, Except.map, h, bind, Except.bind])
    _

/-! ## `join` / `meet` -/

theorem setInsert_eq (x : Nat) (l : List Nat) : Gen.setUnion l [x] = Poset.setInsert x l := by
  unfold Gen.setUnion Poset.setInsert
  by_cases h : x ∈ l <;> simp [h]

theorem setInter_eq' (a b : List Nat) : Gen.setInter a b = Poset.setInter a b := by
  unfold Gen.setInter Poset.setInter
  apply List.filter_congr
  intro x _
  simp

/-- the intersection loop of `join` / `meet` -/
theorem inter_loop (s : St α) (step : List Nat → Nat → M α (List Nat)) (clo : Nat → Except PyErr (List Nat))
    (hstep : ∀ acc x, step acc x s = (s, (clo x).map fun a => Poset.setInter acc (Poset.setInsert x a)))
    (xs acc : List Nat) :
    M.foldM step acc xs s = (s, forIn xs acc (fun x (r : List Nat) =>
      (clo x >>= fun t => (pure (ForInStep.yield (Gen.setInter r (Gen.setUnion t [x]))) : Except PyErr _)))) := by
  apply foldM_eq s step _ (fun acc x => (clo x).map fun a => Poset.setInter acc (Poset.setInsert x a)) hstep
  intro x acc
  cases clo x with
  | error e => rfl
  | ok t => simp [Functor.map, Except.map, setInter_eq', setInsert_eq]

/-- the pruning loop of `join` / `meet` (no membership test, unlike `_children_nocache`) -/
theorem diff_loop (s : St α) (step : List Nat → Nat → M α (List Nat)) (clo : Nat → Except PyErr (List Nat))
    (hstep : ∀ acc x, step acc x s = (s, (clo x).map fun a => Poset.setDiff acc a))
    (xs acc : List Nat) :
    M.foldM step acc xs s = (s, forIn xs acc (fun x (r : List Nat) =>
      (clo x >>= fun t => (pure (ForInStep.yield (Gen.setDiff r t)) : Except PyErr _)))) := by
  apply foldM_eq s step _ (fun acc x => (clo x).map fun a => Poset.setDiff acc a) hstep
  intro x acc
  cases clo x with
  | error e => rfl
  | ok t => simp [Functor.map, Except.map, setDiff_eq]

/-- one round of either loop in the model, with the closed relation answered without touching the state -/
theorem bound_step (s : St α) (cloM : Nat → M α (List Nat)) (clo : Nat → Except PyErr (List Nat))
    (hclo : ∀ x, cloM x s = (s, clo x)) (k : List Nat → Nat → List Nat → List Nat) (acc : List Nat) (x : Nat) :
    ((cloM x).bind fun a => pure (k acc x a) : M α (List Nat)) s = (s, (clo x).map fun a => k acc x a) := by
  simp only [M.bind, hclo x]
  cases clo x <;> rfl

theorem M_bind_ok {β γ : Type} (m : M α β) (f : β → M α γ) (s : St α) (b : β) (hm : m s = (s, .ok b)) :
    (m.bind f) s = f b s := by
  simp only [M.bind, hm]

theorem M_bind_err {β γ : Type} (m : M α β) (f : β → M α γ) (s : St α) (e : PyErr) (hm : m s = (s, .error e)) :
    (m.bind f) s = (s, .error e) := by
  simp only [M.bind, hm]

/-- with exactly one element left, the order in which Python walks the set does not matter -/
theorem pick_single (hord : ∀ l, (ord l).Perm l) (j : List Nat) :
    (if (j.length == 1) = true then (Gen.idx (ord j) 0).bind fun t => Except.ok (some t) else Except.ok none)
      = (Except.ok (if (j.length == 1) = true then j.head? else none) : Except PyErr (Option Nat)) := by
  match j with
  | [] => rfl
  | [z] =>
    have : ord [z] = [z] := List.perm_singleton.mp (hord [z])
    simp [this, Gen.idx, Except.bind]
  | _ :: _ :: _ => simp

/-- `join` / `meet` once the default selection is resolved, over the closed relation `clo` of the right direction -/
theorem bound_core (s : St α) (hord : ∀ l, (ord l).Perm l) (cloM : Nat → M α (List Nat))
    (clo : Nat → Except PyErr (List Nat)) (hclo : ∀ x, cloM x s = (s, clo x)) (L : List Nat) :
    (match L with
      | [] => (M.throw PyErr.IndexError : M α (Option Nat))
      | x :: xs =>
        (cloM x).bind fun a0 =>
          (M.foldM (fun acc y => (cloM y).bind fun a => pure (Poset.setInter acc (setInsert y a)))
                (setInsert x a0) xs).bind
            fun j1 =>
            (M.foldM (fun acc y => (cloM y).bind fun a => pure (Poset.setDiff acc a)) j1 (ord j1)).bind
              fun j2 => pure (if (j2.length == 1) = true then j2.head? else none)) s
    = (s, (Gen.idx L 0).bind fun t1 =>
          (clo t1).bind fun t2 =>
            (Gen.idx L 0).bind fun t3 =>
              (forIn (List.drop 1 L) (Gen.setUnion t2 [t3]) fun el_idx (r : List Nat) =>
                    (clo el_idx).bind fun t4 =>
                      Except.ok (ForInStep.yield (Gen.setInter r (Gen.setUnion t4 [el_idx])))).bind
                fun j1 =>
                (forIn (ord j1) j1 fun el_idx (r : List Nat) =>
                      (clo el_idx).bind fun t5 => Except.ok (ForInStep.yield (Gen.setDiff r t5))).bind
                  fun j2 =>
                  if (j2.length == 1) = true then (Gen.idx (ord j2) 0).bind fun t6 => Except.ok (some t6)
                  else Except.ok none) := by
  cases L with
  | nil => rfl
  | cons x xs =>
    have h0 : Gen.idx (x :: xs) 0 = Except.ok x := rfl
    simp only [h0, except_ok_bind, List.drop_succ_cons, List.drop_zero]
    cases hx : clo x with
    | error e => rw [M_bind_err _ _ s e (by rw [hclo x, hx])]; rfl
    | ok a0 =>
      rw [M_bind_ok _ _ s a0 (by rw [hclo x, hx])]
      simp only [except_ok_bind]
      have hI := inter_loop s (fun acc y => (cloM y).bind fun a => pure (Poset.setInter acc (setInsert y a))) clo
        (fun acc y => bound_step s cloM clo hclo (fun acc y a => Poset.setInter acc (setInsert y a)) acc y)
        xs (setInsert x a0)
      rw [setInsert_eq]
      cases hj1 : (forIn xs (setInsert x a0) fun x_1 (r : List Nat) =>
          (clo x_1 >>= fun t => (pure (ForInStep.yield (Gen.setInter r (Gen.setUnion t [x_1]))) : Except PyErr _))) with
      | error e =>
        rw [hj1] at hI
        rw [M_bind_err _ _ s e hI]
        have : (forIn xs (setInsert x a0) fun el_idx (r : List Nat) =>
          (clo el_idx).bind fun t4 => Except.ok (ForInStep.yield (Gen.setInter r (Gen.setUnion t4 [el_idx])))) = Except.error e := hj1
        rw [this]; rfl
      | ok j1 =>
        rw [hj1] at hI
        rw [M_bind_ok _ _ s j1 hI]
        have : (forIn xs (setInsert x a0) fun el_idx (r : List Nat) =>
          (clo el_idx).bind fun t4 => Except.ok (ForInStep.yield (Gen.setInter r (Gen.setUnion t4 [el_idx])))) = Except.ok j1 := hj1
        rw [this]
        simp only [except_ok_bind]
        have hD := diff_loop s (fun acc y => (cloM y).bind fun a => pure (Poset.setDiff acc a)) clo
          (fun acc y => bound_step s cloM clo hclo (fun acc y a => Poset.setDiff acc a) acc y) (ord j1) j1
        cases hj2 : (forIn (ord j1) j1 fun x_1 (r : List Nat) =>
            (clo x_1 >>= fun t => (pure (ForInStep.yield (Gen.setDiff r t)) : Except PyErr _))) with
        | error e =>
          rw [hj2] at hD
          rw [M_bind_err _ _ s e hD]
          have : (forIn (ord j1) j1 fun el_idx (r : List Nat) =>
            (clo el_idx).bind fun t5 => Except.ok (ForInStep.yield (Gen.setDiff r t5))) = Except.error e := hj2
          rw [this]; rfl
        | ok j2 =>
          rw [hj2] at hD
          rw [M_bind_ok _ _ s j2 hD]
          have : (forIn (ord j1) j1 fun el_idx (r : List Nat) =>
            (clo el_idx).bind fun t5 => Except.ok (ForInStep.yield (Gen.setDiff r t5))) = Except.ok j2 := hj2
          rw [this]
          simp only [except_ok_bind, pick_single ord hord j2]
          rfl

-- @target posetJoin
/-- `join(S)`; `None` and `[]` both stand for "all elements"; `hord`: Python walks a set in SOME order -/
theorem posetJoin_eq_model (s : St α) (hc : s.useCache = false) (hord : ∀ l, (ord l).Perm l) (S : Option (List Nat)) :
    (boundE leq ord .anc (S.getD [])).run s = (s, Fca.Gen.Lists.posetJoin ord (recvOf leq s) S) := by
  unfold Fca.Gen.Lists.posetJoin boundE
  simp only [M.run, bind, M.bind, M.get, posetLen_eq_model, ok_bind, pure_eq_ok, recvOf, Gen.range, Gen.len, except_ok_bind]
  have core := bound_core ord s hord (closedE leq .anc) (fun x => posetAncestors ord ⟨s.elems, leq⟩ x)
    (fun x => by have := posetAncestors_eq_model leq ord s hc x; simpa [M.run, recvOf] using this)
  cases S with
  | none => exact core (List.range s.elems.length)
  | some xs =>
    cases xs with
    | nil => exact core (List.range s.elems.length)
    | cons y ys => exact core (y :: ys)

-- @target posetMeet
theorem posetMeet_eq_model (s : St α) (hc : s.useCache = false) (hord : ∀ l, (ord l).Perm l) (S : Option (List Nat)) :
    (boundE leq ord .desc (S.getD [])).run s = (s, Fca.Gen.Lists.posetMeet ord (recvOf leq s) S) := by
  unfold Fca.Gen.Lists.posetMeet boundE
  simp only [M.run, bind, M.bind, M.get, posetLen_eq_model, ok_bind, pure_eq_ok, recvOf, Gen.range, Gen.len, except_ok_bind]
  have core := bound_core ord s hord (closedE leq .desc) (fun x => posetDescendants ord ⟨s.elems, leq⟩ x)
    (fun x => by have := posetDescendants_eq_model leq ord s hc x; simpa [M.run, recvOf] using this)
  cases S with
  | none => exact core (List.range s.elems.length)
  | some xs =>
    cases xs with
    | nil => exact core (List.range s.elems.length)
    | cons y ys => exact core (y :: ys)

end Fca.Gen.Lists

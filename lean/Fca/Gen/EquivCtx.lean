/-
  Fca.Gen.EquivCtx — the definitions generated from `fcapy/context/formal_context.py` (`Fca/Gen/GeneratedCtx.lean`:
  the properties `data / n_objects / n_attributes`, `extension_i`, `extension_monotone_i`, `intention_i`,
  `intention_monotone_i`, and the by-name wrappers `extension`, `intention`, for a context whose `_data` is a
  `BinTableLists`) equal the hand-written model `Fca.Ctx.*` (`Fca/Model/Context.lean`):

      ctxExtensionI_eq_model : K.backend = .lists → K.table.WF → (B in range) → (base in range) →
                               Gen.Lists.ctxExtensionI K B base = .ok (K.extensionI B base)          … and so on;

  the hypotheses are those of the C01 theorems (plus "the backend is the lists one": that is what was translated).
  For the statements C01 proves without any hypothesis there are hypothesis-free companions
  (`ctxExtensionMonotoneI_full_eq_model`, `ctxExtension_error_eq_model`, `ctxIntention_error_eq_model`).
  `harness/genside.py` re-elaborates THIS FILE against freshly generated definitions whenever the Python source changed.
-/
import Fca.Gen.GeneratedCtx
import Fca.Gen.Equiv
import Fca.Lemmas.Names
import Fca.Lemmas.AllI
namespace Fca.Gen.Lists
open Fca Fca.Gen

set_option linter.unusedSimpArgs false
set_option linter.unusedVariables false

-- @target ctxData
theorem ctxData_eq_model (K : Ctx) : Fca.Gen.Lists.ctxData K = .ok K.table := by
  unfold Fca.Gen.Lists.ctxData
  rfl

-- @target ctxNObjects
theorem ctxNObjects_eq_model (K : Ctx) : Fca.Gen.Lists.ctxNObjects K = .ok K.nObjects := by
  unfold Fca.Gen.Lists.ctxNObjects
  simp only [ctxData_eq_model, ok_bind, pure_eq_ok]
  rfl

-- @target ctxNAttributes
theorem ctxNAttributes_eq_model (K : Ctx) : Fca.Gen.Lists.ctxNAttributes K = .ok K.nAttributes := by
  unfold Fca.Gen.Lists.ctxNAttributes
  simp only [ctxData_eq_model, ok_bind, pure_eq_ok]
  rfl

-- @target ctxExtensionI
theorem ctxExtensionI_eq_model (K : Ctx) (hb : K.backend = .lists) (hwf : K.table.WF) (B : List Nat)
    (base : Option (List Nat)) (hB : ∀ x ∈ B, x < K.nAttributes)
    (hbase : ∀ bs, base = some bs → ∀ x ∈ bs, x < K.nObjects) :
    Fca.Gen.Lists.ctxExtensionI K B base = .ok (K.extensionI B base) := by
  unfold Fca.Gen.Lists.ctxExtensionI Ctx.extensionI
  simp only [ctxData_eq_model, ctxNObjects_eq_model, ok_bind, pure_eq_ok]
  have hB' : ∀ xs, some B = some xs → ∀ x ∈ xs, x < K.table.width := by intro xs h; cases h; exact hB
  simp only [allI1_eq_model K.table hwf base (some B) hbase hB']
  by_cases h0 : B.length = 0 <;> cases base <;> simp [h0, Gen.len, Gen.range, Fca.allI, hb, eq_comm (a := 0)]

-- @target ctxExtensionMonotoneI
theorem ctxExtensionMonotoneI_eq_model (K : Ctx) (hb : K.backend = .lists) (hwf : K.table.WF) (B : List Nat)
    (base : Option (List Nat)) (hB : ∀ x ∈ B, x < K.nAttributes)
    (hbase : ∀ bs, base = some bs → ∀ x ∈ bs, x < K.nObjects) :
    Fca.Gen.Lists.ctxExtensionMonotoneI K B base = .ok (K.extensionMonotoneI B base) := by
  unfold Fca.Gen.Lists.ctxExtensionMonotoneI Ctx.extensionMonotoneI
  simp only [ctxData_eq_model, ctxNObjects_eq_model, ctxNAttributes_eq_model, ok_bind, pure_eq_ok]
  have hB' : ∀ xs, some B = some xs → ∀ x ∈ xs, x < K.table.width := by intro xs h; cases h; exact hB
  simp only [anyI1_eq_model K.table hwf base (some B) hbase hB']
  by_cases h0 : B.length = K.nAttributes <;> cases base <;> simp [h0, Gen.len, Gen.range, Fca.anyI, hb]

/-- the `len()` shortcut needs no hypothesis at all (C01.extension_monotone_i_full) -/
theorem ctxExtensionMonotoneI_full_eq_model (K : Ctx) (B : List Nat) (base : Option (List Nat))
    (hfull : B.length = K.nAttributes) :
    Fca.Gen.Lists.ctxExtensionMonotoneI K B base = .ok (K.extensionMonotoneI B base) := by
  unfold Fca.Gen.Lists.ctxExtensionMonotoneI Ctx.extensionMonotoneI
  simp only [ctxData_eq_model, ctxNObjects_eq_model, ctxNAttributes_eq_model, ok_bind, pure_eq_ok]
  cases base <;> simp [hfull, Gen.len, Gen.range]

-- @target ctxIntentionI
theorem ctxIntentionI_eq_model (K : Ctx) (hb : K.backend = .lists) (hwf : K.table.WF) (A : List Nat)
    (base : Option (List Nat)) (hA : ∀ x ∈ A, x < K.nObjects)
    (hbase : ∀ bs, base = some bs → ∀ x ∈ bs, x < K.nAttributes) :
    Fca.Gen.Lists.ctxIntentionI K A base = .ok (K.intentionI A base) := by
  unfold Fca.Gen.Lists.ctxIntentionI Ctx.intentionI
  simp only [ctxData_eq_model, ctxNObjects_eq_model, ctxNAttributes_eq_model, ok_bind, pure_eq_ok]
  have hA' : ∀ xs, some A = some xs → ∀ x ∈ xs, x < K.table.height := by intro xs h; cases h; exact hA
  simp only [allI0_eq_model K.table hwf (some A) base hA' hbase]
  by_cases h0 : A.length = 0 <;> cases base <;> simp [h0, Gen.len, Gen.range, Fca.allI, hb, eq_comm (a := 0)]

-- @target ctxIntentionMonotoneI
theorem ctxIntentionMonotoneI_eq_model (K : Ctx) (hb : K.backend = .lists) (hwf : K.table.WF) (A : List Nat)
    (base : Option (List Nat)) (hbase : ∀ bs, base = some bs → ∀ x ∈ bs, x < K.nAttributes) :
    Fca.Gen.Lists.ctxIntentionMonotoneI K A base = .ok (K.intentionMonotoneI A base) := by
  unfold Fca.Gen.Lists.ctxIntentionMonotoneI Ctx.intentionMonotoneI
  simp only [ctxData_eq_model, ctxNObjects_eq_model, ctxNAttributes_eq_model, ok_bind, pure_eq_ok]
  have hinv : ∀ xs, some (List.filter (fun g => !A.contains g) (List.range K.nObjects)) = some xs →
      ∀ x ∈ xs, x < K.table.height := by
    intro xs h; cases h; intro x hx; exact List.mem_range.mp (List.mem_filter.mp hx).1
  simp only [filterMap_ite_eq_filter, Gen.pySet, Gen.range, Gen.len]
  simp only [anyI0_eq_model K.table hwf _ base hinv hbase, ok_bind]
  by_cases h0 : A.length = K.nObjects <;> cases base <;> simp [h0, Fca.anyI, hb]

/-! ## the by-name wrappers -/

theorem extensionI_subset (K : Ctx) (hwf : K.table.WF) (B bs : List Nat) (hB : ∀ x ∈ B, x < K.nAttributes)
    (hbs : ∀ x ∈ bs, x < K.nObjects) : ∀ g ∈ K.extensionI B (some bs), g < K.nObjects := by
  intro g hg
  unfold Ctx.extensionI at hg
  split at hg
  · exact hbs g hg
  · rw [allI_axis1 K.table hwf K.backend (some bs) (some B) (by intro rs h; cases h; exact hbs)
      (by intro cs h; cases h; exact hB)] at hg
    exact hbs g (List.mem_filter.mp hg).1

theorem extensionMonotoneI_subset (K : Ctx) (hwf : K.table.WF) (B bs : List Nat) (hB : ∀ x ∈ B, x < K.nAttributes)
    (hbs : ∀ x ∈ bs, x < K.nObjects) : ∀ g ∈ K.extensionMonotoneI B (some bs), g < K.nObjects := by
  intro g hg
  unfold Ctx.extensionMonotoneI at hg
  split at hg
  · exact hbs g hg
  · rw [anyI_axis1 K.table hwf K.backend (some bs) (some B) (by intro rs h; cases h; exact hbs)
      (by intro cs h; cases h; exact hB)] at hg
    exact hbs g (List.mem_filter.mp hg).1

theorem intentionI_subset (K : Ctx) (hwf : K.table.WF) (A : List Nat) (hA : ∀ x ∈ A, x < K.nObjects) :
    ∀ m ∈ K.intentionI A none, m < K.nAttributes := by
  intro m hm
  unfold Ctx.intentionI at hm
  split at hm
  · exact List.mem_range.mp hm
  · rw [allI_axis0 K.table hwf K.backend A none hA (by intro cs h; cases h)] at hm
    exact List.mem_range.mp (List.mem_filter.mp hm).1

theorem intentionMonotoneI_subset (K : Ctx) (A : List Nat) : ∀ m ∈ K.intentionMonotoneI A none, m < K.nAttributes := by
  intro m hm
  unfold Ctx.intentionMonotoneI at hm
  simp only [Option.getD_none] at hm
  split at hm
  · exact List.mem_range.mp hm
  · exact List.mem_range.mp (List.mem_filter.mp hm).1

/-- `[names[i] for i in idxs]` with in-range indexes -/
theorem mapM_idx_names (names : List String) (is : List Nat) (h : ∀ i ∈ is, i < names.length)
    (f : Nat → Except PyErr String) (hf : ∀ i, f i = (Gen.idx names i >>= fun t => Except.ok t)) :
    is.mapM f = .ok (is.map fun i => names.getD i "") := by
  apply mapM_ok
  intro i hi
  rw [hf, idx_ok (h i hi)]
  simp [List.getD_eq_getElem?_getD, List.getElem?_eq_getElem (h i hi)]

-- @target ctxExtension
/-- the common tail of `extension`: derive by index (`x`), then name the result -/
theorem ctxExtension_tail (K : Ctx) (hwf : K.table.WF) (hobj : K.objNames.length = K.nObjects)
    (ai bi : List Nat) (hai : ∀ i ∈ ai, i < K.nAttributes) (hbi : ∀ i ∈ bi, i < K.nObjects) (mono : Bool)
    (x : Except PyErr (List Nat))
    (hx : x = .ok (if (!mono) = true then K.extensionI ai (some bi) else K.extensionMonotoneI ai (some bi)))
    (f : Nat → Except PyErr String) (hf : ∀ i, f i = (Gen.idx K.objNames i >>= fun t => Except.ok t)) :
    (x >>= fun e => List.mapM f e)
    = .ok (List.map (fun g => K.objNames.getD g "")
        (if (!mono) = true then K.extensionI ai (some bi) else K.extensionMonotoneI ai (some bi))) := by
  subst hx
  cases mono <;> simp only [Bool.not_false, Bool.not_true, if_true, Bool.false_eq_true, if_false, ok_bind]
  · exact mapM_idx_names _ _ (by rw [hobj]; exact extensionI_subset K hwf ai bi hai hbi) f hf
  · exact mapM_idx_names _ _ (by rw [hobj]; exact extensionMonotoneI_subset K hwf ai bi hai hbi) f hf

/-- the index step of `extension`, whichever way the `is_monotone` conditional is written -/
macro "gen_ext_choice" K:ident hb:ident hwf:ident ai:ident bi:term:max hai:ident hbi:term:max mono:ident : tactic =>
  `(tactic| (
    have hbi' : ∀ bs, some $bi = some bs → ∀ x ∈ bs, x < Ctx.nObjects $K := by intro bs h; cases h; exact $hbi
    cases $mono:ident <;>
      simp [ctxExtensionI_eq_model $K $hb $hwf $ai (some $bi) $hai hbi',
        ctxExtensionMonotoneI_eq_model $K $hb $hwf $ai (some $bi) $hai hbi']))

/-- no hypothesis on the names: an unknown attribute / base object is a `KeyError` on both sides -/
theorem ctxExtension_eq_model (K : Ctx) (hb : K.backend = .lists) (hwf : K.table.WF)
    (hobj : K.objNames.length = K.nObjects) (hattr : K.attrNames.length = K.nAttributes)
    (attrs : List String) (base : Option (List String)) (mono : Bool) :
    Fca.Gen.Lists.ctxExtension K attrs base mono = K.extension attrs base mono := by
  unfold Fca.Gen.Lists.ctxExtension Ctx.extension
  simp only [ctxNObjects_eq_model, ok_bind, pure_eq_ok, Gen.range]
  first | rw [forIn_append (fun m => Gen.dictGet (Gen.attrNameMap K) m) _ (fun x acc => by rfl)] | skip
  simp only [Gen.attrNameMap, Gen.objNameMap, mapM_dictGet_enumDict, List.nil_append, bind_ok_right]
  cases hai : namesToIdx K.attrNames attrs with
  | error e => rfl
  | ok ai =>
    obtain ⟨_, hlt, _⟩ := namesToIdx_ok _ _ _ hai
    have haiR : ∀ i ∈ ai, i < K.nAttributes := by rw [← hattr]; exact hlt
    simp only [ok_bind]
    cases base with
    | none =>
      simp only [ok_bind]
      refine ctxExtension_tail K hwf hobj ai _ haiR (fun i hi => List.mem_range.mp hi) mono _ ?_ _
        (fun i => by first | rfl | exact (bind_ok_right _).symm)
      gen_ext_choice K hb hwf ai (List.range K.nObjects) haiR (fun i hi => List.mem_range.mp hi) mono
    | some bs =>
      simp only []
      first | rw [forIn_append (fun g => Gen.dictGet (Gen.objNameMap K) g) _ (fun x acc => by rfl)] | skip
      simp only [Gen.objNameMap, mapM_dictGet_enumDict, List.nil_append, bind_ok_right]
      cases hbi : namesToIdx K.objNames bs with
      | error e => rfl
      | ok bi =>
        obtain ⟨_, hltb, _⟩ := namesToIdx_ok _ _ _ hbi
        have hbiR : ∀ i ∈ bi, i < K.nObjects := by rw [← hobj]; exact hltb
        simp only [ok_bind]
        refine ctxExtension_tail K hwf hobj ai bi haiR hbiR mono _ ?_ _
          (fun i => by first | rfl | exact (bind_ok_right _).symm)
        gen_ext_choice K hb hwf ai bi haiR hbiR mono

/-- whenever the model raises (an unknown name), the generated definition raises the same — no hypothesis -/
theorem ctxExtension_error_eq_model (K : Ctx) (attrs : List String) (base : Option (List String)) (mono : Bool)
    (e : PyErr) (h : K.extension attrs base mono = .error e) :
    Fca.Gen.Lists.ctxExtension K attrs base mono = .error e := by
  revert h
  unfold Fca.Gen.Lists.ctxExtension Ctx.extension
  simp only [ctxNObjects_eq_model, ok_bind, pure_eq_ok, Gen.range]
  first | rw [forIn_append (fun m => Gen.dictGet (Gen.attrNameMap K) m) _ (fun x acc => by rfl)] | skip
  simp only [Gen.attrNameMap, Gen.objNameMap, mapM_dictGet_enumDict, List.nil_append, bind_ok_right]
  cases hai : namesToIdx K.attrNames attrs with
  | error e' => exact id
  | ok ai =>
    simp only [ok_bind]
    cases base with
    | none => intro h; cases h
    | some bs =>
      simp only []
      first | rw [forIn_append (fun g => Gen.dictGet (Gen.objNameMap K) g) _ (fun x acc => by rfl)] | skip
      simp only [Gen.objNameMap, mapM_dictGet_enumDict, List.nil_append, bind_ok_right]
      cases hbi : namesToIdx K.objNames bs with
      | error e' => exact id
      | ok bi => intro h; cases h

-- @target ctxIntention
theorem ctxIntention_error_eq_model (K : Ctx) (objs : List String) (mono : Bool)
    (e : PyErr) (h : K.intention objs mono = .error e) :
    Fca.Gen.Lists.ctxIntention K objs mono = .error e := by
  revert h
  unfold Fca.Gen.Lists.ctxIntention Ctx.intention
  simp only [ok_bind, pure_eq_ok]
  first | rw [forIn_append (fun g => Gen.dictGet (Gen.objNameMap K) g) _ (fun x acc => by rfl)] | skip
  simp only [Gen.objNameMap, mapM_dictGet_enumDict, List.nil_append, bind_ok_right]
  cases hoi : namesToIdx K.objNames objs with
  | error e' => exact id
  | ok oi => intro h; cases h

theorem ctxIntention_eq_model (K : Ctx) (hb : K.backend = .lists) (hwf : K.table.WF)
    (hobj : K.objNames.length = K.nObjects) (hattr : K.attrNames.length = K.nAttributes)
    (objs : List String) (mono : Bool) :
    Fca.Gen.Lists.ctxIntention K objs mono = K.intention objs mono := by
  unfold Fca.Gen.Lists.ctxIntention Ctx.intention
  simp only [ok_bind, pure_eq_ok]
  first | rw [forIn_append (fun g => Gen.dictGet (Gen.objNameMap K) g) _ (fun x acc => by rfl)] | skip
  simp only [Gen.objNameMap, mapM_dictGet_enumDict, List.nil_append, bind_ok_right]
  cases hoi : namesToIdx K.objNames objs with
  | error e => rfl
  | ok oi =>
    obtain ⟨_, hlt, _⟩ := namesToIdx_ok _ _ _ hoi
    have hoiR : ∀ i ∈ oi, i < K.nObjects := by rw [← hobj]; exact hlt
    simp only [ok_bind]
    rw [ctxIntentionI_eq_model K hb hwf oi none hoiR (by intro bs h; cases h),
      ctxIntentionMonotoneI_eq_model K hb hwf oi none (by intro bs h; cases h)]
    cases mono <;> simp only [Bool.not_false, Bool.not_true, if_true, Bool.false_eq_true, if_false, ok_bind]
    · exact mapM_idx_names _ _ (by rw [hattr]; exact intentionI_subset K hwf oi hoiR) _ (fun i => by first | rfl | exact (bind_ok_right _).symm)
    · exact mapM_idx_names _ _ (by rw [hattr]; exact intentionMonotoneI_subset K oi) _ (fun i => by first | rfl | exact (bind_ok_right _).symm)

end Fca.Gen.Lists

/-
  Fca.Gen.Rt — the runtime vocabulary of the Python→Lean translator (`harness/py2lean.py`).

  Every Python construct the translator accepts is mapped onto one of these few definitions
  (or onto a core `List`/`Bool`/`Nat` operation).  No Mathlib import.  Generated code lives in
  the monad `Except Fca.PyErr`: the only source of errors today is `Gen.idx` (Python `a[i]`
  with `i` outside `0 ≤ i < len(a)` raises `IndexError`) and `assert` (`AssertionError`).
-/
import Fca.Model.Basic
namespace Fca.Gen

/-- Python `a[i]` for a list `a` and a NON-NEGATIVE integer `i`: `IndexError` when out of range. -/
def idx {α} (xs : List α) (i : Nat) : Except PyErr α :=
  match xs[i]? with
  | some x => .ok x
  | none => .error .IndexError

/-- `len(a)` -/
abbrev len {α} (xs : List α) : Nat := xs.length
/-- `range(n)` used as an iterable / sequence: `0, 1, …, n-1` -/
abbrev range (n : Nat) : List Nat := List.range n
/-- `zip(a, b)` used as an iterable: pairs up to the shorter length -/
abbrev zip {α β} (xs : List α) (ys : List β) : List (α × β) := List.zip xs ys
/-- `enumerate(a)` used as an iterable: `(0, a[0]), (1, a[1]), …` -/
def enumerate {α} (xs : List α) : List (Nat × α) := List.zip (List.range xs.length) xs
/-- `all(xs)` on a list of `bool` -/
def pyAll (xs : List Bool) : Bool := xs.all id
/-- `any(xs)` on a list of `bool` -/
def pyAny (xs : List Bool) : Bool := xs.any id
/-- `sum(xs)` on a list of non-negative `int` -/
def pySum (xs : List Nat) : Nat := xs.sum
/-- `sum(xs)` on a list of `bool` (`True` counts 1) -/
def pySumB (xs : List Bool) : Nat := (xs.filter id).length
/-- `int(b)` for a `bool` -/
def intOfBool (b : Bool) : Nat := if b then 1 else 0
/-- `xs * n` (list repetition), `n ≥ 0` -/
def listMul {α} (xs : List α) (n : Nat) : List α := (List.replicate n xs).flatten
/-- `recv.shape` : `(height, width)` -/
def shape (t : Table) : Nat × Nat := (t.height, t.width)
/-- `assert c` -/
def pyAssert (c : Bool) : Except PyErr Unit := if c then .ok () else .error .AssertionError

end Fca.Gen

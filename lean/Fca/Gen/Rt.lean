/-
  Fca.Gen.Rt — the runtime vocabulary of the Python→Lean translator (`harness/py2lean.py`).

  Every Python construct the translator accepts is mapped onto one of these few definitions
  (or onto a core `List`/`Bool`/`Nat` operation).  No Mathlib import.  Generated code lives in
  the monad `Except Fca.PyErr`: the only source of errors today is `Gen.idx` (Python `a[i]`
  with `i` outside `0 ≤ i < len(a)` raises `IndexError`) and `assert` (`AssertionError`).
-/
import Fca.Model.Basic
namespace Fca.Gen

/-- Python `a[i]` for a list `a` and a NON-NEGATIVE integer `i`: `IndexError` when out of range. -/
def idx {α} (xs : List α) (i : Nat) : Except PyErr α :=
  match xs[i]? with
  | some x => .ok x
  | none => .error .IndexError

/-- `len(a)` -/
abbrev len {α} (xs : List α) : Nat := xs.length
/-- `range(n)` used as an iterable / sequence: `0, 1, …, n-1` -/
abbrev range (n : Nat) : List Nat := List.range n
/-- `zip(a, b)` used as an iterable: pairs up to the shorter length -/
abbrev zip {α β} (xs : List α) (ys : List β) : List (α × β) := List.zip xs ys
/-- `enumerate(a)` used as an iterable: `(0, a[0]), (1, a[1]), …` -/
def enumerate {α} (xs : List α) : List (Nat × α) := List.zip (List.range xs.length) xs
/-- `all(xs)` on a list of `bool` -/
def pyAll (xs : List Bool) : Bool := xs.all id
/-- `any(xs)` on a list of `bool` -/
def pyAny (xs : List Bool) : Bool := xs.any id
/-- `sum(xs)` on a list of non-negative `int` -/
def pySum (xs : List Nat) : Nat := xs.sum
/-- `sum(xs)` on a list of `bool` (`True` counts 1) -/
def pySumB (xs : List Bool) : Nat := (xs.filter id).length
/-- `int(b)` for a `bool` -/
def intOfBool (b : Bool) : Nat := if b then 1 else 0
/-- `xs * n` (list repetition), `n ≥ 0` -/
def listMul {α} (xs : List α) (n : Nat) : List α := (List.replicate n xs).flatten
/-- `recv.shape` : `(height, width)` -/
def shape (t : Table) : Nat × Nat := (t.height, t.width)
/-- `assert c` -/
def pyAssert (c : Bool) : Except PyErr Unit := if c then .ok () else .error .AssertionError

/-- `set(xs)` used for membership tests only (`x in s`, `x not in s`): the list it was built from -/
abbrev pySet {α} (xs : List α) : List α := xs

/-- `a | b` on sets (carried as lists up to membership) -/
def setUnion {α} [BEq α] (a b : List α) : List α := a ++ b.filter fun x => !a.contains x
/-- `a & b` on sets -/
def setInter {α} [BEq α] (a b : List α) : List α := a.filter fun x => b.contains x
/-- `a == b` on sets: mutual inclusion -/
def setEq {α} [BEq α] (a b : List α) : Bool := (a.all fun x => b.contains x) && (b.all fun x => a.contains x)

/-- builtin `min(a, b)` of two numbers: the first minimal argument -/
def pyMin2 (a b : Int) : Int := if b < a then b else a
/-- builtin `max(a, b)` of two numbers: the first maximal argument -/
def pyMax2 (a b : Int) : Int := if b > a then b else a

/-- `all(f(x) for x in xs)` over a GENERATOR: stops at the first `False` (later elements are not evaluated) -/
def allM {α} (f : α → Except PyErr Bool) : List α → Except PyErr Bool
  | [] => .ok true
  | x :: xs =>
    match f x with
    | .error e => .error e
    | .ok false => .ok false
    | .ok true => allM f xs

/-- `any(f(x) for x in xs)` over a generator: stops at the first `True` -/
def anyM {α} (f : α → Except PyErr Bool) : List α → Except PyErr Bool
  | [] => .ok false
  | x :: xs =>
    match f x with
    | .error e => .error e
    | .ok true => .ok true
    | .ok false => anyM f xs

/-- `[e for x in xs if c]` when `c` or `e` may raise: elements in order, the first exception wins -/
def filterMapM {α β} (f : α → Except PyErr (Option β)) : List α → Except PyErr (List β)
  | [] => .ok []
  | x :: xs =>
    match f x with
    | .error e => .error e
    | .ok o =>
      match filterMapM f xs with
      | .error e => .error e
      | .ok r => .ok (match o with | some y => y :: r | none => r)

/-- a `dict` read by `d[k]` only, carried as an association list in insertion order: the LAST pair with the key
    counts (in a dict display / comprehension a later binding of a key overwrites an earlier one) -/
def dictFind {κ ν} [BEq κ] : List (κ × ν) → κ → Option ν
  | [], _ => none
  | (k', v) :: rest, k =>
    match dictFind rest k with
    | some w => some w
    | none => if k' == k then some v else none

/-- `d[k]`: `KeyError` when the key is absent -/
def dictGet {κ ν} [BEq κ] (d : List (κ × ν)) (k : κ) : Except PyErr ν :=
  match dictFind d k with
  | some v => .ok v
  | none => .error .KeyError

/-- `{name: idx for idx, name in enumerate(names)}` -/
def enumDict {κ} (names : List κ) : List (κ × Nat) := (enumerate names).map fun p => (p.2, p.1)

end Fca.Gen

/-
  Fca.Gen.RtLemmas — basic facts about the translator's runtime vocabulary (`Fca.Gen.Rt`):
  how the `Except` monad computes, when `Gen.idx` succeeds, `mapM`/`forIn` over total bodies.
  Core only (no Mathlib).
-/
import Fca.Gen.Rt
namespace Fca.Gen

/-! ### the `Except` monad computes -/

@[simp] theorem ok_bind {ε α β} (a : α) (f : α → Except ε β) : (Except.ok a >>= f) = f a := rfl
@[simp] theorem pure_eq_ok {ε α} (a : α) : (pure a : Except ε α) = Except.ok a := rfl
@[simp] theorem map_ok {ε α β} (g : α → β) (a : α) : (g <$> (Except.ok a : Except ε α)) = Except.ok (g a) := rfl
theorem bind_ok_right {ε α} (x : Except ε α) : (x >>= fun a => Except.ok a) = x := by
  cases x <;> rfl

/-! ### Python builtins -/

@[simp] theorem pyAll_eq (xs : List Bool) : Gen.pyAll xs = Fca.pyAll xs := rfl
@[simp] theorem pyAny_eq (xs : List Bool) : Gen.pyAny xs = Fca.pyAny xs := rfl
@[simp] theorem pySum_eq (xs : List Nat) : Gen.pySum xs = xs.sum := rfl
@[simp] theorem pySumB_eq (xs : List Bool) : Gen.pySumB xs = (xs.filter id).length := rfl
@[simp] theorem intOfBool_eq (b : Bool) : Gen.intOfBool b = if b then 1 else 0 := rfl

@[simp] theorem listMul_singleton {α} (a : α) (n : Nat) : Gen.listMul [a] n = List.replicate n a := by
  induction n with
  | zero => rfl
  | succ n ih =>
    simp only [listMul, List.replicate_succ, List.flatten_cons] at *
    rw [ih]; rfl

@[simp] theorem pyAssert_true : Gen.pyAssert true = Except.ok () := rfl
@[simp] theorem pyAssert_false : Gen.pyAssert false = Except.error PyErr.AssertionError := rfl

/-- `[x for x in xs if p(x)]` -/
theorem filterMap_ite_eq_filter {α} (p : α → Bool) : ∀ xs : List α,
    xs.filterMap (fun x => if p x = true then some x else none) = xs.filter p
  | [] => rfl
  | x :: xs => by
    cases h : p x <;> simp [List.filterMap_cons, List.filter_cons, h, filterMap_ite_eq_filter p xs]

/-! ### indexing -/

theorem idx_ok {α} {xs : List α} {i : Nat} (h : i < xs.length) : Gen.idx xs i = Except.ok xs[i] := by
  simp [Gen.idx, List.getElem?_eq_getElem h]

theorem idx_error {α} {xs : List α} {i : Nat} (h : xs.length ≤ i) : Gen.idx xs i = Except.error PyErr.IndexError := by
  simp [Gen.idx, List.getElem?_eq_none h]

/-- `self.data[i]` for an in-range row index is the model's `t.row i` -/
theorem idx_data (t : Table) {i : Nat} (hi : i < t.height) : Gen.idx t.data i = Except.ok (t.row i) := by
  rw [idx_ok hi]
  simp [Table.row, List.getD_eq_getElem?_getD, List.getElem?_eq_getElem hi]

theorem row_mem (t : Table) {i : Nat} (hi : i < t.height) : t.row i ∈ t.data := by
  unfold Table.row
  rw [List.getD_eq_getElem?_getD, List.getElem?_eq_getElem hi]
  exact List.getElem_mem hi

/-- `row[j]` for a row of a well-formed table and an in-range column index is the model's `t.get i j` -/
theorem idx_row (t : Table) (h : t.WF) {i j : Nat} (hi : i < t.height) (hj : j < t.width) :
    Gen.idx (t.row i) j = Except.ok (t.get i j) := by
  have hlen : (t.row i).length = t.width := h _ (row_mem t hi)
  have hj' : j < (t.row i).length := by omega
  rw [idx_ok hj']
  simp [Table.get, List.getD_eq_getElem?_getD, List.getElem?_eq_getElem hj']

/-! ### comprehensions and loops whose body cannot fail -/

/-- a comprehension whose element never raises is `List.map` -/
theorem mapM_ok {ε α β} {f : α → Except ε β} {g : α → β} :
    ∀ {xs : List α}, (∀ x ∈ xs, f x = Except.ok (g x)) → xs.mapM f = Except.ok (xs.map g)
  | [], _ => rfl
  | x :: xs, h => by
    have h1 := h x List.mem_cons_self
    have h2 := mapM_ok (xs := xs) (fun y hy => h y (List.mem_cons_of_mem _ hy))
    simp [List.mapM_cons, h1, h2]

/-- the structural recursion a `for` loop with `break` denotes -/
def loop {α β} (g : α → β → ForInStep β) : List α → β → β
  | [], b => b
  | x :: xs, b =>
    match g x b with
    | .done b' => b'
    | .yield b' => loop g xs b'

/-- a `for` loop whose body never raises is that structural recursion -/
theorem forIn_ok {ε α β} {f : α → β → Except ε (ForInStep β)} {g : α → β → ForInStep β} :
    ∀ {xs : List α} (b : β), (∀ x ∈ xs, ∀ b, f x b = Except.ok (g x b)) → forIn xs b f = Except.ok (loop g xs b)
  | [], _, _ => rfl
  | x :: xs, b, h => by
    rw [List.forIn_cons, h x List.mem_cons_self b, ok_bind]
    simp only [loop]
    cases g x b with
    | done b' => rfl
    | yield b' => exact forIn_ok b' (fun y hy => h y (List.mem_cons_of_mem _ hy))

/-- `acc = […]; for x in xs: acc.append(f(x))` — the accumulating loop is `mapM` (the first exception wins) -/
theorem forIn_append {ε α β} (f : α → Except ε β) (body : α → List β → Except ε (ForInStep (List β)))
    (h : ∀ x acc, body x acc = (f x >>= fun t => Except.ok (ForInStep.yield (acc ++ [t])))) :
    ∀ (xs : List α) (acc : List β), forIn xs acc body = (xs.mapM f >>= fun ys => Except.ok (acc ++ ys))
  | [], acc => by simp [List.mapM_nil]
  | x :: xs, acc => by
    rw [List.forIn_cons, h x acc, List.mapM_cons]
    cases hf : f x with
    | error e => rfl
    | ok t =>
      simp only [ok_bind]
      rw [forIn_append f body h xs (acc ++ [t])]
      cases hm : xs.mapM f with
      | error e => rfl
      | ok ys => simp [hm]

/-! ### dictionaries -/

theorem dictGet_eq {κ ν} [BEq κ] (d : List (κ × ν)) (k : κ) :
    Gen.dictGet d k = match Gen.dictFind d k with | some v => Except.ok v | none => Except.error PyErr.KeyError := rfl

/-- the dictionary `{name: idx for idx, name in enumerate(names)}` is the model's `nameIdx` -/
theorem dictFind_enumFrom (x : String) : ∀ (names : List String) (i : Nat),
    Gen.dictFind ((List.zip (List.range' i names.length) names).map fun p => (p.2, p.1)) x = nameIdxFrom names i x
  | [], _ => rfl
  | y :: ys, i => by
    simp only [List.length_cons, List.range'_succ, List.zip_cons_cons, List.map_cons, Gen.dictFind, nameIdxFrom,
      dictFind_enumFrom x ys (i + 1), beq_iff_eq]
    cases nameIdxFrom ys (i + 1) x <;> rfl

theorem dictFind_enumDict (names : List String) (x : String) :
    Gen.dictFind (Gen.enumDict names) x = nameIdx names x := by
  unfold Gen.enumDict Gen.enumerate nameIdx
  rw [List.range_eq_range']
  exact dictFind_enumFrom x names 0

/-- `[d[x] for x in xs]` / the `append` loop over `d[x]`: `KeyError` on the first unknown name -/
theorem mapM_dictGet_enumDict (names : List String) : ∀ xs : List String,
    xs.mapM (fun x => Gen.dictGet (Gen.enumDict names) x) = namesToIdx names xs
  | [] => rfl
  | x :: xs => by
    rw [List.mapM_cons, dictGet_eq, dictFind_enumDict, namesToIdx, mapM_dictGet_enumDict names xs]
    cases nameIdx names x with
    | none => rfl
    | some i => cases namesToIdx names xs <;> rfl

/-- `if c: …ok a… else: …ok b…` -/
theorem ite_ok {ε α} (c : Prop) [Decidable c] (a b : α) :
    (if c then (Except.ok a : Except ε α) else Except.ok b) = Except.ok (if c then a else b) := by
  split <;> rfl

/-- `for x in xs: if p(x): return b` followed by the rest `K` — how `do`-notation runs a loop with an early
    `return` and no mutable variable: the loop state is `(the value returned so far, ())`, and the continuation
    looks at it. -/
theorem forIn_return_const {ε α β γ} {f : α → Option β × Unit → Except ε (ForInStep (Option β × Unit))}
    (p : α → Bool) (b : β) (K : Option β × Unit → Except ε γ) :
    ∀ {xs : List α}, (∀ x ∈ xs, ∀ s, f x s
        = if p x then Except.ok (ForInStep.done (some b, ())) else Except.ok (ForInStep.yield (none, ()))) →
      (forIn xs (none, ()) f >>= K) = if xs.any p then K (some b, ()) else K (none, ())
  | [], _ => rfl
  | x :: xs, h => by
    rw [List.forIn_cons, h x List.mem_cons_self]
    cases hp : p x
    · simp only [Bool.false_eq_true, if_false, ok_bind, List.any_cons, hp, Bool.false_or]
      exact forIn_return_const p b K (fun y hy => h y (List.mem_cons_of_mem _ hy))
    · simp [hp]

/-- `…: return False` / fall through to `return True` -/
theorem ite_ok_not {ε} (c : Bool) : (if c then (Except.ok false : Except ε Bool) else Except.ok true) = Except.ok (!c) := by
  cases c <;> rfl

/-- `…: return True` / fall through to `return False` -/
theorem ite_ok_self {ε} (c : Bool) : (if c then (Except.ok true : Except ε Bool) else Except.ok false) = Except.ok c := by
  cases c <;> rfl

end Fca.Gen

/-
  Fca.Gen.RtCtx — runtime vocabulary of the translator for `FormalContext` (lists backend): the record is the
  hand-written `Fca.Ctx` (`_data = table`, `_object_names = objNames`, `_attribute_names = attrNames`); the two
  name → index dictionaries are what the setters of `object_names` / `attribute_names` store:
  `{name: idx for idx, name in enumerate(names)}` (assumption A2 of harness/py2lean.py).  No Mathlib import.
-/
import Fca.Gen.Rt
import Fca.Model.Context
namespace Fca.Gen

/-- `self._object_names_i_map` -/
def objNameMap (K : Ctx) : List (String × Nat) := enumDict K.objNames
/-- `self._attribute_names_i_map` -/
def attrNameMap (K : Ctx) : List (String × Nat) := enumDict K.attrNames

end Fca.Gen

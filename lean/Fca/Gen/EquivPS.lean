/-
  Fca.Gen.EquivPS — the definitions generated from `fcapy/mvcontext/pattern_structure.py`
  (`Fca/Gen/GeneratedPS.lean`: `intention_i` / `extension_i` of `IntervalPS`, `SetPS`, `AttributePS`) equal the
  hand-written models of `Fca/Model/PS.lean` — WITHOUT any hypothesis: both sides live in `Except PyErr`, an
  out-of-range object index is an `IndexError` on both sides, at the same point of the evaluation.

      ivIntentionI_eq_model  : Gen.Lists.ivIntentionI P objs    = PS.pyIntentionI P.data objs
      ivExtensionI_eq_model  : Gen.Lists.ivExtensionI P d base  = PS.pyExtensionI P.data (IvDesc.ofOpt d) base
      setIntentionI_eq_model, setExtensionI_eq_model, attrIntentionI_eq_model, attrExtensionI_eq_model.

  (`IntervalPS.extension_i` is translated for a description that is `None` or a pair: the `isinstance(description,
  Number)` branch is decided by the declared type, A1 of harness/py2lean.py.)
  `harness/genside.py` re-elaborates THIS FILE against freshly generated definitions whenever the Python source changed.
-/
import Fca.Gen.GeneratedPS
import Fca.Gen.RtLemmas
import Fca.Model.PS
namespace Fca.Gen.Lists
open Fca Fca.Gen Fca.PS

set_option linter.unusedSimpArgs false
set_option linter.unusedVariables false

@[simp] theorem error_bind {ε α β} (e : ε) (f : α → Except ε β) : (Except.error e >>= f) = Except.error e := rfl

/-- closes the per-element obligations of the loops below after `simp` has evaluated the index reads -/
macro "ps_close" : tactic =>
  `(tactic| first
    | done
    | rfl
    | (split <;> rfl)
    | (split <;> simp_all <;> done))

theorem idx_eq {α} (xs : List α) (i : Nat) :
    Gen.idx xs i = match xs[i]? with | some x => Except.ok x | none => Except.error PyErr.IndexError := rfl

/-- the running min / max loop of `IntervalPS.intention_i` -/
theorem forIn_pyIntLoop (data : List Iv) (f : Nat → Int × Int → Except PyErr (ForInStep (Int × Int)))
    (hf : ∀ g s, f g s = match data[g]? with
      | none => Except.error PyErr.IndexError
      | some v => Except.ok (ForInStep.yield (if v.1 < s.1 then v.1 else s.1, if v.2 > s.2 then v.2 else s.2))) :
    ∀ (gs : List Nat) (s : Int × Int), forIn gs s f = pyIntLoop data s gs
  | [], s => rfl
  | g :: gs, (mn, mx) => by
    rw [List.forIn_cons, hf, pyIntLoop]
    cases data[g]? with
    | none => rfl
    | some v =>
      obtain ⟨vmin, vmax⟩ := v
      simp only [ok_bind]
      exact forIn_pyIntLoop data f hf gs _

-- @target ivIntentionI
theorem ivIntentionI_eq_model (P : IvPS) (objs : List Nat) :
    Fca.Gen.Lists.ivIntentionI P objs = pyIntentionI P.data objs := by
  unfold Fca.Gen.Lists.ivIntentionI pyIntentionI
  cases objs with
  | nil => rfl
  | cons g0 rest =>
    simp only [Gen.len, List.length_cons, idx_eq, List.getElem?_cons_zero, ok_bind, List.drop_succ_cons, List.drop_zero]
    have h0 : (rest.length + 1 == 0) = false := by simp
    simp only [h0, Bool.false_eq_true, if_false, Nat.add_one_ne_zero]
    cases P.data[g0]? with
    | none => rfl
    | some v0 =>
      simp only [ok_bind]
      rw [forIn_pyIntLoop P.data _ (fun g s => by
        cases P.data[g]? <;> first | rfl | simp [decide_eq_true_eq, pure_eq_ok])]
      cases pyIntLoop P.data (v0.1, v0.2) rest <;> rfl

/-- `[g for g in base if cond(self._data[g])]` with a condition that reads `self._data[g]` (`IndexError`) -/
theorem filterMapM_filterLoop {α} (data : List α) (p : α → Bool) (f : Nat → Except PyErr (Option Nat))
    (hf : ∀ g, f g = match data[g]? with
      | none => Except.error PyErr.IndexError
      | some v => Except.ok (if p v then some g else none)) :
    ∀ gs : List Nat, Gen.filterMapM f gs = filterLoop data p gs
  | [] => rfl
  | g :: gs => by
    rw [Gen.filterMapM, hf, filterLoop, filterMapM_filterLoop data p f hf gs]
    cases data[g]? with
    | none => rfl
    | some v =>
      simp only []
      cases filterLoop data p gs with
      | error e => rfl
      | ok r => cases p v <;> rfl

-- @target ivExtensionI
/-- `description` is `None` or a pair (a bare number / a sequence of another length is outside the declared type) -/
theorem ivExtensionI_eq_model (P : IvPS) (d : Option Iv) (base : Option (List Nat)) :
    Fca.Gen.Lists.ivExtensionI P d base = pyExtensionI P.data (IvDesc.ofOpt d) base := by
  unfold Fca.Gen.Lists.ivExtensionI pyExtensionI
  cases d with
  | none => rfl
  | some d =>
    obtain ⟨mn, mx⟩ := d
    simp only [IvDesc.ofOpt, ivUnpack, pure_eq_ok, Gen.range, Gen.len]
    rw [filterMapM_filterLoop P.data (fun v => decide (mn ≤ v.1) && decide (v.2 ≤ mx)) _ (fun g => by
      cases h : P.data[g]? with
      | none => simp [idx_eq, h] <;> ps_close
      | some v => by_cases h1 : mn ≤ v.1 <;> by_cases h2 : v.2 ≤ mx <;> simp [idx_eq, h, h1, h2] <;> ps_close)]
    cases base <;> simp [bind_ok_right]

/-- the union loop of `SetPS.intention_i` -/
theorem forIn_setIntLoop (data : List VSet) (f : Nat → VSet → Except PyErr (ForInStep VSet))
    (hf : ∀ g s, f g s = match data[g]? with
      | none => Except.error PyErr.IndexError
      | some row => Except.ok (ForInStep.yield (PS.setUnion s row))) :
    ∀ (gs : List Nat) (s : VSet), forIn gs s f = setIntLoop data s gs
  | [], s => rfl
  | g :: gs, s => by
    rw [List.forIn_cons, hf, setIntLoop]
    cases data[g]? with
    | none => rfl
    | some row => simp only [ok_bind]; exact forIn_setIntLoop data f hf gs _

theorem setUnion_eq (a b : VSet) : Gen.setUnion a b = PS.setUnion a b := rfl
theorem setInter_eq (a b : VSet) : Gen.setInter a b = PS.setInter a b := rfl
theorem setEq_eq (a b : VSet) : Gen.setEq a b = PS.setEq a b := rfl

-- @target setIntentionI
theorem setIntentionI_eq_model (P : SetPS) (objs : List Nat) :
    Fca.Gen.Lists.setIntentionI P objs = PS.setIntentionI P.data objs := by
  unfold Fca.Gen.Lists.setIntentionI PS.setIntentionI
  simp only [pure_eq_ok, bind_ok_right]
  rw [forIn_setIntLoop P.data _ (fun g s => by
    cases h : P.data[g]? <;> simp [idx_eq, h, setUnion_eq] <;> ps_close)]

-- @target setExtensionI
theorem setExtensionI_eq_model (P : SetPS) (d : Option VSet) (base : Option (List Nat)) :
    Fca.Gen.Lists.setExtensionI P d base = PS.setExtensionI P.data d base := by
  unfold Fca.Gen.Lists.setExtensionI PS.setExtensionI
  cases d with
  | none => rfl
  | some ds =>
    simp only [pure_eq_ok, Gen.range, Gen.len]
    rw [filterMapM_filterLoop P.data (fun row => PS.setEq (PS.setInter row ds) row) _ (fun g => by
      cases h : P.data[g]? with
      | none => simp [idx_eq, h] <;> ps_close
      | some row => simp [idx_eq, h, setInter_eq, setEq_eq] <;> ps_close)]
    cases base <;> simp [bind_ok_right]

/-- `all(self._data[g] for g in objs)`: the generator stops at the first `False` -/
theorem allM_attrAllLoop (data : List Bool) (f : Nat → Except PyErr Bool)
    (hf : ∀ g, f g = match data[g]? with | none => Except.error PyErr.IndexError | some v => Except.ok v) :
    ∀ gs : List Nat, Gen.allM f gs = attrAllLoop data gs
  | [] => rfl
  | g :: gs => by
    rw [Gen.allM, hf, attrAllLoop]
    cases data[g]? with
    | none => rfl
    | some v => cases v <;> first | rfl | exact allM_attrAllLoop data f hf gs

-- @target attrIntentionI
theorem attrIntentionI_eq_model (P : AttrPS) (objs : List Nat) :
    Fca.Gen.Lists.attrIntentionI P objs = PS.attrIntentionI P.data objs := by
  unfold Fca.Gen.Lists.attrIntentionI PS.attrIntentionI
  simp only [pure_eq_ok, bind_ok_right]
  rw [allM_attrAllLoop P.data _ (fun g => by cases h : P.data[g]? <;> simp [idx_eq, h] <;> ps_close)]
  all_goals (cases objs <;> rfl)

-- @target attrExtensionI
theorem attrExtensionI_eq_model (P : AttrPS) (d : Bool) (base : Option (List Nat)) :
    Fca.Gen.Lists.attrExtensionI P d base = PS.attrExtensionI P.data d base := by
  unfold Fca.Gen.Lists.attrExtensionI PS.attrExtensionI
  simp only [pure_eq_ok, Gen.range, Gen.len, bind_ok_right]
  rw [filterMapM_filterLoop P.data (fun v => v) _ (fun g => by
    cases h : P.data[g]? with
    | none => simp [idx_eq, h]
    | some v => cases v <;> simp [idx_eq, h])]
  cases base <;> cases d <;> rfl

end Fca.Gen.Lists

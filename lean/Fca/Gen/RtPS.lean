/-
  Fca.Gen.RtPS — the receivers of the translated pattern structures (`fcapy/mvcontext/pattern_structure.py`):
  only `_data` is read by the translated methods.  Numbers (`Num` in harness/gen_targets.json) are `Int`, as in the
  hand-written model `Fca/Model/PS.lean` (the code applies only `< <= > >= == min max` to them).  No Mathlib import.
-/
import Fca.Gen.Rt
namespace Fca.Gen

/-- an `IntervalPS`: `_data` = the list of `(left, right)` pairs `_transform_data` stored -/
structure IvPS where
  data : List (Int × Int)
/-- a `SetPS`: `_data` = the list of value sets (a set = a list up to membership) -/
structure SetPS where
  data : List (List Int)
/-- an `AttributePS`: `_data` = the list of bools -/
structure AttrPS where
  data : List Bool

end Fca.Gen

/-
  Fca.Gen.EquivOps — continuation of `Fca/Gen/Equiv.lean` for the generated `_get_row`, `_get_column`, `__and__`,
  `__or__`, `__invert__` of `BinTableLists`, whose models live in `Fca/Model/BinTableOps.lean`.
  (Separate file: `Props/C01` and the modules importing it must not see `Model/BinTableOps`.)
  `harness/genside.py` re-elaborates this file, too, against freshly generated definitions.
-/
import Fca.Gen.Equiv
import Fca.Lemmas.BinTableOps
namespace Fca.Gen.Lists
open Fca Fca.Gen

set_option linter.unusedSimpArgs false
set_option linter.unusedVariables false

-- @target getRow
/-- `_get_row` with an index list (or `None`) as column selection; slices are outside the translated subset -/
theorem getRow_eq_model (t : Table) (hwf : t.WF) (i : Nat) (cols : Option (List Nat))
    (hi : i < t.height) (hc : OptIdx.Valid cols t.width) :
    Fca.Gen.Lists.getRow t i cols = .ok (L.getRow t i (cols.map Sel.idx)) := by
  unfold Fca.Gen.Lists.getRow L.getRow
  simp only [idx_data t hi, ok_bind]
  cases cols with
  | none => rfl
  | some cs =>
    simp only [pure_eq_ok, Option.map_some, Sel.resolve]
    rw [mapM_ok (g := fun c => (t.row i).getD c false) (fun c hcm => by
      simp only [idx_row t hwf hi (hc cs rfl c hcm), ok_bind]; gen_close)]
    gen_close

-- @target getColumn
/-- `_get_column` with an index list as row selection -/
theorem getColumn_eq_model (t : Table) (hwf : t.WF) (rs : List Nat) (j : Nat)
    (hrs : ∀ i ∈ rs, i < t.height) (hj : j < t.width) :
    Fca.Gen.Lists.getColumn t rs j = .ok (L.getColumn t (.idx rs) j) := by
  unfold Fca.Gen.Lists.getColumn L.getColumn
  simp only [pure_eq_ok, Sel.resolve]
  rw [mapM_ok (g := fun r => (t.row r).getD j false) (fun r hr => by
    simp only [idx_data t (hrs r hr), idx_row t hwf (hrs r hr) hj, ok_bind]; gen_close)]
  gen_close

-- @target band
/-- `&` needs no hypothesis: the shape assertion and its `AssertionError` are part of both sides -/
theorem band_eq_model (t o : Table) : Fca.Gen.Lists.band t o = L.band t o := by
  unfold Fca.Gen.Lists.band L.band
  by_cases h : t.height = o.height ∧ t.width = o.width
  · have hs : (Gen.shape t == Gen.shape o) = true := by simp [Gen.shape, h.1, h.2]
    simp only [hs, pyAssert_true, ok_bind, pure_eq_ok, if_pos h, Gen.zip, List.map_zip_eq_zipWith]
    rfl
  · have hs : (Gen.shape t == Gen.shape o) = false := by
      simp only [Gen.shape, beq_eq_false_iff_ne, ne_eq, Prod.mk.injEq]; exact h
    simp only [hs, pyAssert_false, if_neg h]
    rfl

-- @target bor
theorem bor_eq_model (t o : Table) : Fca.Gen.Lists.bor t o = L.bor t o := by
  unfold Fca.Gen.Lists.bor L.bor
  by_cases h : t.height = o.height ∧ t.width = o.width
  · have hs : (Gen.shape t == Gen.shape o) = true := by simp [Gen.shape, h.1, h.2]
    simp only [hs, pyAssert_true, ok_bind, pure_eq_ok, if_pos h, Gen.zip, List.map_zip_eq_zipWith]
    rfl
  · have hs : (Gen.shape t == Gen.shape o) = false := by
      simp only [Gen.shape, beq_eq_false_iff_ne, ne_eq, Prod.mk.injEq]; exact h
    simp only [hs, pyAssert_false, if_neg h]
    rfl

-- @target invert
theorem invert_eq_model (t : Table) : Fca.Gen.Lists.invert t = .ok (L.invert t) := by
  unfold Fca.Gen.Lists.invert L.invert
  rfl

end Fca.Gen.Lists

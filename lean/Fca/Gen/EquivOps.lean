/-
  Fca.Gen.EquivOps — continuation of `Fca/Gen/Equiv.lean` for the generated `_get_row`, `_get_column`, `__and__`,
  `__or__`, `__invert__` of `BinTableLists`, whose models live in `Fca/Model/BinTableOps.lean`.
  (Separate file: `Props/C01` and the modules importing it must not see `Model/BinTableOps`.)
  `harness/genside.py` re-elaborates this file, too, against freshly generated definitions.
-/
import Fca.Gen.Equiv
import Fca.Lemmas.BinTableOps
namespace Fca.Gen.Lists
open Fca Fca.Gen

set_option linter.unusedSimpArgs false
set_option linter.unusedVariables false

-- @target getRow
/-- `_get_row` with an index list (or `None`) as column selection; slices are outside the translated subset -/
theorem getRow_eq_model (t : Table) (hwf : t.WF) (i : Nat) (cols : Option (List Nat))
    (hi : i < t.height) (hc : OptIdx.Valid cols t.width) :
    Fca.Gen.Lists.getRow t i cols = .ok (L.getRow t i (cols.map Sel.idx)) := by
  unfold Fca.Gen.Lists.getRow L.getRow
  simp only [idx_data t hi, ok_bind]
  cases cols with
  | none => rfl
  | some cs =>
    simp only [pure_eq_ok, Option.map_some, Sel.resolve]
    rw [mapM_ok (g := fun c => (t.row i).getD c false) (fun c hcm => by
      simp only [idx_row t hwf hi (hc cs rfl c hcm), ok_bind]; gen_close)]
    gen_close

-- @target getColumn
/-- `_get_column` with an index list as row selection -/
theorem getColumn_eq_model (t : Table) (hwf : t.WF) (rs : List Nat) (j : Nat)
    (hrs : ∀ i ∈ rs, i < t.height) (hj : j < t.width) :
    Fca.Gen.Lists.getColumn t rs j = .ok (L.getColumn t (.idx rs) j) := by
  unfold Fca.Gen.Lists.getColumn L.getColumn
  simp only [pure_eq_ok, Sel.resolve]
  rw [mapM_ok (g := fun r => (t.row r).getD j false) (fun r hr => by
    simp only [idx_data t (hrs r hr), idx_row t hwf (hrs r hr) hj, ok_bind]; gen_close)]
  gen_close

-- @target band
/-- `&` needs no hypothesis: the shape assertion and its `AssertionError` are part of both sides -/
theorem band_eq_model (t o : Table) : Fca.Gen.Lists.band t o = L.band t o := by
  unfold Fca.Gen.Lists.band L.band
  by_cases h : t.height = o.height ∧ t.width = o.width
  · have hs : (Gen.shape t == Gen.shape o) = true := by simp [Gen.shape, h.1, h.2]
    simp only [hs, pyAssert_true, ok_bind, pure_eq_ok, if_pos h, Gen.zip, List.map_zip_eq_zipWith]
    rfl
  · have hs : (Gen.shape t == Gen.shape o) = false := by
      simp only [Gen.shape, beq_eq_false_iff_ne, ne_eq, Prod.mk.injEq]; exact h
    simp only [hs, pyAssert_false, if_neg h]
    rfl

-- @target bor
theorem bor_eq_model (t o : Table) : Fca.Gen.Lists.bor t o = L.bor t o := by
  unfold Fca.Gen.Lists.bor L.bor
  by_cases h : t.height = o.height ∧ t.width = o.width
  · have hs : (Gen.shape t == Gen.shape o) = true := by simp [Gen.shape, h.1, h.2]
    simp only [hs, pyAssert_true, ok_bind, pure_eq_ok, if_pos h, Gen.zip, List.map_zip_eq_zipWith]
    rfl
  · have hs : (Gen.shape t == Gen.shape o) = false := by
      simp only [Gen.shape, beq_eq_false_iff_ne, ne_eq, Prod.mk.injEq]; exact h
    simp only [hs, pyAssert_false, if_neg h]
    rfl

-- @target invert
theorem invert_eq_model (t : Table) : Fca.Gen.Lists.invert t = .ok (L.invert t) := by
  unfold Fca.Gen.Lists.invert L.invert
  rfl

-- @target getSubtable
/-- `_get_subtable` with index lists (slices are outside the translated subset) -/
theorem getSubtable_eq_model (t : Table) (hwf : t.WF) (rs : List Nat) (cols : Option (List Nat))
    (hrs : ∀ i ∈ rs, i < t.height) (hc : OptIdx.Valid cols t.width) :
    Fca.Gen.Lists.getSubtable t rs cols = .ok (L.getSubtable t (.idx rs) (cols.map Sel.idx)) := by
  unfold Fca.Gen.Lists.getSubtable L.getSubtable
  cases cols with
  | none =>
    simp only [pure_eq_ok, Option.map_none, Sel.resolve]
    rw [mapM_ok (g := fun r => t.row r) (fun r hr => by
      simp only [idx_data t (hrs r hr), ok_bind]; gen_close)]
    gen_close
  | some cs =>
    simp only [pure_eq_ok, Option.map_some, Sel.resolve]
    rw [mapM_ok (g := fun r => cs.map fun c => (t.row r).getD c false) (fun r hr => by
      rw [mapM_ok (g := fun c => (t.row r).getD c false) (fun c hcm => by
        simp only [idx_data t (hrs r hr), idx_row t hwf (hrs r hr) (hc cs rfl c hcm), ok_bind]; gen_close)]
      gen_close)]
    gen_close

-- @target getItem
theorem getItem_eq_model (t : Table) (hwf : t.WF) (i j : Nat) (hi : i < t.height) (hj : j < t.width) :
    Fca.Gen.Lists.getItem t i j = .ok (L.getItem t i j) := by
  unfold Fca.Gen.Lists.getItem L.getItem
  simp only [idx_data t hi, idx_row t hwf hi hj, ok_bind, pure_eq_ok]
  gen_close

-- @target transpose
/-- `T` (inherited from `AbstractBinTable`): the columns, read with `_get_column(range(height), j)` -/
theorem transpose_eq_model (t : Table) (hwf : t.WF) : Fca.Gen.Lists.transpose t = .ok (L.transpose t) := by
  unfold Fca.Gen.Lists.transpose L.transpose
  rw [mapM_ok (g := fun j => L.getColumn t (.idx (List.range t.height)) j) (fun j hj => by
    rw [getColumn_eq_model t hwf _ j (fun i hi => List.mem_range.mp hi) (List.mem_range.mp hj)]
    gen_close)]
  gen_close

-- @target toList
theorem toList_eq_model (t : Table) : Fca.Gen.Lists.toList t = .ok (L.toList t) := by
  unfold Fca.Gen.Lists.toList L.toList
  rfl

-- @target tableEq
/-- `==` between two `BinTableLists` — no hypothesis -/
theorem tableEq_eq_model (t o : Table) : Fca.Gen.Lists.tableEq t o = .ok (Fca.tableEq .lists t .lists o) := by
  unfold Fca.Gen.Lists.tableEq Fca.tableEq
  by_cases hh : t.height = o.height <;> by_cases hw : t.width = o.width <;> simp [hh, hw] <;> rfl

-- @target tableLen
theorem tableLen_eq_model (t : Table) : Fca.Gen.Lists.tableLen t = .ok t.height := by
  unfold Fca.Gen.Lists.tableLen
  rfl

/-! ## the `axis` dispatch of `all / any / sum` for `axis = None` and of `sum` for `axis = 0 / 1` -/

-- @target allAxisNone
theorem allAxisNone_eq_model (t : Table) (hwf : t.WF) (rows cols : Option (List Nat))
    (hr : ∀ xs, rows = some xs → ∀ x ∈ xs, x < t.height) (hc : ∀ xs, cols = some xs → ∀ x ∈ xs, x < t.width) :
    Fca.Gen.Lists.allAxisNone t rows cols = .ok (L.allAll t rows cols) := by
  unfold Fca.Gen.Lists.allAxisNone
  rw [allAll_eq_model t hwf rows cols hr hc]; gen_close

-- @target anyAxisNone
theorem anyAxisNone_eq_model (t : Table) (hwf : t.WF) (rows cols : Option (List Nat))
    (hr : ∀ xs, rows = some xs → ∀ x ∈ xs, x < t.height) (hc : ∀ xs, cols = some xs → ∀ x ∈ xs, x < t.width) :
    Fca.Gen.Lists.anyAxisNone t rows cols = .ok (L.anyAny t rows cols) := by
  unfold Fca.Gen.Lists.anyAxisNone
  rw [anyAny_eq_model t hwf rows cols hr hc]; gen_close

-- @target sumAxisNone
theorem sumAxisNone_eq_model (t : Table) (hwf : t.WF) (rows cols : Option (List Nat))
    (hr : ∀ xs, rows = some xs → ∀ x ∈ xs, x < t.height) (hc : ∀ xs, cols = some xs → ∀ x ∈ xs, x < t.width) :
    Fca.Gen.Lists.sumAxisNone t rows cols = .ok (L.sumAll t rows cols) := by
  unfold Fca.Gen.Lists.sumAxisNone
  rw [sumAll_eq_model t hwf rows cols hr hc]; gen_close

-- @target sumAxis0
theorem sumAxis0_eq_model (t : Table) (hwf : t.WF) (rows cols : Option (List Nat))
    (hr : ∀ xs, rows = some xs → ∀ x ∈ xs, x < t.height) (hc : ∀ xs, cols = some xs → ∀ x ∈ xs, x < t.width) :
    Fca.Gen.Lists.sumAxis0 t rows cols = .ok (L.sumPerColumn t rows cols) := by
  unfold Fca.Gen.Lists.sumAxis0
  rw [sumPerColumn_eq_model t hwf rows cols hr hc]; gen_close

-- @target sumAxis1
theorem sumAxis1_eq_model (t : Table) (hwf : t.WF) (rows cols : Option (List Nat))
    (hr : ∀ xs, rows = some xs → ∀ x ∈ xs, x < t.height) (hc : ∀ xs, cols = some xs → ∀ x ∈ xs, x < t.width) :
    Fca.Gen.Lists.sumAxis1 t rows cols = .ok (L.sumPerRow t rows cols) := by
  unfold Fca.Gen.Lists.sumAxis1
  rw [sumPerRow_eq_model t hwf rows cols hr hc]; gen_close

end Fca.Gen.Lists

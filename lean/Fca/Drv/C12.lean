/-
  Driver handlers for C12: run the models of the order-construction routines and the cover-relation
  spec / chain checker on concept lists given by their extents.
-/
import Fca.Drv.Util
import Fca.Model.Construct
import Fca.Spec.Covers
open Lean
namespace Fca.Drv.C12
open Fca Fca.Drv Fca.Construct

def getNatLists (j : Json) (k : String) : Except String (List (List Nat)) := do
  (← arr (← j.getObjVal? k)).mapM natList

def getOptNat (j : Json) (k : String) : Except String (Option Nat) := do
  match j.getObjVal? k with
  | .error _ => pure none
  | .ok .null => pure none
  | .ok v => pure (some (← v.getNat?))

def jOptNat : Option Nat → Json
  | none => Json.null
  | some n => Json.num (JsonNumber.fromNat n)

def jSets (d : List (List Nat)) : Json := jNatss (d.map sortNats)

/-- the iteration orders of Python sets the driver can be asked to use -/
def ordOf : String → Except String (List Nat → List Nat)
  | "id" => pure id
  | "asc" => pure sortAsc
  | "desc" => pure fun xs => (sortAsc xs).reverse
  | "rot" => pure fun xs => xs.drop 1 ++ xs.take 1
  | s => throw s!"unknown ord {s}"

/-- batch schedules -/
def schedOf : String → Except String (Nat → Nat → List Nat → List Nat)
  | "id" => pure fun _ _ b => b
  | "rev" => pure fun _ _ b => b.reverse
  | "rot" => pure fun c k b => let r := (c + k) % (b.length + 1); b.drop r ++ b.take r
  | "alt" => pure fun c k b => if (c + k) % 2 == 0 then b else b.reverse
  | s => throw s!"unknown sched {s}"

def exceptSets : Except PyErr (List (List Nat)) → Json
  | .ok d => jSets d
  | .error e => jErr e

/-- `{"op":"C12.cc","cs":[[..]..],"sorted":b,"njobs":k,"ord":".."}` → `{"model":[[..]],"spec":[[..]]}` -/
def cc : Handler := fun j => do
  let cs ← getNatLists j "cs"
  let srt ← getBool j "sorted"
  let nj ← getNat j "njobs"
  let ord ← ordOf (← getStr j "ord")
  pure (Json.mkObj [("model", jSets (completeComparisonC cs srt nj ord)),
                    ("spec", jSets (Spec.coversDict cs))])

/-- `{"op":"C12.st","cs":..,"sorted":b,"njobs":k}` → model under the primary (ord, sched) and whether
    all the other orders / schedules give the same dictionary -/
def st : Handler := fun j => do
  let cs ← getNatLists j "cs"
  let srt ← getBool j "sorted"
  let nj ← getNat j "njobs"
  let run := fun (o s : String) => do
    let ord ← ordOf o
    let sched ← schedOf s
    pure (exceptSets (bySpanningTreeC cs srt nj ord sched))
  let main ← run "asc" "id"
  let others ← [("id", "rev"), ("desc", "rot"), ("rot", "alt"), ("desc", "rev")].mapM fun (o, s) => run o s
  let seq ← run "asc" "id"
  let agree := others.all fun r => r.compress == main.compress
  let _ := seq
  pure (Json.mkObj [("model", main), ("variants_agree", Json.bool agree),
                    ("spec", jSets (Spec.coversDict cs))])

/-- `{"op":"C12.tree","cs":..,"sorted":b,"ord":"..","implSup":[[..]],"implChains":[[..]]}` →
    the model's tree and chains, and the chain checker's verdict on the implementation's own tree/chains
    and on the model's. -/
def tree : Handler := fun j => do
  let cs ← getNatLists j "cs"
  let srt ← getBool j "sorted"
  let ord ← ordOf (← getStr j "ord")
  let implSup ← getNatLists j "implSup"
  let implChains ← getNatLists j "implChains"
  let n := cs.length
  let top := ((List.range n).find? (Spec.isTopB cs)).getD n
  let okImpl := Spec.chainsOK n (Spec.ssubAt cs) (Spec.parentOf implSup) top implChains
  match spanningTreeC cs srt ord with
  | .error e => pure (Json.mkObj [("model", jErr e), ("impl_chains_ok", Json.bool okImpl)])
  | .ok t =>
    match getChainsC cs t.sup srt with
    | .error e => pure (Json.mkObj [("model", jErr e), ("impl_chains_ok", Json.bool okImpl)])
    | .ok chains =>
      let okModel := Spec.chainsOK n (Spec.ssubAt cs) (Spec.parentOf t.sup) top chains
      -- the model's _get_chains on the implementation's tree
      let chainsOnImpl := match getChainsC cs implSup srt with
        | .ok c => jNatss c
        | .error e => jErr e
      pure (Json.mkObj [("sub", jSets t.sub), ("sup", jSets t.sup), ("chains", jNatss chains),
                        ("model_chains_ok", Json.bool okModel), ("impl_chains_ok", Json.bool okImpl),
                        ("chains_on_impl_tree", chainsOnImpl), ("top", Json.num (JsonNumber.fromNat top))])

/-- `{"op":"C12.oe","cs":..,"idToTopo":[..]}` → index translation of `order_extents_comparison` on the
    contract value of the third-party call, and the spec -/
def oe : Handler := fun j => do
  let cs ← getNatLists j "cs"
  let idToTopo ← getNatList j "idToTopo"
  let n := cs.length
  let topoList := (List.range n).map fun t => cs.getD (idToTopo.idxOf t) []
  let d := orderExtentsComparison n idToTopo (Spec.covers topoList)
  pure (Json.mkObj [("model", jSets ((List.range n).map (dictGet d))),
                    ("keys", jNats (sortNats (d.map (·.1)))),
                    ("spec", jSets (Spec.coversDict cs))])

def jRel (r : Rel) : Json :=
  Json.mkObj [("sub", jSets r.sub), ("sup", jSets r.sup), ("top", jOptNat r.top), ("bot", jOptNat r.bot)]

def specRel (cs : List (List Nat)) : Json :=
  let n := cs.length
  Json.mkObj [("sub", jSets (Spec.coversDict cs)), ("sup", jSets (Spec.upperCoversDict cs)),
              ("top", jOptNat ((List.range n).find? (Spec.isTopB cs))),
              ("bot", jOptNat ((List.range n).find? (Spec.isBottomB cs)))]

def getRel (j : Json) : Except String Rel := do
  pure ⟨← getNatLists j "sub", ← getNatLists j "sup", ← getOptNat j "top", ← getOptNat j "bot"⟩

/-- `{"op":"C12.add","cs":..,"new":[..],"sub":..,"sup":..,"top":t|null,"bot":b|null,"ord":".."}` -/
def add : Handler := fun j => do
  let cs ← getNatLists j "cs"
  let new ← getNatList j "new"
  let r ← getRel j
  let ord ← ordOf (← getStr j "ord")
  let model := match addConcept cs new r ord (addFuel cs new r) with
    | .ok r' => jRel r'
    | .error e => jErr e
  pure (Json.mkObj [("model", model), ("spec", specRel (cs ++ [new])),
                    ("in_ok", Json.bool (r.sub.map sortNats == (Spec.coversDict cs).map sortNats))])

/-- `{"op":"C12.rem","cs":..,"ci":k,"sub":..,"sup":..,"top":..,"bot":..,"ord":".."}` -/
def rem : Handler := fun j => do
  let cs ← getNatLists j "cs"
  let ci ← getNat j "ci"
  let r ← getRel j
  let ord ← ordOf (← getStr j "ord")
  let model := match removeConcept cs ci r ord with
    | .ok r' => jRel r'
    | .error e => jErr e
  pure (Json.mkObj [("model", model), ("spec", specRel (cs.eraseIdx ci))])

/-- `{"op":"C12.covers","cs":..}` → the spec alone -/
def cov : Handler := fun j => do
  let cs ← getNatLists j "cs"
  pure (Json.mkObj [("spec", specRel cs)])

def handlers : List (String × Handler) :=
  [("C12.cc", cc), ("C12.st", st), ("C12.tree", tree), ("C12.oe", oe), ("C12.add", add),
   ("C12.rem", rem), ("C12.covers", cov)]

end Fca.Drv.C12

/-
  Driver handlers for C12: run the models of the order-construction routines and the cover-relation
  spec / chain checker on concept lists given by their extents.

  Evaluation goes through the tabulated forms — `Spec.Fast.*` for the specification (`coversDictFast = coversDict`,
  `upperCoversDictFast = upperCoversDict`, `topFast` / `bottomFast` = the `find?` of `isTopB` / `isBottomB`) and
  `Construct.*F` for the models (`ltAtFast cs = ltAt cs`, so `completeComparisonF = completeComparisonC`, …) — all
  proved in `Fca/Lemmas/ConstructFast.lean` and collected in `Fca.C12.fast_oracle_exact` / `models_at_fast_lt`.  On
  lists of at most `selfCheckMax` concepts the handlers ALSO evaluate the plain definitions and report whether both
  agree (`fast_agrees`; the harness treats a disagreement as an internal error).
-/
import Fca.Drv.Util
import Fca.Model.Construct
import Fca.Model.ConstructFast
import Fca.Spec.Covers
import Fca.Spec.CoversFast
open Lean
namespace Fca.Drv.C12
open Fca Fca.Drv Fca.Construct

def getNatLists (j : Json) (k : String) : Except String (List (List Nat)) := do
  (← arr (← j.getObjVal? k)).mapM natList

def getOptNat (j : Json) (k : String) : Except String (Option Nat) := do
  match j.getObjVal? k with
  | .error _ => pure none
  | .ok .null => pure none
  | .ok v => pure (some (← v.getNat?))

def jOptNat : Option Nat → Json
  | none => Json.null
  | some n => Json.num (JsonNumber.fromNat n)

def jSets (d : List (List Nat)) : Json := jNatss (d.map sortNats)

/-- the iteration orders of Python sets the driver can be asked to use -/
def ordOf : String → Except String (List Nat → List Nat)
  | "id" => pure id
  | "asc" => pure sortAsc
  | "desc" => pure fun xs => (sortAsc xs).reverse
  | "rot" => pure fun xs => xs.drop 1 ++ xs.take 1
  | s => throw s!"unknown ord {s}"

/-- batch schedules -/
def schedOf : String → Except String (Nat → Nat → List Nat → List Nat)
  | "id" => pure fun _ _ b => b
  | "rev" => pure fun _ _ b => b.reverse
  | "rot" => pure fun c k b => let r := (c + k) % (b.length + 1); b.drop r ++ b.take r
  | "alt" => pure fun c k b => if (c + k) % 2 == 0 then b else b.reverse
  | s => throw s!"unknown sched {s}"

/-- lists up to this length are evaluated by the plain definitions as well -/
def selfCheckMax : Nat := 12

def exceptSets : Except PyErr (List (List Nat)) → Json
  | .ok d => jSets d
  | .error e => jErr e

/-- `{"op":"C12.cc","cs":[[..]..],"sorted":b,"njobs":k,"ord":".."}` → `{"model":[[..]],"spec":[[..]]}` -/
def cc : Handler := fun j => do
  let cs ← getNatLists j "cs"
  let srt ← getBool j "sorted"
  let nj ← getNat j "njobs"
  let ord ← ordOf (← getStr j "ord")
  let model := completeComparisonF cs srt nj ord
  let spec := Spec.Fast.coversDictFast cs
  let agrees := cs.length > selfCheckMax ||
    (model == completeComparisonC cs srt nj ord && spec == Spec.coversDict cs)
  pure (Json.mkObj [("model", jSets model), ("spec", jSets spec), ("fast_agrees", Json.bool agrees)])

/-- `{"op":"C12.st","cs":..,"sorted":b,"njobs":k}` → model under the primary (ord, sched) and whether
    all the other orders / schedules give the same dictionary -/
def st : Handler := fun j => do
  let cs ← getNatLists j "cs"
  let srt ← getBool j "sorted"
  let nj ← getNat j "njobs"
  let run := fun (o s : String) => do
    let ord ← ordOf o
    let sched ← schedOf s
    pure (exceptSets (bySpanningTreeF cs srt nj ord sched))
  let main ← run "asc" "id"
  -- `"novariants":true` (lists of 64+ concepts): the primary order / schedule only
  let nov := match j.getObjVal? "novariants" with
    | .ok (.bool b) => b
    | _ => false
  let others ← (if nov then [] else [("id", "rev"), ("desc", "rot"), ("rot", "alt"), ("desc", "rev")]).mapM
    fun (o, s) => run o s
  let agree := others.all fun r => r.compress == main.compress
  let spec := Spec.Fast.coversDictFast cs
  let agrees := cs.length > selfCheckMax ||
    (main.compress == (exceptSets (bySpanningTreeC cs srt nj sortAsc fun _ _ b => b)).compress && spec == Spec.coversDict cs)
  pure (Json.mkObj [("model", main), ("variants_agree", Json.bool agree), ("spec", jSets spec),
                    ("fast_agrees", Json.bool agrees)])

/-- `{"op":"C12.tree","cs":..,"sorted":b,"ord":"..","implSup":[[..]],"implChains":[[..]]}` →
    the model's tree and chains, and the chain checker's verdict on the implementation's own tree/chains
    and on the model's. -/
def tree : Handler := fun j => do
  let cs ← getNatLists j "cs"
  let srt ← getBool j "sorted"
  let ord ← ordOf (← getStr j "ord")
  let implSup ← getNatLists j "implSup"
  let implChains ← getNatLists j "implChains"
  let n := cs.length
  let top := (Spec.Fast.topFast cs).getD n
  let lt := Spec.Fast.ssubAtM (Spec.Fast.masksOf cs)
  let okImpl := Spec.chainsOK n lt (Spec.parentOf implSup) top implChains
  match spanningTreeF cs srt ord with
  | .error e => pure (Json.mkObj [("model", jErr e), ("impl_chains_ok", Json.bool okImpl)])
  | .ok t =>
    match getChainsC cs t.sup srt with
    | .error e => pure (Json.mkObj [("model", jErr e), ("impl_chains_ok", Json.bool okImpl)])
    | .ok chains =>
      let okModel := Spec.chainsOK n lt (Spec.parentOf t.sup) top chains
      -- the model's _get_chains on the implementation's tree
      let chainsOnImpl := match getChainsC cs implSup srt with
        | .ok c => jNatss c
        | .error e => jErr e
      pure (Json.mkObj [("sub", jSets t.sub), ("sup", jSets t.sup), ("chains", jNatss chains),
                        ("model_chains_ok", Json.bool okModel), ("impl_chains_ok", Json.bool okImpl),
                        ("chains_on_impl_tree", chainsOnImpl), ("top", Json.num (JsonNumber.fromNat top))])

/-- `{"op":"C12.oe","cs":..,"idToTopo":[..]}` → index translation of `order_extents_comparison` on the
    contract value of the third-party call, and the spec -/
def oe : Handler := fun j => do
  let cs ← getNatLists j "cs"
  let idToTopo ← getNatList j "idToTopo"
  let n := cs.length
  let topoList := (List.range n).map fun t => cs.getD (idToTopo.idxOf t) []
  -- `Spec.covers topoList i` for `i < n`, tabulated once (`coversDictFast_eq`; beyond `n` both are `[]`)
  let cov := Spec.Fast.coversDictFast topoList
  let d := orderExtentsComparison n idToTopo (fun i => cov.getD i [])
  pure (Json.mkObj [("model", jSets ((List.range n).map (dictGet d))),
                    ("keys", jNats (sortNats (d.map (·.1)))),
                    ("spec", jSets (Spec.Fast.coversDictFast cs))])

def jRel (r : Rel) : Json :=
  Json.mkObj [("sub", jSets r.sub), ("sup", jSets r.sup), ("top", jOptNat r.top), ("bot", jOptNat r.bot)]

def specRel (cs : List (List Nat)) : Json :=
  let n := cs.length
  Json.mkObj [("sub", jSets (Spec.coversDict cs)), ("sup", jSets (Spec.upperCoversDict cs)),
              ("top", jOptNat ((List.range n).find? (Spec.isTopB cs))),
              ("bot", jOptNat ((List.range n).find? (Spec.isBottomB cs)))]

/-- the same four values as `specRel`, computed by the bit-set oracle of `Fca/Spec/CoversFast.lean`
    (proved equal: `Fca.C12.fast_oracle_exact`) -/
def specRelFast (cs : List (List Nat)) : Json :=
  Json.mkObj [("sub", jSets (Spec.Fast.coversDictFast cs)), ("sup", jSets (Spec.Fast.upperCoversDictFast cs)),
              ("top", jOptNat (Spec.Fast.topFast cs)), ("bot", jOptNat (Spec.Fast.bottomFast cs))]

def getRel (j : Json) : Except String Rel := do
  pure ⟨← getNatLists j "sub", ← getNatLists j "sup", ← getOptNat j "top", ← getOptNat j "bot"⟩

/-- `{"op":"C12.add","cs":..,"new":[..],"sub":..,"sup":..,"top":t|null,"bot":b|null,"ord":".."}` -/
def add : Handler := fun j => do
  let cs ← getNatLists j "cs"
  let new ← getNatList j "new"
  let r ← getRel j
  let ord ← ordOf (← getStr j "ord")
  let model := match addConcept cs new r ord (addFuel cs new r) with
    | .ok r' => jRel r'
    | .error e => jErr e
  pure (Json.mkObj [("model", model), ("spec", specRelFast (cs ++ [new])),
                    ("in_ok", Json.bool (r.sub.map sortNats == (Spec.Fast.coversDictFast cs).map sortNats)),
                    ("fast_agrees", Json.bool (cs.length > selfCheckMax ||
                      (specRelFast (cs ++ [new])).compress == (specRel (cs ++ [new])).compress))])

/-- `{"op":"C12.rem","cs":..,"ci":k,"sub":..,"sup":..,"top":..,"bot":..,"ord":".."}` -/
def rem : Handler := fun j => do
  let cs ← getNatLists j "cs"
  let ci ← getNat j "ci"
  let r ← getRel j
  let ord ← ordOf (← getStr j "ord")
  let model := match removeConcept cs ci r ord with
    | .ok r' => jRel r'
    | .error e => jErr e
  pure (Json.mkObj [("model", model), ("spec", specRelFast (cs.eraseIdx ci)),
                    ("fast_agrees", Json.bool (cs.length > selfCheckMax ||
                      (specRelFast (cs.eraseIdx ci)).compress == (specRel (cs.eraseIdx ci)).compress))])

/-- `{"op":"C12.covers","cs":..}` → the spec alone -/
def cov : Handler := fun j => do
  let cs ← getNatLists j "cs"
  pure (Json.mkObj [("spec", specRel cs)])

/-- `{"op":"C12.covers_fast","cs":..}` → the spec alone, by the fast oracle (lists of 1000+ concepts) -/
def covFast : Handler := fun j => do
  let cs ← getNatLists j "cs"
  pure (Json.mkObj [("spec", specRelFast cs)])

/-- `{"op":"C12.tree_check","cs":..,"implSup":[[..]],"implChains":[[..]]}` → the chain checker `Spec.chainsOK` alone, applied
    to the implementation's own tree and chains (large lists: the model's tree is not computed); strict inclusion is
    read off the packed extents (`Spec.Fast.ssubAtM (masksOf cs) = Spec.ssubAt cs`, `ssubAtM_masksOf`) -/
def treeCheck : Handler := fun j => do
  let cs ← getNatLists j "cs"
  let implSup ← getNatLists j "implSup"
  let implChains ← getNatLists j "implChains"
  let n := cs.length
  let ms := Spec.Fast.masksOf cs
  let top := (Spec.Fast.topFast cs).getD n
  let okImpl := Spec.chainsOK n (Spec.Fast.ssubAtM ms) (Spec.parentOf implSup) top implChains
  pure (Json.mkObj [("impl_chains_ok", Json.bool okImpl), ("top", Json.num (JsonNumber.fromNat top))])

def handlers : List (String × Handler) :=
  [("C12.cc", cc), ("C12.st", st), ("C12.tree", tree), ("C12.oe", oe), ("C12.add", add),
   ("C12.rem", rem), ("C12.covers", cov), ("C12.covers_fast", covFast),
   ("C12.tree_check", treeCheck)]

end Fca.Drv.C12

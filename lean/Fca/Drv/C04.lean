/-
  Driver handlers for C04: the model's reduced labels on the implementation's concept list, and the
  checker `holdsC04` applied to the implementation's own labels and ancestor sets.
-/
import Fca.Drv.Util
import Fca.Drv.C03
import Fca.Model.LatticeQuery
import Fca.Spec.LatticeQuery
import Fca.Spec.C04Diagram
open Lean
namespace Fca.Drv.C04
open Fca Fca.Drv Fca.Drv.C03

def sortStrs (xs : List String) : List String := (xs.toArray.qsort (· < ·)).toList
def jStrSets (xs : List (List String)) : Json := Json.arr (xs.map fun s => jStrs (sortStrs s)).toArray

/-- positions of the names in the name list (`none` for an unknown name) -/
def namesToIdxs (names : List String) (xs : List String) : Option (List Nat) :=
  xs.mapM fun x => match names.idxOf x with
    | k => if k < names.length then some k else none

/-- `{"op":"C04.labels","rows":..,"w":..,"objs":[..],"attrs":[..],"cs":[[ext,int],..],
      "newExtI":[[..],..],"newIntI":[[..],..],"newExt":[[names],..],"newInt":[[names],..],"anc":[[..],..]}`
    (the `new*` / `anc` fields are the IMPLEMENTATION's answers) -/
def labels : Handler := fun j => do
  let t ← getTable j
  let objs ← getStrList j "objs"
  let attrs ← getStrList j "attrs"
  let cs ← getLat (← j.getObjVal? "cs")
  let iNewExtI ← getNatss (← j.getObjVal? "newExtI")
  let iNewIntI ← getNatss (← j.getObjVal? "newIntI")
  let iNewExt ← (← arr (← j.getObjVal? "newExt")).mapM strList
  let iNewInt ← (← arr (← j.getObjVal? "newInt")).mapM strList
  let iAnc ← getNatss (← j.getObjVal? "anc")
  let idx := List.range cs.length
  let ord : List Nat → List Nat := id
  let mNewExtI := idx.map (LQ.newExtentI cs ord)
  let mNewIntI := idx.map (LQ.newIntentI cs ord)
  let mNewExt := idx.map (LQ.newExtent objs cs ord)
  let mNewInt := idx.map (LQ.newIntent attrs cs ord)
  let mAnc := idx.map (LQ.ancestors cs)
  -- the implementation's name labels, translated back to indexes (names are pairwise distinct)
  let byName := match iNewExt.mapM (namesToIdxs objs), iNewInt.mapM (namesToIdxs attrs) with
    | some e, some i => Spec.holdsC04 t e i iAnc
    | _, _ => false
  pure (Json.mkObj [
    ("hyp", Json.bool (Spec.isConceptList t cs)),
    ("newExtI", jSets mNewExtI), ("newIntI", jSets mNewIntI),
    ("newExt", jStrSets mNewExt), ("newInt", jStrSets mNewInt), ("anc", jSets mAnc),
    ("holdsI", Json.bool (Spec.holdsC04 t iNewExtI iNewIntI iAnc)),
    ("holdsN", Json.bool byName),
    ("modelHolds", Json.bool (Spec.holdsC04 t mNewExtI mNewIntI mAnc))])

/-- `{"op":"C04.state", <the fields of C04.labels>, "ch":[[..],..], "pa":[[..],..]}`: the same, for one state of a
    lattice that has a history (possibly pruned, possibly with harness-built concepts); additionally the DRAWN
    diagram is judged: the table is read back with "below" = reachability along the implementation's
    `children_dict` (transposed) and along its `parents_dict`; the model's cover relation on the current concept list;
    `hyp` is decided without enumerating attribute subsets when the table is wide (`hypSlow` = `null` then). -/
def state : Handler := fun j => do
  let t ← getTable j
  let objs ← getStrList j "objs"
  let attrs ← getStrList j "attrs"
  let cs ← getLat (← j.getObjVal? "cs")
  let iNewExtI ← getNatss (← j.getObjVal? "newExtI")
  let iNewIntI ← getNatss (← j.getObjVal? "newIntI")
  let iNewExt ← (← arr (← j.getObjVal? "newExt")).mapM strList
  let iNewInt ← (← arr (← j.getObjVal? "newInt")).mapM strList
  let iAnc ← getNatss (← j.getObjVal? "anc")
  let iCh ← getNatss (← j.getObjVal? "ch")
  let iPa ← getNatss (← j.getObjVal? "pa")
  let idx := List.range cs.length
  let ord : List Nat → List Nat := id
  let mNewExtI := idx.map (LQ.newExtentI cs ord)
  let mNewIntI := idx.map (LQ.newIntentI cs ord)
  let mNewExt := idx.map (LQ.newExtent objs cs ord)
  let mNewInt := idx.map (LQ.newIntent attrs cs ord)
  let mAnc := idx.map (LQ.ancestors cs)
  let mCh := idx.map (LQ.children cs ord)
  let mPa := idx.map (LQ.parents cs ord)
  let byName := match iNewExt.mapM (namesToIdxs objs), iNewInt.mapM (namesToIdxs attrs) with
    | some e, some i => Spec.holdsC04 t e i iAnc
    | _, _ => false
  let fast := Spec.isConceptListFast t cs
  let slow : Option Bool := if t.width ≤ 12 then some (Spec.isConceptList t cs) else none
  pure (Json.mkObj [
    ("hyp", Json.bool (slow.getD fast)),
    ("hypFast", Json.bool fast),
    ("hypSlow", match slow with | some b => Json.bool b | none => Json.null),
    ("sub", Json.bool (Spec.isConceptSub t cs)),
    ("newExtI", jSets mNewExtI), ("newIntI", jSets mNewIntI),
    ("newExt", jStrSets mNewExt), ("newInt", jStrSets mNewInt), ("anc", jSets mAnc),
    ("ch", jSets mCh), ("pa", jSets mPa),
    ("holdsI", Json.bool (Spec.holdsC04 t iNewExtI iNewIntI iAnc)),
    ("holdsN", Json.bool byName),
    ("edgesAgree", Json.bool (Spec.relsAgree iCh iPa)),
    ("holdsCh", Json.bool (Spec.holdsC04Edges t iNewExtI iNewIntI (Spec.transposeRel iCh.length iCh))),
    ("holdsPa", Json.bool (Spec.holdsC04Edges t iNewExtI iNewIntI iPa)),
    ("modelHolds", Json.bool (Spec.holdsC04 t mNewExtI mNewIntI mAnc)),
    ("modelEdgesHold", Json.bool (Spec.holdsC04Edges t mNewExtI mNewIntI mPa && Spec.relsAgree mCh mPa))])

def handlers : List (String × Handler) := [("C04.labels", labels), ("C04.state", state)]

end Fca.Drv.C04

/-
  Driver handlers for C16: run the measure models on the lattice data the implementation produced,
  recompute stability from its definition (spec), and judge the implementation's own numbers with the
  exact bracket / exponentiated log-bound relations.
-/
import Fca.Drv.Util
import Fca.Model.Measures
import Fca.Spec.Measures
open Lean
namespace Fca.Drv.C16
open Fca Fca.Drv Fca.Measures

def jInt (i : Int) : Json := Json.num (JsonNumber.fromInt i)
def jNat (n : Nat) : Json := Json.num (JsonNumber.fromNat n)

/-- a rational is printed as `[num, den]` in lowest terms -/
def jRat (r : Rat) : Json := Json.arr #[jInt r.num, jNat r.den]

def ratOf (v : Json) : Except String Rat := do
  let a ← arr v
  match a with
  | [n, d] => do
    let n ← n.getInt?
    let d ← d.getNat?
    if d = 0 then throw "zero denominator"
    pure ((n : Rat) / (d : Rat))
  | _ => throw "rational must be [num, den]"

def ratList (v : Json) : Except String (List Rat) := do (← arr v).mapM ratOf

def optNatOf (v : Json) : Except String (Option Nat) :=
  match v with
  | .null => pure none
  | _ => do pure (some (← v.getNat?))

def jLogB (b : LogB) : Json :=
  Json.arr #[(match b.minDelta with | none => Json.null | some d => jNat d), jNat b.nBin]

def jVal : Val → Json
  | .q r => jRat r
  | .lg b => jLogB b

def jOptVal : Option Val → Json
  | none => Json.null
  | some v => jVal v

def exceptJ {α} (f : α → Json) : Except PyErr α → Json
  | .ok a => f a
  | .error e => jErr e

def getLattice (j : Json) : Except String Lattice := do
  let cs ← (← arr (← j.getObjVal? "concepts")).mapM fun c => do
    match (← arr c) with
    | [e, i] => pure ((← natList e), (← natList i))
    | _ => throw "concept must be [extent, intent]"
  let ch ← (← arr (← j.getObjVal? "children")).mapM natList
  pure ⟨cs, ch⟩

def jBool (b : Bool) : Json := Json.bool b

def jArrays (md : MArrays) : Json :=
  Json.arr (md.map fun p => Json.arr #[Json.str p.1, Json.arr (p.2.map jOptVal).toArray]).toArray

/-- run `calc_concepts_measures` for each name in turn, recording `measures` after every call -/
def runCallsJ (L : Lattice) (K : Ctx) : List String → List MDict → List Json → List Json
  | [], _, acc => acc.reverse
  | nm :: rest, st, acc =>
    match calcConceptsMeasures L st (.name nm) K with
    | .error e => (jErr e :: acc).reverse
    | .ok st' => runCallsJ L K rest st' (exceptJ jArrays (measures st') :: acc)

/-- `{"op":"C16.table","be":..,"rows":..,"w":..,"concepts":[[ext,int]..],"children":[[..]..],
      "stab":[[n,d]..],"lb":[..],"ub":[..],"logd":[d|null ..],"names":[..]}`
    The `stab/lb/ub/logd` fields are the IMPLEMENTATION's numbers (exact fractions). -/
def table : Handler := fun j => do
  let be ← getBackend j
  let t ← getTable j
  let L ← getLattice j
  let K : Ctx := ⟨be, t, [], []⟩
  let iStab ← ratList (← j.getObjVal? "stab")
  let iLb ← ratList (← j.getObjVal? "lb")
  let iUb ← ratList (← j.getObjVal? "ub")
  let iLogd ← (← arr (← j.getObjVal? "logd")).mapM optNatOf
  let names ← getStrList j "names"
  let idx := List.range L.concepts.length
  -- `"objside": true` : enumerate the concepts from the object side (wide tables: 2^|G| instead of 2^|M| subsets)
  let objside := match j.getObjVal? "objside" with
    | .ok (.bool b) => b
    | _ => false
  let latOk := if objside then Spec.isLatticeOfObjB t L else Spec.isLatticeOfB t L
  let conceptsOk := L.concepts.all fun c => Spec.isConcept t c.1 c.2
  -- spec: the definition value for every concept
  let defs := L.concepts.map fun c => Spec.stabilityDef t c.1 c.2
  -- model
  let mStab := idx.map fun i => exceptJ jRat (stability i L K)
  let mBounds := idx.map fun i => exceptJ (fun (p : Rat × Rat) => Json.arr #[jRat p.1, jRat p.2]) (stabilityBounds i L)
  let mLog := idx.map fun i => exceptJ jLogB (logStabilityLbound i L K.nAttributes)
  -- oracle on the implementation's numbers
  let implBracket := (List.zip iStab (List.zip iLb iUb)).map fun (s, lb, ub) => decide (lb ≤ s) && decide (s ≤ ub)
  let implLog := (List.zip iStab iLogd).map fun (s, d) => decide (Spec.LogLe ⟨d, t.width⟩ s)
  -- oracle on the model's numbers (a theorem says these are all true)
  let modelBracket := idx.map fun i =>
    match stability i L K, stabilityBounds i L with
    | .ok s, .ok (lb, ub) => decide (lb ≤ s) && decide (s ≤ ub)
    | _, _ => false
  let modelLog := idx.map fun i =>
    match stability i L K, logStabilityLbound i L K.nAttributes with
    | .ok s, .ok b => decide (Spec.LogLe b s)
    | _, _ => false
  let fresh : List MDict := List.replicate L.concepts.length []
  let calls := runCallsJ L K names fresh []
  pure (Json.mkObj [
    ("lattice_ok", jBool latOk), ("concepts_ok", jBool conceptsOk),
    ("def", Json.arr (defs.map jRat).toArray),
    ("stab", Json.arr mStab.toArray), ("bounds", Json.arr mBounds.toArray), ("log", Json.arr mLog.toArray),
    ("impl_bracket", jBools implBracket), ("impl_log", jBools implLog),
    ("model_bracket", jBools modelBracket), ("model_log", jBools modelLog),
    ("calls", Json.arr calls.toArray)])

/-- `{"op":"C16.powerset","s":[..]}` → the model's enumeration order (compared with `utils.powerset`) -/
def pset : Handler := fun j => do
  let s ← getNatList j "s"
  pure (Json.mkObj [("powerset", jNatss (powerset s))])

/-- `{"op":"C16.calc","concepts":..,"children":..,"rows":..,"w":..,"be":..,"name":..}` → error class of an
    unknown measure name -/
def calcName : Handler := fun j => do
  let be ← getBackend j
  let t ← getTable j
  let L ← getLattice j
  let K : Ctx := ⟨be, t, [], []⟩
  let nm ← getStr j "name"
  let fresh : List MDict := List.replicate L.concepts.length []
  match calcConceptsMeasures L fresh (.name nm) K with
  | .error e => pure (jErr e)
  | .ok st => pure (Json.mkObj [("ok", exceptJ jArrays (measures st))])

def handlers : List (String × Handler) :=
  [("C16.table", table), ("C16.powerset", pset), ("C16.calc", calcName)]

end Fca.Drv.C16

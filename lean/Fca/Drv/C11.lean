/-
  Driver handler for C11: run a whole history on the semilattice model and on the brute-force specification.

  request  {"op":"C11.run","cls":"upper|lower|lattice","order":"subset|divides","elems":[..],"use_cache":bool,
            "ops":[[name,args..],..],"observe":"none|last|all","state":bool}
           op names: those of C09.run (leq, descendants, ancestors, children, parents, tops, bottoms, join, meet,
           index, add e fill, del i, remove e, eq, fill k) plus "top", "bottom"
  reply    {"init_err":E,"spec_init_err":E|null}
         | {"init":{"elems","top","bottom","mtop","mbottom","inv","invtop","ctop","cbottom"},
            "steps":[{"out":O,"fresh":O,"ok":bool,"elems":[..],"spec_elems":[..],"top","bottom","mtop","mbottom",
                      "inv":bool,"invtop":bool,"obs_eq":bool,"obs":[O..],"ctop","cbottom","state":{..}}..]}
  `out` = the model's output; `fresh` = `Spec.answerSL` on the current elements; `ok` = `opOkSL` so far;
  `elems` = the model's element list after the step, `spec_elems` = `Spec.nextSL`; `top`/`bottom` = index of the
  greatest/least element of `elems` by brute force (`null` if none), `mtop`/`mbottom` = what the model's `top`/`bottom`
  property answers in the state after the step (run on a copy; `null` for a class without it);
  `inv` = `Fresh.invCheck` of the poset part, `invtop` = `Spec.invTopCheck`; `obs` = the Fresh answers to the full
  order observation after the step and `obs_eq` = the model answers the same (C09's observation);
  `ctop`/`cbottom` = the cached indexes (diagnostic).
-/
import Fca.Drv.Util
import Fca.Drv.C09
import Fca.Model.SemiLattice
import Fca.Spec.SemiLattice
open Lean
namespace Fca.Drv.C11
open Fca Fca.Drv Fca.Poset Fca.SemiLattice

def parseCls (s : String) : Except String Cls :=
  match s with
  | "upper" => pure .upper
  | "lower" => pure .lower
  | "lattice" => pure .lattice
  | s => throw s!"unknown class {s}"

def parseOpSL (j : Json) : Except String (OpSL Nat) := do
  let a ← arr j
  match a with
  | [nm] =>
    match (← nm.getStr?) with
    | "top" => pure (.extreme .anc)
    | "bottom" => pure (.extreme .desc)
    | _ => pure (.op (← C09.parseOp j))
  | _ => pure (.op (← C09.parseOp j))

/-- the full order observation of a structure with `n` elements (own copy: the layout is read by `harness/props/c11.py`) -/
def obsOps (n : Nat) : List (Op Nat) :=
  let r := List.range n
  (r.flatMap fun i => r.map fun j => Op.leq i j)
  ++ (r.flatMap fun i => [Op.closed .desc i, Op.closed .anc i, Op.direct .desc i, Op.direct .anc i])
  ++ [Op.extremes .anc, Op.extremes .desc, Op.bound .anc [], Op.bound .desc []]

def jOptNat : Option Nat → Json
  | none => Json.null
  | some n => Json.num (JsonNumber.fromNat n)

/-- the model's `top` / `bottom` answer in state `s` (state discarded) -/
def modelExt (leq : Nat → Nat → Bool) (s : SL Nat) (d : Dir) : Json :=
  if s.cls.has d then
    match (extremeE leq d s).2 with
    | .ok t => Json.num (JsonNumber.fromNat t)
    | .error e => jErr e
  else Json.null

def stateFields (leq : Nat → Nat → Bool) (s : SL Nat) : List (String × Json) :=
  [("elems", jNats s.p.elems),
   ("top", jOptNat (Spec.greatest leq .anc s.p.elems)), ("bottom", jOptNat (Spec.greatest leq .desc s.p.elems)),
   ("mtop", modelExt leq s .anc), ("mbottom", modelExt leq s .desc),
   ("inv", Json.bool (Fresh.invCheck leq s.p)), ("invtop", Json.bool (Spec.invTopCheck leq s)),
   ("ctop", jOptNat s.cacheTop), ("cbottom", jOptNat s.cacheBottom)]

def runH : Handler := fun j => do
  let leq ← C09.leqOf (← getStr j "order")
  let cls ← parseCls (← getStr j "cls")
  let elems ← getNatList j "elems"
  let useCache ← getBool j "use_cache"
  let ops ← (← arr (← j.getObjVal? "ops")).mapM parseOpSL
  let observe := (getStr j "observe").toOption.getD "none"
  let wantState := (getBool j "state").toOption.getD false
  let ord : List Nat → List Nat := sortSet
  -- what the specification says about the construction: accepted iff non-empty and every guarded side has a
  -- greatest / least element
  let specInit : Option PyErr :=
    if elems.isEmpty then some .ValueError
    else if (Spec.dirsOf cls).all (fun d => (Spec.greatest leq d elems).isSome) then none else some .ValueError
  match ctor leq cls elems useCache with
  | .error e =>
    pure (Json.mkObj [("init_err", Json.str e.name),
      ("spec_init_err", match specInit with | some e => Json.str e.name | none => Json.null)])
  | .ok s0 =>
    let rec go (s : SL Nat) (E : List Nat) (ok : Bool) : List (OpSL Nat) → List Json
      | [] => []
      | op :: rest =>
        let ok := ok && Spec.opOkSL cls s.p.elems s.p.useCache op
        let fr := Spec.answerSL leq cls s.p.elems op
        let E' := Spec.nextSL leq cls E op
        let r := stepSL leq ord s op
        let s' := r.1
        let fields := [("out", C09.jOut r.2), ("fresh", C09.jOut fr), ("ok", Json.bool ok),
          ("spec_elems", jNats E')] ++ stateFields leq s'
        let fields := if observe == "all" || (observe == "last" && rest.isEmpty) then
            let oo := obsOps s'.p.elems.length
            -- the observation goes through the instance (so `tops`/`bottoms` are the overridden properties)
            let mo := (runSL leq ord s' (oo.map OpSL.op)).2
            let fo := Fresh.runFresh leq s'.p.elems oo
            fields ++ [("obs_eq", Json.bool (mo == fo)), ("obs", Json.arr (fo.map C09.jOut).toArray)]
              ++ (if mo == fo then [] else [("obs_model", Json.arr (mo.map C09.jOut).toArray)])
          else fields
        let fields := if wantState then fields ++ [("state", C09.jState s'.p)] else fields
        Json.mkObj fields :: go s' E' ok rest
    let init := stateFields leq s0 ++ (if wantState then [("state", C09.jState s0.p)] else [])
    pure (Json.mkObj [("init", Json.mkObj init),
      ("spec_init_err", match specInit with | some e => Json.str e.name | none => Json.null),
      ("steps", Json.arr (go s0 elems true ops).toArray)])

def handlers : List (String × Handler) := [("C11.run", runH)]

end Fca.Drv.C11

/-
  Fca.Drv.Util — JSON plumbing shared by the per-property driver handlers.
  (Lean core's `Lean.Data.Json`; no Mathlib, so the driver links natively.)
-/
import Lean.Data.Json
import Fca.Model.Basic
open Lean
namespace Fca.Drv

abbrev Handler := Json → Except String Json

def getNat (j : Json) (k : String) : Except String Nat := do
  let v ← j.getObjVal? k
  v.getNat?

def getInt (j : Json) (k : String) : Except String Int := do
  let v ← j.getObjVal? k
  v.getInt?

def getStr (j : Json) (k : String) : Except String String := do
  let v ← j.getObjVal? k
  v.getStr?

def getBool (j : Json) (k : String) : Except String Bool := do
  let v ← j.getObjVal? k
  v.getBool?

def arr (v : Json) : Except String (List Json) := do
  let a ← v.getArr?
  pure a.toList

def natList (v : Json) : Except String (List Nat) := do
  (← arr v).mapM (·.getNat?)

def intList (v : Json) : Except String (List Int) := do
  (← arr v).mapM (·.getInt?)

def strList (v : Json) : Except String (List String) := do
  (← arr v).mapM (·.getStr?)

/-- booleans are sent as 0/1 numbers or true/false -/
def boolOf (v : Json) : Except String Bool :=
  match v with
  | .bool b => pure b
  | _ => do let n ← v.getNat?; pure (n != 0)

def boolList (v : Json) : Except String (List Bool) := do
  (← arr v).mapM boolOf

def getNatList (j : Json) (k : String) : Except String (List Nat) := do
  natList (← j.getObjVal? k)

def getStrList (j : Json) (k : String) : Except String (List String) := do
  strList (← j.getObjVal? k)

/-- `null` ↦ `none` -/
def getOptNatList (j : Json) (k : String) : Except String (Option (List Nat)) := do
  match j.getObjVal? k with
  | .error _ => pure none
  | .ok .null => pure none
  | .ok v => pure (some (← natList v))

def getOptStrList (j : Json) (k : String) : Except String (Option (List String)) := do
  match j.getObjVal? k with
  | .error _ => pure none
  | .ok .null => pure none
  | .ok v => pure (some (← strList v))

/-- a table is sent as `{"rows": [[0,1,..],..], "w": width}` -/
def getTable (j : Json) (k : String := "rows") (kw : String := "w") : Except String Table := do
  let rows ← (← arr (← j.getObjVal? k)).mapM boolList
  let w ← getNat j kw
  pure ⟨rows, w⟩

def getBackend (j : Json) (k : String := "be") : Except String Backend := do
  match (← getStr j k) with
  | "lists" | "BinTableLists" => pure .lists
  | "bitarray" | "BinTableBitarray" => pure .bitarray
  | "numpy" | "BinTableNumpy" => pure .numpy
  | s => throw s!"unknown backend {s}"

def jNats (xs : List Nat) : Json := Json.arr (xs.map fun n => Json.num (JsonNumber.fromNat n)).toArray
def jInts (xs : List Int) : Json := Json.arr (xs.map fun n => Json.num (JsonNumber.fromInt n)).toArray
def jStrs (xs : List String) : Json := Json.arr (xs.map Json.str).toArray
def jBools (xs : List Bool) : Json := Json.arr (xs.map fun b => Json.num (JsonNumber.fromNat (if b then 1 else 0))).toArray
def jNatss (xs : List (List Nat)) : Json := Json.arr (xs.map jNats).toArray
def jBoolss (xs : List (List Bool)) : Json := Json.arr (xs.map jBools).toArray
def jOptNats : Option (List Nat) → Json
  | none => Json.null
  | some xs => jNats xs

def jErr (e : PyErr) : Json := Json.mkObj [("err", Json.str e.name)]

/-- insertion sort on naturals, for canonical printing of sets -/
def sortNats (xs : List Nat) : List Nat := (xs.toArray.qsort (· < ·)).toList

end Fca.Drv

/-
  Driver handler for C10: build two poset models, run a warm-up history on each, apply a set operator, and
  answer queries on the result from the model and from the `Fresh` specification.

  request  {"op":"C10.run","order":"subset|divides","oper":"and|or|xor|sub","same_leq":bool,
            "a":{"elems":[..],"use_cache":bool,"children_dict":null|[[k,[..]],..],"ops":[[name,args..],..],
                 "caches":null|{"leq":[[a,b,0|1]..],"desc":[[k,v..]..],"anc":..,"chil":..,"par":..}},
            "b":{...},"post":[[name,args..],..],"post2":null|[..],"state":bool}
  reply    {"a":{"init_err":E}|{"outs":[O..],"inv":bool,"state":{..}}, "b":{...},
            "res":{"err":E} | {"elems":[..],"use_cache":bool,"inv":bool,"post_ok":bool,"model_eq":bool,
                               "fresh":[O..],"fresh2":[O..],("post":[O..],"post2":[O..] when model_eq is false),"state":{..}}}
  `inv` = the executable invariant check `Fresh.invCheck` (sound by `Fca.C09.inv_of_check`) on the operand after
  its warm-up / on the result; `fresh` = the `Fresh` answers to the post queries over the result's elements,
  `post` = the model's answers to them run in sequence from the result state, `model_eq` = they coincide (what
  `combine_history_independent` proves), `post_ok` = `opsOk` of the post queries (its hypothesis);
  `post2`/`fresh2`: the same for a second query list run from the (same) result state.
  Optional `"a_after":[..]`, `"b_after":[..]`: operations executed on an operand after the operator (reply fields
  `after_fresh`, `after_eq`, `after_ok` of the operand); `post` may contain mutations of the result.
  An operand may itself be the result of an operator (to any depth): `{"combine":{"oper":..,"a":{..},"b":{..}},"ops":[..]}`;
  operand histories may contain `add`/`del`/`remove` (C09 operations).
  `caches` (diagnostic mode): after the warm-up the operand's five caches are replaced by the given ones (the
  private caches of the real operand), so that the operator is applied to exactly the state the implementation
  applies it to; `inv` then certifies that state.
  Element conventions as in `Fca.Drv.C09` (bit masks under ⊆ / positive integers under divisibility).
-/
import Fca.Drv.Util
import Fca.Drv.C09
import Fca.Model.PosetAlgebra
import Fca.Spec.Poset
open Lean
namespace Fca.Drv.C10
open Fca Fca.Drv Fca.Poset

def parseOper (s : String) : Except String SetOp :=
  match s with
  | "and" => pure .and
  | "or" => pure .or
  | "xor" => pure .xor
  | "sub" => pure .sub
  | s => throw s!"unknown operator {s}"

structure Operand where
  st : St Nat
  outs : List Out

/-- the state of an operand description: `POSet(elems, leq, use_cache[, children_dict])` or - recursively -
    (`"combine":{"oper":..,"a":{..},"b":{..}}`) the result of an operator on two operand descriptions, followed by
    the description's own history `ops` (queries, `fill_up_*`, `add`/`del`/`remove`) -/
partial def mkState (leq : Nat → Nat → Bool) (ord : List Nat → List Nat) (j : Json) :
    Except String (Except PyErr (St Nat × List Out)) := do
  let ops ← (← arr (← j.getObjVal? "ops")).mapM C09.parseOp
  let s0 ← match j.getObjVal? "combine" with
    | .ok .null | .error _ => do
      let elems ← getNatList j "elems"
      let useCache ← getBool j "use_cache"
      match j.getObjVal? "children_dict" with
      | .ok .null | .error _ => pure (Except.ok (init elems useCache) : Except PyErr (St Nat))
      | .ok cdj => do
        let cd ← C09.parseCD cdj
        if useCache then pure (initCD 200000 elems cd) else pure (Except.ok (init elems false))
    | .ok cj => do
      let oper ← parseOper (← getStr cj "oper")
      let xa ← mkState leq ord (← cj.getObjVal? "a")
      let xb ← mkState leq ord (← cj.getObjVal? "b")
      match xa, xb with
      | .ok sa, .ok sb => pure (combine leq oper true sa.1 sb.1)
      | .error e, _ => pure (.error e)
      | _, .error e => pure (.error e)
  pure (s0.map fun s0 => run leq ord s0 ops)

/-- build an operand and run its warm-up history -/
def mkOperand (leq : Nat → Nat → Bool) (ord : List Nat → List Nat) (j : Json) :
    Except String (Except PyErr Operand) := do
  let s0 ← mkState leq ord j
  match s0 with
  | .error e => pure (.error e)
  | .ok r =>
    -- diagnostic mode: continue from the cache state the *implementation's* operand is in ("caches")
    match j.getObjVal? "caches" with
    | .ok .null | .error _ => pure (.ok ⟨r.1, r.2⟩)
    | .ok cj => do
      let lq ← (← arr (← cj.getObjVal? "leq")).mapM fun t => do
        match (← natList t) with
        | [x, y, v] => pure ((x, y), v != 0)
        | _ => throw "caches.leq: expected [a,b,0|1]"
      let cache := fun (k : String) => do
        (← arr (← cj.getObjVal? k)).mapM fun t => do
          match (← natList t) with
          | x :: vs => pure (x, vs)
          | [] => throw "caches: empty row"
      let st : St Nat := { r.1 with leqC := lq, descC := (← cache "desc"), ancC := (← cache "anc"),
                                     chilC := (← cache "chil"), parC := (← cache "par") }
      pure (.ok ⟨st, r.2⟩)

/-- `after`: operations executed on the operand AFTER the operator was applied (the model's operators are pure,
    so they run from the operand's state as it was): `after_fresh` = the `Fresh` answers over the operand's
    (evolving) elements, `after_eq` = the model answers the same, `after_ok` = `opsOk` -/
def jOperand (leq : Nat → Nat → Bool) (ord : List Nat → List Nat) (wantState : Bool) (after : List (Op Nat)) :
    Except PyErr Operand → Json
  | .error e => Json.mkObj [("init_err", Json.str e.name)]
  | .ok o =>
    let aft := if after.isEmpty then [] else
      let mo := (run leq ord o.st after).2
      let fo := Fresh.runFresh leq o.st.elems after
      [("after_fresh", Json.arr (fo.map C09.jOut).toArray), ("after_eq", Json.bool (mo == fo)),
       ("after_ok", Json.bool (Fresh.opsOk o.st.elems o.st.useCache after))]
    Json.mkObj ([("outs", Json.arr (o.outs.map C09.jOut).toArray),
      ("inv", Json.bool (Fresh.invCheck leq o.st))] ++ aft
      ++ (if wantState then [("state", C09.jState o.st)] else []))

def runH : Handler := fun j => do
  let leq ← C09.leqOf (← getStr j "order")
  let oper ← parseOper (← getStr j "oper")
  let same := (getBool j "same_leq").toOption.getD true
  let ord : List Nat → List Nat := sortSet
  let oa ← mkOperand leq ord (← j.getObjVal? "a")
  let ob ← mkOperand leq ord (← j.getObjVal? "b")
  let post ← (← arr (← j.getObjVal? "post")).mapM C09.parseOp
  let post2 ← match j.getObjVal? "post2" with
    | .ok .null | .error _ => pure []
    | .ok p => (← arr p).mapM C09.parseOp
  let wantState := (getBool j "state").toOption.getD false
  let optOps := fun (k : String) => match j.getObjVal? k with
    | .ok .null | .error _ => (pure [] : Except String (List (Op Nat)))
    | .ok p => do (← arr p).mapM C09.parseOp
  let aAfter ← optOps "a_after"
  let bAfter ← optOps "b_after"
  let res : Json :=
    match oa, ob with
    | .ok a, .ok b =>
      match combine leq oper same a.st b.st with
      | .error e => Json.mkObj [("err", Json.str e.name)]
      | .ok r =>
        let mo := (run leq ord r post).2
        let fo := Fresh.runFresh leq r.elems post
        let mo2 := (run leq ord r post2).2
        let fo2 := Fresh.runFresh leq r.elems post2
        Json.mkObj ([("elems", jNats r.elems), ("use_cache", Json.bool r.useCache),
          ("inv", Json.bool (Fresh.invCheck leq r)),
          ("post_ok", Json.bool (Fresh.opsOk r.elems r.useCache post && Fresh.opsOk r.elems r.useCache post2)),
          ("model_eq", Json.bool (mo == fo && mo2 == fo2)),
          ("fresh", Json.arr (fo.map C09.jOut).toArray), ("fresh2", Json.arr (fo2.map C09.jOut).toArray)]
          ++ (if mo == fo && mo2 == fo2 then [] else
              [("post", Json.arr (mo.map C09.jOut).toArray), ("post2", Json.arr (mo2.map C09.jOut).toArray)])
          ++ (if wantState then [("state", C09.jState r)] else []))
    | _, _ => Json.mkObj [("skipped", Json.str "operand construction failed")]
  pure (Json.mkObj [("a", jOperand leq ord wantState aAfter oa), ("b", jOperand leq ord wantState bAfter ob), ("res", res)])

def handlers : List (String × Handler) := [("C10.run", runH)]

end Fca.Drv.C10

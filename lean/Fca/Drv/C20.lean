/-
  Driver handlers for C20: run the decision-lattice model on tree arrays + data sent by the harness,
  and check the implementation's own generator records against the root-to-leaf paths.
  Rationals travel as `[num, den]` (exact value of the Python float).
-/
import Fca.Drv.Util
import Fca.Model.DecisionLattice
open Lean
namespace Fca.Drv.C20
open Fca Fca.Drv Fca.DL

def ratOf (v : Json) : Except String Rat := do
  match (← arr v) with
  | [a, b] => do
    let n ← a.getInt?
    let d ← b.getNat?
    if d = 0 then throw "zero denominator" else pure (mkRat n d)
  | _ => throw "rational must be [num, den]"

def ratList (v : Json) : Except String (List Rat) := do (← arr v).mapM ratOf

def getRatList (j : Json) (k : String) : Except String (List Rat) := do ratList (← j.getObjVal? k)
def getIntList (j : Json) (k : String) : Except String (List Int) := do intList (← j.getObjVal? k)

def jRat (q : Rat) : Json := Json.arr #[Json.num (JsonNumber.fromInt q.num), Json.num (JsonNumber.fromNat q.den)]
def jRats (qs : List Rat) : Json := Json.arr (qs.map jRat).toArray

def jExt : Ext → Json
  | .ninf => Json.str "-inf"
  | .pinf => Json.str "inf"
  | .fin q => jRat q

def jDescr : Descr → Json
  | .none => Json.null
  | .num x => Json.mkObj [("num", jExt x)]
  | .ivl lo hi => Json.arr #[jExt lo, jExt hi]

def jPrem (p : Prem) : Json :=
  Json.arr (p.map fun kv => Json.arr #[Json.num (JsonNumber.fromInt kv.1), jDescr kv.2]).toArray

def jOptNat : Option Nat → Json
  | none => Json.null
  | some n => Json.num (JsonNumber.fromNat n)

def jRec (r : GenRec) : Json :=
  Json.mkObj [("sup", jOptNat r.sup), ("c", Json.num (JsonNumber.fromNat r.concept)),
              ("ext", jNats (sortNats r.ext)), ("gen", jPrem r.gen)]

/-- canonical order of records: by concept index, then by `sup` (none first), then by extent -/
def recKey (r : GenRec) : List Nat :=
  [r.concept, (match r.sup with | none => 0 | some p => p + 1)] ++ sortNats r.ext

def lexLt : List Nat → List Nat → Bool
  | [], [] => false
  | [], _ => true
  | _, [] => false
  | a :: as, b :: bs => a < b || (a == b && lexLt as bs)

def sortRecs (rs : List GenRec) : List GenRec :=
  (rs.toArray.qsort (fun a b => lexLt (recKey a) (recKey b))).toList

def exceptRats : Except PyErr (List Rat) → Json
  | .ok qs => Json.mkObj [("ok", jRats qs)]
  | .error e => jErr e

def getTree (j : Json) : Except String Tree := do
  pure ⟨← getIntList j "left", ← getIntList j "right", ← getIntList j "feature",
        ← getRatList j "threshold", ← getRatList j "value"⟩

def getRows (j : Json) : Except String Rows := do
  (← arr (← j.getObjVal? "X")).mapM ratList

/-- records sent by the harness: `[{"sup": null|p, "c": k, "ext": [..]}]` -/
def getImplRecs (j : Json) : Except String (Option (List (Option Nat × Nat × List Nat))) := do
  match j.getObjVal? "recs" with
  | .error _ => pure none
  | .ok .null => pure none
  | .ok v =>
    let rs ← (← arr v).mapM fun r => do
      let sup ← match r.getObjVal? "sup" with
        | .ok .null => pure none
        | .ok x => do pure (some (← x.getNat?))
        | .error e => throw e
      let c ← getNat r "c"
      let ext ← getNatList r "ext"
      pure (sup, c, ext)
    pure (some rs)

/-- Lean checker for the implementation's own generator records: for every row `g` the set of nodes whose
    record contains `g` is exactly the set of nodes on `g`'s root-to-leaf path; every node has at most one
    record; the root's record has `sup = None`, any other node's record names the node's tree parent. -/
def checkRecs (t : Tree) (X : Rows) (recs : List (Option Nat × Nat × List Nat)) : Bool :=
  let nodesOf (g : Nat) := sortNats ((recs.filter fun r => r.2.2.contains g).map fun r => r.2.1)
  (List.range X.length).all (fun g =>
    nodesOf g == sortNats (pathFrom t (X.getD g []) t.n 0))
  && recs.all (fun r => (match r.1 with
      | none => r.2.1 == 0
      | some p => r.2.1 != 0 && parentOf t r.2.1 == some p))
  && ((recs.map fun r => r.2.1).eraseDups.length == recs.length)

/-- the successor table `"nxt": [[thr, succ], ..]` (both exact rationals): for every threshold of the tree the number
    the converter puts at the left end of the right child's interval — `np.nextafter(thr, inf)` in the default mode,
    `thr + eps` (evaluated in float64 by the harness, as the code does) in the explicit-`eps` mode -/
def getNxt (j : Json) : Except String (Rat → Rat) := do
  let ps ← (← arr (← j.getObjVal? "nxt")).mapM fun p => do
    match (← arr p) with
    | [a, b] => do pure ((← ratOf a), (← ratOf b))
    | _ => throw "nxt entry must be [thr, succ]"
  pure (nxtOfList ps)

/-- `{"op":"C20.run","left":..,"right":..,"feature":..,"threshold":[[n,d]..],"value":[[n,d]..],
      "X":[[[n,d]..]..],"m":..,"nxt":[[[n,d],[n,d]]..],"consts":[[n,d]..],"recs":null|[..],"fast":bool?,"X2":rows?}` -/
def run : Handler := fun j => do
  let t ← getTree j
  let X ← getRows j
  let m ← getNat j "m"
  let nxt ← getNxt j
  let consts ← getRatList j "consts"
  let k1 ← (match j.getObjVal? "k1" with | .ok v => ratOf v | .error _ => pure (1 : Rat))
  let k2 ← (match j.getObjVal? "k2" with | .ok v => ratOf v | .error _ => pure (1 : Rat))
  let implRecs ← getImplRecs j
  let wf := wellFormed t X m nxt
  let treePred := X.map fun x => treePredict t x
  let paths := X.map fun x => pathFrom t x t.n 0
  -- `"fast": true` (directed cases with >= 1000 nodes): only the cheap parts - `wellFormed`, the tree's own descent, and
  -- the checker on the implementation's records (which itself demands that every node has a record with a non-empty
  -- path behind it); the quadratic parts (`fitted`, the model run with `topsByLeq` and the trace) are skipped
  let fast := match j.getObjVal? "fast" with | .ok (.bool b) => b | _ => false
  let base := [("wf", Json.bool wf), ("fitted", if fast then Json.null else Json.bool (fitted t X)),
               ("tree_pred", jRats treePred), ("paths", jNatss paths),
               ("recs_ok", match implRecs with | none => Json.null | some rs => Json.bool (checkRecs t X rs))]
  if fast then pure (Json.mkObj (base ++ [("fast", Json.bool true)])) else
  match fromDecisionTree t X m nxt with
  | .error e => pure (Json.mkObj (base ++ [("conv", jErr e)]))
  | .ok L =>
    let conv := Json.mkObj [
      ("n_concepts", Json.num (JsonNumber.fromNat L.lat.concepts.length)),
      ("top", Json.num (JsonNumber.fromNat L.lat.top)),
      ("extents", jNatss (L.lat.concepts.map fun c => sortNats c.extent)),
      ("decisions", Json.arr (L.decisions.map fun kv =>
          Json.mkObj [("sup", jOptNat kv.1.sup), ("c", Json.num (JsonNumber.fromNat kv.1.concept)),
                      ("gen", jPrem kv.1.gen), ("dy", jRat kv.2)]).toArray)]
    let recs := match traceContext L.lat X m id with
      | .error e => jErr e
      | .ok rs => Json.mkObj [("ok", Json.arr ((sortRecs rs).map jRec).toArray)]
    -- the two decidable trace facts `Fca.C20.dl_predict_eq_tree` proves for well-formed input, re-evaluated here
    let hyps := match traceContext L.lat X m id with
      | .error _ => Json.null
      | .ok rs => Json.mkObj [("keys", Json.bool (traceKeysOK t L.decisions rs)),
                              ("path", Json.bool (tracePathOK t X rs))]
    -- the sum is also evaluated over the reversed record list: exact arithmetic must not see the order
    let pred := predict L X m id
    let predRev := predict L X m List.reverse
    let scaled := consts.map fun c =>
      let (self1, prod) := mul L c
      let q := truediv L c
      -- in-place histories on the results: `p *= k1; p /= k2` and `q /= k2; q *= k1` (`__itruediv__` = `__imul__(1/k)`)
      let p1 := imul prod k1
      let p2 := imul p1 (1 / k2)
      let divs : List (String × Json) := match q with
        | none => [("div", Json.mkObj [("err", Json.str "ZeroDivisionError")])]
        | some (_, quo) =>
          let q1 := imul quo (1 / k2)
          let q2 := imul q1 k1
          [("div", exceptRats (predict quo X m id)), ("div_idiv", exceptRats (predict q1 X m id)),
           ("div_idiv_imul", exceptRats (predict q2 X m id))]
      Json.mkObj ([("c", jRat c),
        ("mul", exceptRats (predict prod X m id)),
        ("mul_imul", exceptRats (predict p1 X m id)),
        ("mul_imul_idiv", exceptRats (predict p2 X m id)),
        ("pure", Json.bool (self1 == L && (match q with | none => true | some (s, _) => s == L)))] ++ divs)
    -- `"X2"`: the rows of ANOTHER context over the same columns; the lattice converted on `X` is traced on it
    -- (`Fca.C20.dl_predict_other_context`)
    let other ← match j.getObjVal? "X2" with
      | .error _ => pure Json.null
      | .ok v => do
        let X2 ← (← arr v).mapM ratList
        let tr := traceContext L.lat X2 m id
        pure (Json.mkObj [
          ("wf", Json.bool (wellFormed t X2 m nxt)),
          ("tree_pred", jRats (X2.map fun x => treePredict t x)),
          ("pred", exceptRats (predict L X2 m id)),
          ("trace_ok", match tr with
            | .error _ => Json.bool false
            | .ok rs => Json.bool (traceKeysOK t L.decisions rs && tracePathOK t X2 rs)),
          ("recs", match tr with
            | .error e => jErr e
            | .ok rs => Json.mkObj [("ok", Json.arr ((sortRecs rs).map jRec).toArray)])])
    pure (Json.mkObj (base ++ [("conv", conv), ("recs", recs), ("hyps", hyps), ("pred", exceptRats pred), ("other", other),
      ("order_indep", Json.bool ((exceptRats pred).compress == (exceptRats predRev).compress)), ("scaled", Json.arr scaled.toArray)]))

def handlers : List (String × Handler) := [("C20.run", run)]

end Fca.Drv.C20

/-
  Driver handlers for C03: run the model's lattice queries and the extent-inclusion spec on the
  concept list the implementation produced; check the implementation's chains and listing.
-/
import Fca.Drv.Util
import Fca.Model.LatticeQuery
import Fca.Spec.LatticeQuery
open Lean
namespace Fca.Drv.C03
open Fca Fca.Drv

def getLat (v : Json) : Except String LQ.Lat := do
  (← arr v).mapM fun p => do
    match (← arr p) with
    | [e, i] => pure ((← natList e), (← natList i))
    | _ => throw "concept must be [extent, intent]"

def getNatss (v : Json) : Except String (List (List Nat)) := do
  (← arr v).mapM natList

def getDict (v : Json) : Except String LC.Dict := do
  (← arr v).mapM fun p => do
    match (← arr p) with
    | [k, vs] => pure ((← k.getNat?), (← natList vs))
    | _ => throw "dict item must be [key, [values]]"

def jSet (xs : List Nat) : Json := jNats (sortNats xs)
def jSets (xs : List (List Nat)) : Json := Json.arr (xs.map jSet).toArray
def jLat (cs : LQ.Lat) : Json := Json.arr (cs.map fun c => Json.arr #[jNats c.1, jNats c.2]).toArray

def jExNat : Except PyErr Nat → Json
  | .ok k => Json.num (JsonNumber.fromNat k)
  | .error e => jErr e

def jExOptNat : Except PyErr (Option Nat) → Json
  | .ok (some k) => Json.num (JsonNumber.fromNat k)
  | .ok none => Json.null
  | .error e => jErr e

def jOptNat : Option Nat → Json
  | some k => Json.num (JsonNumber.fromNat k)
  | none => Json.null

/-- the dict's value at every key `0 … n-1` (sorted sets); `null` for a missing key -/
def jDictRange (d : LC.Dict) (n : Nat) : Json :=
  Json.arr ((List.range n).map fun i => match LC.dget d i with
    | some s => jSet s
    | none => Json.null).toArray

def rev (l : List Nat) : List Nat := l.reverse

/-- `{"op":"C03.lattice","rows":..,"w":..,"cs":[[ext,int],..],"subsets":[[i,..],..],"chains":[[..],..],
      "lindig": null | {"cs0":[[ext,int],..],"children0":[[k,[..]],..]}}` -/
def lattice : Handler := fun j => do
  let t ← getTable j
  let cs ← getLat (← j.getObjVal? "cs")
  let subsets ← getNatss (← j.getObjVal? "subsets")
  let implChains ← getNatss (← j.getObjVal? "chains")
  let n := cs.length
  let idx := List.range n
  let exts := cs.map (·.1)
  let ints := cs.map (·.2)
  let ord : List Nat → List Nat := id
  -- model
  let mDesc := idx.map (LQ.descendants cs)
  let mAnc := idx.map (LQ.ancestors cs)
  let mChildren := idx.map (LQ.children cs ord)
  let mParents := idx.map (LQ.parents cs ord)
  -- the same with the reversed iteration order (order-independence is a theorem; a difference is a harness error)
  let mChildrenR := idx.map (LQ.children cs rev)
  let mParentsR := idx.map (LQ.parents cs rev)
  let mMeets := subsets.map fun S => jExOptNat (LQ.meet cs ord S)
  let mJoins := subsets.map fun S => jExOptNat (LQ.join cs ord S)
  let mChains := match LQ.chains cs ord with
    | .ok chs => jNatss chs
    | .error e => jErr e
  -- spec
  let sMeets := subsets.map fun S =>
    jNats (Spec.indexesOf exts (Spec.interAll (List.range t.height) (S.map fun s => exts.getD s [])))
  let sJoins := subsets.map fun S =>
    jNats (Spec.indexesOf ints (Spec.interAll (List.range t.width) (S.map fun s => ints.getD s [])))
  let topExt := List.range t.height
  let botExt := Spec.extAll t (List.range t.width)
  let lind ← match j.getObjVal? "lindig" with
    | .error _ => pure Json.null
    | .ok .null => pure Json.null
    | .ok l => do
      let cs0 ← getLat (← l.getObjVal? "cs0")
      let ch0 ← getDict (← l.getObjVal? "children0")
      match LC.initFromChildren ch0 cs0.length id (LC.closedFuel cs0.length) with
      | .error e => pure (jErr e)
      | .ok c0 =>
        match LC.reindex cs0 c0 with
        | .error e => pure (jErr e)
        | .ok (sorted, m, c) =>
          let k := sorted.length
          pure (Json.mkObj [
            ("elems", jLat sorted), ("map", jNats m),
            ("children", jDictRange c.children k), ("descendants", jDictRange c.descendants k),
            ("parents", jDictRange c.parents k), ("ancestors", jDictRange c.ancestors k),
            ("top", jOptNat c.top), ("bottom", jOptNat c.bottom)])
  pure (Json.mkObj [
    ("hyp", Json.bool (Spec.isConceptList t cs)), ("hypSub", Json.bool (Spec.isConceptSub t cs)),
    ("desc", jSets mDesc), ("anc", jSets mAnc), ("children", jSets mChildren), ("parents", jSets mParents),
    ("orderIndep", Json.bool (mChildren.map sortNats == mChildrenR.map sortNats
                              && mParents.map sortNats == mParentsR.map sortNats)),
    ("top", jExNat (LQ.top cs)), ("bottom", jExNat (LQ.bottom cs)),
    ("meets", Json.arr mMeets.toArray), ("joins", Json.arr mJoins.toArray),
    ("sorted", jLat (LQ.sortConcepts cs)), ("chains", mChains),
    ("sdesc", jSets (idx.map (Spec.strictSub exts))), ("sanc", jSets (idx.map (Spec.strictSuper exts))),
    ("lower", jSets (idx.map (Spec.lowerCovers exts))), ("upper", jSets (idx.map (Spec.upperCovers exts))),
    ("stop", jNats (Spec.indexesOf exts topExt)), ("sbottom", jNats (Spec.indexesOf exts botExt)),
    ("smeets", Json.arr sMeets.toArray), ("sjoins", Json.arr sJoins.toArray),
    ("listingOk", Json.bool (Spec.listingOk t cs)),
    ("chainsOk", Json.bool (Spec.chainsOk exts topExt implChains)),
    ("modelChainsOk", Json.bool (match LQ.chains cs ord with
      | .ok chs => Spec.chainsOk exts topExt chs
      | .error _ => false)),
    ("lindig", lind)])

def handlers : List (String × Handler) := [("C03.lattice", lattice)]

end Fca.Drv.C03

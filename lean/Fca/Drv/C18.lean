/-
  Driver handlers for C18: run the model of `get_minimal_generators(_i)` and the brute-force spec.
-/
import Fca.Drv.Util
import Fca.Model.MinGen
import Fca.Spec.MinGen
import Fca.Spec.MinGenMV
open Lean
namespace Fca.Drv.C18
open Fca Fca.Drv

/-- lexicographic `<` on index lists -/
def lexLt : List Nat → List Nat → Bool
  | [], [] => false
  | [], _ :: _ => true
  | _ :: _, [] => false
  | a :: as, b :: bs => if a < b then true else if b < a then false else lexLt as bs

def sortLists (xs : List (List Nat)) : List (List Nat) := (xs.toArray.qsort lexLt).toList

def strsLt : List String → List String → Bool
  | [], [] => false
  | [], _ :: _ => true
  | _ :: _, [] => false
  | a :: as, b :: bs => if a < b then true else if b < a then false else strsLt as bs

def sortStrLists (xs : List (List String)) : List (List String) := (xs.toArray.qsort strsLt).toList

def jStrss (xs : List (List String)) : Json := Json.arr (xs.map jStrs).toArray

/-- `{"op":"C18.i","be":..,"rows":..,"w":..,"intent":[..],"bg":null|[..],"bo":null|[..]}`
    → `{"model":{"ok":[[..],..]}|{"err":..}, "nodup":bool, "spec":[[..],..]}`
    (both as sorted lists of tuples; `spec` = brute force over all attribute subsets, `bo = null` = all objects) -/
def genI : Handler := fun j => do
  let be ← getBackend j
  let t ← getTable j
  let intent ← getNatList j "intent"
  let bg ← getOptNatList j "bg"
  let bo ← getOptNatList j "bo"
  let K : Ctx := ⟨be, t, [], []⟩
  let (model, nodup) := match K.getMinimalGeneratorsI intent bg bo with
    | .ok r => (Json.mkObj [("ok", jNatss (sortLists r))], r.eraseDups.length == r.length)
    | .error e => (jErr e, true)
  let spec := jNatss (sortLists (Spec.minGensSpec t intent (bg.getD []) (bo.getD (List.range t.height))))
  pure (Json.mkObj [("model", model), ("nodup", Json.bool nodup), ("spec", spec)])

/-- `{"op":"C18.n","be":..,"rows":..,"w":..,"objs":[names],"attrs":[names],"intent":[names],
     "bg":null|[names],"bo":null|[names]}` → `{"ok":[[names],..]}` (sorted) | `{"err":..}` -/
def genN : Handler := fun j => do
  let be ← getBackend j
  let t ← getTable j
  let K : Ctx := ⟨be, t, ← getStrList j "objs", ← getStrList j "attrs"⟩
  let intent ← getStrList j "intent"
  let bg ← getOptStrList j "bg"
  let bo ← getOptStrList j "bo"
  match K.getMinimalGenerators intent bg bo with
  | .ok r => pure (Json.mkObj [("ok", jStrss (sortStrLists r))])
  | .error e => pure (jErr e)

/-- `C18.im`: the model only (no brute force over the 2^m attribute subsets) — the oracle for tables with 64+
    attributes.  `Fca.C18.min_gens_exact` proves the model's list to be exactly the set of minimum generators,
    each once, so the model is a proved-equivalent fast oracle.
    → `{"model":{"ok":[[..],..]}|{"err":..}, "nodup":bool}` -/
def genIM : Handler := fun j => do
  let be ← getBackend j
  let t ← getTable j
  let intent ← getNatList j "intent"
  let bg ← getOptNatList j "bg"
  let bo ← getOptNatList j "bo"
  let K : Ctx := ⟨be, t, [], []⟩
  let (model, nodup) := match K.getMinimalGeneratorsI intent bg bo with
    | .ok r => (Json.mkObj [("ok", jNatss (sortLists r))], r.eraseDups.length == r.length)
    | .error e => (jErr e, true)
  pure (Json.mkObj [("model", model), ("nodup", Json.bool nodup)])

def handlers : List (String × Handler) := [("C18.i", genI), ("C18.n", genN), ("C18.im", genIM)]

end Fca.Drv.C18

namespace Fca.Drv.C18
open Fca Fca.Drv Fca.MGMV

def eintOf (v : Json) : Except String EInt :=
  match v with
  | .str "inf" => pure .pinf
  | .str "-inf" => pure .ninf
  | _ => do let i ← v.getInt?; pure (.fin i)

def jEInt : EInt → Json
  | .pinf => Json.str "inf"
  | .ninf => Json.str "-inf"
  | .fin i => Json.num (JsonNumber.fromInt i)

/-- `null` | `[lo, hi]` -/
def genOf (v : Json) : Except String Gen :=
  match v with
  | .null => pure none
  | _ => do
    match (← arr v) with
    | [a, b] => pure (some (← eintOf a, ← eintOf b))
    | _ => throw "interval must be [lo, hi]"

def descrOf (v : Json) : Except String Descr := do
  match (← genOf v) with
  | none => pure .none
  | some (a, b) => pure (.iv a b)

/-- descriptions are printed as `null` | `[lo, hi]` (a single number `x` as `[x, x]`) -/
def jDescr (d : Descr) : Json :=
  match d.bounds with
  | none => Json.null
  | some (a, b) => Json.arr #[jEInt a, jEInt b]

def jDescrD (d : DescrD) : Json :=
  Json.arr (d.map fun p => Json.arr #[Json.num (JsonNumber.fromNat p.1), jDescr p.2]).toArray

def pairsOf {α} (f : Json → Except String α) (v : Json) : Except String (List (Nat × α)) := do
  (← arr v).mapM fun e => do
    match (← arr e) with
    | [a, b] => pure (← a.getNat?, ← f b)
    | _ => throw "pair expected"

def colOf (v : Json) : Except String Col := do
  (← arr v).mapM fun e => do
    match (← intList e) with
    | [a, b] => pure (a, b)
    | _ => throw "cell must be [lo, hi]"

/-- `{"op":"C18.mv","cols":[[[lo,hi],..],..],"n":n,"intent":[null|[lo,hi],..],"bg":[[ps,null|[lo,hi]],..],
     "bo":null|[..],"psit":null|[..] (optional),"fuel":k,"gens":[[[ps,descr],..],..]}`
    → `{"model":{"ok":[gens sorted]}|{"err":..}, "model_check":bool, "check":[bool,..]}`;
    `check[i]` = the i-th generator of `gens` (the implementation's output) has the same extension as the
    intent inside the base objects. -/
def genMV : Handler := fun j => do
  let cols ← (← arr (← j.getObjVal? "cols")).mapM colOf
  let n ← getNat j "n"
  let intent ← (← arr (← j.getObjVal? "intent")).mapM descrOf
  let bg ← pairsOf genOf (← j.getObjVal? "bg")
  let bo ← getOptNatList j "bo"
  let psit ← getOptNatList j "psit"
  let fuel ← getNat j "fuel"
  let gens ← (← arr (← j.getObjVal? "gens")).mapM (pairsOf descrOf)
  let bol := bo.getD (List.range n)
  let (model, mcheck) := match MGMV.getMinimalGeneratorsPs cols n intent bg bo psit fuel with
    | .ok r =>
      let js := (r.map fun d => (jDescrD d).compress).toArray.qsort (· < ·)
      (Json.mkObj [("ok", Json.arr (js.map Json.str))], r.all (sameExtension cols intent bol))
    | .error e => (jErr e, true)
  let check := gens.map (sameExtension cols intent bol)
  pure (Json.mkObj [("model", model), ("model_check", Json.bool mcheck),
    ("check", Json.arr (check.map Json.bool).toArray)])

def handlersMV : List (String × Handler) := [("C18.mv", genMV)]

end Fca.Drv.C18

/-
  Driver handlers for the code-shaped model of `caspailleur.order` / `order_extents_comparison`
  (`Fca.Model.Caspailleur`).  Bitarrays travel as lists of 0/1.
-/
import Fca.Drv.Util
import Fca.Model.Caspailleur
import Fca.Spec.Covers
open Lean
namespace Fca.Drv.Casp
open Fca Fca.Drv Fca.Casp

def getBitss (j : Json) (k : String) : Except String (List Bits) := do
  (← arr (← j.getObjVal? k)).mapM boolList

def getNatLists (j : Json) (k : String) : Except String (List (List Nat)) := do
  (← arr (← j.getObjVal? k)).mapM natList

def jNat (n : Nat) : Json := Json.num (JsonNumber.fromNat n)

/-- `{"op":"Casp.topo","els":[[0,1,..]..],"asc":b}` → `{"sorted":[[..]],"map":[..],"check":b}` | `{"err":..}` -/
def topo : Handler := fun j => do
  let els ← getBitss j "els"
  let asc ← getBool j "asc"
  match topologicalSorting els asc with
  | .error e => pure (jErr e)
  | .ok (s, m) =>
    pure (Json.mkObj [("sorted", jBoolss s), ("map", jNats m),
                      ("check", Json.bool (checkTopologicallySorted asc s)),
                      ("check_in", Json.bool (checkTopologicallySorted asc els))])

/-- `{"op":"Casp.sortIntents","intents":[[..]..]}` → `{"lattice":[[..]],"trans":[[..]]}` | `{"err":..}` -/
def sortIntents : Handler := fun j => do
  let intents ← getBitss j "intents"
  match sortIntentsInclusion intents with
  | .error e => pure (jErr e)
  | .ok (l, t) => pure (Json.mkObj [("lattice", jBoolss l), ("trans", jBoolss t)])

/-- `{"op":"Casp.inverse","order":[[..]..]}` → `{"inv":[[..]]}` | `{"err":..}` -/
def inverse : Handler := fun j => do
  let order ← getBitss j "order"
  match inverseOrder order with
  | .error e => pure (jErr e)
  | .ok inv => pure (Json.mkObj [("inv", jBoolss inv)])

/-- `{"op":"Casp.isets2bas","isets":[[..]..],"length":n}` → `{"bas":[[..]]}` | `{"err":..}` -/
def isets : Handler := fun j => do
  let is ← getNatLists j "isets"
  let len ← getNat j "length"
  match isets2bas is len with
  | .error e => pure (jErr e)
  | .ok bas => pure (Json.mkObj [("bas", jBoolss bas)])

/-- `{"op":"Casp.orderExtents","cs":[[..]..]}` → the model's dictionary as `keys` (iteration order) and
    `vals` (each sorted), the specification's lower covers, and whether the hypotheses of
    `Fca.C12.order_extents_comparison_code_exact` hold for `cs` -/
def orderExtents : Handler := fun j => do
  let cs ← getNatLists j "cs"
  let model := match orderExtentsComparisonCode cs with
    | .error e => jErr e
    | .ok d => Json.mkObj [("keys", jNats (d.map (·.1))), ("vals", jNatss (d.map fun p => sortNats p.2))]
  pure (Json.mkObj [("model", model),
                    ("spec", jNatss ((Spec.coversDict cs).map sortNats)),
                    ("distinct", Json.bool (distinctSetsB cs)),
                    ("closed", Json.bool (interClosedB cs)),
                    ("in_range", Json.bool (inRangeB cs))])

def handlers : List (String × Handler) :=
  [("Casp.topo", topo), ("Casp.sortIntents", sortIntents), ("Casp.inverse", inverse),
   ("Casp.isets2bas", isets), ("Casp.orderExtents", orderExtents)]

end Fca.Drv.Casp

/-
  Driver handlers for C02: run the miner models, the brute-force oracle `Spec.allConcepts`, and judge
  concept lists produced by the implementation with `Spec.isConcept`.
-/
import Fca.Drv.Util
import Fca.Model.Sofia
import Fca.Spec.Concepts
import Fca.Spec.Miners
open Lean
namespace Fca.Drv.C02
open Fca Fca.Drv

def jConcept (c : ConceptRec) : Json :=
  Json.arr #[jNats c.extentI, jNats c.intentI, jStrs c.extent, jStrs c.intent]

def jConcepts : Except PyErr (List ConceptRec) → Json
  | .ok cs => Json.mkObj [("ok", Json.arr (cs.map jConcept).toArray)]
  | .error e => jErr e

def jPairs (ps : List (List Nat × List Nat)) : Json :=
  Json.arr (ps.map fun p => Json.arr #[jNats p.1, jNats p.2]).toArray

/-- lexicographic order on index lists / pairs, for canonical printing of the oracle's set -/
def lexLt : List Nat → List Nat → Bool
  | [], [] => false
  | [], _ :: _ => true
  | _ :: _, [] => false
  | a :: as, b :: bs => a < b || (a == b && lexLt as bs)

def pairLe (p q : List Nat × List Nat) : Bool := !(lexLt q.1 p.1 || (q.1 == p.1 && lexLt q.2 p.2))

def canonPairs (ps : List (List Nat × List Nat)) : List (List Nat × List Nat) := ps.mergeSort pairLe

/-- iteration-order parameter from a code: rotate left by `code / 2`, reverse when `code` is odd -/
def ordOf {α} (code : Nat) (l : List α) : List α :=
  let r := l.rotateLeft (if l.length = 0 then 0 else (code / 2) % l.length)
  if code % 2 == 1 then r.reverse else r

def pickOf (code : Nat) (q : List Nat) : Nat := q.getD (if q.length = 0 then 0 else code % q.length) 0

def ordersOf (code : Nat) : Orders := ⟨ordOf code, pickOf (code / 3), ordOf code⟩

def getCtx (j : Json) : Except String Ctx := do
  let be ← getBackend j
  let t ← getTable j
  pure ⟨be, t, ← getStrList j "objs", ← getStrList j "attrs"⟩

/-- `{"op":"C02.run","be":..,"rows":..,"w":..,"objs":[..],"attrs":[..],"lmax":k,"codes":[..]}` →
    oracle + every miner model (Lindig / Sofia once per order code). -/
def run : Handler := fun j => do
  let K ← getCtx j
  let lmax ← getNat j "lmax"
  let codes ← getNatList j "codes"
  let noLindig := match j.getObjVal? "nolindig" with
    | .ok (.bool b) => b
    | _ => false
  let skipped : Json := Json.mkObj [("skipped", Json.bool true)]
  let all := canonPairs (Spec.allConceptsFast K.table)
  let o0 := ordersOf 0
  let perCode := codes.map fun c =>
    let o := ordersOf c
    Json.mkObj [
      ("code", Json.num (JsonNumber.fromNat c)),
      ("lindigT", if noLindig then skipped else
        jConcepts ((lindigAlgorithm K (some true) o.ord o.pick (lindigAlgorithmFuel K (some true))).map (·.concepts))),
      ("lindigF", if noLindig then skipped else
        jConcepts ((lindigAlgorithm K (some false) o.ord o.pick (lindigAlgorithmFuel K (some false))).map (·.concepts))),
      ("sofia", jConcepts (.ok (sofia K o.tie lmax 0))),
      ("default", if noLindig then skipped else jConcepts (fromContext K .default o)),
      ("Lindig", if noLindig then skipped else jConcepts (fromContext K (.lindig none) o)),
      ("LindigT", if noLindig then skipped else jConcepts (fromContext K (.lindig (some true)) o)),
      ("LindigF", if noLindig then skipped else jConcepts (fromContext K (.lindig (some false)) o)),
      ("Sofia", jConcepts (fromContext K (.sofia lmax 0) o))]
  pure (Json.mkObj [
    ("all", jPairs all),
    ("fba", jConcepts (cboFbarray K (cboFuel K.nObjects))),
    ("obj", jConcepts (cboObjectwise K (cboFuel K.nObjects))),
    ("cbo", jConcepts (closeByOne K (closeByOneFuel K))),
    ("CbO", jConcepts (fromContext K .cbo o0)),
    ("other", jConcepts (fromContext K .other o0)),
    ("orders", Json.arr perCode.toArray)])

/-- membership-insensitive "sorted" view of an index list -/
def sortL (xs : List Nat) : List Nat := sortIdx xs

/-- `{"op":"C02.judge","rows":..,"w":..,"lists":[[ [ext],[int] ]...]...]}` → for every list of index pairs produced by
    the implementation: every pair a concept? no pair twice? every concept present?  (oracle = `Spec`) -/
def judge : Handler := fun j => do
  let t ← getTable j
  let ls ← arr (← j.getObjVal? "lists")
  let all := Spec.allConceptsFast t
  let res ← ls.mapM fun l => do
    let ps ← (← arr l).mapM fun p => do
      let xs ← arr p
      match xs with
      | [a, b] => pure (sortL (← natList a), sortL (← natList b))
      | _ => throw "pair expected"
    let sound := ps.all fun p => Spec.isConcept t p.1 p.2
    let nodup := ps.eraseDups.length == ps.length
    let complete := all.all fun c => ps.contains c
    pure (Json.arr #[Json.bool sound, Json.bool nodup, Json.bool complete])
  pure (Json.mkObj [("n", Json.num (JsonNumber.fromNat all.length)), ("verdicts", Json.arr res.toArray)])

def handlers : List (String × Handler) := [("C02.run", run), ("C02.judge", judge)]

end Fca.Drv.C02

/-
  Driver handlers for C07: run the model's writers and readers for every serialisation format.
  Strings cross the boundary as JSON strings (`String` ↔ `List Char`); floats as their literal text.
-/
import Fca.Drv.Util
import Fca.Model.Codec
import Fca.Model.CodecJson
import Fca.Model.CodecMV
open Lean
namespace Fca.Drv.C07
open Fca Fca.Drv Fca.Codec

def s2l (s : String) : Str := s.toList
def l2s (l : Str) : String := String.ofList l
def jS (l : Str) : Json := Json.str (l2s l)
def jSs (ls : List Str) : Json := Json.arr (ls.map jS).toArray
def jI (i : Int) : Json := Json.num (JsonNumber.fromInt i)
def jIs (is : List Int) : Json := Json.arr (is.map jI).toArray
def jOptS : Option Str → Json
  | none => Json.null
  | some s => jS s
def jOptI : Option Int → Json
  | none => Json.null
  | some i => jI i

def cErr (e : CErr) : Json := Json.mkObj [("err", Json.str e.name)]

def getStrs (j : Json) (k : String) : Except String (List Str) := do
  pure ((← getStrList j k).map s2l)

def getOptStr (j : Json) (k : String) : Except String (Option Str) :=
  match j.getObjVal? k with
  | .error _ => pure none
  | .ok .null => pure none
  | .ok v => do pure (some (s2l (← v.getStr?)))

def getRows (j : Json) (k : String := "rows") : Except String (List (List Bool)) := do
  (← arr (← j.getObjVal? k)).mapM boolList

def getCxt (j : Json) : Except String Cxt := do
  pure ⟨← getStrs j "objs", ← getStrs j "attrs", ← getRows j, ← getOptStr j "descr"⟩

def cxtJ (K : Cxt) : Json :=
  Json.mkObj [("objs", jSs K.objs), ("attrs", jSs K.attrs), ("rows", jBoolss K.rows), ("descr", jOptS K.descr)]

def exCxt : Except CErr Cxt → Json
  | .ok K => cxtJ K
  | .error e => cErr e

def optImpl (j : Json) (f : Str → Json) : Except String Json :=
  match j.getObjVal? "impl_text" with
  | .error _ => pure Json.null
  | .ok .null => pure Json.null
  | .ok v => do pure (f (s2l (← v.getStr?)))

/-- `loads` then a tree reader; a text that does not parse is a `ValueError` (`JSONDecodeError`) -/
def viaLoads {α : Type} (rd : JV → Except CErr α) (text : Str) : Except CErr α :=
  match loads text with
  | none => .error valueError
  | some t => rd t

def cxtH : Handler := fun j => do
  let K ← getCxt j
  let text := writeCxt K
  let ri ← optImpl j fun t => exCxt (readCxt t)
  pure (Json.mkObj [("text", jS text), ("read", exCxt (readCxt text)), ("read_impl", ri)])

def csvH : Handler := fun j => do
  let K ← getCxt j
  let sep := s2l (← getStr j "sep")
  let wt := s2l (← getStr j "wt")
  let wf := s2l (← getStr j "wf")
  let text := writeCsv K sep wt wf
  let ri ← optImpl j fun t => exCxt (readCsvText (fileRoundTrip t) sep wt wf)
  pure (Json.mkObj [("text", jS text), ("read", exCxt (csvViaFile K sep wt wf)), ("read_impl", ri)])

def jsonH : Handler := fun j => do
  let K ← getCxt j
  let tree := writeJsonTree K
  let text := dumpsCompact tree
  let ri ← optImpl j fun t => exCxt (viaLoads readJsonTree t)
  pure (Json.mkObj [("text", jS text), ("read", exCxt (readJsonTree tree)),
    ("read_text", exCxt (viaLoads readJsonTree text)), ("read_impl", ri)])

def pandasH : Handler := fun j => do
  let K ← getCxt j
  let f := toPandas K
  pure (Json.mkObj [("frame", Json.mkObj [("values", jBoolss f.values), ("index", jSs f.index),
    ("columns", jSs f.columns)]), ("read", exCxt (fromPandas f))])

/-! many-valued values: `null` | `{"i":[lit,lit]}` | `{"s":[atom…]}` | `{"a":bool}` -/

def getAtom (v : Json) : Except String Atom :=
  match v with
  | .str s => pure (.str (s2l s))
  | _ => do pure (.int (← v.getInt?))

def getPVal (v : Json) : Except String PVal :=
  match v with
  | .null => pure .none_
  | _ =>
    match v.getObjVal? "i", v.getObjVal? "s", v.getObjVal? "a" with
    | .ok iv, _, _ => do
      match (← strList iv) with
      | [a, b] => pure (.interval (s2l a) (s2l b))
      | _ => throw "interval needs two literals"
    | _, .ok sv, _ => do pure (.set (← (← arr sv).mapM getAtom))
    | _, _, .ok av => do pure (.attr (← boolOf av))
    | _, _, _ => throw "bad pattern value"

def atomJ : Atom → Json
  | .int i => jI i
  | .str s => jS s

def pvalJ : PVal → Json
  | .none_ => Json.null
  | .interval a b => Json.mkObj [("i", jSs [a, b])]
  | .set xs => Json.mkObj [("s", Json.arr (xs.map atomJ).toArray)]
  | .attr b => Json.mkObj [("a", Json.bool b)]

def getPType (s : String) : Except String PType :=
  match PType.ofName (s2l s) with
  | .ok t => pure t
  | .error _ => throw s!"unknown pattern structure {s}"

def getMV (j : Json) : Except String MVCxt := do
  let cols ← (← arr (← j.getObjVal? "cols")).mapM fun c => do
    let data ← (← arr (← c.getObjVal? "data")).mapM getPVal
    pure (PCol.mk (s2l (← getStr c "name")) (← getPType (← getStr c "ptype")) data)
  pure ⟨← getStrs j "objs", ← getStrs j "attrs", cols, ← getOptStr j "descr"⟩

def mvJ (K : MVCxt) : Json :=
  Json.mkObj [("objs", jSs K.objs), ("attrs", jSs K.attrs), ("descr", jOptS K.descr),
    ("cols", Json.arr (K.cols.map fun c => Json.mkObj [("name", jS c.name), ("ptype", jS c.ptype.name),
      ("data", Json.arr (c.data.map pvalJ).toArray)]).toArray)]

def exMV : Except CErr MVCxt → Json
  | .ok K => mvJ K
  | .error e => cErr e

def mvH : Handler := fun j => do
  let K ← getMV j
  let ri ← optImpl j fun t => exMV (viaLoads readMVTree t)
  match writeMVTree K with
  | .error e => pure (Json.mkObj [("text", cErr e), ("read", Json.null), ("read_impl", ri)])
  | .ok tree =>
    let text := dumpsCompact tree
    let rd := readMVTree tree
    let eq : Json := match rd with
      | .ok K' => (match mvEq K' K with | .ok b => Json.bool b | .error e => cErr e)
      | .error _ => Json.null
    pure (Json.mkObj [("text", jS text), ("read", exMV rd), ("read_text", exMV (viaLoads readMVTree text)),
      ("eq", eq), ("read_impl", ri)])

/-! concepts -/

/-- measures travel as the JSON text of a dict -/
def getMeasures (j : Json) : Except String (List (Str × JV)) :=
  match j.getObjVal? "measures" with
  | .error _ => pure []
  | .ok .null => pure []
  | .ok v => do
    match loads (s2l (← v.getStr?)) with
    | some (.obj kvs) => pure kvs
    | _ => throw "measures must be the JSON text of an object"

def getOptInt (j : Json) (k : String) : Except String (Option Int) :=
  match j.getObjVal? k with
  | .error _ => pure none
  | .ok .null => pure none
  | .ok v => do pure (some (← v.getInt?))

def getInts (j : Json) (k : String) : Except String (List Int) := do
  intList (← j.getObjVal? k)

def getFC (j : Json) : Except String FConcept := do
  pure ⟨← getInts j "extent_i", ← getStrs j "extent", ← getInts j "intent_i", ← getStrs j "intent",
    ← getMeasures j, ← getOptInt j "hash", ← getBool j "mono"⟩

def fcJ (c : FConcept) : Json :=
  Json.mkObj [("extent_i", jIs c.extentI), ("extent", jSs c.extent), ("intent_i", jIs c.intentI),
    ("intent", jSs c.intent), ("measures", jS (dumps (.obj c.measures))), ("hash", jOptI c.contextHash),
    ("mono", Json.bool c.monotone)]

def exFC : Except CErr FConcept → Json
  | .ok c => fcJ c
  | .error e => cErr e

def fcH : Handler := fun j => do
  let c ← getFC (← j.getObjVal? "c")
  let oo ← getStrs j "objs_order"
  let ao ← getStrs j "attrs_order"
  let ri ← optImpl j fun t => exFC (viaLoads FConcept.fromDict t)
  match c.toDict oo ao with
  | .error e => pure (Json.mkObj [("text", cErr e), ("read", Json.null), ("read_impl", ri)])
  | .ok tree =>
    let text := dumps tree
    pure (Json.mkObj [("text", jS text), ("read", exFC (FConcept.fromDict tree)),
      ("read_text", exFC (viaLoads FConcept.fromDict text)), ("read_impl", ri)])

def getPC (j : Json) : Except String PConcept := do
  let ii ← (← arr (← j.getObjVal? "intent_i")).mapM fun p => do
    match (← arr p) with
    | [k, v] => pure ((← k.getNat?), (← getPVal v))
    | _ => throw "intent_i entries are [index, value]"
  let inn ← (← arr (← j.getObjVal? "intent")).mapM fun p => do
    match (← arr p) with
    | [k, v] => pure (s2l (← k.getStr?), (← getPVal v))
    | _ => throw "intent entries are [name, value]"
  let pt ← (← arr (← j.getObjVal? "ptypes")).mapM fun p => do
    match (← arr p) with
    | [k, v] => pure (s2l (← k.getStr?), (← getPType (← v.getStr?)))
    | _ => throw "ptypes entries are [name, class]"
  pure ⟨← getInts j "extent_i", ← getStrs j "extent", ii, inn, pt, ← getStrs j "attr_names",
    ← getMeasures j, ← getOptInt j "hash"⟩

def pcJ (c : PConcept) : Json :=
  Json.mkObj [("extent_i", jIs c.extentI), ("extent", jSs c.extent),
    ("intent_i", Json.arr (c.intentI.map fun p => Json.arr #[Json.num (JsonNumber.fromNat p.1), pvalJ p.2]).toArray),
    ("intent", Json.arr (c.intent.map fun p => Json.arr #[jS p.1, pvalJ p.2]).toArray),
    ("ptypes", Json.arr (c.ptypes.map fun p => Json.arr #[jS p.1, jS p.2.name]).toArray),
    ("attr_names", jSs c.attrNames), ("measures", jS (dumps (.obj c.measures))), ("hash", jOptI c.contextHash)]

def exPC : Except CErr PConcept → Json
  | .ok c => pcJ c
  | .error e => cErr e

def pcH : Handler := fun j => do
  let c ← getPC (← j.getObjVal? "c")
  let ri ← optImpl j fun t => exPC (viaLoads PConcept.fromDict t)
  match c.toDict with
  | .error e => pure (Json.mkObj [("text", cErr e), ("read", Json.null), ("read_impl", ri)])
  | .ok tree =>
    let text := dumps tree
    pure (Json.mkObj [("text", jS text), ("read", exPC (PConcept.fromDict tree)),
      ("read_text", exPC (viaLoads PConcept.fromDict text)), ("read_impl", ri)])

/-! lattices -/

def latJ {C : Type} (cj : C → Json) (L : Lat C) : Json :=
  Json.mkObj [("concepts", Json.arr (L.concepts.map cj).toArray),
    ("children", jNatss (L.children.map sortNats)), ("top", Json.num (JsonNumber.fromNat L.top)),
    ("bottom", Json.num (JsonNumber.fromNat L.bottom))]

def exLat : Except CErr (Lat FConcept ⊕ Lat PConcept) → Json
  | .ok (.inl L) => latJ fcJ L
  | .ok (.inr L) => latJ pcJ L
  | .error e => cErr e

def latH : Handler := fun j => do
  let kind ← getStr j "kind"
  let children ← (← arr (← j.getObjVal? "children")).mapM natList
  let top ← getNat j "top"
  let bottom ← getNat j "bottom"
  let cs ← arr (← j.getObjVal? "concepts")
  let ri ← optImpl j fun t => exLat (viaLoads readLatTree t)
  let tree ← match kind with
    | "f" => do
      let L : Lat FConcept := ⟨← cs.mapM getFC, children, top, bottom⟩
      pure (writeFLat L (← getStrs j "objs_order") (← getStrs j "attrs_order"))
    | "p" => do
      let L : Lat PConcept := ⟨← cs.mapM getPC, children, top, bottom⟩
      pure (writePLat L)
    | s => throw s!"unknown lattice kind {s}"
  match tree with
  | .error e => pure (Json.mkObj [("text", cErr e), ("read", Json.null), ("read_impl", ri)])
  | .ok tree =>
    let text := dumps tree
    pure (Json.mkObj [("text", jS text), ("read", exLat (readLatTree tree)),
      ("read_text", exLat (viaLoads readLatTree text)), ("read_impl", ri)])

def handlers : List (String × Handler) :=
  [("C07.cxt", cxtH), ("C07.csv", csvH), ("C07.json", jsonH), ("C07.pandas", pandasH), ("C07.mv", mvH),
   ("C07.fc", fcH), ("C07.pc", pcH), ("C07.lat", latH)]

end Fca.Drv.C07

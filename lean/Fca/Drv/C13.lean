/-
  Driver handlers for C13: run the pattern-structure models (both interval engines, SetPS,
  AttributePS), the specification (`Spec.PS.ext`), and the Galois checker on the
  IMPLEMENTATION's `intention_i` outputs.

  One request = one column + lists of descriptions / base lists / object lists; the reply holds the
  full cross product, so that the harness can enumerate a scope exhaustively with few requests.
-/
import Fca.Drv.Util
import Fca.Model.PS
import Fca.Spec.PS
open Lean
namespace Fca.Drv.C13
open Fca Fca.Drv Fca.PS Fca.Spec.PS

def jInt (n : Int) : Json := Json.num (JsonNumber.fromInt n)
def jNat (n : Nat) : Json := Json.num (JsonNumber.fromNat n)
def jIv (v : Iv) : Json := Json.arr #[jInt v.1, jInt v.2]
def jOptIv : Option Iv → Json
  | none => Json.null
  | some v => jIv v
def jExc {α} (f : α → Json) : Except PyErr α → Json
  | .ok a => f a
  | .error e => jErr e
def jList {α} (f : α → Json) (xs : List α) : Json := Json.arr (xs.map f).toArray
def sortInts (xs : List Int) : List Int := (xs.toArray.qsort (· < ·)).toList
/-- a Python set, printed sorted -/
def jSet (xs : List Int) : Json := jInts (sortInts xs)

def intsOf (v : Json) : Except String (List Int) := do (← arr v).mapM (·.getInt?)

def optNatListOf (v : Json) : Except String (Option (List Nat)) :=
  match v with
  | .null => pure none
  | _ => do pure (some (← natList v))

def getList {α} (j : Json) (k : String) (f : Json → Except String α) : Except String (List α) := do
  (← arr (← j.getObjVal? k)).mapM f

def optField (j : Json) (k : String) : Option Json :=
  match j.getObjVal? k with
  | .ok .null => none
  | .ok v => some v
  | .error _ => none

def inRange (xs : List Nat) (n : Nat) : Bool := xs.all (· < n)
def baseOk (b : Option (List Nat)) (n : Nat) : Bool :=
  match b with
  | none => true
  | some bs => inRange bs n

/-- `"="` when the second rendering equals the first (keeps replies small) -/
def sameOr (ref : Json) (x : Json) : Json := if ref.compress == x.compress then Json.str "=" else x

/-! ### interval structures -/

def rawIvOf (v : Json) : Except String RawIv :=
  match v with
  | .arr a => do pure (.seq (← a.toList.mapM (·.getInt?)))
  | _ => do pure (.num (← v.getInt?))

def ivDescOf (v : Json) : Except String IvDesc :=
  match v with
  | .null => pure .none
  | .arr a => do pure (.seq (← a.toList.mapM (·.getInt?)))
  | _ => do pure (.num (← v.getInt?))

def jIvBins (bins : List IvBinAttr) : Json :=
  jList (fun b => Json.arr #[jOptIv b.1, jBools b.2]) bins

def ivGrid (data : List Iv) : List (Option Iv) :=
  let pts := (data.map (·.1) ++ data.map (·.2)).eraseDups
  none :: pts.flatMap fun a => pts.map fun b => some (a, b)

/-- judge one implementation `intention_i` output: `null` when the property does not speak about the
    call (empty or out-of-range `A`), else whether the returned description is a most specific
    description of `A` on the grid of all endpoint pairs of the column plus the empty description -/
def ivGalois (data : List Iv) (A : List Nat) (out : Json) : Json :=
  if A.isEmpty || !(inRange A data.length) then Json.null
  else
    match out with
    | .arr #[a, b] =>
      match a.getInt?, b.getInt? with
      | .ok a, .ok b => Json.bool (galoisOn ivCovers data A (some (a, b)) (ivGrid data))
      | _, _ => Json.bool false
    | _ => Json.bool false

def ivEngine (ext : List Iv → IvDesc → Option (List Nat) → Except PyErr (List Nat))
    (int : List Iv → List Nat → Except PyErr (Option Iv))
    (bin : List Iv → Except PyErr (List IvBinAttr)) (nbin : List Iv → Except PyErr Nat)
    (data : List Iv) (descs : List IvDesc) (bases : List (Option (List Nat))) (objs : List (List Nat)) :
    Json :=
  Json.mkObj [
    ("ext", jList (fun d => jList (fun b => jExc jNats (ext data d b)) bases) descs),
    ("int", jList (fun A => jExc jOptIv (int data A)) objs),
    ("bin", jExc jIvBins (bin data)),
    ("nbin", jExc jNat (nbin data))]

/-- `{"op":"C13.iv","col":[x | [..]],"descs":[null | x | [..]],"bases":[null | [..]],"objs":[[..]],
     "impl_int":{"py":[..],"np":[..]}?}` -/
def iv : Handler := fun j => do
  let col ← getList j "col" rawIvOf
  let descs ← getList j "descs" ivDescOf
  let bases ← getList j "bases" optNatListOf
  let objs ← getList j "objs" natList
  match ivTransform col with
  | .error e => pure (Json.mkObj [("data", jErr e)])
  | .ok data =>
    let py := ivEngine pyExtensionI pyIntentionI pyBinExtents pyNBinAttrs data descs bases objs
    let np := ivEngine npExtensionI npIntentionI npBinExtents npNBinAttrs data descs bases objs
    let specExt := jList (fun d => jList (fun b =>
        match ivDescSem d with
        | none => Json.null
        | some s => if baseOk b data.length then jNats (ext ivCovers data s (b.getD (List.range data.length)))
                    else Json.null) bases) descs
    let binSem : Bool := match pyBinExtents data with
      | .ok bins => bins.all fun b => b.2 == data.map (ivCovers b.1)
      | .error _ => true
    let gal (k : String) : Except String Json :=
      match optField j "impl_int" with
      | none => pure Json.null
      | some ii => do
        let outs ← arr (← ii.getObjVal? k)
        pure (Json.arr ((objs.zip outs).map fun p => ivGalois data p.1 p.2).toArray)
    pure (Json.mkObj [
      ("data", jList jIv data), ("py", py), ("np", sameOr py np),
      ("spec", Json.mkObj [("ext", specExt), ("bin_sem", Json.bool binSem)]),
      ("galois", Json.mkObj [("py", ← gal "py"), ("np", ← gal "np")])])

/-! ### SetPS -/

def rawSetOf (v : Json) : Except String RawSet :=
  match v with
  | .arr a => do pure (.coll (← a.toList.mapM (·.getInt?)))
  | _ => do pure (.atom (← v.getInt?))

def setDescOf (v : Json) : Except String (Option VSet) :=
  match v with
  | .null => pure none
  | _ => do pure (some (← intsOf v))

/-- all sublists (subsets) of a list -/
def sublists : List Int → List (List Int)
  | [] => [[]]
  | x :: xs => let r := sublists xs; r ++ r.map (x :: ·)

def setGalois (data : List VSet) (A : List Nat) (out : Json) : Json :=
  if A.isEmpty || !(inRange A data.length) then Json.null
  else
    match intsOf out with
    | .ok dA =>
      let grid : List (Option VSet) := none :: (sublists (setUniq data)).map some
      Json.bool (galoisOn setCovers data A (some dA) grid)
    | .error _ => Json.bool false

/-- `{"op":"C13.set","col":[x | [..]],"descs":[null | [..]],"bases":..,"objs":..,"impl_int":[..]?}` -/
def set : Handler := fun j => do
  let col ← getList j "col" rawSetOf
  let descs ← getList j "descs" setDescOf
  let bases ← getList j "bases" optNatListOf
  let objs ← getList j "objs" natList
  let data := setTransform col
  let model := Json.mkObj [
    ("ext", jList (fun d => jList (fun b => jExc jNats (setExtensionI data d b)) bases) descs),
    ("int", jList (fun A => jExc jSet (setIntentionI data A)) objs),
    ("bin", jList (fun b => Json.arr #[jInts b.1, jBools b.2]) (setBinExtents data)),
    ("nbin", jNat (setNBinAttrs data))]
  let specExt := jList (fun d => jList (fun b =>
      if baseOk b data.length then jNats (ext setCovers data d (b.getD (List.range data.length)))
      else Json.null) bases) descs
  let binSem : Bool := (setBinExtents data).all fun b => b.2 == data.map (setCovers (some b.1))
  let gal ← match optField j "impl_int" with
    | none => pure Json.null
    | some ii => do
      let outs ← arr ii
      pure (Json.arr ((objs.zip outs).map fun p => setGalois data p.1 p.2).toArray)
  pure (Json.mkObj [
    ("data", jList jSet data), ("model", model),
    ("spec", Json.mkObj [("ext", specExt), ("bin_sem", Json.bool binSem)]),
    ("galois", gal)])

/-! ### AttributePS -/

def attrGalois (data : List Bool) (A : List Nat) (out : Json) : Json :=
  if A.isEmpty || !(inRange A data.length) then Json.null
  else
    match boolOf out with
    | .ok dA => Json.bool (galoisOn attrCovers data A dA [false, true])
    | .error _ => Json.bool false

/-- `{"op":"C13.attr","col":[ints],"descs":[0|1],"bases":..,"objs":..,"impl_int":[..]?}` -/
def attr : Handler := fun j => do
  let col ← getList j "col" (·.getInt?)
  let descs ← getList j "descs" boolOf
  let bases ← getList j "bases" optNatListOf
  let objs ← getList j "objs" natList
  let data := attrTransform col
  let jB (b : Bool) : Json := jNat (if b then 1 else 0)
  let model := Json.mkObj [
    ("ext", jList (fun d => jList (fun b => jExc jNats (attrExtensionI data d b)) bases) descs),
    ("int", jList (fun A => jExc jB (attrIntentionI data A)) objs),
    ("bin", jList (fun b => Json.arr #[jB b.1, jBools b.2]) (attrBinExtents data)),
    ("nbin", jNat (attrNBinAttrs data))]
  let specExt := jList (fun d => jList (fun b =>
      if baseOk b data.length then jNats (ext attrCovers data d (b.getD (List.range data.length)))
      else Json.null) bases) descs
  let gal ← match optField j "impl_int" with
    | none => pure Json.null
    | some ii => do
      let outs ← arr ii
      pure (Json.arr ((objs.zip outs).map fun p => attrGalois data p.1 p.2).toArray)
  pure (Json.mkObj [
    ("data", jBools data), ("model", model),
    ("spec", Json.mkObj [("ext", specExt)]),
    ("galois", gal)])

def handlers : List (String × Handler) := [("C13.iv", iv), ("C13.set", set), ("C13.attr", attr)]

end Fca.Drv.C13

/-
  Driver handlers for C06: run the duality models (`ctxT`, `ctxNot`, `ctxGet`, `latT`,
  `fromContextMonotone`) and the specification oracles (`transpose`, `complement`, `permute`,
  `allConcepts`, `monoConcepts`, `lowerCovers`, `monoLowerCovers`) on the implementation's outputs.
-/
import Fca.Drv.Util
import Fca.Model.Duality
import Fca.Model.DualityStore
import Fca.Spec.Duality
import Fca.Spec.DualityBig
open Lean
namespace Fca.Drv.C06
open Fca Fca.Drv Fca.Dual Fca.Spec

def beName : Backend → String
  | .lists => "lists" | .bitarray => "bitarray" | .numpy => "numpy"

def jTable (t : Table) : List (String × Json) :=
  [("rows", jBoolss t.data), ("h", Json.num (JsonNumber.fromNat t.height)),
   ("w", Json.num (JsonNumber.fromNat t.width))]

def jCtx (K : Ctx) : Json :=
  Json.mkObj (jTable K.table ++ [("objs", jStrs K.objNames), ("attrs", jStrs K.attrNames),
    ("be", Json.str (beName K.backend))])

def jExceptCtx : Except PyErr Ctx → Json
  | .ok K => Json.mkObj [("ok", jCtx K)]
  | .error e => jErr e

def jExceptBool : Except PyErr Bool → Json
  | .ok b => Json.bool b
  | .error e => jErr e

def getCtx (j : Json) : Except String Ctx := do
  pure ⟨← getBackend j, ← getTable j, ← getStrList j "objs", ← getStrList j "attrs"⟩

/-- `{"op":"C06.ctx","be","rows","w","objs","attrs","kind":"T|TT|not|notnot|get","pi","sigma"}`
    → `{"res": {"ok": ctx} | {"err"}, "eq": bool | {"err"} | null, "spec": rows, "spec_w": n}` -/
def ctxOp : Handler := fun j => do
  let K ← getCtx j
  let kind ← getStr j "kind"
  let t := K.table
  match kind with
  | "T" =>
    let s := transpose t
    pure (Json.mkObj [("res", jExceptCtx (ctxT K)), ("eq", Json.null),
      ("spec", jBoolss s.data), ("spec_w", Json.num (JsonNumber.fromNat s.width))])
  | "TT" =>
    let r := ctxT K >>= ctxT
    let e : Json := match r with
      | .ok K2 => jExceptBool (ctxEq K2 K)
      | .error e => jErr e
    pure (Json.mkObj [("res", jExceptCtx r), ("eq", e),
      ("spec", jBoolss t.data), ("spec_w", Json.num (JsonNumber.fromNat t.width))])
  | "not" =>
    let s := complement t
    pure (Json.mkObj [("res", jExceptCtx (ctxNot K)), ("eq", Json.null),
      ("spec", jBoolss s.data), ("spec_w", Json.num (JsonNumber.fromNat s.width))])
  | "notnot" =>
    let r := ctxNot K >>= ctxNot
    let e : Json := match r with
      | .ok K2 => jExceptBool (ctxEq K2 K)
      | .error e => jErr e
    pure (Json.mkObj [("res", jExceptCtx r), ("eq", e),
      ("spec", jBoolss t.data), ("spec_w", Json.num (JsonNumber.fromNat t.width))])
  | "get" =>
    let pi ← getNatList j "pi"
    let sigma ← getNatList j "sigma"
    let s := permute t pi sigma
    pure (Json.mkObj [("res", jExceptCtx (ctxGet K pi sigma)), ("eq", Json.null),
      ("spec", jBoolss s.data), ("spec_w", Json.num (JsonNumber.fromNat s.width))])
  | s => throw s!"unknown kind {s}"

def natss (v : Json) : Except String (List (List Nat)) := do
  (← arr v).mapM natList

def getNatss (j : Json) (k : String) : Except String (List (List Nat)) := do
  natss (← j.getObjVal? k)

def defaultNames (n : Nat) : List String := (List.range n).map toString

/-- `{"op":"C06.deriv","be","rows","w","selsObj":[[..]],"selsAttr":[[..]]}` →
    for every object selection `A`: `(K.T).extension_i(A)` (model), `K.intention_i(A)` (model),
    `A'` (spec); dually for attribute selections. -/
def derivOp : Handler := fun j => do
  let be ← getBackend j
  let t ← getTable j
  let K : Ctx := ⟨be, t, defaultNames t.height, defaultNames t.width⟩
  let so ← getNatss j "selsObj"
  let sa ← getNatss j "selsAttr"
  match ctxT K with
  | .error e => pure (jErr e)
  | .ok KT =>
    pure (Json.mkObj [
      ("t_ext", jNatss (so.map fun A => KT.extensionI A none)),
      ("k_int", jNatss (so.map fun A => K.intentionI A none)),
      ("spec_int", jNatss (so.map fun A => intAll t A)),
      ("t_int", jNatss (sa.map fun B => KT.intentionI B none)),
      ("k_ext", jNatss (sa.map fun B => K.extensionI B none)),
      ("spec_ext", jNatss (sa.map fun B => extAll t B))])

/-- a concept list sent as `[[extent_i, intent_i], ..]` -/
def pairsOf (v : Json) : Except String (List (List Nat × List Nat)) := do
  (← arr v).mapM fun p => do
    match (← arr p) with
    | [a, b] => pure (← natList a, ← natList b)
    | _ => throw "pair expected"

def jPairs (ps : List (List Nat × List Nat)) : Json :=
  Json.arr (ps.map fun p => Json.arr #[jNats p.1, jNats p.2]).toArray

def optInt (j : Json) (k : String) : Except String (Option Int) :=
  match j.getObjVal? k with
  | .error _ => pure none
  | .ok .null => pure none
  | .ok v => do pure (some (← v.getInt?))

def jOptInt : Option Int → Json
  | none => Json.null
  | some i => Json.num (JsonNumber.fromInt i)

/-- a full concept `{"ei","e","ii","i","h","m"}` -/
def conceptOf (v : Json) : Except String Concept := do
  pure ⟨← getNatList v "ei", ← getStrList v "e", ← getNatList v "ii", ← getStrList v "i",
    ← optInt v "h", ← getBool v "m"⟩

def jConcept (c : Concept) : Json :=
  Json.mkObj [("ei", jNats c.extI), ("e", jStrs c.ext), ("ii", jNats c.intI), ("i", jStrs c.int),
    ("h", jOptInt c.hash), ("m", Json.bool c.mono)]

/-- a lattice `{"concepts":[concept..], "children":[[..]..], "mono":bool}`; `children[i]` is the
    value of `children_dict[i]` (keys are `0..len-1` in the implementation) -/
def latOf (v : Json) : Except String Lat := do
  let cs ← (← arr (← v.getObjVal? "concepts")).mapM conceptOf
  let ch ← getNatss v "children"
  let mono := match v.getObjVal? "mono" with
    | .ok (.bool b) => b
    | _ => false
  pure ⟨cs, (List.range ch.length).map fun i => (i, ch.getD i []), mono⟩

def childrenList (L : Lat) : List (List Nat) :=
  (List.range L.concepts.length).map fun i => sortNats (dget L.children i)

def jLat (L : Lat) : Json :=
  Json.mkObj [("concepts", Json.arr (L.concepts.map jConcept).toArray),
    ("children", jNatss (childrenList L)), ("mono", Json.bool L.mono)]

def nodupPairs (ps : List (List Nat × List Nat)) : Bool := ps.eraseDups.length == ps.length

/-- all formal concepts of `t`: the brute-force enumeration over the attribute subsets while it is affordable
    (`2^width`, width ≤ 10) or the table is not wider than tall; beyond that (class H8 shapes: 3 x 65, 2 x 129 …)
    the enumeration over the smaller side, proved to list the same set (`Fca.C06.big_oracles_sound`). -/
def conceptsOracle (t : Table) : List (List Nat × List Nat) :=
  if t.width ≤ t.height || t.width ≤ 10 then allConcepts t else allConceptsFast t

/-- oracle: `L` lists exactly the concepts of `t` (no duplicates) -/
def conceptsOK (t : Table) (L : Lat) : Bool := nodupPairs L.pairs && sameSet L.pairs (conceptsOracle t)

/-- `{"op":"C06.latT","rows","w","L":lat,"L2":lat}` (`L` = implementation's lattice of `K`, `L2` = its
    lattice of `K.T`) → the model's `L.T` and the oracle verdicts. -/
def latTOp : Handler := fun j => do
  let t ← getTable j
  let L ← latOf (← j.getObjVal? "L")
  let L2 ← latOf (← j.getObjVal? "L2")
  let tt := transpose t
  let M := latT L
  pure (Json.mkObj [
    ("L_ok", Json.bool (conceptsOK t L)),
    ("L_cover_ok", Json.bool (coverOK false L.exts (childrenList L))),
    ("model_T", jLat M),
    ("T_ok", Json.bool (conceptsOK tt M)),
    ("T_cover_ok", Json.bool (coverOK false M.exts (childrenList M))),
    ("L2_ok", Json.bool (conceptsOK tt L2)),
    ("L2_cover_ok", Json.bool (coverOK false L2.exts (childrenList L2)))])

/-- `{"op":"C06.perm","rows","w","pi","sigma","P":lat}` (`P` = implementation's lattice of `K[pi, sigma]`)
    → oracle verdicts on `P`, its relabelled image, and the image's cover relation. -/
def permOp : Handler := fun j => do
  let t ← getTable j
  let pi ← getNatList j "pi"
  let sigma ← getNatList j "sigma"
  let P ← latOf (← j.getObjVal? "P")
  let tp := permute t pi sigma
  let image := P.pairs.map fun p =>
    (canon t.height (p.1.map fun r => pi.getD r 0), canon t.width (p.2.map fun c => sigma.getD c 0))
  pure (Json.mkObj [
    ("P_ok", Json.bool (conceptsOK tp P)),
    ("P_cover_ok", Json.bool (coverOK false P.exts (childrenList P))),
    ("image", jPairs image),
    ("image_ok", Json.bool (nodupPairs image && sameSet image (conceptsOracle t))),
    ("image_cover_ok", Json.bool (coverOK false (image.map (·.1)) (childrenList P)))])

/-- `{"op":"C06.mono","be","rows","w","objs","attrs","hash","Lneg":lat,"LM":lat}` (`Lneg` = implementation's
    lattice of `~K`, `LM` = its monotone lattice of `K`) → the model's monotone lattice built from
    `Lneg`, and the oracle verdicts on `LM`. -/
def monoOp : Handler := fun j => do
  let K ← getCtx j
  let t := K.table
  let hash ← getInt j "hash"
  let Lneg ← latOf (← j.getObjVal? "Lneg")
  let LM ← latOf (← j.getObjVal? "LM")
  let M := fromContextMonotone K hash Lneg
  -- the brute-force enumeration over all pairs of subsets is used up to 2^14 pairs (and cross-checked with
  -- the proved-equivalent enumeration through the complemented table, which is used alone beyond that)
  let small := t.height + t.width ≤ 14
  let fast := if t.width ≤ 12 then monoConceptsFast t else monoConceptsFast2 t
  let mc := if small then monoConcepts t else fast
  let agree := !small || (nodupPairs fast && sameSet fast mc)
  pure (Json.mkObj [
    ("Lneg_ok", Json.bool (conceptsOK (complement t) Lneg)),
    ("Lneg_cover_ok", Json.bool (coverOK false Lneg.exts (childrenList Lneg))),
    ("model", jLat M),
    ("LM_ok", Json.bool (nodupPairs LM.pairs && sameSet LM.pairs mc)),
    ("LM_cover_ok", Json.bool (coverOK true LM.exts (childrenList LM))),
    ("oracles_agree", Json.bool agree),
    ("n_mono", Json.num (JsonNumber.fromNat mc.length))])

/-- `{"op":"C06.order","rows","w","transposed":bool,"L":lat,"parents":[[..]],"desc":[[..]],"anc":[[..]],
     "removed":[[ext,int]..]}` — the implementation's lattice `L` (elements, `children_dict`) together with its
    `parents_dict`, `descendants_dict`, `ancestors_dict`, judged against the table (the transposed table when
    `transposed`): every element is a concept; together with the `removed` pairs they are exactly all concepts;
    children / parents / descendants / ancestors are the lower covers / upper covers / strictly smaller /
    strictly larger elements of extent inclusion among the listed elements. -/
def orderOp : Handler := fun j => do
  let t0 ← getTable j
  let tr ← getBool j "transposed"
  let t := if tr then transpose t0 else t0
  let L ← latOf (← j.getObjVal? "L")
  let parents ← getNatss j "parents"
  let desc ← getNatss j "desc"
  let anc ← getNatss j "anc"
  let removed ← pairsOf (← j.getObjVal? "removed")
  let ps := L.pairs
  let exts := L.exts
  pure (Json.mkObj [
    ("all_concepts", Json.bool (ps.all fun p => isConcept t p.1 p.2)),
    ("complete", Json.bool (nodupPairs (ps ++ removed) && sameSet (ps ++ removed) (conceptsOracle t))),
    ("children_ok", Json.bool (coverOK false exts (childrenList L))),
    ("parents_ok", Json.bool (relOK upperCovers exts parents)),
    ("desc_ok", Json.bool (relOK strictDown exts desc)),
    ("anc_ok", Json.bool (relOK strictUp exts anc))])

/-! ### class H5: a store of context objects through a history (model: `Fca.Model.DualityStore`) -/

def jExceptStrs : Except PyErr (List String) → Json
  | .ok xs => jStrs xs
  | .error e => jErr e

def namesAt (names : List String) (idx : List Nat) : List String := idx.map fun i => names.getD i ""

/-- everything one asks a context object `X` in an observation: its content, `X.T`, `X.T.T` (+ `== X`), `~X`,
    `~~X` (+ `== X`), `X[reversed rows, rotated columns]` — each as the model's value plus the specification
    table — and the derivation operators BY NAME of `X` and of `X.T` for the given index selections (the names are
    those `X` holds now), plus the named prime sets of the specification. -/
def observe (X : Ctx) (so sa : List (List Nat)) : Json :=
  let t := X.table
  let pi := (List.range t.height).reverse
  let sigma := (List.range t.width).drop 1 ++ (List.range t.width).take 1
  let tt := ctxT X >>= ctxT
  let nn := ctxNot X >>= ctxNot
  let eqOf : Except PyErr Ctx → Json := fun r => match r with
    | .ok K2 => jExceptBool (ctxEq K2 X)
    | .error e => jErr e
  let kt := ctxT X
  let tNamed (f : Ctx → Except PyErr (List String)) : Json := match kt with
    | .ok KT => jExceptStrs (f KT)
    | .error e => jErr e
  Json.mkObj [
    ("ctx", jCtx X),
    ("T", jExceptCtx kt), ("T_spec", jBoolss (transpose t).data),
    ("TT", jExceptCtx tt), ("TT_eq", eqOf tt),
    ("not", jExceptCtx (ctxNot X)), ("not_spec", jBoolss (complement t).data),
    ("notnot", jExceptCtx nn), ("notnot_eq", eqOf nn),
    ("get", jExceptCtx (ctxGet X pi sigma)), ("get_spec", jBoolss (permute t pi sigma).data),
    ("pi", jNats pi), ("sigma", jNats sigma),
    ("int", Json.arr (so.map fun A => jExceptStrs (X.intention (namesAt X.objNames A) false)).toArray),
    ("ext", Json.arr (sa.map fun B => jExceptStrs (X.extension (namesAt X.attrNames B) none false)).toArray),
    ("t_ext", Json.arr (so.map fun A => tNamed fun KT => KT.extension (namesAt X.objNames A) none false).toArray),
    ("t_int", Json.arr (sa.map fun B => tNamed fun KT => KT.intention (namesAt X.attrNames B) false).toArray),
    ("spec_int", Json.arr (so.map fun A => jStrs (namesAt X.attrNames (intAll t A))).toArray),
    ("spec_ext", Json.arr (sa.map fun B => jStrs (namesAt X.objNames (extAll t B))).toArray)]

/-- one step of a store history as sent by the harness; `obs` steps are answered, the others run the model -/
inductive StoreStep where
  | op (o : HOp)
  | obs (i : Nat) (so sa : List (List Nat))

def stepOf (be : Backend) (j : Json) : Except String StoreStep := do
  match (← getStr j "o") with
  | "T" => pure (.op (.derive (← getNat j "src") .T))
  | "not" => pure (.op (.derive (← getNat j "src") .not))
  | "get" => pure (.op (.derive (← getNat j "src") (.get (← getNatList j "pi") (← getNatList j "sigma"))))
  | "objs" => pure (.op (.set (← getNat j "i") (.objs (← getStrList j "v"))))
  | "attrs" => pure (.op (.set (← getNat j "i") (.attrs (← getStrList j "v"))))
  | "data" => pure (.op (.set (← getNat j "i") (.data (← getTable j).data)))
  | "fresh" => pure (.op (.fresh ⟨be, ← getTable j, ← getStrList j "objs", ← getStrList j "attrs"⟩))
  | "obs" => pure (.obs (← getNat j "i") (← getNatss j "so") (← getNatss j "sa"))
  | s => throw s!"unknown store step {s}"

/-- run the steps; the replies to the `obs` steps in order.  After a failing step every later observation is
    answered with the error (the harness only sends valid histories, so this never matches an implementation
    that works). -/
def runSteps : Except PyErr (List Ctx) → List StoreStep → List Json → List Json
  | _, [], acc => acc.reverse
  | .error e, .obs _ _ _ :: rest, acc => runSteps (.error e) rest (jErr e :: acc)
  | .error e, .op _ :: rest, acc => runSteps (.error e) rest acc
  | .ok S, .op o :: rest, acc => runSteps (stepStore S o) rest acc
  | .ok S, .obs i so sa :: rest, acc =>
    match S[i]? with
    | some X => runSteps (.ok S) rest (observe X so sa :: acc)
    | none => runSteps (.ok S) rest (jErr .IndexError :: acc)

/-- `{"op":"C06.store","be","root":{rows,w,objs,attrs},"steps":[step..]}` → `{"obs":[observation..]}`;
    the store starts with the single object `root` (slot 0). -/
def storeOp : Handler := fun j => do
  let be ← getBackend j
  let r ← j.getObjVal? "root"
  let root : Ctx := ⟨be, ← getTable r, ← getStrList r "objs", ← getStrList r "attrs"⟩
  let steps ← (← arr (← j.getObjVal? "steps")).mapM (stepOf be)
  pure (Json.mkObj [("obs", Json.arr (runSteps (.ok [root]) steps []).toArray)])

def handlers : List (String × Handler) :=
  [("C06.ctx", ctxOp), ("C06.deriv", derivOp), ("C06.latT", latTOp), ("C06.perm", permOp),
   ("C06.mono", monoOp), ("C06.order", orderOp), ("C06.store", storeOp)]

end Fca.Drv.C06
